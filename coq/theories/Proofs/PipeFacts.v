(* Facts about Model/Pipe.v: run refines eval on well-formed pipelines. *)
From Verif Require Import Base.Prelude Base.StrOrd Base.Graph Model.Pipe Proofs.GraphFacts.
From Coq Require Import Permutation.

(* ---------- association lists ---------- *)
Lemma aget_Some_In l k v : aget l k = Some v -> In (k, v) l.
Proof.
  induction l as [|[k' v'] l IH]; cbn; [discriminate|].
  destruct (str_eqb k k') eqn:E.
  - intros H. inversion H; subst. apply str_eqb_eq in E. subst. now left.
  - intros H. right. auto.
Qed.

Lemma aget_None_iff l k : aget l k = None <-> ~ In k (akeys l).
Proof.
  induction l as [|[k' v'] l IH]; cbn; [tauto|].
  destruct (str_eqb k k') eqn:E.
  - apply str_eqb_eq in E. subst. split; [discriminate|]. intros H. exfalso. apply H. now left.
  - apply str_eqb_neq in E. rewrite IH. split; intros H; [intros [H1|H1]; [congruence|contradiction]|tauto].
Qed.

Lemma aget_In_keys l k v : aget l k = Some v -> In k (akeys l).
Proof. intros H. apply aget_Some_In in H. apply in_map_iff. now exists (k, v). Qed.

Lemma ahas_true_iff l k : ahas l k = true <-> exists v, aget l k = Some v.
Proof. unfold ahas. destruct (aget l k); split; intros H; eauto; try discriminate. now destruct H. Qed.

Lemma ahas_false_iff l k : ahas l k = false <-> aget l k = None.
Proof. unfold ahas. destruct (aget l k); split; intros H; auto; discriminate. Qed.

Lemma ahas_In_keys l k : ahas l k = true <-> In k (akeys l).
Proof.
  split.
  - intros H. apply ahas_true_iff in H as [v H]. eapply aget_In_keys; eauto.
  - intros H. destruct (ahas l k) eqn:E; [reflexivity|]. apply ahas_false_iff, aget_None_iff in E. contradiction.
Qed.

Lemma aget_aset_same l k v : aget (aset l k v) k = Some v.
Proof.
  induction l as [|[k' v'] l IH]; cbn; [now rewrite str_eqb_refl|].
  destruct (str_eqb k k') eqn:E; cbn; rewrite E; [reflexivity|assumption].
Qed.

Lemma aget_aset_other l k k' v : k <> k' -> aget (aset l k v) k' = aget l k'.
Proof.
  intros Hn. induction l as [|[k0 v0] l IH]; cbn.
  - assert (E : str_eqb k' k = false) by (apply str_eqb_neq; congruence). now rewrite E.
  - destruct (str_eqb k k0) eqn:E; cbn; [|now rewrite IH].
    apply str_eqb_eq in E. subst k0.
    assert (E : str_eqb k' k = false) by (apply str_eqb_neq; congruence). now rewrite E.
Qed.

Lemma aget_NoDup_In l k v : NoDup (akeys l) -> In (k, v) l -> aget l k = Some v.
Proof.
  induction l as [|[k' v'] l IH]; cbn; [tauto|]. intros Hnd Hin. inversion Hnd as [|? ? Hn Hnd']; subst.
  destruct Hin as [E|Hin].
  - inversion E; subst. now rewrite str_eqb_refl.
  - destruct (str_eqb k k') eqn:E.
    + apply str_eqb_eq in E. subst. exfalso. apply Hn. apply in_map_iff. now exists (k', v).
    + auto.
Qed.

(* ---------- producer ---------- *)
Lemma producer_Some p o f : producer p o = Some f -> In f p /\ In o (outs f).
Proof.
  unfold producer. intros H. apply find_some in H as [H1 H2]. split; [assumption|]. now apply mem_str_In.
Qed.

Lemma producer_None p o : producer p o = None -> forall f, In f p -> ~ In o (outs f).
Proof.
  unfold producer. intros H f Hf Ho. eapply find_none in H; eauto. cbn in H.
  apply mem_str_not_In in H. contradiction.
Qed.

Lemma in_all_outputs p o : In o (all_outputs p) <-> exists f, In f p /\ In o (outs f).
Proof. unfold all_outputs. rewrite in_flat_map. tauto. Qed.

Lemma producer_unique p : NoDup (all_outputs p) -> forall f o, In f p -> In o (outs f) -> producer p o = Some f.
Proof.
  unfold producer, all_outputs. induction p as [|g p IH]; cbn; intros Hnd f o Hf Ho; [contradiction|].
  destruct (mem_str o (outs g)) eqn:E.
  - apply mem_str_In in E. destruct Hf as [->|Hf]; [reflexivity|].
    exfalso. apply NoDup_app_inv in Hnd as [_ [_ Hd]].
    apply (Hd o E). apply in_flat_map; eauto.
  - apply mem_str_not_In in E. destruct Hf as [->|Hf]; [contradiction|].
    apply IH; auto. now apply NoDup_app_inv in Hnd as [_ [Hnd _]].
Qed.

Lemma is_output_true p o : is_output p o = true <-> exists f, producer p o = Some f.
Proof. unfold is_output. destruct (producer p o); split; intros H; eauto; try discriminate. now destruct H. Qed.

Lemma is_output_false p o : is_output p o = false <-> producer p o = None.
Proof. unfold is_output. destruct (producer p o); split; intros H; auto; discriminate. Qed.

(* ---------- well-formedness, unpacked ---------- *)
Record wf_func_P (f : pfunc) : Prop := {
  wff_outs_ne : outs f <> [];
  wff_outs_nd : NoDup (outs f);
  wff_pn_nd : NoDup (pnames f);
  wff_orig_nd : NoDup (map snd (params f));
  wff_out_par : forall o, In o (outs f) -> ~ In o (pnames f);
  wff_bound_par : forall k, In k (akeys (bound f)) -> In k (pnames f);
}.

Lemma wf_func_elim f : wf_func f = true -> wf_func_P f.
Proof.
  unfold wf_func. rewrite !andb_true_iff. intros [[[[[[[[[H1 H2] H3] H4] H5] H6] H7] H8] H9] H10].
  constructor.
  - destruct (outs f); [discriminate|discriminate].
  - now apply nodup_strb_NoDup.
  - now apply nodup_strb_NoDup.
  - now apply nodup_strb_NoDup.
  - intros o Ho. rewrite forallb_forall in H5. specialize (H5 o Ho). apply negb_true_iff in H5.
    now apply mem_str_not_In.
  - intros k Hk. apply subset_str_incl in H9. auto.
Qed.

Lemma fid_in_outs f : outs f <> [] -> In (fid f) (outs f).
Proof. unfold fid. destruct (outs f); [congruence|]. intros _. now left. Qed.

Definition frank (ls : list (list str)) (f : pfunc) : nat := rank_of ls (fid f).

Record wf_P (p : pipeline) (ls : list (list str)) : Prop := {
  wf_funcs : forall f, In f p -> wf_func_P f;
  wf_outs_nd : NoDup (all_outputs p);
  wf_names_nd : NoDup (map fname p);
  wf_defaults : forall k v, In (k, v) (pdefaults p) -> aget (pdefaults p) k = Some v;
  wf_rank_lt : forall f, In f p -> frank ls f < length p;
  wf_rank_edge : forall f g cur, In f p -> In cur (pnames f) -> ahas (bound f) cur = false ->
                                 producer p cur = Some g -> frank ls g < frank ls f;
}.

Lemma wf_pipeline_elim p : wf_pipeline p -> exists ls, wf_P p ls.
Proof.
  unfold wf_pipeline, wf_pipelineb. rewrite !andb_true_iff. intros [[[[H1 H2] H3] H4] H5].
  unfold acyclicb in H5. destruct (topo_generations (fgraph p)) as [ls|] eqn:Et; [|discriminate].
  exists ls. destruct (topo_rank _ _ Et) as [Hr1 Hr2].
  assert (Hf : forall f, In f p -> wf_func_P f).
  { intros f Hf. apply wf_func_elim. rewrite forallb_forall in H1. auto. }
  assert (Hnd : NoDup (all_outputs p)) by now apply nodup_strb_NoDup.
  constructor; auto.
  - now apply nodup_strb_NoDup.
  - intros k v Hin. unfold consistent_defaults in H4. rewrite forallb_forall in H4.
    specialize (H4 (k, v) Hin). cbn in H4. destruct (aget (pdefaults p) k) as [v'|]; [|discriminate].
    apply str_eqb_eq in H4. now subst.
  - intros f Hf'. unfold frank. specialize (Hr1 (fid f)). cbn in Hr1. rewrite map_length in Hr1.
    apply Hr1. apply in_map. assumption.
  - intros f g cur Hf' Hcur Hb Hg. unfold frank. apply producer_Some in Hg as Hg'. destruct Hg' as [Hg1 Hg2].
    apply Hr2; cbn.
    + now apply in_map.
    + now apply in_map.
    + apply in_flat_map. exists f. split; [assumption|]. apply in_map_iff. exists (fid g). split; [reflexivity|].
      apply dedup_In. apply filter_In. split.
      * unfold fpreds. apply in_flat_map. exists cur. split; [assumption|]. unfold dep_node. rewrite Hb, Hg. now left.
      * apply is_output_true. exists g. apply producer_unique; auto. apply fid_in_outs. apply (Hf g Hg1).
Qed.

Lemma pdefault_eq p ls : wf_P p ls -> forall k, pdefault p k = default_of p k.
Proof.
  intros Hwf k. unfold pdefault, default_of. destruct (aget (rev (pdefaults p)) k) as [v|] eqn:E.
  - apply aget_Some_In in E. apply in_rev in E. symmetry. now apply (wf_defaults _ _ Hwf).
  - symmetry. apply aget_None_iff. apply aget_None_iff in E. intros H. apply E.
    unfold akeys in *. rewrite map_rev. now apply -> in_rev.
Qed.

Lemma fname_inj p ls : wf_P p ls -> forall f g, In f p -> In g p -> fname f = fname g -> f = g.
Proof.
  intros Hwf. pose proof (wf_names_nd _ _ Hwf) as Hnd. clear Hwf.
  induction p as [|h p IH]; intros f g Hf Hg E; [contradiction|].
  cbn in Hnd. inversion Hnd as [|? ? Hn Hnd']; subst.
  destruct Hf as [->|Hf], Hg as [->|Hg]; auto.
  - exfalso. apply Hn. rewrite E. now apply in_map.
  - exfalso. apply Hn. rewrite <- E. now apply in_map.
Qed.

Lemma mapM_ext_in {A B} (f g : A -> result B) l : (forall x, In x l -> f x = g x) -> mapM f l = mapM g l.
Proof.
  induction l as [|x l IH]; intros H; cbn; [reflexivity|].
  rewrite (H x) by now left. destruct (g x); cbn; [|reflexivity]. rewrite IH; [reflexivity|].
  intros y Hy. apply H. now right.
Qed.

Lemma flat_map_ext_in' {A B} (f g : A -> list B) l : (forall x, In x l -> f x = g x) -> flat_map f l = flat_map g l.
Proof.
  induction l as [|x l IH]; intros H; cbn; [reflexivity|]. rewrite (H x) by now left.
  rewrite IH; [reflexivity|]. intros y Hy. apply H. now right.
Qed.

(* ---------- update_all_results ---------- *)
Section Update.
  Variable pick : str -> str -> str.

  Lemma upd_multi_get r k : forall l rs,
    aget (fold_left (fun acc n => if ahas acc n then acc else aset acc n (pick n r)) l rs) k =
    if mem_str k l then match aget rs k with Some v => Some v | None => Some (pick k r) end else aget rs k.
  Proof.
    induction l as [|x l IH]; intros rs; cbn; [reflexivity|].
    rewrite IH. destruct (str_eqb k x) eqn:E; cbn.
    - apply str_eqb_eq in E. subst x. destruct (ahas rs k) eqn:Eh.
      + apply ahas_true_iff in Eh as [v Eh]. rewrite Eh. now destruct (mem_str k l).
      + apply ahas_false_iff in Eh. rewrite Eh, aget_aset_same. now destruct (mem_str k l).
    - apply str_eqb_neq in E. destruct (ahas rs x); [reflexivity|].
      rewrite aget_aset_other by congruence. reflexivity.
  Qed.

  Lemma single_outs f : wf_func_P f -> multi f = false -> outs f = [fid f].
  Proof.
    intros Hf Hm. unfold multi in Hm. apply Nat.ltb_ge in Hm. pose proof (wff_outs_ne _ Hf) as Hne.
    unfold fid. destruct (outs f) as [|x [|y l]]; cbn in *; [congruence|reflexivity|lia].
  Qed.

  Lemma update_get_other f r rs k : wf_func_P f -> ~ In k (outs f) ->
    aget (update_all_results pick f r rs) k = aget rs k.
  Proof.
    intros Hf Hk. unfold update_all_results. destruct (multi f) eqn:Em.
    - rewrite upd_multi_get. apply mem_str_not_In in Hk. now rewrite Hk.
    - rewrite aget_aset_other; [reflexivity|]. intros E. apply Hk. rewrite (single_outs f Hf Em), <- E. now left.
  Qed.

  Lemma update_get_new f r rs k : wf_func_P f -> In k (outs f) -> aget rs k = None ->
    aget (update_all_results pick f r rs) k = Some (route pick f k r).
  Proof.
    intros Hf Hk Hn. unfold update_all_results, route. destruct (multi f) eqn:Em.
    - rewrite upd_multi_get. apply mem_str_In in Hk. now rewrite Hk, Hn.
    - rewrite (single_outs f Hf Em) in Hk. destruct Hk as [<-|[]]. apply aget_aset_same.
  Qed.

  Lemma update_get_old f r rs k v : wf_func_P f -> aget rs k = Some v -> k <> fid f \/ multi f = true ->
    aget (update_all_results pick f r rs) k = Some v.
  Proof.
    intros Hf Hv Hc. unfold update_all_results. destruct (multi f) eqn:Em.
    - rewrite upd_multi_get, Hv. now destruct (mem_str k (outs f)).
    - destruct Hc as [Hc|Hc]; [|discriminate]. rewrite aget_aset_other; congruence.
  Qed.
  Lemma update_has_mono f r rs k : ahas rs k = true -> ahas (update_all_results pick f r rs) k = true.
  Proof.
    intros H. apply ahas_true_iff in H as [v H]. apply ahas_true_iff. unfold update_all_results.
    destruct (multi f).
    - rewrite upd_multi_get, H. destruct (mem_str k (outs f)); eauto.
    - destruct (str_eq_dec (fid f) k) as [<-|Hn]; [rewrite aget_aset_same; eauto|].
      rewrite aget_aset_other by assumption. eauto.
  Qed.
End Update.

(* ====================================================================================================
   The refinement proof: run_out against eval / needed.
   ==================================================================================================== *)
Section Master.
  Variable body : str -> alist -> result str.
  Variable pick : str -> str -> str.
  Variable p : pipeline.
  Variable kw : alist.
  Variable ls : list (list str).
  Hypothesis Hwf : wf_P p ls.

  Let EV (n : nat) (o : str) : result str := eval body pick n p kw o.
  Let AV (n : nat) (f : pfunc) (cur : str) : result str := arg_val (eval body pick n p kw) p kw f cur.
  Let F (n : nat) (f : pfunc) (po : str * str) : result (str * str) := do v <- AV n f (fst po); Ok (snd po, v).
  Let ARGS (n : nat) (f : pfunc) : result alist := args_with (eval body pick n p kw) p kw f.
  Let N : nat := S (length p).

  Definition rk (o : str) : nat := match producer p o with Some f => frank ls f | None => 0 end.

  Lemma rk_producer o f : producer p o = Some f -> rk o = frank ls f.
  Proof. unfold rk. now intros ->. Qed.

  Lemma eval_S n o :
    EV (S n) o = match producer p o with
                 | None => Err KeyError
                 | Some f => do args <- ARGS n f; do r <- body (fname f) args; Ok (route pick f o r)
                 end.
  Proof. reflexivity. Qed.

  Lemma source_SUp f cur g : source_of p kw f cur = SUp g ->
    aget (bound f) cur = None /\ aget kw cur = None /\ producer p cur = Some g.
  Proof.
    unfold source_of. destruct (aget (bound f) cur); [discriminate|]. destruct (aget kw cur); [discriminate|].
    destruct (producer p cur) eqn:E; [|destruct (default_of p cur); discriminate].
    intros H. inversion H; subst. auto.
  Qed.

  Lemma source_SUp_intro f cur g : aget (bound f) cur = None -> aget kw cur = None -> producer p cur = Some g ->
    source_of p kw f cur = SUp g.
  Proof. unfold source_of. now intros -> -> ->. Qed.

  (* fuel independence of the specification above the rank *)
  Lemma AV_fuel f : In f p -> forall n m cur,
    (forall o, rk o < n -> rk o < m -> EV n o = EV m o) ->
    In cur (pnames f) -> frank ls f <= n -> frank ls f <= m -> AV n f cur = AV m f cur.
  Proof.
    intros Hf n m cur IH Hcur Hn Hm. unfold AV, arg_val.
    destruct (aget (bound f) cur) eqn:Eb; [reflexivity|]. destruct (aget kw cur) eqn:Ek; [reflexivity|].
    destruct (is_output p cur) eqn:Eo; [|reflexivity].
    apply is_output_true in Eo as [g Eg]. apply IH.
    - rewrite (rk_producer _ _ Eg). pose proof (wf_rank_edge _ _ Hwf f g cur Hf Hcur). rewrite <- ahas_false_iff in Eb. specialize (H Eb Eg). lia.
    - rewrite (rk_producer _ _ Eg). pose proof (wf_rank_edge _ _ Hwf f g cur Hf Hcur). rewrite <- ahas_false_iff in Eb. specialize (H Eb Eg). lia.
  Qed.

  Lemma eval_fuel : forall n m o, rk o < n -> rk o < m -> EV n o = EV m o.
  Proof.
    induction n as [|n IH]; intros m o Hn Hm; [lia|]. destruct m as [|m]; [lia|].
    rewrite !eval_S. destruct (producer p o) as [f|] eqn:Ef; [|reflexivity].
    rewrite (rk_producer _ _ Ef) in *. apply producer_Some in Ef as [Hf _].
    assert (E : ARGS n f = ARGS m f).
    { unfold ARGS, args_with. apply mapM_ext_in. intros [cur orig] Hin. cbn.
      change (arg_val (eval body pick n p kw) p kw f cur) with (AV n f cur).
      change (arg_val (eval body pick m p kw) p kw f cur) with (AV m f cur).
      rewrite (AV_fuel f Hf n m cur); [reflexivity| | |lia|lia].
      - intros o' H1 H2. apply IH; assumption.
      - apply in_map_iff. now exists (cur, orig). }
    now rewrite E.
  Qed.

  Lemma ARGS_fuel f n m : In f p -> frank ls f <= n -> frank ls f <= m -> ARGS n f = ARGS m f.
  Proof.
    intros Hf Hn Hm. unfold ARGS, args_with. apply mapM_ext_in. intros [cur orig] Hin. cbn.
    change (arg_val (eval body pick n p kw) p kw f cur) with (AV n f cur).
    change (arg_val (eval body pick m p kw) p kw f cur) with (AV m f cur).
    rewrite (AV_fuel f Hf n m cur); [reflexivity| | |lia|lia].
    - intros o' H1 H2. now apply eval_fuel.
    - apply in_map_iff. now exists (cur, orig).
  Qed.

  Lemma rk_lt_N o : rk o < N.
  Proof.
    unfold rk, N. destruct (producer p o) as [f|] eqn:E; [|lia].
    apply producer_Some in E as [Hf _]. pose proof (wf_rank_lt _ _ Hwf f Hf). lia.
  Qed.

  (* ---------- needed ---------- *)
  Lemma needed_S n o :
    needed (S n) p kw o = match producer p o with
                          | None => []
                          | Some f => f :: flat_map (fun cur => match source_of p kw f cur with
                                                                | SUp _ => needed n p kw cur
                                                                | _ => []
                                                                end) (pnames f)
                          end.
  Proof. reflexivity. Qed.

  Lemma needed_in_p : forall n o g, In g (needed n p kw o) -> In g p.
  Proof.
    induction n as [|n IH]; intros o g H; [contradiction|]. rewrite needed_S in H.
    destruct (producer p o) as [f|] eqn:Ef; [|contradiction]. destruct H as [<-|H].
    - now apply producer_Some in Ef.
    - apply in_flat_map in H as [cur [_ H]]. destruct (source_of p kw f cur); try contradiction. eauto.
  Qed.

  Lemma needed_rank : forall n o g, In g (needed n p kw o) -> frank ls g <= rk o.
  Proof.
    induction n as [|n IH]; intros o g H; [contradiction|]. rewrite needed_S in H.
    destruct (producer p o) as [f|] eqn:Ef; [|contradiction]. rewrite (rk_producer _ _ Ef).
    destruct H as [<-|H]; [lia|].
    apply in_flat_map in H as [cur [Hcur H]]. destruct (source_of p kw f cur) eqn:Es; try contradiction.
    apply source_SUp in Es as [Eb [Ek Eg]]. apply IH in H. rewrite (rk_producer _ _ Eg) in H.
    apply producer_Some in Ef as [Hf _]. rewrite <- ahas_false_iff in Eb.
    pose proof (wf_rank_edge _ _ Hwf f g0 cur Hf Hcur Eb Eg). lia.
  Qed.

  Lemma needed_fuel : forall n m o, rk o < n -> rk o < m -> needed n p kw o = needed m p kw o.
  Proof.
    induction n as [|n IH]; intros m o Hn Hm; [lia|]. destruct m as [|m]; [lia|].
    rewrite !needed_S. destruct (producer p o) as [f|] eqn:Ef; [|reflexivity]. f_equal.
    rewrite (rk_producer _ _ Ef) in *. apply producer_Some in Ef as [Hf _].
    apply flat_map_ext_in'. intros cur Hcur. destruct (source_of p kw f cur) eqn:Es; try reflexivity.
    apply source_SUp in Es as [Eb [Ek Eg]]. rewrite <- ahas_false_iff in Eb.
    pose proof (wf_rank_edge _ _ Hwf f g cur Hf Hcur Eb Eg). apply IH; rewrite (rk_producer _ _ Eg); lia.
  Qed.

  (* ---------- the invariant of the memo / log state ---------- *)
  Definition logged (st : rstate) (f : pfunc) : Prop := In (fname f) (map fst (log st)).

  (* every logged call has all the producers of its upstream-fed parameters logged before it *)
  Fixpoint ordered (l : list call) (seen : list str) : Prop :=
    match l with
    | [] => True
    | c :: t => (forall f g, In f p -> fst c = fname f -> In g (ups p kw f) -> In (fname g) seen)
                /\ ordered t (seen ++ [fst c])
    end.

  Lemma ordered_app l1 : forall l2 seen,
    ordered (l1 ++ l2) seen <-> ordered l1 seen /\ ordered l2 (seen ++ map fst l1).
  Proof.
    induction l1 as [|c l1 IH]; intros l2 seen; cbn.
    - rewrite app_nil_r. tauto.
    - rewrite IH. rewrite <- app_assoc. cbn. tauto.
  Qed.

  Lemma ordered_split l : forall seen l1 c l2, ordered l seen -> l = l1 ++ c :: l2 ->
    forall f g, In f p -> fst c = fname f -> In g (ups p kw f) -> In (fname g) (seen ++ map fst l1).
  Proof.
    intros seen l1 c l2 H ->. apply ordered_app in H as [_ H]. cbn in H. destruct H as [H _]. exact H.
  Qed.

  Record Inv (st : rstate) : Prop := {
    inv_kw : forall k v, aget kw k = Some v -> aget (res st) k = Some v;
    inv_sound : forall k v, aget kw k = None -> aget (res st) k = Some v ->
                exists f, producer p k = Some f /\ logged st f /\ EV N k = Ok v;
    inv_complete : forall f o, In f p -> logged st f -> In o (outs f) -> ahas (res st) o = true;
    inv_nodup : NoDup (map fst (log st));
    inv_entry : forall c, In c (log st) -> exists f, In f p /\ fst c = fname f /\ ARGS (length p) f = Ok (snd c);
    inv_order : ordered (log st) [];
  }.

  Lemma Inv_init : Inv (init_state kw).
  Proof.
    constructor; cbn.
    - auto.
    - intros k v H1 H2. congruence.
    - intros f o _ [].
    - constructor.
    - intros c [].
    - exact I.
  Qed.

  Lemma inv_closed st : Inv st -> forall f g, In f p -> logged st f -> In g (ups p kw f) -> logged st g.
  Proof.
    intros HI f g Hf Hl Hg. unfold logged in Hl. apply in_map_iff in Hl as [c [Hc1 Hc2]].
    apply in_split in Hc2 as [l1 [l2 Hs]].
    pose proof (ordered_split _ _ _ _ _ (inv_order _ HI) Hs f g Hf Hc1 Hg) as H. cbn in H.
    unfold logged. rewrite Hs, map_app, in_app_iff. now left.
  Qed.

  Lemma ups_in f g : In g (ups p kw f) <-> exists cur, In cur (pnames f) /\ source_of p kw f cur = SUp g.
  Proof.
    unfold ups. rewrite in_flat_map. split; intros [cur [H1 H2]]; exists cur; split; auto.
    - destruct (source_of p kw f cur); try contradiction. destruct H2 as [->|[]]. reflexivity.
    - rewrite H2. now left.
  Qed.

  Lemma needed_logged st : Inv st -> forall n o f, producer p o = Some f -> logged st f ->
    forall g, In g (needed n p kw o) -> logged st g.
  Proof.
    intros HI. induction n as [|n IH]; intros o f Ef Hl g Hg; [contradiction|].
    rewrite needed_S, Ef in Hg. destruct Hg as [<-|Hg]; [assumption|].
    apply in_flat_map in Hg as [cur [Hcur Hg]]. destruct (source_of p kw f cur) as [| |h| |] eqn:Es; try contradiction.
    apply producer_Some in Ef as [Hf _].
    assert (Hh : logged st h). { eapply inv_closed; eauto. apply ups_in. eauto. }
    apply source_SUp in Es as [_ [_ Eh]]. eapply IH; eauto.
  Qed.

  (* what one call of run_out / get_args adds *)
  Record Delta (st st' : rstate) (new : list call) : Prop := {
    d_log : log st' = log st ++ new;
    d_used : forall k, In k (used st') <-> In k (used st) \/ exists g, In g p /\ In (fname g) (map fst new) /\ In k (pnames g);
    d_res : forall k v, aget (res st) k = Some v -> aget (res st') k = Some v;
  }.

  Definition Post (n : nat) (st : rstate) (o : str) (st' : rstate) (r : result str) : Prop :=
    r = EV n o /\
    forall v, r = Ok v ->
      Inv st' /\ exists new, Delta st st' new
        /\ (forall c, In c new -> exists g, In g (needed n p kw o) /\ fst c = fname g)
        /\ (forall g, In g (needed n p kw o) -> logged st' g).

  Lemma Inv_use st k : Inv st -> Inv (st_use st k).
  Proof. intros [H1 H2 H3 H4 H5 H6]. constructor; cbn; assumption. Qed.

  Lemma logged_mono st st' new g : log st' = log st ++ new -> logged st g -> logged st' g.
  Proof. unfold logged. intros -> H. rewrite map_app, in_app_iff. now left. Qed.

  Definition RecOK (n : nat) : Prop :=
    forall st o st' r, Inv st -> rk o < n -> aget kw o = None ->
      run_out body pick p kw n st o = (st', r) -> Post n st o st' r.

  Lemma needed_head n cur h : producer p cur = Some h -> In h (needed (S n) p kw cur).
  Proof. intros E. rewrite needed_S, E. now left. Qed.

  Lemma resolve_spec n f st cur st1 rv :
    RecOK n -> In f p -> frank ls f <= n -> In cur (pnames f) -> Inv st ->
    resolve p kw (run_out body pick p kw n) f st cur = (st1, rv) ->
    rv = AV n f cur /\
    forall v, rv = Ok v ->
      Inv st1 /\ exists new, Delta st st1 new
        /\ (forall c, In c new -> exists h g, source_of p kw f cur = SUp h /\ In g (needed n p kw cur) /\ fst c = fname g)
        /\ (forall h g, source_of p kw f cur = SUp h -> In g (needed n p kw cur) -> logged st1 g).
  Proof.
    intros Hrec Hf Hn Hcur HI. unfold resolve, AV, arg_val.
    assert (Htriv : forall st0, Delta st0 st0 []).
    { intros st0. constructor; [now rewrite app_nil_r| |auto]. intros k. split; [auto|]. intros [H|[g [_ [[] _]]]]. exact H. }
    assert (Hnoup : (forall h, source_of p kw f cur <> SUp h) -> forall v : str,
              Inv st -> Inv st /\ exists new, Delta st st new
                /\ (forall c, In c new -> exists h g, source_of p kw f cur = SUp h /\ In g (needed n p kw cur) /\ fst c = fname g)
                /\ (forall h g, source_of p kw f cur = SUp h -> In g (needed n p kw cur) -> logged st g)).
    { intros Hno v HI0. split; [assumption|]. exists []. split; [apply Htriv|]. split; [intros c []|].
      intros h g E. exfalso. eapply Hno; eauto. }
    destruct (aget (bound f) cur) as [b|] eqn:Eb.
    { intros H. inversion H; subst. split; [reflexivity|]. intros v _. apply Hnoup; auto.
      intros h. unfold source_of. rewrite Eb. discriminate. }
    destruct (aget kw cur) as [v0|] eqn:Ek.
    { intros H. inversion H; subst. split; [reflexivity|]. intros v _. apply Hnoup; auto.
      intros h. unfold source_of. rewrite Eb, Ek. discriminate. }
    destruct (is_output p cur) eqn:Eo.
    - apply is_output_true in Eo as [h Eh]. intros Hrun.
      assert (Hr : rk cur < n).
      { rewrite (rk_producer _ _ Eh). rewrite <- ahas_false_iff in Eb.
        pose proof (wf_rank_edge _ _ Hwf f h cur Hf Hcur Eb Eh). lia. }
      destruct (Hrec st cur st1 rv HI Hr Ek Hrun) as [Hv Hpost]. split; [exact Hv|].
      intros v Ev. destruct (Hpost v Ev) as [HI1 [new [Hd [Hsub Hall]]]]. split; [assumption|].
      exists new. split; [exact Hd|]. split.
      + intros c Hc. destruct (Hsub c Hc) as [g [Hg1 Hg2]]. exists h, g.
        split; [now apply source_SUp_intro|]. auto.
      + intros h' g E Hg. auto.
    - apply is_output_false in Eo. rewrite (pdefault_eq p ls Hwf).
      assert (Hno : forall h, source_of p kw f cur <> SUp h).
      { intros h. unfold source_of. rewrite Eb, Ek, Eo. destruct (default_of p cur); discriminate. }
      destruct (default_of p cur) as [d|] eqn:Ed; intros H; inversion H; subst; (split; [reflexivity|]); intros v Hv; [|discriminate].
      apply Hnoup; auto.
  Qed.

  Definition ArgsPost (n : nat) (f : pfunc) (ps : list (str * str)) (st st' : rstate) : Prop :=
    Inv st' /\ exists new, log st' = log st ++ new
      /\ (forall k, In k (used st') <-> In k (used st) \/ In k (map fst ps)
                                        \/ exists g, In g p /\ In (fname g) (map fst new) /\ In k (pnames g))
      /\ (forall k v, aget (res st) k = Some v -> aget (res st') k = Some v)
      /\ (forall c, In c new -> exists cur h g, In cur (map fst ps) /\ source_of p kw f cur = SUp h
                                               /\ In g (needed n p kw cur) /\ fst c = fname g)
      /\ (forall cur h g, In cur (map fst ps) -> source_of p kw f cur = SUp h -> In g (needed n p kw cur) -> logged st' g).

  Lemma get_args_spec n f : RecOK n -> In f p -> frank ls f <= n ->
    forall ps st acc st' ra, incl (map fst ps) (pnames f) -> Inv st ->
    get_args p kw (run_out body pick p kw n) f ps st acc = (st', ra) ->
    ra = (do l <- mapM (F n f) ps; Ok (acc ++ l)) /\
    forall args, ra = Ok args -> ArgsPost n f ps st st'.
  Proof.
    intros Hrec Hf Hn. induction ps as [|[cur orig] t IH]; intros st acc st' ra Hincl HI Hga.
    - cbn in Hga. inversion Hga; subst. cbn. rewrite app_nil_r. split; [reflexivity|]. intros args _.
      split; [assumption|]. exists []. rewrite app_nil_r. split; [reflexivity|]. split.
      { intros k. cbn. split; [auto|]. intros [H|[[]|[g [_ [[] _]]]]]. exact H. }
      split; [auto|]. split; [intros c []|]. intros cur h g [].
    - cbn [get_args] in Hga. destruct (resolve p kw (run_out body pick p kw n) f st cur) as [st1 rv] eqn:Er.
      assert (Hcur : In cur (pnames f)) by (apply Hincl; now left).
      destruct (resolve_spec n f st cur st1 rv Hrec Hf Hn Hcur HI Er) as [Hv Hpost].
      cbn [mapM]. unfold F at 1. cbn [fst snd]. rewrite <- Hv.
      destruct rv as [v|e].
      + destruct (Hpost v eq_refl) as [HI1 [new1 [Hd1 [Hsub1 Hall1]]]].
        assert (Hincl' : incl (map fst t) (pnames f)) by (intros x Hx; apply Hincl; now right).
        destruct (IH (st_use st1 cur) (acc ++ [(orig, v)]) st' ra Hincl' (Inv_use _ _ HI1) Hga) as [Hra Hpost2].
        split.
        { rewrite Hra. cbn. destruct (mapM (F n f) t); cbn; [|reflexivity]. now rewrite <- app_assoc. }
        intros args Ea. destruct (Hpost2 args Ea) as [HI2 [new2 [Hl2 [Hu2 [Hr2 [Hsub2 Hall2]]]]]].
        split; [assumption|]. exists (new1 ++ new2). cbn [st_use log used res] in *.
        split. { rewrite Hl2, (d_log _ _ _ Hd1). now rewrite app_assoc. }
        split.
        { intros k. rewrite Hu2. cbn [In]. rewrite (d_used _ _ _ Hd1 k). rewrite map_app. cbn [map fst].
          split.
          - intros [[E|[H|[g [G1 [G2 G3]]]]]|[H|[g [G1 [G2 G3]]]]].
            + right. left. now left.
            + now left.
            + right. right. exists g. rewrite in_app_iff. auto.
            + right. left. now right.
            + right. right. exists g. rewrite in_app_iff. auto.
          - intros [H|[[E|H]|[g [G1 [G2 G3]]]]].
            + left. right. now left.
            + left. now left.
            + right. now left.
            + rewrite in_app_iff in G2. destruct G2 as [G2|G2].
              * left. right. right. exists g. auto.
              * right. right. exists g. auto. }
        split. { intros k v0 H. apply Hr2. now apply (d_res _ _ _ Hd1). }
        split.
        { intros c Hc. apply in_app_iff in Hc as [Hc|Hc].
          - destruct (Hsub1 c Hc) as [h [g [G1 [G2 G3]]]]. exists cur, h, g. cbn. auto.
          - destruct (Hsub2 c Hc) as [cur' [h [g [G0 [G1 [G2 G3]]]]]]. exists cur', h, g. cbn. auto. }
        intros cur' h g [<-|Hc] Es Hg.
        * eapply logged_mono; [exact Hl2|]. cbn. eapply Hall1; eauto.
        * eapply Hall2; eauto.
      + inversion Hga; subst. split; [reflexivity|]. intros args Ea. discriminate.
  Qed.

  Lemma Delta_nil st : Delta st st [].
  Proof.
    constructor; [now rewrite app_nil_r| |auto]. intros k. split; [auto|]. intros [H|[g [_ [[] _]]]]. exact H.
  Qed.

  Lemma run_out_spec : forall n, RecOK n.
  Proof.
    induction n as [|n IH]; intros st o st' r HI Hrk Hkw Hrun; [lia|]. unfold Post.
    cbn [run_out] in Hrun.
    destruct (aget (res st) o) as [v0|] eqn:Eres.
    { (* memo hit *)
      inversion Hrun; subst st' r. clear Hrun.
      destruct (inv_sound _ HI o v0 Hkw Eres) as [f [Ef [Hl Hev]]].
      split. { rewrite <- Hev. symmetry. apply eval_fuel; [assumption|apply rk_lt_N]. }
      intros v _. split; [assumption|]. exists []. split; [apply Delta_nil|]. split; [intros c []|].
      intros g Hg. eapply needed_logged; eauto. }
    destruct (producer p o) as [f|] eqn:Ef.
    2: { inversion Hrun; subst. split; [now rewrite eval_S, Ef|]. intros v H; discriminate. }
    destruct (get_args p kw (run_out body pick p kw n) f (params f) st []) as [st1 ra] eqn:Ega.
    pose proof (producer_Some _ _ _ Ef) as [Hf Ho].
    pose proof (wf_funcs _ _ Hwf f Hf) as Hff.
    assert (Hfn : frank ls f <= n). { rewrite (rk_producer _ _ Ef) in Hrk. lia. }
    destruct (get_args_spec n f IH Hf Hfn (params f) st [] st1 ra (incl_refl _) HI Ega) as [Hra Hpost].
    assert (Hra' : ra = ARGS n f).
    { rewrite Hra. unfold ARGS, args_with. change (fun po : str * str => do v <- arg_val (eval body pick n p kw) p kw f (fst po); Ok (snd po, v)) with (F n f).
      destruct (mapM (F n f) (params f)); reflexivity. }
    rewrite eval_S, Ef, <- Hra'.
    destruct ra as [args|e].
    2: { inversion Hrun; subst. split; [reflexivity|]. intros; discriminate. }
    destruct (Hpost args eq_refl) as [HI1 [new [Hl1 [Hu1 [Hr1 [Hsub1 Hall1]]]]]].
    cbn [bind].
    destruct (body (fname f) args) as [r0|e] eqn:Eb.
    2: { inversion Hrun; subst. split; [reflexivity|]. intros; discriminate. }
    (* key facts *)
    assert (K1 : ~ logged st1 f).
    { unfold logged. rewrite Hl1, map_app, in_app_iff. intros [H|H].
      - assert (Hh : ahas (res st) o = true) by (eapply inv_complete; eauto).
        apply ahas_true_iff in Hh as [v Hh]. congruence.
      - apply in_map_iff in H as [c [Hc1 Hc2]]. destruct (Hsub1 c Hc2) as [cur [h [g [G0 [G1 [G2 G3]]]]]].
        assert (g = f).
        { eapply fname_inj; eauto; [eapply needed_in_p; eauto|congruence]. }
        subst g. apply needed_rank in G2. apply source_SUp in G1 as [Eb1 [Ek1 Eh1]].
        rewrite (rk_producer _ _ Eh1) in G2. rewrite <- ahas_false_iff in Eb1.
        pose proof (wf_rank_edge _ _ Hwf f h cur Hf G0 Eb1 Eh1). lia. }
    assert (K2 : forall o', In o' (outs f) -> aget kw o' = None -> aget (res st1) o' = None).
    { intros o' Ho' Hk'. destruct (aget (res st1) o') as [v|] eqn:E; [|reflexivity].
      destruct (inv_sound _ HI1 o' v Hk' E) as [f' [Ef' [Hl' _]]].
      rewrite (producer_unique p (wf_outs_nd _ _ Hwf) f o' Hf Ho') in Ef'. inversion Ef'; subst f'. contradiction. }
    set (rs := update_all_results pick f r0 (res st1)).
    assert (K3 : forall k v, aget (res st1) k = Some v -> aget rs k = Some v).
    { intros k v Hv. apply update_get_old; [assumption|assumption|].
      destruct (multi f) eqn:Em; [now right|left]. intros ->.
      rewrite (single_outs f Hff Em) in Ho. destruct Ho as [Ho|[]]. rewrite Ho in Hv.
      rewrite (K2 o) in Hv; [discriminate| |assumption]. rewrite (single_outs f Hff Em), Ho. now left. }
    assert (K4 : ARGS (length p) f = Ok args).
    { rewrite (ARGS_fuel f (length p) n Hf); [now symmetry| |assumption].
      pose proof (wf_rank_lt _ _ Hwf f Hf). lia. }
    assert (K5 : forall k, In k (outs f) -> aget kw k = None -> EV N k = Ok (route pick f k r0)).
    { intros k Hk Hkk. unfold N. rewrite eval_S.
      rewrite (producer_unique p (wf_outs_nd _ _ Hwf) f k Hf Hk). rewrite K4. cbn [bind]. rewrite Eb. reflexivity. }
    unfold st_res, st_log in Hrun. cbn [res log used] in Hrun.
    fold rs in Hrun.
    assert (Ero : aget rs o = Some (route pick f o r0)).
    { apply update_get_new; auto. }
    rewrite Ero in Hrun. inversion Hrun; subst st' r. clear Hrun.
    split; [reflexivity|]. intros v Ev. inversion Ev; subst v. clear Ev.
    assert (Hlog3 : forall g, logged {| res := rs; used := used st1; log := log st1 ++ [(fname f, args)] |} g
                              <-> logged st1 g \/ fname g = fname f).
    { intros g. unfold logged. cbn. rewrite map_app, in_app_iff. cbn. intuition. }
    split.
    { (* Inv *)
      constructor; cbn [res log used].
      - intros k v Hk. apply K3. eapply inv_kw; eauto.
      - intros k v Hk Hv. destruct (in_dec str_eq_dec k (outs f)) as [Hin|Hnin].
        + exists f. split; [apply producer_unique; auto; apply (wf_outs_nd _ _ Hwf)|]. split; [apply Hlog3; now right|].
          unfold rs in Hv. rewrite update_get_new in Hv; auto. inversion Hv; subst. now apply K5.
        + unfold rs in Hv. rewrite update_get_other in Hv by assumption.
          destruct (inv_sound _ HI1 k v Hk Hv) as [f' [E1 [E2 E3]]]. exists f'. split; [assumption|]. split; [|assumption].
          apply Hlog3. now left.
      - intros g o' Hg Hlg Ho'. apply Hlog3 in Hlg as [Hlg|Hlg].
        + apply update_has_mono. eapply inv_complete; eauto.
        + assert (g = f) by (eapply fname_inj; eauto). subst g.
          destruct (aget (res st1) o') as [v|] eqn:E.
          * apply ahas_true_iff. exists v. now apply K3.
          * apply ahas_true_iff. exists (route pick f o' r0). apply update_get_new; auto.
      - rewrite map_app. cbn. apply NoDup_app_intro; [apply (inv_nodup _ HI1)|constructor; [intros []|constructor]|].
        intros x Hx [<-|[]]. apply K1. exact Hx.
      - intros c Hc. apply in_app_iff in Hc as [Hc|[<-|[]]]; [now apply (inv_entry _ HI1)|].
        exists f. cbn. auto.
      - apply ordered_app. split; [apply (inv_order _ HI1)|]. cbn. split; [|exact I].
        intros f' g Hf' Efn Hg. assert (f' = f) by (eapply fname_inj; eauto). subst f'.
        apply ups_in in Hg as [cur [Hcur Es]]. apply source_SUp in Es as Es'. destruct Es' as [Eb1 [Ek1 Eg1]].
        assert (Hn1 : exists n', n = S n').
        { rewrite <- ahas_false_iff in Eb1. pose proof (wf_rank_edge _ _ Hwf f g cur Hf Hcur Eb1 Eg1).
          destruct n; [lia|eauto]. }
        destruct Hn1 as [n' ->]. apply (Hall1 cur g g); [exact Hcur|exact Es|now apply needed_head]. }
    exists (new ++ [(fname f, args)]). split.
    { constructor; cbn [res log used].
      - rewrite Hl1. now rewrite app_assoc.
      - intros k. rewrite Hu1. rewrite map_app. cbn [map fst]. split.
        + intros [H|[H|[g [G1 [G2 G3]]]]]; [now left| |].
          * right. exists f. rewrite in_app_iff. cbn. auto.
          * right. exists g. rewrite in_app_iff. auto.
        + intros [H|[g [G1 [G2 G3]]]]; [now left|]. rewrite in_app_iff in G2. destruct G2 as [G2|[G2|[]]].
          * right. right. exists g. auto.
          * assert (g = f) by (eapply fname_inj; eauto). subst g. right. now left.
      - intros k v Hv. apply K3. auto. }
    split.
    - intros c Hc. rewrite needed_S, Ef. apply in_app_iff in Hc as [Hc|[<-|[]]].
      + destruct (Hsub1 c Hc) as [cur [h [g [G0 [G1 [G2 G3]]]]]]. exists g. split; [|assumption].
        right. apply in_flat_map. exists cur. split; [exact G0|]. now rewrite G1.
      + exists f. split; [now left|reflexivity].
    - intros g Hg. rewrite needed_S, Ef in Hg. apply Hlog3. destruct Hg as [<-|Hg]; [now right|left].
      apply in_flat_map in Hg as [cur [Hcur Hg]]. destruct (source_of p kw f cur) as [| |h| |] eqn:Es; try contradiction.
      eapply Hall1; eauto.
  Qed.

  (* ---------- consequences for a whole run ---------- *)
  Lemma run_out_top o : aget kw o = None ->
    exists st, run_out body pick p kw N (init_state kw) o = (st, EV N o) /\
      forall v, EV N o = Ok v ->
        Inv st
        /\ (forall k, In k (used st) <-> In k (param_names_needed p kw o))
        /\ (forall g, In g p -> (logged st g <-> In g (needed_top p kw o))).
  Proof.
    intros Hkw. destruct (run_out body pick p kw N (init_state kw) o) as [st r] eqn:E.
    destruct (run_out_spec N (init_state kw) o st r Inv_init (rk_lt_N o) Hkw E) as [Hr Hpost].
    exists st. split; [now rewrite Hr|]. intros v Hv. rewrite <- Hr in Hv.
    destruct (Hpost v Hv) as [HI [new [Hd [Hsub Hall]]]]. split; [assumption|].
    assert (Hlog : log st = new). { rewrite (d_log _ _ _ Hd). reflexivity. }
    assert (Hlg : forall g, In g p -> (logged st g <-> In g (needed_top p kw o))).
    { intros g Hg. split; [|apply Hall]. unfold logged. rewrite Hlog. intros H.
      apply in_map_iff in H as [c [Hc1 Hc2]]. destruct (Hsub c Hc2) as [g' [G1 G2]].
      assert (g' = g). { eapply fname_inj; eauto; [apply (needed_in_p (S (length p)) o g' G1)|congruence]. }
      now subst g'. }
    split; [|assumption].
    intros k. rewrite (d_used _ _ _ Hd k). cbn. unfold param_names_needed. rewrite in_flat_map. split.
    - intros [[]|[g [G1 [G2 G3]]]]. exists g. split; [|assumption]. apply Hlg; [assumption|]. unfold logged. now rewrite Hlog.
    - intros [g [G1 G2]]. right. exists g. assert (Hgp : In g p) by (apply (needed_in_p (S (length p)) o g G1)).
      split; [assumption|]. split; [|assumption]. rewrite <- Hlog. now apply Hlg.
  Qed.

  Lemma is_output_is_node o : is_output p o = true -> is_node p o = true.
  Proof. unfold is_node. now intros ->. Qed.

  Lemma unused_kw_nil st o :
    (forall k, In k (used st) <-> In k (param_names_needed p kw o)) ->
    (unused_kw kw st = [] <-> subset_str (akeys kw) (param_names_needed p kw o) = true).
  Proof.
    intros Hu. unfold unused_kw. rewrite subset_str_incl. split.
    - intros H k Hk. apply Hu. destruct (mem_str k (used st)) eqn:E; [now apply mem_str_In|].
      assert (Hin : In k (filter (fun k0 => negb (mem_str k0 (used st))) (akeys kw))).
      { apply filter_In. split; [assumption|]. now rewrite E. }
      rewrite H in Hin. contradiction.
    - intros H. destruct (filter (fun k => negb (mem_str k (used st))) (akeys kw)) as [|k t] eqn:E; [reflexivity|].
      assert (Hin : In k (k :: t)) by now left. rewrite <- E in Hin. apply filter_In in Hin as [H1 H2].
      apply negb_true_iff, mem_str_not_In in H2. exfalso. apply H2. apply Hu. now apply H.
  Qed.

  (* the complete characterisation of Pipeline.run on an output name *)
  Theorem run_char o full : is_output p o = true -> aget kw o = None ->
    exists st, run_out body pick p kw N (init_state kw) o = (st, EV N o) /\
    run body pick p o kw full =
      match EV N o with
      | Err e => (Err e, log st)
      | Ok v => if subset_str (akeys kw) (param_names_needed p kw o)
                then (Ok (if full then Full (res st) else Value v), log st)
                else (Err UnusedParametersError, log st)
      end.
  Proof.
    intros Ho Hkw. destruct (run_out_top o Hkw) as [st [Hrun Hpost]]. exists st. split; [assumption|].
    unfold run. rewrite (is_output_is_node o Ho). cbn [negb].
    assert (Hh : ahas kw o = false) by now apply ahas_false_iff. rewrite Hh.
    fold N. rewrite Hrun. destruct (EV N o) as [v|e] eqn:Ev; [|reflexivity].
    destruct (Hpost v eq_refl) as [HI [Hu Hlg]].
    destruct (subset_str (akeys kw) (param_names_needed p kw o)) eqn:Es.
    - apply (unused_kw_nil st o Hu) in Es. now rewrite Es.
    - destruct (unused_kw kw st) eqn:Eu; [|reflexivity]. apply (unused_kw_nil st o Hu) in Eu. congruence.
  Qed.

  (* the call log of a successful evaluation *)
  Lemma log_facts o st v : aget kw o = None -> run_out body pick p kw N (init_state kw) o = (st, EV N o) ->
    EV N o = Ok v ->
    NoDup (map fst (log st))
    /\ (forall g, In g p -> (In (fname g) (map fst (log st)) <-> In g (needed_top p kw o)))
    /\ (forall l1 c l2, log st = l1 ++ c :: l2 ->
          exists f, In f p /\ fst c = fname f /\ eval_args body pick p kw f = Ok (snd c)
                    /\ forall g, In g (ups p kw f) -> In (fname g) (map fst l1)).
  Proof.
    intros Hkw Hrun Hv. destruct (run_out_top o Hkw) as [st0 [Hrun0 Hpost]].
    rewrite Hrun in Hrun0. inversion Hrun0; subst st0. destruct (Hpost v Hv) as [HI [Hu Hlg]].
    split; [apply (inv_nodup _ HI)|]. split; [exact Hlg|].
    intros l1 c l2 Hs. assert (Hc : In c (log st)) by (rewrite Hs; apply in_app_iff; right; now left).
    destruct (inv_entry _ HI c Hc) as [f [Hf [Hfc Ha]]]. exists f. repeat split; try assumption.
    intros g Hg. pose proof (ordered_split _ _ _ _ _ (inv_order _ HI) Hs f g Hf Hfc Hg) as H. exact H.
  Qed.

  (* full_output: exactly the values of that evaluation *)
  Lemma full_facts o st v : aget kw o = None -> run_out body pick p kw N (init_state kw) o = (st, EV N o) ->
    EV N o = Ok v ->
    (forall k x, aget kw k = Some x -> aget (res st) k = Some x)
    /\ (forall k x, aget kw k = None ->
          (aget (res st) k = Some x <->
           exists f, In f (needed_top p kw o) /\ In k (outs f) /\ EV N k = Ok x)).
  Proof.
    intros Hkw Hrun Hv. destruct (run_out_top o Hkw) as [st0 [Hrun0 Hpost]].
    rewrite Hrun in Hrun0. inversion Hrun0; subst st0. destruct (Hpost v Hv) as [HI [Hu Hlg]].
    split; [apply (inv_kw _ HI)|]. intros k x Hk. split.
    - intros Hx. destruct (inv_sound _ HI k x Hk Hx) as [f [Ef [Hl Hev]]]. exists f.
      apply producer_Some in Ef as [Hf Ho]. split; [now apply Hlg|]. auto.
    - intros [f [Hn [Ho Hev]]]. assert (Hf : In f p) by (apply (needed_in_p (S (length p)) o f Hn)).
      assert (Hh : ahas (res st) k = true). { eapply inv_complete; eauto. now apply Hlg. }
      apply ahas_true_iff in Hh as [x' Hx']. destruct (inv_sound _ HI k x' Hk Hx') as [_ [_ [_ Hev']]].
      rewrite Hev in Hev'. inversion Hev'; subst. assumption.
  Qed.

  (* a function is evaluated only for the requested output or because a needed consumer reads one of its
     outputs that is neither bound nor supplied *)
  Lemma needed_why : forall n o g, In g (needed n p kw o) ->
    producer p o = Some g \/
    exists f b, In f (needed n p kw o) /\ In b (pnames f) /\ source_of p kw f b = SUp g.
  Proof.
    induction n as [|n IH]; intros o g H; [contradiction|]. rewrite needed_S in H |- *.
    destruct (producer p o) as [f|] eqn:Ef; [|contradiction]. destruct H as [<-|H]; [now left|]. right.
    apply in_flat_map in H as [cur [Hcur H]]. destruct (source_of p kw f cur) as [| |h| |] eqn:Es; try contradiction.
    destruct (IH cur g H) as [Eg|[f' [b [H1 [H2 H3]]]]].
    - exists f, cur. split; [now left|]. split; [assumption|]. apply source_SUp in Es as [E1 [E2 E3]].
      rewrite E3 in Eg. inversion Eg; subst. now apply source_SUp_intro.
    - exists f', b. split; [|auto]. right. apply in_flat_map. exists cur. split; [assumption|]. now rewrite Es.
  Qed.
End Master.

Lemma args_with_In rec p kw f args : args_with rec p kw f = Ok args ->
  forall cur orig, In (cur, orig) (params f) -> exists v, arg_val rec p kw f cur = Ok v /\ In (orig, v) args.
Proof.
  unfold args_with. revert args. induction (params f) as [|[c o] t IH]; intros args H cur orig Hin; [contradiction|].
  cbn in H. destruct (arg_val rec p kw f c) as [v|e] eqn:Ev; cbn in H; [|discriminate].
  destruct (mapM _ t) as [l|e] eqn:El; cbn in H; [|discriminate]. inversion H; subst.
  destruct Hin as [E|Hin].
  - inversion E; subst. exists v. split; [assumption|now left].
  - destruct (IH l eq_refl cur orig Hin) as [v' [H1 H2]]. exists v'. split; [assumption|now right].
Qed.

(* ====================================================================================================
   The listing order of the functions is irrelevant.
   ==================================================================================================== *)
Definition consistent (d : alist) : Prop := forall k v, In (k, v) d -> aget d k = Some v.

Lemma consistent_perm d d' : consistent d -> Permutation d d' -> consistent d'.
Proof.
  intros Hc Hp k v Hin. destruct (aget d' k) as [v'|] eqn:E.
  - apply aget_Some_In in E. apply Permutation_sym in Hp.
    pose proof (Permutation_in _ Hp Hin) as H1. pose proof (Permutation_in _ Hp E) as H2.
    apply Hc in H1. apply Hc in H2. congruence.
  - exfalso. apply aget_None_iff in E. apply E. apply in_map_iff. now exists (k, v).
Qed.

Lemma aget_perm_consistent d d' k : consistent d -> Permutation d d' -> aget d k = aget d' k.
Proof.
  intros Hc Hp. pose proof (consistent_perm _ _ Hc Hp) as Hc'. destruct (aget d k) as [v|] eqn:E.
  - apply aget_Some_In in E. symmetry. apply Hc'. eapply Permutation_in; eauto.
  - symmetry. apply aget_None_iff. apply aget_None_iff in E. intros H. apply E.
    unfold akeys in *. eapply Permutation_in; [apply Permutation_map; apply Permutation_sym; exact Hp|assumption].
Qed.

Lemma aget_rev_consistent d k : consistent d -> aget (rev d) k = aget d k.
Proof. intros Hc. symmetry. apply aget_perm_consistent; [assumption|apply Permutation_rev]. Qed.

Lemma find_none_intro {A} (f : A -> bool) l : (forall x, In x l -> f x = false) -> find f l = None.
Proof.
  induction l as [|x l IH]; intros H; cbn; [reflexivity|]. rewrite (H x) by now left. apply IH.
  intros y Hy. apply H. now right.
Qed.

Lemma flat_map_perm {A B} (f : A -> list B) l l' : Permutation l l' -> Permutation (flat_map f l) (flat_map f l').
Proof.
  induction 1; cbn.
  - reflexivity.
  - now apply Permutation_app_head.
  - rewrite !app_assoc. apply Permutation_app_tail. apply Permutation_app_comm.
  - etransitivity; eauto.
Qed.

Section Perm.
  Variables p p' : pipeline.
  Hypothesis Hnd : NoDup (all_outputs p).
  Hypothesis Hcons : consistent (pdefaults p).
  Hypothesis Hperm : Permutation p p'.

  Lemma all_outputs_perm : Permutation (all_outputs p) (all_outputs p').
  Proof.
    unfold all_outputs. now apply flat_map_perm.
  Qed.

  Lemma producer_perm o : producer p o = producer p' o.
  Proof.
    assert (Hnd' : NoDup (all_outputs p')) by (eapply Permutation_NoDup; [apply all_outputs_perm|assumption]).
    destruct (producer p o) as [f|] eqn:E.
    - apply producer_Some in E as [Hf Ho]. symmetry. apply producer_unique; auto. eapply Permutation_in; eauto.
    - symmetry. unfold producer. apply find_none_intro. intros g Hg. apply mem_str_not_In.
      eapply producer_None; eauto. eapply Permutation_in; [apply Permutation_sym; exact Hperm|assumption].
  Qed.

  Lemma is_output_perm o : is_output p o = is_output p' o.
  Proof. unfold is_output. now rewrite producer_perm. Qed.

  Lemma pdefaults_perm : Permutation (pdefaults p) (pdefaults p').
  Proof.
    unfold pdefaults.
    rewrite (flat_map_ext_in' _ (fun f => filter (fun kv => negb (ahas (bound f) (fst kv)) && negb (is_output p' (fst kv))) (dflt f)) p).
    - now apply flat_map_perm.
    - intros f _. apply filter_ext. intros kv. now rewrite is_output_perm.
  Qed.

  Lemma pdefault_perm k : pdefault p k = pdefault p' k.
  Proof.
    unfold pdefault. rewrite (aget_rev_consistent _ _ Hcons).
    rewrite (aget_rev_consistent _ _ (consistent_perm _ _ Hcons pdefaults_perm)).
    apply aget_perm_consistent; [assumption|apply pdefaults_perm].
  Qed.

  Lemma root_arg_names_perm o : mem_str o (root_arg_names p) = mem_str o (root_arg_names p').
  Proof.
    assert (H : forall q q', Permutation q q' -> (forall x, is_output q x = is_output q' x) ->
                             In o (root_arg_names q) -> In o (root_arg_names q')).
    { intros q q' Hp He. unfold root_arg_names. rewrite !dedup_In, !in_flat_map. intros [f [H1 H2]].
      exists f. split; [eapply Permutation_in; eauto|]. apply filter_In in H2 as [H2 H3]. apply filter_In.
      split; [assumption|]. now rewrite <- He. }
    destruct (mem_str o (root_arg_names p)) eqn:E.
    - symmetry. apply mem_str_In. apply mem_str_In in E. eapply H; eauto. apply is_output_perm.
    - symmetry. apply mem_str_not_In. apply mem_str_not_In in E. intros Hc. apply E.
      eapply (H p' p); eauto; [now apply Permutation_sym|]. intros x. symmetry. apply is_output_perm.
  Qed.

  Lemma is_node_perm o : is_node p o = is_node p' o.
  Proof. unfold is_node. now rewrite is_output_perm, root_arg_names_perm. Qed.

  Variable body : str -> alist -> result str.
  Variable pick : str -> str -> str.
  Variable kw : alist.

  Lemma get_args_perm rec rec' f : (forall st o, rec st o = rec' st o) ->
    forall ps st acc, get_args p kw rec f ps st acc = get_args p' kw rec' f ps st acc.
  Proof.
    intros Hrec. induction ps as [|[cur orig] t IH]; intros st acc; cbn; [reflexivity|].
    assert (E : resolve p kw rec f st cur = resolve p' kw rec' f st cur).
    { unfold resolve. rewrite is_output_perm, pdefault_perm, Hrec. reflexivity. }
    rewrite E. destruct (resolve p' kw rec' f st cur) as [st1 [v|e]]; [apply IH|reflexivity].
  Qed.

  Lemma run_out_perm : forall n st o, run_out body pick p kw n st o = run_out body pick p' kw n st o.
  Proof.
    induction n as [|n IH]; intros st o; cbn [run_out]; [reflexivity|].
    destruct (aget (res st) o); [reflexivity|]. rewrite <- producer_perm.
    destruct (producer p o) as [f|]; [|reflexivity].
    rewrite (get_args_perm (run_out body pick p kw n) (run_out body pick p' kw n) f IH). reflexivity.
  Qed.

  Theorem run_perm o full : run body pick p o kw full = run body pick p' o kw full.
  Proof.
    unfold run. rewrite is_node_perm. rewrite (Permutation_length Hperm). now rewrite run_out_perm.
  Qed.
End Perm.

(* ====================================================================================================
   Final forms (hypothesis wf_pipeline p; used by Props/C02.v)
   ==================================================================================================== *)
Section Final.
  Variable body : str -> alist -> result str.
  Variable pick : str -> str -> str.

  (* no keyword is surplus: each one names a parameter of a function that the evaluation executes *)
  Definition no_unused (p : pipeline) (kw : alist) (o : str) : Prop :=
    forall k, In k (akeys kw) -> In k (param_names_needed p kw o).

  Definition lift_value (r : result str) : result outcome :=
    match r with Ok v => Ok (Value v) | Err e => Err e end.

  Theorem run_char_final p o kw : wf_pipeline p -> is_output p o = true -> aget kw o = None ->
    fst (run body pick p o kw false) =
      match eval_top body pick p kw o with
      | Err e => Err e
      | Ok v => if subset_str (akeys kw) (param_names_needed p kw o) then Ok (Value v)
                else Err UnusedParametersError
      end.
  Proof.
    intros Hwf Ho Hkw. destruct (wf_pipeline_elim p Hwf) as [ls Hw].
    destruct (run_char body pick p kw ls Hw o false Ho Hkw) as [st [_ Hr]]. rewrite Hr.
    unfold eval_top. destruct (eval body pick (S (length p)) p kw o); [|reflexivity].
    now destruct (subset_str (akeys kw) (param_names_needed p kw o)).
  Qed.

  Theorem run_eq_eval p o kw : wf_pipeline p -> is_output p o = true -> aget kw o = None ->
    no_unused p kw o ->
    fst (run body pick p o kw false) = lift_value (eval_top body pick p kw o).
  Proof.
    intros Hwf Ho Hkw Hnu. rewrite run_char_final by assumption. unfold lift_value.
    destruct (eval_top body pick p kw o); [|reflexivity].
    assert (E : subset_str (akeys kw) (param_names_needed p kw o) = true) by now apply subset_str_incl.
    now rewrite E.
  Qed.

  Theorem unused_rejected p o kw v : wf_pipeline p -> is_output p o = true -> aget kw o = None ->
    eval_top body pick p kw o = Ok v ->
    (exists k, In k (akeys kw) /\ ~ In k (param_names_needed p kw o)) ->
    fst (run body pick p o kw false) = Err UnusedParametersError.
  Proof.
    intros Hwf Ho Hkw Hv [k [H1 H2]]. rewrite run_char_final by assumption. rewrite Hv.
    destruct (subset_str (akeys kw) (param_names_needed p kw o)) eqn:E; [|reflexivity].
    apply subset_str_incl in E. exfalso. apply H2. now apply E.
  Qed.

  Theorem run_calls_once_in_order p o kw v : wf_pipeline p -> is_output p o = true -> aget kw o = None ->
    eval_top body pick p kw o = Ok v ->
    let lg := snd (run body pick p o kw false) in
    NoDup (map fst lg)
    /\ (forall g, In g p -> (In (fname g) (map fst lg) <-> In g (needed_top p kw o)))
    /\ (forall l1 c l2, lg = l1 ++ c :: l2 ->
          exists f, In f p /\ fst c = fname f /\ eval_args body pick p kw f = Ok (snd c)
                    /\ forall g, In g (ups p kw f) -> In (fname g) (map fst l1)).
  Proof.
    intros Hwf Ho Hkw Hv. destruct (wf_pipeline_elim p Hwf) as [ls Hw].
    destruct (run_char body pick p kw ls Hw o false Ho Hkw) as [st [Hrun Hr]]. rewrite Hr.
    unfold eval_top in Hv. rewrite Hv.
    assert (E : snd (if subset_str (akeys kw) (param_names_needed p kw o)
                     then (Ok (Value v), log st) else (Err UnusedParametersError, log st)) = log st)
      by now destruct (subset_str _ _).
    cbv zeta. rewrite E. eapply log_facts; eauto.
  Qed.

  Theorem full_output_complete p o kw d lg : wf_pipeline p -> is_output p o = true -> aget kw o = None ->
    run body pick p o kw true = (Ok (Full d), lg) ->
    (forall k x, aget kw k = Some x -> aget d k = Some x)
    /\ (forall k x, aget kw k = None ->
          (aget d k = Some x <->
           exists f, In f (needed_top p kw o) /\ In k (outs f) /\ eval_top body pick p kw k = Ok x)).
  Proof.
    intros Hwf Ho Hkw Hrun. destruct (wf_pipeline_elim p Hwf) as [ls Hw].
    destruct (run_char body pick p kw ls Hw o true Ho Hkw) as [st [Hro Hr]]. rewrite Hr in Hrun.
    destruct (eval body pick (S (length p)) p kw o) as [v|e] eqn:Ev; [|inversion Hrun].
    destruct (subset_str (akeys kw) (param_names_needed p kw o)); inversion Hrun; subst.
    pose proof (full_facts body pick p kw ls Hw o st v Hkw) as HF. cbv beta zeta in HF. rewrite Ev in HF.
    unfold eval_top. apply HF; auto.
  Qed.

  (* a supplied value reaches every consumer that does not bind the name ... *)
  Theorem supplied_reaches_consumers p o kw v : wf_pipeline p -> is_output p o = true -> aget kw o = None ->
    eval_top body pick p kw o = Ok v ->
    forall c f a x orig, In c (snd (run body pick p o kw false)) -> In f p -> fst c = fname f ->
      In (a, orig) (params f) -> aget (bound f) a = None -> aget kw a = Some x -> In (orig, x) (snd c).
  Proof.
    intros Hwf Ho Hkw Hv c f a x orig Hc Hf Hfc Hpar Hb Hk.
    destruct (run_calls_once_in_order p o kw v Hwf Ho Hkw Hv) as [_ [_ H3]].
    apply in_split in Hc as [l1 [l2 Hs]]. destruct (H3 l1 c l2 Hs) as [f' [Hf' [Hfc' [Ha _]]]].
    destruct (wf_pipeline_elim p Hwf) as [ls Hw].
    assert (f' = f) by (eapply fname_inj; eauto; congruence). subst f'.
    unfold eval_args in Ha. destruct (args_with_In _ _ _ _ _ Ha a orig Hpar) as [y [H1 H2]].
    unfold arg_val in H1. rewrite Hb, Hk in H1. inversion H1; subst. assumption.
  Qed.

  (* ... and its producer is executed only if the requested output is its own or a needed consumer reads
     another output of it that is neither bound nor supplied *)
  Theorem producer_called_only_if_needed p o kw v g : wf_pipeline p -> is_output p o = true -> aget kw o = None ->
    eval_top body pick p kw o = Ok v ->
    In g p -> In (fname g) (map fst (snd (run body pick p o kw false))) ->
    producer p o = Some g \/
    exists f b, In f (needed_top p kw o) /\ In b (pnames f) /\ In b (outs g)
                /\ aget (bound f) b = None /\ aget kw b = None.
  Proof.
    intros Hwf Ho Hkw Hv Hg Hl.
    destruct (run_calls_once_in_order p o kw v Hwf Ho Hkw Hv) as [_ [H2 _]].
    apply (H2 g Hg) in Hl. destruct (needed_why p kw _ o g Hl) as [H|[f [b [F1 [F2 F3]]]]]; [now left|right].
    exists f, b. apply source_SUp in F3 as [E1 [E2 E3]]. apply producer_Some in E3 as [_ E3]. auto.
  Qed.

  Theorem run_perm_invariant p p' o kw full : wf_pipeline p -> Permutation p p' ->
    run body pick p o kw full = run body pick p' o kw full.
  Proof.
    intros Hwf Hp. destruct (wf_pipeline_elim p Hwf) as [ls Hw]. apply run_perm; [|  |assumption].
    - apply (wf_outs_nd _ _ Hw).
    - intros k v. apply (wf_defaults _ _ Hw).
  Qed.
End Final.

(* ====================================================================================================
   Root arguments: supplying exactly the root names of o is accepted.
   ==================================================================================================== *)
Lemma mapM_ok_intro {A B} (f : A -> result B) l : (forall x, In x l -> exists y, f x = Ok y) -> exists ys, mapM f l = Ok ys.
Proof.
  induction l as [|x l IH]; intros H; cbn; [eauto|].
  destruct (H x (or_introl eq_refl)) as [y Hy]. rewrite Hy. cbn.
  destruct IH as [ys Hys]; [intros z Hz; apply H; now right|]. rewrite Hys. cbn. eauto.
Qed.

Section Roots.
  Variable body : str -> alist -> result str.
  Variable pick : str -> str -> str.
  Variable p : pipeline.

  Lemma needed_kw_roots kw : (forall k, In k (akeys kw) -> is_output p k = false) ->
    forall n o, needed n p kw o = needed n p [] o.
  Proof.
    intros Hk. induction n as [|n IH]; intros o; [reflexivity|]. cbn [needed].
    destruct (producer p o) as [f|]; [|reflexivity]. f_equal. apply flat_map_ext_in'. intros cur _.
    unfold source_of. destruct (aget (bound f) cur); [reflexivity|]. cbn [aget].
    destruct (aget kw cur) as [v|] eqn:E.
    - apply aget_In_keys in E. apply Hk in E. apply is_output_false in E. rewrite E.
      now destruct (default_of p cur).
    - destruct (producer p cur); [apply IH|now destruct (default_of p cur)].
  Qed.

  Lemma spec_roots_In o k : In k (spec_roots p o) <->
    exists f, In f (needed_top p [] o) /\ In k (pnames f) /\ aget (bound f) k = None /\ is_output p k = false.
  Proof.
    unfold spec_roots, sort_strs. rewrite sort_In, dedup_In, in_flat_map. split.
    - intros [f [H1 H2]]. apply filter_In in H2 as [H2 H3]. apply andb_true_iff in H3 as [H3 H4].
      apply negb_true_iff in H3, H4. apply ahas_false_iff in H3. eauto 6.
    - intros [f [H1 [H2 [H3 H4]]]]. exists f. split; [assumption|]. apply filter_In. split; [assumption|].
      apply ahas_false_iff in H3. now rewrite H3, H4.
  Qed.

  Theorem spec_roots_accepted o kw : (forall k, In k (akeys kw) <-> In k (spec_roots p o)) ->
    aget kw o = None \/ is_output p o = false ->
    no_unused p kw o /\ sufficient p kw o.
  Proof.
    intros Hk _.
    assert (Hn : needed_top p kw o = needed_top p [] o).
    { apply needed_kw_roots. intros k H. apply Hk, spec_roots_In in H as [f [_ [_ [_ H]]]]. exact H. }
    split.
    - intros k H. apply Hk, spec_roots_In in H as [f [H1 [H2 _]]]. unfold param_names_needed.
      rewrite Hn. apply in_flat_map. eauto.
    - intros f cur Hf Hcur. rewrite Hn in Hf. unfold source_of.
      destruct (aget (bound f) cur) eqn:Eb; [discriminate|].
      destruct (aget kw cur) eqn:Ek; [discriminate|].
      destruct (producer p cur) eqn:Ep; [discriminate|].
      exfalso. apply aget_None_iff in Ek. apply Ek. apply Hk. apply spec_roots_In. exists f.
      repeat split; auto. now apply is_output_false.
  Qed.

  Lemma spec_roots_not_output o k : In k (spec_roots p o) -> is_output p k = false.
  Proof. intros H. apply spec_roots_In in H as [f [_ [_ [_ H]]]]. exact H. Qed.

  (* sufficiency + total user functions => the specification yields a value *)
  Variable ls : list (list str).
  Hypothesis Hwf : wf_P p ls.
  Hypothesis Htotal : forall f a, exists r, body f a = Ok r.

  Lemma eval_ok kw : forall n o, rk p ls o < n -> is_output p o = true ->
    (forall f cur, In f (needed n p kw o) -> In cur (pnames f) -> source_of p kw f cur <> SMissing) ->
    exists v, eval body pick n p kw o = Ok v.
  Proof.
    induction n as [|n IH]; intros o Hr Ho Hs; [lia|]. cbn [eval].
    apply is_output_true in Ho as [f Ef]. rewrite Ef.
    pose proof (producer_Some _ _ _ Ef) as [Hf Hof].
    assert (Ha : exists args, args_with (eval body pick n p kw) p kw f = Ok args).
    { unfold args_with. apply mapM_ok_intro. intros [cur orig] Hin. cbn [fst snd].
      assert (Hcur : In cur (pnames f)) by (apply in_map_iff; now exists (cur, orig)).
      assert (Hsrc := Hs f cur). rewrite needed_S, Ef in Hsrc. specialize (Hsrc (or_introl eq_refl) Hcur).
      enough (exists v, arg_val (eval body pick n p kw) p kw f cur = Ok v) as [v Hv] by (rewrite Hv; cbn; eauto).
      unfold arg_val. unfold source_of in Hsrc.
      destruct (aget (bound f) cur) eqn:Eb; [eauto|]. destruct (aget kw cur) eqn:Ek; [eauto|].
      destruct (producer p cur) as [g|] eqn:Eg.
      - assert (Eo : is_output p cur = true) by (apply is_output_true; eauto). rewrite Eo. apply IH.
        + rewrite (rk_producer p ls _ _ Eg). rewrite (rk_producer p ls _ _ Ef) in Hr.
          rewrite <- ahas_false_iff in Eb. pose proof (wf_rank_edge _ _ Hwf f g cur Hf Hcur Eb Eg). lia.
        + assumption.
        + intros f' cur' Hf' Hcur'. apply Hs; [|assumption]. rewrite needed_S, Ef. right.
          apply in_flat_map. exists cur. split; [assumption|]. unfold source_of. now rewrite Eb, Ek, Eg.
      - assert (Eo : is_output p cur = false) by now apply is_output_false. rewrite Eo.
        destruct (default_of p cur); [eauto|congruence]. }
    destruct Ha as [args Ha]. rewrite Ha. cbn. destruct (Htotal (fname f) args) as [r Hr']. rewrite Hr'. cbn. eauto.
  Qed.
End Roots.

Theorem eval_ok_of_sufficient body pick p kw o : wf_pipeline p -> (forall f a, exists r, body f a = Ok r) ->
  is_output p o = true -> sufficient p kw o -> exists v, eval_top body pick p kw o = Ok v.
Proof.
  intros Hwf Ht Ho Hs. destruct (wf_pipeline_elim p Hwf) as [ls Hw]. unfold eval_top.
  apply (eval_ok body pick p ls Hw Ht kw); [apply rk_lt_N; assumption|assumption|exact Hs].
Qed.

(* ====================================================================================================
   Consistency of supplied intermediates; irrelevance of keywords the evaluation does not read.
   ==================================================================================================== *)
Section Consistency.
  Variable body : str -> alist -> result str.
  Variable pick : str -> str -> str.
  Variable p : pipeline.
  Variable ls : list (list str).
  Hypothesis Hwf : wf_P p ls.

  (* supplying an intermediate with the value the pipeline computes for it changes no value *)
  Lemma supply_computed kw a va : aget kw a = None -> eval_top body pick p kw a = Ok va ->
    forall n x, rk p ls x < n -> eval body pick n p ((a, va) :: kw) x = eval body pick n p kw x.
  Proof.
    intros Ha Hva. induction n as [|n IH]; intros x Hr; [lia|]. cbn [eval].
    destruct (producer p x) as [f|] eqn:Ef; [|reflexivity].
    pose proof (producer_Some _ _ _ Ef) as [Hf _]. rewrite (rk_producer p ls _ _ Ef) in Hr.
    assert (E : args_with (eval body pick n p ((a, va) :: kw)) p ((a, va) :: kw) f
                = args_with (eval body pick n p kw) p kw f).
    { unfold args_with. apply mapM_ext_in. intros [cur orig] Hin. cbn [fst snd].
      assert (Hcur : In cur (pnames f)) by (apply in_map_iff; now exists (cur, orig)).
      enough (arg_val (eval body pick n p ((a, va) :: kw)) p ((a, va) :: kw) f cur
              = arg_val (eval body pick n p kw) p kw f cur) as -> by reflexivity.
      unfold arg_val. destruct (aget (bound f) cur) eqn:Eb; [reflexivity|]. cbn [aget].
      destruct (str_eqb cur a) eqn:Eca.
      - apply str_eqb_eq in Eca. subst cur. rewrite Ha.
        unfold eval_top in Hva. assert (Hpa : exists g, producer p a = Some g).
        { cbn [eval] in Hva. destruct (producer p a); [eauto|discriminate]. }
        destruct Hpa as [g Eg]. assert (Eo : is_output p a = true) by (apply is_output_true; eauto). rewrite Eo.
        rewrite <- Hva. symmetry. rewrite <- ahas_false_iff in Eb.
        pose proof (wf_rank_edge _ _ Hwf f g a Hf Hcur Eb Eg).
        apply (eval_fuel body pick p kw ls Hwf); [rewrite (rk_producer p ls _ _ Eg); lia|apply rk_lt_N; exact Hwf].
      - destruct (aget kw cur); [reflexivity|]. destruct (is_output p cur) eqn:Eo; [|reflexivity].
        apply is_output_true in Eo as [g Eg]. apply IH. rewrite (rk_producer p ls _ _ Eg).
        rewrite <- ahas_false_iff in Eb. pose proof (wf_rank_edge _ _ Hwf f g cur Hf Hcur Eb Eg). lia. }
    now rewrite E.
  Qed.

  (* keywords that the evaluation under kw1 does not read are irrelevant *)
  Lemma eval_frame kw1 kw2 : forall n x, rk p ls x < n ->
    (forall f cur, In f (needed n p kw1 x) -> In cur (pnames f) -> aget (bound f) cur = None ->
                   aget kw1 cur = aget kw2 cur) ->
    eval body pick n p kw2 x = eval body pick n p kw1 x.
  Proof.
    induction n as [|n IH]; intros x Hr Hag; [lia|]. cbn [eval].
    destruct (producer p x) as [f|] eqn:Ef; [|reflexivity].
    pose proof (producer_Some _ _ _ Ef) as [Hf _]. rewrite (rk_producer p ls _ _ Ef) in Hr.
    assert (E : args_with (eval body pick n p kw2) p kw2 f = args_with (eval body pick n p kw1) p kw1 f).
    { unfold args_with. apply mapM_ext_in. intros [cur orig] Hin. cbn [fst snd].
      assert (Hcur : In cur (pnames f)) by (apply in_map_iff; now exists (cur, orig)).
      enough (arg_val (eval body pick n p kw2) p kw2 f cur = arg_val (eval body pick n p kw1) p kw1 f cur) as -> by reflexivity.
      unfold arg_val. destruct (aget (bound f) cur) eqn:Eb; [reflexivity|].
      assert (Hk : aget kw1 cur = aget kw2 cur).
      { apply (Hag f cur); auto. rewrite needed_S, Ef. now left. }
      rewrite <- Hk. destruct (aget kw1 cur) eqn:Ek; [reflexivity|].
      destruct (is_output p cur) eqn:Eo; [|reflexivity]. apply is_output_true in Eo as [g Eg].
      apply IH.
      - rewrite (rk_producer p ls _ _ Eg). rewrite <- ahas_false_iff in Eb.
        pose proof (wf_rank_edge _ _ Hwf f g cur Hf Hcur Eb Eg). lia.
      - intros f' cur' Hf' Hcur' Eb'. apply (Hag f' cur'); auto. rewrite needed_S, Ef. right.
        apply in_flat_map. exists cur. split; [assumption|]. unfold source_of. now rewrite Eb, Ek, Eg. }
    now rewrite E.
  Qed.
End Consistency.

Theorem supplied_computed_consistent body pick p kw a va x :
  wf_pipeline p -> aget kw a = None -> eval_top body pick p kw a = Ok va ->
  eval_top body pick p ((a, va) :: kw) x = eval_top body pick p kw x.
Proof.
  intros Hwf Ha Hva. destruct (wf_pipeline_elim p Hwf) as [ls Hw]. unfold eval_top.
  eapply supply_computed; eauto. apply rk_lt_N. exact Hw.
Qed.

Theorem unread_keywords_irrelevant body pick p kw1 kw2 x :
  wf_pipeline p ->
  (forall f cur, In f (needed_top p kw1 x) -> In cur (pnames f) -> aget (bound f) cur = None ->
                 aget kw1 cur = aget kw2 cur) ->
  eval_top body pick p kw2 x = eval_top body pick p kw1 x.
Proof.
  intros Hwf H. destruct (wf_pipeline_elim p Hwf) as [ls Hw]. unfold eval_top.
  eapply eval_frame; eauto. apply rk_lt_N. exact Hw.
Qed.

(* ====================================================================================================
   Pipeline.run validates its keywords BEFORE evaluating (Pipe.run_checked = run_precheck, then run)
   ==================================================================================================== *)
Lemma run_checked_pass body pick p o kw full :
  run_precheck p o kw = Ok tt -> run_checked body pick p o kw full = run body pick p o kw full.
Proof. unfold run_checked. now intros ->. Qed.

Lemma run_precheck_err_silent body pick p o kw full e :
  run_precheck p o kw = Err e -> run_checked body pick p o kw full = (Err e, []).
Proof. unfold run_checked. now intros ->. Qed.

Lemma missingb_sufficient p kw o : missingb p kw o = false <-> sufficient p kw o.
Proof.
  unfold missingb, sufficient. split.
  - intros H f cur Hf Hc Hs.
    assert (existsb (fun f0 => existsb (fun c => match source_of p kw f0 c with SMissing => true | _ => false end)
                                      (pnames f0)) (needed_top p kw o) = true); [|congruence].
    apply existsb_exists. exists f. split; [assumption|]. apply existsb_exists. exists cur. split; [assumption|].
    now rewrite Hs.
  - intros H. destruct (existsb _ (needed_top p kw o)) eqn:E; [|reflexivity].
    apply existsb_exists in E as [f [Hf E]]. apply existsb_exists in E as [cur [Hc E]].
    destruct (source_of p kw f cur) eqn:Es; try discriminate. exfalso. exact (H f cur Hf Hc Es).
Qed.

Lemma surplusb_no_unused p kw o : surplusb p kw o = false <-> no_unused p kw o.
Proof.
  unfold surplusb, no_unused. rewrite negb_false_iff. rewrite subset_str_incl. reflexivity.
Qed.

(* Complete characterisation of the call as the code performs it: a missing argument, else a surplus keyword -
   both with an EMPTY call log -, else the evaluation *)
Theorem run_checked_char body pick p o kw : wf_pipeline p -> is_output p o = true -> aget kw o = None ->
  (missingb p kw o = true -> run_checked body pick p o kw false = (Err ValueError, []))
  /\ (missingb p kw o = false -> surplusb p kw o = true ->
      run_checked body pick p o kw false = (Err UnusedParametersError, []))
  /\ (missingb p kw o = false -> surplusb p kw o = false ->
      run_checked body pick p o kw false = run body pick p o kw false
      /\ fst (run body pick p o kw false) = lift_value (eval_top body pick p kw o)).
Proof.
  intros Hwf Ho Hkw.
  assert (Hn : is_node p o = true) by (unfold is_node; now rewrite Ho).
  assert (Hk : ahas kw o = false) by now apply ahas_false_iff.
  unfold run_checked, run_precheck. rewrite Hn, Hk, Ho. cbn [negb orb].
  split; [|split].
  - intros Hm. now rewrite Hm.
  - intros Hm Hs. now rewrite Hm, Hs.
  - intros Hm Hs. rewrite Hm, Hs. split; [reflexivity|].
    apply run_eq_eval; try assumption. now apply surplusb_no_unused.
Qed.
