(* C01, part 1: the flat-index placement (`place`, mirroring _set_output) and the storage dump (`sto_dump`,
   `sto_array`) assemble exactly the array whose element at a full index idx is the element int_of(idx) of the value
   produced at external position ext_of(idx). *)
From Verif Require Import Base.Prelude Base.StrUtil Base.Index Base.NdArr Model.MapSpec Model.MapRun
  Proofs.IndexFacts Proofs.StrFacts Proofs.ListFacts.

(* ---------- index facts: projections of a full index along a mask ---------- *)
Lemma ext_of_length {A} (mask : list bool) : forall (l : list A),
  length l = length mask -> length (ext_of mask l) = length (filter id mask).
Proof.
  induction mask as [|[|] m IH]; intros [|x l] H; cbn in H; try discriminate; cbn [ext_of filter id length]; auto.
Qed.

Lemma int_of_length {A} (mask : list bool) : forall (l : list A),
  length l = length mask -> length (int_of mask l) = length (filter negb mask).
Proof.
  induction mask as [|[|] m IH]; intros [|x l] H; cbn in H; try discriminate; cbn [int_of filter negb length]; auto.
Qed.

Lemma in_bounds_length sh : forall k, in_bounds sh k = true -> length k = length sh.
Proof.
  induction sh as [|d sh IH]; intros [|x k] H; cbn [in_bounds] in H; try discriminate; [reflexivity|].
  apply andb_true_iff in H as [_ H]. cbn [length]. f_equal. now apply IH.
Qed.

Lemma in_bounds_proj (mask : list bool) : forall sh idx,
  length mask = length sh -> in_bounds sh idx = true ->
  in_bounds (ext_of mask sh) (ext_of mask idx) = true /\ in_bounds (int_of mask sh) (int_of mask idx) = true.
Proof.
  induction mask as [|b m IH]; intros [|d sh] [|x idx] Hl H; cbn in Hl; try discriminate;
    cbn [in_bounds] in H; try discriminate.
  - split; reflexivity.
  - injection Hl as Hl. apply andb_true_iff in H as [Hx H]. destruct (IH sh idx Hl H) as [H1 H2].
    destruct b; cbn [ext_of int_of in_bounds]; rewrite ?Hx; cbn [andb]; split; assumption.
Qed.

Lemma in_bounds_merge (mask : list bool) : forall sh e jj,
  length mask = length sh -> in_bounds (ext_of mask sh) e = true -> in_bounds (int_of mask sh) jj = true ->
  in_bounds sh (merge mask e jj) = true.
Proof.
  induction mask as [|b m IH]; intros [|d sh] e jj Hl He Hj; cbn in Hl; try discriminate.
  - reflexivity.
  - injection Hl as Hl. destruct b; cbn [ext_of int_of] in He, Hj.
    + destruct e as [|x e]; cbn [in_bounds] in He; [discriminate|].
      apply andb_true_iff in He as [Hx He]. cbn [merge in_bounds]. rewrite Hx. cbn [andb]. now apply IH.
    + destruct jj as [|x jj]; cbn [in_bounds] in Hj; [discriminate|].
      apply andb_true_iff in Hj as [Hx Hj]. cbn [merge in_bounds]. rewrite Hx. cbn [andb]. now apply IH.
Qed.

Lemma in_all_indices_iff sh k : In k (all_indices sh) <-> in_bounds sh k = true.
Proof.
  rewrite <- unravel_enumerates. rewrite in_map_iff. split.
  - intros [n [<- Hn]]. apply in_seq in Hn. apply unravel_in_bounds. lia.
  - intros H. exists (ravel sh k). split; [now apply unravel_ravel|].
    apply in_seq. pose proof (ravel_lt sh k H). lia.
Qed.

Lemma alltrue_proj {A} (mask : list bool) : forall (l : list A),
  forallb id mask = true -> length l = length mask -> ext_of mask l = l /\ int_of mask l = [].
Proof.
  induction mask as [|b m IH]; intros [|x l] Hm Hl; cbn in Hl; try discriminate; [split; reflexivity|].
  cbn [forallb id] in Hm. apply andb_true_iff in Hm as [Hb Hm]. unfold id in Hb. subst b. injection Hl as Hl.
  destruct (IH l Hm Hl) as [H1 H2]. cbn [ext_of int_of]. rewrite H1, H2. split; reflexivity.
Qed.

Lemma not_alltrue_int {A} (mask : list bool) : forall (l : list A),
  forallb id mask = false -> length l = length mask -> int_of mask l <> [].
Proof.
  induction mask as [|b m IH]; intros [|x l] Hm Hl; cbn in Hl; try discriminate.
  injection Hl as Hl. destruct b; cbn [forallb id andb int_of] in *; [now apply IH|discriminate].
Qed.

Section Proj.
  Variables (sh : list nat) (mask : list bool).
  Hypothesis Hlen : length mask = length sh.
  Let ext := ext_of mask sh.
  Let int := int_of mask sh.

  (* the full index written at linear index i, inner position jj *)
  Lemma merge_facts i jj :
    i < prod ext -> In jj (all_indices int) ->
    let k := merge mask (unravel ext i) jj in
    in_bounds sh k = true /\ ext_of mask k = unravel ext i /\ int_of mask k = jj /\ ravel ext (ext_of mask k) = i.
  Proof.
    intros Hi Hjj k.
    assert (in_bounds ext (unravel ext i) = true) as He by (now apply unravel_in_bounds).
    apply in_all_indices_iff in Hjj.
    assert (length (unravel ext i) = length (filter id mask)) as Hle.
    { rewrite unravel_length. subst ext. apply ext_of_length. now symmetry. }
    assert (length jj = length (filter negb mask)) as Hlj.
    { rewrite (in_bounds_length _ _ Hjj). subst int. apply int_of_length. now symmetry. }
    destruct (ext_of_merge mask (unravel ext i) jj Hle Hlj) as [E1 E2].
    split; [subst k; now apply in_bounds_merge|].
    split; [exact E1|]. split; [exact E2|].
    subst k. rewrite E1. now apply ravel_unravel.
  Qed.

  (* conversely every in-bounds full index is written at exactly that place *)
  Lemma split_facts idx :
    in_bounds sh idx = true ->
    let i := ravel ext (ext_of mask idx) in
    i < prod ext /\ In (int_of mask idx) (all_indices int) /\ merge mask (unravel ext i) (int_of mask idx) = idx.
  Proof.
    intros Hb i. destruct (in_bounds_proj mask sh idx Hlen Hb) as [He Hi].
    split; [now apply ravel_lt|]. split; [now apply in_all_indices_iff|].
    subst i. rewrite unravel_ravel by exact He. apply merge_ext_int.
    rewrite (in_bounds_length _ _ Hb). now symmetry.
  Qed.
End Proj.

(* ---------- values ---------- *)
(* element jj of a returned value (a scalar is its own only element) *)
Definition elem (v : val) (jj : list nat) : str :=
  match v with
  | VS x => x
  | VA a => match nd_get a jj with Some x => x | None => none_str end
  end.

(* what the placement demands of the value returned for one linear index *)
Definition val_ok (mask : list bool) (int : list nat) (v : val) : Prop :=
  if forallb id mask then exists x, v = VS x
  else exists a, v = VA a /\ shp a = int /\ nd_wf a = true.

Lemma nd_get_some {A} (a : nd A) jj :
  nd_wf a = true -> In jj (all_indices (shp a)) -> exists x, nd_get a jj = Some x.
Proof.
  intros Hwf Hjj. apply in_all_indices_iff in Hjj. unfold nd_get. rewrite Hjj.
  unfold nd_wf in Hwf. apply Nat.eqb_eq in Hwf.
  destruct (nth_error (dat a) (ravel (shp a) jj)) as [x|] eqn:E; [eauto|].
  apply nth_error_None in E. pose proof (ravel_lt _ _ Hjj). lia.
Qed.

Lemma list_nat_eqb_refl l : list_eqb Nat.eqb l l = true.
Proof. apply (list_eqb_eq Nat.eqb Nat.eqb_eq). reflexivity. Qed.

(* the element the finished array must hold at full index idx, given the value V i returned at linear index i *)
Definition target_elem (sh : list nat) (mask : list bool) (V : nat -> val) (idx : list nat) : str :=
  elem (V (ravel (ext_of mask sh) (ext_of mask idx))) (int_of mask idx).
Definition target (sh : list nat) (mask : list bool) (V : nat -> val) : list str :=
  map (target_elem sh mask V) (all_indices sh).

(* ---------- placement into the flat result array ---------- *)
Definition place_pairs (sh : list nat) (mask : list bool) (i : nat) (v : val) : list (nat * str) :=
  map (fun jj => (ravel sh (merge mask (unravel (ext_of mask sh) i) jj), elem v jj)) (all_indices (int_of mask sh)).
Definition place_pure (sh : list nat) (mask : list bool) (i : nat) (v : val) (arr : list str) : list str :=
  upd_pairs (place_pairs sh mask i v) arr.

Lemma place_ok sh mask i v arr :
  length mask = length sh -> i < prod (ext_of mask sh) -> val_ok mask (int_of mask sh) v ->
  place sh mask i v arr = Ok (place_pure sh mask i v arr).
Proof.
  intros Hlen Hi Hv. unfold place, val_ok in *. destruct (forallb id mask) eqn:Hm.
  - destruct Hv as [x ->]. unfold place_pure, place_pairs, upd_pairs.
    destruct (alltrue_proj mask sh Hm (eq_sym Hlen)) as [E1 E2]. rewrite E1 in *. rewrite E2.
    cbn [all_indices map fold_left fst snd elem].
    assert (merge mask (unravel sh i) [] = unravel sh i) as ->.
    { assert (length (unravel sh i) = length mask) as Hl by (rewrite unravel_length; now symmetry).
      destruct (alltrue_proj mask (unravel sh i) Hm Hl) as [F1 F2].
      rewrite <- F1 at 1. rewrite <- F2. now apply merge_ext_int. }
    rewrite ravel_unravel by exact Hi. reflexivity.
  - destruct Hv as [a [-> [Hshp Hwf]]]. rewrite Hshp, list_nat_eqb_refl. cbn [negb].
    unfold place_pure, place_pairs, upd_pairs. rewrite fold_left_map_arg. cbn [fst snd].
    apply fold_left_bind_ok. intros jj r Hjj. rewrite <- Hshp in Hjj.
    destruct (nd_get_some a jj Hwf Hjj) as [x Hx]. cbn [elem]. rewrite Hx. reflexivity.
Qed.

Theorem place_pure_all sh mask (V : nat -> val) :
  length mask = length sh ->
  fold_left (fun arr i => place_pure sh mask i (V i) arr) (seq 0 (prod (ext_of mask sh))) (repeat none_str (prod sh))
  = target sh mask V.
Proof.
  intros Hlen. unfold place_pure, upd_pairs.
  rewrite <- (fold_left_flat_map (fun r px => upd r (fst px) (snd px)) (fun i => place_pairs sh mask i (V i))).
  fold (upd_pairs (flat_map (fun i => place_pairs sh mask i (V i)) (seq 0 (prod (ext_of mask sh))))
                  (repeat none_str (prod sh))).
  apply nth_error_ext_eq.
  { rewrite upd_pairs_length, repeat_length. unfold target. now rewrite map_length, all_indices_length. }
  rewrite upd_pairs_length, repeat_length. intros q Hq.
  unfold target. rewrite <- unravel_enumerates, map_map, nth_error_map, nth_error_seq0 by exact Hq. cbn [option_map].
  apply (upd_pairs_covers (fun q => target_elem sh mask V (unravel sh q))).
  - (* every written value is the target at its position *)
    intros p x Hin. apply in_flat_map in Hin as [i [Hi Hin]]. apply in_seq in Hi.
    unfold place_pairs in Hin. apply in_map_iff in Hin as [jj [E Hjj]]. injection E as <- <-.
    destruct (merge_facts sh mask Hlen i jj ltac:(lia) Hjj) as [Hb [E1 [E2 E3]]].
    rewrite unravel_ravel by exact Hb. unfold target_elem. rewrite E3, E2. reflexivity.
  - (* every position is written *)
    intros q' Hq'. rewrite repeat_length in Hq'. left.
    pose proof (unravel_in_bounds sh q' Hq') as Hb.
    destruct (split_facts sh mask Hlen _ Hb) as [Hi [Hjj Hm]].
    apply in_map_iff. exists (q', elem (V (ravel (ext_of mask sh) (ext_of mask (unravel sh q')))) (int_of mask (unravel sh q'))).
    split; [reflexivity|]. apply in_flat_map. exists (ravel (ext_of mask sh) (ext_of mask (unravel sh q'))).
    split; [apply in_seq; lia|]. unfold place_pairs. apply in_map_iff.
    exists (int_of mask (unravel sh q')). split; [|exact Hjj].
    rewrite Hm, ravel_unravel by exact Hq'. reflexivity.
  - rewrite repeat_length. exact Hq.
Qed.

(* Goal 1: the loop of placements over all linear indices *)
Theorem place_all sh mask (V : nat -> val) :
  length mask = length sh ->
  (forall i, i < prod (ext_of mask sh) -> val_ok mask (int_of mask sh) (V i)) ->
  fold_left (fun acc i => do arr <- acc; place sh mask i (V i) arr)
            (seq 0 (prod (ext_of mask sh))) (Ok (repeat none_str (prod sh)))
  = Ok (target sh mask V).
Proof.
  intros Hlen HV. rewrite <- place_pure_all by exact Hlen.
  apply (fold_left_bind_ok (fun arr i => place sh mask i (V i) arr)).
  intros i arr Hi. apply in_seq in Hi. apply place_ok; [exact Hlen|lia|apply HV; lia].
Qed.

(* ---------- storage dump ---------- *)
Definition dump_entries (sh : list nat) (mask : list bool) (key : list nat) (v : val) : sto :=
  map (fun jj => (merge mask key jj, elem v jj)) (all_indices (int_of mask sh)).
Definition dump_pure (sh : list nat) (mask : list bool) (i : nat) (v : val) (st : sto) : sto :=
  dump_entries sh mask (unravel (ext_of mask sh) i) v ++ st.

Lemma sto_dump_ok sh mask key v st :
  length mask = length sh -> val_ok mask (int_of mask sh) v ->
  sto_dump sh mask key v st = Ok (dump_entries sh mask key v ++ st).
Proof.
  intros Hlen Hv. unfold sto_dump, val_ok, dump_entries in *. destruct (forallb id mask) eqn:Hm.
  - destruct Hv as [x ->]. destruct (alltrue_proj mask sh Hm (eq_sym Hlen)) as [_ E2]. rewrite E2.
    reflexivity.
  - destruct Hv as [a [-> [Hshp Hwf]]].
    pose proof (not_alltrue_int mask sh Hm (eq_sym Hlen)) as Hne.
    destruct (int_of mask sh) as [|d t] eqn:Ei; [congruence|].
    rewrite Hshp, list_nat_eqb_refl. cbn [negb].
    rewrite (mapM_ok_map_in _ (fun jj => (merge mask key jj, elem (VA a) jj))); [reflexivity|].
    intros jj Hjj. rewrite <- Hshp in Hjj. destruct (nd_get_some a jj Hwf Hjj) as [x Hx].
    cbn [elem]. rewrite Hx. reflexivity.
Qed.

Lemma sto_get_consistent (g : list nat -> str) (st : sto) idx :
  (forall k x, In (k, x) st -> x = g k) -> In idx (map fst st) -> sto_get st idx = Some (g idx).
Proof.
  induction st as [|[k x] st IH]; intros Hc Hin; cbn [map fst] in Hin; [contradiction|]. cbn [sto_get].
  destruct (list_eqb Nat.eqb k idx) eqn:E.
  - apply (list_eqb_eq Nat.eqb Nat.eqb_eq) in E. subst k. f_equal. apply Hc. left. reflexivity.
  - destruct Hin as [->|Hin]; [rewrite list_nat_eqb_refl in E; discriminate|].
    apply IH; [|exact Hin]. intros k' x' H. apply Hc. right. exact H.
Qed.

Theorem sto_pure_all sh mask (V : nat -> val) :
  length mask = length sh ->
  sto_array sh (fold_left (fun st i => dump_pure sh mask i (V i) st) (seq 0 (prod (ext_of mask sh))) [])
  = {| shp := sh; dat := target sh mask V |}.
Proof.
  intros Hlen. unfold dump_pure.
  rewrite (fold_left_cons_front (fun i => dump_entries sh mask (unravel (ext_of mask sh) i) (V i))), app_nil_r.
  unfold sto_array, nd_of_fun, target. f_equal. apply map_ext_in. intros idx Hidx.
  apply in_all_indices_iff in Hidx.
  rewrite (sto_get_consistent (target_elem sh mask V)); [reflexivity| |].
  - intros k x Hin. apply in_flat_map in Hin as [i [Hi Hin]]. apply in_rev, in_seq in Hi.
    unfold dump_entries in Hin. apply in_map_iff in Hin as [jj [E Hjj]]. injection E as <- <-.
    destruct (merge_facts sh mask Hlen i jj ltac:(lia) Hjj) as [Hb [E1 [E2 E3]]].
    unfold target_elem. rewrite E3, E2. reflexivity.
  - destruct (split_facts sh mask Hlen _ Hidx) as [Hi [Hjj Hm]].
    apply in_map_iff. exists (idx, elem (V (ravel (ext_of mask sh) (ext_of mask idx))) (int_of mask idx)).
    split; [reflexivity|]. apply in_flat_map. exists (ravel (ext_of mask sh) (ext_of mask idx)).
    split; [apply -> in_rev; apply in_seq; lia|]. unfold dump_entries. apply in_map_iff.
    exists (int_of mask idx). split; [|exact Hjj]. rewrite Hm. reflexivity.
Qed.

(* Goal 2: after dumping every linear index, the storage renders the same array *)
Theorem sto_all sh mask (V : nat -> val) :
  length mask = length sh ->
  (forall i, i < prod (ext_of mask sh) -> val_ok mask (int_of mask sh) (V i)) ->
  exists st,
    fold_left (fun acc i => do st <- acc; sto_dump sh mask (unravel (ext_of mask sh) i) (V i) st)
              (seq 0 (prod (ext_of mask sh))) (Ok []) = Ok st
    /\ sto_array sh st = {| shp := sh; dat := target sh mask V |}.
Proof.
  intros Hlen HV. eexists. split; [|apply (sto_pure_all sh mask V Hlen)].
  apply (fold_left_bind_ok (fun st i => sto_dump sh mask (unravel (ext_of mask sh) i) (V i) st)).
  intros i st Hi. apply in_seq in Hi. unfold dump_pure. apply sto_dump_ok; [exact Hlen|apply HV; lia].
Qed.
