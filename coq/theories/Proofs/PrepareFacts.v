(* Facts about Model/PrepareSteps.v: if every effect of a step list is preceded by all checks, a rejected
   request has performed no effect at all (for EVERY step list, in particular the regenerated one). *)
From Verif Require Import Base.Prelude Model.PrepareSteps Proofs.StrFacts.

Definition quiet (st : step) : bool := negb (is_effect st || is_unknown st).

Lemma check_labels_app a b : check_labels (a ++ b) = check_labels a ++ check_labels b.
Proof. unfold check_labels. apply flat_map_app. Qed.

(* split at the first step that is an Effect or Unknown *)
Lemma split_first_loud (steps : list step) :
  forallb quiet steps = true
  \/ exists pre st rest, steps = pre ++ st :: rest /\ forallb quiet pre = true /\ quiet st = false.
Proof.
  induction steps as [|st t IH]; [left; reflexivity|].
  destruct (quiet st) eqn:Eq.
  - destruct IH as [IH|[pre [st' [rest [H1 [H2 H3]]]]]].
    + left. cbn. now rewrite Eq, IH.
    + right. exists (st :: pre), st', rest. subst t. cbn. rewrite Eq, H2. auto.
  - right. exists [], st, t. auto.
Qed.

Lemma in_effect_positions pre l rest :
  In (length pre) (effect_positions (pre ++ Effect l :: rest)).
Proof.
  unfold effect_positions. apply in_map_iff. exists (length pre, Effect l). split; [reflexivity|].
  apply filter_In. split; [|reflexivity].
  set (steps := pre ++ Effect l :: rest).
  assert (G : forall (l0 : list step) k0 j x, nth_error l0 j = Some x -> In (k0 + j, x) (combine (seq k0 (length l0)) l0)).
  { induction l0 as [|y l0 IH]; intros k0 j x H; [destruct j; discriminate|].
    cbn [length seq combine]. destruct j as [|j]; cbn in H.
    - injection H as ->. left. f_equal. lia.
    - right. replace (k0 + S j) with (S k0 + j) by lia. now apply IH. }
  apply (G steps 0 (length pre) (Effect l)). unfold steps.
  rewrite nth_error_app2 by lia. now rewrite Nat.sub_diag.
Qed.

Section Exec.
  Context {ctx : Type}.
  Variable chk : str -> ctx -> result unit.

  Definition passes (c : ctx) (l : str) : Prop := exists u, chk l c = Ok u.

  Lemma exec_quiet steps c tr :
    forallb quiet steps = true -> snd (exec chk steps c tr) = tr.
  Proof.
    revert tr. induction steps as [|st t IH]; intros tr H; [reflexivity|].
    cbn in H. apply andb_true_iff in H as [H1 H2].
    destruct st; cbn in H1; try discriminate; cbn [exec]; try (now apply IH).
    destruct (chk l c); [now apply IH|reflexivity].
  Qed.

  Lemma exec_all_pass steps c tr :
    (forall l, In l (check_labels steps) -> passes c l) -> fst (exec chk steps c tr) = Ok tt.
  Proof.
    revert tr. induction steps as [|st t IH]; intros tr H; [reflexivity|].
    destruct st; cbn [exec]; try (apply IH; intros l0 Hl; apply H; cbn; auto; fail).
    destruct (H l) as [u Hu]; [cbn; auto|]. rewrite Hu. apply IH. intros l0 Hl. apply H. cbn. auto.
  Qed.

  (* a prefix without effects either fails (trace untouched) or all its checks pass and execution continues *)
  Lemma exec_quiet_prefix pre rest c tr :
    forallb quiet pre = true ->
    (exists e, exec chk (pre ++ rest) c tr = (Err e, tr))
    \/ ((forall l, In l (check_labels pre) -> passes c l) /\ exec chk (pre ++ rest) c tr = exec chk rest c tr).
  Proof.
    induction pre as [|st t IH]; intros H; [right; split; [intros l []|reflexivity]|].
    cbn in H. apply andb_true_iff in H as [H1 H2]. specialize (IH H2).
    destruct st; cbn in H1; try discriminate; cbn [app exec]; try exact IH.
    destruct (chk l c) as [u|e] eqn:E.
    - destruct IH as [IH|[IH1 IH2]]; [left; exact IH|right]. split; [|exact IH2].
      intros l0 [<-|Hl]; [exists u; exact E|now apply IH1].
    - left. exists e. reflexivity.
  Qed.

  (* THE GENERIC THEOREM: checks-before-effects implies that a rejection has an empty effect trace *)
  Theorem rejected_no_effect steps c e tr :
    no_effect_before_checks steps = true ->
    exec chk steps c [] = (Err e, tr) -> tr = [].
  Proof.
    unfold no_effect_before_checks. intros H Hex. apply andb_true_iff in H as [Hu Hall].
    apply negb_true_iff in Hu.
    destruct (split_first_loud steps) as [Hq|[pre [st [rest [-> [Hpre Hst]]]]]].
    - pose proof (exec_quiet steps c [] Hq) as Hs. rewrite Hex in Hs. exact Hs.
    - (* the first loud step is an Effect (no Unknown anywhere) *)
      assert (Hst' : exists l, st = Effect l).
      { destruct st; cbn in Hst; try discriminate; [eexists; reflexivity|].
        unfold has_unknown in Hu. rewrite existsb_app in Hu. cbn in Hu. rewrite orb_true_r in Hu. discriminate. }
      destruct Hst' as [l ->].
      destruct (exec_quiet_prefix pre (Effect l :: rest) c [] Hpre) as [[e' He']|[Hpass Hcont]].
      + rewrite He' in Hex. now injection Hex as _ <-.
      + (* every check of the whole list already passed in `pre`: the run cannot be rejected *)
        exfalso.
        rewrite forallb_forall in Hall. specialize (Hall (length pre) (in_effect_positions pre l rest)).
        unfold all_checks_precede in Hall. rewrite forallb_forall in Hall.
        rewrite firstn_app, Nat.sub_diag, firstn_all, firstn_O, app_nil_r in Hall.
        assert (Hp : forall l0, In l0 (check_labels (pre ++ Effect l :: rest)) -> passes c l0).
        { intros l0 Hl0. apply Hpass. apply mem_str_In. now apply Hall. }
        pose proof (exec_all_pass (pre ++ Effect l :: rest) c [] Hp) as Hok.
        rewrite Hex in Hok. discriminate.
  Qed.

  (* exec and first_failure agree on the verdict *)
  Lemma exec_fst steps c tr : fst (exec chk steps c tr) = first_failure chk steps c.
  Proof.
    revert tr. induction steps as [|st t IH]; intros tr; [reflexivity|].
    destruct st; cbn [exec first_failure]; try apply IH.
    destruct (chk l c); [apply IH|reflexivity].
  Qed.
End Exec.

(* the trace of a run is the initial trace followed by a prefix of the effect (and Unknown) labels of the list *)
Definition loud_labels (steps : list step) : list str :=
  flat_map (fun st => match st with Effect l => [l] | Unknown l => [l] | _ => [] end) steps.

Lemma exec_trace_prefix {ctx} (chk : str -> ctx -> result unit) steps c : forall tr,
  exists k, snd (exec chk steps c tr) = tr ++ firstn k (loud_labels steps).
Proof.
  induction steps as [|st t IH]; intros tr; [exists 0; cbn; now rewrite app_nil_r|].
  destruct st; cbn [exec loud_labels flat_map app].
  - destruct (chk l c); [apply IH|exists 0; cbn; now rewrite app_nil_r].
  - destruct (IH (tr ++ [l])) as [k Hk]. exists (S k). rewrite Hk. cbn [firstn]. now rewrite <- app_assoc.
  - apply IH.
  - apply IH.
  - destruct (IH (tr ++ [l])) as [k Hk]. exists (S k). rewrite Hk. cbn [firstn]. now rewrite <- app_assoc.
Qed.
