(* Facts about the Python primitives of Base/PyPrim.v, independent of any translated function. *)
From Verif Require Import Base.Prelude Base.PyPrim.

Lemma bind_ok {A B} (a : A) (f : A -> result B) : bind (Ok a) f = f a.
Proof. reflexivity. Qed.

Lemma bind_err {A B} e (f : A -> result B) : bind (Err e) f = Err e.
Proof. reflexivity. Qed.

Lemma fold_bind_err {X S} (body : X -> S -> result S) it e :
  fold_left (fun acc x => bind acc (body x)) it (Err e) = Err e.
Proof. induction it as [|x it IH]; [reflexivity|]. cbn [fold_left bind]. exact IH. Qed.

Lemma py_for_nil {X S} (body : X -> S -> result S) st : py_for [] body st = Ok st.
Proof. reflexivity. Qed.

Lemma py_for_cons {X S} (body : X -> S -> result S) x it st :
  py_for (x :: it) body st = bind (body x st) (py_for it body).
Proof.
  unfold py_for. cbn [fold_left bind]. destruct (body x st) as [s'|e]; cbn [bind]; [reflexivity|].
  apply fold_bind_err.
Qed.

Lemma py_for_app {X S} (body : X -> S -> result S) it1 it2 st :
  py_for (it1 ++ it2) body st = bind (py_for it1 body st) (py_for it2 body).
Proof.
  revert st. induction it1 as [|x it1 IH]; intros st; [reflexivity|].
  cbn [app]. rewrite !py_for_cons. destruct (body x st) as [s'|e]; cbn [bind]; [apply IH|reflexivity].
Qed.

Lemma py_for_ext {X S} (b1 b2 : X -> S -> result S) it st :
  (forall x s, In x it -> b1 x s = b2 x s) -> py_for it b1 st = py_for it b2 st.
Proof.
  revert st. induction it as [|x it IH]; intros st H; [reflexivity|].
  rewrite !py_for_cons, H by (left; reflexivity). destruct (b2 x st); cbn [bind]; [|reflexivity].
  apply IH. intros; apply H; right; assumption.
Qed.

(* a loop whose body never raises is a plain fold *)
Lemma py_for_total {X S} (body : X -> S -> result S) (g : X -> S -> S) it st :
  (forall x s, In x it -> body x s = Ok (g x s)) -> py_for it body st = Ok (fold_left (fun s x => g x s) it st).
Proof.
  revert st. induction it as [|x it IH]; intros st H; [reflexivity|].
  rewrite py_for_cons, H by (left; reflexivity). cbn [bind fold_left]. apply IH. intros; apply H; right; assumption.
Qed.

Lemma py_range_0 n : py_range 0 n = seq 0 n.
Proof. unfold py_range. now rewrite Nat.sub_0_r. Qed.

Lemma py_index_app {A} (pre : list A) x l : py_index (pre ++ x :: l) (length pre) = Ok x.
Proof. unfold py_index. rewrite nth_error_app2 by lia. now rewrite Nat.sub_diag. Qed.

Lemma skipn_nth_error_some {A} (l : list A) : forall i x, nth_error l i = Some x -> skipn i l = x :: skipn (S i) l.
Proof.
  induction l as [|y l IH]; intros [|i] x H; cbn in *; try discriminate.
  - now injection H as ->.
  - now apply IH.
Qed.

Lemma skipn_nth_error_none {A} (l : list A) i : nth_error l i = None -> skipn i l = [].
Proof. intros H. apply skipn_all2. now apply nth_error_None. Qed.

Lemma py_index_skipn {A} (l : list A) i :
  py_index l i = match skipn i l with x :: _ => Ok x | [] => Err IndexError end.
Proof.
  unfold py_index. destruct (nth_error l i) as [x|] eqn:E.
  - now rewrite (skipn_nth_error_some _ _ _ E).
  - now rewrite (skipn_nth_error_none _ _ E).
Qed.

Lemma skipn_S_tl {A} (l : list A) i x t : skipn i l = x :: t -> skipn (S i) l = t.
Proof.
  revert i. induction l as [|y l IH]; intros [|i] H; cbn in *; try discriminate.
  - now injection H as _ ->.
  - destruct i; [destruct l; cbn in *; [discriminate|]; now injection H as _ ->|]. now apply IH.
Qed.

(* dictionaries as association lists *)
Section Dict.
  Context {K V : Type} (eqb : K -> K -> bool).
  Hypothesis eqb_eq : forall a b, eqb a b = true <-> a = b.

  Lemma eqb_refl' a : eqb a a = true.
  Proof. now apply eqb_eq. Qed.

  Lemma py_dict_get_set_same (d : list (K * V)) k v : py_dict_get eqb (py_dict_set eqb d k v) k = Ok v.
  Proof.
    induction d as [|[k' v'] d IH]; cbn; [now rewrite eqb_refl'|].
    destruct (eqb k k') eqn:E; cbn; rewrite E; [reflexivity|assumption].
  Qed.

  Lemma py_dict_get_set_other (d : list (K * V)) k k' v :
    k <> k' -> py_dict_get eqb (py_dict_set eqb d k v) k' = py_dict_get eqb d k'.
  Proof.
    intros Hne. assert (eqb k' k = false) as Hf.
    { destruct (eqb k' k) eqn:E; [|reflexivity]. apply eqb_eq in E. congruence. }
    induction d as [|[k2 v2] d IH]; cbn.
    - now rewrite Hf.
    - destruct (eqb k k2) eqn:E; cbn.
      + apply eqb_eq in E. subst k2. now rewrite Hf.
      + destruct (eqb k' k2); [reflexivity|assumption].
  Qed.
End Dict.
