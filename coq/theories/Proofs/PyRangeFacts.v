(* Facts about Base/PyRange.v: slices select in-range, duplicate-free positions; the full slice is seq 0 n. *)
From Verif Require Import Base.Prelude Base.PyRange.
Local Open Scope Z_scope.

Lemma clamp_pos v n : 0 <= n -> 0 <= clamp v n false <= n.
Proof.
  intros Hn. unfold clamp.
  destruct (v <? 0) eqn:E1.
  - destruct (v + n <? 0) eqn:E2; lia.
  - destruct (v >=? n) eqn:E2; lia.
Qed.

Lemma clamp_neg v n : 0 <= n -> -1 <= clamp v n true <= n - 1.
Proof.
  intros Hn. unfold clamp.
  destruct (v <? 0) eqn:E1.
  - destruct (v + n <? 0) eqn:E2; lia.
  - destruct (v >=? n) eqn:E2; lia.
Qed.

Lemma slice_bounds_pos a b c n start stop step :
  slice_bounds a b c n = Ok (start, stop, step) -> 0 < step ->
  0 <= start <= Z.of_nat n /\ 0 <= stop <= Z.of_nat n.
Proof.
  unfold slice_bounds. intros H Hs.
  destruct (match c with None => 1 | Some st => st end =? 0) eqn:E0; [discriminate|].
  injection H as H1 H2 H3. subst step.
  assert (Hneg : (match c with None => 1 | Some st => st end <? 0) = false) by lia.
  rewrite Hneg in *.
  assert (Hn : 0 <= Z.of_nat n) by lia.
  split.
  - subst start. destruct a; [apply clamp_pos; lia | lia].
  - subst stop. destruct b; [apply clamp_pos; lia | lia].
Qed.

Lemma slice_bounds_neg a b c n start stop step :
  slice_bounds a b c n = Ok (start, stop, step) -> step < 0 ->
  -1 <= start <= Z.of_nat n - 1 /\ -1 <= stop <= Z.of_nat n - 1.
Proof.
  unfold slice_bounds. intros H Hs.
  destruct (match c with None => 1 | Some st => st end =? 0) eqn:E0; [discriminate|].
  injection H as H1 H2 H3. subst step.
  assert (Hneg : (match c with None => 1 | Some st => st end <? 0) = true) by lia.
  rewrite Hneg in *.
  assert (Hn : 0 <= Z.of_nat n) by lia.
  split.
  - subst start. destruct a; [apply clamp_neg; lia | lia].
  - subst stop. destruct b; [apply clamp_neg; lia | lia].
Qed.

Lemma slice_bounds_step a b c n start stop step :
  slice_bounds a b c n = Ok (start, stop, step) -> step <> 0.
Proof.
  unfold slice_bounds. intros H.
  destruct (match c with None => 1 | Some st => st end =? 0) eqn:E0; [discriminate|].
  injection H as _ _ H3. lia.
Qed.

(* elements of range(start, stop, step) lie between the bounds *)
Lemma py_range_pos start stop step x :
  0 < step -> In x (py_range start stop step) -> start <= x < stop.
Proof.
  intros Hs Hin. unfold py_range in Hin. apply in_map_iff in Hin. destruct Hin as [k [Hx Hk]].
  apply in_seq in Hk. unfold range_len in Hk.
  assert (E : (step >? 0) = true) by lia. rewrite E in Hk.
  destruct (start <? stop) eqn:E1; [|simpl in Hk; lia].
  assert (Hq : 0 <= (stop - start - 1) / step) by (apply Z.div_pos; lia).
  assert (Hk' : Z.of_nat k <= (stop - start - 1) / step) by lia.
  assert (Hm : step * ((stop - start - 1) / step) <= stop - start - 1) by (apply Z.mul_div_le; lia).
  subst x. nia.
Qed.

Lemma py_range_neg start stop step x :
  step < 0 -> In x (py_range start stop step) -> stop < x <= start.
Proof.
  intros Hs Hin. unfold py_range in Hin. apply in_map_iff in Hin. destruct Hin as [k [Hx Hk]].
  apply in_seq in Hk. unfold range_len in Hk.
  assert (E : (step >? 0) = false) by lia. rewrite E in Hk.
  destruct (stop <? start) eqn:E1; [|simpl in Hk; lia].
  assert (Hq : 0 <= (start - stop - 1) / (- step)) by (apply Z.div_pos; lia).
  assert (Hk' : Z.of_nat k <= (start - stop - 1) / (- step)) by lia.
  assert (Hm : (- step) * ((start - stop - 1) / (- step)) <= start - stop - 1) by (apply Z.mul_div_le; lia).
  subst x. nia.
Qed.

Theorem slice_indices_in_range a b c n l :
  slice_indices a b c n = Ok l -> forall x, In x l -> (x < n)%nat.
Proof.
  unfold slice_indices. intros H x Hin.
  destruct (slice_bounds a b c n) as [[[start stop] step]|] eqn:E; [|discriminate].
  injection H as H. subst l. apply in_map_iff in Hin. destruct Hin as [z [Hz Hin]].
  pose proof (slice_bounds_step _ _ _ _ _ _ _ E) as Hne.
  destruct (Z_lt_le_dec 0 step) as [Hp|Hp].
  - destruct (slice_bounds_pos _ _ _ _ _ _ _ E Hp) as [Hs He].
    pose proof (py_range_pos _ _ _ _ Hp Hin). lia.
  - assert (Hn : step < 0) by lia.
    destruct (slice_bounds_neg _ _ _ _ _ _ _ E Hn) as [Hs He].
    pose proof (py_range_neg _ _ _ _ Hn Hin). lia.
Qed.

Lemma py_range_NoDup start stop step : step <> 0 -> NoDup (py_range start stop step).
Proof.
  intros Hne. unfold py_range.
  set (m := Z.to_nat (range_len start stop step)). clearbody m.
  assert (G : forall a, NoDup (map (fun k : nat => start + Z.of_nat k * step) (seq a m))).
  { induction m as [|m IH]; intros a0; simpl; constructor.
    - intros Hin. apply in_map_iff in Hin. destruct Hin as [k [Hk Hin]]. apply in_seq in Hin. nia.
    - apply IH. }
  apply G.
Qed.

Theorem slice_indices_NoDup a b c n l : slice_indices a b c n = Ok l -> NoDup l.
Proof.
  unfold slice_indices. intros H.
  destruct (slice_bounds a b c n) as [[[start stop] step]|] eqn:E; [|discriminate].
  injection H as H. subst l.
  pose proof (slice_bounds_step _ _ _ _ _ _ _ E) as Hne.
  assert (Hnn : forall z, In z (py_range start stop step) -> 0 <= z).
  { intros z Hz. destruct (Z_lt_le_dec 0 step) as [Hp|Hp].
    - destruct (slice_bounds_pos _ _ _ _ _ _ _ E Hp). pose proof (py_range_pos _ _ _ _ Hp Hz). lia.
    - assert (Hn : step < 0) by lia. destruct (slice_bounds_neg _ _ _ _ _ _ _ E Hn).
      pose proof (py_range_neg _ _ _ _ Hn Hz). lia. }
  pose proof (py_range_NoDup start stop step Hne) as Hnd.
  revert Hnn Hnd. generalize (py_range start stop step). intros r.
  induction r as [|z r IH]; intros Hnn Hnd; simpl; constructor.
  - intros Hin. apply in_map_iff in Hin. destruct Hin as [y [Hy Hin]].
    inversion Hnd as [|? ? Hni _]; subst. apply Hni.
    assert (0 <= y) by (apply Hnn; right; exact Hin).
    assert (0 <= z) by (apply Hnn; left; reflexivity).
    assert (y = z) by lia. subst. exact Hin.
  - apply IH; [intros; apply Hnn; right; assumption | inversion Hnd; assumption].
Qed.

Theorem full_slice_indices n : fsel_indices full_slice n = Ok (seq 0 n).
Proof.
  unfold fsel_indices, full_slice, slice_indices, slice_bounds. simpl.
  unfold py_range, range_len. simpl.
  destruct (0 <? Z.of_nat n) eqn:E.
  - replace ((Z.of_nat n - 0 - 1) / 1 + 1) with (Z.of_nat n) by (rewrite Z.div_1_r; lia).
    rewrite Nat2Z.id. f_equal. rewrite map_map.
    rewrite <- (map_id (seq 0 n)) at 2. apply map_ext. intros k. lia.
  - assert (n = 0%nat) by lia. subst. reflexivity.
Qed.

Theorem norm_int_in_range k n i : norm_int k n = Ok i -> (i < n)%nat.
Proof.
  unfold norm_int. intros H.
  destruct ((0 <=? (if k <? 0 then k + Z.of_nat n else k)) && ((if k <? 0 then k + Z.of_nat n else k) <? Z.of_nat n)) eqn:E;
    [|discriminate].
  injection H as H. subst i. lia.
Qed.

Theorem fsel_indices_in_range f n l : fsel_indices f n = Ok l -> forall x, In x l -> (x < n)%nat.
Proof.
  destruct f as [k|a b c]; simpl; intros H x Hin.
  - destruct (norm_int k n) eqn:E; [|discriminate]. injection H as H. subst l.
    destruct Hin as [Hx|[]]. subst. eapply norm_int_in_range; eauto.
  - eapply slice_indices_in_range; eauto.
Qed.

Theorem fsel_indices_NoDup f n l : fsel_indices f n = Ok l -> NoDup l.
Proof.
  destruct f as [k|a b c]; simpl; intros H.
  - destruct (norm_int k n); [|discriminate]. injection H as H. subst l. constructor; [intros []|constructor].
  - eapply slice_indices_NoDup; eauto.
Qed.
