(* Facts about the Python-semantics definitions of Base/PySlice.v. *)
From Verif Require Import Base.Prelude Base.Index Base.PySlice Proofs.IndexFacts.

(* ---------- norm_int ---------- *)
Lemma norm_int_ok k n m : norm_int k n = Ok m -> m < n.
Proof.
  unfold norm_int. intros H.
  destruct (0 <=? k)%Z eqn:Ek;
    match type of H with (if ?c then _ else _) = _ => destruct c eqn:Ec end; try discriminate;
    injection H as <-; apply andb_true_iff in Ec as [E1 E2];
    apply Z.leb_le in E1; apply Z.ltb_lt in E2; lia.
Qed.

Lemma norm_int_spec k n :
  (int_in_range k n /\ exists m, norm_int k n = Ok m /\ m < n
                                 /\ Z.of_nat m = if (0 <=? k)%Z then k else (k + Z.of_nat n)%Z)
  \/ (~ int_in_range k n /\ norm_int k n = Err IndexError).
Proof.
  unfold norm_int, int_in_range.
  destruct (0 <=? k)%Z eqn:Ek.
  - apply Z.leb_le in Ek.
    destruct ((0 <=? k)%Z && (k <? Z.of_nat n)%Z) eqn:Ec.
    + apply andb_true_iff in Ec as [E1 E2]. apply Z.ltb_lt in E2.
      left. split; [lia|]. exists (Z.to_nat k). repeat split; lia.
    + right. split; [|reflexivity]. apply andb_false_iff in Ec as [E1|E2].
      * apply Z.leb_gt in E1. lia.
      * apply Z.ltb_ge in E2. lia.
  - apply Z.leb_gt in Ek.
    destruct ((0 <=? k + Z.of_nat n)%Z && (k + Z.of_nat n <? Z.of_nat n)%Z) eqn:Ec.
    + apply andb_true_iff in Ec as [E1 E2]. apply Z.leb_le in E1. apply Z.ltb_lt in E2.
      left. split; [lia|]. exists (Z.to_nat (k + Z.of_nat n)). repeat split; lia.
    + right. split; [|reflexivity]. apply andb_false_iff in Ec as [E1|E2].
      * apply Z.leb_gt in E1. lia.
      * apply Z.ltb_ge in E2. lia.
Qed.

Lemma norm_int_of_nat m n : m < n -> norm_int (Z.of_nat m) n = Ok m.
Proof.
  intros H. unfold norm_int.
  assert (0 <=? Z.of_nat m = true)%Z as E1 by (apply Z.leb_le; lia).
  assert (Z.of_nat m <? Z.of_nat n = true)%Z as E2 by (apply Z.ltb_lt; lia).
  rewrite E1. cbv zeta. rewrite E1, E2. cbn [andb]. now rewrite Nat2Z.id.
Qed.

(* ---------- range / slice ---------- *)
Lemma range_list_bounds st sp step x :
  In x (range_list st sp step) ->
  ((0 < step)%Z -> (st <= x < sp)%Z) /\ ((step < 0)%Z -> (sp < x <= st)%Z).
Proof.
  unfold range_list, range_len. intros H. apply in_map_iff in H as [i [<- Hi]]. apply in_seq in Hi.
  split; intros Hs.
  - assert (0 <? step = true)%Z as E by (apply Z.ltb_lt; lia). rewrite E in Hi.
    destruct (st <? sp)%Z eqn:E2; [|cbn in Hi; lia]. apply Z.ltb_lt in E2.
    assert (0 <= (sp - st - 1) / step)%Z by (apply Z.div_pos; lia).
    assert (Z.of_nat i <= (sp - st - 1) / step)%Z as Hle by lia.
    pose proof (Z.mul_div_le (sp - st - 1) step Hs) as Hm.
    assert (step * Z.of_nat i <= step * ((sp - st - 1) / step))%Z by (apply Z.mul_le_mono_nonneg_l; lia).
    nia.
  - assert (0 <? step = false)%Z as E by (apply Z.ltb_ge; lia). rewrite E in Hi.
    destruct (sp <? st)%Z eqn:E2; [|cbn in Hi; lia]. apply Z.ltb_lt in E2.
    assert (0 < - step)%Z as Hm' by lia.
    assert (0 <= (st - sp - 1) / (- step))%Z by (apply Z.div_pos; lia).
    assert (Z.of_nat i <= (st - sp - 1) / - step)%Z as Hle by lia.
    pose proof (Z.mul_div_le (st - sp - 1) (- step) Hm') as Hm.
    assert (- step * Z.of_nat i <= - step * ((st - sp - 1) / - step))%Z by (apply Z.mul_le_mono_nonneg_l; lia).
    nia.
Qed.

Lemma slice_adjust_bounds a b c n st sp step :
  (0 <= n)%Z -> slice_adjust a b c n = Ok (st, sp, step) ->
  (step <> 0)%Z /\ ((0 < step)%Z -> (0 <= st /\ sp <= n)%Z) /\ ((step < 0)%Z -> (st <= n - 1 /\ -1 <= sp)%Z).
Proof.
  unfold slice_adjust. intros Hn H.
  destruct ((match c with None => 1%Z | Some z => z end) =? 0)%Z eqn:E0; [discriminate|].
  apply Z.eqb_neq in E0. injection H as <- <- <-.
  split; [assumption|].
  set (step := match c with None => 1%Z | Some z => z end) in *.
  split; intros Hs.
  - assert (step <? 0 = false)%Z as -> by (apply Z.ltb_ge; lia).
    split.
    + destruct a as [z|]; [|lia]. destruct (z <? 0)%Z eqn:Ez; [apply Z.ltb_lt in Ez|apply Z.ltb_ge in Ez]; lia.
    + destruct b as [z|]; [|lia]. destruct (z <? 0)%Z eqn:Ez; [apply Z.ltb_lt in Ez|apply Z.ltb_ge in Ez]; lia.
  - assert (step <? 0 = true)%Z as -> by (apply Z.ltb_lt; lia).
    split.
    + destruct a as [z|]; [|lia]. destruct (z <? 0)%Z eqn:Ez; [apply Z.ltb_lt in Ez|apply Z.ltb_ge in Ez]; lia.
    + destruct b as [z|]; [|lia]. destruct (z <? 0)%Z eqn:Ez; [apply Z.ltb_lt in Ez|apply Z.ltb_ge in Ez]; lia.
Qed.

(* every selected index is a valid index of the axis *)
Theorem slice_indices_in_range a b c n l :
  slice_indices a b c n = Ok l -> forall i, In i l -> i < n.
Proof.
  unfold slice_indices. intros H i Hi.
  destruct (slice_adjust a b c (Z.of_nat n)) as [[[st sp] step]|e] eqn:E; [|discriminate].
  injection H as <-. apply in_map_iff in Hi as [x [<- Hx]].
  apply slice_adjust_bounds in E as [Hnz [Hpos Hneg]]; [|lia].
  apply range_list_bounds in Hx as [Hp Hn].
  destruct (Z.lt_total 0 step) as [Hs|[Hs|Hs]]; [|congruence|].
  - specialize (Hpos Hs). specialize (Hp Hs). lia.
  - specialize (Hneg Hs). specialize (Hn Hs). lia.
Qed.

(* the only failure of a slice is a zero step *)
Lemma slice_indices_err a b c n e : slice_indices a b c n = Err e -> c = Some 0%Z /\ e = ValueError.
Proof.
  unfold slice_indices, slice_adjust. destruct c as [z|]; cbn.
  - destruct (z =? 0)%Z eqn:E; [|discriminate]. apply Z.eqb_eq in E. subst. intros H. now injection H as <-.
  - discriminate.
Qed.

Lemma slice_indices_zero_step a b n : slice_indices a b (Some 0%Z) n = Err ValueError.
Proof. reflexivity. Qed.

Lemma slice_indices_full n : slice_indices None None None n = Ok (seq 0 n).
Proof.
  unfold slice_indices, slice_adjust, range_list, range_len. cbn [Z.eqb Z.ltb Z.compare].
  f_equal.
  destruct n as [|n'].
  - reflexivity.
  - assert ((0 <? Z.of_nat (S n'))%Z = true) as -> by (apply Z.ltb_lt; lia).
    rewrite Z.div_1_r. replace (Z.to_nat (Z.of_nat (S n') - 0 - 1 + 1)) with (S n') by lia.
    rewrite map_map. rewrite <- (map_id (seq 0 (S n'))) at 2. apply map_ext. intros i. lia.
Qed.

(* ---------- itertools.product ---------- *)
Lemma in_cart {A} (ls : list (list A)) : forall p, In p (cart ls) <-> Forall2 (fun x l => In x l) p ls.
Proof.
  induction ls as [|l t IH]; intros p; cbn.
  - split.
    + intros [<-|[]]. constructor.
    + intros H. inversion H. now left.
  - rewrite in_flat_map. split.
    + intros [x [Hx Hp]]. apply in_map_iff in Hp as [q [<- Hq]]. constructor; [assumption|]. now apply IH.
    + intros H. inversion H as [|x l' q t' Hx Hq]; subst. exists x. split; [assumption|].
      apply in_map_iff. exists q. split; [reflexivity|]. now apply IH.
Qed.

Lemma flat_map_length_const {A B} (f : A -> list B) (l : list A) k :
  (forall x, In x l -> length (f x) = k) -> length (flat_map f l) = length l * k.
Proof.
  induction l as [|x l IH]; intros H; cbn; [reflexivity|].
  rewrite app_length, H by (now left). rewrite IH; [lia|]. intros; apply H; now right.
Qed.

Lemma cart_length {A} (ls : list (list A)) : length (cart ls) = prod (map (@length A) ls).
Proof.
  induction ls as [|l t IH]; [reflexivity|]. cbn [cart map].
  rewrite (flat_map_length_const _ _ (length (cart t))).
  - rewrite IH. reflexivity.
  - intros x _. apply map_length.
Qed.

Lemma all_indices_cart sh : all_indices sh = cart (map (seq 0) sh).
Proof. induction sh as [|d t IH]; [reflexivity|]. cbn. now rewrite IH. Qed.

Lemma cart_singletons {A} (l : list A) : cart (map (fun x => [x]) l) = [l].
Proof. induction l as [|x l IH]; [reflexivity|]. cbn. rewrite IH. reflexivity. Qed.
