(* Facts about the model of CPython's sorted() (Base/PySort.v):
   - whenever it returns, the result is a permutation of the input (no hypothesis on the comparison);
   - when the comparison is a strict total order on the (pairwise distinct) keys of the elements it returns,
     and the result is strictly sorted;
   - strictly sorted lists with the same elements (up to a relation that preserves keys) agree position by
     position: canonicity of sorted(). *)
From Coq Require Import Permutation Sorted.
From Verif Require Import Base.Prelude Base.PySort.

Section SSApp.
  Context {A : Type} (R : A -> A -> Prop).
  Lemma ss_app_intro : forall l1 l2,
    StronglySorted R l1 -> StronglySorted R l2 -> (forall u v, In u l1 -> In v l2 -> R u v) ->
    StronglySorted R (l1 ++ l2).
  Proof.
    induction l1 as [|a l1 IH]; intros l2 H1 H2 H12; simpl; auto.
    apply StronglySorted_inv in H1. destruct H1 as [H1 Ha].
    constructor.
    - apply IH; auto. intros u v Hu Hv. apply H12; simpl; auto.
    - apply Forall_app. split; auto. apply Forall_forall. intros v Hv. apply H12; simpl; auto.
  Qed.
  Lemma ss_app_elim : forall l1 l2, StronglySorted R (l1 ++ l2) ->
    StronglySorted R l1 /\ StronglySorted R l2 /\ (forall u v, In u l1 -> In v l2 -> R u v).
  Proof.
    induction l1 as [|a l1 IH]; intros l2 H; simpl in *.
    - split; [constructor|]. split; auto. intros u v [].
    - apply StronglySorted_inv in H. destruct H as [H Ha].
      destruct (IH _ H) as (H1 & H2 & H12). apply Forall_app in Ha. destruct Ha as [Ha1 Ha2].
      split; [constructor; auto|]. split; auto.
      intros u v [Hu|Hu] Hv.
      + subst u. rewrite Forall_forall in Ha2. auto.
      + auto.
  Qed.
End SSApp.

Section Perm.
  Context {A : Type}.
  Variable lt : A -> A -> result bool.

  Lemma bins_perm : forall fuel pivot pre r,
    bins lt fuel pivot pre = Ok r -> Permutation (pivot :: pre) r.
  Proof.
    induction fuel as [|f IH]; intros pivot pre r H.
    - destruct pre; simpl in H; [inversion H; subst; auto | discriminate].
    - destruct pre as [|y pre']; [simpl in H; inversion H; subst; auto|].
      cbn [bins] in H. set (pre := y :: pre') in *.
      set (p := Nat.div2 (length pre)) in *.
      destruct (skipn p pre) as [|x b] eqn:Hs; [discriminate|].
      assert (Hpre : pre = firstn p pre ++ x :: b) by (rewrite <- Hs; symmetry; apply firstn_skipn).
      set (a := firstn p pre) in *.
      destruct (lt pivot x) as [c|e]; [|discriminate]. cbn [bind] in H. destruct c.
      + destruct (bins lt f pivot a) as [a'|e] eqn:Ha; [|discriminate]. cbn [bind] in H. inversion H; subst r.
        apply IH in Ha. rewrite Hpre. change (pivot :: a ++ x :: b) with ((pivot :: a) ++ x :: b).
        apply Permutation_app_tail. exact Ha.
      + destruct (bins lt f pivot b) as [b'|e] eqn:Hb; [|discriminate]. cbn [bind] in H. inversion H; subst r.
        apply IH in Hb. rewrite Hpre.
        apply Permutation_trans with (a ++ pivot :: x :: b).
        * apply Permutation_middle.
        * apply Permutation_app_head. apply Permutation_trans with (x :: pivot :: b); [apply perm_swap|].
          apply perm_skip. exact Hb.
  Qed.

  Lemma run_desc_perm : forall t prev acc r rest,
    run_desc lt prev t acc = Ok (r, rest) -> Permutation (rev acc ++ t) (r ++ rest).
  Proof.
    induction t as [|y t IH]; intros prev acc r rest H; simpl in H.
    - inversion H; subst. rewrite !app_nil_r. symmetry. apply Permutation_rev.
    - destruct (lt y prev) as [c|e]; [|discriminate]. cbn [bind] in H. destruct c.
      + apply IH in H. simpl in H. rewrite <- app_assoc in H. exact H.
      + inversion H; subst. apply Permutation_app_tail. symmetry. apply Permutation_rev.
  Qed.

  Lemma run_asc_perm : forall t prev acc r rest,
    run_asc lt prev t acc = Ok (r, rest) -> Permutation (rev acc ++ t) (r ++ rest).
  Proof.
    induction t as [|y t IH]; intros prev acc r rest H; simpl in H.
    - inversion H; subst. auto.
    - destruct (lt y prev) as [c|e]; [|discriminate]. cbn [bind] in H. destruct c.
      + inversion H; subst. auto.
      + apply IH in H. simpl in H. rewrite <- app_assoc in H. exact H.
  Qed.

  Lemma ins_all_perm : forall rest pre r, ins_all lt pre rest = Ok r -> Permutation (pre ++ rest) r.
  Proof.
    induction rest as [|y t IH]; intros pre r H; simpl in H.
    - inversion H; subst. rewrite app_nil_r. auto.
    - destruct (bins lt (length pre) y pre) as [pre'|e] eqn:Hb; [|discriminate]. cbn [bind] in H.
      apply IH in H. apply bins_perm in Hb.
      apply Permutation_trans with (pre' ++ t); auto.
      apply Permutation_trans with ((y :: pre) ++ t).
      + symmetry. apply Permutation_middle.
      + apply Permutation_app_tail. exact Hb.
  Qed.

  Theorem py_sort_perm : forall l r, py_sort lt l = Ok r -> Permutation l r.
  Proof.
    intros l r H. destruct l as [|x0 [|x1 t]]; simpl in H; try (inversion H; subst; auto; fail).
    destruct (lt x1 x0) as [d|e]; [|discriminate]. cbn [bind] in H.
    destruct (if d then run_desc lt x1 t [x1; x0] else run_asc lt x1 t [x1; x0]) as [[run rest]|e] eqn:Hr;
      [|discriminate].
    cbn [bind fst snd] in H. apply ins_all_perm in H.
    apply Permutation_trans with (run ++ rest); auto.
    destruct d; [apply run_desc_perm in Hr | apply run_asc_perm in Hr]; simpl in Hr; exact Hr.
  Qed.
End Perm.

(* ---------- sorting with a strict total order on distinct keys ---------- *)
Section Ordered.
  Context {A K : Type}.
  Variable lt : A -> A -> result bool.
  Variable ltK : K -> K -> Prop.
  Variable key : A -> K.
  Variable S : A -> Prop.
  Hypothesis ltK_irrefl : forall a, ~ ltK a a.
  Hypothesis ltK_trans : forall a b c, ltK a b -> ltK b c -> ltK a c.
  Hypothesis ltK_total : forall a b, ltK a b \/ a = b \/ ltK b a.
  (* on elements of S with different keys the comparison never raises and decides the key order *)
  Hypothesis lt_spec : forall x y, S x -> S y -> key x <> key y ->
    (lt x y = Ok true /\ ltK (key x) (key y)) \/ (lt x y = Ok false /\ ltK (key y) (key x)).

  Definition lts (x y : A) : Prop := ltK (key x) (key y).

  Lemma lts_trans : forall x y z, lts x y -> lts y z -> lts x z.
  Proof. unfold lts. intros. eapply ltK_trans; eauto. Qed.

  Lemma firstn_skipn_mid : forall (pre : list A), pre <> [] ->
    exists x b, skipn (Nat.div2 (length pre)) pre = x :: b
                /\ length (firstn (Nat.div2 (length pre)) pre) < length pre /\ length b < length pre.
  Proof.
    intros pre Hne.
    assert (Hlt : Nat.div2 (length pre) < length pre).
    { apply Nat.lt_div2. destruct pre; [congruence|simpl; lia]. }
    destruct (skipn (Nat.div2 (length pre)) pre) as [|x b] eqn:Hs.
    - assert (Hl := skipn_length (Nat.div2 (length pre)) pre). rewrite Hs in Hl. simpl in Hl. lia.
    - exists x, b. split; auto. split.
      + rewrite firstn_length. lia.
      + assert (Hl := skipn_length (Nat.div2 (length pre)) pre). rewrite Hs in Hl. simpl in Hl. lia.
  Qed.

  Lemma bins_spec : forall fuel pivot pre,
    length pre <= fuel -> Forall S pre -> S pivot -> ~ In (key pivot) (map key pre) ->
    StronglySorted lts pre ->
    exists r, bins lt fuel pivot pre = Ok r /\ StronglySorted lts r.
  Proof.
    induction fuel as [|f IH]; intros pivot pre Hlen HS Hp Hnin Hsorted.
    - destruct pre; [|simpl in Hlen; lia]. exists [pivot]. split; auto. repeat constructor.
    - destruct pre as [|y pre']; [exists [pivot]; split; auto; repeat constructor|].
      cbn [bins]. set (pre := y :: pre') in *.
      destruct (firstn_skipn_mid pre) as (x & b & Hs & Hla & Hlb); [discriminate|].
      rewrite Hs.
      assert (Hpre : pre = firstn (Nat.div2 (length pre)) pre ++ x :: b)
        by (rewrite <- Hs; symmetry; apply firstn_skipn).
      set (a := firstn (Nat.div2 (length pre)) pre) in *.
      rewrite Hpre in HS, Hnin, Hsorted.
      apply Forall_app in HS. destruct HS as [HSa HSxb]. inversion HSxb as [|? ? HSx HSb]; subst.
      rewrite map_app in Hnin. simpl in Hnin.
      assert (Hna : ~ In (key pivot) (map key a)) by (intro; apply Hnin; apply in_or_app; auto).
      assert (Hnx : key pivot <> key x) by (intro E; apply Hnin; apply in_or_app; right; left; auto).
      assert (Hnb : ~ In (key pivot) (map key b)) by (intro; apply Hnin; apply in_or_app; right; right; auto).
      apply ss_app_elim in Hsorted. destruct Hsorted as (Hsa & Hsxb & Haxb).
      apply StronglySorted_inv in Hsxb. destruct Hsxb as [Hsb Hxb]. rewrite Forall_forall in Hxb.
      destruct (lt_spec pivot x Hp HSx Hnx) as [[Hc Hk]|[Hc Hk]]; rewrite Hc; cbn [bind].
      + destruct (IH pivot a) as (a' & Ha' & Hsa'); auto; [lia|].
        rewrite Ha'. cbn [bind]. eexists. split; [reflexivity|].
        assert (Hperm := bins_perm lt _ _ _ _ Ha').
        apply ss_app_intro; auto.
        * constructor; auto. apply Forall_forall. exact Hxb.
        * intros u v Hu Hv.
          assert (Hux : lts u x).
          { apply (Permutation_in _ (Permutation_sym Hperm)) in Hu. destruct Hu as [Hu|Hu].
            - subst u. exact Hk.
            - apply Haxb; simpl; auto. }
          destruct Hv as [Hv|Hv]; [subst v; exact Hux|]. eapply lts_trans; [exact Hux|]. apply Hxb; auto.
      + destruct (IH pivot b) as (b' & Hb' & Hsb'); auto; [lia|].
        rewrite Hb'. cbn [bind]. eexists. split; [reflexivity|].
        assert (Hperm := bins_perm lt _ _ _ _ Hb').
        apply ss_app_intro; auto.
        * constructor; auto. apply Forall_forall. intros v Hv.
          apply (Permutation_in _ (Permutation_sym Hperm)) in Hv. destruct Hv as [Hv|Hv].
          -- subst v. exact Hk.
          -- apply Hxb; auto.
        * intros u v Hu Hv.
          assert (Hux : lts u x) by (apply Haxb; simpl; auto).
          destruct Hv as [Hv|Hv]; [subst v; exact Hux|].
          apply (Permutation_in _ (Permutation_sym Hperm)) in Hv. destruct Hv as [Hv|Hv].
          -- subst v. eapply lts_trans; [exact Hux|exact Hk].
          -- eapply lts_trans; [exact Hux|]. apply Hxb; auto.
  Qed.

  Lemma ins_all_spec : forall rest pre,
    Forall S pre -> Forall S rest -> NoDup (map key (pre ++ rest)) -> StronglySorted lts pre ->
    exists r, ins_all lt pre rest = Ok r /\ StronglySorted lts r.
  Proof.
    induction rest as [|y t IH]; intros pre HSp HSr Hnd Hs.
    - exists pre. split; auto.
    - simpl. inversion HSr as [|? ? HSy HSt]; subst.
      assert (Hnd' : NoDup (map key (y :: pre ++ t))).
      { rewrite map_app in Hnd. simpl in Hnd. apply NoDup_remove in Hnd. destruct Hnd as [Hnd Hnin].
        simpl. constructor; rewrite map_app; auto. }
      inversion Hnd' as [|? ? Hnin Hnd'']; subst.
      destruct (bins_spec (length pre) y pre) as (pre' & Hb & Hs'); auto.
      { intro Hin. apply Hnin. rewrite map_app. apply in_or_app. auto. }
      rewrite Hb. cbn [bind].
      assert (Hperm := bins_perm lt _ _ _ _ Hb).
      apply IH; auto.
      + apply Forall_forall. intros u Hu. apply (Permutation_in _ (Permutation_sym Hperm)) in Hu.
        destruct Hu as [Hu|Hu]; [subst; auto|]. rewrite Forall_forall in HSp. auto.
      + apply (Permutation_NoDup (l := map key ((y :: pre) ++ t))); auto.
        apply Permutation_map. apply Permutation_app_tail. exact Hperm.
  Qed.

  Lemma lt_false_gt : forall x y, S x -> S y -> key x <> key y -> lt x y = Ok false -> lts y x.
  Proof.
    intros x y Hx Hy Hne H. destruct (lt_spec x y Hx Hy Hne) as [[Hc _]|[_ Hk]]; [congruence|exact Hk].
  Qed.
  Lemma lt_true_lt : forall x y, S x -> S y -> key x <> key y -> lt x y = Ok true -> lts x y.
  Proof.
    intros x y Hx Hy Hne H. destruct (lt_spec x y Hx Hy Hne) as [[_ Hk]|[Hc _]]; [exact Hk|congruence].
  Qed.
  Lemma lt_some : forall x y, S x -> S y -> key x <> key y -> exists b, lt x y = Ok b.
  Proof. intros x y Hx Hy Hne. destruct (lt_spec x y Hx Hy Hne) as [[Hc _]|[Hc _]]; eauto. Qed.

  (* descending run: acc = prev :: _ is strictly ascending *)
  Lemma run_desc_spec : forall t prev acc,
    Forall S (prev :: acc) -> Forall S t -> NoDup (map key (acc ++ t)) ->
    StronglySorted lts acc -> hd_error acc = Some prev ->
    exists r rest, run_desc lt prev t acc = Ok (r, rest) /\ StronglySorted lts r.
  Proof.
    induction t as [|y t IH]; intros prev acc HSa HSt Hnd Hs Hhd; simpl.
    - eauto.
    - inversion HSt as [|? ? HSy HSt']; subst. inversion HSa as [|? ? HSp HSacc]; subst.
      destruct acc as [|p acc']; [discriminate|]. simpl in Hhd. inversion Hhd; subst p.
      assert (Hne : key y <> key prev).
      { intro E. simpl in Hnd. inversion Hnd as [|? ? Hnin _]; subst. apply Hnin. rewrite map_app.
        apply in_or_app. right. simpl. auto. }
      destruct (lt_some y prev HSy HSp Hne) as [c Hc]. rewrite Hc. cbn [bind]. destruct c.
      + apply IH; [ | exact HSt' | | | reflexivity].
        * constructor; auto.
        * rewrite map_app in *. simpl in *.
          apply (Permutation_NoDup (l := key prev :: map key acc' ++ key y :: map key t)); auto.
          change (key prev :: map key acc' ++ key y :: map key t)
            with ((key prev :: map key acc') ++ key y :: map key t).
          symmetry. apply (Permutation_middle (key prev :: map key acc')).
        * assert (Hyp : lts y prev) by (apply lt_true_lt; auto).
          constructor; auto. apply StronglySorted_inv in Hs. destruct Hs as [Hs' Hall].
          constructor; auto. eapply Forall_impl; [|exact Hall]. intros u Hu. eapply lts_trans; eauto.
      + eauto.
  Qed.

  (* ascending run: rev acc is strictly ascending and ends with prev *)
  Lemma run_asc_spec : forall t prev acc,
    Forall S (prev :: acc) -> Forall S t -> NoDup (map key (acc ++ t)) ->
    StronglySorted lts (rev acc) -> hd_error acc = Some prev ->
    exists r rest, run_asc lt prev t acc = Ok (r, rest) /\ StronglySorted lts r.
  Proof.
    induction t as [|y t IH]; intros prev acc HSa HSt Hnd Hs Hhd; simpl.
    - eauto.
    - inversion HSt as [|? ? HSy HSt']; subst. inversion HSa as [|? ? HSp HSacc]; subst.
      destruct acc as [|p acc']; [discriminate|]. simpl in Hhd. inversion Hhd; subst p.
      assert (Hne : key y <> key prev).
      { intro E. simpl in Hnd. inversion Hnd as [|? ? Hnin _]; subst. apply Hnin. rewrite map_app.
        apply in_or_app. right. simpl. auto. }
      destruct (lt_some y prev HSy HSp Hne) as [c Hc]. rewrite Hc. cbn [bind]. destruct c.
      + eauto.
      + apply IH; [ | exact HSt' | | | reflexivity].
        * constructor; auto.
        * rewrite map_app in *. simpl in *.
          apply (Permutation_NoDup (l := key prev :: map key acc' ++ key y :: map key t)); auto.
          change (key prev :: map key acc' ++ key y :: map key t)
            with ((key prev :: map key acc') ++ key y :: map key t).
          symmetry. apply (Permutation_middle (key prev :: map key acc')).
        * assert (Hpy : lts prev y) by (apply lt_false_gt; auto).
          change (rev (y :: prev :: acc')) with (rev (prev :: acc') ++ [y]).
          apply ss_app_intro; auto; [repeat constructor|].
          intros u v Hu [Hv|[]]. subst v.
          simpl in Hu. apply in_app_or in Hu. destruct Hu as [Hu|[Hu|[]]].
          -- simpl in Hs. apply ss_app_elim in Hs. destruct Hs as (_ & _ & H12).
             eapply lts_trans; [|exact Hpy]. apply H12; simpl; auto.
          -- subst u. exact Hpy.
  Qed.

  Theorem py_sort_spec : forall l,
    Forall S l -> NoDup (map key l) ->
    exists r, py_sort lt l = Ok r /\ Permutation l r /\ StronglySorted lts r.
  Proof.
    intros l HS Hnd.
    assert (Hgoal : exists r, py_sort lt l = Ok r /\ StronglySorted lts r).
    { destruct l as [|x0 [|x1 t]].
      - exists []. split; auto. constructor.
      - exists [x0]. split; auto. repeat constructor.
      - cbn [py_sort].
        inversion HS as [|? ? HS0 HS']; subst. inversion HS' as [|? ? HS1 HSt]; subst.
        assert (Hne : key x1 <> key x0).
        { intro E. simpl in Hnd. inversion Hnd as [|? ? Hnin _]; subst. apply Hnin. simpl. auto. }
        assert (Hnd' : NoDup (map key ([x1; x0] ++ t))).
        { simpl in *. apply (Permutation_NoDup (l := key x0 :: key x1 :: map key t)); auto. apply perm_swap. }
        assert (HSa : Forall S (x1 :: [x1; x0])) by (repeat constructor; auto).
        destruct (lt_some x1 x0 HS1 HS0 Hne) as [d Hd]. rewrite Hd. cbn [bind].
        destruct d.
        + assert (Hs0 : StronglySorted lts [x1; x0]).
          { apply lt_true_lt in Hd; auto. repeat constructor; auto. }
          destruct (run_desc_spec t x1 [x1; x0] HSa HSt Hnd' Hs0 eq_refl) as (r & rest & Hr & Hsr).
          rewrite Hr. cbn [bind fst snd].
          assert (Hp := run_desc_perm lt _ _ _ _ _ Hr). simpl in Hp.
          apply ins_all_spec; auto.
          * apply Forall_forall. intros u Hu.
            assert (Hin : In u (x0 :: x1 :: t)) by (apply (Permutation_in _ (Permutation_sym Hp)); apply in_or_app; auto).
            rewrite Forall_forall in HS. auto.
          * apply Forall_forall. intros u Hu.
            assert (Hin : In u (x0 :: x1 :: t)) by (apply (Permutation_in _ (Permutation_sym Hp)); apply in_or_app; auto).
            rewrite Forall_forall in HS. auto.
          * apply (Permutation_NoDup (l := map key (x0 :: x1 :: t))); auto. apply Permutation_map. exact Hp.
        + assert (Hs0 : StronglySorted lts (rev [x1; x0])).
          { simpl. apply lt_false_gt in Hd; auto. repeat constructor; auto. }
          destruct (run_asc_spec t x1 [x1; x0] HSa HSt Hnd' Hs0 eq_refl) as (r & rest & Hr & Hsr).
          rewrite Hr. cbn [bind fst snd].
          assert (Hp := run_asc_perm lt _ _ _ _ _ Hr). simpl in Hp.
          apply ins_all_spec; auto.
          * apply Forall_forall. intros u Hu.
            assert (Hin : In u (x0 :: x1 :: t)) by (apply (Permutation_in _ (Permutation_sym Hp)); apply in_or_app; auto).
            rewrite Forall_forall in HS. auto.
          * apply Forall_forall. intros u Hu.
            assert (Hin : In u (x0 :: x1 :: t)) by (apply (Permutation_in _ (Permutation_sym Hp)); apply in_or_app; auto).
            rewrite Forall_forall in HS. auto.
          * apply (Permutation_NoDup (l := map key (x0 :: x1 :: t))); auto. apply Permutation_map. exact Hp. }
    destruct Hgoal as (r & Hr & Hs). exists r. split; auto. split; auto. eapply py_sort_perm; eauto.
  Qed.
End Ordered.

(* ---------- canonicity: strictly sorted lists with the same elements up to R agree pointwise ---------- *)
Section Unique.
  Context {A B K : Type}.
  Variable ltK : K -> K -> Prop.
  Variable keyA : A -> K.
  Variable keyB : B -> K.
  Variable R : A -> B -> Prop.
  Hypothesis ltK_irrefl : forall a, ~ ltK a a.
  Hypothesis ltK_trans : forall a b c, ltK a b -> ltK b c -> ltK a c.
  Hypothesis R_key : forall a b, R a b -> keyA a = keyB b.

  Theorem sorted_unique : forall r r',
    StronglySorted (fun x y => ltK (keyA x) (keyA y)) r ->
    StronglySorted (fun x y => ltK (keyB x) (keyB y)) r' ->
    (forall a, In a r -> exists b, In b r' /\ R a b) ->
    (forall b, In b r' -> exists a, In a r /\ R a b) ->
    Forall2 R r r'.
  Proof.
    induction r as [|x xs IH]; intros r' Hs Hs' H1 H2.
    - destruct r' as [|y ys]; [constructor|]. destruct (H2 y) as (a & [] & _). simpl; auto.
    - destruct r' as [|y ys]; [destruct (H1 x) as (b & [] & _); simpl; auto|].
      apply StronglySorted_inv in Hs. destruct Hs as [Hsx Hx]. rewrite Forall_forall in Hx.
      apply StronglySorted_inv in Hs'. destruct Hs' as [Hsy Hy]. rewrite Forall_forall in Hy.
      assert (Hxy : R x y).
      { destruct (H1 x) as (b & Hb & Rb); [simpl; auto|]. destruct Hb as [Hb|Hb]; [subst; auto|].
        (* x ~ b in ys, so key y < key x *)
        assert (Hyx : ltK (keyB y) (keyA x)) by (rewrite (R_key _ _ Rb); apply Hy; auto).
        destruct (H2 y) as (a & Ha & Ra); [simpl; auto|]. destruct Ha as [Ha|Ha].
        - subst a. exfalso. rewrite (R_key _ _ Ra) in Hyx. exact (ltK_irrefl _ Hyx).
        - exfalso. assert (Hxa := Hx _ Ha). rewrite (R_key _ _ Ra) in Hxa.
          exact (ltK_irrefl _ (ltK_trans _ _ _ Hyx Hxa)). }
      constructor; auto. apply IH; auto.
      + intros a Ha. destruct (H1 a) as (b & Hb & Rb); [simpl; auto|]. destruct Hb as [Hb|Hb]; eauto.
        subst b. exfalso. assert (Hxa := Hx _ Ha). rewrite (R_key _ _ Rb), <- (R_key _ _ Hxy) in Hxa.
        exact (ltK_irrefl _ Hxa).
      + intros b Hb. destruct (H2 b) as (a & Ha & Ra); [simpl; auto|]. destruct Ha as [Ha|Ha]; eauto.
        subst a. exfalso. assert (Hyb := Hy _ Hb). rewrite <- (R_key _ _ Ra), (R_key _ _ Hxy) in Hyb.
        exact (ltK_irrefl _ Hyb).
  Qed.
End Unique.
