(* Facts about the value universe: induction principle, the orders used by sorted(), the two equalities. *)
From Coq Require Import Permutation Sorted.
From Verif Require Import Base.Prelude Base.PySort Model.PyVal.

(* ---------- induction over nested values ---------- *)
Section PyInd.
  Variable P : pyval -> Prop.
  Hypothesis HA : forall a, P (PA a).
  Hypothesis HSeq : forall k l, Forall P l -> P (PSeq k l).
  Hypothesis HSet : forall k l, Forall P l -> P (PSetv k l).
  Hypothesis HMap : forall k kvs, Forall (fun kv => P (fst kv) /\ P (snd kv)) kvs -> P (PMap k kvs).
  Hypothesis HSer : forall n d i x, P (PSeries n d i x).
  Hypothesis HFr : forall c i, P (PFrame c i).

  Fixpoint pyval_ind2 (v : pyval) : P v :=
    match v with
    | PA a => HA a
    | PSeq k l =>
        HSeq k l ((fix go (l : list pyval) : Forall P l :=
                     match l with [] => Forall_nil _ | x :: t => Forall_cons x (pyval_ind2 x) (go t) end) l)
    | PSetv k l =>
        HSet k l ((fix go (l : list pyval) : Forall P l :=
                     match l with [] => Forall_nil _ | x :: t => Forall_cons x (pyval_ind2 x) (go t) end) l)
    | PMap k kvs =>
        HMap k kvs ((fix go (l : list (pyval * pyval)) : Forall (fun kv => P (fst kv) /\ P (snd kv)) l :=
                       match l with
                       | [] => Forall_nil _
                       | kv :: t => Forall_cons kv (conj (pyval_ind2 (fst kv)) (pyval_ind2 (snd kv))) (go t)
                       end) kvs)
    | PSeries n d i x => HSer n d i x
    | PFrame c i => HFr c i
    end.
End PyInd.

(* ---------- strings ---------- *)
Lemma str_eqb_refl : forall x, str_eqb x x = true.
Proof. induction x as [|c x IH]; simpl; auto. rewrite Ascii.eqb_refl. auto. Qed.
Lemma str_eqb_eq : forall x y, str_eqb x y = true -> x = y.
Proof.
  induction x as [|c x IH]; destruct y as [|d y]; simpl; intros H; try discriminate; auto.
  apply andb_true_iff in H. destruct H as [H1 H2]. apply Ascii.eqb_eq in H1. f_equal; auto.
Qed.
Lemma str_eqb_sym : forall x y, str_eqb x y = str_eqb y x.
Proof.
  intros x y. destruct (str_eqb x y) eqn:E.
  - apply str_eqb_eq in E. subst. symmetry. apply str_eqb_refl.
  - destruct (str_eqb y x) eqn:E'; auto. apply str_eqb_eq in E'. subst. rewrite str_eqb_refl in E. discriminate.
Qed.

Lemma codes_inj : forall x y, codes x = codes y -> x = y.
Proof.
  unfold codes. induction x as [|c x IH]; destruct y as [|d y]; simpl; intros H; try discriminate; auto.
  inversion H as [[H1 H2]]. f_equal; auto.
  apply Nat2Z.inj in H1. rewrite <- (ascii_nat_embedding c), <- (ascii_nat_embedding d). congruence.
Qed.

(* ---------- the lexicographic order on code sequences is a strict total order ---------- *)
Definition lexlt (a b : list Z) : Prop := lex_ltb a b = true.

Lemma lex_irrefl : forall a, ~ lexlt a a.
Proof.
  unfold lexlt. induction a as [|x a IH]; simpl; [discriminate|].
  rewrite Z.ltb_irrefl, Z.eqb_refl. simpl. exact IH.
Qed.
Lemma lex_trans : forall a b c, lexlt a b -> lexlt b c -> lexlt a c.
Proof.
  unfold lexlt. induction a as [|x a IH]; intros b c Hab Hbc.
  - destruct b as [|y b]; [discriminate|]. destruct c; [simpl in Hbc; discriminate|]. reflexivity.
  - destruct b as [|y b]; [discriminate|]. destruct c as [|z c]; [simpl in Hbc; discriminate|].
    simpl in *. apply orb_true_iff in Hab. apply orb_true_iff in Hbc. apply orb_true_iff.
    destruct Hab as [Hab|Hab]; destruct Hbc as [Hbc|Hbc].
    + left. apply Z.ltb_lt in Hab, Hbc. apply Z.ltb_lt. lia.
    + apply andb_true_iff in Hbc. destruct Hbc as [E _]. apply Z.eqb_eq in E. subst. auto.
    + apply andb_true_iff in Hab. destruct Hab as [E _]. apply Z.eqb_eq in E. subst. auto.
    + apply andb_true_iff in Hab. destruct Hab as [E1 H1]. apply andb_true_iff in Hbc. destruct Hbc as [E2 H2].
      right. apply Z.eqb_eq in E1, E2. subst. rewrite Z.eqb_refl. simpl. eapply IH; eauto.
Qed.
Lemma lex_total : forall a b, lexlt a b \/ a = b \/ lexlt b a.
Proof.
  unfold lexlt. induction a as [|x a IH]; destruct b as [|y b]; simpl; auto.
  destruct (Z.lt_trichotomy x y) as [H|[H|H]].
  - left. apply Z.ltb_lt in H. rewrite H. auto.
  - subst y. rewrite Z.ltb_irrefl, Z.eqb_refl. simpl. destruct (IH b) as [H|[H|H]]; auto. subst. auto.
  - right. right. apply Z.ltb_lt in H. rewrite H. auto.
Qed.

(* ---------- sort keys of the comparable scalars ---------- *)
Definition sclass (a : atom) : option nat :=
  match a with
  | AInt _ | ABool _ | AFloat _ => Some 0
  | AStr _ => Some 1
  | ABytes _ => Some 2
  | _ => None
  end.
Definition akey (a : atom) : list Z :=
  match a with
  | AInt _ | ABool _ | AFloat _ => match numval a with Some z => [0%Z; z] | None => [] end
  | AStr x => 1%Z :: codes x
  | ABytes x => 2%Z :: codes x
  | _ => []
  end.
Definition skey (v : pyval) : list Z := match v with PA a => akey a | _ => [] end.
Definition vclass (v : pyval) : option nat := match v with PA a => sclass a | _ => None end.

Lemma atom_eq_key : forall a b c c', sclass a = Some c -> sclass b = Some c' ->
  atom_eq a b = true <-> akey a = akey b.
Proof.
  intros a b c c' Ha Hb.
  destruct a; simpl in Ha; try discriminate; destruct b; simpl in Hb; try discriminate;
    unfold atom_eq; simpl; split; intros H;
    try discriminate; try (apply Z.eqb_eq in H; congruence);
    try (inversion H; apply Z.eqb_eq; congruence);
    try (apply str_eqb_eq in H; congruence);
    try (inversion H as [H']; apply codes_inj in H'; subst; apply str_eqb_refl).
Qed.

(* ---------- rel on lists ---------- *)
Fixpoint rel_list (st : bool) (l l' : list pyval) : bool :=
  match l, l' with
  | [], [] => true
  | x :: t, y :: t' => rel st x y && rel_list st t t'
  | _, _ => false
  end.
Lemma rel_seq_unfold : forall st k l k' l',
  rel st (PSeq k l) (PSeq k' l') =
  (if st then seqkind_eqb k k' else seqkind_loose k k') && rel_list st l l'.
Proof.
  intros. simpl. f_equal. revert l'. induction l as [|x t IH]; destruct l'; simpl; auto. rewrite IH. auto.
Qed.
Lemma rel_list_forall2 : forall st l l', rel_list st l l' = true <-> Forall2 (fun x y => rel st x y = true) l l'.
Proof.
  induction l as [|x t IH]; destruct l' as [|y t']; simpl; split; intros H; try discriminate; auto;
    try (inversion H; fail).
  - apply andb_true_iff in H. destruct H. constructor; auto. apply IH; auto.
  - inversion H; subst. apply andb_true_iff. split; auto. apply IH; auto.
Qed.

Fixpoint rel_items (st : bool) (l l' : list (pyval * pyval)) : bool :=
  match l, l' with
  | [], [] => true
  | kv :: t, kv' :: t' => rel st (fst kv) (fst kv') && rel st (snd kv) (snd kv') && rel_items st t t'
  | _, _ => false
  end.
Lemma rel_items_forall2 : forall st l l', rel_items st l l' = true <->
  Forall2 (fun kv kv' => rel st (fst kv) (fst kv') = true /\ rel st (snd kv) (snd kv') = true) l l'.
Proof.
  induction l as [|x t IH]; destruct l' as [|y t']; simpl; split; intros H; try discriminate; auto;
    try (inversion H; fail).
  - apply andb_true_iff in H. destruct H as [H H2]. apply andb_true_iff in H. destruct H.
    constructor; auto. apply IH; auto.
  - inversion H as [|? ? ? ? [H1 H2] H3]; subst. rewrite H1, H2. simpl. apply IH; auto.
Qed.

Definition rel_dict (st : bool) (kvs kvs' : list (pyval * pyval)) : bool :=
  Nat.eqb (length kvs) (length kvs')
  && forallb (fun kv => existsb (fun kv' => rel st (fst kv) (fst kv') && rel st (snd kv) (snd kv')) kvs') kvs.
Definition nzc (kv : pyval * pyval) : bool := negb (is_zero (snd kv)).
Definition strip (kvs : list (pyval * pyval)) : list (pyval * pyval) := filter nzc kvs.   (* +counter, zero counts only *)
Definition rel_counter (st : bool) (kvs kvs' : list (pyval * pyval)) : bool :=
  Nat.eqb (length (strip kvs)) (length (strip kvs'))
  && forallb (fun kv =>
                is_zero (snd kv)
                || existsb (fun kv' => negb (is_zero (snd kv'))
                                       && (rel st (fst kv) (fst kv') && rel st (snd kv) (snd kv'))) kvs') kvs.

Lemma forallb_filter {A} (p f : A -> bool) : forall l,
  forallb f (filter p l) = forallb (fun x => negb (p x) || f x) l.
Proof. induction l as [|x l IH]; simpl; auto. destruct (p x); simpl; rewrite IH; reflexivity. Qed.
Lemma existsb_filter {A} (p f : A -> bool) : forall l,
  existsb f (filter p l) = existsb (fun x => p x && f x) l.
Proof. induction l as [|x l IH]; simpl; auto. destruct (p x); simpl; rewrite IH; reflexivity. Qed.

Lemma rel_map_unfold : forall st k kvs k' kvs',
  rel st (PMap k kvs) (PMap k' kvs') =
  (negb st || mapkind_eqb k k')
  && match k, k' with
     | KODict, KODict => rel_items st kvs kvs'
     | KCounter, KCounter => rel_counter st kvs kvs'
     | _, _ => rel_dict st kvs kvs'
     end.
Proof.
  intros. simpl. f_equal.
  assert (Hit : forall l l',
    (fix go (l l' : list (pyval * pyval)) : bool :=
       match l, l' with
       | [], [] => true
       | kv :: t, kv' :: t' => rel st (fst kv) (fst kv') && rel st (snd kv) (snd kv') && go t t'
       | _, _ => false
       end) l l' = rel_items st l l').
  { induction l as [|x t IH]; destruct l'; simpl; auto. rewrite IH. auto. }
  destruct k, k'; try reflexivity. apply Hit.
Qed.

Lemma rel_set_unfold : forall st k l k' l',
  rel st (PSetv k l) (PSetv k' l') =
  (negb st || setkind_eqb k k') && Nat.eqb (length l) (length l')
  && forallb (fun a => existsb (fun b => rel st a b) l') l.
Proof. reflexivity. Qed.

(* ---------- kinds ---------- *)
Lemma list_eqb_Z_eq : forall a b, list_eqb Z.eqb a b = true -> a = b.
Proof.
  induction a as [|x a IH]; destruct b as [|y b]; simpl; intros H; try discriminate; auto.
  apply andb_true_iff in H. destruct H as [H1 H2]. apply Z.eqb_eq in H1. f_equal; auto.
Qed.
Lemma seqkind_eqb_eq : forall k k', seqkind_eqb k k' = true -> k = k'.
Proof.
  destruct k, k'; simpl; intros H; try discriminate; auto.
  - destruct maxlen, maxlen0; simpl in H; try discriminate; auto. apply Z.eqb_eq in H. subst. auto.
  - apply str_eqb_eq in H. subst. auto.
  - apply andb_true_iff in H. destruct H as [H H3]. apply andb_true_iff in H. destruct H as [H1 H2].
    apply eqb_prop in H1. apply str_eqb_eq in H2. apply list_eqb_Z_eq in H3. subst. auto.
Qed.
Lemma seqkind_eqb_loose : forall k k', seqkind_eqb k k' = true -> seqkind_loose k k' = true.
Proof. destruct k, k'; simpl; auto. Qed.
Lemma setkind_eqb_eq : forall k k', setkind_eqb k k' = true -> k = k'.
Proof. destruct k, k'; simpl; intros; try discriminate; auto. Qed.
Lemma mapkind_eqb_eq : forall k k', mapkind_eqb k k' = true -> k = k'.
Proof.
  destruct k, k'; simpl; intros H; try discriminate; auto.
  destruct factory, factory0; simpl in H; try discriminate; auto. apply str_eqb_eq in H. subst. auto.
Qed.

(* ---------- small list helpers ---------- *)
Lemma forallb_Forall2_eq {A B} (f : A -> bool) (g : B -> bool) (R : A -> B -> Prop) : forall l l',
  Forall2 R l l' -> (forall x y, In x l -> In y l' -> R x y -> f x = g y) -> forallb f l = forallb g l'.
Proof.
  induction 1 as [|x y l l' Hxy H IH]; intros Hfg; simpl; auto.
  rewrite (Hfg x y); simpl; auto. f_equal. apply IH. intros; apply Hfg; simpl; auto.
Qed.
Lemma existsb_ext_in {A} (f g : A -> bool) : forall l, (forall x, In x l -> f x = g x) -> existsb f l = existsb g l.
Proof. induction l as [|x l IH]; intros H; simpl; auto. rewrite H, IH; simpl; auto. intros; apply H; simpl; auto. Qed.
Lemma forallb_ext_in {A} (f g : A -> bool) : forall l, (forall x, In x l -> f x = g x) -> forallb f l = forallb g l.
Proof. induction l as [|x l IH]; intros H; simpl; auto. rewrite H, IH; simpl; auto. intros; apply H; simpl; auto. Qed.

(* ---------- atoms ---------- *)
Lemma rel_atom_l : forall st a w, rel st (PA a) w = match w with PA b => atom_eq a b | _ => false end.
Proof. intros. destruct w; reflexivity. Qed.

Lemma atom_eq_hashable : forall a b, atom_eq a b = true -> atom_hashable a = atom_hashable b.
Proof.
  intros a b H. destruct a, b; unfold atom_eq in H; simpl in H; try discriminate; reflexivity.
Qed.

(* ---------- hash() is invariant under "equal values of the same type" ---------- *)
Lemma rel_true_hashable : forall v w, rel true v w = true -> py_hashable v = py_hashable w.
Proof.
  induction v as [a|k l IH|k l IH|k kvs IH|n d i x|c i] using pyval_ind2; intros w H; destruct w; try discriminate.
  - rewrite rel_atom_l in H. simpl. apply atom_eq_hashable; auto.
  - rewrite rel_seq_unfold in H. apply andb_true_iff in H. destruct H as [Hk Hl].
    apply seqkind_eqb_eq in Hk. subst k0. destruct k; try reflexivity. simpl.
    apply rel_list_forall2 in Hl. eapply forallb_Forall2_eq; [exact Hl|].
    intros x y Hx Hy Hxy. rewrite Forall_forall in IH. apply IH; auto.
  - rewrite rel_set_unfold in H. apply andb_true_iff in H. destruct H as [H _].
    apply andb_true_iff in H. destruct H as [Hk _]. simpl in Hk. apply setkind_eqb_eq in Hk. subst. reflexivity.
  - reflexivity.
  - reflexivity.
  - reflexivity.
Qed.

(* ---------- on hashable values Python's == and "equal values of the same type" coincide ---------- *)
Lemma rel_list_ext : forall l l',
  Forall (fun x => forall y, wf y = true -> py_hashable y = true -> rel false x y = rel true x y) l ->
  forallb wf l' = true -> forallb py_hashable l' = true ->
  rel_list false l l' = rel_list true l l'.
Proof.
  induction l as [|x t IH]; intros l' HF Hw Hh; destruct l' as [|y t']; simpl; auto.
  inversion HF as [|? ? Hx Ht]; subst. simpl in Hw, Hh.
  apply andb_true_iff in Hw. destruct Hw. apply andb_true_iff in Hh. destruct Hh.
  rewrite Hx, IH; auto.
Qed.

Lemma hashable_rel_same : forall v, wf v = true -> py_hashable v = true ->
  forall w, wf w = true -> py_hashable w = true -> rel false v w = rel true v w.
Proof.
  induction v as [a|k l IH|k l IH|k kvs IH|n d i x|c i] using pyval_ind2; intros Hwf Hh w Hwf' Hh';
    try (simpl in Hh; discriminate).
  - rewrite !rel_atom_l. reflexivity.
  - destruct k; simpl in Hh; try discriminate.
    destruct w as [|k' l'| | | |]; try reflexivity.
    destruct k'; simpl in Hh'; try discriminate.
    rewrite !rel_seq_unfold. simpl. simpl in Hwf, Hwf'. rewrite andb_true_r in Hwf, Hwf'.
    apply rel_list_ext; auto.
    rewrite Forall_forall in *. intros x Hx. apply IH; auto.
    + rewrite forallb_forall in Hwf. auto.
    + rewrite forallb_forall in Hh. auto.
  - destruct k; simpl in Hh; try discriminate.
    destruct w as [| |k' l'| | |]; try reflexivity.
    destruct k'; simpl in Hh'; try discriminate.
    rewrite !rel_set_unfold. simpl. f_equal.
    simpl in Hwf, Hwf'.
    apply andb_true_iff in Hwf. destruct Hwf as [Hwf _]. apply andb_true_iff in Hwf. destruct Hwf as [Hw1 Hw2].
    apply andb_true_iff in Hwf'. destruct Hwf' as [Hwf' _]. apply andb_true_iff in Hwf'. destruct Hwf' as [Hw1' Hw2'].
    apply forallb_ext_in. intros a Ha. apply existsb_ext_in. intros b Hb.
    rewrite Forall_forall in IH. rewrite forallb_forall in Hw1, Hw2, Hw1', Hw2'. apply IH; auto.
Qed.

(* ---------- the comparable scalars: ==, < through their sort keys ---------- *)
Lemma class_eq_key : forall st x y c c', vclass x = Some c -> vclass y = Some c' ->
  (rel st x y = true <-> skey x = skey y).
Proof.
  intros st x y c c' Hx Hy. destruct x as [a| | | | |]; simpl in Hx; try discriminate.
  destruct y as [b| | | | |]; simpl in Hy; try discriminate.
  rewrite rel_atom_l. simpl. eapply atom_eq_key; eauto.
Qed.
Lemma class_hashable : forall x c, vclass x = Some c -> py_hashable x = true.
Proof. intros x c H. destruct x as [a| | | | |]; simpl in H; try discriminate. destruct a; simpl in *; try discriminate; auto. Qed.

(* Counter equality = dict equality of the zero-stripped Counters *)
Lemma rel_counter_strip : forall st kvs kvs', rel_counter st kvs kvs' = rel_dict st (strip kvs) (strip kvs').
Proof.
  intros. unfold rel_counter, rel_dict. f_equal. unfold strip. rewrite forallb_filter.
  apply forallb_ext_in. intros kv _. unfold nzc. rewrite negb_involutive. f_equal.
  rewrite existsb_filter. reflexivity.
Qed.
