(* C04, run level: the folder left by a finished run of Model/MapRun.v reloads to the run's stored results. *)
From Verif Require Import Base.Prelude Base.StrUtil Base.Index Base.NdArr Model.MapSpec Model.MapRun Model.SymBody
  Model.RunInfoCodec Model.FSStore Corr.Run_C04 Proofs.StrFacts Proofs.IndexFacts Proofs.RunInfoFacts Proofs.FSStoreFacts.

Lemma skind_eqb_eq a b : skind_eqb a b = true -> a = b.
Proof. destruct a, b; cbn; intros H; try discriminate; reflexivity. Qed.

Lemma bool_list_eqb_eq a b : list_eqb Bool.eqb a b = true -> a = b.
Proof. apply (list_eqb_eq Bool.eqb). intros x y. apply Bool.eqb_true_iff. Qed.

Lemma nat_list_eqb_eq a b : list_eqb Nat.eqb a b = true -> a = b.
Proof. apply (list_eqb_eq Nat.eqb Nat.eqb_eq). Qed.

Lemma str_list_eqb_eq a b : list_eqb str_eqb a b = true -> a = b.
Proof. apply (list_eqb_eq str_eqb str_eqb_eq). Qed.

(* ---------- the decidable check implies the hypotheses of Proofs/FSStoreFacts.v ---------- *)
Lemma spec_consistentb_sound ri descs x :
  spec_consistentb ri descs x = true -> spec_consistent ri descs x.
Proof.
  unfold spec_consistentb, spec_consistent.
  destruct (parse x) as [ms|] eqn:Ep; [|discriminate]. cbv zeta.
  destruct (name_mapping_get (ri_shapes ri) (map aname (outs ms))) as [key|] eqn:Ek; [|discriminate].
  intros H. exists ms. split; [reflexivity|]. exists key. split; [exact Ek|].
  destruct (ins ms) as [|i0 ir]; [now left|]. right.
  destruct (odict_get (ri_shapes ri) key) as [sh|]; [|discriminate].
  destruct (odict_get (ri_shape_masks ri) key) as [mask|]; [|discriminate].
  destruct (storage_class (ri_storage ri) key) as [kind|]; [|discriminate].
  apply andb_true_iff in H as [H1 H2]. apply str_list_eqb_eq in H1.
  exists sh, mask, kind. repeat split; try reflexivity; try assumption.
  apply Forall_forall. intros o Ho. rewrite forallb_forall in H2. specialize (H2 o Ho).
  apply existsb_exists in H2 as [d [Hd Hc]]. destruct d as [o' k' m' a|]; [|discriminate].
  repeat (apply andb_true_iff in Hc as [Hc ?]).
  apply str_eqb_eq in Hc. subst o'.
  match goal with H : skind_eqb _ _ = true |- _ => apply skind_eqb_eq in H; subst end.
  match goal with H : list_eqb Bool.eqb _ _ = true |- _ => apply bool_list_eqb_eq in H; subst end.
  match goal with H : list_eqb Nat.eqb _ _ = true |- _ => apply nat_list_eqb_eq in H end.
  match goal with H : (_ =? _) = true |- _ => apply Nat.eqb_eq in H end.
  exists a. auto.
Qed.

Section RunLevel.
  Variable c : case.
  Variable f : finished.
  Hypothesis Hfin : finish false c = Ok f.
  Hypothesis Hcons : finished_consistent c f = true.

  Let inputs := map (fun kv : str * val => (fst kv, PVal (snd kv))) (c_inputs c).
  Let dflt := PEnv (pipeline_defaults (c_funcs c)).

  Lemma cons_parts :
    wf_run_info (f_info f) = true /\ ri_run_folder (f_info f) = root_name
    /\ ri_input_names (f_info f) = map fst inputs
    /\ forallb (fun n => negb (mem_char "/"%char n)) (ri_input_names (f_info f)) = true
    /\ NoDup (map od_name (f_outs f))
    /\ Forall (spec_consistent (f_info f) (f_outs f)) (ri_mapspecs (f_info f))
    /\ (forall d, In d (f_outs f) -> desc_consistentb (f_info f) d = true).
  Proof.
    unfold finished_consistent, run_consistentb in Hcons.
    do 6 (apply andb_true_iff in Hcons as [Hcons ?]).
    repeat split; try assumption.
    - now apply str_eqb_eq.
    - now apply str_list_eqb_eq.
    - now apply nodup_str_list_NoDup.
    - apply Forall_forall. intros x Hx. apply spec_consistentb_sound.
      match goal with H : forallb (spec_consistentb _ _) _ = true |- _ => rewrite forallb_forall in H; now apply H end.
    - match goal with H : forallb (desc_consistentb _) _ = true |- _ => rewrite forallb_forall in H; exact H end.
  Qed.

  Lemma finish_parts :
    exists st fl,
      map_run sym_body (c_funcs c) (c_inputs c) (c_internal c) = Ok st /\ f_state f = st
      /\ outs_of_run (c_funcs c) (normalize_storage (c_storage c)) st = Ok (f_outs f)
      /\ mapM (fun nd => out_files false (c_persist c) (fst nd) (snd nd)) (combine (seq 0 (length (f_outs f))) (f_outs f)) = Ok fl
      /\ f_world f = {| w_root := root_name; w_files := base_files (f_info f) inputs dflt ++ flat_map fst fl;
                        w_live := flat_map snd fl |}.
  Proof.
    unfold finish in Hfin.
    destruct (map_run sym_body (c_funcs c) (c_inputs c) (c_internal c)) as [st|] eqn:Est; [|discriminate].
    cbn [bind] in Hfin.
    destruct (create_run_info _ _ _ _ _ _ _ _) as [ri|] eqn:Eri; [|discriminate]. cbn [bind] in Hfin.
    destruct (outs_of_run _ _ _) as [outs|] eqn:Eouts; [|discriminate]. cbn [bind] in Hfin.
    destruct (world_of _ _ _ _ _ _ _) as [w|] eqn:Ew; [|discriminate]. cbn [bind] in Hfin.
    injection Hfin as <-. cbn [f_state f_outs f_info f_world].
    unfold finished_consistent, run_consistentb in Hcons. cbn [f_info f_outs] in Hcons.
    do 6 (apply andb_true_iff in Hcons as [Hcons ?]).
    assert (Hnd : NoDup (map fst inputs)).
    { unfold inputs. match goal with H : list_eqb str_eqb (ri_input_names ri) _ = true |- _ => apply str_list_eqb_eq in H; rewrite <- H end.
      apply nodup_str_list_NoDup. unfold wf_run_info in Hcons. now apply andb_true_iff in Hcons as [_ Hcons]. }
    unfold world_of in Ew. cbv zeta in Ew. fold inputs dflt in Ew.
    rewrite (post_init_empty root_name [] ri inputs dflt Hnd) in Ew. cbn [w_files] in Ew.
    destruct (mapM _ (combine (seq 0 (length outs)) outs)) as [fl|] eqn:Efl; [|discriminate].
    cbn [bind] in Ew. injection Ew as <-.
    exists st, fl. repeat split; try reflexivity; try assumption.
  Qed.

  (* the theorem for an arbitrary set of live manager processes: in particular for the run's own interpreter
     (f_world f) and for a fresh one (reopen (f_world f)) *)
  Theorem reload_descs live :
    let w := {| w_root := root_name; w_files := w_files (f_world f); w_live := live |} in
    (forall o v, In (OSingle o v) (f_outs f) -> load_outputs version_name w o = Ok (Some (PVal v), w))
    /\ (forall o k mask a, In (OMapped o k mask a) (f_outs f) -> k = FileArrayK \/ c_persist c = true ->
          load_outputs version_name w o = Ok (Some (PVal (VA a)), w)).
  Proof.
    destruct finish_parts as [st [fl [Hrun [Hst [Houts [Hfl Hw]]]]]].
    rewrite Hw. cbn [w_files]. cbv zeta.
    unfold finished_consistent, run_consistentb in Hcons.
    do 6 (apply andb_true_iff in Hcons as [Hcons ?]).
    rename Hcons into Hwf.
    match goal with H : str_eqb (ri_run_folder _) _ = true |- _ => apply str_eqb_eq in H; rename H into Hroot end.
    match goal with H : list_eqb str_eqb _ _ = true |- _ => apply str_list_eqb_eq in H; rename H into Hin end.
    match goal with H : nodup_str_list _ = true |- _ => apply nodup_str_list_NoDup in H; rename H into Hnd end.
    match goal with H : forallb (spec_consistentb _ _) _ = true |- _ => rename H into Hspecs end.
    match goal with H : forallb (desc_consistentb _) _ = true |- _ => rename H into Hdescs end.
    match goal with H : forallb _ (ri_input_names _) = true |- _ => rename H into Hslash end.
    assert (Hspecs' : Forall (spec_consistent (f_info f) (f_outs f)) (ri_mapspecs (f_info f))).
    { apply Forall_forall. intros x Hx. apply spec_consistentb_sound. rewrite forallb_forall in Hspecs. now apply Hspecs. }
    rewrite forallb_forall in Hdescs.
    split.
    - intros o v Hd. specialize (Hdescs _ Hd). cbn [desc_consistentb] in Hdescs.
      apply andb_true_iff in Hdescs as [H1 H2]. apply mem_str_In in H1. apply negb_true_iff in H2. apply mem_str_false in H2.
      apply (reload_single version_name root_name live (f_info f) inputs dflt (c_persist c) (f_outs f) fl); auto.
    - intros o k mask a Hd Hk. specialize (Hdescs _ Hd). cbn [desc_consistentb] in Hdescs.
      apply andb_true_iff in Hdescs as [H1 H3]. apply andb_true_iff in H1 as [H1 H2].
      apply mem_str_In in H1. apply Nat.eqb_eq in H3.
      apply (reload_mapped version_name root_name live (f_info f) inputs dflt (c_persist c) (f_outs f) fl) with (k := k) (mask := mask); auto.
  Qed.

  (* in terms of the run's own record r_out : (name, returned, stored) *)
  Lemma outs_of_run_in fn o :
    In fn (c_funcs c) -> In o (fouts fn) ->
    exists o' ret stored,
      find (fun x => str_eqb (fst (fst x)) o) (r_out (f_state f)) = Some (o', ret, stored)
      /\ ((is_mapped fn = false /\ In (OSingle o stored) (f_outs f))
          \/ (is_mapped fn = true /\ exists a sm k, stored = VA a /\ dict_get (r_shapes (f_state f)) o = Some sm
                /\ storage_class (normalize_storage (c_storage c)) (output_key_of fn) = Ok k
                /\ In (OMapped o k (snd sm) a) (f_outs f))).
  Proof.
    intros Hfn Ho. destruct finish_parts as [st [fl [Hrun [Hst [Houts _]]]]]. rewrite Hst. clear Hst.
    unfold outs_of_run in Houts.
    destruct (mapM _ (c_funcs c)) as [l|] eqn:El; [|discriminate]. cbn [bind] in Houts. injection Houts as Houts.
    destruct (mapM_inv_in _ _ _ fn El Hfn) as [ds [Hds Hin]].
    destruct (mapM_inv_in _ _ _ o Hds Ho) as [d [Hd Hind]].
    assert (Hall : In d (f_outs f)). { rewrite <- Houts. apply in_concat. exists ds. split; assumption. }
    destruct (find _ (r_out st)) as [[[o' ret] stored]|] eqn:Ef; [|discriminate].
    exists o', ret, stored. split; [reflexivity|].
    destruct (is_mapped fn) eqn:Em.
    - right. split; [reflexivity|]. destruct stored as [x|a]; [discriminate|].
      destruct (dict_get (r_shapes st) o) as [sm|] eqn:Es; [|discriminate]. cbn [get_or bind] in Hd.
      destruct (storage_class _ _) as [k|] eqn:Ek; [|discriminate]. cbn [bind] in Hd. injection Hd as <-.
      exists a, sm, k. auto.
    - left. split; [reflexivity|]. injection Hd as <-. exact Hall.
  Qed.

  Theorem reload_eq_results live fn o :
    In fn (c_funcs c) -> In o (fouts fn) -> kind_persists c fn = true ->
    let w := {| w_root := root_name; w_files := w_files (f_world f); w_live := live |} in
    exists o' ret stored,
      find (fun x => str_eqb (fst (fst x)) o) (r_out (f_state f)) = Some (o', ret, stored)
      /\ load_outputs version_name w o = Ok (Some (PVal stored), w).
  Proof.
    intros Hfn Ho Hk w. destruct (outs_of_run_in fn o Hfn Ho) as [o' [ret [stored [Hfind Hcase]]]].
    exists o', ret, stored. split; [exact Hfind|].
    destruct (reload_descs live) as [Hs Hm]. fold w in Hs, Hm.
    destruct Hcase as [[_ Hd]|[Hmap [a [sm [k [-> [_ [Hkind Hd]]]]]]]].
    - now apply Hs.
    - apply (Hm o k (snd sm) a Hd).
      unfold kind_persists in Hk. rewrite Hmap, Hkind in Hk. cbn [negb] in Hk.
      destruct k; [now left|right; exact Hk|right; exact Hk].
  Qed.
  (* every output loads, and no load changes the folder (or anything else in the world) *)
  Theorem reload_any live fn o :
    In fn (c_funcs c) -> In o (fouts fn) ->
    let w := {| w_root := root_name; w_files := w_files (f_world f); w_live := live |} in
    exists v, load_outputs version_name w o = Ok (v, w).
  Proof.
    intros Hfn Ho w. destruct (outs_of_run_in fn o Hfn Ho) as [o' [ret [stored [_ Hcase]]]].
    destruct (reload_descs live) as [Hs Hm]. fold w in Hs, Hm.
    destruct Hcase as [[_ Hd]|[Hmap [a [sm [k [-> [_ [Hkind Hd]]]]]]]].
    - exists (Some (PVal stored)). exact (Hs o stored Hd).
    - destruct (Bool.bool_dec (c_persist c) true) as [Hp|Hp].
      + exists (Some (PVal (VA a))). apply (Hm o k (snd sm) a Hd). now right.
      + destruct k.
        * exists (Some (PVal (VA a))). apply (Hm o FileArrayK (snd sm) a Hd). now left.
        * apply Bool.not_true_is_false in Hp.
          exists (Some (PVal (VA {| shp := shp a; dat := map (fun _ => masked_str) (all_indices (shp a)) |}))). subst w.
          destruct finish_parts as [st [fl [Hrun [Hst [Houts [Hfl Hw]]]]]]. rewrite Hw. cbn [w_files].
          destruct cons_parts as [Hwf [Hroot [Hin [Hslash [Hnd [Hspecs Hdescs]]]]]].
          pose proof (Hdescs _ Hd) as Hdc. cbn [desc_consistentb] in Hdc.
          apply andb_true_iff in Hdc as [Hdc _]. apply andb_true_iff in Hdc as [Hdc _]. apply mem_str_In in Hdc.
          apply (reload_unpersisted version_name root_name live (f_info f) inputs dflt (c_persist c) (f_outs f) fl)
            with (k := DictK) (mask := snd sm); auto; try discriminate.
        * apply Bool.not_true_is_false in Hp.
          exists (Some (PVal (VA {| shp := shp a; dat := map (fun _ => masked_str) (all_indices (shp a)) |}))). subst w.
          destruct finish_parts as [st [fl [Hrun [Hst [Houts [Hfl Hw]]]]]]. rewrite Hw. cbn [w_files].
          destruct cons_parts as [Hwf [Hroot [Hin [Hslash [Hnd [Hspecs Hdescs]]]]]].
          pose proof (Hdescs _ Hd) as Hdc. cbn [desc_consistentb] in Hdc.
          apply andb_true_iff in Hdc as [Hdc _]. apply andb_true_iff in Hdc as [Hdc _]. apply mem_str_In in Hdc.
          apply (reload_unpersisted version_name root_name live (f_info f) inputs dflt (c_persist c) (f_outs f) fl)
            with (k := SharedDictK) (mask := snd sm); auto; try discriminate.
  Qed.

  (* RunInfo.load returns the run's RunInfo, inputs and defaults and leaves the folder as it is *)
  Theorem runinfo_reload live :
    let w := {| w_root := root_name; w_files := w_files (f_world f); w_live := live |} in
    runinfo_load version_name w = Ok ({| li_info := f_info f; li_inputs := inputs; li_defaults := dflt |}, w).
  Proof.
    destruct finish_parts as [st [fl [Hrun [Hst [Houts [Hfl Hw]]]]]]. rewrite Hw. cbn [w_files]. cbv zeta.
    destruct cons_parts as [Hwf [Hroot [Hin [Hslash _]]]].
    apply (runinfo_load_ok version_name root_name live (f_info f) inputs dflt (flat_map fst fl)); auto.
  Qed.
End RunLevel.

(* ---------- the statements of Props/C04.v ---------- *)
Lemma reload_eq_results_stmt : forall c f live fn o,
  finish false c = Ok f -> finished_consistent c f = true ->
  In fn (c_funcs c) -> In o (fouts fn) -> kind_persists c fn = true ->
  let w := {| w_root := root_name; w_files := w_files (f_world f); w_live := live |} in
  exists o' returned stored,
    find (fun x => str_eqb (fst (fst x)) o) (r_out (f_state f)) = Some (o', returned, stored)
    /\ load_outputs version_name w o = Ok (Some (PVal stored), w).
Proof. intros c f live fn o Hfin Hcons. exact (reload_eq_results c f Hfin Hcons live fn o). Qed.

Lemma reload_fresh_stmt : forall c f fn o,
  finish false c = Ok f -> finished_consistent c f = true ->
  In fn (c_funcs c) -> In o (fouts fn) -> kind_persists c fn = true ->
  exists o' returned stored,
    find (fun x => str_eqb (fst (fst x)) o) (r_out (f_state f)) = Some (o', returned, stored)
    /\ load_outputs version_name (reopen (f_world f)) o = Ok (Some (PVal stored), reopen (f_world f)).
Proof.
  intros c f fn o Hfin Hcons Hfn Ho Hk.
  assert (Hroot : w_root (f_world f) = root_name).
  { destruct (finish_parts c f Hfin Hcons) as [st [fl [_ [_ [_ [_ Hw]]]]]]. now rewrite Hw. }
  unfold reopen. rewrite Hroot. exact (reload_eq_results c f Hfin Hcons [] fn o Hfn Ho Hk).
Qed.

Lemma reload_same_process_stmt : forall c f fn o,
  finish false c = Ok f -> finished_consistent c f = true ->
  In fn (c_funcs c) -> In o (fouts fn) -> kind_persists c fn = true ->
  exists o' returned stored,
    find (fun x => str_eqb (fst (fst x)) o) (r_out (f_state f)) = Some (o', returned, stored)
    /\ load_outputs version_name (f_world f) o = Ok (Some (PVal stored), f_world f).
Proof.
  intros c f fn o Hfin Hcons Hfn Ho Hk.
  destruct (finish_parts c f Hfin Hcons) as [st [fl [_ [_ [_ [_ Hw]]]]]].
  pose proof (reload_eq_results c f Hfin Hcons (flat_map snd fl) fn o Hfn Ho Hk) as H.
  cbv zeta in H. rewrite Hw in *. cbn [w_files] in H. exact H.
Qed.

Lemma runinfo_reload_stmt : forall c f live,
  finish false c = Ok f -> finished_consistent c f = true ->
  let w := {| w_root := root_name; w_files := w_files (f_world f); w_live := live |} in
  runinfo_load version_name w
  = Ok ({| li_info := f_info f;
           li_inputs := map (fun kv => (fst kv, PVal (snd kv))) (c_inputs c);
           li_defaults := PEnv (pipeline_defaults (c_funcs c)) |}, w).
Proof. intros c f live Hfin Hcons. exact (runinfo_reload c f Hfin Hcons live). Qed.

Lemma reload_idempotent_stmt : forall c f live fn o,
  finish false c = Ok f -> finished_consistent c f = true -> In fn (c_funcs c) -> In o (fouts fn) ->
  let w := {| w_root := root_name; w_files := w_files (f_world f); w_live := live |} in
  exists v w', load_outputs version_name w o = Ok (v, w') /\ w' = w /\ load_outputs version_name w' o = Ok (v, w').
Proof.
  intros c f live fn o Hfin Hcons Hfn Ho w.
  destruct (reload_any c f Hfin Hcons live fn o Hfn Ho) as [v Hv]. fold w in Hv.
  exists v, w. auto.
Qed.
