(* C20: the executable statement spec_ok (Corr/Run_C20.v), which the engine evaluates on the observations of the
   real implementation, holds of the model's own observation for every case outside the known-finding region. *)
From Coq Require Import QArith Qreduction.
From Verif Require Import Base.Prelude Base.StrUtil Model.Resources Model.ResourcesSpec Proofs.ResourcesFacts
  Corr.Run_C20.
Local Close Scope Q_scope.

(* ---------------------------------------------------------------- observations *)
Lemma sx_eqb_refl : forall x, sx_eqb x x = true.
Proof.
  fix IH 1. intros [z|t|l]; cbn.
  - apply Z.eqb_refl.
  - apply str_eqb_refl.
  - revert l. fix IHl 1. intros [|a l]; [reflexivity|]. rewrite IH. cbn. apply IHl.
Qed.

Lemma list_sx_eqb_refl l : list_eqb sx_eqb l l = true.
Proof. induction l as [|a l IH]; cbn; [reflexivity|]. now rewrite sx_eqb_refl. Qed.

Lemma sp_enc_eq r : sp_enc r = sx_res r.
Proof.
  unfold sp_enc, sx_res, sx_res_gen, sx_size. destruct (memory r); [|reflexivity]. now rewrite sp_mem_size_eq.
Qed.

Lemma sx_is_err_SErr e : sx_is_err (SErr e) = true.
Proof. destruct e; reflexivity. Qed.

Lemma un_oz_enc o : un_oz (sx_oz o) = Some o.
Proof. destruct o; reflexivity. Qed.
Lemma un_os_enc o : un_os (sx_os o) = Some o.
Proof. destruct o; reflexivity. Qed.

(* what decoding the observation of a (memory-wise well-formed) object yields *)
Definition red_size (o : option str) : option Q :=
  match o with Some m => option_map Qred (mem_bytes m) | None => None end.

Lemma un_q_enc o : wf_mem_opt o -> un_q (sx_size mem_bytes o) = Some (red_size o).
Proof.
  intros H. destruct o as [m|]; [|reflexivity]. destruct (H m eq_refl) as [q Hq].
  apply denotes_mem_bytes in Hq. unfold sx_size, red_size. rewrite Hq. cbn [option_map].
  unfold sx_q, un_q. cbn. destruct (Qred q) as [n d]. reflexivity.
Qed.

Lemma un_obj_enc raw x : wf_mem_opt (memory x) ->
  un_obj (sx_res_gen mem_bytes raw x)
  = Some (mkO (cpus x) (cpus_per_node x) (nodes x) (if raw then memory x else None) (red_size (memory x))
              (gpus x) (time x) (partition x)).
Proof.
  intros H. unfold sx_res_gen, un_obj. rewrite !un_oz_enc, !un_os_enc, (un_q_enc _ H).
  destruct raw; [rewrite un_os_enc|]; reflexivity.
Qed.

Lemma ok_with_enc raw x p : wf_mem_opt (memory x) ->
  ok_with (sx_of_result (sx_res_gen mem_bytes raw) (Ok x)) p
  = p (mkO (cpus x) (cpus_per_node x) (nodes x) (if raw then memory x else None) (red_size (memory x))
           (gpus x) (time x) (partition x)).
Proof.
  intros H. unfold ok_with, sx_of_result, un_ok. cbn [str_eqb s list_ascii_of_string].
  rewrite !Ascii.eqb_refl. cbn [andb]. now rewrite (un_obj_enc raw x H).
Qed.

Lemma valid_wf_mem r : valid_res r -> wf_mem_opt (memory r).
Proof. intros H. now apply valid_res_parts in H. Qed.

(* ---------------------------------------------------------------- boolean orders *)
Lemma le_oz_b_iff a b : le_oz_b a b = true <-> le_oz a b.
Proof. destruct a, b; cbn; try tauto; try (split; [discriminate|tauto]). apply Z.leb_le. Qed.

Lemma size_le_b_ok a b : wf_mem_opt b -> size_le a b -> size_le_b a (red_size b) = true.
Proof.
  intros Wb. destruct a as [m|]; cbn; [|reflexivity]. intros (q & Hq & Hb).
  destruct b as [m'|]; [|contradiction]. destruct Hb as (q' & Hq' & Hle).
  rewrite (denotes_sp_mem_size _ _ Hq). cbn. rewrite (denotes_mem_bytes _ _ Hq'). cbn.
  apply Qle_bool_iff. now rewrite Qred_correct.
Qed.

Lemma dur_le_b_ok a b : dur_le a b -> dur_le_b a b = true.
Proof.
  destruct a as [t|]; cbn; [|reflexivity]. intros (n & Hn & Hb).
  destruct b as [t'|]; [|contradiction]. destruct Hb as (n' & Hn' & Hle).
  rewrite (denotes_sp_time_secs _ _ Hn), (denotes_sp_time_secs _ _ Hn'). now apply Z.leb_le.
Qed.

Lemma opt_eqb_z_refl o : opt_eqb Z.eqb o o = true.
Proof. destruct o; cbn; [apply Z.eqb_refl|reflexivity]. Qed.
Lemma opt_eqb_str_refl o : opt_eqb str_eqb o o = true.
Proof. destruct o; cbn; [apply str_eqb_refl|reflexivity]. Qed.

Lemma size_eq_b_refl o : wf_mem_opt o -> size_eq_b o (red_size o) = true.
Proof.
  intros H. destruct o as [m|]; [|reflexivity]. destruct (H m eq_refl) as [q Hq]. cbn.
  rewrite (denotes_mem_bytes _ _ Hq), (denotes_sp_mem_size _ _ Hq). cbn.
  apply Qeq_bool_iff. now rewrite Qred_correct.
Qed.

Lemma same_quantities_enc (raw : bool) x : wf_mem_opt (memory x) ->
  same_quantities_b (mkO (cpus x) (cpus_per_node x) (nodes x) (if raw then memory x else None)
                         (red_size (memory x)) (gpus x) (time x) (partition x)) x = true.
Proof.
  intros H. unfold same_quantities_b.
  cbn [q_cpus q_cpn q_nodes q_mem q_gpus q_time q_part].
  now rewrite !opt_eqb_z_refl, !opt_eqb_str_refl, (size_eq_b_refl _ H).
Qed.

(* ---------------------------------------------------------------- construction of operands *)
Lemma xd_set_notin d k v : ~ In k (map fst d) -> xd_set d k v = d ++ [(k, v)].
Proof.
  induction d as [|[k' v'] t IH]; cbn; intros H; [reflexivity|].
  destruct (str_eqb k k') eqn:E.
  - apply str_eqb_eq in E. subst. exfalso. apply H. now left.
  - rewrite IH; [reflexivity|]. intros Hi. apply H. now right.
Qed.

Lemma nodup_keys_cons {V} k (v : V) t : nodup_keys ((k, v) :: t) = true ->
  ~ In k (map fst t) /\ nodup_keys t = true.
Proof.
  cbn. intros H. apply andb_true_iff in H as [H1 H2]. split; [|exact H2].
  intros Hi. apply mem_str_in in Hi. now rewrite Hi in H1.
Qed.

Lemma xd_fold_nodup l : forall acc, nodup_keys l = true -> (forall k, In k (map fst l) -> ~ In k (map fst acc)) ->
  fold_left (fun d kv => xd_set d (fst kv) (snd kv)) l acc = acc ++ l.
Proof.
  induction l as [|[k v] t IH]; intros acc Hn Hd; cbn [fold_left fst snd].
  - now rewrite app_nil_r.
  - apply nodup_keys_cons in Hn as [Hk Hn].
    rewrite xd_set_notin by (apply Hd; now left).
    rewrite IH; [now rewrite <- app_assoc|exact Hn|].
    intros k' Hk' Hi. rewrite map_app in Hi. apply in_app_or in Hi as [Hi|[<-|[]]].
    + revert Hi. apply Hd. now right.
    + contradiction.
Qed.

Lemma xd_of_list_nodup l : nodup_keys l = true -> xd_of_list l = l.
Proof. intros H. unfold xd_of_list, xd_merge. rewrite xd_fold_nodup; auto. Qed.

Lemma mk_operand a : operand_ok a = true -> mk a = Ok a /\ valid_res a.
Proof.
  unfold operand_ok. intros H. apply andb_true_iff in H as [Hv Hn]. unfold mk.
  rewrite (xd_of_list_nodup _ Hn), set_extra_same, post_init_sp, Hv. split; [reflexivity|now apply sp_valid_iff].
Qed.

Lemma mk_operands rs : forallb operand_ok rs = true -> mapM mk rs = Ok rs /\ Forall valid_res rs.
Proof.
  induction rs as [|a rs IH]; cbn [forallb mapM]; intros H; [split; [reflexivity|constructor]|].
  apply andb_true_iff in H as [Ha Hrs]. destruct (mk_operand a Ha) as [E Va]. destruct (IH Hrs) as [E' Vs].
  rewrite E. cbn [bind]. rewrite E'. cbn [bind]. split; [reflexivity|now constructor].
Qed.

Lemma mk_opt_operand a : operand_ok_opt a = true ->
  mk_opt a = Ok a /\ match a with Some x => valid_res x | None => True end.
Proof.
  destruct a as [x|]; cbn; [|split; [reflexivity|exact I]]. intros H. destruct (mk_operand x H) as [E V].
  rewrite E. split; [reflexivity|exact V].
Qed.

(* ---------------------------------------------------------------- == on Resources *)
Lemma xval_eqb_refl v : xval_eqb v v = true.
Proof. destruct v; cbn; [apply Z.eqb_refl|apply str_eqb_refl]. Qed.

Lemma xd_get_nodup d k v : nodup_keys d = true -> In (k, v) d -> xd_get d k = Some v.
Proof.
  induction d as [|[k' v'] t IH]; intros Hn Hin; [destruct Hin|].
  apply nodup_keys_cons in Hn as [Hk Hn]. cbn [xd_get]. destruct Hin as [E|Hin].
  - inversion E; subst. now rewrite str_eqb_refl.
  - destruct (str_eqb k k') eqn:E.
    + apply str_eqb_eq in E. subst k'. exfalso. apply Hk. apply (in_map fst) in Hin. exact Hin.
    + now apply IH.
Qed.

Lemma xd_eqb_refl d : nodup_keys d = true -> xd_eqb d d = true.
Proof.
  intros Hn. unfold xd_eqb. rewrite Nat.eqb_refl. cbn [andb]. apply forallb_forall. intros [k v] Hin.
  cbn [fst snd]. rewrite (xd_get_nodup d k v Hn Hin). cbn. apply xval_eqb_refl.
Qed.

Lemma res_eqb_refl r : nodup_keys (extra_args r) = true -> res_eqb r r = true.
Proof.
  intros H. unfold res_eqb. now rewrite !opt_eqb_z_refl, !opt_eqb_str_refl, (xd_eqb_refl _ H), str_eqb_refl.
Qed.

(* ---------------------------------------------------------------- per case *)
Lemma sx_ok_refl x : sx_eqb (sx_of_result sx_res (Ok x)) (SL [SS (s "ok"); sp_enc x]) = true.
Proof. rewrite sp_enc_eq. apply sx_eqb_refl. Qed.

Lemma sx_res_enc_refl x : sx_eqb (sx_res x) (sp_enc x) = true.
Proof. rewrite sp_enc_eq. apply sx_eqb_refl. Qed.

Lemma sx_opt_enc_refl o : sx_eqb (sx_opt sx_res o) (sx_opt sp_enc o) = true.
Proof. destruct o; cbn [sx_opt]; [apply sx_res_enc_refl|reflexivity]. Qed.

Lemma spec_new a : spec_ok (CNew a) (run (CNew a)) = true.
Proof.
  unfold spec_ok, run. destruct (nodup_keys (extra_args a)) eqn:Hn; cbn [negb]; [|reflexivity].
  unfold mk. rewrite (xd_of_list_nodup _ Hn), set_extra_same, post_init_sp. destruct (sp_valid a).
  - apply sx_ok_refl.
  - apply sx_is_err_SErr.
Qed.

Lemma dominates_b_ok res r : valid_res res -> dominates res r ->
  dominates_b (mkO (cpus res) (cpus_per_node res) (nodes res) None (red_size (memory res)) (gpus res)
                   (time res) (partition res)) r = true.
Proof.
  intros Hv (D1 & D2 & D3 & D4). unfold dominates_b. cbn [q_cpus q_gpus q_mem q_time].
  rewrite (proj2 (le_oz_b_iff _ _) D1), (proj2 (le_oz_b_iff _ _) D2).
  rewrite (size_le_b_ok _ _ (valid_wf_mem _ Hv) D3), (dur_le_b_ok _ _ D4). reflexivity.
Qed.

Lemma spec_combine rs : spec_ok (CCombine rs) (run (CCombine rs)) = true.
Proof.
  unfold spec_ok, run. destruct (forallb operand_ok rs) eqn:H; cbn [negb]; [|reflexivity].
  destruct (mk_operands rs H) as [E Vs]. rewrite E.
  destruct (combine_max_upper_bound rs Vs) as (res & Ec & Vres & Hd). rewrite Ec.
  apply andb_true_iff. split.
  - unfold sx_res_sz. rewrite (ok_with_enc false res _ (valid_wf_mem _ Vres)).
    apply forallb_forall. intros r Hin. apply dominates_b_ok; auto.
  - rewrite (map_ext sp_enc sx_res sp_enc_eq). apply list_sx_eqb_refl.
Qed.

Lemma spec_update a kw : spec_ok (CUpdate a kw) (run (CUpdate a kw)) = true.
Proof.
  unfold spec_ok, run. destruct (operand_ok a) eqn:H; cbn [negb]; [|reflexivity].
  destruct (mk_operand a H) as [E _]. rewrite E.
  pose proof (update_no_mutation a kw) as [Hr _].
  destruct (update a kw) as [[x r'] sh]. cbn [fst snd] in Hr. subst r'. apply sx_res_enc_refl.
Qed.

Lemma with_defaults_ok_run a dr :
  with_defaults_ok a dr
    (sx_of_result sx_res (if sp_valid (filled a dr) then Ok (filled a dr) else Err ValueError)) = true.
Proof.
  unfold with_defaults_ok. destruct (sp_valid (filled a dr)) eqn:Hv.
  - apply sp_valid_iff in Hv. unfold sx_res. rewrite (ok_with_enc true _ _ (valid_wf_mem _ Hv)).
    apply (same_quantities_enc true). now apply valid_wf_mem.
  - apply sx_is_err_SErr.
Qed.

Lemma spec_with_defaults a d : spec_ok (CWithDefaults a d) (run (CWithDefaults a d)) = true.
Proof.
  unfold spec_ok, run. destruct (operand_ok a && operand_ok_opt d) eqn:H; cbn [negb]; [|reflexivity].
  apply andb_true_iff in H as [Ha Hd]. destruct (mk_operand a Ha) as [E _]. rewrite E.
  destruct (mk_opt_operand d Hd) as [E' _]. rewrite E'.
  destruct d as [dr|].
  - rewrite with_defaults_spec. rewrite sx_res_enc_refl, sx_opt_enc_refl. cbn [andb].
    apply with_defaults_ok_run.
  - cbn [with_defaults]. rewrite sx_res_enc_refl, sx_opt_enc_refl. cbn [andb]. apply sx_ok_refl.
Qed.

Lemma spec_maybe a d : spec_ok (CMaybe a d) (run (CMaybe a d)) = true.
Proof.
  unfold spec_ok, run. destruct (operand_ok_opt a && operand_ok_opt d) eqn:H; cbn [negb]; [|reflexivity].
  apply andb_true_iff in H as [Ha Hd].
  destruct (mk_opt_operand a Ha) as [E _]. rewrite E. destruct (mk_opt_operand d Hd) as [E' _]. rewrite E'.
  destruct a as [ar|], d as [dr|]; unfold maybe_with_defaults.
  - rewrite with_defaults_spec. rewrite !sx_opt_enc_refl. cbn [andb sx_opt]. apply with_defaults_ok_run.
  - rewrite !sx_opt_enc_refl. cbn [andb sx_opt]. apply sx_ok_refl.
  - rewrite !sx_opt_enc_refl. cbn [andb sx_opt]. apply sx_ok_refl.
  - reflexivity.
Qed.

Lemma spec_dict a : spec_ok (CDict a) (run (CDict a)) = true.
Proof.
  unfold spec_ok, run. destruct (operand_ok a) eqn:H; cbn [negb]; [|reflexivity].
  destruct (mk_operand a H) as [E Hv]. rewrite E. rewrite (dict_roundtrip a Hv).
  unfold operand_ok in H. apply andb_true_iff in H as [_ Hn]. rewrite (res_eqb_refl a Hn).
  rewrite sx_res_enc_refl. cbn [andb sx_eqb SB]. 
  unfold sx_res. rewrite (ok_with_enc true _ _ (valid_wf_mem _ Hv)).
  apply (same_quantities_enc true). now apply valid_wf_mem.
Qed.

Lemma sp_valid_quantities x :
  sp_valid (mkR (cpus x) (cpus_per_node x) (nodes x) (memory x) (gpus x) (time x) (partition x) [] [])
  = sp_valid x.
Proof. destruct x; reflexivity. Qed.

Lemma sp_assemble_assign d : forall r a, sp_assemble d r = Some a ->
  assign d r = Ok a /\ forallb (fun kv => is_some (field_of_key (fst kv))) d = true.
Proof.
  induction d as [|[k v] t IH]; intros r a H; cbn [sp_assemble assign forallb fst] in *.
  - inversion H. split; reflexivity.
  - destruct (field_of_key k) as [f|]; [|discriminate]. destruct (set_field f v r) as [r'|]; [|discriminate].
    destruct (IH r' a H) as [E K]. rewrite E, K. split; reflexivity.
Qed.

Lemma un_ok_SErr e : un_ok (SErr e) = None.
Proof. destruct e; reflexivity. Qed.

Lemma spec_from_dict d : spec_ok (CFromDict d) (run (CFromDict d)) = true.
Proof.
  unfold spec_ok, run. apply andb_true_iff. split.
  - destruct (from_dict d) as [x|e] eqn:E.
    + assert (Hv : valid_res x).
      { unfold from_dict, construct in E. destruct (forallb _ d); [|discriminate].
        destruct (assign d default_res) as [r|]; [|discriminate]. cbn [bind] in E.
        apply post_init_ok_same in E as [-> Hv]. exact Hv. }
      cbn [sx_of_result un_ok]. cbn [str_eqb s list_ascii_of_string]. rewrite !Ascii.eqb_refl. cbn [andb].
      unfold sx_res. rewrite (un_obj_enc true x (valid_wf_mem _ Hv)). unfold res_of_oq.
      cbn [q_cpus q_cpn q_nodes q_raw q_gpus q_time q_part]. rewrite sp_valid_quantities.
      now apply sp_valid_iff.
    + cbn [sx_of_result]. rewrite un_ok_SErr. apply sx_is_err_SErr.
  - destruct (sp_assemble d default_res) as [a|] eqn:Ea; [|reflexivity].
    apply sp_assemble_assign in Ea as [E K]. unfold from_dict, construct. rewrite K, E. cbn [bind].
    rewrite post_init_sp. destruct (sp_valid a) eqn:Hv.
    + apply sp_valid_iff in Hv. unfold sx_res. rewrite (ok_with_enc true _ _ (valid_wf_mem _ Hv)).
      apply (same_quantities_enc true). now apply valid_wf_mem.
    + apply sx_is_err_SErr.
Qed.

Lemma spec_slurm a : known_region (CSlurm a) = false -> spec_ok (CSlurm a) (run (CSlurm a)) = true.
Proof.
  intros Hk. unfold spec_ok, run. destruct (operand_ok a) eqn:H; cbn [negb]; [|reflexivity].
  destruct (mk_operand a H) as [E Hv]. rewrite E. rewrite sx_res_enc_refl. cbn [andb].
  assert (Hg : gpus a <> Some 0%Z).
  { intros Hg. cbn in Hk. rewrite Hg in Hk. discriminate. }
  apply forallb_forall. intros w Hw. apply mem_str_in.
  exact (slurm_mentions_all_partial a Hv Hg w Hw).
Qed.

Lemma mk_opts ch : forallb operand_ok_opt ch = true -> mapM mk_opt ch = Ok ch /\ Forall valid_res (somes ch).
Proof.
  induction ch as [|a ch IH]; cbn [forallb mapM somes]; intros H; [split; [reflexivity|constructor]|].
  apply andb_true_iff in H as [Ha Hch]. destruct (mk_opt_operand a Ha) as [E Va]. destruct (IH Hch) as [E' Vs].
  rewrite E. cbn [bind]. rewrite E'. cbn [bind]. split; [reflexivity|].
  destruct a; [now constructor|exact Vs].
Qed.

Lemma map_opt_enc_refl ch : list_eqb sx_eqb (map (sx_opt sx_res) ch) (map (sx_opt sp_enc) ch) = true.
Proof.
  rewrite (map_ext (sx_opt sp_enc) (sx_opt sx_res)); [apply list_sx_eqb_refl|].
  intros [x|]; cbn [sx_opt]; [apply sp_enc_eq|reflexivity].
Qed.

Lemma spec_maybe_max e ch : spec_ok (CMaybeMax e ch) (run (CMaybeMax e ch)) = true.
Proof.
  unfold spec_ok, run.
  destruct (forallb operand_ok_opt ch && match e with ERes r => operand_ok r | _ => true end) eqn:H;
    cbn [negb]; [|reflexivity].
  apply andb_true_iff in H as [Hch He]. destruct (mk_opts ch Hch) as [Ech Vs]. rewrite Ech.
  destruct e as [|r|d]; cbn [mk_explicit].
  - unfold maybe_max_resources. destruct (somes ch) as [|c [|c2 l]] eqn:Es.
    + rewrite map_opt_enc_refl. reflexivity.
    + rewrite map_opt_enc_refl. cbn [andb sx_opt]. inversion Vs as [|? ? Vc _]; subst.
      unfold sx_res_sz. rewrite (ok_with_enc false c _ (valid_wf_mem _ Vc)).
      cbn [forallb]. rewrite (dominates_b_ok c c Vc (dominates_refl c Vc)). reflexivity.
    + rewrite map_opt_enc_refl. cbn [andb].
      destruct (combine_max_upper_bound _ Vs) as (res & Ec & Vres & Hd). rewrite Ec. cbn [fst sx_opt].
      unfold sx_res_sz. rewrite (ok_with_enc false res _ (valid_wf_mem _ Vres)).
      apply forallb_forall. intros r Hin. apply dominates_b_ok; auto.
  - destruct (mk_operand r He) as [E Vr]. rewrite E. cbn [bind maybe_max_resources].
    rewrite map_opt_enc_refl. cbn [andb sx_opt].
    unfold sx_res_sz. rewrite (ok_with_enc false r _ (valid_wf_mem _ Vr)).
    apply (same_quantities_enc false). now apply valid_wf_mem.
  - cbn [maybe_max_resources]. rewrite map_opt_enc_refl. reflexivity.
Qed.

