(* Proofs about Model/Resources.v (C20). *)
From Coq Require Import QArith Qreduction.
From Verif Require Import Base.Prelude Base.StrUtil Model.Resources Model.ResourcesSpec.
Local Close Scope Q_scope.

(* ---------------------------------------------------------------- strings *)
Lemma str_eqb_refl x : str_eqb x x = true.
Proof. induction x as [|c x IH]; cbn; [reflexivity|]. now rewrite Ascii.eqb_refl, IH. Qed.

Lemma str_eqb_eq x y : str_eqb x y = true <-> x = y.
Proof.
  split; [|intros ->; apply str_eqb_refl].
  revert y; induction x as [|c x IH]; intros [|d y] H; cbn in H; try discriminate; [reflexivity|].
  apply andb_true_iff in H as [H1 H2]. apply Ascii.eqb_eq in H1. apply IH in H2. now subst.
Qed.

Lemma str_eqb_neq x y : str_eqb x y = false <-> x <> y.
Proof.
  split.
  - intros H E. apply str_eqb_eq in E. congruence.
  - intros H. destruct (str_eqb x y) eqn:E; [|reflexivity]. apply str_eqb_eq in E. contradiction.
Qed.

Lemma span_spec p x a b : span p x = (a, b) -> x = a ++ b /\ Forall (fun c => p c = true) a
  /\ (b = [] \/ exists c b', b = c :: b' /\ p c = false).
Proof.
  revert a b; induction x as [|c x IH]; intros a b H; cbn in H.
  - inversion H; subst. repeat split; auto.
  - destruct (p c) eqn:Hc.
    + destruct (span p x) as [a' b'] eqn:E. inversion H; subst.
      destruct (IH a' b eq_refl) as (-> & Hf & Hb). repeat split; auto.
    + inversion H; subst. repeat split; auto. right. eauto.
Qed.

Lemma span_app p a b : Forall (fun c => p c = true) a -> (b = [] \/ exists c b', b = c :: b' /\ p c = false) ->
  span p (a ++ b) = (a, b).
Proof.
  induction a as [|c a IH]; intros Ha Hb; cbn.
  - destruct Hb as [->|(c & b' & -> & Hc)]; cbn; [reflexivity|]. now rewrite Hc.
  - inversion Ha; subst. rewrite H1. now rewrite IH.
Qed.

Lemma forallb_Forall {A} (p : A -> bool) l : forallb p l = true <-> Forall (fun c => p c = true) l.
Proof.
  rewrite forallb_forall, Forall_forall. reflexivity.
Qed.

Lemma digits_b_iff x : digits_b x = true <-> all_digits x.
Proof.
  unfold digits_b, all_digits. destruct x as [|c x].
  - split; [discriminate|]. intros [H _]. contradiction.
  - rewrite forallb_Forall. split; [intros H; split; [discriminate|exact H]|intros [_ H]; exact H].
Qed.

Lemma dd_b_iff x : dd_b x = true <-> dd x.
Proof.
  unfold dd_b, dd. split.
  - destruct x as [|a [|b [|c x]]]; try discriminate. intros H. apply andb_true_iff in H as [Ha Hb]. eauto.
  - intros (a & b & -> & Ha & Hb). now rewrite Ha, Hb.
Qed.

Lemma dd_all_digits x : dd x -> all_digits x.
Proof. intros (a & b & -> & Ha & Hb). split; [discriminate|]. repeat constructor; assumption. Qed.

(* ---------------------------------------------------------------- memory strings *)
Lemma scan_unit_iff r k : scan_unit r = Some k <-> unit_exp r k.
Proof.
  split.
  - unfold scan_unit. intros H.
    repeat match type of H with
           | (if str_eqb ?a ?b then _ else _) = _ =>
               let E := fresh "E" in destruct (str_eqb a b) eqn:E;
               [apply str_eqb_eq in E; subst; inversion H; subst; constructor|]
           end.
    discriminate.
  - intros H; destruct H; reflexivity.
Qed.

Lemma unit_head u k : unit_exp u k ->
  exists c u', u = c :: u' /\ is_digit c = false /\ Ascii.eqb c "."%char = false.
Proof. intros H; destruct H; eexists _, _; (split; [reflexivity|split; reflexivity]). Qed.

Lemma dot_not_digit : is_digit "."%char = false. Proof. reflexivity. Qed.
Lemma colon_not_digit : is_digit ":"%char = false. Proof. reflexivity. Qed.

Lemma mem_bytes_denotes m q : mem_bytes m = Some q -> mem_denotes m q.
Proof.
  unfold mem_bytes, parse_memory. destruct (span is_digit (upper m)) as [d1 r1] eqn:E1.
  apply span_spec in E1 as (Hx & Hd1 & _).
  destruct d1 as [|c0 d1']; [discriminate|]. set (d1 := c0 :: d1') in *.
  assert (A1 : all_digits d1) by (split; [discriminate|assumption]).
  destruct r1 as [|c r2]; [discriminate|].
  destruct (Ascii.eqb c "."%char) eqn:Ec.
  - apply Ascii.eqb_eq in Ec; subst c.
    destruct (span is_digit r2) as [d2 r3] eqn:E2. apply span_spec in E2 as (Hr2 & Hd2 & _).
    destruct d2 as [|c1 d2']; [discriminate|]. set (d2 := c1 :: d2') in *.
    destruct (scan_unit r3) as [k|] eqn:Eu; cbn; [|discriminate]. intros H; inversion H; subst q.
    apply scan_unit_iff in Eu. exists d1, d2, r3, k.
    split; [exact Eu|split; [exact A1|split; [|reflexivity]]].
    right. split; [split; [discriminate|assumption]|]. now rewrite Hx, Hr2.
  - destruct (scan_unit (c :: r2)) as [k|] eqn:Eu; cbn; [|discriminate]. intros H; inversion H; subst q.
    apply scan_unit_iff in Eu. exists d1, [], (c :: r2), k.
    split; [exact Eu|split; [exact A1|split; [|reflexivity]]]. left. split; [reflexivity|exact Hx].
Qed.

Lemma denotes_mem_bytes m q : mem_denotes m q -> mem_bytes m = Some q.
Proof.
  intros (d1 & d2 & u & k & Hu & [Hn1 Hd1] & Hm & ->). unfold mem_bytes, parse_memory.
  pose proof (proj2 (scan_unit_iff u k) Hu) as Es.
  destruct (unit_head u k Hu) as (c & u' & -> & Hc & Hdot).
  assert (Hstop : c :: u' = [] \/ exists c0 b', c :: u' = c0 :: b' /\ is_digit c0 = false)
    by (right; eexists _, _; split; [reflexivity|exact Hc]).
  destruct Hm as [[-> Hm]|[[Hn2 Hd2] Hm]]; rewrite Hm.
  - rewrite (span_app _ _ _ Hd1 Hstop).
    destruct d1 as [|c0 d1']; [contradiction|]. rewrite Hdot, Es. reflexivity.
  - assert (Hstop2 : "."%char :: d2 ++ c :: u' = [] \/
                     exists c0 b', "."%char :: d2 ++ c :: u' = c0 :: b' /\ is_digit c0 = false)
      by (right; eexists _, _; split; [reflexivity|apply dot_not_digit]).
    rewrite (span_app _ _ _ Hd1 Hstop2).
    destruct d1 as [|c0 d1']; [contradiction|]. rewrite Ascii.eqb_refl.
    rewrite (span_app _ _ _ Hd2 Hstop).
    destruct d2 as [|c1 d2']; [contradiction|]. rewrite Es. reflexivity.
Qed.

Lemma mem_bytes_iff m q : mem_bytes m = Some q <-> mem_denotes m q.
Proof. split; [apply mem_bytes_denotes|apply denotes_mem_bytes]. Qed.

(* the suffix-style recogniser of the statement *)
Lemma prefix_exp_spec c k : prefix_exp c = Some k -> unit_exp [c; "B"%char] k.
Proof.
  unfold prefix_exp. intros H.
  repeat match type of H with
         | (if Ascii.eqb ?a ?b then _ else _) = _ =>
             let E := fresh "E" in destruct (Ascii.eqb a b) eqn:E;
             [apply Ascii.eqb_eq in E; subst; inversion H; subst; constructor|]
         end.
  discriminate.
Qed.

Lemma prefix_exp_digit c : is_digit c = true -> prefix_exp c = None.
Proof.
  intros H. unfold prefix_exp.
  repeat match goal with
         | |- (if Ascii.eqb ?a ?b then _ else _) = _ =>
             let E := fresh "E" in destruct (Ascii.eqb a b) eqn:E;
             [apply Ascii.eqb_eq in E; subst; discriminate H|]
         end.
  reflexivity.
Qed.

Lemma split_first_spec c x a b : split_first c x = Some (a, b) -> x = a ++ c :: b.
Proof.
  revert a b; induction x as [|d x IH]; intros a b H; cbn in H; [discriminate|].
  destruct (Ascii.eqb c d) eqn:E.
  - apply Ascii.eqb_eq in E; subst. inversion H; subst. reflexivity.
  - destruct (split_first c x) as [[a' b']|]; [|discriminate]. inversion H; subst.
    cbn. f_equal. now apply IH.
Qed.

Lemma split_first_app c a b : ~ In c a -> split_first c (a ++ c :: b) = Some (a, b).
Proof.
  induction a as [|d a IH]; intros H; cbn.
  - now rewrite Ascii.eqb_refl.
  - destruct (Ascii.eqb c d) eqn:E.
    + apply Ascii.eqb_eq in E; subst. exfalso; apply H; left; reflexivity.
    + rewrite IH; [reflexivity|]. intros Hi; apply H; right; exact Hi.
Qed.

Lemma split_first_none c a : ~ In c a -> split_first c a = None.
Proof.
  induction a as [|d a IH]; intros H; cbn; [reflexivity|].
  destruct (Ascii.eqb c d) eqn:E.
  - apply Ascii.eqb_eq in E; subst. exfalso; apply H; left; reflexivity.
  - rewrite IH; [reflexivity|]. intros Hi; apply H; right; exact Hi.
Qed.

Lemma split_first_none_inv c a : split_first c a = None -> ~ In c a.
Proof.
  induction a as [|d a IH]; cbn; intros H; [tauto|].
  destruct (Ascii.eqb c d) eqn:E; [discriminate|].
  destruct (split_first c a) as [[? ?]|]; [discriminate|].
  intros [->|Hi]; [now rewrite Ascii.eqb_refl in E|now apply IH].
Qed.

Lemma digits_no c a : is_digit c = false -> Forall (fun x => is_digit x = true) a -> ~ In c a.
Proof. intros Hc Ha Hi. rewrite Forall_forall in Ha. apply Ha in Hi. congruence. Qed.

Lemma sp_split_unit_spec x num k : sp_split_unit x = Some (num, k) -> exists u, unit_exp u k /\ x = num ++ u.
Proof.
  unfold sp_split_unit. destruct (rev x) as [|b rest] eqn:E; [discriminate|].
  assert (Hx : x = rev rest ++ [b]) by (rewrite <- (rev_involutive x), E; reflexivity).
  destruct (Ascii.eqb b "B"%char) eqn:Eb; [|discriminate]. apply Ascii.eqb_eq in Eb; subst b.
  destruct rest as [|c r].
  - intros H; inversion H; subst. exists (s "B"). split; [constructor|reflexivity].
  - destruct (prefix_exp c) as [k'|] eqn:Ep; intros H; inversion H; subst.
    + exists [c; "B"%char]. split; [now apply prefix_exp_spec|]. cbn. now rewrite <- app_assoc.
    + exists (s "B"). split; [constructor|reflexivity].
Qed.

Lemma sp_split_unit_app y u k c y' : unit_exp u k -> y = y' ++ [c] -> is_digit c = true ->
  sp_split_unit (y ++ u) = Some (y, k).
Proof.
  intros Hu -> Hc. unfold sp_split_unit. rewrite rev_app_distr.
  destruct Hu; cbn [s list_ascii_of_string rev app]; rewrite rev_app_distr; cbn [rev app];
    cbn [Ascii.eqb Bool.eqb]; try rewrite (prefix_exp_digit c Hc); cbn;
    rewrite ?rev_involutive; try reflexivity.
  all: change (rev y' ++ [c]) with (rev y' ++ rev [c]); rewrite <- rev_app_distr; cbn; rewrite ?rev_involutive; reflexivity.
Qed.

Lemma all_digits_snoc d : all_digits d -> exists y' c, d = y' ++ [c] /\ is_digit c = true.
Proof.
  intros [Hn Hd]. destruct (exists_last Hn) as (y' & c & ->). exists y', c. split; [reflexivity|].
  apply Forall_app in Hd as [_ Hc]. now inversion Hc.
Qed.

Lemma sp_mem_size_denotes m q : sp_mem_size m = Some q -> mem_denotes m q.
Proof.
  unfold sp_mem_size. destruct (sp_split_unit (upper m)) as [[num k]|] eqn:E; [|discriminate].
  apply sp_split_unit_spec in E as (u & Hu & Hx).
  unfold sp_number. destruct (split_first "."%char num) as [[a b]|] eqn:Es.
  - apply split_first_spec in Es.
    destruct (digits_b a) eqn:Ha; [|discriminate]. destruct (digits_b b) eqn:Hb; [|discriminate].
    cbn. intros H; inversion H; subst q. apply digits_b_iff in Ha, Hb.
    exists a, b, u, k. split; [exact Hu|split; [exact Ha|split; [|reflexivity]]].
    right. split; [exact Hb|]. rewrite Hx, Es, <- app_assoc. reflexivity.
  - destruct (digits_b num) eqn:Hn; [|discriminate]. intros H; inversion H; subst q.
    apply digits_b_iff in Hn.
    exists num, [], u, k. split; [exact Hu|split; [exact Hn|split; [|reflexivity]]].
    left. split; [reflexivity|exact Hx].
Qed.

Lemma denotes_sp_mem_size m q : mem_denotes m q -> sp_mem_size m = Some q.
Proof.
  intros (d1 & d2 & u & k & Hu & A1 & Hm & ->). unfold sp_mem_size.
  assert (Hdot : ~ In "."%char d1) by (apply digits_no; [apply dot_not_digit|apply A1]).
  destruct Hm as [[-> Hm]|[A2 Hm]]; rewrite Hm.
  - destruct (all_digits_snoc d1 A1) as (y' & c & Hy & Hc).
    rewrite (sp_split_unit_app d1 u k c y' Hu Hy Hc). unfold sp_number.
    rewrite (split_first_none _ _ Hdot). rewrite (proj2 (digits_b_iff _) A1). reflexivity.
  - destruct (all_digits_snoc d2 A2) as (y' & c & Hy & Hc).
    change (d1 ++ "."%char :: d2 ++ u) with (d1 ++ ("."%char :: d2) ++ u). rewrite app_assoc.
    assert (Hy2 : d1 ++ "."%char :: d2 = (d1 ++ "."%char :: y') ++ [c])
      by (rewrite Hy, <- app_assoc; reflexivity).
    rewrite (sp_split_unit_app _ u k c _ Hu Hy2 Hc). unfold sp_number.
    rewrite (split_first_app _ _ _ Hdot).
    rewrite (proj2 (digits_b_iff _) A1), (proj2 (digits_b_iff _) A2). reflexivity.
Qed.

Lemma sp_mem_size_iff m q : sp_mem_size m = Some q <-> mem_denotes m q.
Proof. split; [apply sp_mem_size_denotes|apply denotes_sp_mem_size]. Qed.

(* the two recognisers are the same function *)
Lemma sp_mem_size_eq m : sp_mem_size m = mem_bytes m.
Proof.
  destruct (mem_bytes m) as [q|] eqn:E.
  - now apply sp_mem_size_iff, mem_bytes_iff.
  - destruct (sp_mem_size m) as [q|] eqn:E2; [|reflexivity].
    apply sp_mem_size_iff, mem_bytes_iff in E2. congruence.
Qed.
