(* Proofs about Model/Resources.v (C20). *)
From Coq Require Import QArith Qreduction.
From Verif Require Import Base.Prelude Base.StrUtil Model.Resources Model.ResourcesSpec.
Local Close Scope Q_scope.

(* ---------------------------------------------------------------- strings *)
Lemma str_eqb_refl x : str_eqb x x = true.
Proof. induction x as [|c x IH]; cbn; [reflexivity|]. now rewrite Ascii.eqb_refl, IH. Qed.

Lemma str_eqb_eq x y : str_eqb x y = true <-> x = y.
Proof.
  split; [|intros ->; apply str_eqb_refl].
  revert y; induction x as [|c x IH]; intros [|d y] H; cbn in H; try discriminate; [reflexivity|].
  apply andb_true_iff in H as [H1 H2]. apply Ascii.eqb_eq in H1. apply IH in H2. now subst.
Qed.

Lemma str_eqb_neq x y : str_eqb x y = false <-> x <> y.
Proof.
  split.
  - intros H E. apply str_eqb_eq in E. congruence.
  - intros H. destruct (str_eqb x y) eqn:E; [|reflexivity]. apply str_eqb_eq in E. contradiction.
Qed.

Lemma span_spec p x a b : span p x = (a, b) -> x = a ++ b /\ Forall (fun c => p c = true) a
  /\ (b = [] \/ exists c b', b = c :: b' /\ p c = false).
Proof.
  revert a b; induction x as [|c x IH]; intros a b H; cbn in H.
  - inversion H; subst. repeat split; auto.
  - destruct (p c) eqn:Hc.
    + destruct (span p x) as [a' b'] eqn:E. inversion H; subst.
      destruct (IH a' b eq_refl) as (-> & Hf & Hb). repeat split; auto.
    + inversion H; subst. repeat split; auto. right. eauto.
Qed.

Lemma span_app p a b : Forall (fun c => p c = true) a -> (b = [] \/ exists c b', b = c :: b' /\ p c = false) ->
  span p (a ++ b) = (a, b).
Proof.
  induction a as [|c a IH]; intros Ha Hb; cbn.
  - destruct Hb as [->|(c & b' & -> & Hc)]; cbn; [reflexivity|]. now rewrite Hc.
  - inversion Ha; subst. rewrite H1. now rewrite IH.
Qed.

Lemma forallb_Forall {A} (p : A -> bool) l : forallb p l = true <-> Forall (fun c => p c = true) l.
Proof.
  rewrite forallb_forall, Forall_forall. reflexivity.
Qed.

Lemma digits_b_iff x : digits_b x = true <-> all_digits x.
Proof.
  unfold digits_b, all_digits. destruct x as [|c x].
  - split; [discriminate|]. intros [H _]. contradiction.
  - rewrite forallb_Forall. split; [intros H; split; [discriminate|exact H]|intros [_ H]; exact H].
Qed.

Lemma dd_b_iff x : dd_b x = true <-> dd x.
Proof.
  unfold dd_b, dd. split.
  - destruct x as [|a [|b [|c x]]]; try discriminate. intros H. apply andb_true_iff in H as [Ha Hb]. eauto.
  - intros (a & b & -> & Ha & Hb). now rewrite Ha, Hb.
Qed.

Lemma dd_all_digits x : dd x -> all_digits x.
Proof. intros (a & b & -> & Ha & Hb). split; [discriminate|]. repeat constructor; assumption. Qed.

(* ---------------------------------------------------------------- memory strings *)
Lemma scan_unit_iff r k : scan_unit r = Some k <-> unit_exp r k.
Proof.
  split.
  - unfold scan_unit. intros H.
    repeat match type of H with
           | (if str_eqb ?a ?b then _ else _) = _ =>
               let E := fresh "E" in destruct (str_eqb a b) eqn:E;
               [apply str_eqb_eq in E; subst; inversion H; subst; constructor|]
           end.
    discriminate.
  - intros H; destruct H; reflexivity.
Qed.

Lemma unit_head u k : unit_exp u k ->
  exists c u', u = c :: u' /\ is_digit c = false /\ Ascii.eqb c "."%char = false.
Proof. intros H; destruct H; eexists _, _; (split; [reflexivity|split; reflexivity]). Qed.

Lemma dot_not_digit : is_digit "."%char = false. Proof. reflexivity. Qed.
Lemma colon_not_digit : is_digit ":"%char = false. Proof. reflexivity. Qed.

Lemma mem_bytes_denotes m q : mem_bytes m = Some q -> mem_denotes m q.
Proof.
  unfold mem_bytes, parse_memory. destruct (span is_digit (upper m)) as [d1 r1] eqn:E1.
  apply span_spec in E1 as (Hx & Hd1 & _).
  destruct d1 as [|c0 d1']; [discriminate|]. set (d1 := c0 :: d1') in *.
  assert (A1 : all_digits d1) by (split; [discriminate|assumption]).
  destruct r1 as [|c r2]; [discriminate|].
  destruct (Ascii.eqb c "."%char) eqn:Ec.
  - apply Ascii.eqb_eq in Ec; subst c.
    destruct (span is_digit r2) as [d2 r3] eqn:E2. apply span_spec in E2 as (Hr2 & Hd2 & _).
    destruct d2 as [|c1 d2']; [discriminate|]. set (d2 := c1 :: d2') in *.
    destruct (scan_unit r3) as [k|] eqn:Eu; cbn; [|discriminate]. intros H; inversion H; subst q.
    apply scan_unit_iff in Eu. exists d1, d2, r3, k.
    split; [exact Eu|split; [exact A1|split; [|reflexivity]]].
    right. split; [split; [discriminate|assumption]|]. now rewrite Hx, Hr2.
  - destruct (scan_unit (c :: r2)) as [k|] eqn:Eu; cbn; [|discriminate]. intros H; inversion H; subst q.
    apply scan_unit_iff in Eu. exists d1, [], (c :: r2), k.
    split; [exact Eu|split; [exact A1|split; [|reflexivity]]]. left. split; [reflexivity|exact Hx].
Qed.

Lemma denotes_mem_bytes m q : mem_denotes m q -> mem_bytes m = Some q.
Proof.
  intros (d1 & d2 & u & k & Hu & [Hn1 Hd1] & Hm & ->). unfold mem_bytes, parse_memory.
  pose proof (proj2 (scan_unit_iff u k) Hu) as Es.
  destruct (unit_head u k Hu) as (c & u' & -> & Hc & Hdot).
  assert (Hstop : c :: u' = [] \/ exists c0 b', c :: u' = c0 :: b' /\ is_digit c0 = false)
    by (right; eexists _, _; split; [reflexivity|exact Hc]).
  destruct Hm as [[-> Hm]|[[Hn2 Hd2] Hm]]; rewrite Hm.
  - rewrite (span_app _ _ _ Hd1 Hstop).
    destruct d1 as [|c0 d1']; [contradiction|]. rewrite Hdot, Es. reflexivity.
  - assert (Hstop2 : "."%char :: d2 ++ c :: u' = [] \/
                     exists c0 b', "."%char :: d2 ++ c :: u' = c0 :: b' /\ is_digit c0 = false)
      by (right; eexists _, _; split; [reflexivity|apply dot_not_digit]).
    rewrite (span_app _ _ _ Hd1 Hstop2).
    destruct d1 as [|c0 d1']; [contradiction|]. rewrite Ascii.eqb_refl.
    rewrite (span_app _ _ _ Hd2 Hstop).
    destruct d2 as [|c1 d2']; [contradiction|]. rewrite Es. reflexivity.
Qed.

Lemma mem_bytes_iff m q : mem_bytes m = Some q <-> mem_denotes m q.
Proof. split; [apply mem_bytes_denotes|apply denotes_mem_bytes]. Qed.

(* the suffix-style recogniser of the statement *)
Lemma prefix_exp_spec c k : prefix_exp c = Some k -> unit_exp [c; "B"%char] k.
Proof.
  unfold prefix_exp. intros H.
  repeat match type of H with
         | (if Ascii.eqb ?a ?b then _ else _) = _ =>
             let E := fresh "E" in destruct (Ascii.eqb a b) eqn:E;
             [apply Ascii.eqb_eq in E; subst; inversion H; subst; constructor|]
         end.
  discriminate.
Qed.

Lemma prefix_exp_digit c : is_digit c = true -> prefix_exp c = None.
Proof.
  intros H. unfold prefix_exp.
  repeat match goal with
         | |- (if Ascii.eqb ?a ?b then _ else _) = _ =>
             let E := fresh "E" in destruct (Ascii.eqb a b) eqn:E;
             [apply Ascii.eqb_eq in E; subst; discriminate H|]
         end.
  reflexivity.
Qed.

Lemma split_first_spec c x a b : split_first c x = Some (a, b) -> x = a ++ c :: b.
Proof.
  revert a b; induction x as [|d x IH]; intros a b H; cbn in H; [discriminate|].
  destruct (Ascii.eqb c d) eqn:E.
  - apply Ascii.eqb_eq in E; subst. inversion H; subst. reflexivity.
  - destruct (split_first c x) as [[a' b']|]; [|discriminate]. inversion H; subst.
    cbn. f_equal. now apply IH.
Qed.

Lemma split_first_app c a b : ~ In c a -> split_first c (a ++ c :: b) = Some (a, b).
Proof.
  induction a as [|d a IH]; intros H; cbn.
  - now rewrite Ascii.eqb_refl.
  - destruct (Ascii.eqb c d) eqn:E.
    + apply Ascii.eqb_eq in E; subst. exfalso; apply H; left; reflexivity.
    + rewrite IH; [reflexivity|]. intros Hi; apply H; right; exact Hi.
Qed.

Lemma split_first_none c a : ~ In c a -> split_first c a = None.
Proof.
  induction a as [|d a IH]; intros H; cbn; [reflexivity|].
  destruct (Ascii.eqb c d) eqn:E.
  - apply Ascii.eqb_eq in E; subst. exfalso; apply H; left; reflexivity.
  - rewrite IH; [reflexivity|]. intros Hi; apply H; right; exact Hi.
Qed.

Lemma split_first_none_inv c a : split_first c a = None -> ~ In c a.
Proof.
  induction a as [|d a IH]; cbn; intros H; [tauto|].
  destruct (Ascii.eqb c d) eqn:E; [discriminate|].
  destruct (split_first c a) as [[? ?]|]; [discriminate|].
  intros [->|Hi]; [now rewrite Ascii.eqb_refl in E|now apply IH].
Qed.

Lemma digits_no c a : is_digit c = false -> Forall (fun x => is_digit x = true) a -> ~ In c a.
Proof. intros Hc Ha Hi. rewrite Forall_forall in Ha. apply Ha in Hi. congruence. Qed.

Lemma sp_split_unit_spec x num k : sp_split_unit x = Some (num, k) -> exists u, unit_exp u k /\ x = num ++ u.
Proof.
  unfold sp_split_unit. destruct (rev x) as [|b rest] eqn:E; [discriminate|].
  assert (Hx : x = rev rest ++ [b]) by (rewrite <- (rev_involutive x), E; reflexivity).
  destruct (Ascii.eqb b "B"%char) eqn:Eb; [|discriminate]. apply Ascii.eqb_eq in Eb; subst b.
  destruct rest as [|c r].
  - intros H; inversion H; subst. exists (s "B"). split; [constructor|reflexivity].
  - destruct (prefix_exp c) as [k'|] eqn:Ep; intros H; inversion H; subst.
    + exists [c; "B"%char]. split; [now apply prefix_exp_spec|]. cbn. now rewrite <- app_assoc.
    + exists (s "B"). split; [constructor|reflexivity].
Qed.

Lemma sp_split_unit_app y u k c y' : unit_exp u k -> y = y' ++ [c] -> is_digit c = true ->
  sp_split_unit (y ++ u) = Some (y, k).
Proof.
  intros Hu -> Hc. unfold sp_split_unit. rewrite rev_app_distr.
  destruct Hu; cbn [s list_ascii_of_string rev app]; rewrite rev_app_distr; cbn [rev app];
    cbn [Ascii.eqb Bool.eqb]; try rewrite (prefix_exp_digit c Hc); cbn;
    rewrite ?rev_involutive; try reflexivity.
  all: change (rev y' ++ [c]) with (rev y' ++ rev [c]); rewrite <- rev_app_distr; cbn; rewrite ?rev_involutive; reflexivity.
Qed.

Lemma all_digits_snoc d : all_digits d -> exists y' c, d = y' ++ [c] /\ is_digit c = true.
Proof.
  intros [Hn Hd]. destruct (exists_last Hn) as (y' & c & ->). exists y', c. split; [reflexivity|].
  apply Forall_app in Hd as [_ Hc]. now inversion Hc.
Qed.

Lemma sp_mem_size_denotes m q : sp_mem_size m = Some q -> mem_denotes m q.
Proof.
  unfold sp_mem_size. destruct (sp_split_unit (upper m)) as [[num k]|] eqn:E; [|discriminate].
  apply sp_split_unit_spec in E as (u & Hu & Hx).
  unfold sp_number. destruct (split_first "."%char num) as [[a b]|] eqn:Es.
  - apply split_first_spec in Es.
    destruct (digits_b a) eqn:Ha; [|discriminate]. destruct (digits_b b) eqn:Hb; [|discriminate].
    cbn. intros H; inversion H; subst q. apply digits_b_iff in Ha, Hb.
    exists a, b, u, k. split; [exact Hu|split; [exact Ha|split; [|reflexivity]]].
    right. split; [exact Hb|]. rewrite Hx, Es, <- app_assoc. reflexivity.
  - destruct (digits_b num) eqn:Hn; [|discriminate]. intros H; inversion H; subst q.
    apply digits_b_iff in Hn.
    exists num, [], u, k. split; [exact Hu|split; [exact Hn|split; [|reflexivity]]].
    left. split; [reflexivity|exact Hx].
Qed.

Lemma denotes_sp_mem_size m q : mem_denotes m q -> sp_mem_size m = Some q.
Proof.
  intros (d1 & d2 & u & k & Hu & A1 & Hm & ->). unfold sp_mem_size.
  assert (Hdot : ~ In "."%char d1) by (apply digits_no; [apply dot_not_digit|apply A1]).
  destruct Hm as [[-> Hm]|[A2 Hm]]; rewrite Hm.
  - destruct (all_digits_snoc d1 A1) as (y' & c & Hy & Hc).
    rewrite (sp_split_unit_app d1 u k c y' Hu Hy Hc). unfold sp_number.
    rewrite (split_first_none _ _ Hdot). rewrite (proj2 (digits_b_iff _) A1). reflexivity.
  - destruct (all_digits_snoc d2 A2) as (y' & c & Hy & Hc).
    change (d1 ++ "."%char :: d2 ++ u) with (d1 ++ ("."%char :: d2) ++ u). rewrite app_assoc.
    assert (Hy2 : d1 ++ "."%char :: d2 = (d1 ++ "."%char :: y') ++ [c])
      by (rewrite Hy, <- app_assoc; reflexivity).
    rewrite (sp_split_unit_app _ u k c _ Hu Hy2 Hc). unfold sp_number.
    rewrite (split_first_app _ _ _ Hdot).
    rewrite (proj2 (digits_b_iff _) A1), (proj2 (digits_b_iff _) A2). reflexivity.
Qed.

Lemma sp_mem_size_iff m q : sp_mem_size m = Some q <-> mem_denotes m q.
Proof. split; [apply sp_mem_size_denotes|apply denotes_sp_mem_size]. Qed.

(* the two recognisers are the same function *)
Lemma sp_mem_size_eq m : sp_mem_size m = mem_bytes m.
Proof.
  destruct (mem_bytes m) as [q|] eqn:E.
  - now apply sp_mem_size_iff, mem_bytes_iff.
  - destruct (sp_mem_size m) as [q|] eqn:E2; [|reflexivity].
    apply sp_mem_size_iff, mem_bytes_iff in E2. congruence.
Qed.

(* ---------------------------------------------------------------- split / join *)
Lemma split_char_nonempty c x : split_char c x <> [].
Proof.
  induction x as [|d x IH]; cbn; [discriminate|].
  destruct (Ascii.eqb c d); [discriminate|]. destruct (split_char c x); discriminate.
Qed.

Lemma split_char_app c a b : ~ In c a -> split_char c (a ++ c :: b) = a :: split_char c b.
Proof.
  induction a as [|d a IH]; intros H; cbn.
  - now rewrite Ascii.eqb_refl.
  - destruct (Ascii.eqb c d) eqn:E.
    + apply Ascii.eqb_eq in E; subst. exfalso; apply H; left; reflexivity.
    + rewrite IH; [reflexivity|]. intros Hi; apply H; right; exact Hi.
Qed.

Lemma split_char_none c a : ~ In c a -> split_char c a = [a].
Proof.
  induction a as [|d a IH]; intros H; cbn; [reflexivity|].
  destruct (Ascii.eqb c d) eqn:E.
  - apply Ascii.eqb_eq in E; subst. exfalso; apply H; left; reflexivity.
  - rewrite IH; [reflexivity|]. intros Hi; apply H; right; exact Hi.
Qed.

(* general: appending two strings at a separator concatenates the word lists *)
Lemma split_char_app_gen c a b : split_char c (a ++ c :: b) = split_char c a ++ split_char c b.
Proof.
  induction a as [|d a IH]; cbn.
  - now rewrite Ascii.eqb_refl.
  - destruct (Ascii.eqb c d) eqn:E.
    + rewrite IH. reflexivity.
    + rewrite IH. destruct (split_char c a) as [|h r] eqn:Ea; [now apply split_char_nonempty in Ea|].
      reflexivity.
Qed.

Lemma join_split c x : join [c] (split_char c x) = x.
Proof.
  induction x as [|d x IH]; cbn; [reflexivity|].
  destruct (Ascii.eqb c d) eqn:E.
  - apply Ascii.eqb_eq in E; subst d.
    destruct (split_char c x) as [|h r] eqn:Ex; [now apply split_char_nonempty in Ex|].
    cbn [join]. cbn. f_equal. exact IH.
  - destruct (split_char c x) as [|h r] eqn:Ex; [now apply split_char_nonempty in Ex|].
    destruct r as [|h2 r]; cbn in *; f_equal; exact IH.
Qed.

(* ---------------------------------------------------------------- wall time strings *)
Lemma two_digits_spec x r : two_digits x = Some r <->
  exists a b, x = a :: b :: r /\ is_digit a = true /\ is_digit b = true.
Proof.
  unfold two_digits. split.
  - destruct x as [|a [|b x]]; try discriminate.
    destruct (is_digit a) eqn:Ha; [|discriminate]. destruct (is_digit b) eqn:Hb; [|discriminate].
    cbn. intros H; inversion H; subst. eauto.
  - intros (a & b & -> & Ha & Hb). now rewrite Ha, Hb.
Qed.

Lemma colon_spec x r : colon x = Some r <-> x = ":"%char :: r.
Proof.
  unfold colon. split.
  - destruct x as [|c x]; [discriminate|]. destruct (Ascii.eqb c ":"%char) eqn:E; [|discriminate].
    apply Ascii.eqb_eq in E; subst. intros H; inversion H; reflexivity.
  - intros ->. reflexivity.
Qed.

Lemma g_dd_colon_spec x r : g_dd_colon x = Some r <-> exists m, dd m /\ x = m ++ ":"%char :: r.
Proof.
  unfold g_dd_colon. split.
  - destruct (two_digits x) as [y|] eqn:E; [|discriminate]. intros H. apply colon_spec in H. subst y.
    apply two_digits_spec in E as (a & b & -> & Ha & Hb). exists [a; b]. split; [|reflexivity].
    exists a, b. auto.
  - intros (m & (a & b & -> & Ha & Hb) & ->). cbn. rewrite Ha, Hb. reflexivity.
Qed.

Lemma g_dplus_colon_spec x r : g_dplus_colon x = Some r <-> exists d, all_digits d /\ x = d ++ ":"%char :: r.
Proof.
  unfold g_dplus_colon. split.
  - destruct (span is_digit x) as [d y] eqn:E. apply span_spec in E as (-> & Hd & _).
    destruct d as [|c d]; [discriminate|]. intros H. apply colon_spec in H. subst y.
    exists (c :: d). split; [split; [discriminate|exact Hd]|reflexivity].
  - intros (d & [Hn Hd] & ->).
    rewrite (span_app is_digit d (":"%char :: r) Hd)
      by (right; eexists _, _; split; [reflexivity|apply colon_not_digit]).
    destruct d; [contradiction|]. reflexivity.
Qed.

Lemma tail_mmss_spec x : tail_mmss x = true <-> exists m ss, dd m /\ dd ss /\ x = m ++ ":"%char :: ss.
Proof.
  unfold tail_mmss. split.
  - destruct (g_dd_colon x) as [r|] eqn:E; [|discriminate]. apply g_dd_colon_spec in E as (m & Hm & ->).
    destruct (two_digits r) as [[|? ?]|] eqn:E2; try discriminate. intros _.
    apply two_digits_spec in E2 as (a & b & -> & Ha & Hb). exists m, [a; b]. repeat split; auto.
    exists a, b; auto.
  - intros (m & ss & Hm & (a & b & -> & Ha & Hb) & ->).
    rewrite (proj2 (g_dd_colon_spec _ [a; b])) by eauto. cbn. now rewrite Ha, Hb.
Qed.

Definition t2 (x : str) : Prop := exists m ss, dd m /\ dd ss /\ x = m ++ ":"%char :: ss.
Definition t3dd (x : str) : Prop :=
  exists h m ss, dd h /\ dd m /\ dd ss /\ x = h ++ ":"%char :: m ++ ":"%char :: ss.

Lemma after_g1_spec x : after_g1 x = true <-> t3dd x \/ t2 x.
Proof.
  unfold after_g1. rewrite orb_true_iff, tail_mmss_spec. fold (t2 x). split.
  - intros [H|H]; [left|right; exact H].
    destruct (g_dd_colon x) as [r|] eqn:E; [|discriminate]. apply g_dd_colon_spec in E as (h & Hh & ->).
    apply tail_mmss_spec in H as (m & ss & Hm & Hs & ->). exists h, m, ss. auto.
  - intros [(h & m & ss & Hh & Hm & Hs & ->)|H]; [left|right; exact H].
    rewrite (proj2 (g_dd_colon_spec _ (m ++ ":"%char :: ss))) by eauto.
    apply tail_mmss_spec. exists m, ss. auto.
Qed.

Lemma dd_no_colon m : dd m -> ~ In ":"%char m.
Proof. intros H. apply dd_all_digits in H as [_ H]. apply digits_no; [apply colon_not_digit|exact H]. Qed.
Lemma all_digits_no_colon m : all_digits m -> ~ In ":"%char m.
Proof. intros [_ H]. apply digits_no; [apply colon_not_digit|exact H]. Qed.

Lemma valid_time_denotes t : is_valid_wall_time t = true -> exists n, time_denotes t n.
Proof.
  unfold is_valid_wall_time. rewrite orb_true_iff. intros [H|H].
  - destruct (g_dplus_colon t) as [r|] eqn:E; [|discriminate].
    apply g_dplus_colon_spec in E as (d & Hd & ->).
    apply after_g1_spec in H as [(h & m & ss & Hh & Hm & Hs & ->)|(m & ss & Hm & Hs & ->)].
    + eexists. right; right. exists d, h, m, ss. repeat split; eauto; apply Hd.
    + eexists. right; left. exists d, m, ss. repeat split; eauto; apply Hd.
  - apply after_g1_spec in H as [(h & m & ss & Hh & Hm & Hs & ->)|(m & ss & Hm & Hs & ->)].
    + eexists. right; left. exists h, m, ss. pose proof (dd_all_digits h Hh) as [? ?]. repeat split; eauto.
    + eexists. left. exists m, ss. repeat split; eauto.
Qed.

Lemma denotes_valid_time t n : time_denotes t n -> is_valid_wall_time t = true.
Proof.
  unfold is_valid_wall_time. rewrite orb_true_iff.
  intros [(m & ss & Hm & Hs & -> & _)|[(h & m & ss & Hh & Hm & Hs & -> & _)|(d & h & m & ss & Hd & Hh & Hm & Hs & -> & _)]].
  - right. apply after_g1_spec. right. exists m, ss. auto.
  - left. rewrite (proj2 (g_dplus_colon_spec _ (m ++ ":"%char :: ss))) by eauto.
    apply after_g1_spec. right. exists m, ss. auto.
  - left. rewrite (proj2 (g_dplus_colon_spec _ (h ++ ":"%char :: m ++ ":"%char :: ss))) by eauto.
    apply after_g1_spec. left. exists h, m, ss. auto.
Qed.

Lemma valid_time_iff t : is_valid_wall_time t = true <-> exists n, time_denotes t n.
Proof. split; [apply valid_time_denotes|intros [n H]; now apply denotes_valid_time in H]. Qed.

Lemma int_of_digits_ok p : all_digits p -> int_of_digits p = Ok (digits_val p).
Proof.
  intros [Hn Hd]. unfold int_of_digits. destruct p; [contradiction|].
  now rewrite (proj2 (forallb_Forall _ _) Hd).
Qed.

Lemma denotes_time_secs t n : time_denotes t n -> time_secs t = Ok n.
Proof.
  unfold time_secs.
  intros [(m & ss & Hm & Hs & -> & ->)|[(h & m & ss & Hh & Hm & Hs & -> & ->)|(d & h & m & ss & Hd & Hh & Hm & Hs & -> & ->)]].
  - rewrite split_char_app by now apply dd_no_colon. rewrite split_char_none by now apply dd_no_colon.
    cbn [rev app combine sum_parts].
    rewrite !int_of_digits_ok by now apply dd_all_digits. cbn [bind]. f_equal. lia.
  - rewrite split_char_app by now apply all_digits_no_colon.
    rewrite split_char_app by now apply dd_no_colon. rewrite split_char_none by now apply dd_no_colon.
    cbn [rev app combine sum_parts].
    rewrite !int_of_digits_ok by (first [now apply dd_all_digits | assumption]). cbn [bind]. f_equal. lia.
  - rewrite split_char_app by now apply all_digits_no_colon.
    rewrite !split_char_app by now apply dd_no_colon. rewrite split_char_none by now apply dd_no_colon.
    cbn [rev app combine sum_parts].
    rewrite !int_of_digits_ok by (first [now apply dd_all_digits | assumption]). cbn [bind]. f_equal. lia.
Qed.

Lemma sp_time_secs_denotes t n : sp_time_secs t = Some n -> time_denotes t n.
Proof.
  unfold sp_time_secs. pose proof (join_split ":"%char t) as J.
  destruct (split_char ":"%char t) as [|a [|b [|c [|d [|e l]]]]]; try discriminate; cbn in J; subst t.
  - destruct (dd_b a) eqn:Ha; [|discriminate]. destruct (dd_b b) eqn:Hb; [|discriminate].
    cbn. intros H; inversion H; subst n. apply dd_b_iff in Ha, Hb.
    left. exists a, b. auto.
  - destruct (digits_b a) eqn:Ha; [|discriminate]. destruct (dd_b b) eqn:Hb; [|discriminate].
    destruct (dd_b c) eqn:Hc; [|discriminate].
    cbn. intros H; inversion H; subst n. apply dd_b_iff in Hb, Hc. apply digits_b_iff in Ha.
    right; left. exists a, b, c. auto.
  - destruct (digits_b a) eqn:Ha; [|discriminate]. destruct (dd_b b) eqn:Hb; [|discriminate].
    destruct (dd_b c) eqn:Hc; [|discriminate]. destruct (dd_b d) eqn:Hd; [|discriminate].
    cbn. intros H; inversion H; subst n. apply dd_b_iff in Hb, Hc, Hd. apply digits_b_iff in Ha.
    right; right. exists a, b, c, d. repeat split; auto; apply Ha.
Qed.

Lemma denotes_sp_time_secs t n : time_denotes t n -> sp_time_secs t = Some n.
Proof.
  unfold sp_time_secs.
  intros [(m & ss & Hm & Hs & -> & ->)|[(h & m & ss & Hh & Hm & Hs & -> & ->)|(d & h & m & ss & Hd & Hh & Hm & Hs & -> & ->)]].
  - rewrite split_char_app by now apply dd_no_colon. rewrite split_char_none by now apply dd_no_colon.
    now rewrite (proj2 (dd_b_iff m) Hm), (proj2 (dd_b_iff ss) Hs).
  - rewrite split_char_app by now apply all_digits_no_colon.
    rewrite split_char_app by now apply dd_no_colon. rewrite split_char_none by now apply dd_no_colon.
    now rewrite (proj2 (digits_b_iff h) Hh), (proj2 (dd_b_iff m) Hm), (proj2 (dd_b_iff ss) Hs).
  - rewrite split_char_app by now apply all_digits_no_colon.
    rewrite !split_char_app by now apply dd_no_colon. rewrite split_char_none by now apply dd_no_colon.
    now rewrite (proj2 (digits_b_iff d) Hd), (proj2 (dd_b_iff h) Hh), (proj2 (dd_b_iff m) Hm),
      (proj2 (dd_b_iff ss) Hs).
Qed.

Lemma sp_time_secs_iff t n : sp_time_secs t = Some n <-> time_denotes t n.
Proof. split; [apply sp_time_secs_denotes|apply denotes_sp_time_secs]. Qed.

(* a string has at most one duration *)
Lemma time_denotes_fun t n n' : time_denotes t n -> time_denotes t n' -> n = n'.
Proof. intros H H'. apply denotes_sp_time_secs in H, H'. congruence. Qed.
Lemma mem_denotes_fun m q q' : mem_denotes m q -> mem_denotes m q' -> q = q'.
Proof. intros H H'. apply denotes_mem_bytes in H, H'. congruence. Qed.

Lemma time_secs_valid t : is_valid_wall_time t = true -> exists n, time_secs t = Ok n /\ time_denotes t n.
Proof. intros H. apply valid_time_denotes in H as [n H]. exists n. split; [now apply denotes_time_secs|exact H]. Qed.

(* ---------------------------------------------------------------- constructor validation *)
Lemma valid_memory_sp m : is_valid_memory m = set_b (sp_mem_size m).
Proof. unfold is_valid_memory. rewrite sp_mem_size_eq. now destruct (mem_bytes m). Qed.

Lemma valid_time_sp t : is_valid_wall_time t = set_b (sp_time_secs t).
Proof.
  destruct (sp_time_secs t) as [n|] eqn:E; cbn.
  - apply sp_time_secs_iff in E. now apply denotes_valid_time in E.
  - destruct (is_valid_wall_time t) eqn:V; [|reflexivity].
    apply valid_time_denotes in V as [n V]. apply sp_time_secs_iff in V. congruence.
Qed.

Lemma pos_b_leb z : pos_b (Some z) = negb (z <=? 0)%Z.
Proof. cbn. apply Z.ltb_antisym. Qed.
Lemma nonneg_b_ltb z : nonneg_b (Some z) = negb (z <? 0)%Z.
Proof. cbn. apply Z.leb_antisym. Qed.
Lemma truthy_pos z : (z <=? 0)%Z = false -> truthy_z (Some z) = true.
Proof. intros H. apply Z.leb_gt in H. cbn. apply negb_true_iff, Z.eqb_neq. lia. Qed.

(* the constructor accepts exactly the declaratively valid values (as a boolean identity) *)
Lemma post_init_sp r : post_init r = if sp_valid r then Ok r else Err ValueError.
Proof.
  destruct r as [c cn n m g t p e md]. unfold post_init, sp_valid.
  cbn [cpus cpus_per_node nodes memory gpus time partition extra_args mode].
  destruct c as [c|].
  1: rewrite pos_b_leb; destruct (c <=? 0)%Z eqn:Ec; cbn [negb andb]; [reflexivity|rewrite ?(truthy_pos c Ec)].
  all: destruct g as [g|].
  all: try (rewrite nonneg_b_ltb; destruct (g <? 0)%Z eqn:Eg; cbn [negb andb]; [reflexivity|]).
  all: destruct n as [n|].
  all: try (rewrite pos_b_leb; destruct (n <=? 0)%Z eqn:En; cbn [negb andb]; [reflexivity|rewrite ?(truthy_pos n En)]).
  all: destruct cn as [cn|].
  all: try (rewrite pos_b_leb; destruct (cn <=? 0)%Z eqn:Ecn; cbn [negb andb]; [reflexivity|rewrite ?(truthy_pos cn Ecn)]).
  all: cbn [pos_b nonneg_b andb negb set_b truthy_z orb].
  all: destruct m as [m|]; try (rewrite valid_memory_sp; destruct (set_b (sp_mem_size m)); cbn [negb andb]; [|reflexivity]).
  all: destruct t as [t|]; try (rewrite valid_time_sp; destruct (set_b (sp_time_secs t)); cbn [negb andb]; [|reflexivity]).
  all: reflexivity.
Qed.

Lemma pos_b_iff o : pos_b o = true <-> pos_opt o.
Proof. destruct o; cbn; [apply Z.ltb_lt|tauto]. Qed.
Lemma nonneg_b_iff o : nonneg_b o = true <-> nonneg_opt o.
Proof. destruct o; cbn; [apply Z.leb_le|tauto]. Qed.
Lemma set_b_iff {A} (o : option A) : set_b o = true <-> o <> None.
Proof. destruct o; cbn; split; congruence. Qed.
Lemma set_b_false {A} (o : option A) : set_b o = false <-> o = None.
Proof. destruct o; cbn; split; congruence. Qed.

Lemma sp_valid_iff r : sp_valid r = true <-> valid_res r.
Proof.
  unfold sp_valid, valid_res. rewrite !andb_true_iff, !pos_b_iff, nonneg_b_iff.
  assert (Hm : match memory r with Some m => set_b (sp_mem_size m) | None => true end = true <->
               (forall m, memory r = Some m -> exists q, mem_denotes m q)).
  { destruct (memory r) as [m|].
    - split.
      + intros H m' E; inversion E; subst m'. destruct (sp_mem_size m) as [q|] eqn:Eq; [|discriminate].
        exists q. now apply sp_mem_size_iff.
      + intros H. destruct (H m eq_refl) as [q Hq]. apply sp_mem_size_iff in Hq. now rewrite Hq.
    - split; [discriminate|reflexivity]. }
  assert (Ht : match time r with Some t => set_b (sp_time_secs t) | None => true end = true <->
               (forall t, time r = Some t -> exists n, time_denotes t n)).
  { destruct (time r) as [t|].
    - split.
      + intros H t' E; inversion E; subst t'. destruct (sp_time_secs t) as [q|] eqn:Eq; [|discriminate].
        exists q. now apply sp_time_secs_iff.
      + intros H. destruct (H t eq_refl) as [q Hq]. apply sp_time_secs_iff in Hq. now rewrite Hq.
    - split; [discriminate|reflexivity]. }
  rewrite Hm, Ht, negb_true_iff, andb_false_iff, orb_true_iff, negb_true_iff, !set_b_false, !set_b_iff.
  split.
  - intros (((((((H1 & H2) & H3) & H4) & H5) & H6) & H7) & H8). repeat split; auto.
    + intros [Hn Hc]. destruct H7; contradiction.
    + intros Hc. destruct H8 as [H8|H8]; [contradiction|exact H8].
  - intros (H1 & H2 & H3 & H4 & H5 & H6 & H7 & H8). repeat split; auto.
    + destruct (nodes r); [|left; reflexivity]. destruct (cpus r); [|right; reflexivity].
      exfalso. apply H7. split; discriminate.
    + destruct (cpus_per_node r); [|left; reflexivity]. right. apply H8. discriminate.
Qed.

(* bad_rejected: the constructor accepts exactly the valid values, stores them unchanged,
   and every rejection is a ValueError *)
Lemma post_init_ok_iff a : (exists r, post_init a = Ok r) <-> valid_res a.
Proof.
  rewrite post_init_sp, <- sp_valid_iff. destruct (sp_valid a); split; eauto; try discriminate.
  intros [r H]; discriminate.
Qed.
Lemma post_init_valid a : valid_res a -> post_init a = Ok a.
Proof. intros H. apply sp_valid_iff in H. now rewrite post_init_sp, H. Qed.
Lemma post_init_invalid a : ~ valid_res a -> post_init a = Err ValueError.
Proof.
  intros H. rewrite post_init_sp. destruct (sp_valid a) eqn:E; [|reflexivity].
  apply sp_valid_iff in E. contradiction.
Qed.
Lemma post_init_ok_same a r : post_init a = Ok r -> r = a /\ valid_res a.
Proof.
  rewrite post_init_sp. destruct (sp_valid a) eqn:E; [|discriminate]. intros H; inversion H; subst.
  split; [reflexivity|exact (proj1 (sp_valid_iff _) E)].
Qed.

(* ---------------------------------------------------------------- combine_max *)
Definition wf_mem_opt (o : option str) : Prop := forall m, o = Some m -> exists q, mem_denotes m q.
Definition wf_time_opt (o : option str) : Prop := forall t, o = Some t -> exists n, time_denotes t n.

Lemma le_oz_refl a : le_oz a a.
Proof. destruct a; cbn; [lia|exact I]. Qed.
Lemma le_oz_trans a b c : le_oz a b -> le_oz b c -> le_oz a c.
Proof. destruct a, b, c; cbn; try tauto; lia. Qed.

Lemma size_le_refl a : wf_mem_opt a -> size_le a a.
Proof.
  intros H. destruct a as [m|]; cbn; [|exact I]. destruct (H m eq_refl) as [q Hq].
  exists q. split; [exact Hq|]. exists q. split; [exact Hq|apply Qle_refl].
Qed.
Lemma size_le_trans a b c : size_le a b -> size_le b c -> size_le a c.
Proof.
  destruct a as [m|]; cbn; [|tauto]. intros (q & Hq & Hb). destruct b as [m'|]; [|contradiction].
  destruct Hb as (q' & Hq' & Hle). cbn. intros (q'' & Hq'' & Hc).
  pose proof (mem_denotes_fun _ _ _ Hq' Hq''). subst q''.
  exists q. split; [exact Hq|]. destruct c as [m''|]; [|contradiction].
  destruct Hc as (q3 & Hq3 & Hle'). exists q3. split; [exact Hq3|]. eapply Qle_trans; eassumption.
Qed.

Lemma dur_le_refl a : wf_time_opt a -> dur_le a a.
Proof.
  intros H. destruct a as [t|]; cbn; [|exact I]. destruct (H t eq_refl) as [n Hn].
  exists n. split; [exact Hn|]. exists n. split; [exact Hn|lia].
Qed.
Lemma dur_le_trans a b c : dur_le a b -> dur_le b c -> dur_le a c.
Proof.
  destruct a as [t|]; cbn; [|tauto]. intros (n & Hn & Hb). destruct b as [t'|]; [|contradiction].
  destruct Hb as (n' & Hn' & Hle). cbn. intros (n'' & Hn'' & Hc).
  pose proof (time_denotes_fun _ _ _ Hn' Hn''). subst n''.
  exists n. split; [exact Hn|]. destruct c as [t''|]; [|contradiction].
  destruct Hc as (n3 & Hn3 & Hle'). exists n3. split; [exact Hn3|lia].
Qed.

Lemma max_opt_z_bounds cur new :
  le_oz cur (max_opt_z cur new) /\ le_oz new (max_opt_z cur new).
Proof. destruct cur, new; cbn; repeat split; try lia; exact I. Qed.
Lemma max_opt_z_pos cur new : pos_opt cur -> pos_opt new -> pos_opt (max_opt_z cur new).
Proof. destruct cur, new; cbn; try tauto; lia. Qed.
Lemma max_opt_z_nonneg cur new : nonneg_opt cur -> nonneg_opt new -> nonneg_opt (max_opt_z cur new).
Proof. destruct cur, new; cbn; try tauto; lia. Qed.

Lemma max_mem_step_ok cur new : wf_mem_opt cur -> wf_mem_opt new ->
  exists res, max_mem_step cur new = Ok res /\ wf_mem_opt res /\ size_le cur res /\ size_le new res.
Proof.
  intros Hc Hn. unfold max_mem_step. destruct new as [m|].
  - destruct (Hn m eq_refl) as [q Hq]. pose proof (denotes_mem_bytes _ _ Hq) as Eq.
    destruct cur as [mm|].
    + destruct (Hc mm eq_refl) as [qm Hqm]. pose proof (denotes_mem_bytes _ _ Hqm) as Eqm.
      rewrite Eqm. cbn [bind]. rewrite Eq. cbn [is_some negb orb].
      destruct (Qle_bool q qm) eqn:Ele; cbn [negb].
      * exists (Some mm). split; [reflexivity|]. split; [exact Hc|]. split; [now apply size_le_refl|].
        cbn. exists q. split; [exact Hq|]. exists qm. split; [exact Hqm|now apply Qle_bool_iff].
      * exists (Some m). split; [reflexivity|]. split; [exact Hn|]. split; [|now apply size_le_refl].
        cbn. exists qm. split; [exact Hqm|]. exists q. split; [exact Hq|].
        apply Qlt_le_weak, Qnot_le_lt. intros Hle. apply Qle_bool_iff in Hle. congruence.
    + cbn [bind]. rewrite Eq. cbn [is_some negb orb].
      exists (Some m). split; [reflexivity|]. split; [exact Hn|]. split; [exact I|now apply size_le_refl].
  - exists cur. split; [reflexivity|]. split; [exact Hc|]. split; [now apply size_le_refl|exact I].
Qed.

Lemma max_time_step_ok cur new : wf_time_opt cur -> wf_time_opt new ->
  exists res, max_time_step cur new = Ok res /\ wf_time_opt res /\ dur_le cur res /\ dur_le new res.
Proof.
  intros Hc Hn. unfold max_time_step. destruct new as [x|].
  - destruct (Hn x eq_refl) as [nx Hx]. destruct cur as [c|].
    + destruct (Hc c eq_refl) as [nc Hcc]. unfold max_time.
      rewrite (denotes_time_secs _ _ Hcc), (denotes_time_secs _ _ Hx). cbn [bind].
      destruct (nc <? nx)%Z eqn:E.
      * apply Z.ltb_lt in E. exists (Some x). split; [reflexivity|]. split; [exact Hn|].
        split; [|now apply dur_le_refl]. cbn. exists nc. split; [exact Hcc|]. exists nx. split; [exact Hx|lia].
      * apply Z.ltb_ge in E. exists (Some c). split; [reflexivity|]. split; [exact Hc|].
        split; [now apply dur_le_refl|]. cbn. exists nx. split; [exact Hx|]. exists nc. split; [exact Hcc|lia].
    + exists (Some x). split; [reflexivity|]. split; [exact Hn|]. split; [exact I|now apply dur_le_refl].
  - exists cur. split; [reflexivity|]. split; [exact Hc|]. split; [now apply dur_le_refl|exact I].
Qed.

(* invariant of the loop in combine_max: the running maximum is well-formed and bounds every operand seen so far *)
Definition md_bounds (md : maxdata) (r : res) : Prop :=
  le_oz (cpus r) (m_cpus md) /\ le_oz (gpus r) (m_gpus md)
  /\ size_le (memory r) (m_memory md) /\ dur_le (time r) (m_time md).
Definition md_inv (md : maxdata) (seen : list res) : Prop :=
  pos_opt (m_cpus md) /\ nonneg_opt (m_gpus md) /\ wf_mem_opt (m_memory md) /\ wf_time_opt (m_time md)
  /\ forall r, In r seen -> md_bounds md r.

Lemma valid_res_parts r : valid_res r ->
  pos_opt (cpus r) /\ nonneg_opt (gpus r) /\ wf_mem_opt (memory r) /\ wf_time_opt (time r).
Proof. intros (H1 & H2 & _ & _ & H5 & H6 & _). auto. Qed.

Lemma combine_step_inv md seen r : md_inv md seen -> valid_res r ->
  exists md', combine_step (Ok md) r = Ok md' /\ md_inv md' (r :: seen).
Proof.
  intros (Ic & Ig & Im & It & Ib) Hv. apply valid_res_parts in Hv as (Vc & Vg & Vm & Vt).
  unfold combine_step. cbn [bind].
  destruct (max_mem_step_ok _ _ Im Vm) as (mem & Em & Wm & Lm1 & Lm2).
  destruct (max_time_step_ok _ _ It Vt) as (tt & Et & Wt & Lt1 & Lt2).
  rewrite Em. cbn [bind]. rewrite Et. cbn [bind]. eexists. split; [reflexivity|].
  destruct (max_opt_z_bounds (m_cpus md) (cpus r)) as [Bc1 Bc2].
  destruct (max_opt_z_bounds (m_gpus md) (gpus r)) as [Bg1 Bg2].
  unfold md_inv, md_bounds. cbn [m_cpus m_gpus m_memory m_time].
  split; [now apply max_opt_z_pos|]. split; [now apply max_opt_z_nonneg|].
  split; [exact Wm|]. split; [exact Wt|].
  intros r' [<-|Hin].
  - auto.
  - destruct (Ib r' Hin) as (B1 & B2 & B3 & B4).
    split; [eapply le_oz_trans; eassumption|]. split; [eapply le_oz_trans; eassumption|].
    split; [eapply size_le_trans; eassumption|eapply dur_le_trans; eassumption].
Qed.

Lemma combine_fold_inv rs : forall md seen, md_inv md seen -> Forall valid_res rs ->
  exists md', fold_left combine_step rs (Ok md) = Ok md' /\ md_inv md' (rev rs ++ seen).
Proof.
  induction rs as [|r rs IH]; intros md seen Hi Hv.
  - exists md. split; [reflexivity|exact Hi].
  - inversion Hv as [|? ? Hr Hrs]; subst. cbn [fold_left].
    destruct (combine_step_inv md seen r Hi Hr) as (md1 & E1 & I1). rewrite E1.
    destruct (IH md1 (r :: seen) I1 Hrs) as (md2 & E2 & I2). exists md2. split; [exact E2|].
    cbn [rev]. rewrite <- app_assoc. exact I2.
Qed.

Lemma valid_default : valid_res default_res.
Proof. apply sp_valid_iff. reflexivity. Qed.

Lemma combine_max_upper_bound rs : Forall valid_res rs ->
  exists res, combine_max rs = (Ok res, rs) /\ valid_res res /\ forall r, In r rs -> dominates res r.
Proof.
  intros Hv. unfold combine_max. destruct rs as [|r0 rs0].
  - exists default_res. split; [now rewrite (post_init_valid _ valid_default)|].
    split; [exact valid_default|]. intros r [].
  - set (rs := r0 :: rs0) in *.
    assert (I0 : md_inv (mkM None None None None None []) []).
    { unfold md_inv; cbn [m_cpus m_gpus m_memory m_time pos_opt nonneg_opt].
      split; [exact I|]. split; [exact I|]. split; [intros m H; discriminate|].
      split; [intros t H; discriminate|]. intros r []. }
    destruct (combine_fold_inv rs _ _ I0 Hv) as (md & E & (Ic & Ig & Im & It & Ib)). rewrite E.
    set (res := mkR (m_cpus md) None None (m_memory md) (m_gpus md) (m_time md) (m_partition md)
                    (m_extra md) (s "external")).
    assert (Vres : valid_res res).
    { unfold valid_res, res. cbn [cpus gpus nodes cpus_per_node memory time pos_opt].
      split; [exact Ic|]. split; [exact Ig|]. split; [exact I|]. split; [exact I|].
      split; [exact Im|]. split; [exact It|]. split; [intros [H _]; now apply H|intros H; now elim H]. }
    exists res. rewrite (post_init_valid _ Vres). split; [reflexivity|]. split; [exact Vres|].
    intros r Hin. apply Ib. rewrite app_nil_r. now apply in_rev in Hin.
Qed.

(* never an error, the result is a valid Resources value, the operands are returned untouched *)
Lemma combine_max_operands rs : snd (combine_max rs) = rs.
Proof.
  unfold combine_max. destruct rs as [|r rs]; [reflexivity|].
  destruct (fold_left combine_step (r :: rs) _); reflexivity.
Qed.

(* ---------------------------------------------------------------- no mutation *)
Definition ust_inv (e0 : xdict) (st : result ustate) : Prop :=
  match st with Ok u => u_shared u = false /\ u_recv u = e0 | Err _ => True end.

Lemma update_step_inv e0 st kv : ust_inv e0 st -> ust_inv e0 (update_step st kv).
Proof.
  destruct st as [u|e]; [|intros _; exact I]. intros [Hs Hr]. destruct kv as [k v].
  unfold update_step. cbn [bind].
  destruct (field_of_key k) as [f|].
  - destruct f;
      try (destruct (set_field _ v (u_data u)); cbn; [split; assumption|exact I]).
    destruct v; cbn; try exact I. split; [reflexivity|assumption].
  - destruct v; cbn; try exact I; rewrite Hs; (split; [reflexivity|assumption]).
Qed.

Lemma update_fold_inv e0 kw : forall st, ust_inv e0 st -> ust_inv e0 (fold_left update_step kw st).
Proof.
  induction kw as [|kv kw IH]; intros st H; cbn [fold_left]; [exact H|].
  apply IH. now apply update_step_inv.
Qed.

Lemma set_extra_same r : set_extra r (extra_args r) = r.
Proof. destruct r; reflexivity. Qed.

(* update leaves its receiver unchanged and the result does not share the receiver's extra_args dict *)
Lemma update_no_mutation r kw : snd (fst (update r kw)) = r /\ snd (update r kw) = false.
Proof.
  unfold update, update_gen.
  pose proof (update_fold_inv (extra_args r) kw (Ok (mkU r (extra_args r) false)) (conj eq_refl eq_refl)) as H.
  destruct (fold_left update_step kw _) as [u|e]; [|split; reflexivity].
  destruct H as [Hs Hr]. rewrite Hr, Hs, set_extra_same.
  destruct (post_init (u_data u)); split; reflexivity.
Qed.

(* the code before the fix: r.update(foo=1) wrote into r.extra_args and shared the dict with its result *)
Lemma update_prefix_mutates :
  exists r kw, valid_res r /\ snd (fst (update_prefix r kw)) <> r /\ snd (update_prefix r kw) = true.
Proof.
  exists (mkR (Some 1%Z) None None None None None None [] (s "external")), [(s "foo", UInt 1%Z)].
  split; [apply sp_valid_iff; reflexivity|]. split; [vm_compute; discriminate|reflexivity].
Qed.

Lemma with_defaults_no_mutation r d :
  snd (fst (fst (with_defaults r d))) = r /\ snd (fst (with_defaults r d)) = d.
Proof. destruct d; split; reflexivity. Qed.

Lemma maybe_with_defaults_no_mutation r d :
  snd (fst (fst (maybe_with_defaults r d))) = r /\ snd (fst (maybe_with_defaults r d)) = d.
Proof. destruct r, d; split; reflexivity. Qed.

(* ---------------------------------------------------------------- keyword dictionaries: dict, from_dict, with_defaults *)
(* the value of field f seen as a keyword value *)
Definition getf (f : fld) (r : res) : uval :=
  match f with
  | Fcpus => match cpus r with Some z => UInt z | None => UNone end
  | Fcpn => match cpus_per_node r with Some z => UInt z | None => UNone end
  | Fnodes => match nodes r with Some z => UInt z | None => UNone end
  | Fmemory => match memory r with Some x => UStr x | None => UNone end
  | Fgpus => match gpus r with Some z => UInt z | None => UNone end
  | Ftime => match time r with Some x => UStr x | None => UNone end
  | Fpartition => match partition r with Some x => UStr x | None => UNone end
  | Fextra => UDict (extra_args r)
  | Fmode => UStr (mode r)
  end.

Lemma res_ext a b : (forall f, getf f a = getf f b) -> a = b.
Proof.
  intros H. destruct a as [c cn n m g t p e md], b as [c' cn' n' m' g' t' p' e' md'].
  pose proof (H Fcpus) as H1. pose proof (H Fcpn) as H2. pose proof (H Fnodes) as H3.
  pose proof (H Fmemory) as H4. pose proof (H Fgpus) as H5. pose proof (H Ftime) as H6.
  pose proof (H Fpartition) as H7. pose proof (H Fextra) as H8. pose proof (H Fmode) as H9.
  cbn in *.
  assert (c = c') by (destruct c, c'; congruence). assert (cn = cn') by (destruct cn, cn'; congruence).
  assert (n = n') by (destruct n, n'; congruence). assert (m = m') by (destruct m, m'; congruence).
  assert (g = g') by (destruct g, g'; congruence). assert (t = t') by (destruct t, t'; congruence).
  assert (p = p') by (destruct p, p'; congruence). congruence.
Qed.

Lemma set_field_get f v r r' : set_field f v r = Some r' ->
  getf f r' = v /\ forall f', f' <> f -> getf f' r' = getf f' r.
Proof.
  destruct r as [c cn n m g t p e md].
  destruct f, v; cbn; intros H; inversion H; subst; (split; [reflexivity|]);
    intros f' Hf; destruct f'; try reflexivity; contradiction.
Qed.

Lemma fld_key_inj a b : str_eqb (fld_key a) (fld_key b) = true -> a = b.
Proof. destruct a, b; intros H; try reflexivity; vm_compute in H; discriminate. Qed.

Lemma field_of_key_fld f : field_of_key (fld_key f) = Some f.
Proof. destruct f; reflexivity. Qed.

Lemma field_of_key_inv k f : field_of_key k = Some f -> k = fld_key f.
Proof.
  unfold field_of_key. intros H. apply find_some in H as [_ H]. now apply str_eqb_eq in H.
Qed.

(* the last binding of field f in a keyword list *)
Fixpoint ulook (d : udict) (f : fld) : option uval :=
  match d with
  | [] => None
  | (k, v) :: t =>
      match ulook t f with
      | Some x => Some x
      | None => if str_eqb k (fld_key f) then Some v else None
      end
  end.

Lemma assign_get d : forall r r', assign d r = Ok r' ->
  forall f, getf f r' = match ulook d f with Some v => v | None => getf f r end.
Proof.
  induction d as [|[k v] t IH]; intros r r' H f; cbn [assign] in H.
  - inversion H; reflexivity.
  - destruct (field_of_key k) as [f0|] eqn:Ek; [|discriminate].
    apply field_of_key_inv in Ek. subst k.
    destruct (set_field f0 v r) as [r1|] eqn:Es; [|discriminate].
    apply set_field_get in Es as [Eg Eo].
    rewrite (IH r1 r' H f). cbn [ulook]. destruct (ulook t f) as [x|]; [reflexivity|].
    destruct (str_eqb (fld_key f0) (fld_key f)) eqn:E.
    + apply fld_key_inj in E. subst f0. exact Eg.
    + apply Eo. intros ->. now rewrite str_eqb_refl in E.
Qed.

Definition typed (f : fld) (v : uval) : Prop := forall r, exists r', set_field f v r = Some r'.
Definition entries_typed (d : udict) : Prop :=
  forall k v, In (k, v) d -> exists f, k = fld_key f /\ typed f v.

Lemma assign_ok d : entries_typed d -> forall r, exists r', assign d r = Ok r'.
Proof.
  induction d as [|[k v] t IH]; intros H r; cbn [assign].
  - eauto.
  - destruct (H k v (or_introl eq_refl)) as (f & -> & Ht). rewrite field_of_key_fld.
    destruct (Ht r) as [r1 ->]. apply IH. intros k' v' Hin. apply H. now right.
Qed.

Lemma keys_known d : entries_typed d -> forallb (fun kv => is_some (field_of_key (fst kv))) d = true.
Proof.
  intros H. apply forallb_forall. intros [k v] Hin. destruct (H k v Hin) as (f & -> & _).
  cbn [fst]. now rewrite field_of_key_fld.
Qed.

Lemma typed_getf f r : typed f (getf f r).
Proof.
  intros [c cn n m g t p e md]. destruct r as [c' cn' n' m' g' t' p' e' md'].
  destruct f; cbn; try (eexists; reflexivity).
  - destruct c'; eexists; reflexivity.
  - destruct cn'; eexists; reflexivity.
  - destruct n'; eexists; reflexivity.
  - destruct m'; eexists; reflexivity.
  - destruct g'; eexists; reflexivity.
  - destruct t'; eexists; reflexivity.
  - destruct p'; eexists; reflexivity.
Qed.

Lemma in_oz k o x : In x (oz k o) -> exists z, o = Some z /\ x = (k, UInt z).
Proof. destruct o; cbn; [intros [<-|[]]; eauto|intros []]. Qed.
Lemma in_os k o x : In x (os k o) -> exists z, o = Some z /\ x = (k, UStr z).
Proof. destruct o; cbn; [intros [<-|[]]; eauto|intros []]. Qed.

Lemma in_to_dict k v r : In (k, v) (to_dict r) -> exists f, k = fld_key f /\ v = getf f r.
Proof.
  unfold to_dict. rewrite !in_app_iff.
  intros [H|[H|[H|[H|[H|[H|[H|H]]]]]]].
  - apply in_oz in H as (z & E & H). inversion H. exists Fcpus. cbn. now rewrite E.
  - apply in_oz in H as (z & E & H). inversion H. exists Fcpn. cbn. now rewrite E.
  - apply in_oz in H as (z & E & H). inversion H. exists Fnodes. cbn. now rewrite E.
  - apply in_os in H as (z & E & H). inversion H. exists Fmemory. cbn. now rewrite E.
  - apply in_oz in H as (z & E & H). inversion H. exists Fgpus. cbn. now rewrite E.
  - apply in_os in H as (z & E & H). inversion H. exists Ftime. cbn. now rewrite E.
  - apply in_os in H as (z & E & H). inversion H. exists Fpartition. cbn. now rewrite E.
  - destruct H as [H|[H|[]]]; inversion H; [exists Fextra|exists Fmode]; split; reflexivity.
Qed.

Lemma to_dict_typed r : entries_typed (to_dict r).
Proof.
  intros k v H. apply in_to_dict in H as (f & -> & ->). exists f. split; [reflexivity|apply typed_getf].
Qed.

Lemma ulook_to_dict r f :
  ulook (to_dict r) f = match getf f r with UNone => None | v => Some v end.
Proof.
  destruct r as [c cn n m g t p e md].
  destruct f; destruct c, cn, n, m, g, t, p; vm_compute; reflexivity.
Qed.

(* Resources.from_dict(r.dict()) rebuilds r *)
Lemma dict_roundtrip r : valid_res r -> from_dict (to_dict r) = Ok r.
Proof.
  intros Hv. unfold from_dict, construct. rewrite (keys_known _ (to_dict_typed r)).
  destruct (assign_ok _ (to_dict_typed r) default_res) as [r' E]. rewrite E. cbn [bind].
  assert (r' = r).
  { apply res_ext. intros f. rewrite (assign_get _ _ _ E f), ulook_to_dict.
    destruct r as [c cn n m g t p e md].
    destruct f; cbn;
      [destruct c|destruct cn|destruct n|destruct m|destruct g|destruct t|destruct p| |]; reflexivity. }
  subst r'. now apply post_init_valid.
Qed.

(* ---------------------------------------------------------------- with_defaults *)
Lemma ulook_notin d f : ~ In (fld_key f) (map fst d) -> ulook d f = None.
Proof.
  induction d as [|[k v] t IH]; cbn [ulook map fst]; intros H; [reflexivity|].
  rewrite IH by (intros Hi; apply H; right; exact Hi).
  destruct (str_eqb k (fld_key f)) eqn:E; [|reflexivity].
  apply str_eqb_eq in E. exfalso. apply H. left. exact E.
Qed.

Lemma ulook_ud_set d k v f : NoDup (map fst d) ->
  ulook (ud_set d k v) f = if str_eqb k (fld_key f) then Some v else ulook d f.
Proof.
  induction d as [|[k' v'] t IH]; intros Hn; cbn [ud_set ulook].
  - reflexivity.
  - inversion Hn as [|? ? Hk' Ht]; subst. destruct (str_eqb k k') eqn:Ekk.
    + apply str_eqb_eq in Ekk. subst k'. cbn [ulook].
      destruct (str_eqb k (fld_key f)) eqn:Ek.
      * apply str_eqb_eq in Ek. subst k. now rewrite (ulook_notin t f Hk').
      * reflexivity.
    + cbn [ulook]. rewrite (IH Ht). destruct (str_eqb k (fld_key f)) eqn:Ek; reflexivity.
Qed.

Lemma ud_set_keys d k v x : In x (map fst (ud_set d k v)) -> In x (map fst d) \/ x = k.
Proof.
  induction d as [|[k' v'] t IH]; cbn [ud_set].
  - cbn. intros [<-|[]]. now right.
  - destruct (str_eqb k k') eqn:E.
    + apply str_eqb_eq in E. subst k'. cbn. tauto.
    + cbn. intros [<-|H]; [left; now left|]. destruct (IH H) as [H'|H']; [left; now right|now right].
Qed.

Lemma ud_set_nodup d k v : NoDup (map fst d) -> NoDup (map fst (ud_set d k v)).
Proof.
  induction d as [|[k' v'] t IH]; intros Hn; cbn [ud_set].
  - cbn. constructor; [intros []|constructor].
  - inversion Hn as [|? ? Hk' Ht]; subst. destruct (str_eqb k k') eqn:E.
    + apply str_eqb_eq in E. subst k'. cbn. now constructor.
    + cbn. constructor; [|now apply IH]. intros Hi. apply ud_set_keys in Hi as [Hi|Hi]; [contradiction|].
      subst k'. now rewrite str_eqb_refl in E.
Qed.

Lemma ud_set_in d k v x : In x (ud_set d k v) -> In x d \/ x = (k, v).
Proof.
  induction d as [|[k' v'] t IH]; cbn [ud_set].
  - cbn. intros [<-|[]]. now right.
  - destruct (str_eqb k k'); cbn.
    + intros [<-|H]; [now right|left; now right].
    + intros [<-|H]; [left; now left|]. destruct (IH H) as [H'|H']; [left; now right|now right].
Qed.

Lemma ulook_ud_merge b : forall a f, NoDup (map fst a) ->
  ulook (ud_merge a b) f = match ulook b f with Some x => Some x | None => ulook a f end.
Proof.
  unfold ud_merge. induction b as [|[k v] b IH]; intros a f Hn; cbn [fold_left fst snd ulook].
  - reflexivity.
  - rewrite IH by now apply ud_set_nodup. rewrite (ulook_ud_set a k v f Hn).
    destruct (ulook b f); [reflexivity|]. destruct (str_eqb k (fld_key f)); reflexivity.
Qed.

Lemma ud_merge_typed b : forall a, entries_typed a -> entries_typed b -> entries_typed (ud_merge a b).
Proof.
  unfold ud_merge. induction b as [|[k v] b IH]; intros a Ha Hb; cbn [fold_left fst snd]; [exact Ha|].
  apply IH.
  - intros k' v' Hin. apply ud_set_in in Hin as [Hin|Hin]; [now apply Ha|].
    inversion Hin; subst. apply Hb. now left.
  - intros k' v' Hin. apply Hb. now right.
Qed.

Fixpoint nodup_str_b (l : list str) : bool :=
  match l with [] => true | x :: t => negb (mem_str x t) && nodup_str_b t end.
Lemma mem_str_in x l : mem_str x l = true <-> In x l.
Proof.
  induction l as [|y l IH]; cbn; [split; [discriminate|tauto]|].
  rewrite orb_true_iff, IH, str_eqb_eq. split; intros [H|H]; auto.
Qed.
Lemma nodup_str_b_sound l : nodup_str_b l = true -> NoDup l.
Proof.
  induction l as [|x l IH]; cbn; [constructor|]. intros H. apply andb_true_iff in H as [H1 H2].
  constructor; [|now apply IH]. intros Hi. apply mem_str_in in Hi. now rewrite Hi in H1.
Qed.

Lemma to_dict_nodup r : NoDup (map fst (to_dict r)).
Proof.
  apply nodup_str_b_sound. destruct r as [c cn n m g t p e md].
  destruct c, cn, n, m, g, t, p; vm_compute; reflexivity.
Qed.

(* r.with_defaults(d): exactly the declarative "fill the unset fields", or ValueError when that is not valid *)
Lemma with_defaults_assign r d :
  exists x, assign (ud_merge (to_dict d) (to_dict r)) default_res = Ok x /\ x = filled r d.
Proof.
  assert (Ht : entries_typed (ud_merge (to_dict d) (to_dict r)))
    by (apply ud_merge_typed; apply to_dict_typed).
  destruct (assign_ok _ Ht default_res) as [x E]. exists x. split; [exact E|].
  apply res_ext. intros f. rewrite (assign_get _ _ _ E f).
  rewrite ulook_ud_merge by apply to_dict_nodup. rewrite !ulook_to_dict.
  destruct r as [c cn n m g t p e md], d as [c' cn' n' m' g' t' p' e' md'].
  destruct f; cbn;
    [destruct c, c'|destruct cn, cn'|destruct n, n'|destruct m, m'|destruct g, g'|destruct t, t'
     |destruct p, p'| |]; reflexivity.
Qed.

Lemma with_defaults_spec r d :
  with_defaults r (Some d) =
    ((if sp_valid (filled r d) then Ok (filled r d) else Err ValueError), r, Some d, false).
Proof.
  unfold with_defaults, construct.
  rewrite (keys_known _ (ud_merge_typed _ _ (to_dict_typed d) (to_dict_typed r))).
  destruct (with_defaults_assign r d) as (x & E & ->). rewrite E. cbn [bind].
  now rewrite post_init_sp.
Qed.

Lemma with_defaults_keeps r d : valid_res r -> valid_res d ->
  (valid_res (filled r d) -> fst (fst (fst (with_defaults r (Some d)))) = Ok (filled r d))
  /\ (~ valid_res (filled r d) -> fst (fst (fst (with_defaults r (Some d)))) = Err ValueError)
  /\ with_defaults r None = (Ok r, r, None, true).
Proof.
  intros _ _. rewrite with_defaults_spec. cbn [fst]. split; [|split; [|reflexivity]].
  - intros H. apply sp_valid_iff in H. now rewrite H.
  - intros H. destruct (sp_valid (filled r d)) eqn:E; [|reflexivity]. apply sp_valid_iff in E. contradiction.
Qed.

(* what "filled" means, field by field: set on the receiver -> kept; unset -> taken from the defaults *)
Lemma filled_keeps r d :
  (forall z, cpus r = Some z -> cpus (filled r d) = Some z)
  /\ (forall z, gpus r = Some z -> gpus (filled r d) = Some z)
  /\ (forall z, nodes r = Some z -> nodes (filled r d) = Some z)
  /\ (forall z, cpus_per_node r = Some z -> cpus_per_node (filled r d) = Some z)
  /\ (forall z, memory r = Some z -> memory (filled r d) = Some z)
  /\ (forall z, time r = Some z -> time (filled r d) = Some z)
  /\ (forall z, partition r = Some z -> partition (filled r d) = Some z)
  /\ (cpus r = None -> cpus (filled r d) = cpus d) /\ (gpus r = None -> gpus (filled r d) = gpus d)
  /\ (nodes r = None -> nodes (filled r d) = nodes d)
  /\ (cpus_per_node r = None -> cpus_per_node (filled r d) = cpus_per_node d)
  /\ (memory r = None -> memory (filled r d) = memory d) /\ (time r = None -> time (filled r d) = time d)
  /\ (partition r = None -> partition (filled r d) = partition d)
  /\ extra_args (filled r d) = extra_args r /\ mode (filled r d) = mode r.
Proof.
  unfold filled, fill. cbn. repeat split; intros; try (now rewrite H); reflexivity.
Qed.

(* ---------------------------------------------------------------- to_slurm_options *)
Definition sp : ascii := " "%char.
Definition nosp (x : str) : Prop := ~ In sp x.

Lemma nosp_app a b : nosp a -> nosp b -> nosp (a ++ b).
Proof. unfold nosp. intros Ha Hb H. apply in_app_or in H as [H|H]; auto. Qed.
Lemma nosp_digits d : Forall (fun c => is_digit c = true) d -> nosp d.
Proof. apply digits_no. reflexivity. Qed.
Lemma mem_char_in c x : mem_char c x = true <-> In c x.
Proof.
  induction x as [|d x IH]; cbn; [split; [discriminate|tauto]|].
  rewrite orb_true_iff, IH, Ascii.eqb_eq. split; intros [H|H]; auto.
Qed.
Lemma nosp_b x : mem_char sp x = false -> nosp x.
Proof. intros H Hi. apply mem_char_in in Hi. congruence. Qed.

Lemma uint_str_digits u : Forall (fun c => is_digit c = true) (uint_str u).
Proof. induction u; cbn; constructor; auto. Qed.
Lemma nosp_z_str z : nosp (z_str z).
Proof.
  destruct z; cbn.
  - apply nosp_b. reflexivity.
  - apply nosp_digits, uint_str_digits.
  - intros [H|H]; [discriminate|]. revert H. apply nosp_digits, uint_str_digits.
Qed.

Lemma split_join_in toks w : In w toks -> nosp w -> In w (split_char sp (join [sp] toks)).
Proof.
  induction toks as [|x t IH]; intros Hin Hw; [destruct Hin|].
  destruct t as [|y t'].
  - destruct Hin as [->|[]]. cbn [join]. rewrite (split_char_none sp w Hw). now left.
  - change (join [sp] (x :: y :: t')) with (x ++ sp :: join [sp] (y :: t')).
    rewrite split_char_app_gen. apply in_or_app. destruct Hin as [->|Hin].
    + left. rewrite (split_char_none sp w Hw). now left.
    + right. now apply IH.
Qed.

Lemma upper_char_sp : upper_char sp = sp. Proof. reflexivity. Qed.

Lemma unit_nosp u k : unit_exp u k -> nosp u.
Proof. intros H; destruct H; apply nosp_b; reflexivity. Qed.

Lemma mem_nosp m q : mem_denotes m q -> nosp m /\ m <> [].
Proof.
  intros (d1 & d2 & u & k & Hu & [Hn1 Hd1] & Hm & _). split.
  - intros Hi. assert (Hi' : In sp (upper m)).
    { unfold upper. rewrite <- upper_char_sp. now apply in_map. }
    revert Hi'. change (nosp (upper m)).
    destruct Hm as [[_ ->]|[[_ Hd2] ->]].
    + apply nosp_app; [now apply nosp_digits|now apply (unit_nosp u k)].
    + apply nosp_app; [now apply nosp_digits|].
      change (nosp (["."%char] ++ d2 ++ u)). apply nosp_app; [apply nosp_b; reflexivity|].
      apply nosp_app; [now apply nosp_digits|now apply (unit_nosp u k)].
  - intros ->. cbn in Hm. destruct d1; [contradiction|]. destruct Hm as [[_ Hm]|[_ Hm]]; discriminate.
Qed.

Lemma dd_nosp m : dd m -> nosp m.
Proof. intros H. apply dd_all_digits in H as [_ H]. now apply nosp_digits. Qed.
Lemma colon_nosp x : nosp x -> nosp (":"%char :: x).
Proof. intros H. change (nosp ([":"%char] ++ x)). apply nosp_app; [apply nosp_b; reflexivity|exact H]. Qed.

Lemma time_nosp t n : time_denotes t n -> nosp t /\ t <> [].
Proof.
  intros [(m & ss & Hm & Hs & -> & _)|[(h & m & ss & Hh & Hm & Hs & -> & _)|(d & h & m & ss & Hd & Hh & Hm & Hs & -> & _)]].
  - split; [apply nosp_app; [now apply dd_nosp|apply colon_nosp; now apply dd_nosp]|].
    destruct Hm as (a & b & -> & _). discriminate.
  - split; [apply nosp_app; [apply nosp_digits, Hh|apply colon_nosp, nosp_app;
            [now apply dd_nosp|apply colon_nosp; now apply dd_nosp]]|].
    destruct Hh as [Hh _]. destruct h; [contradiction|discriminate].
  - split; [apply nosp_app; [apply nosp_digits, Hd|apply colon_nosp, nosp_app;
            [now apply dd_nosp|apply colon_nosp, nosp_app; [now apply dd_nosp|apply colon_nosp; now apply dd_nosp]]]|].
    destruct Hd as [Hd _]. destruct d; [contradiction|discriminate].
Qed.

Lemma truthy_of_pos z : (0 < z)%Z -> truthy_z (Some z) = true.
Proof. intros H. cbn. apply negb_true_iff, Z.eqb_neq. lia. Qed.

(* every set quantity (gpus = 0 excepted) is one of the emitted options, as a blank-free word *)
Lemma quantity_word_emitted r w : valid_res r -> gpus r <> Some 0%Z ->
  In w (quantity_words r) -> In w (slurm_tokens r) /\ nosp w.
Proof.
  intros (Vc & Vg & Vn & Vcn & Vm & Vt & _) Hg0. unfold quantity_words, slurm_tokens.
  rewrite !in_app_iff. intros [H|[H|[H|[H|[H|H]]]]].
  - destruct (cpus r) as [c|] eqn:E; [|destruct H]. destruct H as [<-|[]]. cbn in Vc.
    rewrite (truthy_of_pos c Vc). split; [left; now left|].
    apply nosp_app; [apply nosp_b; reflexivity|apply nosp_z_str].
  - destruct (gpus r) as [g|] eqn:E; [|destruct H]. destruct H as [<-|[]]. cbn in Vg.
    assert (Hg : truthy_z (Some g) = true) by (cbn; apply negb_true_iff, Z.eqb_neq; intros ->; now apply Hg0).
    rewrite Hg. split; [right; left; now left|].
    apply nosp_app; [apply nosp_b; reflexivity|apply nosp_z_str].
  - destruct (nodes r) as [n|] eqn:E; [|destruct H]. destruct H as [<-|[]]. cbn in Vn.
    rewrite (truthy_of_pos n Vn). split; [right; right; left; now left|].
    apply nosp_app; [apply nosp_b; reflexivity|apply nosp_z_str].
  - destruct (cpus_per_node r) as [n|] eqn:E; [|destruct H]. destruct H as [<-|[]]. cbn in Vcn.
    rewrite (truthy_of_pos n Vcn). split; [right; right; right; left; now left|].
    apply nosp_app; [apply nosp_b; reflexivity|apply nosp_z_str].
  - destruct (memory r) as [m|] eqn:E; [|destruct H]. destruct H as [<-|[]].
    destruct (Vm m eq_refl) as [q Hq]. apply mem_nosp in Hq as [Hs Hne].
    assert (Ht : truthy_s (Some m) = true) by (destruct m; [contradiction|reflexivity]).
    rewrite Ht. split; [do 4 right; left; now left|].
    apply nosp_app; [apply nosp_b; reflexivity|exact Hs].
  - destruct (time r) as [t|] eqn:E; [|destruct H]. destruct H as [<-|[]].
    destruct (Vt t eq_refl) as [n Hn]. apply time_nosp in Hn as [Hs Hne].
    assert (Ht : truthy_s (Some t) = true) by (destruct t; [contradiction|reflexivity]).
    rewrite Ht. split; [do 5 right; left; now left|].
    apply nosp_app; [apply nosp_b; reflexivity|exact Hs].
Qed.

Lemma slurm_mentions_all_partial r : valid_res r -> gpus r <> Some 0%Z ->
  mentions_all r (to_slurm_options r).
Proof.
  intros Hv Hg w Hw. destruct (quantity_word_emitted r w Hv Hg Hw) as [Hin Hs].
  unfold to_slurm_options. now apply split_join_in.
Qed.

(* Resources(gpus=0): gpus is set, the option string is empty *)
Lemma slurm_mentions_all_refuted :
  exists r, valid_res r /\ gpus r = Some 0%Z /\ ~ mentions_all r (to_slurm_options r).
Proof.
  exists (mkR None None None None (Some 0%Z) None None [] (s "external")).
  split; [apply sp_valid_iff; reflexivity|]. split; [reflexivity|].
  intros H. specialize (H _ (or_introl eq_refl)). vm_compute in H. destruct H as [H|[]]. discriminate.
Qed.

(* the code before the fix: string order picks the shorter duration *)
Lemma max_time_prefix_wrong :
  max_time_prefix (s "2:00:00") (s "10:00:00") = s "2:00:00"
  /\ time_denotes (s "2:00:00") 7200 /\ time_denotes (s "10:00:00") 36000.
Proof.
  split; [reflexivity|]. split; apply sp_time_secs_iff; reflexivity.
Qed.

(* ---------------------------------------------------------------- _maybe_max_resources *)
Lemma dominates_refl r : valid_res r -> dominates r r.
Proof.
  intros H. apply valid_res_parts in H as (_ & _ & Hm & Ht).
  split; [apply le_oz_refl|]. split; [apply le_oz_refl|]. split; [now apply size_le_refl|now apply dur_le_refl].
Qed.

(* resources of a NestedPipeFunc without an explicit argument: None iff no child has resources, otherwise a valid
   value at least as large as every child's; the children are untouched *)
Lemma maybe_max_upper_bound ch : Forall valid_res (somes ch) ->
  match fst (fst (maybe_max_resources ENone ch)) with
  | None => somes ch = []
  | Some x => exists res, x = Ok res /\ valid_res res /\ forall c, In c (somes ch) -> dominates res c
  end
  /\ snd (fst (maybe_max_resources ENone ch)) = ch.
Proof.
  intros Vs. unfold maybe_max_resources. destruct (somes ch) as [|c [|c2 l]] eqn:Es; cbn [fst snd].
  - split; reflexivity.
  - split; [|reflexivity]. inversion Vs as [|? ? Vc _]; subst. exists c. split; [reflexivity|].
    split; [exact Vc|]. intros c' [<-|[]]. now apply dominates_refl.
  - split; [|reflexivity]. destruct (combine_max_upper_bound _ Vs) as (res & Ec & Vres & Hd).
    rewrite Ec. cbn [fst]. exists res. auto.
Qed.

(* outside the property text (which lists cpus, gpus, memory and wall time): combine_max does not carry nodes and
   cpus_per_node (nor parallelization_mode) into its result *)
Lemma combine_max_drops_nodes :
  exists r, valid_res r /\ nodes r = Some 2%Z /\ cpus_per_node r = Some 4%Z
            /\ exists res, fst (combine_max [r; r]) = Ok res /\ nodes res = None /\ cpus_per_node res = None.
Proof.
  exists (mkR None (Some 4%Z) (Some 2%Z) None None None None [] (s "external")).
  split; [apply sp_valid_iff; reflexivity|]. split; [reflexivity|]. split; [reflexivity|].
  eexists. split; [vm_compute; reflexivity|]. split; reflexivity.
Qed.
