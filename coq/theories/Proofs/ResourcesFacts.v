(* Proofs about Model/Resources.v (C20). *)
From Coq Require Import QArith Qreduction.
From Verif Require Import Base.Prelude Base.StrUtil Model.Resources Model.ResourcesSpec.
Local Close Scope Q_scope.
