(* C20, operation sequences on shared Resources objects (Model/ResourcesSeq.v):
   - no modelled operation changes an object that already exists (step_preserves_objects);
   - every object of the heap stays a valid Resources value with a proper extra_args dict;
   - the executable statement for sequences (Corr/Run_C20.v: steps_ok) holds of the model's observation;
   - spec_ok_run_partial / spec_ok_run_refuted for the whole case type. *)
From Coq Require Import QArith Qreduction.
From Verif Require Import Base.Prelude Base.StrUtil Model.Resources Model.ResourcesSpec Model.ResourcesSeq
  Proofs.ResourcesFacts Corr.Run_C20 Proofs.ResourcesCorrFacts.
Local Close Scope Q_scope.

(* ---------------------------------------------------------------- the heap only grows *)
Lemma set_nth_same {A} (l : list A) : forall i x, nth_error l i = Some x -> set_nth i x l = l.
Proof.
  induction l as [|y l IH]; intros [|i] x H; cbn in *; try discriminate.
  - now inversion H.
  - now rewrite IH.
Qed.

Lemma write_back_same h ids : forall rs, get_all h ids = Some rs -> write_back h ids rs = h.
Proof.
  induction ids as [|i ids IH]; intros rs H; cbn in H.
  - inversion H. reflexivity.
  - destruct (nth_error h i) as [r|] eqn:Ei; [|discriminate].
    destruct (get_all h ids) as [rs'|] eqn:Er; [|discriminate]. inversion H; subst.
    cbn [write_back]. rewrite (set_nth_same h i r Ei). now apply IH.
Qed.

Lemma finish_extends x h out h' : finish x h = (out, h') -> exists l, h' = h ++ l.
Proof.
  unfold finish. destruct x; intros H; inversion H; subst; [eexists; reflexivity|exists []; now rewrite app_nil_r].
Qed.

(* every operation leaves the existing objects exactly as they were: the heap after the step is the heap before
   it plus the objects the step created.  (The operand states returned by update / combine_max / with_defaults
   are written back into the heap by [step]; they are the states before the call.) *)
Lemma step_extends h op out h' : step h op = (out, h') -> exists l, h' = h ++ l.
Proof.
  destruct op as [a|i kw|ids|i j|i|i|i|i j]; cbn [step].
  - apply finish_extends.
  - destruct (nth_error h i) as [r|] eqn:Ei; [|intros H; inversion H; exists []; now rewrite app_nil_r].
    pose proof (update_no_mutation r kw) as [Hr _]. destruct (update r kw) as [[x r'] sh]. cbn [fst snd] in Hr.
    subst r'. rewrite (set_nth_same h i r Ei). apply finish_extends.
  - destruct (get_all h ids) as [rs|] eqn:Eg; [|intros H; inversion H; exists []; now rewrite app_nil_r].
    pose proof (combine_max_operands rs) as Hr. destruct (combine_max rs) as [x rs']. cbn [snd] in Hr. subst rs'.
    rewrite (write_back_same h ids rs Eg). apply finish_extends.
  - destruct (nth_error h i) as [r|] eqn:Ei; [|intros H; inversion H; exists []; now rewrite app_nil_r].
    destruct j as [jj|].
    + destruct (nth_error h jj) as [d|] eqn:Ej; cbn [option_map];
        [|intros H; inversion H; exists []; now rewrite app_nil_r].
      pose proof (with_defaults_no_mutation r (Some d)) as [Hr Hd].
      destruct (with_defaults r (Some d)) as [[[x r'] d'] same]. cbn [fst snd] in Hr, Hd. subst r' d'.
      rewrite (set_nth_same h i r Ei), (set_nth_same h jj d Ej).
      destruct same; [|apply finish_extends]. intros H; inversion H; exists []; now rewrite app_nil_r.
    + pose proof (with_defaults_no_mutation r None) as [Hr Hd].
      destruct (with_defaults r None) as [[[x r'] d'] same]. cbn [fst snd] in Hr, Hd. subst r' d'.
      rewrite (set_nth_same h i r Ei).
      destruct same; [|apply finish_extends]. intros H; inversion H; exists []; now rewrite app_nil_r.
  - destruct (nth_error h i); [apply finish_extends|intros H; inversion H; exists []; now rewrite app_nil_r].
  - destruct (nth_error h i); intros H; inversion H; exists []; now rewrite app_nil_r.
  - destruct (nth_error h i); intros H; inversion H; exists []; now rewrite app_nil_r.
  - destruct (nth_error h i), (nth_error h j); intros H; inversion H; exists []; now rewrite app_nil_r.
Qed.

Theorem step_preserves_objects h op out h' : step h op = (out, h') ->
  forall k o, nth_error h k = Some o -> nth_error h' k = Some o.
Proof.
  intros H k o Hk. destruct (step_extends h op out h' H) as [l ->].
  rewrite nth_error_app1; [exact Hk|]. apply nth_error_Some. congruence.
Qed.

(* the same for a whole sequence *)
Fixpoint run_heap (h : heap) (ops : list rop) : heap :=
  match ops with [] => h | o :: t => run_heap (snd (step h o)) t end.
Theorem sequence_preserves_objects ops : forall h k o,
  nth_error h k = Some o -> nth_error (run_heap h ops) k = Some o.
Proof.
  induction ops as [|op ops IH]; intros h k o Hk; cbn [run_heap]; [exact Hk|].
  apply IH. destruct (step h op) as [out h'] eqn:E. cbn [snd]. exact (step_preserves_objects h op out h' E k o Hk).
Qed.

(* the code before "fix: Resources.update no longer mutates ...": the same step function over update_prefix changes
   an existing object *)
Lemma update_prefix_changes_heap :
  exists r kw, valid_res r /\ set_nth 0 (snd (fst (update_prefix r kw))) [r] <> [r].
Proof.
  exists (mkR (Some 1%Z) None None None None None None [] (s "external")), [(s "foo", UInt 1%Z)].
  split; [apply sp_valid_iff; reflexivity|vm_compute; discriminate].
Qed.

(* ---------------------------------------------------------------- objects stay proper values *)
Definition good (r : res) : Prop := valid_res r /\ nodup_keys (extra_args r) = true.

Lemma xd_set_keys d k v x : In x (map fst (xd_set d k v)) -> In x (map fst d) \/ x = k.
Proof.
  induction d as [|[k' v'] t IH]; cbn [xd_set].
  - cbn. intros [<-|[]]. now right.
  - destruct (str_eqb k k') eqn:E.
    + apply str_eqb_eq in E. subst k'. cbn. tauto.
    + cbn. intros [<-|H]; [left; now left|]. destruct (IH H) as [H'|H']; [left; now right|now right].
Qed.

Lemma nodup_keys_cons_intro {V} k (v : V) t : ~ In k (map fst t) -> nodup_keys t = true ->
  nodup_keys ((k, v) :: t) = true.
Proof.
  intros Hk Hn. cbn. rewrite Hn, andb_true_r. apply negb_true_iff.
  destruct (mem_str k (map fst t)) eqn:E; [|reflexivity]. apply mem_str_in in E. contradiction.
Qed.

Lemma xd_set_nodup d k v : nodup_keys d = true -> nodup_keys (xd_set d k v) = true.
Proof.
  induction d as [|[k' v'] t IH]; intros Hn; cbn [xd_set]; [reflexivity|].
  apply nodup_keys_cons in Hn as [Hk Hn]. destruct (str_eqb k k') eqn:E.
  - apply str_eqb_eq in E. subst k'. now apply nodup_keys_cons_intro.
  - apply nodup_keys_cons_intro; [|now apply IH]. intros Hi. apply xd_set_keys in Hi as [Hi|Hi]; [contradiction|].
    subst k'. now rewrite str_eqb_refl in E.
Qed.

Lemma xd_merge_nodup b : forall a, nodup_keys a = true -> nodup_keys (xd_merge a b) = true.
Proof.
  unfold xd_merge. induction b as [|[k v] b IH]; intros a Ha; cbn [fold_left fst snd]; [exact Ha|].
  apply IH. now apply xd_set_nodup.
Qed.

Lemma set_field_extra f v r r' : set_field f v r = Some r' -> f <> Fextra -> extra_args r' = extra_args r.
Proof.
  intros H Hf. apply set_field_get in H as [_ H]. specialize (H Fextra (fun E => Hf (eq_sym E))).
  cbn in H. now inversion H.
Qed.

Lemma set_extra_extra r e : extra_args (set_extra r e) = e.
Proof. reflexivity. Qed.

Definition ust_nodup (st : result ustate) : Prop :=
  match st with Ok u => nodup_keys (extra_args (u_data u)) = true | Err _ => True end.

Lemma update_step_nodup st kv : ust_nodup st -> ust_nodup (update_step st kv).
Proof.
  destruct st as [u|e]; [|intros _; exact I]. cbn [ust_nodup]. intros Hn. destruct kv as [k v].
  unfold update_step. cbn [bind]. destruct (field_of_key k) as [f|].
  - destruct f;
      try (destruct (set_field _ v (u_data u)) as [r'|] eqn:Es; cbn [ust_nodup u_data]; [|exact I];
           rewrite (set_field_extra _ _ _ _ Es) by discriminate; exact Hn).
    destruct v; cbn [ust_nodup u_data]; try exact I. rewrite set_extra_extra. now apply xd_merge_nodup.
  - destruct v; cbn [ust_nodup u_data]; try exact I; rewrite set_extra_extra; now apply xd_set_nodup.
Qed.

Lemma update_fold_nodup kw : forall st, ust_nodup st -> ust_nodup (fold_left update_step kw st).
Proof.
  induction kw as [|kv kw IH]; intros st H; cbn [fold_left]; [exact H|]. apply IH. now apply update_step_nodup.
Qed.

Lemma update_good r kw y : good r -> fst (fst (update r kw)) = Ok y -> good y.
Proof.
  intros [_ Hn]. unfold update, update_gen.
  pose proof (update_fold_nodup kw (Ok (mkU r (extra_args r) false)) Hn) as H.
  destruct (fold_left update_step kw _) as [u|e]; [|discriminate].
  cbn [ust_nodup] in H. destruct (post_init (u_data u)) as [x|e] eqn:Ep; cbn [fst]; [|discriminate].
  intros E; inversion E; subst x. apply post_init_ok_same in Ep as [-> Hv]. split; assumption.
Qed.

(* update() without arguments on a valid object gives an equal object *)
Lemma update_nil r : valid_res r -> update r [] = (Ok r, r, false).
Proof.
  intros Hv. unfold update, update_gen. cbn [fold_left u_data u_recv u_shared].
  now rewrite (post_init_valid r Hv), set_extra_same.
Qed.

Lemma combine_fold_err rs e : fold_left combine_step rs (Err e) = Err e.
Proof. induction rs as [|r rs IH]; cbn [fold_left]; [reflexivity|exact IH]. Qed.

Lemma add_absent_nodup l : forall d, nodup_keys d = true ->
  nodup_keys (fold_left (fun d kv => if xd_has d (fst kv) then d else xd_set d (fst kv) (snd kv)) l d) = true.
Proof.
  induction l as [|[k v] l IH]; intros d Hd; cbn [fold_left fst snd]; [exact Hd|].
  apply IH. destruct (xd_has d k); [exact Hd|now apply xd_set_nodup].
Qed.

Lemma combine_fold_nodup rs : forall md md', nodup_keys (m_extra md) = true ->
  fold_left combine_step rs (Ok md) = Ok md' -> nodup_keys (m_extra md') = true.
Proof.
  induction rs as [|r rs IH]; intros md md' Hn H; cbn [fold_left] in H.
  - inversion H; subst. exact Hn.
  - destruct (combine_step (Ok md) r) as [md1|e] eqn:E; [|now rewrite combine_fold_err in H].
    apply (IH md1 md'); [|exact H]. unfold combine_step in E. cbn [bind] in E.
    destruct (max_mem_step (m_memory md) (memory r)); [|discriminate]. cbn [bind] in E.
    destruct (max_time_step (m_time md) (time r)); [|discriminate]. cbn [bind] in E.
    inversion E; subst md1. cbn [m_extra]. now apply add_absent_nodup.
Qed.

Lemma combine_good rs y : Forall good rs -> fst (combine_max rs) = Ok y -> good y.
Proof.
  intros Hg. assert (Hv : Forall valid_res rs) by (eapply Forall_impl; [|exact Hg]; intros a [H _]; exact H).
  destruct (combine_max_upper_bound rs Hv) as (res & Ec & Vres & _). rewrite Ec. cbn [fst].
  intros E; inversion E; subst y. split; [exact Vres|].
  unfold combine_max in Ec. destruct rs as [|r0 rs0].
  - inversion Ec as [[E1]]. subst res. reflexivity.
  - destruct (fold_left combine_step (r0 :: rs0) (Ok (mkM None None None None None []))) as [md|e] eqn:Ef;
      [|inversion Ec].
    inversion Ec as [[E1]]. apply post_init_ok_same in E1 as [-> _]. cbn [extra_args].
    exact (combine_fold_nodup (r0 :: rs0) (mkM None None None None None []) md eq_refl Ef).
Qed.

Lemma get_all_good h ids rs : Forall good h -> get_all h ids = Some rs -> Forall good rs.
Proof.
  intros Hh. revert rs. induction ids as [|i ids IH]; intros rs H; cbn in H.
  - inversion H. constructor.
  - destruct (nth_error h i) as [r|] eqn:Ei; [|discriminate].
    destruct (get_all h ids) as [rs'|]; [|discriminate]. inversion H; subst. constructor; [|now apply IH].
    rewrite Forall_forall in Hh. apply Hh. eapply nth_error_In; eassumption.
Qed.

Lemma nth_good h i r : Forall good h -> nth_error h i = Some r -> good r.
Proof. intros Hh Hi. rewrite Forall_forall in Hh. apply Hh. eapply nth_error_In; eassumption. Qed.

Lemma xd_of_list_nodup_any l : nodup_keys (xd_of_list l) = true.
Proof. unfold xd_of_list. now apply xd_merge_nodup. Qed.

(* shape of one step on a heap of proper values *)
Lemma step_shape h op out h' : Forall good h -> step h op = (out, h') ->
  match out with
  | ONew => exists y, h' = h ++ [y] /\ good y
  | OExisting id => h' = h /\ id < length h /\ must_be_new op = false
  | _ => h' = h
  end.
Proof.
  intros Hh. destruct op as [a|i kw|ids|i j|i|i|i|i j]; cbn [step].
  - destruct (post_init (set_extra a (xd_of_list (extra_args a)))) as [y|e] eqn:E; cbn [finish];
      intros H; inversion H; subst; [|reflexivity].
    exists y. split; [reflexivity|]. apply post_init_ok_same in E as [-> Hv]. split; [exact Hv|].
    rewrite set_extra_extra. apply xd_of_list_nodup_any.
  - destruct (nth_error h i) as [r|] eqn:Ei; [|intros H; inversion H; reflexivity].
    pose proof (update_no_mutation r kw) as [Hr _]. pose proof (update_good r kw) as Hg.
    destruct (update r kw) as [[x r'] sh]. cbn [fst snd] in Hr, Hg. subst r'.
    rewrite (set_nth_same h i r Ei). destruct x as [y|e]; cbn [finish]; intros H; inversion H; subst; [|reflexivity].
    exists y. split; [reflexivity|]. apply Hg; [now apply (nth_good h i)|reflexivity].
  - destruct (get_all h ids) as [rs|] eqn:Eg; [|intros H; inversion H; reflexivity].
    pose proof (combine_max_operands rs) as Hr. pose proof (combine_good rs) as Hg.
    destruct (combine_max rs) as [x rs']. cbn [fst snd] in Hr, Hg. subst rs'.
    rewrite (write_back_same h ids rs Eg). destruct x as [y|e]; cbn [finish]; intros H; inversion H; subst;
      [|reflexivity].
    exists y. split; [reflexivity|]. apply Hg; [now apply (get_all_good h ids)|reflexivity].
  - destruct (nth_error h i) as [r|] eqn:Ei; [|intros H; inversion H; reflexivity].
    destruct j as [jj|].
    + destruct (nth_error h jj) as [d|] eqn:Ej; cbn [option_map]; [|intros H; inversion H; reflexivity].
      rewrite with_defaults_spec. rewrite (set_nth_same h i r Ei), (set_nth_same h jj d Ej).
      destruct (sp_valid (filled r d)) eqn:Ev; cbn [finish]; intros H; inversion H; subst; [|reflexivity].
      exists (filled r d). split; [reflexivity|]. split; [now apply sp_valid_iff|].
      cbn [filled extra_args]. now apply (nth_good h i).
    + cbn [with_defaults]. rewrite (set_nth_same h i r Ei). intros H; inversion H; subst.
      split; [reflexivity|]. split; [|reflexivity]. apply nth_error_Some. congruence.
  - destruct (nth_error h i) as [r|] eqn:Ei; [|intros H; inversion H; reflexivity].
    destruct (nth_good h i r Hh Ei) as [Hv Hn]. rewrite (dict_roundtrip r Hv). cbn [finish].
    intros H; inversion H; subst. exists r. split; [reflexivity|]. split; assumption.
  - destruct (nth_error h i); intros H; inversion H; reflexivity.
  - destruct (nth_error h i); intros H; inversion H; reflexivity.
  - destruct (nth_error h i), (nth_error h j); intros H; inversion H; reflexivity.
Qed.

Lemma step_good h op out h' : Forall good h -> step h op = (out, h') -> Forall good h'.
Proof.
  intros Hh H. pose proof (step_shape h op out h' Hh H) as S. destruct out.
  - destruct S as (y & -> & Hy). apply Forall_app. split; [exact Hh|now constructor].
  - destruct S as (-> & _). exact Hh.
  - now subst.
  - now subst.
  - now subst.
Qed.

Lemma step_returns_values h op out h' : Forall good h -> step h op = (out, h') ->
  Forall good h'
  /\ match out with
     | ONew => exists y, h' = h ++ [y]
     | OExisting id => h' = h /\ id < length h /\ must_be_new op = false
     | _ => h' = h
     end.
Proof.
  intros Hh E. split; [exact (step_good h op out h' Hh E)|].
  pose proof (step_shape h op out h' Hh E) as S. destruct out; try exact S.
  destruct S as (y & Ey & _). now exists y.
Qed.

(* ---------------------------------------------------------------- the statement for sequences *)
Lemma snap_obj_good r : good r ->
  snap_obj r = SL [sx_res r; SL (map SS var_keys); SL [SS (s "ok"); sx_res r]; SS (to_slurm_options r); SB true].
Proof.
  intros [Hv Hn]. unfold snap_obj. now rewrite (update_nil r Hv), (dict_roundtrip r Hv), (res_eqb_refl r Hn).
Qed.

Lemma self_ok_good r : good r -> self_ok (snap_obj r) = true.
Proof.
  intros Hg. rewrite (snap_obj_good r Hg). unfold self_ok. now rewrite !sx_eqb_refl.
Qed.

Lemma snap_ok_for_good r : good r -> snap_ok_for r (snap_obj r) = true.
Proof.
  intros Hg. pose proof (self_ok_good r Hg) as Hs. rewrite (snap_obj_good r Hg) in *.
  unfold snap_ok_for. rewrite Hs, andb_true_r. apply sx_res_enc_refl.
Qed.

Lemma is_ok_id_new n : is_ok_id (SL [SS (s "ok"); SN n]) = Some n.
Proof.
  unfold is_ok_id, SN. rewrite str_eqb_refl. cbn [andb].
  rewrite (proj2 (Z.leb_le 0 (Z.of_nat n)) (Zle_0_nat n)). now rewrite Nat2Z.id.
Qed.

Lemma is_ok_id_val v : is_ok_id (SL [SS (s "val"); sx_oval v]) = None.
Proof. destruct v as [d|x|b]; [destruct d| |]; reflexivity. Qed.
Lemma is_ok_id_err e : is_ok_id (SErr e) = None.
Proof. destruct e; reflexivity. Qed.

Lemma firstn_exact {A} (p q : list A) : firstn (length p) (p ++ q) = p.
Proof. induction p as [|x p IH]; cbn; [reflexivity|now rewrite IH]. Qed.
Lemma skipn_exact {A} (p q : list A) : skipn (length p) (p ++ q) = q.
Proof. induction p as [|x p IH]; cbn; [reflexivity|exact IH]. Qed.
Lemma firstn_exact0 {A} (p : list A) : firstn (length p) p = p.
Proof. rewrite <- (app_nil_r p) at 2. apply firstn_exact. Qed.

Lemma steps_ok_run ops : forall h, Forall good h ->
  steps_ok ops (map snap_obj h) (run_ops h ops) = true.
Proof.
  induction ops as [|op ops IH]; intros h Hh; cbn [run_ops steps_ok]; [reflexivity|].
  destruct (step h op) as [out h'] eqn:E. cbn [steps_ok snapshot].
  pose proof (step_shape h op out h' Hh E) as S. pose proof (step_good h op out h' Hh E) as Hh'.
  rewrite (IH h' Hh'), andb_true_r. unfold step_ok.
  assert (LP : length (map snap_obj h) = length h) by apply map_length.
  destruct out as [|id|v|e|]; cbn [sx_outcome].
  - destruct S as (y & -> & Hy). rewrite map_app, firstn_exact, skipn_exact, list_sx_eqb_refl. cbn [andb map].
    rewrite is_ok_id_new, LP, Nat.eqb_refl. now apply self_ok_good.
  - destruct S as (-> & Hid & Hnew). rewrite firstn_exact0, list_sx_eqb_refl. cbn [andb].
    rewrite is_ok_id_new, LP.
    assert (Hne : (id =? length h)%nat = false) by (apply Nat.eqb_neq; lia). rewrite Hne, Hnew.
    rewrite (proj2 (Nat.ltb_lt _ _) Hid), Nat.eqb_refl. reflexivity.
  - subst h'. rewrite firstn_exact0, list_sx_eqb_refl. cbn [andb]. rewrite is_ok_id_val. apply Nat.eqb_refl.
  - subst h'. rewrite firstn_exact0, list_sx_eqb_refl. cbn [andb]. rewrite is_ok_id_err. apply Nat.eqb_refl.
  - subst h'. rewrite firstn_exact0, list_sx_eqb_refl. cbn [andb is_ok_id]. apply Nat.eqb_refl.
Qed.

Lemma base_good base : forallb operand_ok base = true -> Forall good base.
Proof.
  intros H. apply Forall_forall. intros a Ha. rewrite forallb_forall in H. specialize (H a Ha).
  unfold operand_ok in H. apply andb_true_iff in H as [Hv Hn]. split; [now apply sp_valid_iff|exact Hn].
Qed.

Lemma snap0_ok base : Forall good base -> forallb2' snap_ok_for base (map snap_obj base) = true.
Proof.
  induction 1 as [|a l Ha _ IH]; cbn [map forallb2']; [reflexivity|]. now rewrite (snap_ok_for_good a Ha), IH.
Qed.

Lemma spec_seq base ops : spec_ok (CSeq base ops) (run (CSeq base ops)) = true.
Proof.
  unfold spec_ok, run, run_seq. destruct (forallb operand_ok base) eqn:H; cbn [negb]; [|reflexivity].
  destruct (mk_operands base H) as [E _]. rewrite E. pose proof (base_good base H) as Hg. cbn [snapshot].
  now rewrite (snap0_ok base Hg), (steps_ok_run ops base Hg).
Qed.

(* the executable statement holds of the model's observation for every case outside the known finding *)
Theorem spec_ok_run_partial c : known_region c = false -> spec_ok c (run c) = true.
Proof.
  destruct c; intros Hk.
  - apply spec_new.
  - apply spec_combine.
  - apply spec_update.
  - apply spec_with_defaults.
  - apply spec_maybe.
  - apply spec_dict.
  - apply spec_from_dict.
  - now apply spec_slurm.
  - apply spec_maybe_max.
  - apply spec_seq.
Qed.

Theorem spec_ok_run_refuted : exists c, known_region c = true /\ spec_ok c (run c) = false.
Proof.
  exists (CSlurm (mkR None None None None (Some 0%Z) None None [] (s "external"))).
  split; vm_compute; reflexivity.
Qed.
