(* Proofs about Model/Rewrite.v (C10): renaming / scoping, irrelevant functions (join, split), copies. *)
From Coq Require Import Permutation.
From Verif Require Import Base.Prelude Base.StrOrd Base.StrUtil Base.Graph Model.Pipe Model.Rewrite Proofs.GraphFacts.

(* ------------------------------------------------------------------ generalities *)
Lemma mapM_ext_map {A A' B} (f : A -> result B) (g : A' -> result B) (h : A -> A') l :
  (forall x, In x l -> f x = g (h x)) -> mapM f l = mapM g (map h l).
Proof.
  induction l as [|x l IH]; intros H; cbn; [reflexivity|].
  rewrite <- H by (left; reflexivity). destruct (f x); cbn; [|reflexivity].
  rewrite IH by (intros y Hy; apply H; right; exact Hy). reflexivity.
Qed.

Lemma mapM_ext {A B} (f g : A -> result B) l :
  (forall x, In x l -> f x = g x) -> mapM f l = mapM g l.
Proof.
  intros H. rewrite <- (map_id l) at 2. apply mapM_ext_map. exact H.
Qed.

(* ------------------------------------------------------------------ renaming *)
(* r is one-to-one on the names N *)
Definition inj_on (r : alist) (N : list str) : Prop :=
  forall a b, In a N -> In b N -> app_ren r a = app_ren r b -> a = b.

Lemma inj_on_incl r N M : inj_on r N -> incl M N -> inj_on r M.
Proof. intros H HI a b Ha Hb. apply H; apply HI; assumption. Qed.

Lemma inj_on_bool r N : injective_on r N = true -> inj_on r N.
Proof.
  unfold injective_on. rewrite nodup_strb_NoDup. intros H.
  induction N as [|x N IH]; intros a b Ha Hb E; [destruct Ha|].
  cbn in H. inversion H as [|? ? Hx HN]; subst.
  destruct Ha as [<-|Ha], Hb as [<-|Hb]; auto.
  - exfalso. apply Hx. rewrite E. apply in_map. exact Hb.
  - exfalso. apply Hx. rewrite <- E. apply in_map. exact Ha.
  - apply IH; assumption.
Qed.

Lemma eqb_app_ren r N a b : inj_on r N -> In a N -> In b N ->
  str_eqb (app_ren r a) (app_ren r b) = str_eqb a b.
Proof.
  intros H Ha Hb. destruct (str_eqb a b) eqn:E.
  - apply str_eqb_eq in E. subst. apply str_eqb_refl.
  - apply str_eqb_neq. intros E'. apply str_eqb_neq in E. apply E. apply (H a b Ha Hb E').
Qed.

Lemma aget_ren_keys r N d k : inj_on r N -> In k N -> incl (akeys d) N ->
  aget (ren_keys r d) (app_ren r k) = aget d k.
Proof.
  intros H Hk. induction d as [|[k' v] d IH]; intros Hd; cbn; [reflexivity|].
  rewrite (eqb_app_ren r N k k' H Hk) by (apply Hd; left; reflexivity).
  destruct (str_eqb k k'); [reflexivity|]. apply IH. intros x Hx. apply Hd. right. exact Hx.
Qed.

Lemma ahas_ren_keys r N d k : inj_on r N -> In k N -> incl (akeys d) N ->
  ahas (ren_keys r d) (app_ren r k) = ahas d k.
Proof. intros. unfold ahas. erewrite aget_ren_keys; eauto. Qed.

Lemma mem_map_ren r N x l : inj_on r N -> In x N -> incl l N ->
  mem_str (app_ren r x) (map (app_ren r) l) = mem_str x l.
Proof.
  intros H Hx. induction l as [|y l IH]; intros Hl; cbn; [reflexivity|].
  rewrite (eqb_app_ren r N x y H Hx) by (apply Hl; left; reflexivity).
  rewrite IH by (intros z Hz; apply Hl; right; exact Hz). reflexivity.
Qed.

Lemma pos_map_ren r N x l : inj_on r N -> In x N -> incl l N ->
  pos_str (app_ren r x) (map (app_ren r) l) = pos_str x l.
Proof.
  intros H Hx. induction l as [|y l IH]; intros Hl; cbn; [reflexivity|].
  rewrite (eqb_app_ren r N x y H Hx) by (apply Hl; left; reflexivity).
  rewrite IH by (intros z Hz; apply Hl; right; exact Hz). reflexivity.
Qed.

(* every name a function mentions *)
Definition func_all_names (f : pfunc) : list str := pnames f ++ outs f ++ akeys (dflt f) ++ akeys (bound f).
Definition pipe_all_names (p : npipe) : list str := flat_map (fun nd => func_all_names (nf nd)) p.

Lemma in_pipe_names p nd x : In nd p -> In x (func_all_names (nf nd)) -> In x (pipe_all_names p).
Proof. intros H1 H2. unfold pipe_all_names. apply in_flat_map. exists nd. split; assumption. Qed.

Lemma outs_ren r f : outs (ren_func r f) = map (app_ren r) (outs f).
Proof. reflexivity. Qed.

Lemma find_producer_ren r N (p : npipe) o : inj_on r N -> In o N -> incl (pipe_all_names p) N ->
  nproducer (rename r p) (app_ren r o) = option_map (ren_node r) (nproducer p o).
Proof.
  intros H Ho. unfold nproducer, rename. induction p as [|nd p IH]; intros Hp; cbn; [reflexivity|].
  rewrite (mem_map_ren r N o (outs (nf nd)) H Ho).
  2:{ intros x Hx. apply Hp. cbn. apply in_or_app. left. unfold func_all_names. apply in_or_app. right.
      apply in_or_app. left. exact Hx. }
  destruct (mem_str o (outs (nf nd))); [reflexivity|].
  apply IH. intros x Hx. apply Hp. cbn. apply in_or_app. right. exact Hx.
Qed.

Lemma producer_ren r N (P : pipeline) o : inj_on r N -> In o N -> incl (flat_map func_all_names P) N ->
  producer (map (ren_func r) P) (app_ren r o) = option_map (ren_func r) (producer P o).
Proof.
  intros H Ho. unfold producer. induction P as [|f P IH]; intros Hp; cbn; [reflexivity|].
  rewrite (mem_map_ren r N o (outs f) H Ho).
  2:{ intros x Hx. apply Hp. cbn. apply in_or_app. left. unfold func_all_names. apply in_or_app. right.
      apply in_or_app. left. exact Hx. }
  destruct (mem_str o (outs f)); [reflexivity|].
  apply IH. intros x Hx. apply Hp. cbn. apply in_or_app. right. exact Hx.
Qed.

Lemma is_output_ren r N (P : pipeline) o : inj_on r N -> In o N -> incl (flat_map func_all_names P) N ->
  is_output (map (ren_func r) P) (app_ren r o) = is_output P o.
Proof.
  intros H Ho Hp. unfold is_output. rewrite (producer_ren r N P o H Ho Hp).
  destruct (producer P o); reflexivity.
Qed.

Lemma funcs_rename r p : funcs (rename r p) = map (ren_func r) (funcs p).
Proof. unfold funcs, rename. rewrite !map_map. reflexivity. Qed.

Lemma names_funcs p : flat_map func_all_names (funcs p) = pipe_all_names p.
Proof. unfold funcs, pipe_all_names. induction p as [|nd p IH]; cbn; [reflexivity|]. now rewrite IH. Qed.

(* Pipeline.defaults of the renamed pipeline = the renamed Pipeline.defaults *)
Lemma pdefaults_ren r N (P : pipeline) : inj_on r N -> incl (flat_map func_all_names P) N ->
  pdefaults (map (ren_func r) P) = ren_keys r (pdefaults P).
Proof.
  intros H Hp. unfold pdefaults.
  assert (G : forall Q, incl (flat_map func_all_names Q) N ->
    flat_map (fun f => filter (fun kv => negb (ahas (bound f) (fst kv)) && negb (is_output (map (ren_func r) P) (fst kv))) (dflt f))
             (map (ren_func r) Q)
    = ren_keys r (flat_map (fun f => filter (fun kv => negb (ahas (bound f) (fst kv)) && negb (is_output P (fst kv))) (dflt f)) Q)).
  { induction Q as [|f Q IH]; intros HQ; cbn; [reflexivity|].
    unfold ren_keys at 1. rewrite map_app. fold (ren_keys r). f_equal.
    - assert (Hf : incl (func_all_names f) N).
      { intros x Hx. apply HQ. cbn. apply in_or_app. left. exact Hx. }
      assert (Hd : incl (akeys (dflt f)) N).
      { intros x Hx. apply Hf. unfold func_all_names. apply in_or_app. right. apply in_or_app. right.
        apply in_or_app. left. exact Hx. }
      assert (Hb : incl (akeys (bound f)) N).
      { intros x Hx. apply Hf. unfold func_all_names. apply in_or_app. right. apply in_or_app. right.
        apply in_or_app. right. exact Hx. }
      clear HQ IH Hf. induction (dflt f) as [|[k v] d IHd]; cbn; [reflexivity|].
      assert (Hk : In k N) by (apply Hd; left; reflexivity).
      unfold ren_keys in *. cbn [bound ren_func mkf].
      change (map (fun kv : str * str => (app_ren r (fst kv), snd kv)) (bound f)) with (ren_keys r (bound f)).
      rewrite (ahas_ren_keys r N (bound f) k H Hk Hb).
      rewrite (is_output_ren r N P k H Hk Hp).
      destruct (negb (ahas (bound f) k) && negb (is_output P k)); cbn.
      + f_equal. apply IHd. intros x Hx. apply Hd. right. exact Hx.
      + apply IHd. intros x Hx. apply Hd. right. exact Hx.
    - apply IH. intros x Hx. apply HQ. cbn. apply in_or_app. right. exact Hx. }
  apply G. exact Hp.
Qed.

Lemma akeys_filter_incl (q : str * str -> bool) d : incl (akeys (filter q d)) (akeys d).
Proof.
  induction d as [|kv d IH]; cbn; [apply incl_refl|]. destruct (q kv); cbn.
  - intros x [Hx|Hx]; [left; exact Hx | right; apply IH; exact Hx].
  - intros x Hx. right. apply IH. exact Hx.
Qed.

Lemma akeys_flat_filter (q : pfunc -> str * str -> bool) (Q : pipeline) :
  incl (akeys (flat_map (fun f => filter (q f) (dflt f)) Q)) (flat_map func_all_names Q).
Proof.
  induction Q as [|f Q IH]; cbn; [apply incl_refl|].
  unfold akeys. rewrite map_app. intros x Hx. apply in_app_or in Hx as [Hx|Hx]; apply in_or_app.
  - left. unfold func_all_names. apply in_or_app. right. apply in_or_app. right. apply in_or_app. left.
    apply (akeys_filter_incl (q f)). exact Hx.
  - right. apply IH. exact Hx.
Qed.

Lemma akeys_pdefaults_incl (P : pipeline) : incl (akeys (pdefaults P)) (flat_map func_all_names P).
Proof.
  unfold pdefaults.
  apply (akeys_flat_filter (fun f kv => negb (ahas (bound f) (fst kv)) && negb (is_output P (fst kv)))).
Qed.

Lemma default_of_ren r N (P : pipeline) c : inj_on r N -> In c N -> incl (flat_map func_all_names P) N ->
  default_of (map (ren_func r) P) (app_ren r c) = default_of P c.
Proof.
  intros H Hc Hp. unfold default_of. rewrite (pdefaults_ren r N P H Hp).
  apply (aget_ren_keys r N); auto.
  intros x Hx. apply Hp. apply akeys_pdefaults_incl. exact Hx.
Qed.

Lemma orig_out_ren r N nd o : inj_on r N -> In o N -> incl (outs (nf nd)) N ->
  orig_out (ren_node r nd) (app_ren r o) = orig_out nd o.
Proof.
  intros H Ho Hn. unfold orig_out. destruct nd as [f oo inner]. cbn [nf ren_node noorig].
  rewrite outs_ren, (pos_map_ren r N o (outs f) H Ho Hn). reflexivity.
Qed.

Section WithBody.
  Variable body : str -> alist -> result str.
  Variable pick : str -> str -> str.

  (* the value of one argument is invariant *)
  Lemma arg_val_ren r N (P : pipeline) kw f cur (rec rec' : str -> result str) :
    inj_on r N -> In cur N -> incl (flat_map func_all_names P) N -> incl (akeys kw) N ->
    incl (akeys (bound f)) N ->
    rec' (app_ren r cur) = rec cur ->
    arg_val rec' (map (ren_func r) P) (ren_kw r kw) (ren_func r f) (app_ren r cur) = arg_val rec P kw f cur.
  Proof.
    intros H Hc Hp Hk Hb Hrec. unfold arg_val. cbn [bound ren_func mkf].
    rewrite (aget_ren_keys r N (bound f) cur H Hc Hb).
    destruct (aget (bound f) cur); [reflexivity|].
    unfold ren_kw. rewrite (aget_ren_keys r N kw cur H Hc Hk).
    destruct (aget kw cur); [reflexivity|].
    rewrite (is_output_ren r N P cur H Hc Hp), Hrec.
    destruct (is_output P cur); [reflexivity|].
    rewrite (default_of_ren r N P cur H Hc Hp). reflexivity.
  Qed.

  (* THE renaming theorem: evaluation of the renamed pipeline on the renamed request is literally the
     evaluation of the original (the user code sees original names) *)
  Theorem neval_rename r N : inj_on r N -> forall fuel p kw o,
    In o N -> incl (pipe_all_names p) N -> incl (akeys kw) N ->
    neval body pick fuel (rename r p) (ren_kw r kw) (app_ren r o) = neval body pick fuel p kw o.
  Proof.
    intros H. induction fuel as [|n IH]; intros p kw o Ho Hp Hk; [reflexivity|].
    cbn [neval]. rewrite (find_producer_ren r N p o H Ho Hp).
    destruct (nproducer p o) as [nd|] eqn:E; cbn [option_map]; [|reflexivity].
    assert (Hin : In nd p).
    { unfold nproducer in E. apply find_some in E. tauto. }
    assert (Hf : incl (func_all_names (nf nd)) N).
    { intros x Hx. apply Hp. eapply in_pipe_names; eauto. }
    assert (Hargs : args_with (neval body pick n (rename r p) (ren_kw r kw)) (funcs (rename r p)) (ren_kw r kw)
                              (nf (ren_node r nd))
                    = args_with (neval body pick n p kw) (funcs p) kw (nf nd)).
    { unfold args_with. destruct nd as [f oo inner]. cbn [nf ren_node] in *.
      cbn [params ren_func mkf]. symmetry.
      rewrite (mapM_ext_map _ (fun po : str * str =>
                  do v <- arg_val (neval body pick n (rename r p) (ren_kw r kw)) (funcs (rename r p)) (ren_kw r kw)
                                  (ren_func r f) (fst po); Ok (snd po, v))
                 (fun co : str * str => (app_ren r (fst co), snd co))); [reflexivity|].
      intros [cur orig] Hco. cbn [fst snd].
      assert (Hcur : In cur N).
      { apply Hf. unfold func_all_names, pnames. apply in_or_app. left.
        change cur with (fst (cur, orig)). apply in_map. exact Hco. }
      rewrite funcs_rename.
      rewrite (arg_val_ren r N (funcs p) kw f cur (neval body pick n p kw)
                 (neval body pick n (rename r p) (ren_kw r kw))); auto.
      - rewrite names_funcs. exact Hp.
      - intros x Hx. apply Hf. unfold func_all_names. apply in_or_app. right. apply in_or_app. right.
        apply in_or_app. right. exact Hx. }
    rewrite Hargs.
    destruct (args_with (neval body pick n p kw) (funcs p) kw (nf nd)) as [args|e]; cbn [bind]; [|reflexivity].
    assert (Ho' : orig_out (ren_node r nd) (app_ren r o) = orig_out nd o).
    { apply (orig_out_ren r N); auto. intros x Hx. apply Hf. unfold func_all_names. apply in_or_app. right.
      apply in_or_app. left. exact Hx. }
    rewrite Ho'. destruct nd as [f oo inner]. cbn [ninner ren_node nf]. 
    destruct inner; [reflexivity|].
    cbn [fname ren_func mkf]. unfold multi. cbn [outs ren_func mkf]. rewrite map_length. reflexivity.
  Qed.
End WithBody.

(* ------------------------------------------------------------------ update_renames / update_scope are renamings *)
Lemma update_renames_ok r p p' : update_renames r p = Ok p' -> p' = rename r p.
Proof.
  unfold update_renames. destruct (negb _); [discriminate|]. destruct (negb _); [discriminate|].
  destruct (validate _); cbn; [|discriminate]. intros E. injection E as <-. reflexivity.
Qed.

Definition scope_renaming (sc : option str) (isel osel : option (list str)) (excl : list str) (p : npipe) : alist :=
  map (fun n => (n, scope_name sc n)) (scope_targets (funcs p) isel osel excl).

Lemma update_scope_ok sc i o e p p' : update_scope sc i o e p = Ok p' -> p' = rename (scope_renaming sc i o e p) p.
Proof.
  unfold update_scope, scope_renaming. destruct (negb _); [discriminate|]. destruct (existsb _ _); [discriminate|].
  destruct (negb _); [discriminate|]. destruct (validate _); cbn; [|discriminate].
  intros E. injection E as <-. reflexivity.
Qed.

(* removing a scope undoes adding it (names without a dot, scope without a dot) *)
Lemma split_first_app sc n : mem_char dot sc = false -> split_first dot (sc ++ dot :: n) = Some (sc, n).
Proof.
  induction sc as [|c sc IH]; cbn; intros H.
  - reflexivity.
  - apply orb_false_iff in H as [H1 H2]. rewrite H1. rewrite (IH H2). reflexivity.
Qed.

Lemma split_first_none n : mem_char dot n = false -> split_first dot n = None.
Proof.
  induction n as [|c n IH]; cbn; intros H; [reflexivity|].
  apply orb_false_iff in H as [H1 H2]. rewrite H1, (IH H2). reflexivity.
Qed.

Lemma starts_with_dot pre n : mem_char dot n = false -> starts_with (pre ++ [dot]) n = false.
Proof.
  revert n. induction pre as [|a pre IH]; intros [|b n] H; cbn; try reflexivity.
  - cbn in H. apply orb_false_iff in H as [H1 _]. rewrite H1. reflexivity.
  - cbn in H. apply orb_false_iff in H as [_ H2]. rewrite (IH n H2). apply andb_false_r.
Qed.

Lemma unscope_scope sc n : mem_char dot sc = false -> mem_char dot n = false ->
  scope_name None (scope_name (Some sc) n) = n.
Proof.
  intros Hs Hn. unfold scope_name. rewrite (starts_with_dot sc n Hn), (split_first_none n Hn).
  rewrite (split_first_app sc n Hs). reflexivity.
Qed.

(* ------------------------------------------------------------------ irrelevant functions *)
Lemma producer_funcs p o : producer (funcs p) o = option_map nf (nproducer p o).
Proof.
  unfold producer, nproducer, funcs. induction p as [|nd p IH]; cbn; [reflexivity|].
  destruct (mem_str o (outs (nf nd))); [reflexivity|]. exact IH.
Qed.

Lemma is_output_funcs p o : is_output (funcs p) o = match nproducer p o with Some _ => true | None => false end.
Proof. unfold is_output. rewrite producer_funcs. destruct (nproducer p o); reflexivity. Qed.

Section Agree.
  Variable body : str -> alist -> result str.
  Variable pick : str -> str -> str.

  (* S is closed under "unbound parameters of the producer" in p *)
  Definition closed_under (p : npipe) (S : list str) : Prop :=
    forall o nd c, In o S -> nproducer p o = Some nd -> In c (pnames (nf nd)) -> ahas (bound (nf nd)) c = false ->
                   In c S.

  (* evaluation of an output depends only on the functions reachable from it (eval_irrelevant_funcs) *)
  Theorem neval_agree p p' kw S :
    (forall n, In n S -> nproducer p' n = nproducer p n) ->
    (forall n, In n S -> is_output (funcs p) n = false -> default_of (funcs p') n = default_of (funcs p) n) ->
    closed_under p S ->
    forall fuel o, In o S -> neval body pick fuel p' kw o = neval body pick fuel p kw o.
  Proof.
    intros Hprod Hdef Hcl. induction fuel as [|n IH]; intros o Ho; [reflexivity|].
    cbn [neval]. rewrite (Hprod o Ho).
    destruct (nproducer p o) as [nd|] eqn:E; [|reflexivity].
    assert (Hargs : args_with (neval body pick n p' kw) (funcs p') kw (nf nd)
                    = args_with (neval body pick n p kw) (funcs p) kw (nf nd)).
    { unfold args_with. apply mapM_ext. intros [cur orig] Hco. cbn [fst snd].
      assert (Hc : In cur (pnames (nf nd))).
      { unfold pnames. change cur with (fst (cur, orig)). apply in_map. exact Hco. }
      unfold arg_val. destruct (aget (bound (nf nd)) cur) eqn:Eb; [reflexivity|].
      destruct (aget kw cur); [reflexivity|].
      assert (HcS : In cur S).
      { apply (Hcl o nd cur Ho E Hc). unfold ahas. rewrite Eb. reflexivity. }
      rewrite !is_output_funcs, (Hprod cur HcS).
      destruct (nproducer p cur) eqn:Ec.
      - rewrite (IH cur HcS). reflexivity.
      - rewrite (Hdef cur HcS); [reflexivity|]. rewrite is_output_funcs, Ec. reflexivity. }
    rewrite Hargs. reflexivity.
  Qed.
End Agree.

(* ------------------------------------------------------------------ join *)
Lemma add_node_ok p nd p' : add_node p nd = Ok p' -> p' = p ++ [nd].
Proof.
  unfold add_node. destruct (existsb _ _); [discriminate|]. destruct (validate _); cbn; [|discriminate].
  intros E. injection E as <-. reflexivity.
Qed.

Lemma add_all_ok q : forall p r, add_all p q = Ok r -> r = p ++ q.
Proof.
  unfold add_all. induction q as [|nd q IH]; intros p r; cbn.
  - intros E. injection E as <-. now rewrite app_nil_r.
  - destruct (add_node p nd) as [p1|e] eqn:E1; cbn.
    + intros E. apply add_node_ok in E1. subst p1. apply IH in E. rewrite E, <- app_assoc. reflexivity.
    + intros E. exfalso. clear -E. induction q as [|x q IHq]; cbn in E; [discriminate|]. apply IHq. exact E.
Qed.

Lemma join_ok p q r : join p q = Ok r -> r = p ++ q.
Proof. unfold join. intros E. apply add_all_ok in E. exact E. Qed.

Lemma nproducer_app p q o :
  nproducer (p ++ q) o = match nproducer p o with Some nd => Some nd | None => nproducer q o end.
Proof.
  unfold nproducer. induction p as [|nd p IH]; cbn; [reflexivity|].
  destruct (mem_str o (outs (nf nd))); [reflexivity|]. exact IH.
Qed.

Lemma nproducer_none_not_output q o : ~ In o (all_outputs (funcs q)) -> nproducer q o = None.
Proof.
  unfold nproducer, all_outputs, funcs. induction q as [|nd q IH]; cbn; intros H; [reflexivity|].
  destruct (mem_str o (outs (nf nd))) eqn:E.
  - exfalso. apply H. apply in_or_app. left. apply mem_str_In. exact E.
  - apply IH. intros Hin. apply H. apply in_or_app. right. exact Hin.
Qed.

Section Join.
  Variable body : str -> alist -> result str.
  Variable pick : str -> str -> str.

  (* joining q does not change any output of p whose evaluation (the closed set S) neither reads an output of q
     nor gets a default from q *)
  Theorem join_preserves p q r kw S :
    join p q = Ok r ->
    closed_under p S ->
    (forall n, In n S -> ~ In n (all_outputs (funcs q))) ->
    (forall n, In n S -> is_output (funcs p) n = false -> default_of (funcs (p ++ q)) n = default_of (funcs p) n) ->
    forall fuel o, In o S -> neval body pick fuel r kw o = neval body pick fuel p kw o.
  Proof.
    intros Hj Hcl Hq Hd fuel o Ho. apply join_ok in Hj. subst r.
    apply (neval_agree body pick p (p ++ q) kw S); auto.
    intros n Hn. rewrite nproducer_app. destruct (nproducer p n); [reflexivity|].
    apply nproducer_none_not_output. apply Hq. exact Hn.
  Qed.
End Join.

(* ------------------------------------------------------------------ copy / pickle *)
Lemma copy_identity p : apply_op OCopy p = Ok p /\ apply_op OPickle p = Ok p.
Proof. split; reflexivity. Qed.
