(* Proofs about Model/Rewrite.v (C10): renaming / scoping, irrelevant functions (join, split), copies. *)
From Coq Require Import Permutation.
From Verif Require Import Base.Prelude Base.StrOrd Base.StrUtil Base.Graph Model.Pipe Model.Rewrite Proofs.GraphFacts.

(* ------------------------------------------------------------------ generalities *)
Lemma mapM_ext_map {A A' B} (f : A -> result B) (g : A' -> result B) (h : A -> A') l :
  (forall x, In x l -> f x = g (h x)) -> mapM f l = mapM g (map h l).
Proof.
  induction l as [|x l IH]; intros H; cbn; [reflexivity|].
  rewrite <- H by (left; reflexivity). destruct (f x); cbn; [|reflexivity].
  rewrite IH by (intros y Hy; apply H; right; exact Hy). reflexivity.
Qed.

Lemma mapM_ext {A B} (f g : A -> result B) l :
  (forall x, In x l -> f x = g x) -> mapM f l = mapM g l.
Proof.
  intros H. rewrite <- (map_id l) at 2. apply mapM_ext_map. exact H.
Qed.

(* ------------------------------------------------------------------ renaming *)
(* r is one-to-one on the names N *)
Definition inj_on (r : alist) (N : list str) : Prop :=
  forall a b, In a N -> In b N -> app_ren r a = app_ren r b -> a = b.

Lemma inj_on_incl r N M : inj_on r N -> incl M N -> inj_on r M.
Proof. intros H HI a b Ha Hb. apply H; apply HI; assumption. Qed.

Lemma inj_on_bool r N : injective_on r N = true -> inj_on r N.
Proof.
  unfold injective_on. rewrite nodup_strb_NoDup. intros H.
  induction N as [|x N IH]; intros a b Ha Hb E; [destruct Ha|].
  cbn in H. inversion H as [|? ? Hx HN]; subst.
  destruct Ha as [<-|Ha], Hb as [<-|Hb]; auto.
  - exfalso. apply Hx. rewrite E. apply in_map. exact Hb.
  - exfalso. apply Hx. rewrite <- E. apply in_map. exact Ha.
  - apply IH; assumption.
Qed.

Lemma eqb_app_ren r N a b : inj_on r N -> In a N -> In b N ->
  str_eqb (app_ren r a) (app_ren r b) = str_eqb a b.
Proof.
  intros H Ha Hb. destruct (str_eqb a b) eqn:E.
  - apply str_eqb_eq in E. subst. apply str_eqb_refl.
  - apply str_eqb_neq. intros E'. apply str_eqb_neq in E. apply E. apply (H a b Ha Hb E').
Qed.

Lemma aget_ren_keys r N d k : inj_on r N -> In k N -> incl (akeys d) N ->
  aget (ren_keys r d) (app_ren r k) = aget d k.
Proof.
  intros H Hk. induction d as [|[k' v] d IH]; intros Hd; cbn; [reflexivity|].
  rewrite (eqb_app_ren r N k k' H Hk) by (apply Hd; left; reflexivity).
  destruct (str_eqb k k'); [reflexivity|]. apply IH. intros x Hx. apply Hd. right. exact Hx.
Qed.

Lemma ahas_ren_keys r N d k : inj_on r N -> In k N -> incl (akeys d) N ->
  ahas (ren_keys r d) (app_ren r k) = ahas d k.
Proof. intros. unfold ahas. erewrite aget_ren_keys; eauto. Qed.

Lemma mem_map_ren r N x l : inj_on r N -> In x N -> incl l N ->
  mem_str (app_ren r x) (map (app_ren r) l) = mem_str x l.
Proof.
  intros H Hx. induction l as [|y l IH]; intros Hl; cbn; [reflexivity|].
  rewrite (eqb_app_ren r N x y H Hx) by (apply Hl; left; reflexivity).
  rewrite IH by (intros z Hz; apply Hl; right; exact Hz). reflexivity.
Qed.

Lemma pos_map_ren r N x l : inj_on r N -> In x N -> incl l N ->
  pos_str (app_ren r x) (map (app_ren r) l) = pos_str x l.
Proof.
  intros H Hx. induction l as [|y l IH]; intros Hl; cbn; [reflexivity|].
  rewrite (eqb_app_ren r N x y H Hx) by (apply Hl; left; reflexivity).
  rewrite IH by (intros z Hz; apply Hl; right; exact Hz). reflexivity.
Qed.

(* every name a function mentions *)
Definition func_all_names (f : pfunc) : list str := pnames f ++ outs f ++ akeys (dflt f) ++ akeys (bound f).
Definition pipe_all_names (p : npipe) : list str := flat_map (fun nd => func_all_names (nf nd)) p.

Lemma in_pipe_names p nd x : In nd p -> In x (func_all_names (nf nd)) -> In x (pipe_all_names p).
Proof. intros H1 H2. unfold pipe_all_names. apply in_flat_map. exists nd. split; assumption. Qed.

Lemma outs_ren r f : outs (ren_func r f) = map (app_ren r) (outs f).
Proof. reflexivity. Qed.

Lemma find_producer_ren r N (p : npipe) o : inj_on r N -> In o N -> incl (pipe_all_names p) N ->
  nproducer (rename r p) (app_ren r o) = option_map (ren_node r) (nproducer p o).
Proof.
  intros H Ho. unfold nproducer, rename. induction p as [|nd p IH]; intros Hp; cbn; [reflexivity|].
  rewrite (mem_map_ren r N o (outs (nf nd)) H Ho).
  2:{ intros x Hx. apply Hp. cbn. apply in_or_app. left. unfold func_all_names. apply in_or_app. right.
      apply in_or_app. left. exact Hx. }
  destruct (mem_str o (outs (nf nd))); [reflexivity|].
  apply IH. intros x Hx. apply Hp. cbn. apply in_or_app. right. exact Hx.
Qed.

Lemma producer_ren r N (P : pipeline) o : inj_on r N -> In o N -> incl (flat_map func_all_names P) N ->
  producer (map (ren_func r) P) (app_ren r o) = option_map (ren_func r) (producer P o).
Proof.
  intros H Ho. unfold producer. induction P as [|f P IH]; intros Hp; cbn; [reflexivity|].
  rewrite (mem_map_ren r N o (outs f) H Ho).
  2:{ intros x Hx. apply Hp. cbn. apply in_or_app. left. unfold func_all_names. apply in_or_app. right.
      apply in_or_app. left. exact Hx. }
  destruct (mem_str o (outs f)); [reflexivity|].
  apply IH. intros x Hx. apply Hp. cbn. apply in_or_app. right. exact Hx.
Qed.

Lemma is_output_ren r N (P : pipeline) o : inj_on r N -> In o N -> incl (flat_map func_all_names P) N ->
  is_output (map (ren_func r) P) (app_ren r o) = is_output P o.
Proof.
  intros H Ho Hp. unfold is_output. rewrite (producer_ren r N P o H Ho Hp).
  destruct (producer P o); reflexivity.
Qed.

Lemma funcs_rename r p : funcs (rename r p) = map (ren_func r) (funcs p).
Proof. unfold funcs, rename. rewrite !map_map. reflexivity. Qed.

Lemma names_funcs p : flat_map func_all_names (funcs p) = pipe_all_names p.
Proof. unfold funcs, pipe_all_names. induction p as [|nd p IH]; cbn; [reflexivity|]. now rewrite IH. Qed.

(* Pipeline.defaults of the renamed pipeline = the renamed Pipeline.defaults *)
Lemma pdefaults_ren r N (P : pipeline) : inj_on r N -> incl (flat_map func_all_names P) N ->
  pdefaults (map (ren_func r) P) = ren_keys r (pdefaults P).
Proof.
  intros H Hp. unfold pdefaults.
  assert (G : forall Q, incl (flat_map func_all_names Q) N ->
    flat_map (fun f => filter (fun kv => negb (ahas (bound f) (fst kv)) && negb (is_output (map (ren_func r) P) (fst kv))) (dflt f))
             (map (ren_func r) Q)
    = ren_keys r (flat_map (fun f => filter (fun kv => negb (ahas (bound f) (fst kv)) && negb (is_output P (fst kv))) (dflt f)) Q)).
  { induction Q as [|f Q IH]; intros HQ; cbn; [reflexivity|].
    unfold ren_keys at 1. rewrite map_app. fold (ren_keys r). f_equal.
    - assert (Hf : incl (func_all_names f) N).
      { intros x Hx. apply HQ. cbn. apply in_or_app. left. exact Hx. }
      assert (Hd : incl (akeys (dflt f)) N).
      { intros x Hx. apply Hf. unfold func_all_names. apply in_or_app. right. apply in_or_app. right.
        apply in_or_app. left. exact Hx. }
      assert (Hb : incl (akeys (bound f)) N).
      { intros x Hx. apply Hf. unfold func_all_names. apply in_or_app. right. apply in_or_app. right.
        apply in_or_app. right. exact Hx. }
      clear HQ IH Hf. induction (dflt f) as [|[k v] d IHd]; cbn; [reflexivity|].
      assert (Hk : In k N) by (apply Hd; left; reflexivity).
      unfold ren_keys in *. cbn [bound ren_func mkf].
      change (map (fun kv : str * str => (app_ren r (fst kv), snd kv)) (bound f)) with (ren_keys r (bound f)).
      rewrite (ahas_ren_keys r N (bound f) k H Hk Hb).
      rewrite (is_output_ren r N P k H Hk Hp).
      destruct (negb (ahas (bound f) k) && negb (is_output P k)); cbn.
      + f_equal. apply IHd. intros x Hx. apply Hd. right. exact Hx.
      + apply IHd. intros x Hx. apply Hd. right. exact Hx.
    - apply IH. intros x Hx. apply HQ. cbn. apply in_or_app. right. exact Hx. }
  apply G. exact Hp.
Qed.

Lemma akeys_filter_incl (q : str * str -> bool) d : incl (akeys (filter q d)) (akeys d).
Proof.
  induction d as [|kv d IH]; cbn; [apply incl_refl|]. destruct (q kv); cbn.
  - intros x [Hx|Hx]; [left; exact Hx | right; apply IH; exact Hx].
  - intros x Hx. right. apply IH. exact Hx.
Qed.

Lemma akeys_flat_filter (q : pfunc -> str * str -> bool) (Q : pipeline) :
  incl (akeys (flat_map (fun f => filter (q f) (dflt f)) Q)) (flat_map func_all_names Q).
Proof.
  induction Q as [|f Q IH]; cbn; [apply incl_refl|].
  unfold akeys. rewrite map_app. intros x Hx. apply in_app_or in Hx as [Hx|Hx]; apply in_or_app.
  - left. unfold func_all_names. apply in_or_app. right. apply in_or_app. right. apply in_or_app. left.
    apply (akeys_filter_incl (q f)). exact Hx.
  - right. apply IH. exact Hx.
Qed.

Lemma akeys_pdefaults_incl (P : pipeline) : incl (akeys (pdefaults P)) (flat_map func_all_names P).
Proof.
  unfold pdefaults.
  apply (akeys_flat_filter (fun f kv => negb (ahas (bound f) (fst kv)) && negb (is_output P (fst kv)))).
Qed.

Lemma default_of_ren r N (P : pipeline) c : inj_on r N -> In c N -> incl (flat_map func_all_names P) N ->
  default_of (map (ren_func r) P) (app_ren r c) = default_of P c.
Proof.
  intros H Hc Hp. unfold default_of. rewrite (pdefaults_ren r N P H Hp).
  apply (aget_ren_keys r N); auto.
  intros x Hx. apply Hp. apply akeys_pdefaults_incl. exact Hx.
Qed.

Lemma orig_out_ren r N nd o : inj_on r N -> In o N -> incl (outs (nf nd)) N ->
  orig_out (ren_node r nd) (app_ren r o) = orig_out nd o.
Proof.
  intros H Ho Hn. unfold orig_out. destruct nd as [f oo inner]. cbn [nf ren_node noorig].
  rewrite outs_ren, (pos_map_ren r N o (outs f) H Ho Hn). reflexivity.
Qed.

Section WithBody.
  Variable body : str -> alist -> result str.
  Variable pick : str -> str -> str.

  (* the value of one argument is invariant *)
  Lemma arg_val_ren r N (P : pipeline) kw f cur (rec rec' : str -> result str) :
    inj_on r N -> In cur N -> incl (flat_map func_all_names P) N -> incl (akeys kw) N ->
    incl (akeys (bound f)) N ->
    rec' (app_ren r cur) = rec cur ->
    arg_val rec' (map (ren_func r) P) (ren_kw r kw) (ren_func r f) (app_ren r cur) = arg_val rec P kw f cur.
  Proof.
    intros H Hc Hp Hk Hb Hrec. unfold arg_val. cbn [bound ren_func mkf].
    rewrite (aget_ren_keys r N (bound f) cur H Hc Hb).
    destruct (aget (bound f) cur); [reflexivity|].
    unfold ren_kw. rewrite (aget_ren_keys r N kw cur H Hc Hk).
    destruct (aget kw cur); [reflexivity|].
    rewrite (is_output_ren r N P cur H Hc Hp), Hrec.
    destruct (is_output P cur); [reflexivity|].
    rewrite (default_of_ren r N P cur H Hc Hp). reflexivity.
  Qed.

  (* THE renaming theorem: evaluation of the renamed pipeline on the renamed request is literally the
     evaluation of the original (the user code sees original names) *)
  Theorem neval_rename r N : inj_on r N -> forall fuel p kw o,
    In o N -> incl (pipe_all_names p) N -> incl (akeys kw) N ->
    neval body pick fuel (rename r p) (ren_kw r kw) (app_ren r o) = neval body pick fuel p kw o.
  Proof.
    intros H. induction fuel as [|n IH]; intros p kw o Ho Hp Hk; [reflexivity|].
    cbn [neval]. rewrite (find_producer_ren r N p o H Ho Hp).
    destruct (nproducer p o) as [nd|] eqn:E; cbn [option_map]; [|reflexivity].
    assert (Hin : In nd p).
    { unfold nproducer in E. apply find_some in E. tauto. }
    assert (Hf : incl (func_all_names (nf nd)) N).
    { intros x Hx. apply Hp. eapply in_pipe_names; eauto. }
    assert (Hargs : args_with (neval body pick n (rename r p) (ren_kw r kw)) (funcs (rename r p)) (ren_kw r kw)
                              (nf (ren_node r nd))
                    = args_with (neval body pick n p kw) (funcs p) kw (nf nd)).
    { unfold args_with. destruct nd as [f oo inner]. cbn [nf ren_node] in *.
      cbn [params ren_func mkf]. symmetry.
      rewrite (mapM_ext_map _ (fun po : str * str =>
                  do v <- arg_val (neval body pick n (rename r p) (ren_kw r kw)) (funcs (rename r p)) (ren_kw r kw)
                                  (ren_func r f) (fst po); Ok (snd po, v))
                 (fun co : str * str => (app_ren r (fst co), snd co))); [reflexivity|].
      intros [cur orig] Hco. cbn [fst snd].
      assert (Hcur : In cur N).
      { apply Hf. unfold func_all_names, pnames. apply in_or_app. left.
        change cur with (fst (cur, orig)). apply in_map. exact Hco. }
      rewrite funcs_rename.
      rewrite (arg_val_ren r N (funcs p) kw f cur (neval body pick n p kw)
                 (neval body pick n (rename r p) (ren_kw r kw))); auto.
      - rewrite names_funcs. exact Hp.
      - intros x Hx. apply Hf. unfold func_all_names. apply in_or_app. right. apply in_or_app. right.
        apply in_or_app. right. exact Hx. }
    rewrite Hargs.
    destruct (args_with (neval body pick n p kw) (funcs p) kw (nf nd)) as [args|e]; cbn [bind]; [|reflexivity].
    assert (Ho' : orig_out (ren_node r nd) (app_ren r o) = orig_out nd o).
    { apply (orig_out_ren r N); auto. intros x Hx. apply Hf. unfold func_all_names. apply in_or_app. right.
      apply in_or_app. left. exact Hx. }
    rewrite Ho'. destruct nd as [f oo inner]. cbn [ninner ren_node nf]. 
    destruct inner; [reflexivity|].
    cbn [fname ren_func mkf]. unfold multi. cbn [outs ren_func mkf]. rewrite map_length. reflexivity.
  Qed.
End WithBody.

(* ------------------------------------------------------------------ update_renames / update_scope are renamings *)
Lemma update_renames_ok r p p' : update_renames r p = Ok p' -> p' = rename r p.
Proof.
  unfold update_renames. destruct (negb _); [discriminate|]. destruct (negb _); [discriminate|].
  destruct (validate _); cbn; [|discriminate]. intros E. injection E as <-. reflexivity.
Qed.

Definition scope_renaming (sc : option str) (isel osel : option (list str)) (excl : list str) (p : npipe) : alist :=
  map (fun n => (n, scope_name sc n)) (scope_targets (funcs p) isel osel excl).

Lemma update_scope_ok sc i o e p p' : update_scope sc i o e p = Ok p' -> p' = rename (scope_renaming sc i o e p) p.
Proof.
  unfold update_scope, scope_renaming. destruct (negb _); [discriminate|]. destruct (existsb _ _); [discriminate|].
  destruct (negb _); [discriminate|]. destruct (validate _); cbn; [|discriminate].
  intros E. injection E as <-. reflexivity.
Qed.

(* removing a scope undoes adding it (names without a dot, scope without a dot) *)
Lemma split_first_app sc n : mem_char dot sc = false -> split_first dot (sc ++ dot :: n) = Some (sc, n).
Proof.
  induction sc as [|c sc IH]; cbn; intros H.
  - reflexivity.
  - apply orb_false_iff in H as [H1 H2]. rewrite H1. rewrite (IH H2). reflexivity.
Qed.

Lemma split_first_none n : mem_char dot n = false -> split_first dot n = None.
Proof.
  induction n as [|c n IH]; cbn; intros H; [reflexivity|].
  apply orb_false_iff in H as [H1 H2]. rewrite H1, (IH H2). reflexivity.
Qed.

Lemma starts_with_dot pre n : mem_char dot n = false -> starts_with (pre ++ [dot]) n = false.
Proof.
  revert n. induction pre as [|a pre IH]; intros [|b n] H; cbn; try reflexivity.
  - cbn in H. apply orb_false_iff in H as [H1 _]. rewrite H1. reflexivity.
  - cbn in H. apply orb_false_iff in H as [_ H2]. rewrite (IH n H2). apply andb_false_r.
Qed.

Lemma unscope_scope sc n : mem_char dot sc = false -> mem_char dot n = false ->
  scope_name None (scope_name (Some sc) n) = n.
Proof.
  intros Hs Hn. unfold scope_name. rewrite (starts_with_dot sc n Hn), (split_first_none n Hn).
  rewrite (split_first_app sc n Hs). reflexivity.
Qed.

(* ------------------------------------------------------------------ irrelevant functions *)
Lemma producer_funcs p o : producer (funcs p) o = option_map nf (nproducer p o).
Proof.
  unfold producer, nproducer, funcs. induction p as [|nd p IH]; cbn; [reflexivity|].
  destruct (mem_str o (outs (nf nd))); [reflexivity|]. exact IH.
Qed.

Lemma is_output_funcs p o : is_output (funcs p) o = match nproducer p o with Some _ => true | None => false end.
Proof. unfold is_output. rewrite producer_funcs. destruct (nproducer p o); reflexivity. Qed.

Section Agree.
  Variable body : str -> alist -> result str.
  Variable pick : str -> str -> str.

  (* S is closed under "unbound parameters of the producer" in p *)
  Definition closed_under (p : npipe) (S : list str) : Prop :=
    forall o nd c, In o S -> nproducer p o = Some nd -> In c (pnames (nf nd)) -> ahas (bound (nf nd)) c = false ->
                   In c S.

  (* evaluation of an output depends only on the functions reachable from it (eval_irrelevant_funcs) *)
  Theorem neval_agree p p' kw S :
    (forall n, In n S -> nproducer p' n = nproducer p n) ->
    (forall n, In n S -> is_output (funcs p) n = false -> default_of (funcs p') n = default_of (funcs p) n) ->
    closed_under p S ->
    forall fuel o, In o S -> neval body pick fuel p' kw o = neval body pick fuel p kw o.
  Proof.
    intros Hprod Hdef Hcl. induction fuel as [|n IH]; intros o Ho; [reflexivity|].
    cbn [neval]. rewrite (Hprod o Ho).
    destruct (nproducer p o) as [nd|] eqn:E; [|reflexivity].
    assert (Hargs : args_with (neval body pick n p' kw) (funcs p') kw (nf nd)
                    = args_with (neval body pick n p kw) (funcs p) kw (nf nd)).
    { unfold args_with. apply mapM_ext. intros [cur orig] Hco. cbn [fst snd].
      assert (Hc : In cur (pnames (nf nd))).
      { unfold pnames. change cur with (fst (cur, orig)). apply in_map. exact Hco. }
      unfold arg_val. destruct (aget (bound (nf nd)) cur) eqn:Eb; [reflexivity|].
      destruct (aget kw cur); [reflexivity|].
      assert (HcS : In cur S).
      { apply (Hcl o nd cur Ho E Hc). unfold ahas. rewrite Eb. reflexivity. }
      rewrite !is_output_funcs, (Hprod cur HcS).
      destruct (nproducer p cur) eqn:Ec.
      - rewrite (IH cur HcS). reflexivity.
      - rewrite (Hdef cur HcS); [reflexivity|]. rewrite is_output_funcs, Ec. reflexivity. }
    rewrite Hargs. reflexivity.
  Qed.
End Agree.

(* ------------------------------------------------------------------ join *)
Lemma add_node_ok p nd p' : add_node p nd = Ok p' -> p' = p ++ [nd].
Proof.
  unfold add_node. destruct (existsb _ _); [discriminate|]. destruct (validate _); cbn; [|discriminate].
  intros E. injection E as <-. reflexivity.
Qed.

Lemma add_all_ok q : forall p r, add_all p q = Ok r -> r = p ++ q.
Proof.
  unfold add_all. induction q as [|nd q IH]; intros p r; cbn.
  - intros E. injection E as <-. now rewrite app_nil_r.
  - destruct (add_node p nd) as [p1|e] eqn:E1; cbn.
    + intros E. apply add_node_ok in E1. subst p1. apply IH in E. rewrite E, <- app_assoc. reflexivity.
    + intros E. exfalso. clear -E. induction q as [|x q IHq]; cbn in E; [discriminate|]. apply IHq. exact E.
Qed.

Lemma join_ok p q r : join p q = Ok r -> r = p ++ q.
Proof. unfold join. intros E. apply add_all_ok in E. exact E. Qed.

Lemma nproducer_app p q o :
  nproducer (p ++ q) o = match nproducer p o with Some nd => Some nd | None => nproducer q o end.
Proof.
  unfold nproducer. induction p as [|nd p IH]; cbn; [reflexivity|].
  destruct (mem_str o (outs (nf nd))); [reflexivity|]. exact IH.
Qed.

Lemma nproducer_none_not_output q o : ~ In o (all_outputs (funcs q)) -> nproducer q o = None.
Proof.
  unfold nproducer, all_outputs, funcs. induction q as [|nd q IH]; cbn; intros H; [reflexivity|].
  destruct (mem_str o (outs (nf nd))) eqn:E.
  - exfalso. apply H. apply in_or_app. left. apply mem_str_In. exact E.
  - apply IH. intros Hin. apply H. apply in_or_app. right. exact Hin.
Qed.

Section Join.
  Variable body : str -> alist -> result str.
  Variable pick : str -> str -> str.

  (* joining q does not change any output of p whose evaluation (the closed set S) neither reads an output of q
     nor gets a default from q *)
  Theorem join_preserves p q r kw S :
    join p q = Ok r ->
    closed_under p S ->
    (forall n, In n S -> ~ In n (all_outputs (funcs q))) ->
    (forall n, In n S -> is_output (funcs p) n = false -> default_of (funcs (p ++ q)) n = default_of (funcs p) n) ->
    forall fuel o, In o S -> neval body pick fuel r kw o = neval body pick fuel p kw o.
  Proof.
    intros Hj Hcl Hq Hd fuel o Ho. apply join_ok in Hj. subst r.
    apply (neval_agree body pick p (p ++ q) kw S); auto.
    intros n Hn. rewrite nproducer_app. destruct (nproducer p n); [reflexivity|].
    apply nproducer_none_not_output. apply Hq. exact Hn.
  Qed.
End Join.

(* ------------------------------------------------------------------ copy / pickle *)
Lemma copy_identity p : apply_op OCopy p = Ok p /\ apply_op OPickle p = Ok p.
Proof. split; reflexivity. Qed.

(* ------------------------------------------------------------------ the embedding of Model/Pipe.v *)
Lemma funcs_lift p : funcs (lift p) = p.
Proof. unfold funcs, lift. rewrite map_map. cbn. apply map_id. Qed.

Lemma nproducer_lift p o : nproducer (lift p) o = option_map prim (producer p o).
Proof.
  unfold nproducer, producer, lift. induction p as [|f p IH]; cbn; [reflexivity|].
  destruct (mem_str o (outs f)); [reflexivity|]. exact IH.
Qed.

Lemma pos_str_nth o l : mem_str o l = true -> exists i, pos_str o l = Some i /\ nth i l [] = o.
Proof.
  induction l as [|x l IH]; cbn; [discriminate|]. destruct (str_eqb o x) eqn:E.
  - intros _. exists 0. split; [reflexivity|]. apply str_eqb_eq in E. now subst.
  - cbn. intros H. destruct (IH H) as (i & E1 & E2). exists (S i). rewrite E1. split; [reflexivity|exact E2].
Qed.

Section Lift.
  Variable body : str -> alist -> result str.
  Variable pick : str -> str -> str.

  (* on pipelines without nested functions neval is Pipe.eval (the specification of C02) *)
  Theorem neval_lift : forall fuel p kw o, neval body pick fuel (lift p) kw o = eval body pick fuel p kw o.
  Proof.
    induction fuel as [|n IH]; intros p kw o; [reflexivity|].
    cbn [neval eval]. rewrite nproducer_lift. destruct (producer p o) as [f|] eqn:E; cbn [option_map]; [|reflexivity].
    cbn [nf prim ninner]. rewrite funcs_lift.
    assert (Ha : args_with (neval body pick n (lift p) kw) p kw f = args_with (eval body pick n p kw) p kw f).
    { unfold args_with. apply mapM_ext. intros [cur orig] _. cbn [fst snd]. unfold arg_val.
      destruct (aget (bound f) cur); [reflexivity|]. destruct (aget kw cur); [reflexivity|].
      rewrite IH. reflexivity. }
    rewrite Ha. destruct (args_with (eval body pick n p kw) p kw f); cbn [bind]; [|reflexivity].
    destruct (body (fname f) a); cbn [bind]; [|reflexivity].
    unfold route. destruct (multi f); [|reflexivity].
    unfold producer in E. apply find_some in E as [_ Hm].
    destruct (pos_str_nth o (outs f) Hm) as (i & E1 & E2).
    unfold orig_out. cbn [nf prim noorig]. rewrite E1, E2. reflexivity.
  Qed.
End Lift.

(* ------------------------------------------------------------------ more fuel never changes a value *)
Lemma mapM_ok_mono {A B} (f g : A -> result B) l r :
  mapM f l = Ok r -> (forall x y, In x l -> f x = Ok y -> g x = Ok y) -> mapM g l = Ok r.
Proof.
  revert r. induction l as [|x l IH]; intros r E H; cbn in *; [exact E|].
  destruct (f x) as [y|] eqn:Ex; [|discriminate]. cbn in E.
  destruct (mapM f l) as [ys|] eqn:El; [|discriminate]. cbn in E. injection E as <-.
  rewrite (H x y (or_introl eq_refl) Ex). cbn. rewrite (IH ys eq_refl); [reflexivity|].
  intros x0 y0 Hx0. apply H. right. exact Hx0.
Qed.

Section Mono.
  Variable body : str -> alist -> result str.
  Variable pick : str -> str -> str.

  Lemma args_with_mono (rec rec' : str -> result str) P kw f args :
    args_with rec P kw f = Ok args -> (forall c v, rec c = Ok v -> rec' c = Ok v) ->
    args_with rec' P kw f = Ok args.
  Proof.
    unfold args_with. intros E H. eapply mapM_ok_mono; [exact E|].
    intros [cur orig] y _. cbn [fst snd]. unfold arg_val.
    destruct (aget (bound f) cur); [auto|]. destruct (aget kw cur); [auto|].
    destruct (is_output P cur); [|auto].
    destruct (rec cur) as [v|] eqn:Er; cbn [bind]; [|discriminate]. rewrite (H cur v Er). auto.
  Qed.

  Lemma neval_mono : forall n p kw o v, neval body pick n p kw o = Ok v ->
    forall m, n <= m -> neval body pick m p kw o = Ok v.
  Proof.
    induction n as [|n IH]; intros p kw o v E m Hm; [discriminate|].
    destruct m as [|m]; [lia|]. cbn [neval] in *.
    destruct (nproducer p o) as [nd|]; [|discriminate].
    destruct (args_with (neval body pick n p kw) (funcs p) kw (nf nd)) as [args|] eqn:Ea; cbn [bind] in E; [|discriminate].
    rewrite (args_with_mono _ (neval body pick m p kw) _ _ _ _ Ea).
    2:{ intros c v0 Hc. apply (IH p kw c v0 Hc). lia. }
    cbn [bind]. destruct (ninner nd) as [inner|]; [|exact E].
    apply (IH inner args _ v E). lia.
  Qed.
End Mono.

(* ------------------------------------------------------------------ dotted keys vs nested dicts *)
(* in-place expansion of the dicts whose key is one of the scopes sc *)
Definition expand_entry (sc : list str) (kv : str * kval) : kwargs :=
  if mem_str (fst kv) sc then
    match snd kv with
    | KD d => map (fun nv => (fst kv ++ dot :: fst nv, KV (snd nv))) d
    | KV _ => [kv]
    end
  else [kv].
Definition expand (sc : list str) (kw : kwargs) : kwargs := flat_map (expand_entry sc) kw.
(* the flat keyword list a (partially nested) keyword set denotes *)
Definition flat_of (kw : kwargs) : alist :=
  flat_map (fun kv => match snd kv with
                      | KV v => [(fst kv, v)]
                      | KD d => map (fun nv => (fst kv ++ dot :: fst nv, snd nv)) d
                      end) kw.
(* every key that can ever appear: the raw keys and the dotted keys of the dict entries *)
Definition all_keys (kw : kwargs) : list str :=
  flat_map (fun kv => fst kv :: match snd kv with
                                | KD d => map (fun nv => fst kv ++ dot :: fst nv) d
                                | KV _ => []
                                end) kw.

Lemma kset_fresh (l : kwargs) k v : ~ In k (map fst l) -> kset l k v = l ++ [(k, v)].
Proof.
  induction l as [|[k' v'] l IH]; cbn; intros H; [reflexivity|].
  destruct (str_eqb k k') eqn:E.
  - apply str_eqb_eq in E. subst. exfalso. apply H. left. reflexivity.
  - rewrite IH; [reflexivity|]. intros Hin. apply H. right. exact Hin.
Qed.

Lemma fold_kset_fresh (a l : kwargs) :
  NoDup (map fst (a ++ l)) -> fold_left (fun a' kv => kset a' (fst kv) (snd kv)) l a = a ++ l.
Proof.
  revert a. induction l as [|[k v] l IH]; intros a H; cbn; [now rewrite app_nil_r|].
  rewrite kset_fresh.
  - rewrite IH; [now rewrite <- app_assoc|]. rewrite <- app_assoc. exact H.
  - rewrite map_app in H. apply NoDup_remove_2 in H. intros Hin. apply H. apply in_or_app. left. exact Hin.
Qed.

Lemma nodup_app_l {A} (a b : list A) : NoDup (a ++ b) -> NoDup a.
Proof. induction a as [|x a IH]; cbn; intros H; [constructor|]. inversion H; subst. constructor; [|auto]. intros Hin. apply H2. apply in_or_app. left. exact Hin. Qed.
Lemma nodup_app_r {A} (a b : list A) : NoDup (a ++ b) -> NoDup b.
Proof. induction a as [|x a IH]; cbn; intros H; [exact H|]. inversion H; subst. auto. Qed.
Lemma nodup_app_disj {A} (a b : list A) x : NoDup (a ++ b) -> In x a -> ~ In x b.
Proof.
  induction a as [|y a IH]; cbn; intros H Hx; [destruct Hx|]. inversion H; subst. destruct Hx as [<-|Hx].
  - intros Hin. apply H2. apply in_or_app. right. exact Hin.
  - apply IH; assumption.
Qed.
Lemma nodup_app_intro {A} (a b : list A) : NoDup a -> NoDup b -> (forall x, In x a -> ~ In x b) -> NoDup (a ++ b).
Proof.
  induction a as [|x a IH]; cbn; intros Ha Hb H; [exact Hb|]. inversion Ha; subst. constructor.
  - intros Hin. apply in_app_or in Hin as [Hin|Hin]; [contradiction|]. apply (H x (or_introl eq_refl)). exact Hin.
  - apply IH; [assumption|assumption|]. intros y Hy. apply H. right. exact Hy.
Qed.

Definition entry_keys (kv : str * kval) : list str :=
  fst kv :: match snd kv with KD d => map (fun nv => fst kv ++ dot :: fst nv) d | KV _ => [] end.
Lemma all_keys_cons kv kw : all_keys (kv :: kw) = entry_keys kv ++ all_keys kw.
Proof. reflexivity. Qed.
Lemma all_keys_app a b : all_keys (a ++ b) = all_keys a ++ all_keys b.
Proof. unfold all_keys. apply flat_map_app. Qed.
Lemma expand_cons sc kv kw : expand sc (kv :: kw) = expand_entry sc kv ++ expand sc kw.
Proof. reflexivity. Qed.
Lemma flat_of_app a b : flat_of (a ++ b) = flat_of a ++ flat_of b.
Proof. unfold flat_of. apply flat_map_app. Qed.

Lemma flat_of_entry sc kv : flat_of (expand_entry sc kv) = flat_of [kv].
Proof.
  destruct kv as [k v]. unfold expand_entry. cbn [fst snd]. destruct (mem_str k sc); [|reflexivity].
  destruct v as [v|d]; [reflexivity|]. unfold flat_of. cbn [flat_map fst snd]. rewrite app_nil_r.
  induction d as [|[n x] d IHd]; cbn; [reflexivity|]. now rewrite IHd.
Qed.

Lemma flat_of_expand sc kw : flat_of (expand sc kw) = flat_of kw.
Proof.
  induction kw as [|kv kw IH]; [reflexivity|].
  rewrite expand_cons, flat_of_app, IH, flat_of_entry. change (kv :: kw) with ([kv] ++ kw).
  rewrite flat_of_app. reflexivity.
Qed.

(* the keys of an expanded entry are among the keys of the entry, without repetition if those have none *)
Lemma entry_keys_expand sc kv :
  incl (all_keys (expand_entry sc kv)) (entry_keys kv)
  /\ (NoDup (entry_keys kv) -> NoDup (all_keys (expand_entry sc kv))).
Proof.
  destruct kv as [k v]. unfold expand_entry, entry_keys. cbn [fst snd]. destruct (mem_str k sc).
  - destruct v as [v|d].
    + cbn. split; [apply incl_refl|auto].
    + match goal with |- context [all_keys ?t] =>
        assert (E : all_keys t = map (fun nv : str * str => k ++ dot :: fst nv) d)
      end.
      { unfold all_keys. induction d as [|[n y] d IHd]; cbn [map flat_map fst snd app]; [reflexivity|].
        f_equal. exact IHd. }
      rewrite !E. split; [intros x Hx; right; exact Hx|]. intros H. inversion H; subst. assumption.
  - rewrite all_keys_cons. cbn [all_keys flat_map]. rewrite app_nil_r. split; [apply incl_refl|auto].
Qed.

Lemma all_keys_expand_incl sc kw : incl (all_keys (expand sc kw)) (all_keys kw).
Proof.
  induction kw as [|kv kw IH]; [apply incl_refl|].
  rewrite expand_cons, all_keys_app, all_keys_cons. intros x Hx. apply in_app_or in Hx as [Hx|Hx]; apply in_or_app.
  - left. apply (proj1 (entry_keys_expand sc kv)). exact Hx.
  - right. apply IH. exact Hx.
Qed.

Lemma all_keys_expand_nodup sc kw : NoDup (all_keys kw) -> NoDup (all_keys (expand sc kw)).
Proof.
  induction kw as [|kv kw IH]; intros H; [constructor|].
  rewrite all_keys_cons in H. rewrite expand_cons, all_keys_app.
  apply nodup_app_intro.
  - apply (proj2 (entry_keys_expand sc kv)). eapply nodup_app_l; eauto.
  - apply IH. eapply nodup_app_r; eauto.
  - intros x Hx Hin. apply (nodup_app_disj _ _ x H).
    + apply (proj1 (entry_keys_expand sc kv)). exact Hx.
    + apply all_keys_expand_incl in Hin. exact Hin.
Qed.

Lemma map_fst_incl_all_keys kw : incl (map fst kw) (all_keys kw).
Proof.
  induction kw as [|kv kw IH]; [apply incl_refl|]. rewrite all_keys_cons. cbn [map].
  intros x [<-|Hx]; [left; reflexivity|]. apply in_or_app. right. apply IH. exact Hx.
Qed.

Lemma nodup_map_fst kw : NoDup (all_keys kw) -> NoDup (map fst kw).
Proof.
  induction kw as [|kv kw IH]; intros H; [constructor|]. rewrite all_keys_cons in H. cbn [map].
  constructor.
  - intros Hin. apply (nodup_app_disj _ _ (fst kv) H); [left; reflexivity|]. apply map_fst_incl_all_keys. exact Hin.
  - apply IH. eapply nodup_app_r; eauto.
Qed.

(* one function: PipeFunc._flatten_scopes expands in place exactly the dicts of its own scopes *)
Lemma flatten1_expand f kw kw1 : flatten1 f kw = Ok kw1 -> NoDup (all_keys kw) -> kw1 = expand (param_scopes f) kw.
Proof.
  unfold flatten1. set (sc := param_scopes f). intros E Hnd.
  destruct (negb (existsb (fun kv => mem_str (fst kv) sc) kw)) eqn:Eex.
  - injection E as <-. apply negb_true_iff in Eex. clear Hnd.
    induction kw as [|kv kw IH]; [reflexivity|]. cbn in Eex. apply orb_false_iff in Eex as [E1 E2].
    rewrite expand_cons, <- (IH E2). unfold expand_entry. rewrite E1. reflexivity.
  - clear Eex.
    assert (G : forall l acc r,
              fold_left (fun acc kv => do a <- acc;
                                       if mem_str (fst kv) sc
                                       then match snd kv with
                                            | KD d => Ok (fold_left (fun a' nv => kset a' (fst kv ++ dot :: fst nv) (KV (snd nv))) d a)
                                            | KV _ => Err AttributeError
                                            end
                                       else Ok (kset a (fst kv) (snd kv))) l (Ok acc) = Ok r ->
              NoDup (map fst (acc ++ expand sc l)) -> r = acc ++ expand sc l).
    { induction l as [|[k v] l IH]; intros acc r E1 H1; cbn in E1.
      - injection E1 as <-. cbn. now rewrite app_nil_r.
      - rewrite expand_cons in H1. rewrite expand_cons. unfold expand_entry in *. cbn [fst snd] in *.
        destruct (mem_str k sc).
        + destruct v as [v|d].
          * exfalso. clear -E1. induction l as [|x l IHl]; cbn in E1; [discriminate|auto].
          * set (e := map (fun nv : str * str => (k ++ dot :: fst nv, KV (snd nv))) d) in *.
            assert (Ef : fold_left (fun a' nv => kset a' (k ++ dot :: fst nv) (KV (snd nv))) d acc = acc ++ e).
            { assert (Hn : NoDup (map fst (acc ++ e))).
              { pose proof H1 as H1'. rewrite app_assoc, map_app in H1'. apply nodup_app_l in H1'. exact H1'. }
              clear -Hn. unfold e in *. clear e. revert acc Hn.
              induction d as [|[n y] d IHd]; intros acc Hn; cbn; [now rewrite app_nil_r|].
              rewrite kset_fresh.
              - rewrite IHd; [now rewrite <- app_assoc|]. rewrite <- app_assoc. exact Hn.
              - cbn in Hn. rewrite map_app in Hn. cbn in Hn. apply NoDup_remove_2 in Hn.
                intros Hin. apply Hn. apply in_or_app. left. exact Hin. }
            rewrite Ef in E1. rewrite (IH (acc ++ e) r E1); [now rewrite <- app_assoc|].
            rewrite <- app_assoc. exact H1.
        + rewrite kset_fresh in E1.
          * rewrite (IH (acc ++ [(k, v)]) r E1); [now rewrite <- app_assoc|]. rewrite <- app_assoc. exact H1.
          * rewrite map_app in H1. cbn in H1. apply NoDup_remove_2 in H1. intros Hin. apply H1. apply in_or_app. left. exact Hin. }
    rewrite (G kw [] kw1 E); [reflexivity|]. cbn [app]. apply nodup_map_fst. apply all_keys_expand_nodup. exact Hnd.
Qed.

(* Pipeline._flatten_scopes: dicts are expanded in place, so the flat keyword list that the (partially nested)
   keywords denote never changes: nested dicts and dotted keys are two spellings of the same request *)
Theorem flatten_scopes_flat_of P : forall kw kw', flatten_scopes P kw = Ok kw' -> NoDup (all_keys kw) ->
  flat_of kw' = flat_of kw /\ NoDup (all_keys kw').
Proof.
  unfold flatten_scopes. induction P as [|f P IH]; intros kw kw' E H; cbn in E.
  - injection E as <-. auto.
  - destruct (flatten1 f kw) as [kw1|] eqn:E1.
    + pose proof (flatten1_expand f kw kw1 E1 H) as ->.
      destruct (IH _ kw' E (all_keys_expand_nodup _ _ H)) as [A B]. split; [|exact B].
      rewrite A. apply flat_of_expand.
    + exfalso. clear -E. induction P as [|g P IHP]; cbn in E; [discriminate|auto].
Qed.

(* when no dict is left the flat keywords the run uses are exactly the denoted ones; a dotted request is left alone *)
Lemma flat_vals_flat_of kw : forallb (fun kv => match snd kv with KV _ => true | KD _ => false end) kw = true ->
  flat_vals kw = flat_of kw.
Proof.
  induction kw as [|[k [v|d]] kw IH]; cbn [forallb snd andb]; intros H; [reflexivity| |discriminate].
  change (flat_vals ((k, KV v) :: kw)) with ((k, v) :: flat_vals kw).
  change (flat_of ((k, KV v) :: kw)) with ((k, v) :: flat_of kw). f_equal. apply IH. exact H.
Qed.
Lemma flat_of_dotted kw : flat_of (dotted kw) = kw.
Proof. unfold flat_of, dotted. induction kw as [|[k v] kw IH]; cbn; [reflexivity|]. now rewrite IH. Qed.

(* Pipeline.run validates its keywords before anything else; a rejection has an empty call log *)
Lemma nrun_checked_cases body pick p o kw :
  nrun_checked body pick p o kw = nrun body pick p o kw
  \/ exists e, nrun_checked body pick p o kw = (Err e, []).
Proof.
  unfold nrun_checked. destruct (negb (is_node (funcs p) o) || existsb _ kw); [now left|].
  destruct (flatten_scopes (funcs p) kw); [|now left].
  destruct (run_precheck (funcs p) o (flat_vals a)); [now left|right; eauto].
Qed.
