(* Proofs about Model/RewriteMap.v (C10, map side): add_mapspec_axis keeps every MapSpec well-formed, changes
   nothing but MapSpecs, and gives the new axis to every output of every function that depends on the parameter. *)
From Verif Require Import Base.Prelude Base.StrUtil Base.Index Base.NdArr Model.MapSpec Model.MapSpecSpec
  Model.MapRun Model.RewriteMap Proofs.StrFacts Proofs.MapSpecFacts.

(* ------------------------------------------------------------------ ArraySpec constructors *)
Lemma mk_aspec_ok n ax a : mk_aspec n ax = Ok a -> wf_aspec a = true /\ aname a = n /\ axes a = ax.
Proof.
  unfold mk_aspec. destruct (valid_name n && forallb valid_axis ax) eqn:E; [|discriminate].
  intros H. injection H as <-. unfold wf_aspec. cbn. auto.
Qed.

Lemma aspec_add_axes_ok a ax a' : aspec_add_axes a ax = Ok a' ->
  wf_aspec a' = true /\ aname a' = aname a /\ axes a' = axes a ++ ax.
Proof.
  unfold aspec_add_axes. destruct (existsb _ ax); [discriminate|]. apply mk_aspec_ok.
Qed.

Lemma mapM_inv {A B} (f : A -> result B) (P : A -> B -> Prop) :
  forall l r, mapM f l = Ok r -> (forall x y, In x l -> f x = Ok y -> P x y) -> Forall2 P l r.
Proof.
  induction l as [|x l IH]; intros r E H; cbn in E.
  - injection E as <-. constructor.
  - destruct (f x) as [y|] eqn:Ex; [|discriminate]. cbn in E.
    destruct (mapM f l) as [ys|] eqn:El; [|discriminate]. cbn in E. injection E as <-.
    constructor; [apply H; [left; reflexivity|exact Ex]|].
    apply IH; [reflexivity|]. intros. eapply H; eauto. right. assumption.
Qed.

Lemma has_axis_ext axis a a' : aname a' = aname a -> axes a' = axes a ++ [Some axis] -> has_axis axis a' = true.
Proof.
  intros _ H. unfold has_axis. rewrite H, existsb_app. cbn. unfold axis_eqb, opt_eqb. rewrite str_eqb_refl.
  now rewrite orb_true_r.
Qed.

(* ------------------------------------------------------------------ one function *)
(* a function's MapSpec is well-formed and names exactly the function's outputs *)
Definition spec_ok (f : mfunc) : bool :=
  match fspec f with
  | Some m => wf_decl m && list_eqb str_eqb (map aname (outs m)) (fouts f)
              && forallb wf_aspec (ins m) && forallb wf_aspec (outs m)
  | None => true
  end.

Lemma wf_decl_aspecs m : wf_decl m = true -> forallb wf_aspec (ins m) = true /\ forallb wf_aspec (outs m) = true.
Proof. unfold wf_decl. intros H. apply andb_true_iff in H as [H _]. apply andb_true_iff in H. exact H. Qed.

Lemma Forall2_forallb_wf l r (P : aspec -> aspec -> Prop) :
  Forall2 P l r -> (forall a b, P a b -> wf_aspec b = true) -> forallb wf_aspec r = true.
Proof. induction 1; intros H'; cbn; [reflexivity|]. rewrite (H' _ _ H), IHForall2; auto. Qed.

Lemma Forall2_names l r (P : aspec -> aspec -> Prop) :
  Forall2 P l r -> (forall a b, P a b -> aname b = aname a) -> map aname r = map aname l.
Proof. induction 1; intros H'; cbn; [reflexivity|]. rewrite (H' _ _ H), IHForall2; auto. Qed.

Lemma Forall2_axis axis l r (P : aspec -> aspec -> Prop) :
  Forall2 P l r -> (forall a b, P a b -> has_axis axis b = true) -> forallb (has_axis axis) r = true.
Proof. induction 1; intros H'; cbn; [reflexivity|]. rewrite (H' _ _ H), IHForall2; auto. Qed.

Lemma str_list_eqb_eq l l' : list_eqb str_eqb l l' = true <-> l = l'.
Proof. apply list_eqb_eq. apply str_eqb_eq. Qed.

(* the new MapSpec of a function: well-formed, same output names, the axis on every output *)
Lemma new_spec_ok f p dims axis ms : spec_ok f = true -> new_spec f p dims axis = Ok ms ->
  spec_ok (set_spec f ms) = true /\ forallb (has_axis axis) (outs ms) = true.
Proof.
  intros Hf E. unfold new_spec in E. unfold spec_ok, set_spec. cbn [fspec fouts].
  destruct (fspec f) as [m0|] eqn:Es.
  - unfold spec_ok in Hf. rewrite Es in Hf.
    apply andb_true_iff in Hf as [Hf Ho0]. apply andb_true_iff in Hf as [Hf Hi0].
    apply andb_true_iff in Hf as [Hwf Hn0]. apply str_list_eqb_eq in Hn0.
    destruct (if mem_str p (map aname (ins m0)) then _ else _) as [i|] eqn:Ei; cbn [bind] in E; [|discriminate].
    destruct (mapM _ (outs m0)) as [o|] eqn:Eo; cbn [bind] in E; [|discriminate].
    assert (Hi : forallb wf_aspec i = true).
    { destruct (mem_str p (map aname (ins m0))).
      - apply (mapM_inv _ (fun a b => wf_aspec a = true -> wf_aspec b = true)) in Ei.
        + clear -Ei Hi0. induction Ei; cbn in *; [reflexivity|].
          apply andb_true_iff in Hi0 as [H1 H2]. rewrite (H H1), (IHEi H2). reflexivity.
        + intros x y _ Hxy Hx. destruct (str_eqb (aname x) p && negb (has_axis axis x)).
          * apply aspec_add_axes_ok in Hxy. tauto.
          * injection Hxy as <-. exact Hx.
      - destruct (mk_aspec p (axes_from_dims p dims axis)) as [a|] eqn:Ea; cbn in Ei; [|discriminate].
        injection Ei as <-. rewrite forallb_app, Hi0. cbn. apply mk_aspec_ok in Ea. now rewrite (proj1 Ea). }
    assert (Ho : Forall2 (fun a b => (wf_aspec a = true -> wf_aspec b = true) /\ aname b = aname a
                                     /\ has_axis axis b = true) (outs m0) o).
    { apply (mapM_inv _ _ _ _ Eo). intros x y _ Hxy. destruct (has_axis axis x) eqn:Hx; cbn [negb] in Hxy.
      - injection Hxy as <-. auto.
      - apply aspec_add_axes_ok in Hxy as (H1 & H2 & H3). split; [auto|]. split; [exact H2|].
        eapply has_axis_ext; eauto. }
    assert (Hwo : forallb wf_aspec o = true).
    { clear -Ho Ho0. induction Ho; cbn in *; [reflexivity|]. apply andb_true_iff in Ho0 as [H1 H2].
      destruct H as (Ha & _ & _). rewrite (Ha H1), (IHHo H2). reflexivity. }
    rewrite (mk_mapspec_wf i o Hi Hwo) in E.
    destruct (wf_decl {| ins := i; outs := o |}) eqn:Ew; [|destruct o; discriminate].
    injection E as <-. cbn [ins outs]. rewrite Ew, Hi, Hwo. cbn [andb].
    assert (Hnm : map aname o = map aname (outs m0)).
    { clear -Ho. induction Ho; cbn; [reflexivity|]. destruct H as (_ & -> & _). now rewrite IHHo. }
    rewrite Hnm, Hn0. split.
    + rewrite (proj2 (str_list_eqb_eq _ _) eq_refl). reflexivity.
    + clear -Ho. induction Ho; cbn; [reflexivity|]. destruct H as (_ & _ & ->). exact IHHo.
  - destruct (mk_aspec p (axes_from_dims p dims axis)) as [i|] eqn:Ei; cbn [bind] in E; [|discriminate].
    destruct (mapM (fun n => mk_aspec n [Some axis]) (fouts f)) as [o|] eqn:Eo; cbn [bind] in E; [|discriminate].
    assert (Ho : Forall2 (fun n b => wf_aspec b = true /\ aname b = n /\ axes b = [Some axis]) (fouts f) o).
    { apply (mapM_inv _ _ _ _ Eo). intros x y _ Hxy. apply mk_aspec_ok in Hxy. exact Hxy. }
    assert (Hwo : forallb wf_aspec o = true).
    { clear -Ho. induction Ho; cbn; [reflexivity|]. destruct H as (-> & _ & _). exact IHHo. }
    assert (Hi : forallb wf_aspec [i] = true).
    { cbn. apply mk_aspec_ok in Ei. now rewrite (proj1 Ei). }
    rewrite (mk_mapspec_wf [i] o Hi Hwo) in E.
    destruct (wf_decl {| ins := [i]; outs := o |}) eqn:Ew; [|destruct o; discriminate].
    injection E as <-. cbn [ins outs]. rewrite Ew, Hwo, Hi. cbn [andb].
    assert (Hnm : map aname o = fouts f).
    { clear -Ho. induction Ho; cbn; [reflexivity|]. destruct H as (_ & -> & _). now rewrite IHHo. }
    rewrite Hnm. split.
    + rewrite (proj2 (str_list_eqb_eq _ _) eq_refl). reflexivity.
    + clear -Ho. induction Ho; cbn; [reflexivity|]. destruct H as (_ & _ & Hax).
      unfold has_axis at 1. rewrite Hax. cbn. unfold axis_eqb, opt_eqb. rewrite str_eqb_refl. exact IHHo.
Qed.

(* ------------------------------------------------------------------ monadic folds *)
Lemma foldM_err {S A} (F : S -> A -> result S) l e :
  fold_left (fun acc x => do s <- acc; F s x) l (Err e) = Err e.
Proof. induction l as [|x l IH]; cbn; [reflexivity|exact IH]. Qed.

Lemma foldM_inv {S A} (F : S -> A -> result S) (Inv : S -> Prop) (Rel : S -> S -> Prop) :
  (forall s, Rel s s) -> (forall a b c, Rel a b -> Rel b c -> Rel a c) ->
  forall l st st', fold_left (fun acc x => do s <- acc; F s x) l (Ok st) = Ok st' -> Inv st ->
  (forall s x s1, In x l -> Inv s -> F s x = Ok s1 -> Inv s1 /\ Rel s s1) ->
  Inv st' /\ Rel st st'.
Proof.
  intros Hr Ht. induction l as [|x l IH]; intros st st' E Hi Hs; cbn in E.
  - injection E as <-. auto.
  - destruct (F st x) as [s1|e] eqn:E1; [|rewrite foldM_err in E; discriminate].
    destruct (Hs st x s1 (or_introl eq_refl) Hi E1) as [Hi1 R1].
    destruct (IH s1 st' E Hi1) as [Hi' R'].
    + intros s y s2 Hy. apply Hs. right. exact Hy.
    + split; [exact Hi'|]. eapply Ht; eauto.
Qed.

Lemma foldM_each {S A} (F : S -> A -> result S) (Inv : S -> Prop) (Rel : S -> S -> Prop) (Q : A -> S -> Prop) :
  (forall s, Rel s s) -> (forall a b c, Rel a b -> Rel b c -> Rel a c) ->
  (forall x s s1, Rel s s1 -> Q x s -> Q x s1) ->
  forall l st st', fold_left (fun acc x => do s <- acc; F s x) l (Ok st) = Ok st' -> Inv st ->
  (forall s x s1, In x l -> Inv s -> F s x = Ok s1 -> Inv s1 /\ Rel s s1 /\ Q x s1) ->
  forall x, In x l -> Q x st'.
Proof.
  intros Hr Ht Hst. induction l as [|y l IH]; intros st st' E Hi Hs x Hx; [destruct Hx|].
  cbn in E. destruct (F st y) as [s1|e] eqn:E1; [|rewrite foldM_err in E; discriminate].
  destruct (Hs st y s1 (or_introl eq_refl) Hi E1) as (Hi1 & R1 & Q1).
  assert (Hs' : forall s x0 s2, In x0 l -> Inv s -> F s x0 = Ok s2 -> Inv s2 /\ Rel s s2 /\ Q x0 s2).
  { intros s x0 s2 Hx0. apply Hs. right. exact Hx0. }
  destruct Hx as [<-|Hx].
  - destruct (foldM_inv F Inv Rel Hr Ht l s1 st' E Hi1) as [_ R'].
    + intros s x0 s2 Hx0 Hi0 E0. destruct (Hs' s x0 s2 Hx0 Hi0 E0) as (A1 & A2 & _). auto.
    + eapply Hst; eauto.
  - eapply IH; eauto.
Qed.

(* ------------------------------------------------------------------ the recursion *)
Definition same_sig (f g : mfunc) : Prop :=
  fname g = fname f /\ fouts g = fouts f /\ fparams g = fparams f /\ fbound g = fbound f
  /\ fdefaults g = fdefaults f /\ fint g = fint f /\ fret g = fret f.
Definition good (axis : str) (f : mfunc) : Prop :=
  exists ms, fspec f = Some ms /\ forallb (has_axis axis) (outs ms) = true.
(* only the MapSpec may change, and if it does the function carries the axis on all outputs *)
Definition upd (axis : str) (f g : mfunc) : Prop := same_sig f g /\ (fspec g = fspec f \/ good axis g).

Lemma same_sig_refl f : same_sig f f.
Proof. repeat split. Qed.
Lemma same_sig_trans f g h : same_sig f g -> same_sig g h -> same_sig f h.
Proof. unfold same_sig. intuition congruence. Qed.
Lemma upd_refl axis f : upd axis f f.
Proof. split; [apply same_sig_refl|left; reflexivity]. Qed.
Lemma upd_trans axis f g h : upd axis f g -> upd axis g h -> upd axis f h.
Proof.
  intros [S1 C1] [S2 C2]. split; [eapply same_sig_trans; eauto|].
  destruct C2 as [C2|C2]; [|right; exact C2].
  destruct C1 as [C1|C1]; [left; congruence|]. right. destruct C1 as (ms & E & H). exists ms. split; [congruence|exact H].
Qed.
Lemma upd_good axis f g : upd axis f g -> good axis f -> good axis g.
Proof.
  intros [_ [C|C]] G; [|exact C]. destruct G as (ms & E & H). exists ms. split; [congruence|exact H].
Qed.

Lemma Forall2_refl {A} (R : A -> A -> Prop) : (forall x, R x x) -> forall l, Forall2 R l l.
Proof. intros H. induction l; constructor; auto. Qed.
Lemma Forall2_trans {A} (R : A -> A -> Prop) : (forall x y z, R x y -> R y z -> R x z) ->
  forall l1 l2 l3, Forall2 R l1 l2 -> Forall2 R l2 l3 -> Forall2 R l1 l3.
Proof.
  intros H l1 l2 l3 H1. revert l3. induction H1; intros l3 H2; inversion H2; subst; constructor; eauto.
Qed.
Lemma Forall2_nth {A} (R : A -> A -> Prop) l l' i x : Forall2 R l l' -> nth_error l i = Some x ->
  exists y, nth_error l' i = Some y /\ R x y.
Proof.
  intros H. revert i. induction H; intros [|i] E; cbn in *; try discriminate.
  - injection E as <-. eauto.
  - apply IHForall2. exact E.
Qed.
Lemma Forall2_nth_r {A} (R : A -> A -> Prop) l l' i y : Forall2 R l l' -> nth_error l' i = Some y ->
  exists x, nth_error l i = Some x /\ R x y.
Proof.
  intros H. revert i. induction H; intros [|i] E; cbn in *; try discriminate.
  - injection E as <-. eauto.
  - apply IHForall2. exact E.
Qed.
Lemma Forall2_set_nth {A} (R : A -> A -> Prop) l i x y : (forall z, R z z) -> nth_error l i = Some x -> R x y ->
  Forall2 R l (set_nth l i y).
Proof.
  intros Hr. revert i. induction l as [|a l IH]; intros [|i] E Hxy; cbn in *; try discriminate.
  - injection E as ->. constructor; [exact Hxy|]. apply Forall2_refl. exact Hr.
  - constructor; [apply Hr|]. apply IH; assumption.
Qed.
Lemma nth_set_nth_same {A} (l : list A) : forall i x y, nth_error l i = Some x -> nth_error (set_nth l i y) i = Some y.
Proof. induction l as [|a l IH]; intros [|i] x y E; cbn in *; try discriminate; eauto. Qed.
Lemma Forall_set_nth {A} (P : A -> Prop) l : forall i y, Forall P l -> P y -> Forall P (set_nth l i y).
Proof.
  induction l as [|a l IH]; intros [|i] y H Hy; cbn; auto; inversion H; subst; constructor; auto.
Qed.

Definition consumer (q : str) (f : mfunc) : Prop := mem_str q (fparams f) = true /\ dict_get (fbound f) q = None.
Lemma consumer_sig q f g : same_sig f g -> consumer q f -> consumer q g.
Proof. intros (_ & _ & Hp & Hb & _) [H1 H2]. unfold consumer. rewrite Hp, Hb. auto. Qed.

(* position i depends on parameter q: its function takes q (unbound), or an output of a function that takes q *)
Inductive depi (l : mpipe) : str -> nat -> Prop :=
| depi_direct q i f : nth_error l i = Some f -> consumer q f -> depi l q i
| depi_via q j g o i : nth_error l j = Some g -> consumer q g -> In o (fouts g) -> depi l o i -> depi l q i.

Lemma depi_sig l l' q i : Forall2 same_sig l l' -> depi l q i -> depi l' q i.
Proof.
  intros H D. induction D.
  - destruct (Forall2_nth _ _ _ _ _ H H0) as (y & Ey & Sy). eapply depi_direct; eauto. eapply consumer_sig; eauto.
  - destruct (Forall2_nth _ _ _ _ _ H H0) as (y & Ey & Sy). eapply depi_via; eauto.
    + eapply consumer_sig; eauto.
    + destruct Sy as (_ & Ho & _). rewrite Ho. exact H2.
Qed.

Definition goodi (axis : str) (l : mpipe) (i : nat) : Prop := exists f, nth_error l i = Some f /\ good axis f.

Section Go.
  Variable axis : str.
  Definition St := (mpipe * dims_t)%type.
  Definition Inv (st : St) : Prop := Forall (fun f => spec_ok f = true) (fst st).
  Definition Rel (a b : St) : Prop := Forall2 (upd axis) (fst a) (fst b).

  Lemma Rel_refl s : Rel s s.
  Proof. apply Forall2_refl. apply upd_refl. Qed.
  Lemma Rel_trans a b c : Rel a b -> Rel b c -> Rel a c.
  Proof. apply Forall2_trans. apply upd_trans. Qed.
  Lemma Rel_sig a b : Rel a b -> Forall2 same_sig (fst a) (fst b).
  Proof. unfold Rel. induction 1; constructor; auto. destruct H. assumption. Qed.
  Lemma Rel_goodi a b i : Rel a b -> goodi axis (fst a) i -> goodi axis (fst b) i.
  Proof.
    intros R (f & E & G). destruct (Forall2_nth _ _ _ _ _ R E) as (g & Eg & U). exists g. split; [exact Eg|].
    eapply upd_good; eauto.
  Qed.

  (* add_axis_go: only MapSpecs change, all stay well-formed, and every position that depends on q ends up
     with the axis on all its outputs *)
  Lemma add_axis_go_ok : forall n q st st', add_axis_go n q axis st = Ok st' -> Inv st ->
    Inv st' /\ Rel st st' /\ (forall i, depi (fst st) q i -> goodi axis (fst st') i).
  Proof.
    induction n as [|n IH]; intros q st st' E Hi; [discriminate|].
    cbn [add_axis_go] in E.
    set (L := fst st) in *.
    set (Inv' := fun s : St => Inv s /\ Forall2 same_sig L (fst s)).
    set (G := fun (st1 : St) (i : nat) =>
                match nth_error (fst st1) i with
                | None => Ok st1
                | Some f =>
                    if negb (mem_str q (fparams f)) || is_ok (match dict_get (fbound f) q with
                                                              | Some v => Ok v | None => Err KeyError end)
                    then Ok st1
                    else
                      do ms <- new_spec f q (snd st1) axis;
                      fold_left (fun acc2 o =>
                                   do st2 <- acc2;
                                   add_axis_go n (aname o) axis (fst st2, dict_set (snd st2) (aname o) (length (axes o))))
                                (outs ms) (Ok (set_nth (fst st1) i (set_spec f ms), snd st1))
                end) in *.
    change (fold_left (fun acc i => do st1 <- acc; G st1 i) (seq 0 (length L)) (Ok st) = Ok st') in E.
    assert (Inv'_rel : forall a b, Inv' a -> Inv b -> Rel a b -> Inv' b).
    { intros a b [_ Sa] Ib Rab. split; [exact Ib|]. eapply Forall2_trans; [apply same_sig_trans|exact Sa|]. apply Rel_sig. exact Rab. }
    set (Qo := fun (i : nat) (s1 : St) =>
                 forall f, nth_error L i = Some f -> consumer q f ->
                           goodi axis (fst s1) i /\ forall o k, In o (fouts f) -> depi L o k -> goodi axis (fst s1) k).
    (* one outer step *)
    assert (HG : forall s i s1, Inv' s -> G s i = Ok s1 -> Inv' s1 /\ Rel s s1 /\ Qo i s1).
    { intros s i s1 His' EG. pose proof His' as [His HsL]. unfold G in EG.
      destruct (nth_error (fst s) i) as [f|] eqn:Ef.
      2:{ injection EG as <-. split; [exact His'|]. split; [apply Rel_refl|]. intros f0 E0.
          destruct (Forall2_nth _ _ _ _ _ HsL E0) as (y & Ey & _). congruence. }
      destruct (negb (mem_str q (fparams f)) || is_ok _) eqn:Ec.
      { injection EG as <-. split; [exact His'|]. split; [apply Rel_refl|].
        intros f0 E0 C0. destruct (Forall2_nth _ _ _ _ _ HsL E0) as (y & Ey & Sy).
        assert (y = f) by congruence. subst y. destruct (consumer_sig q f0 f Sy C0) as [C1 C2].
        rewrite C1, C2 in Ec. discriminate. }
      destruct (new_spec f q (snd s) axis) as [ms|] eqn:Ems; cbn [bind] in EG; [|discriminate].
      assert (Hsf : spec_ok f = true).
      { unfold Inv in His. rewrite Forall_forall in His. apply His. eapply nth_error_In; eauto. }
      destruct (new_spec_ok f q (snd s) axis ms Hsf Ems) as [Hok Hax].
      set (s0 := (set_nth (fst s) i (set_spec f ms), snd s) : St) in *.
      assert (Hi0 : Inv s0). { unfold Inv, s0. cbn [fst]. apply Forall_set_nth; auto. }
      assert (Hu : upd axis f (set_spec f ms)).
      { split; [repeat split|]. right. exists ms. split; [reflexivity|exact Hax]. }
      assert (R0 : Rel s s0). { unfold Rel, s0. cbn [fst]. eapply Forall2_set_nth; eauto. apply upd_refl. }
      assert (Hi0' : Inv' s0) by (eapply Inv'_rel; eauto).
      assert (G0 : goodi axis (fst s0) i).
      { exists (set_spec f ms). split; [unfold s0; cbn [fst]; eapply nth_set_nth_same; eauto|].
        exists ms. split; [reflexivity|exact Hax]. }
      (* the inner fold over the outputs *)
      set (H := fun (st2 : St) (o : aspec) =>
                  add_axis_go n (aname o) axis (fst st2, dict_set (snd st2) (aname o) (length (axes o)))) in *.
      change (fold_left (fun acc2 o => do st2 <- acc2; H st2 o) (outs ms) (Ok s0) = Ok s1) in EG.
      assert (HH : forall s2 o s3, In o (outs ms) -> Inv' s2 -> H s2 o = Ok s3 ->
                   Inv' s3 /\ Rel s2 s3 /\ (forall k, depi L (aname o) k -> goodi axis (fst s3) k)).
      { intros s2 o s3 _ Hi2' E2. pose proof Hi2' as [Hi2 Hs2]. unfold H in E2. apply IH in E2; [|exact Hi2].
        cbn [fst] in E2. destruct E2 as (A & B & C). split; [eapply Inv'_rel; eauto|]. split; [exact B|].
        intros k Dk. apply C. eapply depi_sig; eauto. }
      destruct (foldM_inv H Inv' Rel Rel_refl Rel_trans (outs ms) s0 s1 EG Hi0') as [Hi1 R1].
      { intros s2 o s3 Ho Hi2 E2. destruct (HH s2 o s3 Ho Hi2 E2) as (A & B & _). auto. }
      split; [exact Hi1|]. split; [eapply Rel_trans; eauto|].
      intros f0 E0 C0. destruct (Forall2_nth _ _ _ _ _ HsL E0) as (y & Ey & Sy).
      assert (y = f) by congruence. subst y.
      split; [eapply Rel_goodi; eauto|].
      intros o k Ho Dk.
      assert (Hnames : map aname (outs ms) = fouts f0).
      { unfold spec_ok, set_spec in Hok. cbn [fspec fouts] in Hok.
        apply andb_true_iff in Hok as [Hok _]. apply andb_true_iff in Hok as [Hok _].
        apply andb_true_iff in Hok as [_ Hn]. apply str_list_eqb_eq in Hn. destruct Sy as (_ & Hof & _). congruence. }
      rewrite <- Hnames in Ho. apply in_map_iff in Ho as (oa & <- & Hoa).
      apply (foldM_each H Inv' Rel (fun o0 s3 => forall k0, depi L (aname o0) k0 -> goodi axis (fst s3) k0)
                        Rel_refl Rel_trans) with (l := outs ms) (st := s0) (st' := s1) (x := oa);
        [intros x a b Rab Qa k0 D0; eapply Rel_goodi; eauto | exact EG | exact Hi0' | exact HH | exact Hoa | exact Dk]. }
    assert (HiL : Inv' st). { split; [exact Hi|]. apply Forall2_refl. apply same_sig_refl. }
    destruct (foldM_inv G Inv' Rel Rel_refl Rel_trans (seq 0 (length L)) st st' E HiL) as [[Hi' _] R'].
    { intros s i s1 _ His EG. destruct (HG s i s1 His EG) as (A & B & _). auto. }
    split; [exact Hi'|]. split; [exact R'|].
    intros k Dk.
    assert (Hall : forall i, In i (seq 0 (length L)) -> Qo i st').
    { apply (foldM_each G Inv' Rel Qo Rel_refl Rel_trans) with (st := st);
        [|exact E|exact HiL|intros s i s1 _ His EG; apply HG; assumption].
      intros i a b Rab Qa f Ef Cf. destruct (Qa f Ef Cf) as [Q1 Q2]. split; [eapply Rel_goodi; eauto|].
      intros o k0 Ho D0. eapply Rel_goodi; eauto. }
    inversion Dk as [q0 i0 f Ef Cf|q0 j g o i0 Eg Cg Ho Do]; subst.
    - assert (Hk : In k (seq 0 (length L))).
      { apply in_seq. split; [lia|]. cbn. apply nth_error_Some. congruence. }
      destruct (Hall k Hk f Ef Cf) as [Q1 _]. exact Q1.
    - assert (Hj : In j (seq 0 (length L))).
      { apply in_seq. split; [lia|]. cbn. apply nth_error_Some. congruence. }
      destruct (Hall j Hj g Eg Cg) as [_ Q2]. eapply Q2; eauto.
  Qed.
End Go.

(* ------------------------------------------------------------------ add_mapspec_axis *)
Theorem add_axis_wf params axis p p' :
  Forall (fun f => spec_ok f = true) p -> add_axis params axis p = Ok p' ->
  Forall2 (upd axis) p p'
  /\ Forall (fun f => spec_ok f = true) p'
  /\ consistent_axes p' = true
  /\ (forall q i, In q params -> depi p q i -> goodi axis p' i).
Proof.
  intros Hp E. unfold add_axis in E.
  set (F := fun (fs : mpipe) (q : str) =>
              do r <- add_axis_go (S (length fs)) q axis (fs, init_dims q axis fs); Ok (fst r)).
  change ((do p1 <- fold_left (fun acc q => do fs <- acc; F fs q) params (Ok p);
           if consistent_axes p1 then Ok p1 else Err ValueError) = Ok p') in E.
  destruct (fold_left (fun acc q => do fs <- acc; F fs q) params (Ok p)) as [p1|] eqn:EF; cbn [bind] in E; [|discriminate].
  destruct (consistent_axes p1) eqn:Ec; [|discriminate]. injection E as <-.
  set (Inv1 := fun fs : mpipe => Forall (fun f => spec_ok f = true) fs /\ Forall2 same_sig p fs).
  set (Rel1 := fun a b : mpipe => Forall2 (upd axis) a b).
  assert (Rr : forall s, Rel1 s s) by (intros; apply Forall2_refl; apply upd_refl).
  assert (Rt : forall a b c, Rel1 a b -> Rel1 b c -> Rel1 a c) by (intros a b c; apply Forall2_trans; apply upd_trans).
  assert (Hstep : forall s q s1, In q params -> Inv1 s -> F s q = Ok s1 ->
                  Inv1 s1 /\ Rel1 s s1 /\ (forall i, depi p q i -> goodi axis s1 i)).
  { intros s q s1 _ [Hs1 Hs2] E1. unfold F in E1.
    destruct (add_axis_go (S (length s)) q axis (s, init_dims q axis s)) as [r|] eqn:Eg; cbn [bind] in E1; [|discriminate].
    injection E1 as <-. apply add_axis_go_ok in Eg; [|exact Hs1]. cbn [fst] in Eg. destruct Eg as (A & B & C).
    split; [split; [exact A|]|].
    - eapply Forall2_trans; [apply same_sig_trans|exact Hs2|]. apply (Rel_sig axis (s, init_dims q axis s) r). exact B.
    - split; [exact B|]. intros i D. apply C. eapply depi_sig; eauto. }
  assert (Hi0 : Inv1 p). { split; [exact Hp|]. apply Forall2_refl. apply same_sig_refl. }
  destruct (foldM_inv F Inv1 Rel1 Rr Rt params p p1 EF Hi0) as [[Hi1 _] R1].
  { intros s q s1 Hq Hs E1. destruct (Hstep s q s1 Hq Hs E1) as (A & B & _). auto. }
  split; [exact R1|]. split; [exact Hi1|]. split; [exact Ec|].
  intros q i Hq D.
  apply (foldM_each F Inv1 Rel1 (fun q0 s1 => forall i0, depi p q0 i0 -> goodi axis s1 i0) Rr Rt)
    with (l := params) (st := p) (st' := p1) (x := q);
    [|exact EF|exact Hi0|exact Hstep|exact Hq|exact D].
  intros x a b Rab Qa i0 D0. destruct (Qa i0 D0) as (f & Ef & G).
  destruct (Forall2_nth _ _ _ _ _ Rab Ef) as (g & Eg & U). exists g. split; [exact Eg|]. eapply upd_good; eauto.
Qed.

(* a concrete instance: x[i] -> y[i] ; y taken whole by an unmapped consumer *)
Example add_axis_instance :
  let A n ax := {| aname := n; axes := ax |} in
  let f := {| fname := s "f"; fouts := [s "y"]; fparams := [s "x"]; fbound := []; fdefaults := [];
              fspec := Some {| ins := [A (s "x") [Some (s "i")]]; outs := [A (s "y") [Some (s "i")]] |};
              fint := []; fret := [] |} in
  let g := {| fname := s "g"; fouts := [s "z"]; fparams := [s "y"; s "c"]; fbound := []; fdefaults := [];
              fspec := None; fint := []; fret := [] |} in
  Forall (fun h => spec_ok h = true) [f; g]
  /\ exists p', add_axis [s "x"] (s "k") [f; g] = Ok p'
     /\ map (fun h => option_map print (fspec h)) p'
        = [Some (s "x[i, k] -> y[i, k]"); Some (s "y[:, k] -> z[k]")]
     /\ depi [f; g] (s "x") 1.
Proof.
  cbv zeta. split; [repeat constructor|].
  eexists. split; [vm_compute; reflexivity|]. split; [vm_compute; reflexivity|].
  eapply depi_via with (j := 0) (o := s "y"); [reflexivity| split; reflexivity | left; reflexivity |].
  eapply depi_direct; [reflexivity|split; reflexivity].
Qed.
