(* Pipeline.root_args (Pipe.root_args: the all-root element of the model `cam` of _compute_arg_mapping) on a
   well-formed pipeline: it exists for every output, consists of non-outputs, and contains every name the output
   reads from the keywords / defaults (every unbound non-output parameter of a function reachable through unbound
   parameters).  Hence  wf_pipeline p -> roots_okb p = true : the side condition of the C09 theorems is discharged.
   Built on the frontier machinery of Proofs/ArgCombFacts.v (Conn / Frontier / frontier_step). *)
From Verif Require Import Base.Prelude Base.StrOrd Base.Graph Model.Pipe Model.CacheSem Proofs.GraphFacts Proofs.PipeFacts
  Proofs.ArgCombFacts.
From Verif Require Proofs.CacheSemBase.

Lemma filter_len_le {A} (f : A -> bool) (l : list A) : length (filter f l) <= length l.
Proof. induction l as [|a l IH]; [apply le_n|]. cbn. destruct (f a); cbn; lia. Qed.

Definition outside_in (q : list pfunc) (E : list pfunc) : nat :=
  length (filter (fun f => negb (existsb (fun e => str_eqb (fid e) (fid f)) E)) q).

Lemma outside_in_le q E g : outside_in q (E ++ [g]) <= outside_in q E.
Proof.
  unfold outside_in. induction q as [|h q IH]; [apply le_n|]. cbn [filter]. rewrite existsb_app. cbn [existsb].
  rewrite orb_false_r. destruct (existsb (fun e => str_eqb (fid e) (fid h)) E); cbn; [exact IH|].
  destruct (str_eqb (fid g) (fid h)); cbn; lia.
Qed.

Lemma outside_in_step q E g : In g q -> existsb (fun e => str_eqb (fid e) (fid g)) E = false ->
  outside_in q (E ++ [g]) < outside_in q E.
Proof.
  intros Hg Hn. induction q as [|f q IH]; [destruct Hg|].
  pose proof (outside_in_le q E g) as Hle. unfold outside_in in *.
  cbn [filter]. rewrite existsb_app. cbn [existsb]. rewrite orb_false_r.
  destruct Hg as [->|Hg].
  - rewrite Hn, str_eqb_refl. cbn. lia.
  - specialize (IH Hg). destruct (existsb (fun e => str_eqb (fid e) (fid f)) E); cbn; [exact IH|].
    destruct (str_eqb (fid g) (fid f)); cbn; lia.
Qed.

Section Roots.
  Variable p : pipeline.
  Variable ls : list (list str).
  Hypothesis Hwf : wf_P p ls.
  Variable o : str.
  Variable head : pfunc.
  Hypothesis Hhead : producer p o = Some head.

  Notation CONN := (Conn p head).
  Notation FRONT := (Frontier p).

  (* a function node of the frontier contributes at least one name, and that name is one of its outputs *)
  Lemma func_dep_names E deps d g : CONN E -> FRONT E deps -> In d deps -> node_func p d = Some g ->
    exists k, In k (outs g) /\ in_names p E deps k.
  Proof.
    intros HC HF Hd Hn. pose proof Hn as Hn'. apply (node_func_Some p) in Hn' as [Hg Hfid].
    pose proof Hd as Hd'. apply HF in Hd' as [[e [He Hp]] _].
    apply (fpreds_In p) in Hp as [cur [Hcur [Eb [[g' [Eg Ef]]|[Eg Ef]]]]].
    - pose proof (producer_Some _ _ _ Eg) as [Hg' Hco].
      assert (g' = g) by (apply (fid_inj p ls Hwf); auto; congruence). subst g'.
      exists cur. split; [assumption|]. exists d. split; [assumption|]. right. exists g. split; [assumption|].
      split; [assumption|]. intros _. exists e. auto.
    - exfalso. eapply producer_None; eauto. rewrite <- Ef, <- Hfid. apply fid_in_outs.
      apply (wff_outs_ne _ (wf_funcs _ _ Hwf g Hg)).
  Qed.

  (* ---------- 1. an all-root combination covers what the output reads ---------- *)
  Section Covers.
    Variable E : list pfunc.
    Variable deps : list str.
    Hypothesis HC : CONN E.
    Hypothesis HF : FRONT E deps.
    Hypothesis Hroot : all_root p (names_of p E deps) = true.

    Lemma name_not_output k : in_names p E deps k -> is_output p k = false.
    Proof.
      intros Hk. apply (names_of_In p) in Hk. unfold all_root in Hroot. rewrite forallb_forall in Hroot.
      specialize (Hroot k Hk). now apply negb_true_iff in Hroot.
    Qed.

    Lemma deps_are_roots d : In d deps -> node_func p d = None.
    Proof.
      intros Hd. destruct (node_func p d) as [g|] eqn:Hn; [|reflexivity]. exfalso.
      destruct (func_dep_names E deps d g HC HF Hd Hn) as [k [Hk Hin]].
      apply name_not_output in Hin. apply is_output_false in Hin.
      apply (node_func_Some p) in Hn as [Hg _]. eapply producer_None; eauto.
    Qed.

    (* E is closed under "reads an output of" *)
    Lemma E_closed e cur g : In e E -> In cur (pnames e) -> aget (bound e) cur = None -> producer p cur = Some g -> In g E.
    Proof.
      intros He Hcur Eb Eg. pose proof (producer_Some _ _ _ Eg) as [Hg _].
      destruct (existsb (fun e' => str_eqb (fid e') (fid g)) E) eqn:Ex.
      - apply existsb_exists in Ex as [e' [He' Ef]]. apply str_eqb_eq in Ef.
        assert (e' = g) by (apply (fid_inj p ls Hwf); auto; eapply (Conn_in_p p o head Hhead); eauto). now subst e'.
      - exfalso. assert (Hd : In (fid g) deps).
        { apply HF. split.
          - exists e. split; [assumption|]. apply (fpreds_In p). exists cur. repeat split; auto. left. eauto.
          - intros [e' [He' Ef]]. assert (Ht : existsb (fun e' => str_eqb (fid e') (fid g)) E = true).
            { apply existsb_exists. exists e'. split; [assumption|]. now apply str_eqb_eq. }
            congruence. }
        apply deps_are_roots in Hd. rewrite (node_func_fid p ls Hwf g Hg) in Hd. discriminate.
    Qed.

    Lemma covers : forall M n e, producer p n = Some e -> In e E -> reads_ok M p (names_of p E deps) n = true.
    Proof.
      induction M as [|M IH]; intros n e Hn He; [reflexivity|].
      cbn [reads_ok]. rewrite Hn. apply forallb_forall. intros cur Hcur.
      destruct (ahas (bound e) cur) eqn:Eb; [reflexivity|]. apply ahas_false_iff in Eb.
      destruct (is_output p cur) eqn:Eo.
      - apply is_output_true in Eo as [g Eg]. apply (IH cur g Eg). eapply E_closed; eauto.
      - apply mem_str_In. apply (names_of_In p). exists cur. apply is_output_false in Eo. split.
        + apply HF. split.
          * exists e. split; [assumption|]. apply (fpreds_In p). exists cur. repeat split; auto.
          * intros [e' [He' Ef]]. eapply producer_None; eauto; [eapply (Conn_in_p p o head Hhead); eauto|].
            rewrite <- Ef. apply fid_in_outs. apply (wff_outs_ne _ (wf_funcs _ _ Hwf e' (Conn_in_p p o head Hhead E HC _ He'))).
        + left. split; [|reflexivity]. apply (node_func_root p ls Hwf). now apply is_output_false.
    Qed.
  End Covers.

  Definition Qc (c : list str) : Prop := all_root p c = true -> forall M, reads_ok M p c o = true.

  Lemma state_Qc E deps : CONN E -> FRONT E deps -> Qc (names_of p E deps).
  Proof.
    intros HC HF Hr M. apply (covers E deps HC HF Hr M o head Hhead). eapply Conn_head; eauto.
  Qed.

  Lemma cam_Qc : forall fuel node args replaced acc,
    CONN (replaced ++ [node]) ->
    FRONT (replaced ++ [node])
          (unique_nodes p (args ++ filter (fun d => negb (existsb (fun r => str_eqb (fid r) d) replaced)) (fpreds p node))) ->
    (forall c, In c acc -> Qc c) ->
    forall c, In c (cam fuel p (Some node) args replaced acc) -> Qc c.
  Proof.
    induction fuel as [|fuel IH]; intros node args replaced acc HC HF Hacc c Hc; [cbn in Hc; auto|].
    cbn [cam] in Hc.
    set (E := replaced ++ [node]) in *.
    set (deps := unique_nodes p (args ++ filter (fun d => negb (existsb (fun r => str_eqb (fid r) d) replaced)) (fpreds p node))) in *.
    destruct (existsb (list_eqb str_eqb (names_of p E deps)) acc); [auto|].
    assert (Hacc1 : forall c0, In c0 (acc ++ [names_of p E deps]) -> Qc c0).
    { intros c0 H0. apply in_app_iff in H0 as [H0|[<-|[]]]; [auto|]. now apply state_Qc. }
    revert Hc. generalize (acc ++ [names_of p E deps]) Hacc1. clear Hacc Hacc1.
    assert (Hsub : forall d, In d deps -> In d deps) by auto. revert Hsub.
    generalize deps at 1 4. intros l. induction l as [|d l IHl]; intros Hsub acc' Hacc' Hc; cbn in Hc; [auto|].
    apply (IHl (fun x Hx => Hsub x (or_intror Hx))) in Hc; [assumption|].
    intros c0 H0. destruct (node_func p d) as [g|] eqn:Eg; [|auto].
    assert (Hd : In d deps) by (apply Hsub; now left).
    destruct (frontier_step p ls Hwf head E deps d g HC HF Hd Eg) as [HC' HF'].
    eapply (IH g (filter (fun x => negb (str_eqb x d)) deps) E acc'); eauto.
  Qed.

  Lemma cam_init_state : CONN [head] /\ FRONT [head] (unique_nodes p ([] ++ filter (fun d => negb (existsb (fun r : pfunc => str_eqb (fid r) d) [])) (fpreds p head))).
  Proof.
    split; [apply Conn1|]. intros d. cbn [app]. rewrite (unique_nodes_In p), filter_In. cbn. split.
    - intros [Hd _]. split; [exists head; auto|]. intros [e [[<-|[]] Hf]].
      apply (no_self_loop p ls Hwf head); [now apply producer_Some in Hhead|]. now rewrite Hf.
    - intros [[e [[<-|[]] Hp]] _]. auto.
  Qed.

  Theorem root_args_covers ra : root_args p o = Ok ra -> all_root p ra = true /\ forall M, reads_ok M p ra o = true.
  Proof.
    unfold root_args, arg_combinations. destruct (is_node p o); cbn [negb bind]; [|discriminate].
    destruct (find (all_root p) _) as [c|] eqn:Ef; [|discriminate]. intros H. injection H as <-.
    apply find_some in Ef as [Hin Hr]. split; [assumption|]. apply sort_In in Hin. rewrite Hhead in Hin.
    destruct cam_init_state as [HC HF].
    exact (cam_Qc (S (S (length p))) head [] [] [] HC HF (fun c0 H0 => match H0 with end) c Hin Hr).
  Qed.

  (* ---------- 2. an all-root combination is always produced: the leftmost branch of the search never meets an
     already recorded combination (every recorded one names an output of an expanded function) ---------- *)
  Lemma cam_mono : forall fuel node args replaced acc c,
    In c acc -> In c (cam fuel p node args replaced acc).
  Proof.
    induction fuel as [|fuel IH]; intros node args replaced acc c Hc; [exact Hc|].
    cbn [cam]. match goal with |- context [existsb ?f acc] => destruct (existsb f acc) end; [exact Hc|].
    match goal with |- In c (fold_left ?F ?l ?a0) =>
      assert (Hm : forall l' a, In c a -> In c (fold_left F l' a)); [|apply Hm; apply in_app_iff; now left] end.
    induction l' as [|d l' IHl]; intros a Ha; [exact Ha|]. cbn [fold_left]. apply IHl.
    destruct (node_func p d); [now apply IH | exact Ha].
  Qed.

  Definition outside (E : list pfunc) : nat := outside_in p E.
  Lemma outside_step E g : In g p -> existsb (fun e => str_eqb (fid e) (fid g)) E = false ->
    outside (E ++ [g]) < outside E.
  Proof. apply outside_in_step. Qed.

  Lemma split_first_func : forall deps,
    (forall d, In d deps -> node_func p d = None)
    \/ exists l1 d g l2, deps = l1 ++ d :: l2 /\ node_func p d = Some g /\ forall x, In x l1 -> node_func p x = None.
  Proof.
    induction deps as [|a t IH]; [left; intros d []|].
    destruct (node_func p a) as [g|] eqn:Ea.
    - right. exists [], a, g, t. split; [reflexivity|]. split; [assumption|]. intros x [].
    - destruct IH as [IH|[l1 [d [g [l2 [E [Hn Hl]]]]]]].
      + left. intros d [<-|Hd]; auto.
      + right. exists (a :: l1), d, g, l2. split; [now rewrite E|]. split; [assumption|].
        intros x [<-|Hx]; auto.
  Qed.

  Lemma fold_roots_noop (F : list (list str) -> str -> list (list str)) l a :
    (forall x a', In x l -> F a' x = a') -> fold_left F l a = a.
  Proof.
    revert a. induction l as [|x l IH]; intros a H; [reflexivity|]. cbn. rewrite (H x a (or_introl eq_refl)).
    apply IH. intros y a' Hy. apply H. now right.
  Qed.

  Lemma cam_finds_root : forall fuel node args replaced acc,
    CONN (replaced ++ [node]) ->
    FRONT (replaced ++ [node])
          (unique_nodes p (args ++ filter (fun d => negb (existsb (fun r => str_eqb (fid r) d) replaced)) (fpreds p node))) ->
    (forall c, In c acc -> exists e k, In e (replaced ++ [node]) /\ In k (outs e) /\ In k c) ->
    outside (replaced ++ [node]) < fuel ->
    exists c, In c (cam fuel p (Some node) args replaced acc) /\ all_root p c = true.
  Proof.
    induction fuel as [|fuel IH]; intros node args replaced acc HC HF Hacc Hfuel; [lia|].
    cbn [cam].
    set (E := replaced ++ [node]) in *.
    set (deps := unique_nodes p (args ++ filter (fun d => negb (existsb (fun r => str_eqb (fid r) d) replaced)) (fpreds p node))) in *.
    set (names := names_of p E deps).
    assert (Hfresh : existsb (list_eqb str_eqb names) acc = false).
    { destruct (existsb (list_eqb str_eqb names) acc) eqn:Ex; [|reflexivity]. exfalso.
      apply existsb_exists in Ex as [c [Hc Heq]]. apply CacheSemBase.strs_eqb_eq in Heq. subst c.
      destruct (Hacc _ Hc) as [e [k [He [Hk Hin]]]]. apply (names_of_In p) in Hin.
      exact (out_of_E_not_name p ls Hwf o head Hhead E deps HC HF e k He Hk Hin). }
    rewrite Hfresh.
    destruct (split_first_func deps) as [Hall|[l1 [d [g [l2 [Edeps [Hn Hl1]]]]]]].
    - (* no function left: this combination is all-root *)
      exists names. split.
      + rewrite fold_roots_noop; [apply in_app_iff; right; now left|]. intros x a' Hx. now rewrite (Hall x Hx).
      + unfold all_root. apply forallb_forall. intros k Hk. apply negb_true_iff. apply (names_of_In p) in Hk.
        destruct Hk as [d [Hd [[Hnd ->]|[g [Hg _]]]]].
        * exact (dep_root_not_output p ls Hwf E deps HF d Hd Hnd).
        * rewrite (Hall d Hd) in Hg. discriminate.
    - rewrite Edeps, fold_left_app. cbn [fold_left]. rewrite Hn.
      rewrite (fold_roots_noop _ l1); [|intros x a' Hx; now rewrite (Hl1 x Hx)]. rewrite <- Edeps.
      assert (Hd : In d deps) by (rewrite Edeps; apply in_app_iff; right; now left).
      destruct (frontier_step p ls Hwf head E deps d g HC HF Hd Hn) as [HC' HF'].
      pose proof Hn as Hn'. apply (node_func_Some p) in Hn' as [Hg Hfid].
      assert (HgE : existsb (fun e => str_eqb (fid e) (fid g)) E = false).
      { destruct (existsb (fun e => str_eqb (fid e) (fid g)) E) eqn:Ex; [|reflexivity]. exfalso.
        apply existsb_exists in Ex as [e [He Ef]]. apply str_eqb_eq in Ef.
        apply HF in Hd as [_ Hnot]. apply Hnot. exists e. split; [assumption | congruence]. }
      destruct (IH g (filter (fun x => negb (str_eqb x d)) deps) E (acc ++ [names]) HC' HF') as [c [Hc Hr]].
      + intros c Hc. apply in_app_iff in Hc as [Hc|[<-|[]]].
        * destruct (Hacc c Hc) as [e [k [He [Hk Hin]]]]. exists e, k. split; [apply in_app_iff; now left | auto].
        * destruct (func_dep_names E deps d g HC HF Hd Hn) as [k [Hk Hin]].
          exists g, k. split; [apply in_app_iff; right; now left|]. split; [assumption|]. now apply (names_of_In p).
      + pose proof (outside_step E g Hg HgE). lia.
      + exists c. split; [|assumption].
        match goal with |- In c (fold_left ?F l2 ?a) =>
          assert (Hm : forall l' a', In c a' -> In c (fold_left F l' a')); [|now apply Hm] end.
        induction l' as [|x l' IHl]; intros a' Ha; [exact Ha|]. cbn [fold_left]. apply IHl.
        destruct (node_func p x); [now apply cam_mono | exact Ha].
  Qed.

  Theorem root_args_exists : exists ra, root_args p o = Ok ra.
  Proof.
    unfold root_args, arg_combinations.
    assert (Hnode : is_node p o = true).
    { unfold is_node. assert (is_output p o = true) by (apply is_output_true; eauto). now rewrite H. }
    rewrite Hnode. cbn [negb bind]. rewrite Hhead.
    destruct cam_init_state as [HC HF].
    destruct (cam_finds_root (S (S (length p))) head [] [] [] HC HF (fun c H => match H with end)) as [c [Hc Hr]].
    { unfold outside, outside_in. pose proof (filter_len_le (fun f => negb (existsb (fun e => str_eqb (fid e) (fid f)) ([] ++ [head]))) p). lia. }
    destruct (find (all_root p) (sort strs_ltb (cam (S (S (length p))) p (Some head) [] [] []))) as [c'|] eqn:Ef; [eauto|].
    exfalso. assert (Hin : In c (sort strs_ltb (cam (S (S (length p))) p (Some head) [] [] []))) by now apply sort_In.
    pose proof (find_none _ _ Ef c Hin) as Hfalse. congruence.
  Qed.
End Roots.

Theorem roots_okb_of_wf p : wf_pipeline p -> roots_okb p = true.
Proof.
  intros Hwf. destruct (wf_pipeline_elim p Hwf) as [ls Hw].
  unfold roots_okb. apply forallb_forall. intros o Ho.
  apply in_all_outputs in Ho as [f [Hf Hof]].
  pose proof (producer_unique p (wf_outs_nd _ _ Hw) f o Hf Hof) as Hhead.
  destruct (root_args_exists p ls Hw o f Hhead) as [ra Hra]. rewrite Hra.
  destruct (root_args_covers p ls Hw o f Hhead ra Hra) as [H1 H2]. now rewrite H1, H2.
Qed.
