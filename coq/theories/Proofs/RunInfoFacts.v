(* Proofs about Model/RunInfoCodec.v: RunInfo.load o RunInfo.dump is the identity on well-formed RunInfo records,
   and RunInfo.dump o RunInfo.load reproduces the document (needed for "loading does not modify the folder"). *)
From Verif Require Import Base.Prelude Base.StrUtil Model.MapSpec Model.RunInfoCodec Proofs.StrFacts.

(* ---------- generic helpers ---------- *)
Lemma mapM_map_inv {A B} (f : A -> B) (g : B -> result A) l :
  (forall x, In x l -> g (f x) = Ok x) -> mapM g (map f l) = Ok l.
Proof.
  induction l as [|x l IH]; intros H; cbn; [reflexivity|].
  rewrite H by (left; reflexivity). cbn. rewrite IH by (intros y Hy; apply H; right; exact Hy). reflexivity.
Qed.

Lemma mapM_map {A B C} (f : A -> B) (g : B -> result C) (h : A -> C) l :
  (forall x, In x l -> g (f x) = Ok (h x)) -> mapM g (map f l) = Ok (map h l).
Proof.
  induction l as [|x l IH]; intros H; cbn; [reflexivity|].
  rewrite H by (left; reflexivity). cbn. rewrite IH by (intros y Hy; apply H; right; exact Hy). reflexivity.
Qed.

Lemma mapM_ext_in {A B} (f g : A -> result B) l :
  (forall x, In x l -> f x = g x) -> mapM f l = mapM g l.
Proof.
  induction l as [|x l IH]; intros H; cbn; [reflexivity|].
  rewrite H by (left; reflexivity). rewrite IH by (intros y Hy; apply H; right; exact Hy). reflexivity.
Qed.

Lemma nodup_str_list_cons x l : nodup_str_list (x :: l) = true <-> ~ In x l /\ nodup_str_list l = true.
Proof.
  cbn. rewrite andb_true_iff, negb_true_iff, mem_str_false. tauto.
Qed.

Lemma nodup_str_list_NoDup l : nodup_str_list l = true <-> NoDup l.
Proof.
  induction l as [|x l IH].
  - split; [constructor | reflexivity].
  - rewrite nodup_str_list_cons, IH. split.
    + intros [H1 H2]. now constructor.
    + intros H. inversion H; subst. tauto.
Qed.

(* ---------- str keys: dict_set / dict_get ---------- *)
Lemma dict_set_fresh {V} (d : list (str * V)) k v : dict_get d k = None -> dict_set d k v = d ++ [(k, v)].
Proof.
  induction d as [|[k' v'] d IH]; cbn; [reflexivity|].
  destruct (str_eqb k k'); [discriminate|]. intros H. now rewrite IH.
Qed.

Lemma dict_get_app {V} (d e : list (str * V)) k :
  dict_get (d ++ e) k = match dict_get d k with Some v => Some v | None => dict_get e k end.
Proof.
  induction d as [|[k' v'] d IH]; cbn; [reflexivity|]. destruct (str_eqb k k'); [reflexivity|apply IH].
Qed.

Lemma fold_dict_set_fresh {A V} (key : A -> str) (val : A -> V) : forall l acc,
  NoDup (map key l) -> (forall x, In x l -> dict_get acc (key x) = None) ->
  fold_left (fun acc x => dict_set acc (key x) (val x)) l acc = acc ++ map (fun x => (key x, val x)) l.
Proof.
  induction l as [|x l IH]; intros acc Hnd Hfresh; cbn; [now rewrite app_nil_r|].
  inversion Hnd as [|? ? Hx Hl]; subst.
  rewrite dict_set_fresh by (apply Hfresh; left; reflexivity).
  rewrite IH; [now rewrite <- app_assoc| assumption |].
  intros y Hy. rewrite dict_get_app, (Hfresh y) by (right; exact Hy). cbn.
  destruct (str_eqb (key y) (key x)) eqn:E; [|reflexivity].
  apply str_eqb_eq in E. exfalso. apply Hx. rewrite <- E. now apply in_map.
Qed.

(* ---------- OUTPUT_TYPE keys ---------- *)
Lemma okey_eqb_eq a b : okey_eqb a b = true <-> a = b.
Proof.
  destruct a as [x|x], b as [y|y]; cbn; try (split; [discriminate|intros H; discriminate]).
  - rewrite str_eqb_eq. split; [now intros ->|now intros [= ->]].
  - rewrite (list_eqb_eq str_eqb str_eqb_eq). split; [now intros ->|now intros [= ->]].
Qed.

Lemma okey_eqb_refl a : okey_eqb a a = true.
Proof. now apply okey_eqb_eq. Qed.

Lemma okey_eqb_neq a b : a <> b -> okey_eqb a b = false.
Proof. intros H. destruct (okey_eqb a b) eqn:E; [|reflexivity]. apply okey_eqb_eq in E. contradiction. Qed.

Lemma odict_set_fresh {V} (d : list (okey * V)) k v : odict_get d k = None -> odict_set d k v = d ++ [(k, v)].
Proof.
  induction d as [|[k' v'] d IH]; cbn; [reflexivity|].
  destruct (okey_eqb k k'); [discriminate|]. intros H. now rewrite IH.
Qed.

Lemma odict_get_app {V} (d e : list (okey * V)) k :
  odict_get (d ++ e) k = match odict_get d k with Some v => Some v | None => odict_get e k end.
Proof.
  induction d as [|[k' v'] d IH]; cbn; [reflexivity|]. destruct (okey_eqb k k'); [reflexivity|apply IH].
Qed.

(* ---------- "," joining and splitting ---------- *)
Lemma mem_char_app c x y : mem_char c (x ++ y) = mem_char c x || mem_char c y.
Proof. induction x as [|d x IH]; cbn; [reflexivity|]. now rewrite IH, orb_assoc. Qed.

Lemma split_char_none c x : mem_char c x = false -> split_char c x = [x].
Proof.
  induction x as [|d x IH]; cbn; intros H; [reflexivity|].
  apply orb_false_iff in H as [H1 H2]. rewrite H1, (IH H2). reflexivity.
Qed.

Lemma split_char_app c x r : mem_char c x = false -> split_char c (x ++ c :: r) = x :: split_char c r.
Proof.
  induction x as [|d x IH]; cbn; intros H.
  - now rewrite Ascii.eqb_refl.
  - apply orb_false_iff in H as [H1 H2]. rewrite H1, (IH H2). reflexivity.
Qed.

Lemma join_cons2 sep (x y : str) t : join sep (x :: y :: t) = x ++ sep ++ join sep (y :: t).
Proof. reflexivity. Qed.

Lemma split_join_comma l :
  l <> [] -> forallb no_comma l = true -> split_char ","%char (join (s ",") l) = l.
Proof.
  induction l as [|x l IH]; intros Hne Hall; [contradiction|].
  cbn [forallb] in Hall. apply andb_true_iff in Hall as [Hx Hl].
  unfold no_comma in Hx. apply negb_true_iff in Hx.
  destruct l as [|y t].
  - cbn. now apply split_char_none.
  - rewrite join_cons2. change (s "," ++ join (s ",") (y :: t)) with (","%char :: join (s ",") (y :: t)).
    rewrite split_char_app by exact Hx. rewrite IH; [reflexivity|discriminate|exact Hl].
Qed.

Lemma mem_comma_join x y t : mem_char ","%char (join (s ",") (x :: y :: t)) = true.
Proof.
  rewrite join_cons2. rewrite mem_char_app. change (s "," ++ join (s ",") (y :: t)) with (","%char :: join (s ",") (y :: t)).
  cbn. now rewrite orb_true_r.
Qed.

(* _maybe_str_to_tuple inverts _maybe_tuple_to_str on names without "," and tuples of at least two such names *)
Lemma key_roundtrip k : wf_okey k = true -> str_to_tuple (tuple_to_str k) = k.
Proof.
  destruct k as [n|l]; cbn [wf_okey tuple_to_str]; intros H.
  - unfold str_to_tuple. unfold no_comma in H. apply negb_true_iff in H. now rewrite H.
  - apply andb_true_iff in H as [Hlen Hall]. apply Nat.leb_le in Hlen.
    destruct l as [|x [|y t]]; cbn in Hlen; try lia.
    unfold str_to_tuple. rewrite mem_comma_join. rewrite split_join_comma; [reflexivity|discriminate|exact Hall].
Qed.

(* the joined strings identify the keys *)
Lemma tuple_to_str_inj a b : wf_okey a = true -> wf_okey b = true -> tuple_to_str a = tuple_to_str b -> a = b.
Proof. intros Ha Hb E. rewrite <- (key_roundtrip a Ha), <- (key_roundtrip b Hb). now rewrite E. Qed.

(* ---------- dict comprehensions of dump and load ---------- *)
Lemma wf_keys_spec {V} (d : list (okey * V)) :
  wf_keys d = true <-> (forall kv, In kv d -> wf_okey (fst kv) = true) /\ NoDup (map (fun kv => tuple_to_str (fst kv)) d).
Proof.
  unfold wf_keys. rewrite andb_true_iff, forallb_forall, nodup_str_list_NoDup. tauto.
Qed.

Lemma enc_keys_map {V} (f : V -> json) (d : list (okey * V)) :
  wf_keys d = true -> enc_keys f d = map (fun kv => (tuple_to_str (fst kv), f (snd kv))) d.
Proof.
  intros H. apply wf_keys_spec in H as [_ Hnd]. unfold enc_keys.
  rewrite (fold_dict_set_fresh (fun kv => tuple_to_str (fst kv)) (fun kv => f (snd kv))); [reflexivity|exact Hnd|].
  intros; reflexivity.
Qed.

Lemma dec_keys_map {V} (f : V -> json) (conv : json -> result V) : forall (d acc : list (okey * V)),
  (forall kv, In kv d -> wf_okey (fst kv) = true) ->
  NoDup (map (fun kv => tuple_to_str (fst kv)) d) ->
  (forall kv, In kv d -> conv (f (snd kv)) = Ok (snd kv)) ->
  (forall kv, In kv d -> odict_get acc (fst kv) = None) ->
  fold_left (fun acc kv => do d <- acc; do v <- conv (snd kv); Ok (odict_set d (str_to_tuple (fst kv)) v))
            (map (fun kv => (tuple_to_str (fst kv), f (snd kv))) d) (Ok acc) = Ok (acc ++ d).
Proof.
  induction d as [|[k v] d IH]; intros acc Hwf Hnd Hconv Hfresh; cbn [map fold_left]; [now rewrite app_nil_r|].
  pose proof (Hconv (k, v) (or_introl eq_refl)) as Hc. cbn [fst snd] in Hc.
  pose proof (Hwf (k, v) (or_introl eq_refl)) as Hw. cbn [fst snd] in Hw.
  pose proof (Hfresh (k, v) (or_introl eq_refl)) as Hf. cbn [fst snd] in Hf.
  cbn [fst snd bind]. rewrite Hc. cbn [bind].
  rewrite (key_roundtrip k Hw). rewrite (odict_set_fresh acc k v Hf).
  inversion Hnd as [|? ? Hx Hl]; subst.
  rewrite IH.
  - now rewrite <- app_assoc.
  - intros kv Hkv. apply Hwf. now right.
  - exact Hl.
  - intros kv Hkv. apply Hconv. now right.
  - intros kv Hkv. rewrite odict_get_app, (Hfresh kv) by (now right). cbn.
    rewrite okey_eqb_neq; [reflexivity|]. intros E. apply Hx. cbn [fst]. rewrite <- E.
    apply (in_map (fun kv => tuple_to_str (fst kv))) in Hkv. exact Hkv.
Qed.

Lemma dec_enc_keys {V} (f : V -> json) (conv : json -> result V) (d : list (okey * V)) :
  wf_keys d = true -> (forall v, conv (f v) = Ok v) -> dec_keys conv (enc_keys f d) = Ok d.
Proof.
  intros Hwf Hconv. rewrite enc_keys_map by exact Hwf. apply wf_keys_spec in Hwf as [H1 H2].
  unfold dec_keys. rewrite (dec_keys_map f conv d []); auto.
Qed.

(* ---------- leaves ---------- *)
Lemma dec_jnat n : dec_nat (jnat n) = Ok n.
Proof.
  unfold dec_nat, jnat. destruct (Z.ltb_spec (Z.of_nat n) 0); [lia|]. now rewrite Nat2Z.id.
Qed.

Lemma dec_enc_shape sh : dec_shape (enc_shape sh) = Ok sh.
Proof. unfold dec_shape, enc_shape. cbn. apply mapM_map_inv. intros; apply dec_jnat. Qed.

Lemma dec_enc_mask m : dec_mask (enc_mask m) = Ok m.
Proof. unfold dec_mask, enc_mask. cbn. apply mapM_map_inv. reflexivity. Qed.

Lemma dec_enc_ishape i : dec_ishape (enc_ishape i) = Ok i.
Proof.
  destruct i as [n|l].
  - change (dec_ishape (enc_ishape (IInt n))) with (do m <- dec_nat (jnat n); Ok (IInt m)).
    now rewrite dec_jnat.
  - change (dec_ishape (enc_ishape (ITup l))) with (do t <- mapM dec_nat (map jnat l); Ok (ITup t)).
    rewrite mapM_map_inv by (intros; apply dec_jnat). reflexivity.
Qed.

(* ---------- sorted(set(...)) ---------- *)
Lemma str_ltb_irrefl a : str_ltb a a = false.
Proof. induction a as [|x a IH]; cbn [str_ltb]; [reflexivity|]. now rewrite Nat.ltb_irrefl. Qed.

Lemma str_ltb_neq a b : str_ltb a b = true -> str_eqb a b = false.
Proof. intros H. apply str_eqb_neq. intros ->. now rewrite str_ltb_irrefl in H. Qed.

Lemma insert_sorted x l : sorted_strict (x :: l) = true -> insert_str x l = x :: l.
Proof.
  destruct l as [|y t]; cbn; [reflexivity|]. intros H. apply andb_true_iff in H as [H _]. now rewrite H.
Qed.

Lemma sorted_strict_tail x l : sorted_strict (x :: l) = true -> sorted_strict l = true.
Proof. destruct l as [|y t]; cbn; [reflexivity|]. intros H. now apply andb_true_iff in H as [_ H]. Qed.

Lemma sort_set_sorted l : sorted_strict l = true -> sort_set l = l.
Proof.
  induction l as [|x l IH]; intros H; [reflexivity|].
  cbn [sort_set fold_right]. fold (sort_set l). rewrite IH by (eapply sorted_strict_tail; exact H).
  now apply insert_sorted.
Qed.

(* ---------- the round trip ---------- *)
Definition pre_of (ri : run_info) : pre_info :=
  {| p_input_paths := map (fun n => (n, input_path_str (ri_run_folder ri) n)) (ri_input_names ri);
     p_outputs := ri_all_output_names ri; p_storage := ri_storage ri; p_shapes := ri_shapes ri;
     p_masks := ri_shape_masks ri; p_internal := ri_internal_shapes ri; p_folder := ri_run_folder ri |}.

Definition enc_fields (ri : run_info) : list (str * json) :=
  match encode ri with JObj o => o | _ => [] end.

Lemma encode_fields ri : encode ri = JObj (enc_fields ri).
Proof. reflexivity. Qed.

Lemma dec_internal_some (d : list (str * ishape)) :
  mapM (fun kv => do v <- dec_ishape (snd kv); Ok (fst kv, v)) (map (fun kv => (fst kv, enc_ishape (snd kv))) d) = Ok d.
Proof.
  rewrite (mapM_map (fun kv : str * ishape => (fst kv, enc_ishape (snd kv)))
             (fun kv => do v <- dec_ishape (snd kv); Ok (fst kv, v)) (fun kv => kv)).
  - now rewrite map_id.
  - intros [k v] _. cbn [fst snd]. now rewrite dec_enc_ishape.
Qed.

Lemma decode_head_encode ri : wf_run_info ri = true -> decode_head (enc_fields ri) = Ok (pre_of ri).
Proof.
  unfold wf_run_info. intros H.
  repeat (apply andb_true_iff in H as [H ?]).
  rename H into Hsorted.
  destruct ri as [names outs shapes internal masks folder specs storage version].
  cbn [ri_all_output_names ri_shapes ri_shape_masks ri_storage ri_internal_shapes ri_input_names] in *.
  unfold pre_of. cbn [ri_all_output_names ri_shapes ri_shape_masks ri_storage ri_internal_shapes ri_input_names
    ri_run_folder ri_mapspecs ri_version].
  assert (Hin : mapM (fun kv : str * json => do p <- jpath (snd kv); Ok (fst kv, p))
                  (map (fun n => (n, JStr (input_path_str folder n))) names)
                = Ok (map (fun n => (n, input_path_str folder n)) names)).
  { apply (mapM_map (fun n => (n, JStr (input_path_str folder n)))
             (fun kv => do p <- jpath (snd kv); Ok (fst kv, p)) (fun n => (n, input_path_str folder n))). reflexivity. }
  assert (Hout : mapM (fun j => match j with
                                | JStr x => Ok x
                                | JArr _ | JObj _ => Err TypeError
                                | _ => outside_schema end) (map JStr (sort_set outs)) = Ok (sort_set outs)).
  { apply mapM_map_inv. reflexivity. }
  pose proof (dec_enc_keys enc_shape dec_shape shapes ltac:(assumption) dec_enc_shape) as Hsh.
  pose proof (dec_enc_keys enc_mask dec_mask masks ltac:(assumption) dec_enc_mask) as Hmk.
  destruct storage as [sn|sd]; destruct internal as [idd|];
    unfold decode_head, enc_fields, encode, jget;
    cbn [ri_all_output_names ri_shapes ri_shape_masks ri_storage ri_internal_shapes ri_input_names
         ri_run_folder ri_mapspecs ri_version];
    match goal with |- context [dict_get ?o] => set (oo := o) end.
  all: change (dict_get oo (s "input_paths")) with (Some (JObj (map (fun n => (n, JStr (input_path_str folder n))) names))).
  all: change (dict_get oo (s "all_output_names")) with (Some (JArr (map JStr (sort_set outs)))).
  all: change (dict_get oo (s "shapes")) with (Some (JObj (enc_keys enc_shape shapes))).
  all: change (dict_get oo (s "shape_masks")) with (Some (JObj (enc_keys enc_mask masks))).
  all: change (dict_get oo (s "run_folder")) with (Some (JStr folder)).
  all: cbn [bind jitems]; rewrite Hin; cbn [bind]; rewrite Hout; cbn [bind];
       rewrite (sort_set_sorted outs Hsorted), (sort_set_sorted outs Hsorted).
  - change (dict_get oo (s "storage")) with (Some (JStr sn)).
    change (dict_get oo (s "internal_shapes")) with (Some (JObj (map (fun kv : str * ishape => (fst kv, enc_ishape (snd kv))) idd))).
    cbn [bind jitems]. rewrite Hsh. cbn [bind]. rewrite Hmk. cbn [bind]. rewrite dec_internal_some. reflexivity.
  - change (dict_get oo (s "storage")) with (Some (JStr sn)).
    change (dict_get oo (s "internal_shapes")) with (Some JNull).
    cbn [bind jitems]. rewrite Hsh. cbn [bind]. rewrite Hmk. reflexivity.
  - change (dict_get oo (s "storage")) with (Some (JObj (enc_keys JStr sd))).
    change (dict_get oo (s "internal_shapes")) with (Some (JObj (map (fun kv : str * ishape => (fst kv, enc_ishape (snd kv))) idd))).
    cbn [bind jitems]. rewrite (dec_enc_keys JStr dec_str sd) by (assumption || reflexivity). cbn [bind].
    rewrite Hsh. cbn [bind]. rewrite Hmk. cbn [bind]. rewrite dec_internal_some. reflexivity.
  - change (dict_get oo (s "storage")) with (Some (JObj (enc_keys JStr sd))).
    change (dict_get oo (s "internal_shapes")) with (Some JNull).
    cbn [bind jitems]. rewrite (dec_enc_keys JStr dec_str sd) by (assumption || reflexivity). cbn [bind].
    rewrite Hsh. cbn [bind]. rewrite Hmk. reflexivity.
Qed.

Lemma decode_defaults_path_encode ri : decode_defaults_path (enc_fields ri) = Ok (defaults_path_str (ri_run_folder ri)).
Proof. destruct ri. reflexivity. Qed.

Lemma decode_tail_encode ver ri : decode_tail ver (enc_fields ri) (pre_of ri) = Ok ri.
Proof.
  destruct ri as [names outs shapes internal masks folder specs storage version].
  set (o := enc_fields _). unfold decode_tail.
  assert (G2 : forallb (fun kv => mem_str (fst kv) field_names)
                 (filter (fun kv : str * json => negb (str_eqb (fst kv) (s "input_paths") || str_eqb (fst kv) (s "defaults_path"))) o)
               = true) by reflexivity.
  rewrite G2. cbn [negb].
  assert (G3 : dict_get o (s "mapspecs_as_strings") = Some (JArr (map JStr specs))) by reflexivity.
  assert (G4 : dict_get o (s "pipefunc_version") = Some (JStr version)) by reflexivity.
  rewrite G3, G4. rewrite (mapM_map_inv JStr) by reflexivity. cbn [bind dec_str].
  unfold pre_of. cbn [p_input_paths p_outputs p_shapes p_internal p_masks p_folder p_storage ri_input_names ri_run_folder
    ri_all_output_names ri_shapes ri_internal_shapes ri_shape_masks ri_storage].
  rewrite map_map. cbn [fst]. now rewrite map_id.
Qed.

Theorem runinfo_roundtrip ver ri : wf_run_info ri = true -> decode ver (encode ri) = Ok ri.
Proof.
  intros H. rewrite encode_fields. unfold decode. cbn [jtop bind].
  rewrite (decode_head_encode ri H). cbn [bind].
  rewrite decode_defaults_path_encode. cbn [bind]. apply decode_tail_encode.
Qed.

(* without the side conditions the round trip fails: a 1-tuple key comes back as a plain name
   (",".join(("y",)) == "y"), so a storage dict {("y",): "dict", "": "file_array"} reloads as {"y": "dict", ...} *)
Definition ri_one_tuple : run_info :=
  {| ri_input_names := []; ri_all_output_names := [s "y"]; ri_shapes := [(KName (s "y"), [3])];
     ri_internal_shapes := None; ri_shape_masks := [(KName (s "y"), [true])]; ri_run_folder := s "F";
     ri_mapspecs := [s "x[i] -> y[i]"]; ri_storage := StDict [(KTup [s "y"], s "dict"); (KName [], s "file_array")];
     ri_version := s "V" |}.

Lemma runinfo_roundtrip_needs_wf :
  exists ri ri', decode (s "V") (encode ri) = Ok ri' /\ ri' <> ri
                 /\ storage_class (ri_storage ri) (KName (s "y")) = Ok FileArrayK
                 /\ storage_class (ri_storage ri') (KName (s "y")) = Ok DictK.
Proof.
  exists ri_one_tuple. eexists. split; [vm_compute; reflexivity|].
  split; [intros E; discriminate E|]. split; reflexivity.
Qed.
