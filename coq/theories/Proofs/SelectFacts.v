(* C01, part 2: the keyword selection of one iteration (`select_kwargs`, via MapSpec.input_keys at a linear index)
   delivers exactly the arguments the notation names (`arg_at` at the unravelled position); and the facts about
   MapSpec.shape / output_key that the loop relies on. *)
From Verif Require Import Base.Prelude Base.StrUtil Base.Index Base.NdArr Model.MapSpec Model.MapSpecSpec
  Model.MapRun Model.MapDenote Proofs.IndexFacts Proofs.StrFacts Proofs.MapSpecFacts Proofs.ListFacts Proofs.PlaceFacts.

(* ---------- select_kwargs = arg_at ---------- *)
Section Select.
  Variable ms : mapspec.
  Hypothesis Hwf : wf_decl ms = true.
  Hypothesis Hnames : NoDup (map aname (ins ms)).
  Hypothesis Hout : NoDup (output_indices ms).

  Lemma arg_key_of e a :
    length e = length (external_indices ms) -> In a (ins ms) ->
    mapM (fun ax => match ax with
                    | None => Ok KAll
                    | Some x => match pos_of x (external_indices ms) with
                                | Some q => match nth_error e q with
                                            | Some c => Ok (KInt c) | None => Err IndexError end
                                | None => Err KeyError
                                end
                    end) (axes a) = Ok (key_of ms e a).
  Proof.
    intros He Ha. unfold key_of. apply mapM_ok_map_in. intros [x|] Hx; [|reflexivity].
    pose proof (input_axis_in_ext ms Hwf a x Ha Hx) as Hin.
    destruct (pos_of_Some _ _ Hin) as [p [Hp Hlt]]. rewrite Hp.
    rewrite (zip_lookup_pos _ e x p (ext_NoDup ms Hout) He Hp).
    destruct (nth_error e p) as [c|] eqn:N; [reflexivity|]. apply nth_error_None in N. lia.
  Qed.

  Lemma dict_get_names_none {V} (d : list (str * V)) k :
    (forall a, In a (ins ms) -> str_eqb (aname a) k = false) -> ~ In k (map aname (ins ms)).
  Proof.
    intros H Hin. apply in_map_iff in Hin as [a [<- Ha]]. specialize (H a Ha). now rewrite str_eqb_refl in H.
  Qed.

  Theorem select_kwargs_arg_at (kw : env) ext i :
    length ext = length (external_indices ms) -> forallb (fun d => 0 <? d) ext = true ->
    select_kwargs ms kw ext i = mapM (arg_at ms (unravel ext i)) kw.
  Proof.
    intros Hlen Hpos. unfold select_kwargs, input_keys.
    rewrite Hlen, Nat.eqb_refl. cbn [negb]. unfold unravel_checked. rewrite existsb_zero_false by exact Hpos.
    cbn [bind].
    assert (length (unravel ext i) = length (external_indices ms)) as Hp by (now rewrite unravel_length).
    destruct (input_keys_fold ms Hwf Hout (unravel ext i) Hp (ins ms) (@nil (str * list kitem)))
      as [d [Hd [_ [Hget Hother]]]]; [auto|exact Hnames|reflexivity|].
    rewrite Hd. cbn [bind]. apply mapM_ext_in. intros [p v] _. unfold arg_at. cbn [fst snd].
    destruct (find (fun a => str_eqb (aname a) p) (ins ms)) as [a|] eqn:F.
    - apply find_some in F as [Ha Ep]. apply str_eqb_eq in Ep. subst p.
      rewrite (Hget a Ha), (arg_key_of _ a Hp Ha). reflexivity.
    - rewrite Hother; [reflexivity|]. apply (dict_get_names_none d).
      intros a Ha. exact (find_none _ _ F a Ha).
  Qed.

  (* ---------- output_key ---------- *)
  Lemma dedup_In l x : In x (dedup l) <-> In x l.
  Proof.
    induction l as [|y l IH]; cbn [dedup]; [tauto|]. destruct (mem_str y l) eqn:E.
    - rewrite IH. apply mem_str_In in E. split; [now right|]. intros [<-|H]; assumption.
    - cbn [In]. rewrite IH. tauto.
  Qed.

  Lemma dedup_NoDup l : NoDup (dedup l).
  Proof.
    induction l as [|y l IH]; cbn [dedup]; [constructor|]. destruct (mem_str y l) eqn:E; [exact IH|].
    constructor; [|exact IH]. rewrite dedup_In. now apply mem_str_false.
  Qed.

  Lemma input_indices_in_output x : In x (input_indices_list ms) -> In x (output_indices ms).
  Proof.
    unfold input_indices_list. intros H. apply in_flat_map in H as [a [Ha Hx]].
    unfold indices in Hx. apply somes_In in Hx.
    pose proof (input_axis_in_ext ms Hwf a x Ha Hx) as Hin. unfold external_indices in Hin.
    now apply filter_In in Hin as [Hin _].
  Qed.

  Lemma n_input_indices_ext : n_input_indices ms = length (external_indices ms).
  Proof.
    unfold n_input_indices. apply Nat.le_antisymm; apply NoDup_incl_length.
    - apply dedup_NoDup.
    - intros x Hx. rewrite dedup_In in Hx. unfold external_indices. apply filter_In.
      split; [now apply input_indices_in_output|now apply mem_str_In].
    - now apply ext_NoDup.
    - intros x Hx. unfold external_indices in Hx. apply filter_In in Hx as [_ Hx].
      rewrite dedup_In. now apply mem_str_In.
  Qed.

  Lemma output_key_ok ext i :
    length ext = length (external_indices ms) -> forallb (fun d => 0 <? d) ext = true ->
    output_key ms ext i = Ok (unravel ext i).
  Proof.
    intros Hlen Hpos. unfold output_key. rewrite n_input_indices_ext, Hlen, Nat.eqb_refl. cbn [negb].
    unfold unravel_checked. now rewrite existsb_zero_false.
  Qed.
End Select.

(* ---------- MapSpec.shape: the mask marks exactly the external axes ---------- *)
Definition is_ext_axis (ms : mapspec) (ax : option str) : bool :=
  match ax with
  | Some index => match filter (fun x => mem_str index (indices x)) (ins ms) with [] => false | _ => true end
  | None => true
  end.

Lemma relevant_nonempty ms index :
  match filter (fun x => mem_str index (indices x)) (ins ms) with [] => false | _ => true end
  = mem_str index (input_indices_list ms).
Proof.
  unfold input_indices_list. induction (ins ms) as [|a l IH]; cbn [filter flat_map]; [reflexivity|].
  destruct (mem_str index (indices a)) eqn:E.
  - symmetry. apply mem_str_In. apply in_or_app. left. now apply mem_str_In.
  - rewrite IH. destruct (mem_str index (flat_map indices l)) eqn:E2; symmetry.
    + apply mem_str_In. apply in_or_app. right. now apply mem_str_In.
    + apply mem_str_false. intros H. apply in_app_or in H as [H|H].
      * apply mem_str_In in H. congruence.
      * apply mem_str_In in H. congruence.
Qed.

Lemma shape_mask ms ish internal sh mask :
  shape ms ish internal = Ok (sh, mask) ->
  exists o0 rest, outs ms = o0 :: rest /\ length sh = length (axes o0) /\ mask = map (is_ext_axis ms) (axes o0).
Proof.
  unfold shape. destruct (validate_shapes ms ish internal) as [u|e]; cbn [bind]; [|discriminate].
  destruct (outs ms) as [|o0 rest]; [discriminate|]. intros H. exists o0, rest. split; [reflexivity|].
  revert H. generalize 0 as k. revert sh mask.
  induction (axes o0) as [|ax l IH]; intros sh mask k H.
  - injection H as <- <-. split; reflexivity.
  - destruct ax as [index|]; [|discriminate].
    cbn [map is_ext_axis].
    destruct (filter (fun x => mem_str index (indices x)) (ins ms)) as [|r0 rs] eqn:F.
    + destruct (dict_get internal (aname o0)) as [ishp|]; [|discriminate].
      destruct (nth_error ishp k) as [d|]; [|discriminate].
      match type of H with (do r <- ?G; _) = _ => destruct G as [[sh' mask']|e] eqn:E end; cbn [bind] in H; [|discriminate].
      injection H as <- <-. destruct (IH _ _ _ E) as [H1 H2]. cbn [fst snd length]. split; [now f_equal|now f_equal].
    + destruct (common_dim ish index (r0 :: rs)) as [d|e]; cbn [bind] in H; [|discriminate].
      match type of H with (do r <- ?G; _) = _ => destruct G as [[sh' mask']|e] eqn:E end; cbn [bind] in H; [|discriminate].
      injection H as <- <-. destruct (IH _ _ _ E) as [H1 H2]. cbn [fst snd length]. split; [now f_equal|now f_equal].
Qed.

Lemma filter_id_map_somes ms l :
  forallb (fun ax => negb (is_none ax)) l = true ->
  length (filter id (map (is_ext_axis ms) l))
  = length (filter (fun n => mem_str n (input_indices_list ms)) (somes l)).
Proof.
  induction l as [|[x|] l IH]; cbn [forallb is_none negb andb]; intros H; [reflexivity| |discriminate].
  cbn [map somes filter is_ext_axis]. rewrite relevant_nonempty.
  destruct (mem_str x (input_indices_list ms)); cbn [id length]; rewrite IH by exact H; reflexivity.
Qed.

Lemma shape_side_conditions ms ish internal sh mask :
  wf_decl ms = true -> shape ms ish internal = Ok (sh, mask) ->
  length mask = length sh /\ length (ext_of mask sh) = length (external_indices ms).
Proof.
  intros Hwf H. destruct (shape_mask _ _ _ _ _ H) as [o0 [rest [Ho [Hl Hm]]]].
  assert (length mask = length sh) as Hlen by (subst mask; now rewrite map_length).
  split; [exact Hlen|].
  rewrite ext_of_length by (now symmetry). subst mask.
  unfold external_indices, output_indices. rewrite Ho. unfold indices. apply filter_id_map_somes.
  unfold wf_decl in Hwf. rewrite Ho in Hwf. apply andb_true_iff in Hwf as [_ Hwf].
  apply andb_true_iff in Hwf as [Hwf _]. apply andb_true_iff in Hwf as [Hwf _].
  cbn [forallb] in Hwf. apply andb_true_iff in Hwf as [Hwf _]. unfold no_colon in Hwf.
  rewrite existsb_negb_forallb in Hwf. now rewrite negb_involutive in Hwf.
Qed.
