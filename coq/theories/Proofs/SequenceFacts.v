(* C04, folder re-use: a run with cleanup=True into a folder that holds earlier runs leaves exactly the files of a run
   into an empty folder; hence after any sequence of runs every reload depends only on the last request. *)
From Verif Require Import Base.Prelude Base.StrUtil Base.Index Base.NdArr Model.MapSpec Model.MapRun Model.MapDenote
  Model.SymBody Model.RunInfoCodec Model.FSStore Corr.Run_C04 Corr.Valid_C04
  Proofs.StrFacts Proofs.ListFacts Proofs.RunInfoFacts Proofs.FSStoreFacts Proofs.ReloadFacts Proofs.ConsistentFacts Proofs.FinishFacts.

(* RunInfo.__post_init__ only looks at (and changes) the files *)
Lemma write_files w p c : w_files (write w p c) = fs_set (w_files w) p c.
Proof. reflexivity. Qed.

Lemma fold_write_files (inputs : list (str * pyv)) : forall w,
  w_files (fold_left (fun acc kv => write acc (PInput (fst kv)) (Pickled (snd kv))) inputs w)
  = fold_left (fun f kv => fs_set f (PInput (fst kv)) (Pickled (snd kv))) inputs (w_files w).
Proof. induction inputs as [|kv l IH]; intros w; cbn [fold_left]; [reflexivity|]. now rewrite IH, write_files. Qed.

Lemma post_init_files w w' ri inputs dflt :
  w_files w = w_files w' -> w_files (post_init w ri inputs dflt) = w_files (post_init w' ri inputs dflt).
Proof.
  intros E. unfold post_init. cbv zeta. rewrite !write_files, !fold_write_files. now rewrite E.
Qed.

(* the same finished run, seen from an interpreter with the given live manager processes *)
Definition relive (f : finished) (live : list (nat * list (list nat * val))) : finished :=
  {| f_info := f_info f; f_outs := f_outs f; f_state := f_state f;
     f_world := {| w_root := root_name; w_files := w_files (f_world f); w_live := live |} |}.

Lemma finish_in_clean legacy w0 c :
  w_root w0 = root_name ->
  finish_in legacy w0 c = match finish legacy c with
                          | Ok f => Ok (relive f (w_live w0 ++ w_live (f_world f)))
                          | Err e => Err e
                          end.
Proof.
  intros Hroot. unfold finish_in, finish.
  destruct (map_run sym_body (c_funcs c) (c_inputs c) (c_internal c)) as [st|]; [|reflexivity]. cbn [bind].
  destruct (create_run_info _ _ _ _ _ _ _ _) as [ri|]; [|reflexivity]. cbn [bind].
  destruct (outs_of_run _ _ _) as [outs|]; [|reflexivity]. cbn [bind].
  unfold world_after_cleanup, world_of. cbv zeta.
  destruct (mapM _ (combine (seq 0 (length outs)) outs)) as [fl|]; [|reflexivity]. cbn [bind].
  unfold relive. cbn [f_info f_outs f_state f_world w_files w_live]. rewrite Hroot.
  rewrite (post_init_files (cleanup_folder w0) {| w_root := root_name; w_files := []; w_live := [] |}) by reflexivity.
  reflexivity.
Qed.

Lemma last_run_clean w0 c f :
  c_cleanup c = true -> w_root w0 = root_name -> finish false c = Ok f ->
  last_run false w0 c = Ok (relive f (w_live w0 ++ w_live (f_world f))).
Proof. intros Hc Hroot Hfin. unfold last_run. rewrite (finish_in_clean false w0 c Hroot), Hfin. cbn [bind]. now rewrite Hc. Qed.

(* after any sequence of runs (each with cleanup=True) the folder holds exactly the files of the last request's run *)
Lemma run_sequence_root legacy : forall cs w0 w, run_sequence legacy w0 cs = Ok w -> w_root w0 = root_name -> w_root w = root_name.
Proof.
  unfold run_sequence. induction cs as [|c cs IH]; intros w0 w H Hroot; cbn [fold_left bind] in H.
  - now injection H as <-.
  - rewrite (finish_in_clean legacy w0 c Hroot) in H. destruct (finish legacy c) as [f|]; cbn [bind] in H.
    + eapply IH; [exact H|reflexivity].
    + rewrite fold_left_bind_err in H. discriminate.
Qed.

Theorem sequence_last legacy w0 cs c w :
  w_root w0 = root_name -> run_sequence legacy w0 (cs ++ [c]) = Ok w ->
  exists f live, finish legacy c = Ok f /\ w = {| w_root := root_name; w_files := w_files (f_world f); w_live := live |}.
Proof.
  intros Hroot H. unfold run_sequence in H. rewrite fold_left_app in H. cbn [fold_left] in H.
  fold (run_sequence legacy w0 cs) in H.
  destruct (run_sequence legacy w0 cs) as [w1|] eqn:E1; [|discriminate]. cbn [bind] in H.
  rewrite (finish_in_clean legacy w1 c (run_sequence_root legacy cs w0 w1 E1 Hroot)) in H.
  destruct (finish legacy c) as [f|]; [|discriminate]. cbn [bind] in H. injection H as <-.
  exists f, (w_live w1 ++ w_live (f_world f)). split; reflexivity.
Qed.

(* the sequence version of reload_eq_results: whatever was run into (and loaded from) the folder before, in whatever
   interpreter the reload happens, load_outputs returns what the LAST run stored *)
Theorem reload_after_sequence w0 cs c w live fn o :
  w_root w0 = root_name -> run_sequence false w0 (cs ++ [c]) = Ok w -> valid_request c = true ->
  In fn (c_funcs c) -> In o (fouts fn) -> kind_persists c fn = true ->
  let w' := {| w_root := w_root w; w_files := w_files w; w_live := live |} in
  exists f o' returned stored,
    finish false c = Ok f
    /\ find (fun x => str_eqb (fst (fst x)) o) (r_out (f_state f)) = Some (o', returned, stored)
    /\ load_outputs version_name w' o = Ok (Some (PVal stored), w').
Proof.
  intros Hroot Hseq Hv Hfn Ho Hk. destruct (sequence_last false w0 cs c w Hroot Hseq) as [f [live0 [Hfin ->]]].
  cbn [w_root w_files]. destruct (reload_eq_results_full c f live fn o Hfin Hv Hfn Ho Hk) as [o' [ret [stored [H1 H2]]]].
  exists f, o', ret, stored. auto.
Qed.

Theorem runinfo_after_sequence w0 cs c w live :
  w_root w0 = root_name -> run_sequence false w0 (cs ++ [c]) = Ok w -> valid_request c = true ->
  let w' := {| w_root := w_root w; w_files := w_files w; w_live := live |} in
  exists f, finish false c = Ok f
    /\ runinfo_load version_name w'
       = Ok ({| li_info := f_info f; li_inputs := map (fun kv => (fst kv, PVal (snd kv))) (c_inputs c);
                li_defaults := PEnv (pipeline_defaults (c_funcs c)) |}, w').
Proof.
  intros Hroot Hseq Hv. destruct (sequence_last false w0 cs c w Hroot Hseq) as [f [live0 [Hfin ->]]].
  cbn [w_root w_files]. exists f. split; [exact Hfin|]. exact (runinfo_reload_full c f live Hfin Hv).
Qed.

(* a sequence of valid requests never fails *)
Definition runnable (c : case) : Prop :=
  valid_request c = true /\ storage_complete c = true
  /\ exists d, denote_run sym_body (c_funcs c) (c_inputs c) (c_internal c) = Ok d.

Lemma run_sequence_succeeds : forall cs w0,
  w_root w0 = root_name -> Forall runnable cs -> exists w, run_sequence false w0 cs = Ok w.
Proof.
  unfold run_sequence. induction cs as [|c cs IH]; intros w0 Hroot Hall; [now exists w0|].
  inversion Hall as [|? ? [Hv [Hs [d Hd]]] Hrest]; subst. cbn [fold_left bind].
  destruct (finish_succeeds c d Hv Hs Hd) as [f Hfin].
  rewrite (finish_in_clean false w0 c Hroot), Hfin. cbn [bind]. apply IH; [reflexivity|exact Hrest].
Qed.
