(* C14 - shared=True: every interleaving of N clients is linearizable (Model/SharedSteps.v).
   Generic part: from three facts about the code of the operations
     - an operation that takes the lock is `Acquire body` where body consists of proxy calls followed by
       Release and the return (body_ok), and body run without interruption IS the sequential step (exec = seq);
     - while body runs, the managed objects stay in the relation `vis pre post` to the sequential states before
       and after the operation (what a lock-free call of another client may see);
     - a lock-free operation is one read-only proxy call;
   follows, for every reachable global state: the lock invariant, and a sequential history h (the operations in
   the order in which they took the lock) whose sequential run explains the managed objects and every result
   obtained so far. *)
From Verif Require Import Base.Prelude Model.Caches Model.SharedSteps.

Section Generic.
  Variables S O : Type.
  Variable code : O -> prog S.
  Variable seq : S -> O -> S * out.
  Variable I : S -> Prop.               (* invariant of the sequential model *)
  Variable lockedp : O -> bool.         (* does the operation take the lock? *)
  Variable rd : O -> S -> out.          (* result of a lock-free operation on the managed objects *)
  Variable vis : S -> S -> S -> Prop.   (* vis pre post d : d may be seen while pre -> post is in progress *)
  Variable d0 : S.

  Fixpoint body_ok (p : prog S) : Prop :=
    match p with
    | Call _ k => forall d, body_ok (k d)
    | Release (Ret _) => True
    | _ => False
    end.
  Fixpoint always (P : S -> Prop) (p : prog S) (d : S) : Prop :=
    P d /\ match p with
           | Call upd k => always P (k d) (upd d)
           | Acquire k => always P k d
           | Release k => always P k d
           | Ret _ => True
           end.

  Hypothesis I0 : I d0.
  Hypothesis HI : forall s o, I s -> I (fst (seq s o)).
  Hypothesis Hlocked : forall o, lockedp o = true ->
    exists b, code o = Acquire b /\ body_ok b
              /\ forall s, I s -> exec b s = seq s o /\ always (vis s (fst (seq s o))) b s.
  Hypothesis Hfree : forall o, lockedp o = false -> code o = Call (fun d => d) (fun d => Ret (rd o d)).

  Notation st := (st_from seq d0).
  Notation res := (res_from seq d0).
  Notation gst := (gstate S O).

  Lemma st_app : forall h i o s, st_from seq s (h ++ [(i, o)]) = fst (seq (st_from seq s h) o).
  Proof. induction h as [|[j o'] t IH]; intros; cbn; auto. Qed.

  Lemma res_app : forall h i o s,
    res_from seq s (h ++ [(i, o)]) = res_from seq s h ++ [(i, (o, snd (seq (st_from seq s h) o)))].
  Proof. induction h as [|[j o'] t IH]; intros; cbn; auto. now rewrite IH. Qed.

  Lemma proj_app : forall X i (l : list (nat * X)) j x,
    proj i (l ++ [(j, x)]) = if Nat.eqb j i then proj i l ++ [x] else proj i l.
  Proof.
    intros. unfold proj. rewrite filter_app, map_app. cbn. destruct (Nat.eqb j i); cbn; auto.
    now rewrite app_nil_r.
  Qed.

  Lemma I_st : forall h, I (st h).
  Proof.
    induction h as [|[i o] h IH] using rev_ind; cbn; auto. rewrite st_app. now apply HI.
  Qed.

  (* the managed objects a lock-free call can find: those of a state of the sequential run of h, or an
     intermediate content of one operation of h (related by vis to the states before and after it) *)
  Definition observable (h : list (nat * O)) (d : S) : Prop :=
    (exists n, n <= length h /\ d = st (firstn n h))
    \/ (exists n i o, nth_error h n = Some (i, o) /\ vis (st (firstn n h)) (st (firstn (Datatypes.S n) h)) d).

  Lemma obs_mono : forall h x d, observable h d -> observable (h ++ x) d.
  Proof.
    intros h x d [(n & Hn & E)|(n & i & o & Hn & V)].
    - left. exists n. rewrite app_length. split; [lia|]. rewrite firstn_app.
      replace (n - length h) with 0 by lia. cbn. now rewrite app_nil_r.
    - right. exists n, i, o. assert (n < length h) by (apply nth_error_Some; congruence).
      rewrite nth_error_app1 by auto. split; auto. rewrite !firstn_app.
      replace (n - length h) with 0 by lia. replace (Datatypes.S n - length h) with 0 by lia.
      cbn. now rewrite !app_nil_r.
  Qed.

  Lemma obs_now : forall h, observable h (st h).
  Proof. intros h. left. exists (length h). split; auto. now rewrite firstn_all. Qed.

  Lemma obs_mid : forall h0 i o d, vis (st h0) (fst (seq (st h0) o)) d -> observable (h0 ++ [(i, o)]) d.
  Proof.
    intros h0 i o d V. right. exists (length h0), i, o. split.
    - rewrite nth_error_app2 by lia. now rewrite Nat.sub_diag.
    - assert (E1 : firstn (length h0) (h0 ++ [(i, o)]) = h0).
      { rewrite firstn_app, Nat.sub_diag, firstn_all. cbn. apply app_nil_r. }
      assert (E2 : firstn (Datatypes.S (length h0)) (h0 ++ [(i, o)]) = h0 ++ [(i, o)]).
      { apply firstn_all2. rewrite app_length. cbn. lia. }
      rewrite E1, E2, st_app. exact V.
  Qed.

  Definition lockfree_ok (h : list (nat * O)) (x : O * out) : Prop :=
    lockedp (fst x) = true \/ exists d, snd x = rd (fst x) d /\ observable h d.

  (* what is known about client i when h is the sequential history so far *)
  Definition cl_ok (g : gst) (h : list (nat * O)) (i : nat) : Prop :=
    let c := g_cl g i in
    let mine := proj i (res h) in
    let donel := filter (fun x => lockedp (fst x)) (rev (c_done c)) in
    match c_cur c with
    | None => mine = donel
    | Some (o, p) =>
        if lockedp o then
          (* inside its critical section: the rest of the body, run alone, completes the sequential step *)
          (g_lock g = Some i /\ exists h0, h = h0 ++ [(i, o)] /\ body_ok p
             /\ exec p (g_data g) = seq (st h0) o
             /\ always (vis (st h0) (fst (seq (st h0) o))) p (g_data g)
             /\ mine = donel ++ [(o, snd (seq (st h0) o))])
          (* not yet at the lock *)
          \/ (g_lock g <> Some i /\ p = code o /\ mine = donel)
          (* lock released, about to return *)
          \/ (g_lock g <> Some i /\ exists r, p = Ret r /\ mine = donel ++ [(o, r)])
        else (p = code o \/ exists d, p = Ret (rd o d) /\ observable h d) /\ mine = donel
    end
    /\ Forall (lockfree_ok h) (c_done c).

  Definition Inv (g : gst) : Prop :=
    exists h, Forall (fun x => lockedp (snd x) = true) h
      /\ (g_lock g = None -> g_data g = st h)
      /\ (forall j, g_lock g = Some j ->
            exists o p, c_cur (g_cl g j) = Some (o, p) /\ lockedp o = true)
      /\ forall i, cl_ok g h i.

  Lemma Inv_init : forall progs, Inv (init d0 progs).
  Proof.
    intros progs. exists []. cbn. repeat split; auto.
    - intros j H. discriminate.
    - constructor.
  Qed.

  (* a step of client i leaves what is known about another client j intact *)
  Lemma frame : forall (g g' : gst) h h' j,
    g_cl g' j = g_cl g j ->
    (h' = h \/ exists i o, i <> j /\ h' = h ++ [(i, o)]) ->
    (g_lock g = Some j -> g_lock g' = Some j /\ g_data g' = g_data g /\ h' = h) ->
    (g_lock g <> Some j -> g_lock g' <> Some j) ->
    cl_ok g h j -> cl_ok g' h' j.
  Proof.
    intros g g' h h' j Ecl Hh Hheld Hfree' [Hc Hd]. unfold cl_ok. rewrite Ecl.
    assert (Emine : proj j (res h') = proj j (res h)).
    { destruct Hh as [->|(i & o & Nij & ->)]; auto. rewrite res_app, proj_app.
      apply Nat.eqb_neq in Nij. now rewrite Nij. }
    assert (Eobs : forall d, observable h d -> observable h' d).
    { intros d Hd'. destruct Hh as [->|(i & o & Nij & ->)]; auto. now apply obs_mono. }
    rewrite Emine. split.
    - destruct (c_cur (g_cl g j)) as [[o p]|]; auto. destruct (lockedp o).
      + destruct Hc as [(Hl & h0 & Eh & Hb & He & Ha & Hm)|[(Hl & Hp & Hm)|(Hl & r & Hp & Hm)]].
        * destruct (Hheld Hl) as (Hl' & Hdat & Ehh). subst h'. left. split; auto. exists h0.
          rewrite Hdat. auto.
        * right; left. auto.
        * right; right. split; auto. eauto.
      + destruct Hc as [[Hp|(d & Hp & Ho)] Hm]; split; auto. right. eauto.
    - eapply Forall_impl; [|exact Hd]. intros x [Hx|(d & Hx & Ho)]; [now left | right; eauto].
  Qed.

  Lemma set_cl_same : forall (g : gst) i c, set_cl S O g i c i = c.
  Proof. intros. unfold set_cl. now rewrite Nat.eqb_refl. Qed.
  Lemma set_cl_other : forall (g : gst) i c j, j <> i -> set_cl S O g i c j = g_cl g j.
  Proof. intros. unfold set_cl. apply Nat.eqb_neq in H. now rewrite H. Qed.

  Lemma code_locked_shape : forall o, lockedp o = true -> exists b, code o = Acquire b.
  Proof. intros o H. destruct (Hlocked o H) as (b & E & _). eauto. Qed.

  Lemma filter_rev_cons : forall (x : O * out) l,
    filter (fun x => lockedp (fst x)) (rev (x :: l))
    = filter (fun x => lockedp (fst x)) (rev l) ++ (if lockedp (fst x) then [x] else []).
  Proof. intros. cbn [rev]. rewrite filter_app. cbn. destruct (lockedp (fst x)); auto. Qed.

  (* the invariant is preserved by every step of every client *)
  Lemma Inv_step : forall g i g', Inv g -> cstep code i g = Some g' -> Inv g'.
  Proof.
    intros g i g' (h & Hh & Hfreeg & Hheld & Hcl) Hstep. unfold cstep in Hstep.
    pose proof (Hcl i) as [Hci Hdi]. unfold cl_ok in Hci.
    destruct (c_cur (g_cl g i)) as [[o p]|] eqn:Ecur.
    2:{ (* client i issues its next operation *)
      destruct (c_todo (g_cl g i)) as [|o t] eqn:Etodo; [discriminate|]. inversion Hstep; subst g'. clear Hstep.
      assert (Nl : g_lock g <> Some i).
      { intros Hl. destruct (Hheld i Hl) as (o' & p' & E & _). congruence. }
      exists h. cbn [g_lock g_data g_cl]. split; [auto|]. split; [auto|]. split.
      - intros j Hj. destruct (Nat.eq_dec j i) as [->|Nj]; [congruence|].
        rewrite set_cl_other by auto. auto.
      - intros j. destruct (Nat.eq_dec j i) as [->|Nj].
        + unfold cl_ok. cbn [g_cl g_lock g_data]. rewrite set_cl_same. cbn [c_cur c_done]. split; auto.
          destruct (lockedp o) eqn:El; auto.
        + apply (frame g _ h h); cbn [g_cl g_lock g_data]; [now rewrite set_cl_other | now left | intros Hj; auto | auto | auto]. }
    destruct p as [r|upd k|k|k].
    - (* return *)
      inversion Hstep; subst g'. clear Hstep.
      assert (Nl : g_lock g <> Some i /\
                   proj i (res h) = filter (fun x => lockedp (fst x)) (rev ((o, r) :: c_done (g_cl g i)))
                   /\ lockfree_ok h (o, r)).
      { rewrite filter_rev_cons. cbn [fst]. destruct (lockedp o) eqn:El.
        - destruct Hci as [(Hl & h0 & Eh & Hb & _)|[(Hl & Hp & Hm)|(Hl & r' & Hp & Hm)]].
          + cbn in Hb. contradiction.
          + destruct (code_locked_shape o El) as [b Eb]. congruence.
          + inversion Hp; subst r'. split; auto. split; auto. now left.
        - destruct Hci as [[Hp|(d & Hp & Ho)] Hm].
          + rewrite (Hfree o El) in Hp. discriminate.
          + inversion Hp; subst r. split.
            * intros Hl. destruct (Hheld i Hl) as (o' & p' & E & El'). congruence.
            * split; [now rewrite app_nil_r|]. right. exists d. auto. }
      destruct Nl as (Nl & Em & Ho).
      exists h. cbn [g_lock g_data g_cl]. split; [auto|]. split; [auto|]. split.
      + intros j Hj. destruct (Nat.eq_dec j i) as [->|Nj]; [congruence|]. rewrite set_cl_other by auto. auto.
      + intros j. destruct (Nat.eq_dec j i) as [->|Nj].
        * unfold cl_ok. cbn [g_cl g_lock g_data]. rewrite set_cl_same. cbn [c_cur c_done]. split; auto.
        * apply (frame g _ h h); cbn [g_cl g_lock g_data]; [now rewrite set_cl_other | now left | intros Hj; auto | auto | auto].
    - (* a proxy call *)
      inversion Hstep; subst g'. clear Hstep. destruct (lockedp o) eqn:El.
      + destruct Hci as [(Hl & h0 & Eh & Hb & He & Ha & Hm)|[(Hl & Hp & Hm)|(Hl & r' & Hp & Hm)]].
        2:{ destruct (code_locked_shape o El) as [b Eb]. congruence. }
        2:{ discriminate. }
        exists h. cbn [g_lock g_data g_cl]. split; [auto|]. split; [intros E; congruence|]. split.
        * intros j Hj. assert (j = i) by congruence. subst j. rewrite set_cl_same. cbn. eauto.
        * intros j. destruct (Nat.eq_dec j i) as [->|Nj].
          -- unfold cl_ok. cbn [g_cl g_lock g_data]. rewrite set_cl_same. cbn [c_cur c_done]. rewrite El.
             split; auto. left. split; auto. exists h0. cbn in Hb, He, Ha. destruct Ha as [_ Ha].
             repeat split; auto.
          -- apply (frame g _ h h); cbn [g_cl g_lock g_data];
               [now rewrite set_cl_other | now left | intros Hj; congruence | auto | auto].
      + destruct Hci as [[Hp|(d & Hp & Ho)] Hm]; [|discriminate].
        rewrite (Hfree o El) in Hp. inversion Hp; subst upd k. clear Hp.
        assert (Hobs : observable h (g_data g)).
        { destruct (g_lock g) as [j|] eqn:Elk.
          - destruct (Hheld j eq_refl) as (o' & p' & Ec' & El').
            pose proof (Hcl j) as [Hcj _]. unfold cl_ok in Hcj. rewrite Ec', El' in Hcj.
            destruct Hcj as [(Hl & h0 & Eh & Hb & He & Ha & Hm')|[(Hl & _)|(Hl & _)]]; try congruence.
            subst h. apply obs_mid. destruct p'; cbn in Ha; tauto.
          - rewrite (Hfreeg eq_refl). apply obs_now. }
        exists h. cbn [g_lock g_data g_cl]. split; [auto|]. split; [auto|]. split.
        * intros j Hj. destruct (Nat.eq_dec j i) as [->|Nj].
          -- destruct (Hheld i Hj) as (o' & p' & E & El'). congruence.
          -- rewrite set_cl_other by auto. auto.
        * intros j. destruct (Nat.eq_dec j i) as [->|Nj].
          -- unfold cl_ok. cbn [g_cl g_lock g_data]. rewrite set_cl_same. cbn [c_cur c_done]. rewrite El.
             split; auto. split; auto. right. eauto.
          -- apply (frame g _ h h); cbn [g_cl g_lock g_data]; [now rewrite set_cl_other | now left | intros Hj; auto | auto | auto].
    - (* lock.acquire() *)
      destruct (g_lock g) as [j0|] eqn:Elk; [discriminate|]. inversion Hstep; subst g'. clear Hstep.
      destruct (lockedp o) eqn:El.
      2:{ destruct Hci as [[Hp|(d & Hp & Ho)] Hm]; [rewrite (Hfree o El) in Hp|]; discriminate. }
      destruct Hci as [(Hl & _)|[(Hl & Hp & Hm)|(Hl & r' & Hp & Hm)]]; [discriminate| |discriminate].
      destruct (Hlocked o El) as (b & Eb & Hbok & Hbs). rewrite Eb in Hp. inversion Hp; subst k. clear Hp.
      destruct (Hbs (st h) (I_st h)) as [Hex Hal].
      exists (h ++ [(i, o)]). cbn [g_lock g_data g_cl]. split.
      { apply Forall_app. split; auto. }
      split; [discriminate|]. split.
      + intros j Hj. inversion Hj; subst j. rewrite set_cl_same. cbn. eauto.
      + intros j. destruct (Nat.eq_dec j i) as [->|Nj].
        * unfold cl_ok. cbn [g_cl g_lock g_data]. rewrite set_cl_same. cbn [c_cur c_done]. rewrite El. split.
          -- left. split; auto. exists h. rewrite (Hfreeg eq_refl). repeat split; auto.
             rewrite res_app, proj_app, Nat.eqb_refl. now rewrite Hm.
          -- eapply Forall_impl; [|exact Hdi]. intros x [Hx|(d & Hx & Ho)]; [now left|].
             right. exists d. split; auto. now apply obs_mono.
        * apply (frame g _ h (h ++ [(i, o)])); cbn [g_cl g_lock g_data];
            [now rewrite set_cl_other | right; exists i, o; auto | rewrite Elk; discriminate
            | intros _ E; inversion E; congruence | auto].
    - (* lock.release() *)
      inversion Hstep; subst g'. clear Hstep. destruct (lockedp o) eqn:El.
      2:{ destruct Hci as [[Hp|(d & Hp & Ho)] Hm]; [rewrite (Hfree o El) in Hp|]; discriminate. }
      destruct Hci as [(Hl & h0 & Eh & Hb & He & Ha & Hm)|[(Hl & Hp & Hm)|(Hl & r' & Hp & Hm)]].
      2:{ destruct (code_locked_shape o El) as [b Eb]. congruence. }
      2:{ discriminate. }
      destruct k as [r| | |]; cbn in Hb; try contradiction. cbn in He.
      assert (Ed : g_data g = st h) by (subst h; rewrite st_app, <- He; reflexivity).
      assert (Er : r = snd (seq (st h0) o)) by (rewrite <- He; reflexivity).
      exists h. cbn [g_lock g_data g_cl]. split; [auto|]. split; [auto|]. split; [discriminate|].
      intros j. destruct (Nat.eq_dec j i) as [->|Nj].
      + unfold cl_ok. cbn [g_cl g_lock g_data]. rewrite set_cl_same. cbn [c_cur c_done]. rewrite El. split; auto.
        right; right. split; [discriminate|]. exists r. split; auto. now rewrite Er.
      + apply (frame g _ h h); cbn [g_cl g_lock g_data];
          [now rewrite set_cl_other | now left | intros Hj; congruence | discriminate | auto].
  Qed.

  Theorem Inv_reachable : forall progs g, reachable code (init d0 progs) g -> Inv g.
  Proof.
    intros progs g H. induction H as [|g i g' _ IH Hs].
    - apply Inv_init.
    - eapply Inv_step; eauto.
  Qed.

  (* ---- the clients never lose or invent operations *)
  Definition issued (c : client S O) : list O :=
    map fst (rev (c_done c)) ++ match c_cur c with Some (o, _) => [o] | None => [] end ++ c_todo c.

  Lemma issued_step : forall g i g' j, cstep code i g = Some g' -> issued (g_cl g' j) = issued (g_cl g j).
  Proof.
    intros g i g' j Hstep. unfold cstep in Hstep.
    destruct (Nat.eq_dec j i) as [->|Nj].
    2:{ destruct (c_cur (g_cl g i)) as [[o p]|].
        - destruct p; try (inversion Hstep; subst; cbn; now rewrite set_cl_other).
          destruct (g_lock g); inversion Hstep; subst; cbn; now rewrite set_cl_other.
        - destruct (c_todo (g_cl g i)); inversion Hstep; subst; cbn; now rewrite set_cl_other. }
    unfold issued. destruct (c_cur (g_cl g i)) as [[o p]|] eqn:Ec.
    - destruct p; try (inversion Hstep; subst; cbn [g_cl]; rewrite set_cl_same; cbn; reflexivity).
      + inversion Hstep; subst; cbn [g_cl]; rewrite set_cl_same. cbn. rewrite map_app. cbn.
        now rewrite <- app_assoc.
      + destruct (g_lock g); inversion Hstep; subst; cbn [g_cl]; rewrite set_cl_same; cbn; reflexivity.
    - destruct (c_todo (g_cl g i)) eqn:Et; inversion Hstep; subst; cbn [g_cl]; rewrite set_cl_same. cbn.
      reflexivity.
  Qed.

  Lemma issued_reachable : forall progs g i, reachable code (init d0 progs) g -> issued (g_cl g i) = progs i.
  Proof.
    intros progs g i H. induction H as [|g j g' _ IH Hs]; auto. now rewrite (issued_step _ _ _ i Hs).
  Qed.

  (* ---- shared_linearizable *)
  Theorem linearizable : forall progs g, reachable code (init d0 progs) g -> complete g ->
    exists h : list (nat * O),
      Forall (fun x => lockedp (snd x) = true) h
      /\ g_lock g = None
      /\ g_data g = st h
      /\ forall i,
           map fst (rev (c_done (g_cl g i))) = progs i
           /\ filter (fun x => lockedp (fst x)) (rev (c_done (g_cl g i))) = proj i (res h)
           /\ Forall (lockfree_ok h) (c_done (g_cl g i)).
  Proof.
    intros progs g Hr Hc. destruct (Inv_reachable progs g Hr) as (h & Hh & Hfreeg & Hheld & Hcl).
    assert (Hl : g_lock g = None).
    { destruct (g_lock g) as [j|] eqn:E; auto. destruct (Hheld j eq_refl) as (o & p & Ec & _).
      destruct (Hc j). congruence. }
    exists h. repeat split; auto.
    - pose proof (issued_reachable progs g i Hr) as Hi. unfold issued in Hi. destruct (Hc i) as [E1 E2].
      rewrite E1, E2 in Hi. cbn in Hi. now rewrite app_nil_r in Hi.
    - destruct (Hcl i) as [Hci _]. destruct (Hc i) as [E1 _]. rewrite E1 in Hci. auto.
    - now destruct (Hcl i).
  Qed.

  (* ---- the lock invariant: a client is inside a critical section iff it owns the lock (mutual exclusion) *)
  Definition in_cs (c : client S O) : Prop :=
    exists o p, c_cur c = Some (o, p) /\ lockedp o = true /\ body_ok p.

  Theorem lock_invariant : forall progs g i, reachable code (init d0 progs) g ->
    (in_cs (g_cl g i) <-> g_lock g = Some i).
  Proof.
    intros progs g i Hr. destruct (Inv_reachable progs g Hr) as (h & Hh & Hfreeg & Hheld & Hcl).
    destruct (Hcl i) as [Hci _]. unfold cl_ok in Hci. split.
    - intros (o & p & Ec & El & Hb). rewrite Ec, El in Hci.
      destruct Hci as [(Hl & _)|[(Hl & Hp & Hm)|(Hl & r & Hp & Hm)]]; auto.
      + destruct (code_locked_shape o El) as [b Eb]. rewrite Hp, Eb in Hb. contradiction.
      + rewrite Hp in Hb. contradiction.
    - intros Hl. destruct (Hheld i Hl) as (o & p & Ec & El). rewrite Ec, El in Hci.
      destruct Hci as [(_ & h0 & _ & Hb & _)|[(Hn & _)|(Hn & _)]]; try congruence.
      exists o, p. auto.
  Qed.

  (* ---- the managed objects in ANY reachable interleaved state: the sequential state of the history when no
     client holds the lock, otherwise vis-related to the sequential states around the running operation *)
  Theorem state_invariant : forall progs g, reachable code (init d0 progs) g ->
    exists h, Forall (fun x => lockedp (snd x) = true) h
      /\ ((g_lock g = None /\ g_data g = st h)
          \/ exists j h0 o, g_lock g = Some j /\ h = h0 ++ [(j, o)]
                            /\ vis (st h0) (st h) (g_data g)).
  Proof.
    intros progs g Hr. destruct (Inv_reachable progs g Hr) as (h & Hh & Hfreeg & Hheld & Hcl).
    exists h. split; auto. destruct (g_lock g) as [j|] eqn:El; [right|left; auto].
    destruct (Hheld j eq_refl) as (o & p & Ec & Elo). destruct (Hcl j) as [Hcj _]. unfold cl_ok in Hcj.
    rewrite Ec, Elo in Hcj. destruct Hcj as [(_ & h0 & Eh & Hb & He & Ha & _)|[(Hn & _)|(Hn & _)]]; try congruence.
    exists j, h0, o. repeat split; auto. subst h. rewrite st_app. destruct p; cbn in Ha; tauto.
  Qed.

  (* ---- shared_no_raise *)
  Hypothesis Hnr : forall s o, I s -> lockedp o = true -> is_raised (snd (seq s o)) = false.
  Hypothesis Hrd : forall o d, is_raised (rd o d) = false.

  Lemma res_no_raise : forall h s, I s -> Forall (fun x => lockedp (snd x) = true) h ->
    Forall (fun x => is_raised (snd (snd x)) = false) (res_from seq s h).
  Proof.
    induction h as [|[i o] t IH]; intros s Hs Hh; cbn; constructor.
    - cbn. inversion Hh; subst. now apply Hnr.
    - inversion Hh; subst. apply IH; auto.
  Qed.

  Lemma proj_Forall : forall X (P : X -> Prop) i (l : list (nat * X)),
    Forall (fun x => P (snd x)) l -> Forall P (proj i l).
  Proof.
    intros X P i l H. unfold proj. induction H as [|x t Hx Ht IH]; cbn; auto.
    destruct (Nat.eqb (fst x) i); cbn; auto.
  Qed.

  Theorem no_raise : forall progs g i, reachable code (init d0 progs) g ->
    Forall (fun x => is_raised (snd x) = false) (c_done (g_cl g i)).
  Proof.
    intros progs g i Hr. destruct (Inv_reachable progs g Hr) as (h & Hh & Hfreeg & Hheld & Hcl).
    destruct (Hcl i) as [Hci Hdi]. unfold cl_ok in Hci.
    assert (Hmine : Forall (fun x : O * out => is_raised (snd x) = false) (proj i (res h))).
    { apply proj_Forall. apply res_no_raise; auto. }
    assert (Hlk : Forall (fun x : O * out => is_raised (snd x) = false)
                         (filter (fun x => lockedp (fst x)) (rev (c_done (g_cl g i))))).
    { destruct (c_cur (g_cl g i)) as [[o p]|].
      - destruct (lockedp o).
        + destruct Hci as [(_ & h0 & _ & _ & _ & _ & Hm)|[(_ & _ & Hm)|(_ & r & _ & Hm)]];
            rewrite Hm in Hmine; auto; apply Forall_app in Hmine; tauto.
        + destruct Hci as [_ Hm]. now rewrite Hm in Hmine.
      - now rewrite Hci in Hmine. }
    rewrite Forall_forall in *. intros x Hx. destruct (lockedp (fst x)) eqn:El.
    - apply Hlk. apply filter_In. split; auto. now apply in_rev in Hx.
    - destruct (Hdi x Hx) as [H|(d & E & _)]; [congruence|]. rewrite E. apply Hrd.
  Qed.
End Generic.

(* ---- generic: the sequential reading of h is the sequential model run on the operations of h *)
Lemma st_from_final : forall S O (seq : S -> O -> S * out) h s,
  st_from seq s h = final seq s (map snd h).
Proof.
  intros S O seq h. unfold final. induction h as [|[i o] t IH]; intros s; cbn; auto.
Qed.

Lemma res_from_run_ops : forall S O (seq : S -> O -> S * out) h s,
  map (fun x => snd (snd x)) (res_from seq s h) = run_ops seq s (map snd h).
Proof.
  intros S O seq h. induction h as [|[i o] t IH]; intros s; cbn; auto.
  destruct (seq s o) as [s' r] eqn:E. cbn. now rewrite IH.
Qed.

(* ================================================================== what a lock-free call may see: sub-dicts *)
Inductive sub {V} : list (nat * V) -> list (nat * V) -> Prop :=
| sub_refl : forall d, sub d d
| sub_del : forall k d d', sub d d' -> sub (adel k d) d'.

From Verif Require Import Proofs.CachesFacts.

Lemma sub_keys : forall V (d d' : list (nat * V)), sub d d' ->
  NoDup (map fst d') -> NoDup (map fst d) /\ length d <= length d' /\ incl d d'.
Proof.
  intros V d d' H. induction H as [d|k d d' H IH]; intros ND.
  - repeat split; auto. apply incl_refl.
  - destruct (IH ND) as (N1 & L1 & I1). repeat split.
    + rewrite keys_adel. now apply NoDup_qremove.
    + destruct (amem k d) eqn:E.
      * pose proof (length_adel _ k d E). lia.
      * assert (adel k d = d) as ->; auto.
        clear - E. unfold amem in E. induction d as [|[k' v'] t IHt]; cbn in *; auto.
        destruct (Nat.eqb k k'); [discriminate|]. f_equal. auto.
    + intros x Hx. apply I1. eapply In_adel; eauto.
Qed.

(* ================================================================== LRUCache instance *)
Section LruShared.
  Variable D : Type.
  Variable mx : nat.
  Hypothesis Hmx : 1 <= mx.

  Notation lcode := (lru_code D mx).
  Notation lseq := (@lru_step D mx).

  (* d is visible while the operation pre -> post runs: its dict is the dict of pre with some keys deleted,
     or already the dict of post *)
  Definition lru_vis (pre post d : lru) : Prop :=
    sub (l_dict d) (l_dict pre) \/ l_dict d = l_dict post.

  Lemma amem_head : forall V k (v : V) t, amem k ((k, v) :: t) = true.
  Proof. intros. unfold amem. cbn. now rewrite Nat.eqb_refl. Qed.

  Lemma lru_clear_exec : forall d q, exec (lru_clear_loop (map fst d)) (mkLru d q) = (mkLru [] [], ONone).
  Proof.
    induction d as [|[k v] t IH]; intros q; cbn; auto. rewrite !amem_head, ?Nat.eqb_refl. apply IH.
  Qed.

  Lemma lru_clear_body_ok : forall keys, body_ok lru (lru_clear_loop keys).
  Proof.
    induction keys as [|k t IH]; cbn; auto. intros d. destruct (amem k (l_dict d)); cbn; auto.
  Qed.

  Lemma lru_clear_always : forall d q pre post, sub d (l_dict pre) ->
    always lru (lru_vis pre post) (lru_clear_loop (map fst d)) (mkLru d q).
  Proof.
    induction d as [|[k v] t IH]; intros q pre post Hs; cbn.
    - repeat split; left; cbn; auto.
    - split; [left; auto|]. rewrite !amem_head, ?Nat.eqb_refl. apply IH.
      pose proof (sub_del k _ _ Hs) as H1. cbn in H1. rewrite Nat.eqb_refl in H1. exact H1.
  Qed.

  Lemma lru_store_always : forall k v d q pre post,
    (sub d (l_dict pre) \/ d = l_dict post) -> aset k v d = l_dict post ->
    always lru (lru_vis pre post) (lru_store k v) (mkLru d q).
  Proof.
    intros k v d q pre post H E. cbn. repeat split; auto; right; cbn; auto.
  Qed.

  Ltac vis_tac :=
    first [ left; cbn; apply sub_refl
          | left; cbn; apply sub_del; apply sub_refl
          | right; reflexivity ].

  Lemma lru_hlocked : forall o, lru_locked D o = true ->
    exists b, lcode o = Acquire b /\ body_ok lru b
              /\ forall s, lru_inv mx s -> exec b s = lseq s o /\ always lru (lru_vis s (fst (lseq s o))) b s.
  Proof.
    intros o Hl. destruct o as [k v dd|k|k| |]; try discriminate; cbn [lru_code]; eexists; (split; [reflexivity|]).
    - (* put *)
      split.
      { cbn. intros d. destruct (amem k (l_dict d)); cbn; intros d1.
        - destruct (qmem k (l_queue d1)); cbn; auto.
        - destruct (mx <=? length (l_queue d1)); cbn; auto. intros d2.
          destruct (l_queue d2); cbn; auto. intros d3. destruct (amem n (l_dict d3)); cbn; auto. }
      intros [d q] Hinv. pose proof (lru_inv_len _ _ Hinv) as HL.
      pose proof Hinv as (Nq & Nk & EQ & LE). cbn in *. unfold lru_put. cbn.
      destruct (amem k d) eqn:Ek; cbn.
      + assert (Hq : qmem k q = true) by (apply qmem_In, EQ, amem_In; auto). rewrite Hq. cbn.
        split; auto. repeat split; vis_tac.
      + destruct (mx <=? length q) eqn:Efull; cbn.
        * apply Nat.leb_le in Efull. destruct q as [|h q']; [cbn in Efull; lia|]. cbn.
          assert (Hh : amem h d = true) by (apply amem_In, EQ; now left). rewrite Hh. cbn.
          split; auto. repeat split; vis_tac.
        * split; auto. repeat split; vis_tac.
    - (* get *)
      split.
      { cbn. intros d. destruct (amem k (l_dict d)); cbn; auto. intros d1.
        destruct (aget k (l_dict d1)); cbn; auto. intros d2. destruct (qmem k (l_queue d2)); cbn; auto. }
      intros [d q] Hinv. pose proof Hinv as (Nq & Nk & EQ & LE). cbn in *. unfold lru_get. cbn.
      destruct (amem k d) eqn:Ek; cbn.
      + destruct (amem_aget _ _ Ek) as [v Hv]. rewrite Hv. cbn.
        assert (Hq : qmem k q = true) by (apply qmem_In, EQ, amem_In; auto). rewrite Hq. cbn.
        split; auto. repeat split; vis_tac.
      + split; auto. repeat split; vis_tac.
    - (* clear *)
      split.
      { cbn. intros d. apply lru_clear_body_ok. }
      intros [d q] Hinv. cbn. rewrite lru_clear_exec. split; auto. split; [left; constructor|].
      apply lru_clear_always. constructor.
  Qed.

  Lemma lru_hfree : forall o, lru_locked D o = false ->
    lcode o = Call (fun d => d) (fun d => Ret (lru_read D o d)).
  Proof. intros o H. destruct o; try discriminate; reflexivity. Qed.

  Lemma lru_hnr : forall s o, lru_inv mx s -> lru_locked D o = true -> is_raised (snd (lseq s o)) = false.
  Proof. intros s o H _. now apply lru_step_ok. Qed.

  Lemma lru_hrd : forall o d, is_raised (lru_read D o d) = false.
  Proof. intros o d. destruct o; reflexivity. Qed.

  Notation linit := (init (O := op D) lru_empty).

  (* shared_linearizable, LRUCache *)
  Theorem lru_shared_linearizable : forall progs g, reachable lcode (linit progs) g -> complete g ->
    exists h : list (nat * op D),
      Forall (fun x => lru_locked D (snd x) = true) h
      /\ g_lock g = None
      /\ g_data g = st_from lseq lru_empty h
      /\ forall i,
           map fst (rev (c_done (g_cl g i))) = progs i
           /\ filter (fun x => lru_locked D (fst x)) (rev (c_done (g_cl g i)))
              = SharedSteps.proj i (res_from lseq lru_empty h)
           /\ Forall (lockfree_ok lru (op D) lseq (lru_locked D) (lru_read D) lru_vis lru_empty h)
                     (c_done (g_cl g i)).
  Proof.
    intros progs g Hr Hc.
    apply (linearizable lru (op D) lcode lseq (lru_inv mx) (lru_locked D) (lru_read D) lru_vis lru_empty
             (lru_inv_empty mx) (fun s o H => proj1 (lru_step_ok D mx s o Hmx H)) lru_hlocked lru_hfree progs g Hr Hc).
  Qed.

  (* shared_no_raise, LRUCache: in every reachable interleaved state no client has seen an exception *)
  Theorem lru_shared_no_raise : forall progs g i, reachable lcode (linit progs) g ->
    Forall (fun x => is_raised (snd x) = false) (c_done (g_cl g i)).
  Proof.
    intros progs g i Hr.
    apply (no_raise lru (op D) lcode lseq (lru_inv mx) (lru_locked D) (lru_read D) lru_vis lru_empty
             (lru_inv_empty mx) (fun s o H => proj1 (lru_step_ok D mx s o Hmx H)) lru_hlocked lru_hfree
             lru_hnr lru_hrd progs g i Hr).
  Qed.
  Lemma lru_seq_inv : forall h : list (nat * op D), lru_inv mx (st_from lseq lru_empty h).
  Proof.
    intros h. apply (I_st lru (op D) lseq (lru_inv mx) lru_empty (lru_inv_empty mx)
                       (fun s o H => proj1 (lru_step_ok D mx s o Hmx H))).
  Qed.

  (* shared_inv, LRUCache: in EVERY reachable interleaved state
     - a client is inside a critical section iff it owns the lock (so at most one client is);
     - when nobody owns the lock the managed dict and queue are a state of the sequential model (hence satisfy
       lru_inv: bijection queue <-> dict, at most max_size entries);
     - at every moment, also in the middle of an operation of another client, the dict has no duplicate keys and
       at most max_size entries (len never exceeds max_size, not even transiently). *)
  Theorem lru_shared_inv : forall progs g, reachable lcode (linit progs) g ->
    (forall i, in_cs lru (op D) (lru_locked D) (g_cl g i) <-> g_lock g = Some i)
    /\ (g_lock g = None -> exists h : list (nat * op D), g_data g = st_from lseq lru_empty h /\ lru_inv mx (g_data g))
    /\ NoDup (map fst (l_dict (g_data g))) /\ length (l_dict (g_data g)) <= mx.
  Proof.
    intros progs g Hr. split; [|split].
    - intros i. apply (lock_invariant lru (op D) lcode lseq (lru_inv mx) (lru_locked D) (lru_read D) lru_vis lru_empty
                         (lru_inv_empty mx) (fun s o H => proj1 (lru_step_ok D mx s o Hmx H)) lru_hlocked lru_hfree
                         progs g i Hr).
    - intros Hl.
      destruct (state_invariant lru (op D) lcode lseq (lru_inv mx) (lru_locked D) (lru_read D) lru_vis lru_empty
                  (lru_inv_empty mx) (fun s o H => proj1 (lru_step_ok D mx s o Hmx H)) lru_hlocked lru_hfree
                  progs g Hr) as (h & _ & [[_ E]|(j & h0 & o & Hj & _)]); [|congruence].
      exists h. split; auto. rewrite E. apply lru_seq_inv.
    - destruct (state_invariant lru (op D) lcode lseq (lru_inv mx) (lru_locked D) (lru_read D) lru_vis lru_empty
                  (lru_inv_empty mx) (fun s o H => proj1 (lru_step_ok D mx s o Hmx H)) lru_hlocked lru_hfree
                  progs g Hr) as (h & _ & [[_ E]|(j & h0 & o & Hj & Eh & [Hs|Hp])]).
      + rewrite E. destruct (lru_seq_inv h) as (_ & Nk & _ & LE). auto.
      + destruct (lru_seq_inv h0) as (_ & Nk & _ & LE). destruct (sub_keys _ _ _ Hs Nk) as (N1 & L1 & _).
        split; auto. lia.
      + rewrite Hp. destruct (lru_seq_inv h) as (_ & Nk & _ & LE). auto.
  Qed.

  (* what the lock-free calls `k in cache` and `len(cache)` can return: the answer on a dict dd that is the
     dict of a state of the sequential run with some keys deleted (none, if no operation was in progress), or
     the dict of the next state of the sequential run; in particular never more than max_size entries *)
  Theorem lru_lockfree_values : forall (h : list (nat * op D)) x,
    lockfree_ok lru (op D) lseq (lru_locked D) (lru_read D) lru_vis lru_empty h x ->
    lru_locked D (fst x) = false ->
    exists n dd,
      (sub dd (l_dict (st_from lseq lru_empty (firstn n h)))
       \/ dd = l_dict (st_from lseq lru_empty (firstn (Datatypes.S n) h)))
      /\ length dd <= mx
      /\ snd x = match fst x with
                 | Mem k => OBool (amem k dd)
                 | Len => OLen (length dd)
                 | _ => ONone
                 end.
  Proof.
    intros h [o r] [Hl|(d & Er & Ho)] Hf; cbn [fst snd] in *; [congruence|].
    assert (Hr : r = match o with Mem k => OBool (amem k (l_dict d)) | Len => OLen (length (l_dict d)) | _ => ONone end).
    { rewrite Er. destruct o; reflexivity. }
    destruct Ho as [(n & Hn & E)|(n & i & o' & Hn & [Hs|Hp])].
    - exists n, (l_dict d). split; [left; rewrite E; constructor|]. split; auto.
      rewrite E. now destruct (lru_seq_inv (firstn n h)) as (_ & _ & _ & LE).
    - exists n, (l_dict d). split; [now left|]. split; auto.
      destruct (lru_seq_inv (firstn n h)) as (_ & Nk & _ & LE). destruct (sub_keys _ _ _ Hs Nk) as (_ & L1 & _). lia.
    - exists n, (l_dict d). split; [now right|]. split; auto.
      rewrite Hp. now destruct (lru_seq_inv (firstn (Datatypes.S n) h)) as (_ & _ & _ & LE).
  Qed.
End LruShared.

(* ================================================================== HybridCache instance *)
Section HybShared.
  Variable A : arith.
  Variables aw dw : num A.
  Variable mx : nat.
  Hypothesis Hmx : 1 <= mx.

  Notation hcode := (hyb_code A aw dw mx).
  Notation hseq := (hyb_step A aw dw mx true).
  Notation H := (hyb A).

  Definition hyb_vis (pre post d : H) : Prop :=
    sub (h_dict d) (h_dict pre) \/ h_dict d = h_dict post.

  Ltac hvis_tac :=
    first [ left; cbn; apply sub_refl
          | left; cbn; apply sub_del; apply sub_refl
          | right; reflexivity ].

  Lemma hyb_store_body_ok : forall k v d, body_ok H (hyb_store A k v d).
  Proof. intros. cbn. auto. Qed.

  Lemma hyb_expire_body_ok : forall rest, body_ok H rest -> body_ok H (hyb_expire_code A aw dw rest).
  Proof.
    intros rest Hr. unfold hyb_expire_code. cbn [body_ok]. intros s1 s2 s3.
    match goal with |- body_ok _ (match ?x with _ => _ end) => destruct x as [nc|e] end; [|cbn; auto].
    cbn [body_ok]. intros s4.
    match goal with |- body_ok _ (match ?x with _ => _ end) => destruct x as [nd|e] end; [|cbn; auto].
    destruct (scores A aw dw (h_cnt s3) nc nd) as [[|b r]|e]; cbn; auto.
    intros d1. destruct (amem (argmin A b r) (h_dict d1)); cbn; auto.
    intros d2. destruct (amem (argmin A b r) (h_cnt d2)); cbn; auto.
    intros d3. destruct (amem (argmin A b r) (h_dur d3)); cbn; auto.
  Qed.

  (* the pieces of _expire on a state of the sequential model *)
  Lemma hyb_parts : forall st, hyb_inv A mx st -> h_dict st <> [] ->
    mapM (fun kv => if fold_left Nat.add (map snd (h_cnt st)) 0 =? 0 then Err ZeroDivisionError
                    else Ok (fst kv, ndiv A (nnat A (snd kv)) (nnat A (fold_left Nat.add (map snd (h_cnt st)) 0))))
         (h_cnt st)
    = Ok (map (fun kv => (fst kv, ncount A st (snd kv))) (h_cnt st))
    /\ mapM (fun kv => if nzero A (fold_left (nadd A) (map snd (h_dur st)) (n0 A)) then Ok (fst kv, n0 A)
                       else Ok (fst kv, ndiv A (snd kv) (fold_left (nadd A) (map snd (h_dur st)) (n0 A))))
            (h_dur st)
       = Ok (map (fun kv => (fst kv, ndur A st (snd kv))) (h_dur st))
    /\ scores A aw dw (h_cnt st) (map (fun kv => (fst kv, ncount A st (snd kv))) (h_cnt st))
              (map (fun kv => (fst kv, ndur A st (snd kv))) (h_dur st)) = Ok (score_list A aw dw st)
    /\ exists b r, score_list A aw dw st = b :: r /\ argmin A b r = victim A aw dw st
                   /\ amem (victim A aw dw st) (h_dict st) = true
                   /\ amem (victim A aw dw st) (h_cnt st) = true
                   /\ amem (victim A aw dw st) (h_dur st) = true.
  Proof.
    intros st (Kc & Kd & ND & LE & POS) NE.
    assert (NEc : h_cnt st <> []).
    { intros E. rewrite E in Kc. cbn in Kc. destruct (h_dict st); [congruence | discriminate]. }
    assert (NDc : NoDup (map fst (h_cnt st))) by (rewrite Kc; auto).
    split; [|split; [|split]].
    - apply mapM_map. intros kv Hin. fold (tot_c A st).
      assert (1 <= tot_c A st).
      { unfold tot_c. rewrite Forall_forall in POS. specialize (POS kv Hin).
        pose proof (fold_add_ge (map snd (h_cnt st)) 0 (snd kv) (in_map snd _ _ Hin)). lia. }
      destruct (tot_c A st =? 0) eqn:E; [apply Nat.eqb_eq in E; lia | reflexivity].
    - apply mapM_map. intros kv Hin. fold (tot_d A st). unfold ndur. destruct (nzero A (tot_d A st)); reflexivity.
    - unfold scores, score_list. apply mapM_map. intros kv Hin.
      rewrite (aget_map _ _ (fun kv => ncount A st (snd kv))), (aget_map _ _ (fun kv => ndur A st (snd kv))).
      rewrite (aget_In_NoDup _ _ kv NDc Hin). cbn.
      assert (Hk : In (fst kv) (map fst (h_dur st))) by (rewrite Kd, <- Kc; now apply in_map).
      apply amem_In in Hk. destruct (amem_aget _ _ Hk) as [d Hd]. unfold score_of. rewrite Hd. reflexivity.
    - pose proof (victim_In A aw dw st NEc) as HV. unfold victim in *.
      destruct (score_list A aw dw st) as [|b r] eqn:ES.
      + unfold score_list in ES. destruct (h_cnt st); [congruence | discriminate].
      + exists b, r. repeat split; auto; apply amem_In; [rewrite <- Kc | | rewrite Kd, <- Kc]; auto.
  Qed.

  Lemma hyb_hlocked : forall o, hyb_locked A o = true ->
    exists b, hcode o = Acquire b /\ body_ok H b
              /\ forall s, hyb_inv A mx s -> exec b s = hseq s o /\ always H (hyb_vis s (fst (hseq s o))) b s.
  Proof.
    intros o Hl. destruct o as [k v d|k|k| |]; try discriminate; cbn [hyb_code]; eexists; (split; [reflexivity|]).
    - (* put *)
      split.
      { cbn [body_ok]. intros s. destruct (mx <=? length (h_dict s)).
        - apply hyb_expire_body_ok. apply hyb_store_body_ok.
        - apply hyb_store_body_ok. }
      intros s Hinv. cbn [exec always hyb_step]. unfold hyb_put.
      destruct (mx <=? length (h_dict s)) eqn:Efull.
      + apply Nat.leb_le in Efull.
        assert (NE : h_dict s <> []) by (intros E; rewrite E in Efull; cbn in Efull; lia).
        rewrite (hyb_expire_eq A aw dw mx Hmx s Hinv NE).
        destruct (hyb_parts s Hinv NE) as (E1 & E2 & E3 & b & r & ES & EV & M1 & M2 & M3).
        unfold hyb_expire_code, hyb_store. cbn [exec always]. rewrite E1. cbn [exec always]. rewrite E2.
        cbn [exec always]. rewrite E3, ES, EV.
        repeat (cbn [negb exec always h_dict h_cnt h_dur fst snd]; rewrite ?M1, ?M2, ?M3).
        split; [reflexivity|]. repeat split; hvis_tac.
      + cbn [fst snd]. unfold hyb_store. cbn [exec always h_dict h_cnt h_dur]. split; [reflexivity|].
        repeat split; hvis_tac.
    - (* get *)
      split.
      { cbn. intros s. destruct (amem k (h_dict s)); cbn; auto. intros s1.
        destruct (aget k (h_cnt s1)); cbn; auto. intros _ s3. destruct (aget k (h_dict s3)); cbn; auto. }
      intros s Hinv. pose proof Hinv as (Kc & Kd & ND & LE & POS). cbn [hyb_step]. unfold hyb_get. cbn [exec always].
      destruct (amem k (h_dict s)) eqn:Ek; cbn [negb exec always].
      + assert (Ec : amem k (h_cnt s) = true) by (rewrite (amem_keys_eq _ _ _ _ k Kc); auto).
        destruct (amem_aget _ _ Ec) as [c Hc]. rewrite Hc.
        destruct (amem_aget _ _ Ek) as [v Hv]. cbn [exec always h_dict h_cnt h_dur]. rewrite Hv.
        cbn [exec always fst]. split; [reflexivity|]. repeat split; hvis_tac.
      + split; [reflexivity|]. repeat split; hvis_tac.
    - (* clear *)
      split; [cbn; auto|]. intros s Hinv. cbn. split; [reflexivity|]. repeat split; hvis_tac.
  Qed.
  Lemma hyb_hfree : forall o, hyb_locked A o = false ->
    hcode o = Call (fun d => d) (fun d => Ret (hyb_read A o d)).
  Proof. intros o E. destruct o; try discriminate; reflexivity. Qed.

  Lemma hyb_hi : forall s o, hyb_inv A mx s -> hyb_inv A mx (fst (hseq s o)).
  Proof. intros s o Hs. now apply hyb_step_ok. Qed.

  Lemma hyb_hnr : forall s o, hyb_inv A mx s -> hyb_locked A o = true -> is_raised (snd (hseq s o)) = false.
  Proof. intros s o Hs _. now apply hyb_step_ok. Qed.

  Lemma hyb_hrd : forall o d, is_raised (hyb_read A o d) = false.
  Proof. intros o d. destruct o; reflexivity. Qed.

  Notation hinit := (init (O := op (num A)) (@hyb_empty A)).

  Theorem hyb_shared_linearizable : forall progs g, reachable hcode (hinit progs) g -> complete g ->
    exists h : list (nat * op (num A)),
      Forall (fun x => hyb_locked A (snd x) = true) h
      /\ g_lock g = None
      /\ g_data g = st_from hseq hyb_empty h
      /\ forall i,
           map fst (rev (c_done (g_cl g i))) = progs i
           /\ filter (fun x => hyb_locked A (fst x)) (rev (c_done (g_cl g i)))
              = SharedSteps.proj i (res_from hseq hyb_empty h)
           /\ Forall (lockfree_ok H (op (num A)) hseq (hyb_locked A) (hyb_read A) hyb_vis hyb_empty h)
                     (c_done (g_cl g i)).
  Proof.
    intros progs g Hr Hc.
    apply (linearizable H (op (num A)) hcode hseq (hyb_inv A mx) (hyb_locked A) (hyb_read A) hyb_vis hyb_empty
             (hyb_inv_empty A mx Hmx) hyb_hi hyb_hlocked hyb_hfree progs g Hr Hc).
  Qed.

  Theorem hyb_shared_no_raise : forall progs g i, reachable hcode (hinit progs) g ->
    Forall (fun x => is_raised (snd x) = false) (c_done (g_cl g i)).
  Proof.
    intros progs g i Hr.
    apply (no_raise H (op (num A)) hcode hseq (hyb_inv A mx) (hyb_locked A) (hyb_read A) hyb_vis hyb_empty
             (hyb_inv_empty A mx Hmx) hyb_hi hyb_hlocked hyb_hfree hyb_hnr hyb_hrd progs g i Hr).
  Qed.

  Lemma hyb_seq_inv : forall h : list (nat * op (num A)), hyb_inv A mx (st_from hseq hyb_empty h).
  Proof. intros h. apply (I_st H (op (num A)) hseq (hyb_inv A mx) hyb_empty (hyb_inv_empty A mx Hmx) hyb_hi). Qed.

  Theorem hyb_shared_inv : forall progs g, reachable hcode (hinit progs) g ->
    (forall i, in_cs H (op (num A)) (hyb_locked A) (g_cl g i) <-> g_lock g = Some i)
    /\ (g_lock g = None ->
        exists h : list (nat * op (num A)), g_data g = st_from hseq hyb_empty h /\ hyb_inv A mx (g_data g))
    /\ NoDup (map fst (h_dict (g_data g))) /\ length (h_dict (g_data g)) <= mx.
  Proof.
    intros progs g Hr. split; [|split].
    - intros i. apply (lock_invariant H (op (num A)) hcode hseq (hyb_inv A mx) (hyb_locked A) (hyb_read A) hyb_vis
                         hyb_empty (hyb_inv_empty A mx Hmx) hyb_hi hyb_hlocked hyb_hfree progs g i Hr).
    - intros Hl.
      destruct (state_invariant H (op (num A)) hcode hseq (hyb_inv A mx) (hyb_locked A) (hyb_read A) hyb_vis
                  hyb_empty (hyb_inv_empty A mx Hmx) hyb_hi hyb_hlocked hyb_hfree progs g Hr)
        as (h & _ & [[_ E]|(j & h0 & o & Hj & _)]); [|congruence].
      exists h. split; auto. rewrite E. apply hyb_seq_inv.
    - destruct (state_invariant H (op (num A)) hcode hseq (hyb_inv A mx) (hyb_locked A) (hyb_read A) hyb_vis
                  hyb_empty (hyb_inv_empty A mx Hmx) hyb_hi hyb_hlocked hyb_hfree progs g Hr)
        as (h & _ & [[_ E]|(j & h0 & o & Hj & Eh & [Hs|Hp])]).
      + rewrite E. destruct (hyb_seq_inv h) as (_ & _ & Nk & LE & _). auto.
      + destruct (hyb_seq_inv h0) as (_ & _ & Nk & LE & _). destruct (sub_keys _ _ _ Hs Nk) as (N1 & L1 & _).
        split; auto. lia.
      + rewrite Hp. destruct (hyb_seq_inv h) as (_ & _ & Nk & LE & _). auto.
  Qed.

  Theorem hyb_lockfree_values : forall (h : list (nat * op (num A))) x,
    lockfree_ok H (op (num A)) hseq (hyb_locked A) (hyb_read A) hyb_vis hyb_empty h x ->
    hyb_locked A (fst x) = false ->
    exists n dd,
      (sub dd (h_dict (st_from hseq hyb_empty (firstn n h)))
       \/ dd = h_dict (st_from hseq hyb_empty (firstn (Datatypes.S n) h)))
      /\ length dd <= mx
      /\ snd x = match fst x with
                 | Mem k => OBool (amem k dd)
                 | Len => OLen (length dd)
                 | _ => ONone
                 end.
  Proof.
    intros h [o r] [Hl|(d & Er & Ho)] Hf; cbn [fst snd] in *; [congruence|].
    assert (Hr : r = match o with Mem k => OBool (amem k (h_dict d)) | Len => OLen (length (h_dict d)) | _ => ONone end).
    { rewrite Er. destruct o; reflexivity. }
    destruct Ho as [(n & Hn & E)|(n & i & o' & Hn & [Hs|Hp])].
    - exists n, (h_dict d). split; [left; rewrite E; constructor|]. split; auto.
      rewrite E. now destruct (hyb_seq_inv (firstn n h)) as (_ & _ & _ & LE & _).
    - exists n, (h_dict d). split; [now left|]. split; auto.
      destruct (hyb_seq_inv (firstn n h)) as (_ & _ & Nk & LE & _).
      destruct (sub_keys _ _ _ Hs Nk) as (_ & L1 & _). lia.
    - exists n, (h_dict d). split; [now right|]. split; auto.
      rewrite Hp. now destruct (hyb_seq_inv (firstn (Datatypes.S n) h)) as (_ & _ & _ & LE & _).
  Qed.
End HybShared.

(* ================================================================== the schedule replay of the correspondence
   (Run_C14.conc_small: `turn` = what one pick of the harness' scheduler does) only visits reachable states, so
   the outcomes compared with the real code are outcomes of the interleaving semantics the theorems are about *)
Section Replay.
  Variables S O : Type.
  Variable code : O -> prog S.

  Lemma settle_reachable : forall fuel i g0 g,
    reachable code g0 g -> reachable code g0 (settle code fuel i g).
  Proof.
    induction fuel as [|f IH]; intros i g0 g Hr; cbn; auto.
    destruct (at_call (g_cl g i) || finished (g_cl g i)); auto.
    destruct (cstep code i g) as [g'|] eqn:E; auto. apply IH. eapply reach_step; eauto.
  Qed.

  Theorem turn_reachable : forall fuel i g0 g,
    reachable code g0 g -> reachable code g0 (turn code fuel i g).
  Proof.
    intros fuel i g0 g Hr. unfold turn. destruct (at_call (g_cl g i)).
    - destruct (cstep code i g) as [g'|] eqn:E; auto. apply settle_reachable. eapply reach_step; eauto.
    - now apply settle_reachable.
  Qed.
End Replay.
