(* simplify_preserves (C10): Model/Rewrite.simplify builds the pipeline  rest ++ nested  of MultiNestFacts, with output
   names (_output_name) that keep every output of a group that a function outside the group takes. *)
From Verif Require Import Base.Prelude Base.StrOrd Base.StrUtil Base.Graph Model.Pipe Model.Rewrite
  Proofs.GraphFacts Proofs.RewriteFacts Proofs.NestFacts Proofs.MultiNestFacts.

(* the parameters of a nested function are parameters of functions of its group *)
Lemma mk_nested_params fs new_out nd : mk_nested fs new_out = Ok nd ->
  forall c, In c (pnames (nf nd)) -> exists g, In g fs /\ In c (pnames (nf g)).
Proof.
  unfold mk_nested. destruct fs as [|a [|b fs0]]; try discriminate.
  set (fs := a :: b :: fs0). destruct (add_all [] fs) as [inner|] eqn:Ei; cbn [bind]; [|discriminate].
  apply add_all_ok in Ei. cbn [app] in Ei. subst inner.
  set (all_out := sort_strs (dedup (all_outputs (funcs fs)))).
  set (oo := match new_out with Some l => l | None => all_out end).
  set (ps := sort_strs (diff_str (dedup (flat_map unbound_params (funcs fs))) all_out)).
  assert (Hgo : (if negb (subset_str oo all_out) then Err ValueError
                 else Ok (Node (mkf (nested_name oo) oo (map (fun n => (n, n)) ps)
                                    (flat_map (fun n => match aget (rev (pdefaults (funcs fs))) n with Some v => [(n, v)] | None => [] end) ps)
                                    [] (existsb cached (funcs fs))) oo (Some fs))) = Ok nd ->
                forall c, In c (pnames (nf nd)) -> exists g, In g fs /\ In c (pnames (nf g))).
  { destruct (subset_str oo all_out); cbn [negb]; [|discriminate]. intros E. injection E as <-.
    intros c Hc. cbn [nf] in Hc. unfold pnames in Hc. cbn [params mkf] in Hc. rewrite map_map in Hc. cbn [fst] in Hc.
    rewrite map_id in Hc. unfold ps, sort_strs in Hc. apply (proj1 (sort_In _ _ _)) in Hc. apply (proj1 (diff_str_In _ _ _)) in Hc as [Hc _].
    apply (proj1 (dedup_In _ _)) in Hc. apply in_flat_map in Hc as (f & Hf & Hc). unfold funcs in Hf. apply in_map_iff in Hf as (g & <- & Hg).
    exists g. split; [exact Hg|]. unfold unbound_params in Hc. apply filter_In in Hc. tauto. }
  destruct (leaf_funcs (funcs fs)) as [|l1 [|l2 ls]]; [exact Hgo|exact Hgo|discriminate].
Qed.

(* _output_name keeps the outputs of the group that other groups or the functions left alone take *)
Lemma simp_output_name_keeps P groups all_inputs i grp c :
  nth_error groups i = Some grp -> In c (flat_map outs grp) ->
  (In c all_inputs \/ exists j gj, j <> i /\ nth_error groups j = Some gj /\ In c (flat_map pnames gj)) ->
  In c (simp_output_name P groups all_inputs i).
Proof.
  intros Ei Hc Huse. unfold simp_output_name. rewrite Ei. unfold sort_strs. apply sort_In. apply dedup_In.
  apply in_or_app. right. apply filter_In. split; [exact Hc|]. apply mem_str_In. apply in_or_app.
  destruct Huse as [H|(j & gj & Hne & Ej & Hj)]; [right; exact H|]. left.
  apply in_flat_map. exists (j, gj). split.
  - assert (G : forall l j0 k, nth_error l j0 = Some gj -> In (k + j0, gj) (combine (seq k (length l)) l)).
    { induction l as [|y l0 IH0]; intros [|j0] k E0; cbn in *; try discriminate.
      - injection E0 as ->. left. f_equal. lia.
      - right. replace (k + S j0) with (S k + j0) by lia. apply IH0. exact E0. }
    apply (G groups j 0 Ej).
  - cbn [fst snd]. destruct (j =? i) eqn:E; [apply Nat.eqb_eq in E; contradiction|exact Hj].
Qed.

Lemma simp_output_name_in P groups all_inputs i grp c :
  nth_error groups i = Some grp -> In c (simp_output_name P groups all_inputs i) -> In c (flat_map outs grp).
Proof.
  intros Ei Hc. unfold simp_output_name in Hc. rewrite Ei in Hc. unfold sort_strs in Hc. apply (proj1 (sort_In _ _ _)) in Hc.
  apply (proj1 (dedup_In _ _)) in Hc. apply in_app_or in Hc as [Hc|Hc].
  - destruct grp as [|b t]; [destruct Hc|]. cbn. apply in_or_app. left. exact Hc.
  - apply filter_In in Hc. tauto.
Qed.

(* Pipeline(functions): the outputs of an accepted list of functions are unique *)
Lemma add_all_unique : forall l acc r, add_all acc l = Ok r ->
  (forall n1 n2 o, In n1 acc -> In n2 acc -> In o (outs (nf n1)) -> In o (outs (nf n2)) -> n1 = n2) ->
  (forall n1 n2 o, In n1 r -> In n2 r -> In o (outs (nf n1)) -> In o (outs (nf n2)) -> n1 = n2).
Proof.
  unfold add_all. induction l as [|nd l IH]; intros acc r E U; cbn in E.
  - injection E as <-. exact U.
  - destruct (add_node acc nd) as [acc1|e] eqn:E1.
    + cbn in E. apply (IH acc1 r E). pose proof E1 as E1'. apply add_node_ok in E1'. subst acc1.
      unfold add_node in E1. destruct (existsb _ (outs (nf nd))) eqn:Ex; [discriminate|].
      assert (Hfresh : forall o, In o (outs (nf nd)) -> ~ In o (all_outputs (funcs acc))).
      { intros o Ho Hin. assert (existsb (fun o0 => mem_str o0 (all_outputs (funcs acc))) (outs (nf nd)) = true).
        { apply existsb_exists. exists o. split; [exact Ho|]. apply mem_str_In. exact Hin. } congruence. }
      intros n1 n2 o H1 H2 O1 O2. apply in_app_or in H1 as [H1|[<-|[]]]; apply in_app_or in H2 as [H2|[<-|[]]].
      * eapply U; eauto.
      * exfalso. apply (Hfresh o O2). apply in_all_outputs. eauto.
      * exfalso. apply (Hfresh o O1). apply in_all_outputs. eauto.
      * reflexivity.
    + exfalso. cbn in E. clear -E. induction l as [|x l IHl]; cbn in E; [discriminate|auto].
Qed.

Lemma in_combine_seq {A} (l : list A) : forall k i x, In (i, x) (combine (seq k (length l)) l) ->
  k <= i /\ nth_error l (i - k) = Some x.
Proof.
  induction l as [|y l IH]; intros k i x H; cbn in H; [destruct H|]. destruct H as [H|H].
  - injection H as <- <-. split; [lia|]. rewrite Nat.sub_diag. reflexivity.
  - apply IH in H as [H1 H2]. split; [lia|]. replace (i - k) with (S (i - S k)) by lia. exact H2.
Qed.

Definition grp_of_node (nd : node) : grp :=
  {| g_F := nf nd; g_oo := noorig nd; g_ps := pnames (nf nd);
     g_fs := match ninner nd with Some l => l | None => [] end |}.

Lemma Forall2_In_r {A B} (R : A -> B -> Prop) l r y : Forall2 R l r -> In y r -> exists x, In x l /\ R x y.
Proof.
  induction 1; intros Hy; [destruct Hy|]. destruct Hy as [<-|Hy]; [exists x; split; [left; reflexivity|assumption]|].
  destruct (IHForall2 Hy) as (x0 & H1 & H2). exists x0. split; [right; exact H1|exact H2].
Qed.

Lemma Forall2_nth_l {A B} (R : A -> B -> Prop) l r i x : Forall2 R l r -> nth_error l i = Some x ->
  exists y, nth_error r i = Some y /\ R x y.
Proof.
  intros H. revert i. induction H; intros [|i] E; cbn in *; try discriminate.
  - injection E as <-. eauto.
  - apply IHForall2. exact E.
Qed.
Lemma nth_combine_seq {A} (l : list A) : forall k i x, nth_error l i = Some x ->
  nth_error (combine (seq k (length l)) l) i = Some (k + i, x).
Proof.
  induction l as [|y l IH]; intros k [|i] x E; cbn in *; try discriminate.
  - injection E as ->. rewrite Nat.add_0_r. reflexivity.
  - replace (k + S i) with (S k + i) by lia. apply IH. exact E.
Qed.

Lemma node_func_find_gen (l : npipe) k : node_func (funcs l) k = option_map nf (find (fun nd => str_eqb (nid nd) k) l).
Proof.
  unfold node_func, funcs. induction l as [|x l IH]; cbn; [reflexivity|]. unfold nid at 1.
  destruct (str_eqb (fid (nf x)) k); [reflexivity|]. apply IH.
Qed.

Section Shape.
  Variable body : str -> alist -> result str.
  Variable pick : str -> str -> str.
  Variable p : npipe.
  Hypothesis Huniq : forall n1 n2 o, In n1 p -> In n2 p -> In o (outs (nf n1)) -> In o (outs (nf n2)) -> n1 = n2.
  Hypothesis Hne : forall n, In n p -> outs (nf n) <> [].

  Lemma Hnid a b : In a p -> In b p -> nid a = nid b -> a = b.
  Proof.
    intros Ha Hb Hab. unfold nid, fid in Hab.
    destruct (outs (nf a)) as [|oa ta] eqn:Ea; [exfalso; apply (Hne a Ha); exact Ea|].
    destruct (outs (nf b)) as [|ob tb] eqn:Eb; [exfalso; apply (Hne b Hb); exact Eb|].
    cbn in Hab. subst ob. apply (Huniq a b oa Ha Hb); [rewrite Ea; left; reflexivity|rewrite Eb; left; reflexivity].
  Qed.

  Definition find_nd (k : str) : list node :=
    match find (fun nd => str_eqb (nid nd) k) p with Some nd => [nd] | None => [] end.

  Lemma find_nd_in k x : In x (find_nd k) -> In x p /\ nid x = k.
  Proof.
    unfold find_nd. destruct (find _ p) as [y|] eqn:E; [|intros []]. intros [<-|[]].
    apply find_some in E as [E1 E2]. apply str_eqb_eq in E2. auto.
  Qed.
  Lemma find_nd_self x : In x p -> find_nd (nid x) = [x].
  Proof.
    intros Hx. unfold find_nd. destruct (find _ p) as [y|] eqn:E.
    - apply find_some in E as [E1 E2]. apply str_eqb_eq in E2. rewrite (Hnid y x E1 Hx E2). reflexivity.
    - exfalso. apply (find_none _ _ E) in Hx. rewrite str_eqb_refl in Hx. discriminate.
  Qed.
  Lemma find_nd_map l : incl l p -> flat_map find_nd (map nid l) = l.
  Proof.
    induction l as [|x l IH]; intros H; cbn; [reflexivity|]. rewrite find_nd_self by (apply H; left; reflexivity).
    cbn. f_equal. apply IH. intros y Hy. apply H. right. exact Hy.
  Qed.
  Lemma node_func_find k : node_func (funcs p) k = option_map nf (find (fun nd => str_eqb (nid nd) k) p).
  Proof. apply node_func_find_gen. Qed.
  Lemma group_funcs ids :
    flat_map (fun k => match node_func (funcs p) k with Some f => [f] | None => [] end) ids = funcs (flat_map find_nd ids).
  Proof.
    induction ids as [|k ids IH]; cbn; [reflexivity|]. unfold funcs in *. rewrite map_app, <- IH. f_equal.
    rewrite node_func_find. unfold find_nd. destruct (find _ p); reflexivity.
  Qed.

  (* what simplify_plan and simplify hand over *)
  Variable gids : list (list str).
  Let G (ids : list str) : npipe := flat_map find_nd ids.
  Let rest : npipe := filter (fun nd => negb (mem_str (nid nd) (concat gids))) p.
  Let groups_f : list (list pfunc) := map (fun ids => funcs (G ids)) gids.
  Let all_inputs : list str := flat_map pnames (funcs rest).
  Let names (i : nat) : list str := simp_output_name (funcs p) groups_f all_inputs i.
  Variable nested : list node.
  Hypothesis Hnested : Forall2 (fun (ig : nat * list str) nd => mk_nested (G (snd ig)) (Some (names (fst ig))) = Ok nd)
                               (combine (seq 0 (length gids)) gids) nested.
  Let groups : list grp := map grp_of_node nested.
  Let p' : npipe := rest ++ nested.
  Variable kw : alist.
  Hypothesis Hkw : forall k nd, In k (akeys kw) -> In nd p -> In (nid nd) (concat gids) -> ~ In k (outs (nf nd)).
  Hypothesis Hdk : forall n k, In n p -> In k (akeys (dflt (nf n))) -> In k (pnames (nf n)).
  Hypothesis Hcons : consistent_defaults (funcs p) = true.

  Lemma nested_facts nd : In nd nested ->
    exists i ids, nth_error gids i = Some ids /\ mk_nested (G ids) (Some (names i)) = Ok nd.
  Proof.
    intros H. destruct (Forall2_In_r _ _ _ _ Hnested H) as ([i ids] & Hin & HR). cbn [fst snd] in HR.
    apply in_combine_seq in Hin as [_ Hn]. rewrite Nat.sub_0_r in Hn. eauto.
  Qed.

  Lemma grp_facts g : In g groups ->
    exists i ids F ps, nth_error gids i = Some ids /\ g = {| g_F := F; g_oo := names i; g_ps := ps; g_fs := G ids |}
      /\ gnode g = Node F (names i) (Some (G ids)) /\ In (gnode g) nested
      /\ mk_nested (G ids) (Some (names i)) = Ok (gnode g)
      /\ outs F = names i /\ params F = map (fun n => (n, n)) ps /\ bound F = []
      /\ dflt F = flat_map (fun n => match aget (rev (pdefaults (funcs (G ids)))) n with Some v => [(n, v)] | None => [] end) ps
      /\ (forall o, In o (names i) -> In o (all_outputs (funcs (G ids))))
      /\ (forall x c, In x (G ids) -> In c (pnames (nf x)) -> ahas (bound (nf x)) c = false ->
                      In c ps \/ In c (all_outputs (funcs (G ids))))
      /\ (forall c, In c ps -> ~ In c (all_outputs (funcs (G ids)))).
  Proof.
    intros Hg. unfold groups in Hg. apply in_map_iff in Hg as (nd & <- & Hnd).
    destruct (nested_facts nd Hnd) as (i & ids & Ei & Emk).
    destruct (mk_nested_shape _ _ _ Emk) as (F & ps & -> & HFo & HFp & HFb & HFd & Hoo & Hps1 & Hps2).
    cbn [nested_outs] in *. exists i, ids, F, ps.
    assert (Hps : pnames F = ps).
    { unfold pnames. rewrite HFp, map_map. cbn [fst]. apply map_id. }
    split; [exact Ei|]. split; [unfold grp_of_node; cbn [nf noorig ninner]; rewrite Hps; reflexivity|].
    split; [reflexivity|]. split; [exact Hnd|]. split; [exact Emk|]. repeat (split; [assumption|]). assumption.
  Qed.

  Lemma map_gnode : map gnode groups = nested.
  Proof.
    unfold groups. rewrite map_map. rewrite <- (map_id nested) at 2. apply map_ext_in. intros nd Hnd.
    destruct (nested_facts nd Hnd) as (i & ids & _ & Emk).
    destruct (mk_nested_shape _ _ _ Emk) as (F & ps & -> & _). reflexivity.
  Qed.

  Lemma G_incl ids : incl (G ids) p.
  Proof. intros x Hx. unfold G in Hx. apply in_flat_map in Hx as (k & _ & Hx). apply find_nd_in in Hx. tauto. Qed.
  Lemma G_nid ids x : In x (G ids) -> In (nid x) ids.
  Proof. intros Hx. unfold G in Hx. apply in_flat_map in Hx as (k & Hk & Hx). apply find_nd_in in Hx as [_ <-]. exact Hk. Qed.
  Lemma nth_groups_f i ids : nth_error gids i = Some ids -> nth_error groups_f i = Some (funcs (G ids)).
  Proof. intros H. unfold groups_f. rewrite nth_error_map, H. reflexivity. Qed.
  Lemma in_concat_ids i ids k : nth_error gids i = Some ids -> In k ids -> In k (concat gids).
  Proof. intros H Hk. apply in_concat. exists ids. split; [eapply nth_error_In; eauto|exact Hk]. Qed.

  Lemma shape_rest : incl rest p.
  Proof. intros x Hx. unfold rest in Hx. apply filter_In in Hx. tauto. Qed.

  Lemma shape_cover n : In n p -> In n rest \/ exists g, In g groups /\ In n (g_fs g).
  Proof.
    intros Hn. destruct (mem_str (nid n) (concat gids)) eqn:Em.
    - right. apply mem_str_In in Em. apply in_concat in Em as (ids & Hids & Hk).
      apply In_nth_error in Hids as [i Ei].
      destruct (Forall2_nth_l _ _ _ i (i, ids) Hnested) as (nd & End & Emk).
      { rewrite (nth_combine_seq gids 0 i ids Ei). reflexivity. }
      cbn [fst snd] in Emk.
      assert (Hg : In (grp_of_node nd) groups) by (unfold groups; apply in_map; eapply nth_error_In; eauto).
      exists (grp_of_node nd). split; [exact Hg|].
      destruct (mk_nested_shape _ _ _ Emk) as (F & ps & -> & _). cbn [grp_of_node g_fs ninner].
      unfold G. apply in_flat_map. exists (nid n). split; [exact Hk|].
      rewrite find_nd_self by exact Hn. left. reflexivity.
    - left. unfold rest. apply filter_In. split; [exact Hn|]. rewrite Em. reflexivity.
  Qed.

  Lemma shape_hid_rest g a c : In g groups -> In a rest -> In c (pnames (nf a)) -> ahas (bound (nf a)) c = false ->
    In c (all_outputs (funcs (g_fs g))) -> In c (g_oo g).
  Proof.
    intros Hg Ha Hc _ Hin. destruct (grp_facts g Hg) as (i & ids & F & ps & Ei & -> & _). cbn [g_oo g_fs] in *.
    unfold names. apply (simp_output_name_keeps _ _ _ i (funcs (G ids)) c (nth_groups_f i ids Ei) Hin).
    left. unfold all_inputs. apply in_flat_map. exists (nf a). split; [apply in_map; exact Ha|exact Hc].
  Qed.

  Lemma shape_hid_grp g h c : In g groups -> In h groups -> In c (g_ps h) ->
    In c (all_outputs (funcs (g_fs g))) -> In c (g_oo g).
  Proof.
    intros Hg Hh Hc Hin.
    destruct (grp_facts g Hg) as (i & ids & F & ps & Ei & -> & _).
    destruct (grp_facts h Hh) as (j & ids' & F' & ps' & Ej & -> & Hgn & _ & Emk & _ & HFp' & _ & _ & _ & _ & Hps2').
    cbn [g_oo g_fs g_ps] in *.
    assert (Hpar : exists x, In x (G ids') /\ In c (pnames (nf x))).
    { apply (mk_nested_params _ _ _ Emk c). rewrite Hgn. cbn [nf]. unfold pnames. rewrite HFp', map_map. cbn [fst].
      rewrite map_id. exact Hc. }
    destruct Hpar as (x & Hx & Hcx).
    destruct (Nat.eq_dec j i) as [->|Hji].
    - exfalso. rewrite Ei in Ej. injection Ej as <-. apply (Hps2' c Hc). exact Hin.
    - unfold names. apply (simp_output_name_keeps _ _ _ i (funcs (G ids)) c (nth_groups_f i ids Ei) Hin).
      right. exists j, (funcs (G ids')). split; [exact Hji|]. split; [apply nth_groups_f; exact Ej|].
      apply in_flat_map. exists (nf x). split; [apply in_map; exact Hx|exact Hcx].
  Qed.

  Lemma shape_kw g k : In g groups -> In k (akeys kw) -> ~ In k (all_outputs (funcs (g_fs g))).
  Proof.
    intros Hg Hk Hin. destruct (grp_facts g Hg) as (i & ids & F & ps & Ei & -> & _). cbn [g_fs] in Hin.
    apply in_all_outputs in Hin as (x & Hx & Ho).
    apply (Hkw k x Hk (G_incl ids x Hx)); [|exact Ho]. eapply in_concat_ids; eauto. apply G_nid. exact Hx.
  Qed.

  Lemma shape_def c : is_output (funcs p) c = false -> default_of (funcs p') c = default_of (funcs p) c.
  Proof.
    intros Hc. unfold p'. rewrite <- map_gnode.
    apply (multi_defaults p rest groups shape_rest); [| | | | | | |exact Hcons|exact Hdk|exact Hc].
    - intros g Hg. destruct (grp_facts g Hg) as (i & ids & F & ps & Ei & -> & _). cbn. apply G_incl.
    - exact shape_cover.
    - intros g Hg. destruct (grp_facts g Hg) as (i & ids & F & ps & Ei & -> & _ & _ & _ & HFo & _). exact HFo.
    - intros g Hg. destruct (grp_facts g Hg) as (i & ids & F & ps & Ei & -> & _ & _ & _ & _ & _ & HFb & _). exact HFb.
    - intros g o Hg. destruct (grp_facts g Hg) as (i & ids & F & ps & Ei & -> & _ & _ & _ & _ & _ & _ & _ & Hoo & _). exact (Hoo o).
    - intros g x c0 Hg. destruct (grp_facts g Hg) as (i & ids & F & ps & Ei & -> & _ & _ & _ & _ & _ & _ & _ & _ & H1 & _). exact (H1 x c0).
    - intros g Hg. destruct (grp_facts g Hg) as (i & ids & F & ps & Ei & -> & _ & _ & _ & _ & _ & _ & HFd & _). exact HFd.
  Qed.

  (* simplify_sound on the shape *)
  Theorem shape_sound : forall n o v, neval body pick n p' kw o = Ok v -> exists m, neval body pick m p kw o = Ok v.
  Proof.
    unfold p'. rewrite <- map_gnode.
    apply (multi_sound body pick p rest groups kw Huniq shape_rest).
    - intros g Hg. destruct (grp_facts g Hg) as (i & ids & F & ps & Ei & -> & _). cbn. apply G_incl.
    - exact shape_cover.
    - intros g Hg. destruct (grp_facts g Hg) as (i & ids & F & ps & Ei & -> & _ & _ & _ & HFo & _). exact HFo.
    - intros g Hg. destruct (grp_facts g Hg) as (i & ids & F & ps & Ei & -> & _ & _ & _ & _ & HFp & _). exact HFp.
    - intros g Hg. destruct (grp_facts g Hg) as (i & ids & F & ps & Ei & -> & _ & _ & _ & _ & _ & HFb & _). exact HFb.
    - intros g o Hg. destruct (grp_facts g Hg) as (i & ids & F & ps & Ei & -> & _ & _ & _ & _ & _ & _ & _ & Hoo & _). exact (Hoo o).
    - intros g x c0 Hg. destruct (grp_facts g Hg) as (i & ids & F & ps & Ei & -> & _ & _ & _ & _ & _ & _ & _ & _ & H1 & _). exact (H1 x c0).
    - exact shape_kw.
    - exact shape_hid_rest.
    - exact shape_hid_grp.
    - rewrite map_gnode. exact shape_def.
  Qed.

  (* simplify_complete on the shape *)
  Hypothesis Huniq' : forall n1 n2 o, In n1 p' -> In n2 p' -> In o (outs (nf n1)) -> In o (outs (nf n2)) -> n1 = n2.
  Hypothesis HFargs : forall nd, In nd nested ->
    exists M args, args_with (neval body pick M p' kw) (funcs p') kw (nf nd) = Ok args.

  Theorem shape_complete : forall n o v, neval body pick n p kw o = Ok v -> In o (all_outputs (funcs p')) ->
    exists m, neval body pick m p' kw o = Ok v.
  Proof.
    revert Huniq' HFargs. unfold p'. rewrite <- map_gnode. intros Huniq' HFargs.
    apply (multi_complete body pick p rest groups kw Huniq shape_rest).
    - intros g Hg. destruct (grp_facts g Hg) as (i & ids & F & ps & Ei & -> & _). cbn. apply G_incl.
    - exact shape_cover.
    - intros g Hg. destruct (grp_facts g Hg) as (i & ids & F & ps & Ei & -> & _ & _ & _ & HFo & _). exact HFo.
    - intros g Hg. destruct (grp_facts g Hg) as (i & ids & F & ps & Ei & -> & _ & _ & _ & _ & HFp & _). exact HFp.
    - intros g Hg. destruct (grp_facts g Hg) as (i & ids & F & ps & Ei & -> & _ & _ & _ & _ & _ & HFb & _). exact HFb.
    - intros g o Hg. destruct (grp_facts g Hg) as (i & ids & F & ps & Ei & -> & _ & _ & _ & _ & _ & _ & _ & Hoo & _). exact (Hoo o).
    - intros g x c0 Hg. destruct (grp_facts g Hg) as (i & ids & F & ps & Ei & -> & _ & _ & _ & _ & _ & _ & _ & _ & H1 & _). exact (H1 x c0).
    - intros g c0 Hg. destruct (grp_facts g Hg) as (i & ids & F & ps & Ei & -> & _ & _ & _ & _ & _ & _ & _ & _ & _ & H2). exact (H2 c0).
    - exact shape_kw.
    - exact shape_hid_rest.
    - exact shape_hid_grp.
    - rewrite map_gnode. exact shape_def.
    - exact Huniq'.
    - intros g Hg. destruct (grp_facts g Hg) as (i & ids & F & ps & Ei & Eg & Hgn & Hin & _).
      destruct (HFargs (gnode g)) as (M & args & Ha); [rewrite map_gnode; exact Hin|].
      exists M, args. rewrite Hgn in Ha. cbn [nf] in Ha. rewrite Eg. cbn [g_F]. exact Ha.
  Qed.
End Shape.

(* ------------------------------------------------------------------ Model/Rewrite.simplify *)
Definition plan_groups_f (p : npipe) (gids : list (list str)) : list (list pfunc) :=
  map (fun g => flat_map (fun k => match node_func (funcs p) k with Some f => [f] | None => [] end) g) gids.
Definition plan_rest (p : npipe) (gids : list (list str)) : npipe :=
  filter (fun nd => negb (mem_str (nid nd) (concat gids))) p.

Lemma plan_shape o c p rest_ids gl : simplify_plan o c p = Ok (rest_ids, gl) ->
  exists gids, rest_ids = map nid (plan_rest p gids)
    /\ gl = map (fun ig => (snd ig, simp_output_name (funcs p) (plan_groups_f p gids)
                                      (flat_map pnames (funcs (plan_rest p gids))) (fst ig)))
                (combine (seq 0 (length gids)) gids).
Proof.
  unfold simplify_plan. destruct (if is_node (funcs p) o then producer (funcs p) o else None) as [func|]; [|discriminate].
  destruct (mapM _ (funcs p)) as [ra|]; cbn [bind]; [|discriminate].
  destruct (recurse (funcs p) ra (S (length (funcs p))) c func []) as [|d0 d]; [discriminate|].
  set (cn := combine_nodes (d0 :: d)).
  set (sorted := map (fun k => (k, sort_fids (funcs p) match cd_get cn k with Some v => v | None => [] end))
                     (sort_fids (funcs p) (map fst cn))).
  intros E. injection E as <- <-.
  exists (map (fun kv : str * list str => fst kv :: snd kv) sorted).
  unfold plan_rest, plan_groups_f. rewrite <- flat_map_concat_map. split; reflexivity.
Qed.

Lemma flat_fst_plan {B} (h : nat -> B) (gids : list (list str)) : forall k,
  flat_map fst (map (fun ig : nat * list str => (snd ig, h (fst ig))) (combine (seq k (length gids)) gids)) = concat gids.
Proof.
  induction gids as [|g l IH]; intros k; cbn; [reflexivity|]. rewrite IH. reflexivity.
Qed.

Lemma Forall2_map_l {A A' B} (R : A' -> B -> Prop) (h : A -> A') l r :
  Forall2 R (map h l) r -> Forall2 (fun a b => R (h a) b) l r.
Proof.
  revert r. induction l as [|x l IH]; intros r H; cbn in H; inversion H; subst; constructor; auto.
Qed.

Section SimplifyOp.
  Variable body : str -> alist -> result str.
  Variable pick : str -> str -> str.
  Variables (o : str) (c : bool) (p p' : npipe) (kw : alist).
  Hypothesis Hs : simplify o c p = Ok p'.
  (* unique, non-empty output names; defaults declared for parameters and consistent (what construction checks) *)
  Hypothesis Huniq : forall n1 n2 x, In n1 p -> In n2 p -> In x (outs (nf n1)) -> In x (outs (nf n2)) -> n1 = n2.
  Hypothesis Hne : forall n, In n p -> outs (nf n) <> [].
  Hypothesis Hdk : forall n k, In n p -> In k (akeys (dflt (nf n))) -> In k (pnames (nf n)).
  Hypothesis Hcons : consistent_defaults (funcs p) = true.
  (* the keywords do not name an output of a function that is combined *)
  Hypothesis Hkw : forall plan, simplify_plan o c p = Ok plan ->
    forall k nd, In k (akeys kw) -> In nd p -> In (nid nd) (flat_map fst (snd plan)) -> ~ In k (outs (nf nd)).

  Lemma simplify_unfold : exists gids nested,
    simplify_plan o c p = Ok (map nid (plan_rest p gids),
                             map (fun ig => (snd ig, simp_output_name (funcs p) (plan_groups_f p gids)
                                                       (flat_map pnames (funcs (plan_rest p gids))) (fst ig)))
                                 (combine (seq 0 (length gids)) gids))
    /\ p' = plan_rest p gids ++ nested
    /\ Forall2 (fun (ig : nat * list str) nd =>
                  mk_nested (flat_map (find_nd p) (snd ig))
                            (Some (simp_output_name (funcs p) (map (fun ids => funcs (flat_map (find_nd p) ids)) gids)
                                                    (flat_map pnames (funcs (plan_rest p gids))) (fst ig))) = Ok nd)
               (combine (seq 0 (length gids)) gids) nested
    /\ (forall n1 n2 x, In n1 p' -> In n2 p' -> In x (outs (nf n1)) -> In x (outs (nf n2)) -> n1 = n2).
  Proof.
    pose proof Hs as E. unfold simplify in E.
    destruct (simplify_plan o c p) as [[rest_ids gl]|] eqn:Ep; cbn [bind fst snd] in E; [|discriminate].
    destruct (plan_shape o c p rest_ids gl Ep) as (gids & -> & ->).
    fold (find_nd p) in E.
    destruct (mapM _ _) as [nested|] eqn:Em in E; cbn [bind] in E; [|discriminate].
    exists gids, nested. split; [reflexivity|].
    assert (Hrest : flat_map (find_nd p) (map nid (plan_rest p gids)) = plan_rest p gids).
    { apply (find_nd_map p Huniq Hne). intros x Hx. unfold plan_rest in Hx. apply filter_In in Hx. tauto. }
    rewrite Hrest in E.
    pose proof (add_all_unique _ _ _ E (fun n1 n2 x (H : In n1 []) => match H with end)) as HU.
    apply add_all_ok in E. cbn [app] in E. split; [exact E|]. split; [|exact HU].
    apply (mapM_Forall2 _ (fun g nd => mk_nested (flat_map (find_nd p) (fst g)) (Some (snd g)) = Ok nd)) in Em.
    2:{ intros x y _ H. exact H. }
    apply Forall2_map_l in Em. cbn [fst snd] in Em.
    assert (Hgf : plan_groups_f p gids = map (fun ids => funcs (flat_map (find_nd p) ids)) gids).
    { unfold plan_groups_f. apply map_ext. intros ids. apply group_funcs. }
    rewrite Hgf in Em. exact Em.
  Qed.

  (* simplify_sound: whatever the simplified pipeline computes, the original computes *)
  Theorem simplify_sound : forall n o' v, neval body pick n p' kw o' = Ok v -> exists m, neval body pick m p kw o' = Ok v.
  Proof.
    destruct simplify_unfold as (gids & nested & Ep & -> & HF & _).
    apply (shape_sound body pick p Huniq Hne gids nested HF kw); [|exact Hdk|exact Hcons].
    intros k nd Hk Hnd Hin. apply (Hkw _ Ep k nd Hk Hnd). cbn [snd]. rewrite flat_fst_plan. exact Hin.
  Qed.

  (* simplify_complete: whatever the original computes for a retained output, the simplified pipeline computes,
     provided the arguments of the new nested functions (the last functions of p') have values in p' *)
  Theorem simplify_complete :
    (forall plan, simplify_plan o c p = Ok plan -> forall nd, In nd (skipn (length (fst plan)) p') ->
       exists M args, args_with (neval body pick M p' kw) (funcs p') kw (nf nd) = Ok args) ->
    forall n o' v, neval body pick n p kw o' = Ok v -> In o' (all_outputs (funcs p')) ->
                   exists m, neval body pick m p' kw o' = Ok v.
  Proof.
    intros HFa. destruct simplify_unfold as (gids & nested & Ep & E' & HF & HU). subst p'.
    apply (shape_complete body pick p Huniq Hne gids nested HF kw); [|exact Hdk|exact Hcons|exact HU|].
    - intros k nd Hk Hnd Hin. apply (Hkw _ Ep k nd Hk Hnd). cbn [snd]. rewrite flat_fst_plan. exact Hin.
    - intros nd Hnd. apply (HFa _ Ep). cbn [fst]. rewrite map_length.
      rewrite skipn_app, skipn_all, Nat.sub_diag. cbn. exact Hnd.
  Qed.
End SimplifyOp.
