(* split_preserves (C10): the part of split_disconnected that holds an output evaluates it as the whole
   pipeline does.  Proved for every set of functions closed under adjacency (comp_closed); the components
   computed by Model/Rewrite.component are closed (component_closed). *)
From Verif Require Import Base.Prelude Base.StrOrd Base.StrUtil Base.Graph Model.Pipe Model.Rewrite
  Proofs.GraphFacts Proofs.RewriteFacts Proofs.NestFacts.

Definition comp_closed (P : pipeline) (C : list str) : Prop :=
  forall f g, In f P -> In g P -> In (fid f) C -> adjacent P f g = true -> In (fid g) C.

Lemma aget_app (a b : alist) k : aget (a ++ b) k = match aget a k with Some v => Some v | None => aget b k end.
Proof. induction a as [|[k' v] a IH]; cbn; [reflexivity|]. destruct (str_eqb k k'); [reflexivity|exact IH]. Qed.

Lemma aget_filter_agree (q1 q2 : str * str -> bool) (d : alist) k :
  (forall v, In (k, v) d -> q1 (k, v) = q2 (k, v)) -> aget (filter q1 d) k = aget (filter q2 d) k.
Proof.
  induction d as [|[k' v] d IH]; intros H; cbn; [reflexivity|].
  destruct (str_eqb k k') eqn:E.
  - apply str_eqb_eq in E. subst k'. rewrite <- (H v (or_introl eq_refl)).
    destruct (q1 (k, v)); cbn; [rewrite str_eqb_refl; reflexivity|].
    apply IH. intros v0 Hv0. apply H. right. exact Hv0.
  - assert (IH' : aget (filter q1 d) k = aget (filter q2 d) k).
    { apply IH. intros v0 Hv0. apply H. right. exact Hv0. }
    destruct (q1 (k', v)), (q2 (k', v)); cbn; rewrite ?E; exact IH'.
Qed.

Lemma aget_filter_none (q : str * str -> bool) (d : alist) k :
  (forall v, In (k, v) d -> q (k, v) = false) -> aget (filter q d) k = None.
Proof.
  induction d as [|[k' v] d IH]; intros H; cbn; [reflexivity|].
  destruct (q (k', v)) eqn:Eq; cbn.
  - destruct (str_eqb k k') eqn:E.
    + apply str_eqb_eq in E. subst k'. rewrite (H v (or_introl eq_refl)) in Eq. discriminate.
    + apply IH. intros v0 Hv0. apply H. right. exact Hv0.
  - apply IH. intros v0 Hv0. apply H. right. exact Hv0.
Qed.

Lemma In_akeys (d : alist) k v : In (k, v) d -> In k (akeys d).
Proof. intros H. unfold akeys. change k with (fst (k, v)). apply in_map. exact H. Qed.

Section Split.
  Variable body : str -> alist -> result str.
  Variable pick : str -> str -> str.
  Variables (p : npipe) (C : list str) (kw : alist).
  Let c := filter (fun nd => mem_str (nid nd) C) p.

  Hypothesis Huniq : forall n1 n2 o, In n1 p -> In n2 p -> In o (outs (nf n1)) -> In o (outs (nf n2)) -> n1 = n2.
  Hypothesis Hne : forall n, In n p -> outs (nf n) <> [].
  Hypothesis Hdflt : forall n k, In n p -> In k (akeys (dflt (nf n))) -> In k (pnames (nf n)).
  Hypothesis Hclosed : comp_closed (funcs p) C.

  Lemma c_incl : incl c p.
  Proof. intros x Hx. unfold c in Hx. apply filter_In in Hx. tauto. Qed.
  Lemma c_in x : In x p -> In (nid x) C -> In x c.
  Proof. intros H1 H2. unfold c. apply filter_In. split; [exact H1|]. apply mem_str_In. exact H2. Qed.
  Lemma c_nid x : In x c -> In (nid x) C.
  Proof. intros H. unfold c in H. apply filter_In in H as [_ H]. apply mem_str_In. exact H. Qed.

  Lemma nprod_p x o : In x p -> In o (outs (nf x)) -> nproducer p o = Some x.
  Proof.
    intros H1 H2. destruct (nproducer_exists p o x H1 H2) as [y E]. rewrite E. f_equal.
    apply nproducer_In in E as [E1 E2]. eapply Huniq; eauto.
  Qed.
  Lemma nprod_c x o : In x c -> In o (outs (nf x)) -> nproducer c o = Some x.
  Proof.
    intros H1 H2. destruct (nproducer_exists c o x H1 H2) as [y E]. rewrite E. f_equal.
    apply nproducer_In in E as [E1 E2]. eapply Huniq; eauto; apply c_incl; assumption.
  Qed.

  Lemma in_unbound f x : In x (unbound_params f) <-> In x (pnames f) /\ ahas (bound f) x = false.
  Proof. unfold unbound_params. rewrite filter_In, negb_true_iff. reflexivity. Qed.

  (* a function of p that produces an unbound parameter of a component function is in the component *)
  Lemma producer_in_comp g z n : In g c -> In z p -> In n (unbound_params (nf g)) -> In n (outs (nf z)) -> In z c.
  Proof.
    intros Hg Hz Hn Ho. apply c_in; [exact Hz|].
    apply (Hclosed (nf g) (nf z)); [apply in_map, c_incl, Hg|apply in_map; exact Hz|apply c_nid; exact Hg|].
    unfold adjacent. apply orb_true_iff. left. apply orb_true_iff. left.
    apply existsb_exists. exists n. split; [exact Hn|]. apply mem_str_In. exact Ho.
  Qed.
  (* a function of p that takes (unbound) a root argument of a component function is in the component *)
  Lemma sharer_in_comp g z n : In g c -> In z p -> In n (unbound_params (nf g)) -> In n (unbound_params (nf z)) ->
    is_output (funcs p) n = false -> In z c.
  Proof.
    intros Hg Hz Hn Hn2 Ho. apply c_in; [exact Hz|].
    apply (Hclosed (nf g) (nf z)); [apply in_map, c_incl, Hg|apply in_map; exact Hz|apply c_nid; exact Hg|].
    unfold adjacent. apply orb_true_iff. right.
    apply existsb_exists. exists n. split; [exact Hn|]. rewrite Ho. cbn. apply mem_str_In. exact Hn2.
  Qed.

  Definition S : list str := flat_map (fun nd => outs (nf nd) ++ unbound_params (nf nd)) c.

  Lemma S_cases n : In n S -> exists g, In g c /\ (In n (outs (nf g)) \/ In n (unbound_params (nf g))).
  Proof.
    unfold S. intros H. apply in_flat_map in H as (g & Hg & H). exists g. split; [exact Hg|].
    apply in_app_or in H. exact H.
  Qed.

  Lemma S_producer n : In n S -> nproducer c n = nproducer p n.
  Proof.
    intros H. destruct (S_cases n H) as (g & Hg & [Ho|Hu]).
    - rewrite (nprod_c g n Hg Ho), (nprod_p g n (c_incl g Hg) Ho). reflexivity.
    - destruct (nproducer p n) as [z|] eqn:Ez.
      + apply nproducer_In in Ez as [Z1 Z2]. apply nprod_c; [|exact Z2]. eapply producer_in_comp; eauto.
      + destruct (nproducer c n) as [z|] eqn:Ez'; [|reflexivity].
        apply nproducer_In in Ez' as [Z1 Z2]. rewrite (nprod_p z n (c_incl z Z1) Z2) in Ez. discriminate.
  Qed.

  Lemma S_closed : closed_under p S.
  Proof.
    intros o nd0 x Ho Ep Hx Hb.
    assert (Hnd : In nd0 c).
    { destruct (S_cases o Ho) as (g & Hg & [H1|H1]).
      - rewrite (nprod_p g o (c_incl g Hg) H1) in Ep. injection Ep as <-. exact Hg.
      - apply nproducer_In in Ep as [E1 E2]. eapply producer_in_comp; eauto. }
    unfold S. apply in_flat_map. exists nd0. split; [exact Hnd|]. apply in_or_app. right.
    apply in_unbound. split; assumption.
  Qed.

  Lemma S_default n : In n S -> is_output (funcs p) n = false -> default_of (funcs c) n = default_of (funcs p) n.
  Proof.
    intros Hn Ho. destruct (S_cases n Hn) as (g & Hg & [H1|H1]).
    { rewrite is_output_funcs, (nprod_p g n (c_incl g Hg) H1) in Ho. discriminate. }
    assert (Hoc : is_output (funcs c) n = false).
    { rewrite is_output_funcs, (S_producer n Hn), <- is_output_funcs. exact Ho. }
    unfold default_of, pdefaults.
    set (qp := fun (f : pfunc) (kv : str * str) => negb (ahas (bound f) (fst kv)) && negb (is_output (funcs p) (fst kv))).
    set (qc := fun (f : pfunc) (kv : str * str) => negb (ahas (bound f) (fst kv)) && negb (is_output (funcs c) (fst kv))).
    change (aget (flat_map (fun f => filter (qc f) (dflt f)) (funcs c)) n
            = aget (flat_map (fun f => filter (qp f) (dflt f)) (funcs p)) n).
    assert (G : forall l, incl l p ->
              aget (flat_map (fun f => filter (qc f) (dflt f)) (funcs (filter (fun nd => mem_str (nid nd) C) l))) n
              = aget (flat_map (fun f => filter (qp f) (dflt f)) (funcs l)) n); [|exact (G p (incl_refl p))].
    induction l as [|x l IH]; intros Hl; cbn [filter funcs map flat_map]; [reflexivity|].
    assert (Hx : In x p) by (apply Hl; left; reflexivity).
    assert (Hl' : incl l p) by (intros y Hy; apply Hl; right; exact Hy).
    destruct (mem_str (nid x) C) eqn:Ex.
    - cbn [funcs map flat_map]. rewrite !aget_app.
      rewrite (aget_filter_agree (qc (nf x)) (qp (nf x)) (dflt (nf x)) n).
      + destruct (aget (filter (qp (nf x)) (dflt (nf x))) n); [reflexivity|]. apply IH. exact Hl'.
      + intros v _. unfold qc, qp. cbn [fst]. rewrite Ho, Hoc. reflexivity.
    - rewrite aget_app. rewrite (aget_filter_none (qp (nf x)) (dflt (nf x)) n); [apply IH; exact Hl'|].
      intros v Hv. unfold qp. cbn [fst]. rewrite Ho. cbn [negb andb]. rewrite andb_true_r.
      destruct (ahas (bound (nf x)) n) eqn:Eb; [reflexivity|]. exfalso.
      assert (Hxc : In x c).
      { apply (sharer_in_comp g x n Hg Hx H1); [|exact Ho]. apply in_unbound. split; [|exact Eb].
        apply (Hdflt x n Hx). eapply In_akeys; eauto. }
      apply c_nid in Hxc. apply mem_str_In in Hxc. congruence.
  Qed.

  (* split_preserves: the component evaluates every name it produces (or reads) as the whole pipeline does *)
  Theorem split_agree : forall fuel o, In o S -> neval body pick fuel c kw o = neval body pick fuel p kw o.
  Proof.
    apply (neval_agree body pick p c kw S).
    - apply S_producer.
    - apply S_default.
    - apply S_closed.
  Qed.
End Split.

(* ------------------------------------------------------------------ the computed components are closed *)
Lemma existsb_ext_in {A} (f g : A -> bool) l : (forall x, In x l -> f x = g x) -> existsb f l = existsb g l.
Proof. induction l as [|x l IH]; intros H; cbn; [reflexivity|]. rewrite H by (left; reflexivity). rewrite IH; auto. intros. apply H. right. assumption. Qed.

Lemma adjacent_sym P f g : adjacent P f g = adjacent P g f.
Proof.
  unfold adjacent.
  rewrite (orb_comm (existsb (fun c => mem_str c (outs g)) (unbound_params f))).
  f_equal.
  destruct (existsb (fun c => negb (is_output P c) && mem_str c (unbound_params g)) (unbound_params f)) eqn:E.
  - symmetry. apply existsb_exists in E as (c & Hc & H). apply andb_true_iff in H as [H1 H2].
    apply existsb_exists. exists c. split; [apply mem_str_In; exact H2|]. rewrite H1. cbn. apply mem_str_In. exact Hc.
  - symmetry. destruct (existsb (fun c => negb (is_output P c) && mem_str c (unbound_params f)) (unbound_params g)) eqn:E2; [|reflexivity].
    apply existsb_exists in E2 as (c & Hc & H). apply andb_true_iff in H as [H1 H2].
    assert (E' : existsb (fun c => negb (is_output P c) && mem_str c (unbound_params g)) (unbound_params f) = true).
    { apply existsb_exists. exists c. split; [apply mem_str_In; exact H2|]. rewrite H1. cbn. apply mem_str_In. exact Hc. }
    congruence.
Qed.

Definition grow_step (P : pipeline) (acc : list str) (f : pfunc) : list str :=
  if mem_str (fid f) acc then acc
  else if existsb (fun g => mem_str (fid g) acc && adjacent P f g) P then acc ++ [fid f] else acc.

Lemma grow_unfold P comp : grow P comp = fold_left (grow_step P) P comp.
Proof. reflexivity. Qed.

Lemma fold_grow_ext P : forall l acc, exists t, fold_left (grow_step P) l acc = acc ++ t.
Proof.
  induction l as [|f l IH]; intros acc; cbn; [exists []; now rewrite app_nil_r|].
  unfold grow_step at 2. destruct (mem_str (fid f) acc); [apply IH|].
  destruct (existsb _ P); [|apply IH]. destruct (IH (acc ++ [fid f])) as [t Ht]. exists ([fid f] ++ t).
  rewrite Ht, <- app_assoc. reflexivity.
Qed.

(* if a pass adds nothing, every function adjacent to a member is a member *)
Lemma fold_grow_stable P : forall l acc, fold_left (grow_step P) l acc = acc ->
  forall f, In f l -> mem_str (fid f) acc = true
                      \/ existsb (fun g => mem_str (fid g) acc && adjacent P f g) P = false.
Proof.
  induction l as [|x l IH]; intros acc E f Hf; [destruct Hf|]. cbn in E.
  assert (Hx : grow_step P acc x = acc).
  { destruct (fold_grow_ext P l (grow_step P acc x)) as [t Ht]. rewrite Ht in E.
    unfold grow_step in *. destruct (mem_str (fid x) acc); [reflexivity|].
    destruct (existsb _ P); [|reflexivity]. exfalso.
    rewrite <- app_assoc in E. rewrite <- (app_nil_r acc) in E at 2. apply app_inv_head in E. discriminate. }
  rewrite Hx in E. destruct Hf as [<-|Hf]; [|apply IH; assumption].
  unfold grow_step in Hx. destruct (mem_str (fid x) acc); [left; reflexivity|].
  destruct (existsb _ P) eqn:Ee; [|right; reflexivity]. exfalso.
  rewrite <- (app_nil_r acc) in Hx at 2. apply app_inv_head in Hx. discriminate.
Qed.

Lemma stable_closed P comp : grow P comp = comp -> comp_closed P comp.
Proof.
  intros E f g Hf Hg Hfc Hadj. rewrite grow_unfold in E.
  destruct (fold_grow_stable P P comp E g Hg) as [H|H]; [apply mem_str_In; exact H|].
  exfalso. assert (Ht : existsb (fun g0 => mem_str (fid g0) comp && adjacent P g g0) P = true).
  { apply existsb_exists. exists f. split; [exact Hf|]. rewrite adjacent_sym, Hadj.
    rewrite (proj2 (mem_str_In _ _) Hfc). reflexivity. }
  congruence.
Qed.

Lemma fold_grow_inv P : forall l acc, NoDup acc -> incl acc (map fid P) -> incl l P ->
  NoDup (fold_left (grow_step P) l acc) /\ incl (fold_left (grow_step P) l acc) (map fid P).
Proof.
  induction l as [|f l IH]; intros acc H1 H2 Hl; cbn; [auto|].
  apply IH; [| |intros x Hx; apply Hl; right; exact Hx]; unfold grow_step;
    destruct (mem_str (fid f) acc) eqn:Em; auto; destruct (existsb _ P); auto.
  - apply nodup_app_intro; [exact H1|repeat constructor; intros []|].
    intros x Hx [<-|[]]. apply mem_str_not_In in Em. contradiction.
  - intros x Hx. apply in_app_or in Hx as [Hx|[<-|[]]]; [apply H2; exact Hx|].
    apply in_map. apply Hl. left. reflexivity.
Qed.

Lemma grow_n_closed P : forall n comp, NoDup comp -> incl comp (map fid P) ->
  length (map fid P) < length comp + n -> comp_closed P (grow_n n P comp).
Proof.
  induction n as [|n IH]; intros comp H1 H2 Hlen; cbn [grow_n].
  - exfalso. pose proof (NoDup_incl_length H1 H2). lia.
  - destruct (fold_grow_ext P P comp) as [t Ht]. rewrite <- grow_unfold in Ht.
    destruct (fold_grow_inv P P comp H1 H2 (incl_refl P)) as [N1 N2]. rewrite <- grow_unfold in N1, N2.
    destruct t as [|x t].
    + rewrite app_nil_r in Ht.
      assert (Hst : forall k, grow_n k P comp = comp).
      { induction k as [|k IHk]; cbn; [reflexivity|]. rewrite Ht. exact IHk. }
      rewrite Ht, Hst. apply stable_closed. exact Ht.
    + apply IH; [exact N1|exact N2|]. rewrite Ht, app_length. cbn. lia.
Qed.

Lemma component_closed P f : In f P -> comp_closed P (component P f).
Proof.
  intros Hf. unfold component. apply grow_n_closed.
  - repeat constructor. intros [].
  - intros x [<-|[]]. apply in_map. exact Hf.
  - rewrite map_length. cbn. lia.
Qed.

Lemma grow_n_start P : forall n comp x, In x comp -> In x (grow_n n P comp).
Proof.
  induction n as [|n IH]; intros comp x Hx; cbn; [exact Hx|]. apply IH.
  destruct (fold_grow_ext P P comp) as [t Ht]. rewrite grow_unfold, Ht. apply in_or_app. left. exact Hx.
Qed.

Section SplitOp.
  Variable body : str -> alist -> result str.
  Variable pick : str -> str -> str.

  (* split_preserves: every output of the part returned by split_disconnected evaluates as in the whole pipeline *)
  Theorem split_preserves o p c kw :
    split o p = Ok c ->
    (forall n1 n2 x, In n1 p -> In n2 p -> In x (outs (nf n1)) -> In x (outs (nf n2)) -> n1 = n2) ->
    (forall n, In n p -> outs (nf n) <> []) ->
    (forall n k, In n p -> In k (akeys (dflt (nf n))) -> In k (pnames (nf n))) ->
    (exists nd, In nd c /\ In o (outs (nf nd)))
    /\ forall fuel o' nd, In nd c -> In o' (outs (nf nd)) ->
         neval body pick fuel c kw o' = neval body pick fuel p kw o'.
  Proof.
    intros E Huniq Hne Hdflt. unfold split in E.
    destruct (components (funcs p)) as [|c1 [|c2 cs]] eqn:Ec; try discriminate.
    destruct (producer (funcs p) o) as [f|] eqn:Ef; [|discriminate].
    destruct (find (mem_str (fid f)) (c1 :: c2 :: cs)) as [C|] eqn:EC; [|discriminate].
    apply add_all_ok in E. cbn [app] in E. subst c.
    (* C is the component of one of the functions *)
    assert (HC : exists f0, In f0 (funcs p) /\ C = component (funcs p) f0).
    { apply find_some in EC as [EC _]. rewrite <- Ec in EC. clear -EC. unfold components in EC.
      assert (G : forall l acc, (forall x, In x acc -> exists f0, In f0 (funcs p) /\ x = component (funcs p) f0) ->
                  incl l (funcs p) ->
                  forall x, In x (fold_left (fun acc f => if existsb (mem_str (fid f)) acc then acc
                                                          else acc ++ [component (funcs p) f]) l acc) ->
                            exists f0, In f0 (funcs p) /\ x = component (funcs p) f0).
      { induction l as [|g l IH]; intros acc Ha Hl x Hx; cbn in Hx; [apply Ha; exact Hx|].
        eapply IH; [| |exact Hx].
        - intros y Hy. destruct (existsb (mem_str (fid g)) acc); [apply Ha; exact Hy|].
          apply in_app_or in Hy as [Hy|[<-|[]]]; [apply Ha; exact Hy|].
          exists g. split; [apply Hl; left; reflexivity|reflexivity].
        - intros y Hy. apply Hl. right. exact Hy. }
      apply (G (funcs p) []); [intros x []|apply incl_refl|exact EC]. }
    destruct HC as (f0 & Hf0 & ->).
    pose proof (component_closed (funcs p) f0 Hf0) as Hcl.
    split.
    - rewrite producer_funcs in Ef. destruct (nproducer p o) as [nd|] eqn:En; [|discriminate].
      cbn in Ef. injection Ef as <-. apply nproducer_In in En as [E1 E2]. exists nd. split; [|exact E2].
      apply filter_In. split; [exact E1|]. apply find_some in EC as [_ EC]. exact EC.
    - intros fuel o' nd Hnd Ho'.
      apply (split_agree body pick p (component (funcs p) f0) kw Huniq Hdflt Hcl).
      unfold S. apply in_flat_map. exists nd. split; [exact Hnd|]. apply in_or_app. left. exact Ho'.
  Qed.
End SplitOp.
