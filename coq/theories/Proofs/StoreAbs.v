(* The abstraction of a "finite map from external positions to stored values" to the masked n-d array of the
   reference (abs_of), and what the reference operations do on such arrays.  Both concrete models are then related to
   the reference through their lookup functions (StoreFileFacts.v, StoreDictFacts.v). *)
From Verif Require Import Base.Prelude Base.Index Base.PySlice Model.Store Model.StoreSpec
  Proofs.IndexFacts Proofs.PySliceFacts Proofs.StoreBase.

(* ---------- keys (no geometry needed) ---------- *)
Lemma norm_item_in_range d k k' r :
  norm_item d k = Ok k' -> axis_range d k' = Ok r -> forall x, In x r -> x < d.
Proof.
  destruct k as [z|a b c]; cbn.
  - destruct (norm_int z d) as [n|e] eqn:En; [|discriminate]. intros H. injection H as <-. cbn.
    intros H. injection H as <-. intros x [<-|[]]. now apply norm_int_ok in En.
  - intros H. injection H as <-. cbn. intros H x Hx. eapply slice_indices_in_range; eauto.
Qed.

Lemma norm_items_length sizes : forall key nk,
  norm_items sizes key = Ok nk -> length key = length sizes -> length nk = length sizes.
Proof.
  induction sizes as [|d t IH]; intros [|k key] nk H L; cbn in *; try discriminate.
  - now injection H as <-.
  - destruct (norm_item d k) as [k'|e]; [|discriminate]. cbn in H.
    destruct (norm_items t key) as [rest|e] eqn:Er; [|discriminate]. cbn in H. injection H as <-.
    cbn. f_equal. eapply IH; eauto.
Qed.

Lemma axes_in_bounds sizes : forall key nk axes,
  length key = length sizes -> norm_items sizes key = Ok nk -> axes_of sizes nk = Ok axes ->
  forall p, In p (cart axes) -> in_bounds sizes p = true.
Proof.
  induction sizes as [|d t IH]; intros [|k key] nk axes L Hn Ha p Hp; cbn in *; try discriminate.
  - injection Hn as <-. injection Ha as <-. destruct Hp as [<-|[]]. reflexivity.
  - destruct (norm_item d k) as [k'|e] eqn:Ek; [|discriminate]. cbn in Hn.
    destruct (norm_items t key) as [rest|e] eqn:Er; [|discriminate]. cbn in Hn. injection Hn as <-.
    cbn in Ha. destruct (axis_range d k') as [r|e] eqn:Erange; [|discriminate]. cbn in Ha.
    destruct (axes_of t rest) as [ax|e] eqn:Eax; [|discriminate]. cbn in Ha. injection Ha as <-.
    cbn in Hp. apply in_flat_map in Hp as [x [Hx Hq]]. apply in_map_iff in Hq as [q [<- Hq]].
    cbn. apply andb_true_iff. split.
    + apply Nat.ltb_lt. eapply norm_item_in_range; eauto.
    + eapply IH; eauto.
Qed.

Lemma norm_key_ref_ok sizes key nk :
  norm_key_ref sizes key = Ok nk -> length key = length sizes /\ norm_items sizes key = Ok nk.
Proof.
  unfold norm_key_ref. destruct (length key =? length sizes) eqn:El; [|discriminate].
  apply Nat.eqb_eq in El. auto.
Qed.

(* the product of the slice lengths is the number of selected positions *)
Lemma slice_lens_prod sizes : forall nk axes,
  axes_of sizes nk = Ok axes -> prod (slice_lens nk axes) = length (cart axes).
Proof.
  induction sizes as [|d t IH]; intros [|k nk] axes Ha; cbn [axes_of] in Ha; try (injection Ha as <-; reflexivity).
  destruct (axis_range d k) as [r|e] eqn:Er; [|discriminate]. cbn [bind] in Ha.
  destruct (axes_of t nk) as [ax|e] eqn:Eax; [|discriminate]. cbn in Ha. injection Ha as <-.
  specialize (IH _ _ Eax).
  assert (length (cart (r :: ax)) = length r * length (cart ax)) as ->.
  { rewrite !cart_length. cbn [map]. now rewrite prod_cons. }
  destruct k as [n|a b c].
  - cbn in Er. injection Er as <-. change (slice_lens (NInt n :: nk) ([n] :: ax)) with (slice_lens nk ax).
    rewrite IH. cbn [length]. lia.
  - change (slice_lens (NSlice a b c :: nk) (r :: ax)) with (length r :: slice_lens nk ax).
    rewrite prod_cons, IH. reflexivity.
Qed.

(* a key without slices selects exactly one position *)
Lemma no_slice_axes sizes : forall nk axes,
  has_slice nk = false -> length nk = length sizes -> axes_of sizes nk = Ok axes ->
  axes = map (fun n => [n]) (nk_ints nk) /\ slice_lens nk axes = [].
Proof.
  unfold has_slice, nk_ints.
  induction sizes as [|d t IH]; intros [|k nk] axes Hs L Ha; cbn in *; try discriminate.
  - injection Ha as <-. auto.
  - apply orb_false_iff in Hs as [Hk Hs]. destruct k as [n|a b c]; [|discriminate]. cbn in Ha.
    destruct (axes_of t nk) as [ax|e] eqn:Eax; [|discriminate]. cbn in Ha. injection Ha as <-.
    destruct (IH nk ax Hs) as [E1 E2]; [now injection L|assumption|].
    split; cbn; [f_equal; exact E1|exact E2].
Qed.

Lemma no_slice_axes_ok sizes : forall nk,
  has_slice nk = false -> exists axes, axes_of sizes nk = Ok axes.
Proof.
  unfold has_slice.
  induction sizes as [|d t IH]; intros [|k nk] Hs; cbn in *; try (eexists; reflexivity).
  apply orb_false_iff in Hs as [Hk Hs]. destruct k as [n|a b c]; [|discriminate]. cbn.
  destruct (IH nk Hs) as [ax ->]. cbn. eexists; reflexivity.
Qed.

(* re-normalising a normalised key does nothing *)
Lemma norm_items_denorm sizes : forall key nk,
  norm_items sizes key = Ok nk -> length key = length sizes -> norm_items sizes (denorm nk) = Ok nk.
Proof.
  unfold denorm.
  induction sizes as [|d t IH]; intros [|k key] nk H L; cbn in *; try discriminate.
  - now injection H as <-.
  - destruct (norm_item d k) as [k'|e] eqn:Ek; [|discriminate]. cbn in H.
    destruct (norm_items t key) as [rest|e] eqn:Er; [|discriminate]. cbn in H. injection H as <-.
    cbn. rewrite (IH key rest) by auto.
    destruct k as [z|a b c]; cbn in Ek.
    + destruct (norm_int z d) as [n|e] eqn:En; [|discriminate]. injection Ek as <-. cbn.
      rewrite norm_int_of_nat by (eapply norm_int_ok; eauto). reflexivity.
    + injection Ek as <-. reflexivity.
Qed.

Lemma denorm_length nk : length (denorm nk) = length nk.
Proof. apply map_length. Qed.

Lemma merge_repeat_true {A} n : forall (e i : list A), length e = n -> merge (repeat true n) e i = e.
Proof.
  induction n as [|n IH]; intros [|x e] i L; cbn in *; try discriminate; [reflexivity|].
  f_equal. apply IH. now injection L.
Qed.

Section Abs.
  Variable E : Type.
  Variable g : geom.
  Hypothesis Hg : geom_ok g = true.

  Local Notation ext := (g_ext g).
  Local Notation int := (g_int g).
  Local Notation mask := (g_mask g).
  Local Notation full := (full_shape g).
  Local Notation cell := (cell E).
  Local Notation sval := (sval E).

  Lemma Lext : length ext = count_true mask.
  Proof.
    unfold geom_ok in Hg. repeat (apply andb_true_iff in Hg as [Hg ?]). apply Nat.eqb_eq in Hg. auto.
  Qed.
  Lemma Lint : length int = count_false mask.
  Proof.
    unfold geom_ok in Hg. repeat (apply andb_true_iff in Hg as [Hg ?]).
    match goal with H : (count_false _ =? _) = true |- _ => apply Nat.eqb_eq in H; auto end.
  Qed.
  Lemma Pext : 0 < prod ext.
  Proof. unfold geom_ok in Hg. repeat (apply andb_true_iff in Hg as [Hg ?]). now apply prod_pos. Qed.
  Lemma Pint : 0 < prod int.
  Proof. unfold geom_ok in Hg. repeat (apply andb_true_iff in Hg as [Hg ?]). now apply prod_pos. Qed.

  Lemma full_length : length full = length mask.
  Proof. apply merge_length; [apply Lext|apply Lint]. Qed.

  Lemma full_split p : in_bounds full p = true ->
    in_bounds ext (ext_of mask p) = true /\ in_bounds int (int_of mask p) = true.
  Proof. apply in_bounds_split; [apply Lext|apply Lint]. Qed.

  Lemma full_merge e j : in_bounds ext e = true -> in_bounds int j = true ->
    in_bounds full (merge mask e j) = true.
  Proof. intros He Hj. apply in_bounds_merge; auto; [apply Lext|apply Lint]. Qed.

  Lemma ext_int_of_merge e j : in_bounds ext e = true -> in_bounds int j = true ->
    ext_of mask (merge mask e j) = e /\ int_of mask (merge mask e j) = j.
  Proof.
    intros He Hj. apply ext_of_merge.
    - rewrite (in_bounds_length _ _ He). apply Lext.
    - rewrite (in_bounds_length _ _ Hj). apply Lint.
  Qed.

  Lemma merge_of_split p : in_bounds full p = true -> merge mask (ext_of mask p) (int_of mask p) = p.
  Proof. intros H. apply merge_ext_int. rewrite (in_bounds_length _ _ H). apply full_length. Qed.

  (* ---------- the abstraction ---------- *)
  Lemma abs_length look : length (abs_of E g look) = prod full.
  Proof. unfold abs_of. now rewrite map_length, all_indices_length. Qed.

  Lemma nd_get_abs look p : in_bounds full p = true -> nd_get E full (abs_of E g look) p = cell_at E g look p.
  Proof. intros H. unfold abs_of. now apply nd_get_map_all. Qed.

  Lemma abs_ext look1 look2 :
    (forall e, in_bounds ext e = true -> look1 e = look2 e) -> abs_of E g look1 = abs_of E g look2.
  Proof.
    intros H. unfold abs_of. apply map_ext_in. intros p Hp. apply in_all_indices in Hp.
    unfold cell_at. rewrite H; [reflexivity|]. now apply full_split.
  Qed.

  Lemma abs_empty : abs_of E g (fun _ => None) = absent E g.
  Proof.
    unfold abs_of, absent, cell_at. cbn. rewrite map_const_repeat. now rewrite all_indices_length.
  Qed.

  Lemma nd_get_abs_merge look e j : in_bounds ext e = true -> in_bounds int j = true ->
    nd_get E full (abs_of E g look) (merge mask e j) = cell_of E (look e) (ravel int j).
  Proof.
    intros He Hj. rewrite nd_get_abs by (now apply full_merge). unfold cell_at.
    destruct (ext_int_of_merge e j He Hj) as [-> ->]. reflexivity.
  Qed.

  Lemma fetch_ok look p : good E g look -> in_bounds full p = true ->
    fetch E g (look (ext_of mask p)) p = Ok (cell_at E g look p).
  Proof.
    intros Hgood Hp. unfold fetch, cell_at, cell_of, nth_cell.
    destruct (full_split p Hp) as [He Hj].
    destruct (look (ext_of mask p)) as [v|] eqn:El; [|reflexivity].
    pose proof (Hgood _ _ He El) as Lv. pose proof (ravel_lt _ _ Hj) as Hlt.
    destruct (nth_error v (ravel int (int_of mask p))) eqn:En; [reflexivity|].
    apply nth_error_None in En. lia.
  Qed.

  (* ---------- normalize_key is the reference normalisation ---------- *)
  Lemma normalize_key_get key : normalize_key g key false = norm_key_ref full key.
  Proof.
    unfold normalize_key, norm_key_ref. rewrite full_length.
    destruct (length key =? length mask); reflexivity.
  Qed.

  Lemma normalize_key_dump key : normalize_key g key true = norm_key_ref ext key.
  Proof.
    unfold normalize_key, norm_key_ref. rewrite <- Lext.
    destruct (length key =? length ext); cbn [negb]; [|reflexivity].
    now rewrite merge_repeat_true.
  Qed.

  Lemma norm_key_ref_denorm sizes key nk :
    norm_key_ref sizes key = Ok nk -> norm_key_ref sizes (denorm nk) = Ok nk.
  Proof.
    intros H. apply norm_key_ref_ok in H as [L H]. unfold norm_key_ref.
    rewrite denorm_length, (norm_items_length _ _ _ H L), Nat.eqb_refl.
    now apply norm_items_denorm with (key := key).
  Qed.

  (* ---------- __getitem__ ---------- *)
  Lemma getM_abs look key : getM E g (abs_of E g look) key = getL E g look key.
  Proof.
    unfold getM, getL. destruct (norm_key_ref full key) as [nk|e] eqn:En; cbn [bind]; [|reflexivity].
    destruct (axes_of full nk) as [axes|e] eqn:Ea; cbn [bind]; [|reflexivity].
    apply norm_key_ref_ok in En as [L En].
    f_equal. f_equal. apply map_ext_in. intros p Hp. apply nd_get_abs.
    eapply axes_in_bounds; eauto.
  Qed.

  (* ---------- dump ---------- *)
  Lemma dumpM_abs look key v :
    dumpM E g (abs_of E g look) key v =
    match dumpL E g look key v with Ok look' => Ok (abs_of E g look') | Err e => Err e end.
  Proof.
    unfold dumpM, dumpL. destruct (norm_key_ref ext key) as [nk|e]; cbn [bind]; [|reflexivity].
    destruct (axes_of ext nk) as [axes|e]; cbn [bind]; [|reflexivity].
    f_equal. unfold abs_of at 2. apply map_ext_in. intros p Hp. apply in_all_indices in Hp.
    rewrite nd_get_abs by assumption. unfold cell_at, look_dump.
    destruct (mem_idx (ext_of mask p) (cart axes)); reflexivity.
  Qed.

  Lemma good_dump look sel v : good E g look -> length v = prod int -> good E g (look_dump E look sel v).
  Proof.
    intros Hgood Lv e w He. unfold look_dump. destruct (mem_idx e sel).
    - intros H. injection H as <-. assumption.
    - now apply Hgood.
  Qed.

  (* ---------- mask / has_index / get_from_index ---------- *)
  Lemma ext_missing_abs look e : good E g look -> in_bounds ext e = true ->
    ext_missing E g (abs_of E g look) e = is_none (look e).
  Proof.
    intros Hgood He. unfold ext_missing.
    destruct (look e) as [v|] eqn:El; cbn [is_none].
    - destruct (forallb _ _) eqn:Ef; [|reflexivity]. exfalso.
      rewrite forallb_forall in Ef.
      assert (in_bounds int (unravel int 0) = true) as Hj by (apply unravel_in_bounds, Pint).
      specialize (Ef (unravel int 0)). rewrite nd_get_abs_merge in Ef by assumption.
      rewrite El in Ef. cbn [cell_of] in Ef. unfold nth_cell in Ef.
      pose proof (Hgood _ _ He El) as Lv. pose proof (ravel_lt _ _ Hj) as Hlt.
      destruct (nth_error v (ravel int (unravel int 0))) eqn:En.
      + specialize (Ef ltac:(now apply in_all_indices)). discriminate.
      + apply nth_error_None in En. lia.
    - apply forallb_forall. intros j Hj. apply in_all_indices in Hj.
      rewrite nd_get_abs_merge by assumption. now rewrite El.
  Qed.

  Lemma mask_linearM_abs look : good E g look ->
    mask_linearM E g (abs_of E g look) = map (fun e => is_none (look e)) (all_indices ext).
  Proof.
    intros Hgood. unfold mask_linearM. apply map_ext_in. intros e He. apply in_all_indices in He.
    now apply ext_missing_abs.
  Qed.

  Lemma hasM_abs look i : good E g look -> i < size g ->
    hasM E g (abs_of E g look) i = negb (is_none (look (unravel ext i))).
  Proof.
    intros Hgood Hi. unfold hasM. rewrite ext_missing_abs; auto. now apply unravel_in_bounds.
  Qed.

  Lemma map_nth_cell_seq (v : sval) : map (nth_cell E v) (seq 0 (length v)) = map Val v.
  Proof.
    induction v as [|x v IH]; [reflexivity|].
    cbn [length seq map]. f_equal. rewrite <- seq_shift, map_map. exact IH.
  Qed.

  Lemma get_from_indexM_abs look i v : good E g look -> i < size g -> look (unravel ext i) = Some v ->
    get_from_indexM E g (abs_of E g look) i = map Val v.
  Proof.
    intros Hgood Hi El. unfold get_from_indexM.
    assert (in_bounds ext (unravel ext i) = true) as He by (now apply unravel_in_bounds).
    rewrite <- map_nth_cell_seq, (Hgood _ _ He El), <- map_ravel_all_indices, map_map.
    apply map_ext_in. intros j Hj. apply in_all_indices in Hj.
    rewrite nd_get_abs_merge by assumption. now rewrite El.
  Qed.

  (* ---------- to_array: an array that agrees with cell_at on every position is the abstraction ---------- *)
  Lemma to_array_abs look (a : list cell) :
    length a = prod full -> (forall p, in_bounds full p = true -> nd_get E full a p = cell_at E g look p) ->
    a = abs_of E g look.
  Proof.
    intros La H. apply (nd_ext E full); [assumption|apply abs_length|].
    intros p Hp. rewrite nd_get_abs by assumption. now apply H.
  Qed.

  (* the positions assigned by the splat loops, and their values *)
  Lemma splat_assignments_spec look (items : list (list nat * option sval)) :
    good E g look ->
    (forall e ov, In (e, ov) items -> in_bounds ext e = true /\ ov = look e) ->
    exists pcs, splat_assignments E g items = Ok pcs
      /\ (forall p c, In (p, c) pcs -> in_bounds full p = true /\ c = cell_at E g look p)
      /\ (forall p, in_bounds full p = true ->
            mem_idx p (map fst pcs) = mem_idx (ext_of mask p) (map fst items)).
  Proof.
    intros Hgood Hitems. unfold splat_assignments.
    set (triples := flat_map _ items).
    assert (forall e ov j, In (e, ov, j) triples ->
                           in_bounds ext e = true /\ ov = look e /\ in_bounds int j = true) as Htr.
    { intros e ov j H. subst triples. apply in_flat_map in H as [[e' ov'] [Hin Hj]].
      apply in_map_iff in Hj as [j' [Heq Hj']]. cbn in Heq. injection Heq as -> -> ->.
      destruct (Hitems _ _ Hin) as [He ->]. apply in_all_indices in Hj'. auto. }
    exists (map (fun ej : list nat * option sval * list nat =>
                   let '(e, ov, j) := ej in (merge mask e j, cell_at E g look (merge mask e j))) triples).
    split; [|split].
    - apply mapM_ok. intros [[e ov] j] Hin. destruct (Htr _ _ _ Hin) as [He [-> Hj]].
      pose proof (full_merge e j He Hj) as Hp.
      pose proof (fetch_ok look _ Hgood Hp) as Hf.
      destruct (ext_int_of_merge e j He Hj) as [Ee Ej]. rewrite Ee in Hf. rewrite Hf. reflexivity.
    - intros p c Hin. apply in_map_iff in Hin as [[[e ov] j] [Heq Hin]]. injection Heq as <- <-.
      destruct (Htr _ _ _ Hin) as [He [_ Hj]]. split; [now apply full_merge|reflexivity].
    - intros p Hp. rewrite map_map.
      destruct (mem_idx (ext_of mask p) (map fst items)) eqn:Em.
      + apply mem_idx_in. apply mem_idx_in in Em. apply in_map_iff in Em as [[e ov] [Heq Hin]].
        cbn in Heq. subst e. apply in_map_iff.
        exists (ext_of mask p, ov, int_of mask p). split; [cbn; now apply merge_of_split|].
        subst triples. apply in_flat_map. exists (ext_of mask p, ov). split; [assumption|].
        apply in_map_iff. exists (int_of mask p). split; [reflexivity|].
        apply in_all_indices. now apply full_split.
      + destruct (mem_idx p _) eqn:Em2; [|reflexivity]. exfalso.
        apply mem_idx_in in Em2. apply in_map_iff in Em2 as [[[e ov] j] [Heq Hin]]. cbn in Heq.
        destruct (Htr _ _ _ Hin) as [He [_ Hj]].
        destruct (ext_int_of_merge e j He Hj) as [Ee _]. rewrite Heq in Ee.
        assert (mem_idx (ext_of mask p) (map fst items) = true); [|congruence].
        apply mem_idx_in. rewrite Ee. subst triples. apply in_flat_map in Hin as [[e' ov'] [Hin' Hj']].
        apply in_map_iff in Hj' as [j' [Heq' _]]. cbn in Heq'. injection Heq' as -> -> ->.
        apply in_map_iff. exists (e, ov). auto.
  Qed.
End Abs.
