(* Generic lemmas for the storage models: row-major n-d arrays as flat lists, point assignments, select_by_mask. *)
From Verif Require Import Base.Prelude Base.Index Base.PySlice Model.Store Proofs.IndexFacts Proofs.PySliceFacts.

(* ---------- small list facts ---------- *)
Lemma idx_eqb_eq a b : idx_eqb a b = true <-> a = b.
Proof.
  unfold idx_eqb. revert b. induction a as [|x a IH]; intros [|y b]; cbn; try (split; [discriminate|discriminate]).
  - split; reflexivity.
  - rewrite andb_true_iff, Nat.eqb_eq, IH. split.
    + intros [-> ->]. reflexivity.
    + intros H. injection H as -> ->. auto.
Qed.

Lemma idx_eqb_refl a : idx_eqb a a = true.
Proof. now apply idx_eqb_eq. Qed.

Lemma idx_eqb_neq a b : idx_eqb a b = false <-> a <> b.
Proof.
  split.
  - intros H E. apply idx_eqb_eq in E. congruence.
  - intros H. destruct (idx_eqb a b) eqn:E; [|reflexivity]. apply idx_eqb_eq in E. contradiction.
Qed.

Lemma idx_eqb_sym a b : idx_eqb a b = idx_eqb b a.
Proof.
  destruct (idx_eqb a b) eqn:E1, (idx_eqb b a) eqn:E2; try reflexivity.
  - apply idx_eqb_eq in E1. subst. now rewrite idx_eqb_refl in E2.
  - apply idx_eqb_eq in E2. subst. now rewrite idx_eqb_refl in E1.
Qed.

Lemma mem_idx_in x l : mem_idx x l = true <-> In x l.
Proof.
  unfold mem_idx. rewrite existsb_exists. split.
  - intros [y [Hy E]]. apply idx_eqb_eq in E. now subst.
  - intros H. exists x. split; [assumption|apply idx_eqb_refl].
Qed.

Lemma mem_nat_in x l : mem_nat x l = true <-> In x l.
Proof.
  unfold mem_nat. rewrite existsb_exists. split.
  - intros [y [Hy E]]. apply Nat.eqb_eq in E. now subst.
  - intros H. exists x. split; [assumption|apply Nat.eqb_refl].
Qed.

Lemma mapM_ok {A B} (f : A -> result B) (g : A -> B) l :
  (forall x, In x l -> f x = Ok (g x)) -> mapM f l = Ok (map g l).
Proof.
  induction l as [|x l IH]; intros H; cbn; [reflexivity|].
  rewrite H by (now left). cbn. rewrite IH by (intros; apply H; now right). reflexivity.
Qed.

Lemma nth_error_seq0 n q : q < n -> nth_error (seq 0 n) q = Some q.
Proof.
  intros H. rewrite (nth_error_nth' _ 0) by (rewrite seq_length; exact H). now rewrite seq_nth.
Qed.

Lemma map_const_repeat {A B} (c : B) (l : list A) : map (fun _ => c) l = repeat c (length l).
Proof. induction l as [|x l IH]; cbn; [reflexivity|]. now rewrite IH. Qed.

(* ---------- upd_nth ---------- *)
Lemma upd_nth_length {A} i (x : A) l : length (upd_nth i x l) = length l.
Proof. revert i; induction l as [|y l IH]; intros [|i]; cbn; auto. Qed.

Lemma nth_upd_nth {A} i j (x d : A) l :
  nth j (upd_nth i x l) d = if (i =? j) && (i <? length l) then x else nth j l d.
Proof.
  revert i j; induction l as [|y l IH]; intros [|i] [|j]; cbn; try reflexivity.
  - destruct (i =? j); reflexivity.
  - rewrite IH. reflexivity.
Qed.

(* ---------- in_bounds / all_indices ---------- *)
Lemma in_bounds_length sh : forall p, in_bounds sh p = true -> length p = length sh.
Proof.
  induction sh as [|d t IH]; intros [|k p] H; cbn in *; try discriminate; [reflexivity|].
  apply andb_true_iff in H as [_ H]. now rewrite (IH _ H).
Qed.

Lemma in_all_indices sh : forall p, In p (all_indices sh) <-> in_bounds sh p = true.
Proof.
  induction sh as [|d t IH]; intros p; cbn [all_indices].
  - destruct p; cbn; split; intros H; try discriminate; auto.
    + destruct H as [H|[]]. discriminate.
  - rewrite in_flat_map. split.
    + intros [i [Hi Hp]]. apply in_seq in Hi. apply in_map_iff in Hp as [q [<- Hq]].
      cbn. apply andb_true_iff. split; [apply Nat.ltb_lt; lia|now apply IH].
    + destruct p as [|k q]; cbn; [discriminate|]. intros H. apply andb_true_iff in H as [Hk Hq].
      apply Nat.ltb_lt in Hk. exists k. split; [apply in_seq; lia|].
      apply in_map_iff. exists q. split; [reflexivity|now apply IH].
Qed.

Lemma nth_error_all_indices sh q : q < prod sh -> nth_error (all_indices sh) q = Some (unravel sh q).
Proof.
  intros H. rewrite <- unravel_enumerates. apply map_nth_error. now apply nth_error_seq0.
Qed.

Lemma ravel_inj sh p q :
  in_bounds sh p = true -> in_bounds sh q = true -> ravel sh p = ravel sh q -> p = q.
Proof.
  intros Hp Hq E. rewrite <- (unravel_ravel sh p Hp), <- (unravel_ravel sh q Hq). now rewrite E.
Qed.

Lemma map_ravel_all_indices sh : map (ravel sh) (all_indices sh) = seq 0 (prod sh).
Proof.
  rewrite <- unravel_enumerates, map_map. rewrite <- (map_id (seq 0 (prod sh))) at 2.
  apply map_ext_in. intros i Hi. apply in_seq in Hi. apply ravel_unravel. lia.
Qed.

Lemma prod_pos sh : forallb (fun d => 0 <? d) sh = true -> 0 < prod sh.
Proof.
  induction sh as [|d t IH]; intros H; [cbn; lia|].
  cbn [forallb] in H. apply andb_true_iff in H as [Hd Ht]. apply Nat.ltb_lt in Hd.
  rewrite prod_cons. specialize (IH Ht). nia.
Qed.

(* ---------- select_by_mask ---------- *)
Lemma merge_length {A} (m : list bool) : forall (e i : list A),
  length e = count_true m -> length i = count_false m -> length (merge m e i) = length m.
Proof.
  unfold count_true, count_false.
  induction m as [|[|] m IH]; intros e i He Hi; cbn in *; [reflexivity| |].
  - destruct e as [|x e]; [discriminate|]. cbn. f_equal. apply IH; [now injection He|assumption].
  - destruct i as [|x i]; [discriminate|]. cbn. f_equal. apply IH; [assumption|now injection Hi].
Qed.

Lemma in_bounds_merge (m : list bool) : forall ext int e j,
  in_bounds ext e = true -> in_bounds int j = true ->
  length ext = count_true m -> length int = count_false m ->
  in_bounds (merge m ext int) (merge m e j) = true.
Proof.
  unfold count_true, count_false.
  induction m as [|[|] m IH]; intros ext int e j He Hj Le Li; cbn in *; [reflexivity| |].
  - destruct ext as [|d ext]; [discriminate|]. destruct e as [|k e]; [discriminate|].
    cbn in He. apply andb_true_iff in He as [Hk He]. cbn. rewrite Hk. cbn. apply IH; auto.
  - destruct int as [|d int]; [discriminate|]. destruct j as [|k j]; [discriminate|].
    cbn in Hj. apply andb_true_iff in Hj as [Hk Hj]. cbn. rewrite Hk. cbn. apply IH; auto.
Qed.

Lemma in_bounds_split (m : list bool) : forall ext int p,
  length ext = count_true m -> length int = count_false m ->
  in_bounds (merge m ext int) p = true ->
  in_bounds ext (ext_of m p) = true /\ in_bounds int (int_of m p) = true.
Proof.
  unfold count_true, count_false.
  induction m as [|[|] m IH]; intros ext int p Le Li H; cbn in *.
  - destruct ext; [|discriminate]. destruct int; [|discriminate]. destruct p; auto.
  - destruct ext as [|d ext]; [discriminate|]. destruct p as [|k p]; [discriminate|].
    cbn in H. apply andb_true_iff in H as [Hk H]. destruct (IH ext int p) as [H1 H2]; auto.
    cbn. rewrite Hk, H1, H2. auto.
  - destruct int as [|d int]; [discriminate|]. destruct p as [|k p]; [discriminate|].
    cbn in H. apply andb_true_iff in H as [Hk H]. destruct (IH ext int p) as [H1 H2]; auto.
    cbn. rewrite Hk, H1, H2. auto.
Qed.

(* an all-external mask *)
Lemma merge_all_true {A} (m : list bool) : forall (e : list A),
  count_false m = 0 -> length e = length m -> merge m e [] = e.
Proof.
  unfold count_false.
  induction m as [|[|] m IH]; intros e H L; cbn in *.
  - destruct e; [reflexivity|discriminate].
  - destruct e as [|x e]; [discriminate|]. f_equal. apply IH; auto.
  - discriminate.
Qed.

Lemma ext_of_all_true {A} (m : list bool) : forall (p : list A),
  count_false m = 0 -> length p = length m -> ext_of m p = p /\ int_of m p = [].
Proof.
  unfold count_false.
  induction m as [|[|] m IH]; intros p H L; cbn in *.
  - destruct p; [auto|discriminate].
  - destruct p as [|x p]; [discriminate|]. destruct (IH p) as [H1 H2]; auto. cbn. rewrite H1, H2. auto.
  - discriminate.
Qed.

Lemma count_true_false m : count_true m + count_false m = length m.
Proof. unfold count_true, count_false. induction m as [|[|] m IH]; cbn; lia. Qed.

Section Cells.
  Variable E : Type.
  Local Notation cell := (cell E).
  Local Notation nd_get := (nd_get E).
  Local Notation nd_set := (nd_set E).
  Local Notation assign_all := (assign_all E).

  Lemma nd_get_map_all (f : list nat -> cell) sh p :
    in_bounds sh p = true -> nd_get sh (map f (all_indices sh)) p = f p.
  Proof.
    intros H. unfold Store.nd_get. apply nth_error_nth.
    rewrite (map_nth_error f (ravel sh p) (all_indices sh) (d := unravel sh (ravel sh p))).
    - now rewrite unravel_ravel.
    - apply nth_error_all_indices. now apply ravel_lt.
  Qed.

  Lemma nd_ext sh (a b : list cell) :
    length a = prod sh -> length b = prod sh ->
    (forall p, in_bounds sh p = true -> nd_get sh a p = nd_get sh b p) -> a = b.
  Proof.
    intros La Lb H. apply (nth_ext a b Uninit Uninit); [congruence|].
    intros n Hn. rewrite La in Hn.
    specialize (H (unravel sh n) (unravel_in_bounds sh n Hn)). unfold Store.nd_get in H.
    now rewrite ravel_unravel in H.
  Qed.

  Lemma nd_as_map sh (a : list cell) : length a = prod sh -> a = map (nd_get sh a) (all_indices sh).
  Proof.
    intros La. apply (nd_ext sh); [assumption|now rewrite map_length, all_indices_length|].
    intros p Hp. now rewrite nd_get_map_all.
  Qed.

  Lemma nd_get_set sh (a : list cell) p0 c p :
    in_bounds sh p0 = true -> in_bounds sh p = true -> length a = prod sh ->
    nd_get sh (nd_set sh a p0 c) p = if idx_eqb p0 p then c else nd_get sh a p.
  Proof.
    intros H0 Hp La. unfold Store.nd_get, Store.nd_set. rewrite nth_upd_nth.
    assert (ravel sh p0 <? length a = true) as -> by (apply Nat.ltb_lt; rewrite La; now apply ravel_lt).
    rewrite andb_true_r.
    destruct (idx_eqb p0 p) eqn:Eq.
    - apply idx_eqb_eq in Eq. subst. now rewrite Nat.eqb_refl.
    - destruct (ravel sh p0 =? ravel sh p) eqn:E2; [|reflexivity].
      apply Nat.eqb_eq in E2. apply ravel_inj in E2; auto. subst. now rewrite idx_eqb_refl in Eq.
  Qed.

  Lemma assign_all_length sh pcs : forall init, length (assign_all sh init pcs) = length init.
  Proof.
    induction pcs as [|[p c] t IH]; intros init; cbn; [reflexivity|].
    unfold Store.assign_all in *. cbn. rewrite IH. apply upd_nth_length.
  Qed.

  (* a sequence of point assignments whose values are a function of the position *)
  Lemma assign_all_spec sh (f : list nat -> cell) pcs :
    (forall p c, In (p, c) pcs -> in_bounds sh p = true /\ c = f p) ->
    forall init p, in_bounds sh p = true -> length init = prod sh ->
    nd_get sh (assign_all sh init pcs) p = if mem_idx p (map fst pcs) then f p else nd_get sh init p.
  Proof.
    induction pcs as [|[p0 c0] t IH]; intros Hall init p Hp Li; [reflexivity|].
    assert (in_bounds sh p0 = true /\ c0 = f p0) as [H0 ->] by (apply Hall; now left).
    change (Store.assign_all E sh init ((p0, f p0) :: t))
      with (assign_all sh (nd_set sh init p0 (f p0)) t).
    rewrite IH; auto.
    - cbn [map fst mem_idx existsb]. fold (mem_idx p (map fst t)).
      destruct (mem_idx p (map fst t)).
      + now rewrite orb_true_r.
      + rewrite orb_false_r. rewrite nd_get_set by assumption.
        rewrite idx_eqb_sym. destruct (idx_eqb p p0) eqn:Eq; [|reflexivity].
        apply idx_eqb_eq in Eq. now subst.
    - intros q c Hq. apply Hall. now right.
    - unfold Store.nd_set. now rewrite upd_nth_length.
  Qed.
End Cells.
