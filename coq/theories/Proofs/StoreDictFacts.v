(* StoreDict (model of DictArray / SharedMemoryDictArray) refines the reference MaskedNd: one step. *)
From Verif Require Import Base.Prelude Base.Index Base.PySlice Model.Store Model.StoreSpec
  Proofs.IndexFacts Proofs.PySliceFacts Proofs.StoreBase Proofs.StoreAbs.

Lemma nth_repeat_lt {A} (c d : A) n q : q < n -> nth q (repeat c n) d = c.
Proof. revert q; induction n as [|n IH]; intros [|q] H; cbn; try lia; auto. apply IH. lia. Qed.

(* for i, y in enumerate(ys, start=k): data.flat[i] = f(y) *)
Lemma fold_upd_enumerate {A B} (f : B -> A) (y0 : B) (d0 : A) (ys : list B) : forall k (data : list A),
  let res := fold_left (fun dt (iy : nat * B) => upd_nth (fst iy) (f (snd iy)) dt)
                       (combine (seq k (length ys)) ys) data in
  k + length ys <= length data ->
  length res = length data /\
  forall q, nth q res d0 = if (k <=? q) && (q <? k + length ys) then f (nth (q - k) ys y0) else nth q data d0.
Proof.
  induction ys as [|y t IH]; intros k data res Hlen; subst res.
  - cbn [length seq combine fold_left]. split; [reflexivity|]. intros q.
    destruct (k <=? q) eqn:E1; cbn [andb]; [|reflexivity].
    assert (q <? k + 0 = false) as -> by (apply Nat.ltb_ge; apply Nat.leb_le in E1; lia). reflexivity.
  - cbn [length seq combine fold_left fst snd]. cbn [length] in Hlen.
    destruct (IH (S k) (upd_nth k (f y) data)) as [L N]; [rewrite upd_nth_length; lia|].
    split; [now rewrite L, upd_nth_length|].
    intros q. rewrite N, nth_upd_nth.
    destruct (Nat.eq_dec q k) as [->|Hne].
    + assert (S k <=? k = false) as -> by (apply Nat.leb_gt; lia). cbn [andb].
      rewrite Nat.eqb_refl. assert (k <? length data = true) as -> by (apply Nat.ltb_lt; lia).
      rewrite Nat.leb_refl. assert (k <? k + S (length t) = true) as -> by (apply Nat.ltb_lt; lia).
      cbn [andb]. now rewrite Nat.sub_diag.
    + assert (k =? q = false) as -> by (apply Nat.eqb_neq; lia). cbn [andb].
      destruct (S k <=? q) eqn:E1.
      * apply Nat.leb_le in E1. assert (k <=? q = true) as -> by (apply Nat.leb_le; lia).
        replace (S k + length t) with (k + S (length t)) by lia.
        destruct (q <? k + S (length t)); cbn [andb]; [|reflexivity].
        replace (q - k) with (S (q - S k)) by lia. reflexivity.
      * apply Nat.leb_gt in E1. assert (k <=? q = false) as -> by (apply Nat.leb_gt; lia). reflexivity.
Qed.

Section DictFacts.
  Variable E : Type.
  Variable g : geom.
  Hypothesis Hg : geom_ok g = true.

  Local Notation ext := (g_ext g).
  Local Notation int := (g_int g).
  Local Notation mask := (g_mask g).
  Local Notation full := (full_shape g).
  Local Notation stD := (stD E).
  Local Notation sval := (sval E).

  Lemma invD_nil : invD E g [].
  Proof. split; [intros e v []|constructor]. Qed.

  Lemma absD_nil : absD E g [] = absent E g.
  Proof. unfold absD, lookD. cbn. apply abs_empty. Qed.

  Lemma dict_get_in e (d : stD) v : dict_get E e d = Some v -> In (e, v) d.
  Proof.
    induction d as [|[k w] d IH]; cbn; [discriminate|].
    destruct (idx_eqb k e) eqn:Ek.
    - apply idx_eqb_eq in Ek. intros H. injection H as ->. subst. now left.
    - intros H. right. now apply IH.
  Qed.

  Lemma dict_get_mem e (d : stD) : is_none (dict_get E e d) = negb (mem_idx e (map fst d)).
  Proof.
    induction d as [|[k w] d IH]; cbn; [reflexivity|].
    rewrite (idx_eqb_sym e k). destruct (idx_eqb k e); [reflexivity|]. exact IH.
  Qed.

  Lemma dict_get_first e v (d : stD) : NoDup (map fst d) -> In (e, v) d -> dict_get E e d = Some v.
  Proof.
    induction d as [|[k w] d IH]; intros Hnd Hin; [destruct Hin|].
    cbn in Hnd. inversion Hnd as [|? ? Hk Hd]; subst. cbn.
    destruct Hin as [Heq|Hin].
    - injection Heq as -> ->. now rewrite idx_eqb_refl.
    - destruct (idx_eqb k e) eqn:Ek; [|now apply IH].
      apply idx_eqb_eq in Ek. subst. exfalso. apply Hk. apply in_map_iff. exists (e, v). auto.
  Qed.

  Lemma dict_get_set k v (d : stD) e :
    dict_get E e (dict_set E k v d) = if idx_eqb k e then Some v else dict_get E e d.
  Proof.
    induction d as [|[k' w] d IH]; cbn.
    - destruct (idx_eqb k e); reflexivity.
    - destruct (idx_eqb k' k) eqn:Ek; cbn.
      + apply idx_eqb_eq in Ek. subst. destruct (idx_eqb k e); reflexivity.
      + destruct (idx_eqb k' e) eqn:Ee; [|exact IH].
        destruct (idx_eqb k e) eqn:Eke; [|reflexivity].
        apply idx_eqb_eq in Ee, Eke. subst. now rewrite idx_eqb_refl in Ek.
  Qed.

  Lemma in_dict_set k v (d : stD) e w : In (e, w) (dict_set E k v d) -> (e = k /\ w = v) \/ In (e, w) d.
  Proof.
    induction d as [|[k' w'] d IH]; cbn.
    - intros [H|[]]. injection H as <- <-. auto.
    - destruct (idx_eqb k' k) eqn:Ek; cbn.
      + apply idx_eqb_eq in Ek. subst. intros [H|H]; [injection H as <- <-; auto|auto].
      + intros [H|H]; [auto|]. apply IH in H as [H|H]; auto.
  Qed.

  Lemma keys_dict_set k v (d : stD) x : In x (map fst (dict_set E k v d)) -> x = k \/ In x (map fst d).
  Proof.
    intros H. apply in_map_iff in H as [[e w] [<- Hin]]. apply in_dict_set in Hin as [[-> _]|Hin]; [now left|].
    right. apply in_map_iff. exists (e, w). auto.
  Qed.

  Lemma NoDup_dict_set k v (d : stD) : NoDup (map fst d) -> NoDup (map fst (dict_set E k v d)).
  Proof.
    induction d as [|[k' w'] d IH]; intros Hnd; cbn.
    - constructor; [intros []|constructor].
    - cbn in Hnd. inversion Hnd as [|? ? Hk Hd]; subst.
      destruct (idx_eqb k' k) eqn:Ek; cbn.
      + constructor; assumption.
      + constructor; [|now apply IH]. intros Hin. apply keys_dict_set in Hin as [->|Hin]; [|contradiction].
        now rewrite idx_eqb_refl in Ek.
  Qed.

  Lemma invD_set k v d : invD E g d -> length v = prod int -> in_bounds ext k = true -> invD E g (dict_set E k v d).
  Proof.
    intros [H1 H2] Lv Hk. split; [|now apply NoDup_dict_set].
    intros e w Hin. apply in_dict_set in Hin as [[-> ->]|Hin]; auto.
  Qed.

  Lemma dict_get_fold v (l : list (list nat)) : forall (d : stD) e,
    dict_get E e (fold_left (fun d' index => dict_set E index v d') l d)
    = if mem_idx e l then Some v else dict_get E e d.
  Proof.
    induction l as [|x l IH]; intros d e; cbn [fold_left mem_idx existsb]; [reflexivity|].
    fold (mem_idx e l). rewrite IH, dict_get_set. rewrite (idx_eqb_sym e x).
    destruct (mem_idx e l); [now rewrite orb_true_r|]. now rewrite orb_false_r.
  Qed.

  Lemma invD_fold v (l : list (list nat)) : length v = prod int ->
    (forall x, In x l -> in_bounds ext x = true) ->
    forall d, invD E g d -> invD E g (fold_left (fun d' index => dict_set E index v d') l d).
  Proof.
    intros Lv. induction l as [|x l IH]; intros Hl d Hinv; cbn [fold_left]; [assumption|].
    apply IH; [intros; apply Hl; now right|]. apply invD_set; auto. apply Hl. now left.
  Qed.

  Lemma good_lookD d : invD E g d -> good E g (lookD E d).
  Proof. intros [H _] e v _ Hl. apply dict_get_in in Hl. now apply H in Hl. Qed.

  (* ---------- __getitem__ ---------- *)
  Lemma slice_indicesD_ok nk sizes : length nk = length sizes -> slice_indicesD nk sizes = axes_of sizes nk.
  Proof. intros L. unfold slice_indicesD. now rewrite L, Nat.eqb_refl. Qed.

  (* the enumerate / unravel_index loop of DictArray.__getitem__ just lists the fetched values *)
  Lemma getD_loop (d : stD) (shape : list nat) (xs : list (list nat)) (cellf : list nat -> cell E) :
    (forall x, In x xs -> fetch E g (dict_get E (ext_of mask x) d) x = Ok (cellf x)) ->
    length xs = prod shape ->
    fold_left
      (fun acc (i_index : nat * list nat) =>
         do data <- acc;
         let '(i, index) := i_index in
         do value <- fetch E g (dict_get E (ext_of mask index) d) index;
         do j <- unravel_index shape i;
         Ok (nd_set E shape data j value))
      (combine (seq 0 (length xs)) xs) (Ok (repeat Uninit (prod shape)))
    = Ok (map cellf xs).
  Proof.
    intros Hf Lxs.
    set (STEP := fun (acc : result (list (cell E))) (i_index : nat * list nat) => _).
    set (PURE := fun (dt : list (cell E)) (iy : nat * list nat) => upd_nth (fst iy) (cellf (snd iy)) dt).
    assert (forall l, (forall i x, In (i, x) l -> i < prod shape /\ In x xs) ->
                      forall data, fold_left STEP l (Ok data) = Ok (fold_left PURE l data)) as Hpure.
    { induction l as [|[i x] l IH]; intros Hl data; [reflexivity|].
      cbn [fold_left]. destruct (Hl i x ltac:(now left)) as [Hi Hx].
      assert (STEP (Ok data) (i, x) = Ok (PURE data (i, x))) as ->.
      { subst STEP PURE. cbn [bind fst snd]. rewrite (Hf x Hx). cbn [bind].
        unfold unravel_index. assert (i <? prod shape = true) as -> by (now apply Nat.ltb_lt).
        cbn [bind]. unfold Store.nd_set. now rewrite ravel_unravel. }
      apply IH. intros; apply Hl; now right. }
    rewrite Hpure.
    - f_equal.
      destruct (fold_upd_enumerate cellf [] Uninit xs 0 (repeat Uninit (prod shape))) as [L N];
        [rewrite repeat_length; lia|].
      fold PURE in L, N. rewrite repeat_length in L.
      apply (nth_ext _ _ Uninit Uninit); [now rewrite L, map_length|].
      intros q Hq. rewrite L in Hq. rewrite N. cbn [Nat.leb andb Nat.add].
      assert (q <? length xs = true) as -> by (apply Nat.ltb_lt; lia).
      rewrite Nat.sub_0_r.
      rewrite (nth_indep (map cellf xs) Uninit (cellf [])) by (rewrite map_length; lia).
      now rewrite map_nth.
    - intros i x Hin. split.
      + apply in_combine_l in Hin. apply in_seq in Hin. lia.
      + now apply in_combine_r in Hin.
  Qed.

  Lemma getD_refines d key : invD E g d -> getD E g d key = getL E g (lookD E d) key.
  Proof.
    intros Hinv. pose proof (good_lookD d Hinv) as Hgood.
    unfold getD, getL. rewrite (normalize_key_get g Hg).
    destruct (norm_key_ref full key) as [nk|e] eqn:En; cbn [bind]; [|reflexivity].
    pose proof (norm_key_ref_ok _ _ _ En) as [L Hn].
    pose proof (norm_items_length _ _ _ Hn L) as Lnk.
    destruct (has_slice nk) eqn:Hs.
    - rewrite slice_indicesD_ok by assumption.
      destruct (axes_of full nk) as [axes|e] eqn:Ea; cbn [bind]; [|reflexivity].
      rewrite (getD_loop d (map (@length nat) axes) (cart axes) (cell_at E g (lookD E d))).
      + cbn [bind]. unfold reshape.
        rewrite (slice_lens_prod _ _ _ Ea), map_length, Nat.eqb_refl. reflexivity.
      + intros p Hp. apply (fetch_ok E g Hg (lookD E d)); [assumption|].
        eapply axes_in_bounds; eauto.
      + apply cart_length.
    - destruct (no_slice_axes_ok full nk Hs) as [axes Ea]. rewrite Ea. cbn [bind].
      destruct (no_slice_axes full nk axes Hs Lnk Ea) as [Eax Hl]. rewrite Hl.
      assert (in_bounds full (nk_ints nk) = true) as Hb.
      { eapply axes_in_bounds; eauto. rewrite Eax, cart_singletons. now left. }
      rewrite Eax, cart_singletons. cbn [map].
      pose proof (fetch_ok E g Hg (lookD E d) _ Hgood Hb) as Hf. unfold lookD at 1 in Hf.
      rewrite Hf. reflexivity.
  Qed.

  (* ---------- dump ---------- *)
  Lemma dumpD_spec d key v : length v = prod int ->
    match dumpD E g d key v, dumpL E g (lookD E d) key v with
    | Ok d', Ok look' => (forall e, lookD E d' e = look' e) /\ (invD E g d -> invD E g d')
    | Err e1, Err e2 => e1 = e2
    | _, _ => False
    end.
  Proof.
    intros Lv. unfold dumpD, dumpL. rewrite (normalize_key_dump g Hg).
    destruct (norm_key_ref ext key) as [nk|e] eqn:En; cbn [bind]; [|reflexivity].
    pose proof (norm_key_ref_ok _ _ _ En) as [L Hn].
    pose proof (norm_items_length _ _ _ Hn L) as Lnk.
    destruct (has_slice nk) eqn:Hs.
    - rewrite slice_indicesD_ok by assumption.
      destruct (axes_of ext nk) as [axes|e] eqn:Ea; cbn [bind]; [|reflexivity].
      assert (match int with [] => false | _ :: _ => negb (length v =? prod int) end = false) as ->.
      { destruct int; [reflexivity|]. apply Nat.eqb_eq in Lv. now rewrite Lv. }
      cbn [andb]. split.
      + intros e. unfold lookD, look_dump. apply dict_get_fold.
      + apply invD_fold; [assumption|]. intros x Hx. eapply axes_in_bounds; eauto.
    - destruct (no_slice_axes_ok ext nk Hs) as [axes Ea]. rewrite Ea. cbn [bind].
      destruct (no_slice_axes ext nk axes Hs Lnk Ea) as [Eax Hl].
      assert (in_bounds ext (nk_ints nk) = true) as Hb.
      { eapply axes_in_bounds; eauto. rewrite Eax, cart_singletons. now left. }
      rewrite Eax, cart_singletons. split.
      + intros e. unfold lookD, look_dump. rewrite dict_get_set. cbn [mem_idx existsb].
        rewrite orb_false_r. now rewrite idx_eqb_sym.
      + intros Hinv. now apply invD_set.
  Qed.

  (* ---------- mask ---------- *)
  Lemma fold_mask (keys : list (list nat)) : (forall e, In e keys -> in_bounds ext e = true) ->
    forall (m : list bool) q, length m = size g -> q < size g ->
    nth q (fold_left (fun m e => upd_nth (ravel ext e) false m) keys m) true
    = if mem_idx (unravel ext q) keys then false else nth q m true.
  Proof.
    induction keys as [|k keys IH]; intros Hk m q Lm Hq; cbn [fold_left mem_idx existsb]; [reflexivity|].
    fold (mem_idx (unravel ext q) keys).
    rewrite IH; auto; [|intros; apply Hk; now right|now rewrite upd_nth_length].
    destruct (mem_idx (unravel ext q) keys); [now rewrite orb_true_r|]. rewrite orb_false_r.
    assert (in_bounds ext k = true) as Hb by (apply Hk; now left).
    rewrite nth_upd_nth.
    assert (ravel ext k <? length m = true) as -> by (apply Nat.ltb_lt; rewrite Lm; now apply ravel_lt).
    rewrite andb_true_r.
    destruct (idx_eqb (unravel ext q) k) eqn:Ek.
    - apply idx_eqb_eq in Ek. subst k. unfold size in Hq. rewrite ravel_unravel by assumption.
      now rewrite Nat.eqb_refl.
    - destruct (ravel ext k =? q) eqn:Er; [|reflexivity]. apply Nat.eqb_eq in Er. subst q.
      rewrite unravel_ravel in Ek by assumption. now rewrite idx_eqb_refl in Ek.
  Qed.

  Lemma maskD_refines d : invD E g d -> maskD E g d = mask_linearM E g (absD E g d).
  Proof.
    intros Hinv. unfold absD. rewrite (mask_linearM_abs E g Hg) by (now apply good_lookD).
    assert (length (maskD E g d) = size g) as Lm.
    { unfold maskD. generalize (repeat true (size g)) (repeat_length true (size g)).
      induction (map fst d) as [|k keys IH]; intros m Lm; cbn [fold_left]; [assumption|].
      apply IH. now rewrite upd_nth_length. }
    apply (nth_ext _ _ true true); [now rewrite Lm, map_length, all_indices_length|].
    intros q Hq. rewrite Lm in Hq. unfold maskD. rewrite fold_mask; auto.
    - rewrite nth_repeat_lt by assumption.
      rewrite (nth_indep _ true (is_none (lookD E d []))) by (now rewrite map_length, all_indices_length).
      rewrite (map_nth (fun e => is_none (lookD E d e))).
      rewrite <- unravel_enumerates.
      rewrite (nth_indep _ [] (unravel ext 0)) by (now rewrite map_length, seq_length).
      rewrite map_nth, seq_nth by assumption. cbn [Nat.add].
      unfold lookD. rewrite dict_get_mem. destruct (mem_idx _ _); reflexivity.
    - intros e He. apply in_map_iff in He as [[e' v] [<- Hin]]. destruct Hinv as [H _].
      now apply H in Hin.
    - apply repeat_length.
  Qed.

  (* ---------- to_array ---------- *)
  Lemma to_arrayD_refines d : invD E g d -> to_arrayD E g d = Ok (OArr full (absD E g d)).
  Proof.
    intros Hinv. pose proof (good_lookD d Hinv) as Hgood. destruct Hinv as [Hent Hnd].
    unfold to_arrayD. destruct (g_int g) as [|d0 int'] eqn:Eint.
    - pose proof (Lint g Hg) as Li. rewrite Eint in Li. cbn in Li. symmetry in Li.
      assert (length ext = length mask) as Lm.
      { pose proof (count_true_false mask). rewrite (Lext g Hg). lia. }
      assert (full = ext) as Hfull.
      { unfold full_shape. rewrite Eint. now apply merge_all_true. }
      rewrite <- Hfull. f_equal. f_equal. apply (to_array_abs E g).
      + now rewrite assign_all_length, repeat_length, Hfull.
      + intros p Hp.
        assert (length p = length mask) as Lp by (rewrite (in_bounds_length _ _ Hp); apply (full_length g Hg)).
        destruct (ext_of_all_true mask p Li Lp) as [Ee Ei].
        assert (forall q, cell_at E g (lookD E d) q
                          = cell_of E (dict_get E (ext_of mask q) d) (ravel int (int_of mask q))) as Hcell
            by reflexivity.
        rewrite (assign_all_spec E full (fun q => cell_of E (dict_get E q d) 0)).
        * rewrite map_map. cbn [fst]. rewrite Hcell, Ee, Ei, Eint. cbn [ravel combine map fold_right].
          destruct (mem_idx p (map fst d)) eqn:Em; [reflexivity|].
          pose proof (dict_get_mem p d) as Hm. rewrite Em in Hm. cbn in Hm.
          destruct (dict_get E p d); [discriminate|]. cbn [cell_of].
          unfold Store.nd_get. apply nth_repeat_lt. unfold size. rewrite <- Hfull. now apply ravel_lt.
        * intros q c Hin. apply in_map_iff in Hin as [[e v] [Heq Hin]]. cbn [fst snd] in Heq.
          injection Heq as <- <-. destruct (Hent _ _ Hin) as [_ Hb]. split; [now rewrite Hfull|].
          now rewrite (dict_get_first e v d Hnd Hin).
        * assumption.
        * now rewrite repeat_length, Hfull.
    - try rewrite <- Eint.
      destruct (splat_assignments_spec E g Hg (lookD E d)
                  (map (fun ev : list nat * sval => (fst ev, Some (snd ev))) d) Hgood)
        as [pcs [Hpcs [Hvals Hmem]]].
      { intros e ov Hin. apply in_map_iff in Hin as [[e' v] [Heq Hin]]. cbn [fst snd] in Heq.
        injection Heq as <- <-. destruct (Hent _ _ Hin) as [_ Hb]. split; [assumption|].
        unfold lookD. now rewrite (dict_get_first e' v d Hnd Hin). }
      rewrite Hpcs. cbn [bind]. f_equal. f_equal. apply (to_array_abs E g).
      + now rewrite assign_all_length, repeat_length.
      + intros p Hp. rewrite (assign_all_spec E full (cell_at E g (lookD E d))); auto.
        * rewrite Hmem by assumption. rewrite map_map.
          set (K := map _ d). assert (K = map fst d) as -> by (subst K; apply map_ext; reflexivity).
          destruct (mem_idx (ext_of mask p) (map fst d)) eqn:Em.
          -- reflexivity.
          -- pose proof (dict_get_mem (ext_of mask p) d) as Hm. rewrite Em in Hm. cbn in Hm.
             unfold cell_at, lookD. destruct (dict_get E (ext_of mask p) d); [discriminate|]. cbn [cell_of].
             unfold Store.nd_get. apply nth_repeat_lt. now apply ravel_lt.
        * apply repeat_length.
  Qed.

  (* ---------- one step ---------- *)
  Theorem stepD_refines d o : invD E g d -> valid_op E g o = true ->
    stepM E KeyError g (absD E g d) o = (absD E g (fst (stepD E g d o)), snd (stepD E g d o))
    /\ invD E g (fst (stepD E g d o)).
  Proof.
    intros Hinv Hv. pose proof (good_lookD d Hinv) as Hgood.
    destruct o as [key v|key| | | |i|i|]; cbn [stepD stepM valid_op] in *.
    - apply Nat.eqb_eq in Hv.
      unfold absD. rewrite (dumpM_abs E g). fold absD.
      pose proof (dumpD_spec d key v Hv) as H.
      destruct (dumpD E g d key v) as [d'|e1], (dumpL E g (lookD E d) key v) as [look'|e2]; try contradiction.
      + destruct H as [Hl Hi]. cbn [fst snd]. split; [|now apply Hi].
        f_equal. unfold absD. symmetry. apply (abs_ext E g Hg). intros e _. apply Hl.
      + subst. cbn [fst snd]. auto.
    - cbn [fst snd]. split; [|assumption]. f_equal.
      unfold absD. rewrite (getM_abs E g), <- getD_refines by assumption. reflexivity.
    - rewrite to_arrayD_refines by assumption. cbn [fst snd]. auto.
    - rewrite maskD_refines by assumption. cbn [fst snd]. auto.
    - rewrite maskD_refines by assumption. cbn [fst snd]. auto.
    - rewrite Hv. unfold unravel_index. unfold size in Hv. rewrite Hv. apply Nat.ltb_lt in Hv.
      cbn [fst snd]. split; [|assumption]. f_equal. f_equal.
      unfold absD. rewrite (hasM_abs E g Hg) by assumption.
      unfold lookD. destruct (dict_get E (unravel ext i) d); reflexivity.
    - rewrite Hv. unfold unravel_index. unfold size in Hv. rewrite Hv. apply Nat.ltb_lt in Hv.
      cbn [fst snd]. split; [|assumption]. f_equal.
      unfold absD. rewrite (hasM_abs E g Hg) by assumption.
      unfold lookD at 1.
      destruct (dict_get E (unravel ext i) d) as [v|] eqn:El; cbn [is_none negb]; [|reflexivity].
      f_equal. apply (get_from_indexM_abs E g Hg); auto.
    - cbn [fst snd]. auto.
  Qed.
End DictFacts.
