(* C07: refinement over operation sequences, agreement of the backends, the content of a storage after a history
   (written E g values read back, unwritten positions masked, row-major linear order), exact key errors. *)
From Verif Require Import Base.Prelude Base.Index Base.PySlice Model.Store Model.StoreSpec
  Proofs.IndexFacts Proofs.PySliceFacts Proofs.StoreBase Proofs.StoreAbs Proofs.StoreFileFacts Proofs.StoreDictFacts.

(* ---------- exact key errors (no geometry needed) ---------- *)

Lemma norm_items_spec sizes : forall key,
  (int_out_of_range sizes key /\ norm_items sizes key = Err IndexError)
  \/ (~ int_out_of_range sizes key /\ exists nk, norm_items sizes key = Ok nk).
Proof.
  induction sizes as [|d t IH]; intros key.
  - right. split; [|destruct key; eexists; reflexivity].
    intros [n [z [d [_ [H _]]]]]. destruct n; discriminate.
  - destruct key as [|k key].
    + right. split; [|eexists; reflexivity]. intros [n [z [d' [H _]]]]. destruct n; discriminate.
    + cbn [norm_items].
      assert ((exists z, k = KInt z /\ ~ int_in_range z d /\ norm_item d k = Err IndexError)
                          \/ ((forall z, k = KInt z -> int_in_range z d) /\ exists k', norm_item d k = Ok k')) as Hk.
      { destruct k as [z|a b c]; cbn.
        - destruct (norm_int_spec z d) as [[Hr [m [-> _]]]|[Hr ->]].
          + right. split; [|eexists; reflexivity]. intros z' Hz. now injection Hz as <-.
          + left. exists z. auto.
        - right. split; [discriminate|eexists; reflexivity]. }
      destruct Hk as [[z [-> [Hz ->]]]|[Hin [k' ->]]].
      * left. split; [|reflexivity]. exists 0, z, d. auto.
      * cbn [bind]. destruct (IH key) as [[Hbad ->]|[Hgood [nk ->]]].
        -- left. split; [|reflexivity]. destruct Hbad as [n [z [d' [H1 [H2 H3]]]]].
           exists (S n), z, d'. auto.
        -- right. split; [|eexists; reflexivity].
           intros [n [z [d' [H1 [H2 H3]]]]]. destruct n as [|n]; cbn in H1, H2.
           ++ injection H2 as <-. apply H3. apply Hin. now injection H1.
           ++ apply Hgood. exists n, z, d'. auto.
Qed.

Lemma norm_key_ref_spec sizes key :
  (bad_key sizes key /\ norm_key_ref sizes key = Err IndexError)
  \/ (~ bad_key sizes key /\ exists nk, norm_key_ref sizes key = Ok nk /\ norm_items sizes key = Ok nk).
Proof.
  unfold norm_key_ref, bad_key. destruct (length key =? length sizes) eqn:El.
  - apply Nat.eqb_eq in El. destruct (norm_items_spec sizes key) as [[Hb ->]|[Hg [nk ->]]].
    + left. auto.
    + right. split; [|eauto]. intros [H|H]; auto.
  - apply Nat.eqb_neq in El. left. auto.
Qed.

Lemma axes_of_err sizes : forall nk e, axes_of sizes nk = Err e -> e = ValueError.
Proof.
  induction sizes as [|d t IH]; intros [|k nk] e H; cbn in H; try discriminate.
  destruct (axis_range d k) as [r|e'] eqn:Er; cbn in H.
  - destruct (axes_of t nk) as [ax|e''] eqn:Ea; cbn in H; [discriminate|].
    injection H as <-. eapply IH; eauto.
  - injection H as <-. destruct k as [n|a b c]; cbn in Er; [discriminate|].
    now apply slice_indices_err in Er.
Qed.

Section Seq.
  Variable E : Type.
  Variable g : geom.
  Hypothesis Hg : geom_ok g = true.

  Local Notation ext := (g_ext g).
  Local Notation int := (g_int g).
  Local Notation mask := (g_mask g).
  Local Notation full := (full_shape g).
  Local Notation op := (op E).
  Local Notation out := (out E).
  Local Notation cell := (cell E).
  Local Notation sval := (sval E).

  (* ---------- lifting a one-step refinement to sequences ---------- *)
  Lemma run_refines_gen {St} (step : St -> op -> St * out) (abs : St -> list cell) (inv : St -> Prop) miss :
    (forall s o, inv s -> valid_op E g o = true ->
                 stepM E miss g (abs s) o = (abs (fst (step s o)), snd (step s o)) /\ inv (fst (step s o))) ->
    forall ops s, inv s -> valid_ops E g ops = true ->
      run_ops E step s ops = run_ops E (stepM E miss g) (abs s) ops
      /\ abs (final E step s ops) = final E (stepM E miss g) (abs s) ops
      /\ inv (final E step s ops).
  Proof.
    intros Hstep. induction ops as [|o t IH]; intros s Hinv Hv; [cbn; auto|].
    cbn [valid_ops forallb] in Hv. apply andb_true_iff in Hv as [Hvo Hvt].
    destruct (Hstep s o Hinv Hvo) as [HM Hinv'].
    cbn [run_ops final fold_left]. rewrite HM. cbn [fst].
    destruct (step s o) as [s' r] eqn:Es. cbn [fst snd] in *.
    destruct (IH s' Hinv' Hvt) as [H1 [H2 H3]]. unfold final in H2, H3.
    rewrite H1. auto.
  Qed.

  Theorem file_refines_seq ops : valid_ops E g ops = true ->
    run_ops E (stepF E g) [] ops = run_ops E (stepM E FileNotFoundError g) (absent E g) ops.
  Proof.
    intros Hv. rewrite <- (absF_nil E g).
    apply (run_refines_gen (stepF E g) (absF E g) (invF E g) FileNotFoundError); auto.
    - intros s o. apply (stepF_refines E g Hg).
    - apply invF_nil.
  Qed.

  Theorem dict_refines_seq ops : valid_ops E g ops = true ->
    run_ops E (stepD E g) [] ops = run_ops E (stepM E KeyError g) (absent E g) ops.
  Proof.
    intros Hv. rewrite <- (absD_nil E g).
    apply (run_refines_gen (stepD E g) (absD E g) (invD E g) KeyError); auto.
    - intros s o. apply (stepD_refines E g Hg).
    - apply invD_nil.
  Qed.

  Lemma file_final ops : valid_ops E g ops = true ->
    absF E g (final E (stepF E g) [] ops) = final E (stepM E FileNotFoundError g) (absent E g) ops
    /\ invF E g (final E (stepF E g) [] ops).
  Proof.
    intros Hv. rewrite <- (absF_nil E g).
    apply (run_refines_gen (stepF E g) (absF E g) (invF E g) FileNotFoundError); auto.
    - intros s o. apply (stepF_refines E g Hg).
    - apply invF_nil.
  Qed.

  Lemma dict_final ops : valid_ops E g ops = true ->
    absD E g (final E (stepD E g) [] ops) = final E (stepM E KeyError g) (absent E g) ops
    /\ invD E g (final E (stepD E g) [] ops).
  Proof.
    intros Hv. rewrite <- (absD_nil E g).
    apply (run_refines_gen (stepD E g) (absD E g) (invD E g) KeyError); auto.
    - intros s o. apply (stepD_refines E g Hg).
    - apply invD_nil.
  Qed.

  (* ---------- the class of the get_from_index-on-missing exception is the only difference ---------- *)
  Lemma stepM_miss m1 m2 A o :
    fst (stepM E m1 g A o) = fst (stepM E m2 g A o)
    /\ out_agree E m1 m2 (snd (stepM E m1 g A o)) (snd (stepM E m2 g A o)).
  Proof.
    unfold out_agree. destruct o as [key v|key| | | |i|i|]; cbn [stepM]; try (split; [reflexivity|now left]).
    cbn [fst snd]. split; [reflexivity|]. destruct (i <? size g); [|now left].
    destruct (hasM E g A i); auto.
  Qed.

  Lemma run_miss m1 m2 ops : forall A,
    Forall2 (out_agree E m1 m2) (run_ops E (stepM E m1 g) A ops) (run_ops E (stepM E m2 g) A ops)
    /\ final E (stepM E m1 g) A ops = final E (stepM E m2 g) A ops.
  Proof.
    induction ops as [|o t IH]; intros A; [cbn; auto|].
    cbn [run_ops final fold_left]. destruct (stepM_miss m1 m2 A o) as [Hs Ho].
    destruct (stepM E m1 g A o) as [A1 r1], (stepM E m2 g A o) as [A2 r2]. cbn [fst snd] in *. subst A2.
    destruct (IH A1) as [H1 H2]. split; [constructor; assumption|exact H2].
  Qed.

  (* All backends agree with one another on every sequence; the only difference is the exception class of
     get_from_index on a missing element (FileNotFoundError / KeyError). *)
  Theorem backends_agree ops : valid_ops E g ops = true ->
    Forall2 (out_agree E FileNotFoundError KeyError) (run_ops E (stepF E g) [] ops) (run_ops E (stepD E g) [] ops).
  Proof.
    intros Hv. rewrite file_refines_seq, dict_refines_seq by assumption. apply run_miss.
  Qed.

  (* ---------- the content after a history ---------- *)
  Lemma stepM_state_other miss A o :
    match o with Dump _ _ => True | _ => fst (stepM E miss g A o) = A end.
  Proof. destruct o; cbn; auto. Qed.

  Lemma final_abs miss ops : forall look, good E g look -> valid_ops E g ops = true ->
    final E (stepM E miss g) (abs_of E g look) ops = abs_of E g (fun e => written E g ops (look e) e)
    /\ good E g (fun e => written E g ops (look e) e).
  Proof.
    induction ops as [|o t IH]; intros look Hgood Hv; [cbn; auto|].
    cbn [valid_ops forallb] in Hv. apply andb_true_iff in Hv as [Hvo Hvt].
    cbn [final fold_left]. fold (final E (stepM E miss g)).
    destruct o as [key v|key| | | |i|i|]; cbn [stepM fst written]; try (now apply IH).
    cbn [valid_op] in Hvo. apply Nat.eqb_eq in Hvo.
    rewrite (dumpM_abs E g). unfold dumpL, selected.
    destruct (norm_key_ref ext key) as [nk|e]; cbn [bind fst]; [|now apply IH].
    destruct (axes_of ext nk) as [axes|e]; cbn [bind fst]; [|now apply IH].
    specialize (IH (look_dump E look (cart axes) v) (good_dump E g _ _ _ Hgood Hvo) Hvt).
    unfold look_dump in IH. exact IH.
  Qed.

  (* every reachable reference state is the abstraction of the write history *)
  Theorem reference_content miss ops : valid_ops E g ops = true ->
    final E (stepM E miss g) (absent E g) ops = abs_of E g (written E g ops None)
    /\ good E g (written E g ops None).
  Proof.
    intros Hv. rewrite <- (abs_empty E g).
    exact (final_abs miss ops (fun _ => None) ltac:(intros e v _ H; discriminate) Hv).
  Qed.

  (* __getitem__ after a history, for any key: the selected cells are the last written elements / masked *)
  Theorem get_after_history_file ops key : valid_ops E g ops = true ->
    snd (stepF E g (final E (stepF E g) [] ops) (Get key))
    = match getL E g (written E g ops None) key with Ok r => r | Err e => OErr e end.
  Proof.
    intros Hv. destruct (file_final ops Hv) as [Habs Hinv].
    destruct (stepF_refines E g Hg _ (Get key) Hinv eq_refl) as [H _].
    rewrite Habs in H. destruct (reference_content FileNotFoundError ops Hv) as [Hc _]. rewrite Hc in H.
    cbn [stepM] in H. rewrite (getM_abs E g) in H.
    apply (f_equal snd) in H. cbn [snd] in H. now rewrite <- H.
  Qed.

  Theorem get_after_history_dict ops key : valid_ops E g ops = true ->
    snd (stepD E g (final E (stepD E g) [] ops) (Get key))
    = match getL E g (written E g ops None) key with Ok r => r | Err e => OErr e end.
  Proof.
    intros Hv. destruct (dict_final ops Hv) as [Habs Hinv].
    destruct (stepD_refines E g Hg _ (Get key) Hinv eq_refl) as [H _].
    rewrite Habs in H. destruct (reference_content KeyError ops Hv) as [Hc _]. rewrite Hc in H.
    cbn [stepM] in H. rewrite (getM_abs E g) in H.
    apply (f_equal snd) in H. cbn [snd] in H. now rewrite <- H.
  Qed.

  Lemma norm_items_int_key sizes : forall p, in_bounds sizes p = true ->
    norm_items sizes (int_key p) = Ok (map NInt p).
  Proof.
    induction sizes as [|d t IH]; intros [|k p] H; cbn in H; try discriminate; [reflexivity|].
    apply andb_true_iff in H as [Hk Hp]. apply Nat.ltb_lt in Hk.
    cbn [int_key map norm_items norm_item]. rewrite norm_int_of_nat by assumption. cbn [bind].
    fold (int_key p). rewrite (IH p Hp). reflexivity.
  Qed.

  Lemma axes_of_ints sizes : forall p, length p = length sizes ->
    axes_of sizes (map NInt p) = Ok (map (fun n => [n]) p) /\ slice_lens (map NInt p) (map (fun n => [n]) p) = [].
  Proof.
    induction sizes as [|d t IH]; intros [|k p] L; cbn in L; try discriminate; [auto|].
    injection L as L. destruct (IH p L) as [H1 H2]. cbn. rewrite H1. cbn. auto.
  Qed.

  Lemma getL_int_key look p : in_bounds full p = true ->
    getL E g look (int_key p) = Ok (OArr [] [cell_at E g look p]).
  Proof.
    intros Hp. unfold getL, norm_key_ref.
    assert (length (int_key p) = length full) as ->
        by (unfold int_key; rewrite map_length; now apply in_bounds_length).
    rewrite Nat.eqb_refl, norm_items_int_key by assumption. cbn [bind].
    destruct (axes_of_ints full p (in_bounds_length _ _ Hp)) as [H1 H2]. rewrite H1. cbn [bind].
    now rewrite H2, cart_singletons.
  Qed.

  (* written elements read back equal, unwritten elements are masked *)
  Theorem written_reads_back ops p v x : valid_ops E g ops = true -> in_bounds full p = true ->
    written E g ops None (ext_of mask p) = Some v ->
    nth_error v (ravel int (int_of mask p)) = Some x ->
    snd (stepF E g (final E (stepF E g) [] ops) (Get (int_key p))) = OArr [] [Val x]
    /\ snd (stepD E g (final E (stepD E g) [] ops) (Get (int_key p))) = OArr [] [Val x].
  Proof.
    intros Hv Hp Hw Hx.
    rewrite get_after_history_file, get_after_history_dict by assumption.
    rewrite getL_int_key by assumption. unfold cell_at. rewrite Hw. cbn [cell_of]. unfold nth_cell.
    rewrite Hx. auto.
  Qed.

  (* ... and a written value always has an element at every internal position *)
  Lemma written_has_element ops p v : valid_ops E g ops = true -> in_bounds full p = true ->
    written E g ops None (ext_of mask p) = Some v ->
    exists x, nth_error v (ravel int (int_of mask p)) = Some x.
  Proof.
    intros Hv Hp Hw. destruct (reference_content KeyError ops Hv) as [_ Hgood].
    destruct (full_split g Hg p Hp) as [He Hj].
    pose proof (Hgood _ _ He Hw) as Lv. pose proof (ravel_lt _ _ Hj) as Hlt.
    destruct (nth_error v (ravel int (int_of mask p))) eqn:En; [eauto|].
    apply nth_error_None in En. lia.
  Qed.

  Theorem unwritten_masked ops p : valid_ops E g ops = true -> in_bounds full p = true ->
    written E g ops None (ext_of mask p) = None ->
    snd (stepF E g (final E (stepF E g) [] ops) (Get (int_key p))) = OArr [] [Masked]
    /\ snd (stepD E g (final E (stepD E g) [] ops) (Get (int_key p))) = OArr [] [Masked].
  Proof.
    intros Hv Hp Hw.
    rewrite get_after_history_file, get_after_history_dict by assumption.
    rewrite getL_int_key by assumption. unfold cell_at. rewrite Hw. auto.
  Qed.

  (* linear indices follow the row-major order of the external shape: entry i of mask_linear, has_index i and
     get_from_index i all speak about external position unravel ext i *)
  Theorem mask_linear_rowmajor ops : valid_ops E g ops = true ->
    let missing := map (fun i => is_none (written E g ops None (unravel ext i))) (seq 0 (size g)) in
    snd (stepF E g (final E (stepF E g) [] ops) MaskLinear) = OBools missing
    /\ snd (stepD E g (final E (stepD E g) [] ops) MaskLinear) = OBools missing.
  Proof.
    intros Hv missing.
    destruct (file_final ops Hv) as [HabsF HinvF]. destruct (dict_final ops Hv) as [HabsD HinvD].
    destruct (stepF_refines E g Hg _ MaskLinear HinvF eq_refl) as [HF _].
    destruct (stepD_refines E g Hg _ MaskLinear HinvD eq_refl) as [HD _].
    rewrite HabsF in HF. rewrite HabsD in HD.
    destruct (reference_content FileNotFoundError ops Hv) as [HcF Hgood].
    destruct (reference_content KeyError ops Hv) as [HcD _].
    rewrite HcF in HF. rewrite HcD in HD. cbn [stepM] in HF, HD.
    rewrite (mask_linearM_abs E g Hg) in HF, HD by assumption.
    apply (f_equal snd) in HF, HD. cbn [snd] in HF, HD. rewrite <- HF, <- HD.
    subst missing. unfold size. rewrite <- unravel_enumerates, map_map. auto.
  Qed.

  Theorem has_index_rowmajor ops i : valid_ops E g ops = true -> i < size g ->
    let present := negb (is_none (written E g ops None (unravel ext i))) in
    snd (stepF E g (final E (stepF E g) [] ops) (Has i)) = OBool present
    /\ snd (stepD E g (final E (stepD E g) [] ops) (Has i)) = OBool present.
  Proof.
    intros Hv Hi present. assert (valid_op E g (Has i) = true) as Hvi by (now apply Nat.ltb_lt).
    destruct (file_final ops Hv) as [HabsF HinvF]. destruct (dict_final ops Hv) as [HabsD HinvD].
    destruct (stepF_refines E g Hg _ (Has i) HinvF Hvi) as [HF _].
    destruct (stepD_refines E g Hg _ (Has i) HinvD Hvi) as [HD _].
    rewrite HabsF in HF. rewrite HabsD in HD.
    destruct (reference_content FileNotFoundError ops Hv) as [HcF Hgood].
    destruct (reference_content KeyError ops Hv) as [HcD _].
    rewrite HcF in HF. rewrite HcD in HD. cbn [stepM] in HF, HD.
    cbn [valid_op] in Hvi. rewrite Hvi in HF, HD.
    rewrite (hasM_abs E g Hg) in HF, HD by assumption.
    apply (f_equal snd) in HF, HD. cbn [snd] in HF, HD. rewrite <- HF, <- HD. auto.
  Qed.

  Theorem get_from_index_rowmajor ops i v : valid_ops E g ops = true -> i < size g ->
    written E g ops None (unravel ext i) = Some v ->
    snd (stepF E g (final E (stepF E g) [] ops) (GetIdx i)) = OArr int (map Val v)
    /\ snd (stepD E g (final E (stepD E g) [] ops) (GetIdx i)) = OArr int (map Val v).
  Proof.
    intros Hv Hi Hw. assert (valid_op E g (GetIdx i) = true) as Hvi by (now apply Nat.ltb_lt).
    destruct (file_final ops Hv) as [HabsF HinvF]. destruct (dict_final ops Hv) as [HabsD HinvD].
    destruct (stepF_refines E g Hg _ (GetIdx i) HinvF Hvi) as [HF _].
    destruct (stepD_refines E g Hg _ (GetIdx i) HinvD Hvi) as [HD _].
    rewrite HabsF in HF. rewrite HabsD in HD.
    destruct (reference_content FileNotFoundError ops Hv) as [HcF Hgood].
    destruct (reference_content KeyError ops Hv) as [HcD _].
    rewrite HcF in HF. rewrite HcD in HD. cbn [stepM] in HF, HD.
    cbn [valid_op] in Hvi. rewrite Hvi in HF, HD.
    rewrite (hasM_abs E g Hg) in HF, HD by assumption. rewrite Hw in HF, HD. cbn [is_none negb] in HF, HD.
    rewrite (get_from_indexM_abs E g Hg _ i v) in HF, HD by assumption.
    apply (f_equal snd) in HF, HD. cbn [snd] in HF, HD. rewrite <- HF, <- HD. auto.
  Qed.

  (* ---------- key errors ---------- *)
  Lemma getM_error A key :
    (bad_key full key /\ getM E g A key = Err IndexError)
    \/ (~ bad_key full key /\ (exists r, getM E g A key = Ok r) \/ getM E g A key = Err ValueError).
  Proof.
    unfold getM. destruct (norm_key_ref_spec full key) as [[Hb ->]|[Hg' [nk [-> _]]]]; [left; auto|].
    right. cbn [bind]. destruct (axes_of full nk) as [axes|e] eqn:Ea; cbn [bind].
    - left. split; [assumption|eexists; reflexivity].
    - right. apply axes_of_err in Ea. now subst.
  Qed.

  Lemma dumpM_error A key v :
    (bad_key ext key /\ dumpM E g A key v = Err IndexError)
    \/ (~ bad_key ext key /\ (exists r, dumpM E g A key v = Ok r) \/ dumpM E g A key v = Err ValueError).
  Proof.
    unfold dumpM. destruct (norm_key_ref_spec ext key) as [[Hb ->]|[Hg' [nk [-> _]]]]; [left; auto|].
    right. cbn [bind]. destruct (axes_of ext nk) as [axes|e] eqn:Ea; cbn [bind].
    - left. split; [assumption|eexists; reflexivity].
    - right. apply axes_of_err in Ea. now subst.
  Qed.

  (* IndexError exactly for a wrong rank or an int component outside [-n, n) - in every reachable state of both
     backends, for __getitem__ (full shape) and dump (external shape) *)
  Lemma key_error_get_ref miss A key :
    snd (stepM E miss g A (Get key)) = OErr IndexError <-> bad_key full key.
  Proof.
    cbn [stepM snd]. destruct (getM_error A key) as [[Hb ->]|[[Hnb [r Hr]]|Hr]].
    - split; auto.
    - rewrite Hr. unfold getM in Hr.
      destruct (norm_key_ref full key) as [nk|]; cbn [bind] in Hr; [|discriminate].
      destruct (axes_of full nk); cbn [bind] in Hr; [|discriminate]. injection Hr as <-.
      split; [discriminate|contradiction].
    - rewrite Hr. split; [discriminate|]. intros Hb.
      unfold getM in Hr. destruct (norm_key_ref_spec full key) as [[_ Hn]|[Hnb _]]; [|contradiction].
      rewrite Hn in Hr. discriminate.
  Qed.

  Lemma key_error_dump_ref miss A key v :
    snd (stepM E miss g A (Dump key v)) = OErr IndexError <-> bad_key ext key.
  Proof.
    cbn [stepM]. destruct (dumpM_error A key v) as [[Hb ->]|[[Hnb [r ->]]|Hr]]; cbn [snd].
    - split; auto.
    - split; [discriminate|contradiction].
    - rewrite Hr. cbn [snd]. split; [discriminate|]. intros Hb.
      unfold dumpM in Hr. destruct (norm_key_ref_spec ext key) as [[_ Hn]|[Hnb _]]; [|contradiction].
      rewrite Hn in Hr. discriminate.
  Qed.

  Theorem key_errors_exact ops key v : valid_ops E g ops = true -> length v = prod int ->
    let sF := final E (stepF E g) [] ops in
    let sD := final E (stepD E g) [] ops in
    (snd (stepF E g sF (Get key)) = OErr IndexError <-> bad_key full key)
    /\ (snd (stepD E g sD (Get key)) = OErr IndexError <-> bad_key full key)
    /\ (snd (stepF E g sF (Dump key v)) = OErr IndexError <-> bad_key ext key)
    /\ (snd (stepD E g sD (Dump key v)) = OErr IndexError <-> bad_key ext key).
  Proof.
    intros Hv Lv sF sD.
    destruct (file_final ops Hv) as [_ HinvF]. destruct (dict_final ops Hv) as [_ HinvD].
    assert (valid_op E g (Dump key v) = true) as Hvd by (now apply Nat.eqb_eq).
    destruct (stepF_refines E g Hg sF (Get key) HinvF eq_refl) as [HF1 _].
    destruct (stepD_refines E g Hg sD (Get key) HinvD eq_refl) as [HD1 _].
    destruct (stepF_refines E g Hg sF (Dump key v) HinvF Hvd) as [HF2 _].
    destruct (stepD_refines E g Hg sD (Dump key v) HinvD Hvd) as [HD2 _].
    apply (f_equal snd) in HF1, HD1, HF2, HD2. cbn [snd] in HF1, HD1, HF2, HD2.
    rewrite <- HF1, <- HD1, <- HF2, <- HD2.
    repeat split; try apply key_error_get_ref; try apply key_error_dump_ref;
      try (apply (proj1 (key_error_get_ref _ _ _))); try (apply (proj2 (key_error_get_ref _ _ _)));
      try (apply (proj1 (key_error_dump_ref _ _ _ _))); try (apply (proj2 (key_error_dump_ref _ _ _ _))).
  Qed.
End Seq.
