(* StoreFile (model of FileArray) refines the reference MaskedNd: one step. *)
From Verif Require Import Base.Prelude Base.Index Base.PySlice Model.Store Model.StoreSpec
  Proofs.IndexFacts Proofs.PySliceFacts Proofs.StoreBase Proofs.StoreAbs.

Section FileFacts.
  Variable E : Type.
  Variable g : geom.
  Hypothesis Hg : geom_ok g = true.

  Local Notation ext := (g_ext g).
  Local Notation int := (g_int g).
  Local Notation mask := (g_mask g).
  Local Notation full := (full_shape g).
  Local Notation stF := (stF E).
  Local Notation sval := (sval E).

  Lemma lookupF_in i (s : stF) v : lookupF E i s = Some v -> In (i, v) s.
  Proof.
    induction s as [|[k w] s IH]; cbn; [discriminate|].
    destruct (k =? i) eqn:Ek.
    - apply Nat.eqb_eq in Ek. intros H. injection H as ->. subst. now left.
    - intros H. right. now apply IH.
  Qed.

  Lemma lookupF_mem i (s : stF) : is_none (lookupF E i s) = negb (mem_nat i (map fst s)).
  Proof.
    induction s as [|[k w] s IH]; cbn; [reflexivity|].
    rewrite (Nat.eqb_sym i k). destruct (k =? i); [reflexivity|]. exact IH.
  Qed.

  Lemma good_lookF s : invF E g s -> good E g (lookF E g s).
  Proof. intros Hinv e v _ H. apply lookupF_in in H. eapply Hinv; eauto. Qed.

  Lemma invF_nil : invF E g [].
  Proof. intros i v []. Qed.

  Lemma absF_nil : absF E g [] = absent E g.
  Proof. unfold absF, lookF. cbn. apply abs_empty. Qed.

  (* ---------- __getitem__ ---------- *)
  Lemma getF_refines s key : invF E g s -> getF E g s key = getL E g (lookF E g s) key.
  Proof.
    intros Hinv. pose proof (good_lookF s Hinv) as Hgood.
    unfold getF, getL. rewrite (normalize_key_get g Hg).
    destruct (norm_key_ref full key) as [nk|e] eqn:En; cbn [bind]; [|reflexivity].
    pose proof (norm_key_ref_ok _ _ _ En) as [L Hn].
    destruct (has_slice nk) eqn:Hs.
    - unfold slice_indicesF. rewrite (normalize_key_get g Hg), En. cbn [bind].
      change (merge mask ext int) with full.
      destruct (axes_of full nk) as [axes|e] eqn:Ea; cbn [bind]; [|reflexivity].
      rewrite (mapM_ok _ (cell_at E g (lookF E g s))).
      + cbn [bind]. unfold reshape.
        rewrite (slice_lens_prod _ _ _ Ea), map_length, Nat.eqb_refl. reflexivity.
      + intros p Hp. apply (fetch_ok E g Hg (lookF E g s)); [assumption|].
        eapply axes_in_bounds; eauto.
    - destruct (no_slice_axes_ok full nk Hs) as [axes Ea]. rewrite Ea. cbn [bind].
      pose proof (norm_items_length _ _ _ Hn L) as Lnk.
      destruct (no_slice_axes full nk axes Hs Lnk Ea) as [Eax Hl]. rewrite Hl.
      assert (in_bounds full (nk_ints nk) = true) as Hb.
      { eapply axes_in_bounds; eauto. rewrite Eax, cart_singletons. now left. }
      rewrite Eax, cart_singletons. cbn [map].
      pose proof (fetch_ok E g Hg (lookF E g s) _ Hgood Hb) as Hf. unfold lookF at 1 in Hf.
      rewrite Hf. reflexivity.
  Qed.

  (* ---------- dump ---------- *)
  Lemma lookupF_fold (v : sval) (l : list (list nat)) : forall (s : stF) i,
    lookupF E i (fold_left (fun s' index => (key_to_file g index, v) :: s') l s)
    = if existsb (fun index => key_to_file g index =? i) l then Some v else lookupF E i s.
  Proof.
    induction l as [|x l IH]; intros s i; cbn [fold_left existsb]; [reflexivity|].
    rewrite IH. cbn [lookupF]. destruct (existsb _ l); [now rewrite orb_true_r|].
    rewrite orb_false_r. reflexivity.
  Qed.

  Lemma in_fold_cons (v : sval) (l : list (list nat)) : forall (s : stF) i w,
    In (i, w) (fold_left (fun s' index => (key_to_file g index, v) :: s') l s) -> w = v \/ In (i, w) s.
  Proof.
    induction l as [|x l IH]; intros s i w H; cbn [fold_left] in H; [now right|].
    apply IH in H as [H|[H|H]]; auto. injection H as _ <-. now left.
  Qed.

  Lemma existsb_file e l : in_bounds ext e = true -> (forall x, In x l -> in_bounds ext x = true) ->
    existsb (fun index => key_to_file g index =? key_to_file g e) l = mem_idx e l.
  Proof.
    intros He Hl. induction l as [|x l IH]; [reflexivity|].
    cbn [existsb mem_idx]. fold (mem_idx e l). rewrite IH by (intros; apply Hl; now right). f_equal.
    unfold key_to_file. destruct (idx_eqb e x) eqn:Ex.
    - apply idx_eqb_eq in Ex. subst. apply Nat.eqb_refl.
    - apply Nat.eqb_neq. intros Hr. apply ravel_inj in Hr; auto.
      + subst. now rewrite idx_eqb_refl in Ex.
      + apply Hl. now left.
  Qed.

  Lemma dumpF_spec s key v :
    match dumpF E g s key v, dumpL E g (lookF E g s) key v with
    | Ok s', Ok look' =>
        (forall e, in_bounds ext e = true -> lookF E g s' e = look' e)
        /\ (invF E g s -> length v = prod int -> invF E g s')
    | Err e1, Err e2 => e1 = e2
    | _, _ => False
    end.
  Proof.
    unfold dumpF, dumpL. rewrite (normalize_key_dump g Hg).
    destruct (norm_key_ref ext key) as [nk|e] eqn:En; cbn [bind]; [|reflexivity].
    pose proof (norm_key_ref_ok _ _ _ En) as [L Hn].
    pose proof (norm_items_length _ _ _ Hn L) as Lnk.
    destruct (has_slice nk) eqn:Hs; cbn [negb].
    - unfold slice_indicesF. rewrite (normalize_key_dump g Hg), (norm_key_ref_denorm _ _ _ En). cbn [bind].
      rewrite merge_repeat_true by reflexivity.
      destruct (axes_of ext nk) as [axes|e] eqn:Ea; cbn [bind]; [|reflexivity].
      split.
      + intros e He. unfold lookF, look_dump. rewrite lookupF_fold, existsb_file; auto.
        intros x Hx. eapply axes_in_bounds; eauto.
      + intros Hinv Lv i w Hin. apply in_fold_cons in Hin as [->|Hin]; [assumption|]. eapply Hinv; eauto.
    - destruct (no_slice_axes_ok ext nk Hs) as [axes Ea]. rewrite Ea. cbn [bind].
      destruct (no_slice_axes ext nk axes Hs Lnk Ea) as [Eax Hl].
      assert (in_bounds ext (nk_ints nk) = true) as Hb.
      { eapply axes_in_bounds; eauto. rewrite Eax, cart_singletons. now left. }
      rewrite Eax, cart_singletons. split.
      + intros e He. unfold lookF, look_dump. cbn [lookupF mem_idx existsb]. rewrite orb_false_r.
        unfold key_to_file. destruct (idx_eqb e (nk_ints nk)) eqn:Ex.
        * apply idx_eqb_eq in Ex. subst. now rewrite Nat.eqb_refl.
        * destruct (ravel ext (nk_ints nk) =? ravel ext e) eqn:Er; [|reflexivity].
          apply Nat.eqb_eq in Er. apply ravel_inj in Er; auto. subst. now rewrite idx_eqb_refl in Ex.
      + intros Hinv Lv i w [Hin|Hin]; [injection Hin as _ <-; assumption|]. eapply Hinv; eauto.
  Qed.

  (* ---------- mask_linear ---------- *)
  Lemma mask_linearF_refines s : invF E g s -> mask_linearF E g s = mask_linearM E g (absF E g s).
  Proof.
    intros Hinv. unfold absF. rewrite (mask_linearM_abs E g Hg) by (now apply good_lookF).
    unfold mask_linearF, size. rewrite <- unravel_enumerates, map_map.
    apply map_ext_in. intros i Hi. apply in_seq in Hi.
    unfold lookF, key_to_file. rewrite ravel_unravel by lia. now rewrite lookupF_mem.
  Qed.

  (* ---------- to_array ---------- *)
  Lemma to_arrayF_refines s : invF E g s -> to_arrayF E g s = Ok (OArr full (absF E g s)).
  Proof.
    intros Hinv. pose proof (good_lookF s Hinv) as Hgood.
    unfold to_arrayF. destruct (g_int g) as [|d0 int'] eqn:Eint.
    - (* no internal shape *)
      pose proof (Lint g Hg) as Li. rewrite Eint in Li. cbn in Li. symmetry in Li.
      assert (length ext = length mask) as Lm.
      { pose proof (count_true_false mask). rewrite (Lext g Hg). lia. }
      assert (full = ext) as Hfull.
      { unfold full_shape. rewrite Eint. now apply merge_all_true. }
      unfold reshape, size. rewrite map_length, seq_length, Nat.eqb_refl. rewrite <- Hfull at 1.
      f_equal. f_equal. apply (to_array_abs E g).
      + now rewrite map_length, seq_length, Hfull.
      + intros p Hp.
        assert (length p = length mask) as Lp by (rewrite (in_bounds_length _ _ Hp); apply (full_length g Hg)).
        destruct (ext_of_all_true mask p Li Lp) as [Ee Ei].
        unfold cell_at, lookF, key_to_file. rewrite Ee, Ei, Eint. cbn [ravel combine map fold_right].
        unfold Store.nd_get. rewrite Hfull. rewrite Hfull in Hp.
        pose proof (ravel_lt _ _ Hp) as Hlt.
        set (F := fun i : nat => match lookupF E i s with Some v => nth_cell E v 0 | None => Masked end).
        rewrite (nth_indep _ Uninit (F 0)) by (now rewrite map_length, seq_length).
        rewrite map_nth, seq_nth by assumption. cbn [Nat.add]. subst F. cbv beta.
        destruct (lookupF E (ravel ext p) s); reflexivity.
    - (* internal shape: the double loop *)
      try rewrite <- Eint.
      destruct (splat_assignments_spec E g Hg (lookF E g s)
                  (map (fun e => (e, lookupF E (key_to_file g e) s)) (all_indices ext)) Hgood)
        as [pcs [Hpcs [Hvals Hmem]]].
      { intros e ov Hin. apply in_map_iff in Hin as [e' [Heq Hin]]. injection Heq as <- <-.
        apply in_all_indices in Hin. auto. }
      rewrite Hpcs. cbn [bind]. f_equal. f_equal. apply (to_array_abs E g).
      + now rewrite assign_all_length, repeat_length.
      + intros p Hp. rewrite (assign_all_spec E full (cell_at E g (lookF E g s))); auto.
        * rewrite Hmem by assumption. rewrite map_map. cbn [fst]. rewrite map_id.
          assert (mem_idx (ext_of mask p) (all_indices ext) = true) as ->; [|reflexivity].
          apply mem_idx_in, in_all_indices. now apply (full_split g Hg).
        * apply repeat_length.
  Qed.

  (* ---------- one step ---------- *)
  Theorem stepF_refines s o : invF E g s -> valid_op E g o = true ->
    stepM E FileNotFoundError g (absF E g s) o = (absF E g (fst (stepF E g s o)), snd (stepF E g s o))
    /\ invF E g (fst (stepF E g s o)).
  Proof.
    intros Hinv Hv. pose proof (good_lookF s Hinv) as Hgood.
    destruct o as [key v|key| | | |i|i|]; cbn [stepF stepM valid_op] in *.
    - (* Dump *)
      apply Nat.eqb_eq in Hv.
      unfold absF. rewrite (dumpM_abs E g). fold absF.
      pose proof (dumpF_spec s key v) as H.
      destruct (dumpF E g s key v) as [s'|e1], (dumpL E g (lookF E g s) key v) as [look'|e2]; try contradiction.
      + destruct H as [Hl Hi]. cbn [fst snd]. split; [|now apply Hi].
        f_equal. unfold absF. symmetry. now apply (abs_ext E g Hg).
      + subst. cbn [fst snd]. auto.
    - (* Get *)
      cbn [fst snd]. split; [|assumption]. f_equal.
      unfold absF. rewrite (getM_abs E g), <- getF_refines by assumption. reflexivity.
    - (* ToArray *)
      rewrite to_arrayF_refines by assumption. cbn [fst snd]. auto.
    - (* Mask *)
      rewrite mask_linearF_refines by assumption. cbn [fst snd]. auto.
    - rewrite mask_linearF_refines by assumption. cbn [fst snd]. auto.
    - (* Has *)
      rewrite Hv. apply Nat.ltb_lt in Hv. cbn [fst snd]. split; [|assumption]. f_equal. f_equal.
      unfold absF. rewrite (hasM_abs E g Hg) by assumption.
      unfold lookF, key_to_file. rewrite ravel_unravel by assumption.
      rewrite lookupF_mem. now rewrite negb_involutive.
    - (* GetIdx *)
      rewrite Hv. apply Nat.ltb_lt in Hv. cbn [fst snd]. split; [|assumption]. f_equal.
      unfold absF. rewrite (hasM_abs E g Hg) by assumption.
      unfold lookF at 1, key_to_file. rewrite ravel_unravel by assumption.
      destruct (lookupF E i s) as [v|] eqn:El; cbn [is_none negb]; [|reflexivity].
      f_equal. apply (get_from_indexM_abs E g Hg); auto.
      unfold lookF, key_to_file. now rewrite ravel_unravel.
    - cbn [fst snd]. auto.
  Qed.
End FileFacts.
