(* Witnesses: the model of the storage code before the C07 repairs does not refine the reference. *)
From Verif Require Import Base.Prelude Base.Index Base.PySlice Model.Store Model.StoreSpec Model.StoreLegacy.

Definition g_int_first : geom := {| g_ext := [3]; g_int := [2]; g_mask := [false; true] |}.
Definition g_int_last : geom := {| g_ext := [2]; g_int := [3]; g_mask := [true; false] |}.

Definition ops_w1 : list (op Z) := [Dump [KInt 2] [1; 2]%Z; Dump [KSlice None None None] [7; 8]%Z; MaskLinear].
Definition ops_w2 : list (op Z) :=
  [Dump [KInt 0] [1; 2; 3]%Z; Get [KInt 1; KInt 0]; Get [KSlice None None None; KInt 0]].

Lemma w1_valid : geom_ok g_int_first = true /\ valid_ops Z g_int_first ops_w1 = true.
Proof. vm_compute. auto. Qed.
Lemma w2_valid : geom_ok g_int_last = true /\ valid_ops Z g_int_last ops_w2 = true.
Proof. vm_compute. auto. Qed.

(* (1) a valid dump at external index 2 of 3 is rejected, a dump of [:] writes 2 of the 3 elements *)
Lemma w1_file_v0 :
  run_ops Z (stepF_v0 Z g_int_first) [] ops_w1 = [OErr IndexError; ONone; OBools [false; false; true]].
Proof. vm_compute. reflexivity. Qed.
Lemma w1_dict_v0 :
  run_ops Z (stepD_v0 Z g_int_first) [] ops_w1 = [OErr IndexError; ONone; OBools [false; false; false]].
Proof. vm_compute. reflexivity. Qed.
Lemma w1_ref miss :
  run_ops Z (stepM Z miss g_int_first) (absent Z g_int_first) ops_w1 = [ONone; ONone; OBools [false; false; false]].
Proof. vm_compute. reflexivity. Qed.

(* (2) a missing element of an array with internal shape reads as an unmasked array of None / as None *)
Lemma w2_dict_v0 :
  run_ops Z (stepD_v0 Z g_int_last) [] ops_w2
  = [ONone; OArr [3] [Uninit; Uninit; Uninit]; OArr [2] [Val 1%Z; Uninit]].
Proof. vm_compute. reflexivity. Qed.
Lemma w2_ref miss :
  run_ops Z (stepM Z miss g_int_last) (absent Z g_int_last) ops_w2
  = [ONone; OArr [] [Masked]; OArr [2] [Val 1%Z; Masked]].
Proof. vm_compute. reflexivity. Qed.

Lemma file_refines_seq_v0_refuted : exists g ops,
  geom_ok g = true /\ valid_ops Z g ops = true
  /\ run_ops Z (stepF_v0 Z g) [] ops <> run_ops Z (stepM Z FileNotFoundError g) (absent Z g) ops.
Proof.
  exists g_int_first, ops_w1. destruct w1_valid as [H1 H2]. repeat split; auto.
  rewrite w1_file_v0, w1_ref. discriminate.
Qed.

Lemma dict_refines_seq_v0_refuted : exists g ops,
  geom_ok g = true /\ valid_ops Z g ops = true
  /\ run_ops Z (stepD_v0 Z g) [] ops <> run_ops Z (stepM Z KeyError g) (absent Z g) ops.
Proof.
  exists g_int_last, ops_w2. destruct w2_valid as [H1 H2]. repeat split; auto.
  rewrite w2_dict_v0, w2_ref. discriminate.
Qed.

Lemma backends_agree_v0_refuted : exists g ops,
  geom_ok g = true /\ valid_ops Z g ops = true
  /\ ~ Forall2 (out_agree Z FileNotFoundError KeyError)
         (run_ops Z (stepF_v0 Z g) [] ops) (run_ops Z (stepD_v0 Z g) [] ops).
Proof.
  exists g_int_first, ops_w1. destruct w1_valid as [H1 H2]. repeat split; auto.
  rewrite w1_file_v0, w1_dict_v0. intros H.
  inversion H as [|? ? ? ? _ H']; subst. inversion H' as [|? ? ? ? _ H'']; subst.
  inversion H'' as [|? ? ? ? Hbad _]; subst. destruct Hbad as [Hbad|[Hbad _]]; discriminate.
Qed.
