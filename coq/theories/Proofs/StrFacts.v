From Verif Require Import Base.Prelude Base.StrUtil.

Lemma str_eqb_eq a : forall b, str_eqb a b = true <-> a = b.
Proof.
  induction a as [|x a IH]; intros [|y b]; cbn; split; intros H; try discriminate; try reflexivity.
  - apply andb_true_iff in H as [H1 H2]. apply Ascii.eqb_eq in H1. apply IH in H2. now subst.
  - injection H as -> ->. apply andb_true_iff; split; [apply Ascii.eqb_refl | now apply IH].
Qed.

Lemma str_eqb_refl a : str_eqb a a = true.
Proof. now apply str_eqb_eq. Qed.

Lemma str_eqb_neq a b : str_eqb a b = false <-> a <> b.
Proof.
  split; intros H.
  - intros E. apply str_eqb_eq in E. congruence.
  - destruct (str_eqb a b) eqn:E; [|reflexivity]. apply str_eqb_eq in E. contradiction.
Qed.

Lemma str_eqb_sym a b : str_eqb a b = str_eqb b a.
Proof.
  destruct (str_eqb a b) eqn:E.
  - apply str_eqb_eq in E. subst. symmetry. apply str_eqb_refl.
  - symmetry. apply str_eqb_neq. apply str_eqb_neq in E. congruence.
Qed.

Lemma mem_str_In x l : mem_str x l = true <-> In x l.
Proof.
  induction l as [|y l IH]; cbn; [split; [discriminate|tauto]|].
  rewrite orb_true_iff, IH, str_eqb_eq. split; intros [H|H]; auto.
Qed.

Lemma mem_str_false x l : mem_str x l = false <-> ~ In x l.
Proof.
  rewrite <- mem_str_In. destruct (mem_str x l); split; intros H; try reflexivity; try discriminate.
  exfalso. now apply H.
Qed.

Lemma list_eqb_eq {A} (eqb : A -> A -> bool) :
  (forall a b, eqb a b = true <-> a = b) -> forall l l', list_eqb eqb l l' = true <-> l = l'.
Proof.
  intros Heq. induction l as [|x l IH]; intros [|y l']; cbn; split; intros H; try discriminate; try reflexivity.
  - apply andb_true_iff in H as [H1 H2]. apply Heq in H1. apply IH in H2. now subst.
  - injection H as -> ->. apply andb_true_iff; split; [now apply Heq | now apply IH].
Qed.
