(* Facts about Model/SubPipe.v: a successful subpipeline keeps every needed function, preserves the values of
   the requested outputs, and is only returned for computable requests. *)
From Verif Require Import Base.Prelude Base.StrOrd Base.Graph Model.Pipe Model.SubPipe
                          Proofs.GraphFacts Proofs.PipeFacts Proofs.ArgCombFacts.
From Coq Require Import Permutation.

Lemma mapM_Ok_inv {A B} (f : A -> result B) l ys : mapM f l = Ok ys -> forall x, In x l -> exists y, f x = Ok y.
Proof.
  revert ys. induction l as [|a l IH]; intros ys H x Hin; [contradiction|]. cbn in H.
  destruct (f a) as [y|e] eqn:Ea; cbn in H; [|discriminate]. destruct (mapM f l) as [l'|e] eqn:El; cbn in H; [|discriminate].
  destruct Hin as [<-|Hin]; eauto.
Qed.

Lemma mapM_Ok_In {A B} (f : A -> result B) l ys : mapM f l = Ok ys -> forall y, In y ys -> exists x, In x l /\ f x = Ok y.
Proof.
  revert ys. induction l as [|a l IH]; intros ys H y Hin; cbn in H; [inversion H; subst; contradiction|].
  destruct (f a) as [b|e] eqn:Ea; cbn in H; [|discriminate]. destruct (mapM f l) as [l'|e] eqn:El; cbn in H; [|discriminate].
  inversion H; subst ys. destruct Hin as [<-|Hin]; [exists a; split; [now left|assumption]|].
  destruct (IH l' eq_refl y Hin) as [x [H1 H2]]. exists x. split; [now right|assumption].
Qed.

Lemma drop_loop_filter : forall drop cur q, drop_loop cur drop = Ok q ->
  q = filter (fun g => negb (mem_str (fid g) (map fid drop))) cur.
Proof.
  induction drop as [|f t IH]; intros cur q H; cbn in H.
  - inversion H; subst. cbn. clear H. induction q as [|g q IHq]; cbn; [reflexivity|]. now rewrite <- IHq.
  - destruct (consistent_defaults _); [|discriminate]. apply IH in H. rewrite H. clear H.
    induction cur as [|g cur IHc]; [reflexivity|]. cbn [filter map mem_str].
    destruct (str_eqb (fid g) (fid f)) eqn:E; cbn [negb orb filter]; [apply IHc|].
    destruct (mem_str (fid g) (map fid t)); cbn [negb]; [apply IHc|now rewrite IHc].
Qed.

Lemma drop_loop_keep p b q : drop_loop p (filter (fun f => negb (mem_str (fid f) b)) p) = Ok q -> q = keep p b.
Proof.
  intros H. apply drop_loop_filter in H. subst q. unfold keep. apply filter_ext_in. intros g Hg.
  destruct (mem_str (fid g) b) eqn:Eb.
  - apply negb_true_iff. apply mem_str_not_In. intros Hin. apply in_map_iff in Hin as [f [Ef Hf]].
    apply filter_In in Hf as [_ Hf]. apply negb_true_iff in Hf. rewrite Ef in Hf. congruence.
  - apply negb_false_iff. apply mem_str_In. apply in_map_iff. exists g. split; [reflexivity|].
    apply filter_In. split; [assumption|]. now rewrite Eb.
Qed.

Section Sub.
  Variable p : pipeline.
  Variable ls : list (list str).
  Hypothesis Hwf : wf_P p ls.
  Variable Ip : list str.            (* provided names *)
  Variable Sq : list str.            (* requested outputs *)
  Variable p' : pipeline.
  Hypothesis Hsub : subpipeline p Ip (Some Sq) = Ok p'.

  Let Hnd := wf_outs_nd _ _ Hwf.

  (* what success means *)
  Lemma sub_facts : exists b,
    p' = keep p b
    /\ (forall o, In o Sq -> is_output p' o = true)
    /\ (forall r, In r (root_arg_names p') ->
          (In r (akeys (pdefaults p')) /\ In r (akeys (pdefaults p))) \/ In r Ip).
  Proof.
    unfold subpipeline in Hsub. destruct (mapM (node_of p) Ip) as [ins|e]; cbn in Hsub; [|discriminate].
    destruct (mapM (node_of p) Sq) as [outs|e]; cbn in Hsub; [|discriminate].
    set (b := between (graph_of p) ins outs) in *. exists b.
    destruct (drop_loop p (filter (fun f => negb (mem_str (fid f) b)) p)) as [q|e] eqn:Ed; cbn in Hsub; [|discriminate].
    apply drop_loop_keep in Ed. subst q.
    destruct (negb (forallb (is_output (keep p b)) Sq)) eqn:E1; [discriminate|].
    destruct (forallb _ (root_arg_names (keep p b))) eqn:E2; [|discriminate].
    inversion Hsub; subst p'. split; [reflexivity|]. split.
    - apply negb_false_iff in E1. rewrite forallb_forall in E1. exact E1.
    - intros r Hr. rewrite forallb_forall in E2. specialize (E2 r Hr). apply orb_true_iff in E2 as [E2|E2].
      + left. apply mem_str_In in E2. unfold inter_str in E2. apply filter_In in E2 as [H1 H2].
        apply mem_str_In in H2. auto.
      + right. now apply mem_str_In.
  Qed.

  Lemma kept_in_p f : In f p' -> In f p.
  Proof. destruct sub_facts as [b [-> _]]. unfold keep. intros H. now apply filter_In in H. Qed.

  Lemma producer_sub o f : producer p' o = Some f -> producer p o = Some f.
  Proof.
    intros H. apply producer_Some in H as [H1 H2]. apply producer_unique; auto. now apply kept_in_p.
  Qed.

  Lemma is_output_sub o : is_output p' o = true -> is_output p o = true.
  Proof. intros H. apply is_output_true in H as [f Hf]. apply is_output_true. exists f. now apply producer_sub. Qed.

  Lemma producer_sub_rev o f : producer p o = Some f -> In f p' -> producer p' o = Some f.
  Proof.
    intros H Hf. destruct (producer p' o) as [g|] eqn:E.
    - apply producer_sub in E. congruence.
    - exfalso. apply producer_Some in H as [_ Ho]. eapply producer_None; eauto.
  Qed.

  (* an unbound parameter of a kept function that is not provided: either its producer is kept too, or it is not
     an output at all and keeps its default *)
  Lemma kept_param f cur : In f p' -> In cur (pnames f) -> aget (bound f) cur = None -> ~ In cur Ip ->
    (is_output p' cur = true) \/
    (is_output p' cur = false /\ is_output p cur = false /\ In cur (akeys (pdefaults p')) /\ In cur (akeys (pdefaults p))).
  Proof.
    intros Hf Hcur Hb Hni. destruct (is_output p' cur) eqn:Eo; [now left|right]. split; [reflexivity|].
    destruct sub_facts as [b [_ [_ Hroots]]].
    assert (Hr : In cur (root_arg_names p')).
    { unfold root_arg_names. apply dedup_In, in_flat_map. exists f. split; [assumption|]. apply filter_In.
      split; [assumption|]. apply ahas_false_iff in Hb. now rewrite Hb, Eo. }
    destruct (Hroots cur Hr) as [[H1 H2]|H]; [|contradiction]. split; [|auto].
    unfold pdefaults, akeys in H2. apply in_map_iff in H2 as [[k v] [Ek H2]]. cbn in Ek. subst k.
    apply in_flat_map in H2 as [g [_ H2]]. apply filter_In in H2 as [_ H2]. cbn in H2.
    apply andb_true_iff in H2 as [_ H2]. now apply negb_true_iff in H2.
  Qed.

  Lemma default_sub cur : is_output p cur = false -> In cur (akeys (pdefaults p')) ->
    default_of p' cur = default_of p cur /\ default_of p cur <> None.
  Proof.
    intros Ho Hk. unfold default_of.
    assert (Hincl : forall k v, k = cur -> In (k, v) (pdefaults p') -> In (k, v) (pdefaults p)).
    { intros k v -> H. unfold pdefaults in *. apply in_flat_map in H as [g [Hg H]]. apply in_flat_map. exists g.
      split; [now apply kept_in_p|]. apply filter_In in H as [H1 H2]. apply filter_In. split; [assumption|]. cbn in *.
      apply andb_true_iff in H2 as [H2 _]. now rewrite H2, Ho. }
    destruct (aget (pdefaults p') cur) as [v|] eqn:E.
    - apply aget_Some_In in E. apply (Hincl cur v eq_refl) in E. apply (wf_defaults _ _ Hwf) in E. rewrite E.
      split; [reflexivity|discriminate].
    - apply aget_None_iff in E. contradiction.
  Qed.

  Variable kw : alist.
  Hypothesis Hkw : forall k, In k (akeys kw) <-> In k Ip.

  Lemma kw_none cur : aget kw cur = None <-> ~ In cur Ip.
  Proof. rewrite aget_None_iff. now rewrite Hkw. Qed.

  (* every function on a dependency path to a kept output that is not cut off by the provided names is kept *)
  Lemma needed_sub_kept : forall n o f, is_output p' o = true -> In f (needed n p kw o) -> In f p'.
  Proof.
    induction n as [|n IH]; intros o f Ho Hf; [contradiction|]. apply is_output_true in Ho as [g Eg].
    pose proof (producer_sub _ _ Eg) as Eg'. rewrite (needed_S p kw), Eg' in Hf.
    pose proof (producer_Some _ _ _ Eg) as [Hg _].
    destruct Hf as [<-|Hf]; [assumption|]. apply in_flat_map in Hf as [cur [Hcur Hf]].
    destruct (source_of p kw g cur) as [| |h| |] eqn:Es; try contradiction.
    apply (source_SUp p kw) in Es as [Eb [Ek Eh]]. apply kw_none in Ek.
    destruct (kept_param g cur Hg Hcur Eb Ek) as [Ho'|[_ [Ho' _]]].
    - eapply IH; eauto.
    - apply is_output_false in Ho'. congruence.
  Qed.

  (* the sub-pipeline computes, for its outputs, the values of the full pipeline *)
  Theorem sub_values body pick : forall n o, is_output p' o = true ->
    eval body pick n p' kw o = eval body pick n p kw o.
  Proof.
    induction n as [|n IH]; intros o Ho; [reflexivity|]. cbn [eval].
    apply is_output_true in Ho as [g Eg]. rewrite Eg, (producer_sub _ _ Eg).
    pose proof (producer_Some _ _ _ Eg) as [Hg _].
    assert (E : args_with (eval body pick n p' kw) p' kw g = args_with (eval body pick n p kw) p kw g).
    { unfold args_with. apply mapM_ext_in. intros [cur orig] Hin. cbn [fst snd].
      assert (Hcur : In cur (pnames g)) by (apply in_map_iff; now exists (cur, orig)).
      enough (arg_val (eval body pick n p' kw) p' kw g cur = arg_val (eval body pick n p kw) p kw g cur) as -> by reflexivity.
      unfold arg_val. destruct (aget (bound g) cur) eqn:Eb; [reflexivity|]. destruct (aget kw cur) eqn:Ek; [reflexivity|].
      apply kw_none in Ek. destruct (kept_param g cur Hg Hcur Eb Ek) as [Ho'|[Ho1 [Ho2 [Hd1 Hd2]]]].
      - rewrite Ho', (is_output_sub _ Ho'). now apply IH.
      - rewrite Ho1, Ho2. destruct (default_sub cur Ho2 Hd1) as [-> _]. reflexivity. }
    now rewrite E.
  Qed.

  (* success implies that the request was computable *)
  Theorem sub_computable : forall o, In o Sq -> is_output p o = true /\ sufficient p kw o.
  Proof.
    intros o Ho. destruct sub_facts as [b [_ [Houts _]]]. pose proof (Houts o Ho) as Ho'.
    split; [now apply is_output_sub|]. intros f cur Hf Hcur. unfold needed_top in Hf.
    pose proof (needed_sub_kept _ _ _ Ho' Hf) as Hfk. unfold source_of.
    destruct (aget (bound f) cur) eqn:Eb; [discriminate|]. destruct (aget kw cur) eqn:Ek; [discriminate|].
    destruct (producer p cur) eqn:Ep; [discriminate|]. apply kw_none in Ek.
    destruct (kept_param f cur Hfk Hcur Eb Ek) as [Ho1|[Ho1 [Ho2 [Hd1 Hd2]]]].
    - apply is_output_sub in Ho1. apply is_output_true in Ho1 as [g Hg]. congruence.
    - destruct (default_sub cur Ho2 Hd1) as [_ Hne]. destruct (default_of p cur); [discriminate|congruence].
  Qed.

  (* ---------- exactness when only root arguments are provided ---------- *)
  Lemma kept_reaches_output f : In f p' ->
    exists o h, In o Sq /\ producer p o = Some h /\ gpath (graph_of p) (fid f) (fid h).
  Proof.
    intros Hf. pose proof Hsub as Hs. unfold subpipeline in Hs.
    destruct (mapM (node_of p) Ip) as [ins|e]; cbn in Hs; [|discriminate].
    destruct (mapM (node_of p) Sq) as [outs|e] eqn:Eo; cbn in Hs; [|discriminate].
    set (b := between (graph_of p) ins outs) in *.
    destruct (drop_loop p (filter (fun f => negb (mem_str (fid f) b)) p)) as [q|e] eqn:Ed; cbn in Hs; [|discriminate].
    apply drop_loop_keep in Ed. subst q.
    destruct (negb (forallb (is_output (keep p b)) Sq)) eqn:E1; [discriminate|].
    destruct (forallb _ (root_arg_names (keep p b))) eqn:E2; [|discriminate].
    inversion Hs; subst p'. clear Hs. unfold keep in Hf. apply filter_In in Hf as [Hfp Hb]. apply mem_str_In in Hb.
    unfold b, between, inter_str in Hb. apply filter_In in Hb as [_ Hb]. apply mem_str_In in Hb.
    assert (Hout : forall t, In t outs -> exists o h, In o Sq /\ producer p o = Some h /\ t = fid h).
    { intros t Ht. destruct (mapM_Ok_In _ _ _ Eo t Ht) as [o [Ho Hn]]. exists o.
      apply negb_false_iff in E1. rewrite forallb_forall in E1. specialize (E1 o Ho).
      assert (Hop : is_output p o = true).
      { apply is_output_true in E1 as [h Hh]. apply producer_Some in Hh as [Hh1 Hh2]. unfold keep in Hh1.
        apply filter_In in Hh1 as [Hh1 _]. apply is_output_true. exists h. apply producer_unique; auto. }
      apply is_output_true in Hop as [h Hh]. exists h. unfold node_of in Hn. rewrite Hh in Hn. inversion Hn. auto. }
    apply in_app_iff in Hb as [Hb|Hb].
    - apply in_flat_map in Hb as [t [Ht Hanc]]. destruct (Hout t Ht) as [o [h [H1 [H2 ->]]]].
      exists o, h. repeat split; auto. now apply ancestors_sound.
    - destruct (Hout _ Hb) as [o [h [H1 [H2 E]]]]. exists o, h. repeat split; auto. rewrite E. constructor.
  Qed.

  Hypothesis Hroots_only : forall k, In k Ip -> is_output p k = false.

  Lemma path_needed o : forall x z, gpath (graph_of p) x z ->
    forall f h, In f p -> In h p -> x = fid f -> z = fid h -> In h (needed_top p kw o) -> In f (needed_top p kw o).
  Proof.
    induction 1 as [x|x y z He Hp IH]; intros f h Hf Hh Ex Ez Hn.
    - assert (f = h) by (eapply fid_inj; eauto; congruence). now subst.
    - cbn in He. apply in_flat_map in He as [f' [Hf' He]]. apply in_map_iff in He as [d [E Hd]].
      inversion E; subst d y. clear E. rewrite dedup_In in Hd.
      assert (Hn' : In f' (needed_top p kw o)) by (eapply IH; eauto).
      apply fpreds_In in Hd as [cur [Hcur [Eb [[g [Eg Ed]]|[Eg Ed]]]]].
      + pose proof (producer_Some _ _ _ Eg) as [Hg _].
        assert (g = f) by (eapply fid_inj; eauto; congruence). subst g.
        assert (Ek : aget kw cur = None).
        { apply kw_none. intros Hi. apply Hroots_only in Hi. apply is_output_false in Hi. congruence. }
        unfold needed_top in *. eapply (needed_closed p ls Hwf kw); eauto.
        * apply rk_lt_N. exact Hwf.
        * now apply source_SUp_intro.
      + exfalso. apply (producer_None p cur Eg f Hf). rewrite <- Ed, Ex. apply fid_in_outs.
        apply (wff_outs_ne _ (wf_funcs _ _ Hwf f Hf)).
  Qed.

  Theorem sub_exact_roots f : In f p ->
    (In f p' <-> exists o, In o Sq /\ In f (needed_top p kw o)).
  Proof.
    intros Hf. split.
    - intros Hk. destruct (kept_reaches_output f Hk) as [o [h [Ho [Eh Hp]]]]. exists o. split; [assumption|].
      pose proof (producer_Some _ _ _ Eh) as [Hh _].
      eapply (path_needed o _ _ Hp f h); eauto. unfold needed_top. rewrite (needed_S p kw), Eh. now left.
    - intros [o [Ho Hn]]. destruct sub_facts as [b [_ [Houts _]]]. eapply needed_sub_kept; eauto.
  Qed.
End Sub.

(* ---------- the two refutations (witnesses replayed on the real code, see known_findings.jsonl) ---------- *)
Definition w_nullary : pipeline :=
  [ mkf (s "const") [s "k"] [] [] [] false;
    mkf (s "f") [s "y"] [(s "x", s "x"); (s "k", s "k")] [] [] false ].
Lemma computable_refused_witness :
  wf_pipelineb w_nullary = true /\ computableb w_nullary [s "x"] [s "y"] = true
  /\ all_readb w_nullary [s "x"] [s "y"] = true
  /\ subpipeline w_nullary [s "x"] (Some [s "y"]) = Err ValueError.
Proof. vm_compute. auto. Qed.

Definition w_mixed : pipeline :=
  [ mkf (s "f0") [s "a"] [(s "x", s "x")] [] [] false;
    mkf (s "f3") [s "y"] [(s "x", s "x"); (s "a", s "a")] [] [] false ].
Lemma not_exact_witness :
  wf_pipelineb w_mixed = true /\ computableb w_mixed [s "x"; s "a"] [s "y"] = true
  /\ all_readb w_mixed [s "x"; s "a"] [s "y"] = true
  /\ needed_set w_mixed [s "x"; s "a"] [s "y"] = [s "y"]
  /\ option_map (map fid) (match subpipeline w_mixed [s "x"; s "a"] (Some [s "y"]) with Ok q => Some q | Err _ => None end)
     = Some [s "a"; s "y"].
Proof. vm_compute. auto. Qed.

(* ---------- final forms ---------- *)
Theorem subpipeline_values body pick p Ip Sq p' kw :
  wf_pipeline p -> subpipeline p Ip (Some Sq) = Ok p' -> (forall k, In k (akeys kw) <-> In k Ip) ->
  forall n o, In o Sq -> eval body pick n p' kw o = eval body pick n p kw o.
Proof.
  intros Hwf Hs Hk n o Ho. destruct (wf_pipeline_elim p Hwf) as [ls Hw].
  destruct (sub_facts p Ip Sq p' Hs) as [b [_ [Houts _]]].
  apply (sub_values p ls Hw Ip Sq p' Hs kw Hk). now apply Houts.
Qed.

Theorem subpipeline_keeps_needed p Ip Sq p' kw :
  wf_pipeline p -> subpipeline p Ip (Some Sq) = Ok p' -> (forall k, In k (akeys kw) <-> In k Ip) ->
  forall o f, In o Sq -> In f (needed_top p kw o) -> In f p'.
Proof.
  intros Hwf Hs Hk o f Ho Hf. destruct (wf_pipeline_elim p Hwf) as [ls Hw].
  destruct (sub_facts p Ip Sq p' Hs) as [b [_ [Houts _]]].
  eapply (needed_sub_kept p ls Hw Ip Sq p' Hs kw Hk); eauto.
Qed.

(* success only for computable requests, i.e. an uncomputable request is rejected *)
Theorem uncomputable_rejected p Ip Sq kw :
  wf_pipeline p -> (forall k, In k (akeys kw) <-> In k Ip) ->
  (exists o, In o Sq /\ ~ (is_output p o = true /\ sufficient p kw o)) ->
  exists e, subpipeline p Ip (Some Sq) = Err e.
Proof.
  intros Hwf Hk [o [Ho Hn]]. destruct (subpipeline p Ip (Some Sq)) as [p'|e] eqn:Es; [|eauto].
  exfalso. apply Hn. destruct (wf_pipeline_elim p Hwf) as [ls Hw].
  apply (sub_computable p ls Hw Ip Sq p' Es kw Hk o Ho).
Qed.

Theorem subpipeline_needed_exact_roots p Ip Sq p' kw :
  wf_pipeline p -> subpipeline p Ip (Some Sq) = Ok p' -> (forall k, In k (akeys kw) <-> In k Ip) ->
  (forall k, In k Ip -> is_output p k = false) ->
  forall f, In f p -> (In f p' <-> exists o, In o Sq /\ In f (needed_top p kw o)).
Proof.
  intros Hwf Hs Hk Hr f Hf. destruct (wf_pipeline_elim p Hwf) as [ls Hw].
  apply (sub_exact_roots p ls Hw Ip Sq p' Hs kw Hk Hr f Hf).
Qed.

Theorem subpipeline_needed_exact_refuted :
  exists p Ip Sq p', wf_pipeline p /\ computableb p Ip Sq = true /\ all_readb p Ip Sq = true
    /\ subpipeline p Ip (Some Sq) = Ok p' /\ seteq_str (map fid p') (needed_set p Ip Sq) = false.
Proof.
  exists w_mixed, [s "x"; s "a"], [s "y"].
  destruct (subpipeline w_mixed [s "x"; s "a"] (Some [s "y"])) as [q|e] eqn:E; [|vm_compute in E; discriminate].
  exists q. vm_compute in E. inversion E; subst q. vm_compute. auto.
Qed.

Theorem computable_accepted_refuted :
  exists p Ip Sq, wf_pipeline p /\ computableb p Ip Sq = true /\ all_readb p Ip Sq = true
    /\ subpipeline p Ip (Some Sq) = Err ValueError.
Proof. exists w_nullary, [s "x"], [s "y"]. vm_compute. auto. Qed.
