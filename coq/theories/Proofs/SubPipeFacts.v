(* Facts about Model/SubPipe.v (repaired Pipeline.subpipeline): with output_names the sub-pipeline consists of
   EXACTLY the functions on a dependency path to the requested outputs that are not cut off by the provided
   names; it computes the values of the full pipeline; a request is accepted iff it is computable (up to the
   consistency of dead defaults); Pipeline.map on it calls exactly those functions, each once. *)
From Verif Require Import Base.Prelude Base.StrOrd Base.Graph Model.Pipe Model.SubPipe
                          Proofs.GraphFacts Proofs.PipeFacts Proofs.ArgCombFacts.
From Coq Require Import Permutation.

Lemma mapM_Ok_inv {A B} (f : A -> result B) l ys : mapM f l = Ok ys -> forall x, In x l -> exists y, In y ys /\ f x = Ok y.
Proof.
  revert ys. induction l as [|a l IH]; intros ys H x Hin; [contradiction|]. cbn in H.
  destruct (f a) as [y|e] eqn:Ea; cbn in H; [|discriminate]. destruct (mapM f l) as [l'|e] eqn:El; cbn in H; [|discriminate].
  inversion H; subst ys. destruct Hin as [<-|Hin]; [exists y; split; [now left|assumption]|].
  destruct (IH l' eq_refl x Hin) as [y' [H1 H2]]. exists y'. split; [now right|assumption].
Qed.

Lemma mapM_Ok_In {A B} (f : A -> result B) l ys : mapM f l = Ok ys -> forall y, In y ys -> exists x, In x l /\ f x = Ok y.
Proof.
  revert ys. induction l as [|a l IH]; intros ys H y Hin; cbn in H; [inversion H; subst; contradiction|].
  destruct (f a) as [b|e] eqn:Ea; cbn in H; [|discriminate]. destruct (mapM f l) as [l'|e] eqn:El; cbn in H; [|discriminate].
  inversion H; subst ys. destruct Hin as [<-|Hin]; [exists a; split; [now left|assumption]|].
  destruct (IH l' eq_refl y Hin) as [x [H1 H2]]. exists x. split; [now right|assumption].
Qed.

Lemma mapM_total {A B} (f : A -> result B) l : (forall x, In x l -> exists y, f x = Ok y) -> exists ys, mapM f l = Ok ys.
Proof.
  induction l as [|a l IH]; intros H; cbn; [eauto|]. destruct (H a (or_introl eq_refl)) as [y Hy]. rewrite Hy. cbn.
  destruct IH as [ys Hys]; [intros x Hx; apply H; now right|]. rewrite Hys. cbn. eauto.
Qed.

(* ---------- with_defaults only touches the defaults ---------- *)
Section Upd.
  Variable e : alist.
  Let upd := with_defaults e.

  Lemma find_map_upd (P : pfunc -> bool) q : (forall f, P (upd f) = P f) ->
    find P (map upd q) = option_map upd (find P q).
  Proof.
    intros H. induction q as [|f q IH]; cbn; [reflexivity|]. rewrite H. destruct (P f); [reflexivity|exact IH].
  Qed.

  Lemma producer_upd q o : producer (map upd q) o = option_map upd (producer q o).
  Proof. unfold producer. apply find_map_upd. intros f. reflexivity. Qed.

  Lemma is_output_upd q o : is_output (map upd q) o = is_output q o.
  Proof. unfold is_output. rewrite producer_upd. now destruct (producer q o). Qed.

  Lemma root_arg_names_upd q : root_arg_names (map upd q) = root_arg_names q.
  Proof.
    unfold root_arg_names. f_equal. generalize q at 1 3. intros P.
    induction q as [|g l IHl]; [reflexivity|]. cbn [map flat_map]. f_equal; [|exact IHl].
    change (pnames (upd g)) with (pnames g). change (bound (upd g)) with (bound g).
    apply filter_ext. intros cur. now rewrite is_output_upd.
  Qed.

  Lemma in_map_upd q f' : In f' (map upd q) -> exists f, In f q /\ f' = upd f.
  Proof. intros H. apply in_map_iff in H as [f [E Hf]]. eauto. Qed.
End Upd.

(* ---------- the cut graph ---------- *)
Section Cut.
  Variable p : pipeline.
  Variable ls : list (list str).
  Hypothesis Hwf : wf_P p ls.
  Variable Ip : list str.            (* provided names *)
  Variable kw : alist.
  Hypothesis Hkw : forall k, In k (akeys kw) <-> In k Ip.

  Lemma kw_none cur : aget kw cur = None <-> ~ In cur Ip.
  Proof. rewrite aget_None_iff. now rewrite Hkw. Qed.

  Lemma cut_edge n m : In (n, m) (edges (cut_graph p Ip)) <->
    exists f cur, In f p /\ m = fid f /\ In cur (pnames f) /\ ~ In cur Ip /\ dep_node p f cur = Some n.
  Proof.
    cbn. rewrite in_flat_map. split.
    - intros [f [Hf H]]. apply in_map_iff in H as [d [E Hd]]. inversion E; subst d m. rewrite dedup_In in Hd.
      apply in_flat_map in Hd as [cur [Hcur Hd]]. destruct (mem_str cur Ip) eqn:Em; [contradiction|].
      apply mem_str_not_In in Em. destruct (dep_node p f cur) as [x|] eqn:Ed; [|contradiction].
      destruct Hd as [<-|[]]. exists f, cur. auto.
    - intros [f [cur [Hf [-> [Hcur [Hni Hd]]]]]]. exists f. split; [assumption|]. apply in_map_iff. exists n. split; [reflexivity|].
      rewrite dedup_In. apply in_flat_map. exists cur. split; [assumption|]. apply mem_str_not_In in Hni. rewrite Hni, Hd. now left.
  Qed.

  Lemma dep_node_Some f cur n : dep_node p f cur = Some n ->
    aget (bound f) cur = None /\ ((exists g, producer p cur = Some g /\ n = fid g) \/ (producer p cur = None /\ n = cur)).
  Proof.
    unfold dep_node. destruct (ahas (bound f) cur) eqn:Eb; [discriminate|]. apply ahas_false_iff in Eb.
    destruct (producer p cur) as [g|] eqn:Eg; intros H; inversion H; subst; eauto.
  Qed.

  Lemma fid_is_output f : In f p -> is_output p (fid f) = true.
  Proof.
    intros Hf. apply is_output_true. exists f. apply producer_unique; auto; [apply (wf_outs_nd _ _ Hwf)|].
    apply fid_in_outs. apply (wff_outs_ne _ (wf_funcs _ _ Hwf f Hf)).
  Qed.

  Lemma wf_cut_graph : wf_graph (cut_graph p Ip).
  Proof.
    intros a b He. apply cut_edge in He as [f [cur [Hf [-> [Hcur [Hni Hd]]]]]]. cbn. split.
    - apply dep_node_Some in Hd as [Hb [[g [Eg ->]]|[Eg ->]]]; apply in_app_iff.
      + left. apply in_map. now apply producer_Some in Eg.
      + right. unfold root_arg_names. apply dedup_In, in_flat_map. exists f. split; [assumption|]. apply filter_In.
        split; [assumption|]. apply ahas_false_iff in Hb. apply is_output_false in Eg. now rewrite Hb, Eg.
    - apply in_app_iff. left. now apply in_map.
  Qed.

  (* a path in the cut graph into a needed function comes from a needed function *)
  Lemma path_needed_cut o : forall x z, gpath (cut_graph p Ip) x z ->
    forall f h, In f p -> In h p -> x = fid f -> z = fid h -> In h (needed_top p kw o) -> In f (needed_top p kw o).
  Proof.
    induction 1 as [x|x y z He Hp IH]; intros f h Hf Hh Ex Ez Hn.
    - assert (f = h) by (eapply (fid_inj p ls Hwf); eauto; congruence). now subst.
    - apply cut_edge in He as [f' [cur [Hf' [-> [Hcur [Hni Hd]]]]]].
      assert (Hn' : In f' (needed_top p kw o)) by (eapply IH; eauto).
      apply dep_node_Some in Hd as [Hb [[g [Eg Ed]]|[Eg Ed]]].
      + pose proof (producer_Some _ _ _ Eg) as [Hg _].
        assert (g = f) by (eapply (fid_inj p ls Hwf); eauto; congruence). subst g.
        unfold needed_top in *. eapply (needed_closed p ls Hwf kw); eauto.
        * apply rk_lt_N. exact Hwf.
        * apply source_SUp_intro; auto. now apply kw_none.
      + exfalso. pose proof (fid_is_output f Hf) as Ho. rewrite <- Ex, Ed in Ho. apply is_output_false in Eg. congruence.
  Qed.

  (* conversely a needed function reaches the producer of the requested output *)
  Lemma needed_path : forall n o f h, In f (needed n p kw o) -> producer p o = Some h ->
    gpath (cut_graph p Ip) (fid f) (fid h).
  Proof.
    induction n as [|n IH]; intros o f h Hf Eh; [contradiction|]. rewrite (needed_S p kw), Eh in Hf.
    destruct Hf as [<-|Hf]; [constructor|]. apply in_flat_map in Hf as [cur [Hcur Hf]].
    destruct (source_of p kw h cur) as [| |g| |] eqn:Es; try contradiction.
    apply (source_SUp p kw) in Es as [Eb [Ek Eg]]. eapply gpath_snoc; [eapply IH; eauto|].
    apply cut_edge. exists h, cur. pose proof (producer_Some _ _ _ Eh) as [Hh _]. repeat split; auto.
    - now apply kw_none.
    - unfold dep_node. apply ahas_false_iff in Eb. now rewrite Eb, Eg.
  Qed.

  (* the required set = the needed functions *)
  Theorem required_iff_needed outs Sq f :
    (forall t, In t outs <-> exists o h, In o Sq /\ producer p o = Some h /\ t = fid h) ->
    In f p ->
    (In (fid f) (required p Ip outs) <-> exists o, In o Sq /\ In f (needed_top p kw o)).
  Proof.
    intros Houts Hf. unfold required. rewrite in_app_iff. split.
    - intros [H|H].
      + apply in_flat_map in H as [t [Ht Hanc]]. apply Houts in Ht as [o [h [Ho [Eh ->]]]]. exists o. split; [assumption|].
        pose proof (producer_Some _ _ _ Eh) as [Hh _]. apply ancestors_sound in Hanc.
        eapply (path_needed_cut o _ _ Hanc f h); eauto. unfold needed_top. rewrite (needed_S p kw), Eh. now left.
      + apply Houts in H as [o [h [Ho [Eh E]]]]. exists o. split; [assumption|].
        pose proof (producer_Some _ _ _ Eh) as [Hh _]. assert (f = h) by (eapply (fid_inj p ls Hwf); eauto). subst h.
        unfold needed_top. rewrite (needed_S p kw), Eh. now left.
    - intros [o [Ho Hn]]. assert (Hop : exists h, producer p o = Some h).
      { unfold needed_top in Hn. rewrite (needed_S p kw) in Hn. destruct (producer p o); [eauto|contradiction]. }
      destruct Hop as [h Eh]. pose proof (needed_path _ o f h Hn Eh) as Hp.
      assert (Ht : In (fid h) outs) by (apply Houts; eauto).
      destruct (str_eq_dec (fid f) (fid h)) as [E|Hne]; [right; now rewrite E|].
      left. apply in_flat_map. exists (fid h). split; [assumption|]. apply ancestors_complete; auto. apply wf_cut_graph.
  Qed.
End Cut.

(* ---------- a successful subpipeline(I, S) ---------- *)
Section Sub.
  Variable p : pipeline.
  Variable ls : list (list str).
  Hypothesis Hwf : wf_P p ls.
  Variable Ip : list str.
  Variable Sq : list str.
  Variable p' : pipeline.
  Hypothesis Hsub : subpipeline p Ip (Some Sq) = Ok p'.
  Variable kw : alist.
  Hypothesis Hkw : forall k, In k (akeys kw) <-> In k Ip.

  Let Hnd := wf_outs_nd _ _ Hwf.

  Definition kept_of (outs : list str) : pipeline := keep p (required p Ip outs).

  (* what success means *)
  Lemma sub_facts : exists outs,
    mapM (node_of p) Sq = Ok outs
    /\ consistent_defaults (kept_of outs) = true
    /\ p' = map (with_defaults (lost_defaults p (kept_of outs))) (kept_of outs)
    /\ (forall o, In o Sq -> is_output p' o = true)
    /\ (forall r, In r (root_arg_names p') ->
          (In r (akeys (pdefaults p')) /\ In r (akeys (pdefaults p))) \/ In r Ip).
  Proof.
    unfold subpipeline in Hsub. destruct (mapM (node_of p) Ip) as [ins|e]; cbn in Hsub; [|discriminate].
    destruct (mapM (node_of p) Sq) as [outs|e]; cbn in Hsub; [|discriminate]. exists outs. split; [reflexivity|].
    fold (kept_of outs) in Hsub.
    destruct (consistent_defaults (kept_of outs)) eqn:Ec; cbn in Hsub; [|discriminate]. split; [reflexivity|].
    set (q' := map (with_defaults (lost_defaults p (kept_of outs))) (kept_of outs)) in *.
    destruct (negb (forallb (is_output q') Sq)) eqn:E1; [discriminate|].
    destruct (forallb _ (root_arg_names q')) eqn:E2; [|discriminate].
    inversion Hsub; subst p'. split; [reflexivity|]. split.
    - apply negb_false_iff in E1. rewrite forallb_forall in E1. exact E1.
    - intros r Hr. rewrite forallb_forall in E2. specialize (E2 r Hr). apply orb_true_iff in E2 as [E2|E2].
      + left. apply mem_str_In in E2. unfold inter_str in E2. apply filter_In in E2 as [H1 H2]. apply mem_str_In in H2. auto.
      + right. now apply mem_str_In.
  Qed.

  (* the output nodes are the producers of the requested outputs *)
  Lemma outs_char outs : mapM (node_of p) Sq = Ok outs -> (forall o, In o Sq -> is_output p o = true) ->
    forall t, In t outs <-> exists o h, In o Sq /\ producer p o = Some h /\ t = fid h.
  Proof.
    intros Hm Ho t. split.
    - intros Ht. destruct (mapM_Ok_In _ _ _ Hm t Ht) as [o [Hos Hn]]. apply Ho in Hos as Hop.
      apply is_output_true in Hop as [h Eh]. unfold node_of in Hn. rewrite Eh in Hn. inversion Hn. eauto.
    - intros [o [h [Hos [Eh ->]]]]. destruct (mapM_Ok_inv _ _ _ Hm o Hos) as [y [Hy Hn]]. unfold node_of in Hn.
      rewrite Eh in Hn. inversion Hn; subst. assumption.
  Qed.

  Section WithOuts.
    Variable outs : list str.
    Hypothesis Hm : mapM (node_of p) Sq = Ok outs.
    Hypothesis Hp' : p' = map (with_defaults (lost_defaults p (kept_of outs))) (kept_of outs).
    Hypothesis Houtp' : forall o, In o Sq -> is_output p' o = true.
    Hypothesis Hroots : forall r, In r (root_arg_names p') ->
          (In r (akeys (pdefaults p')) /\ In r (akeys (pdefaults p))) \/ In r Ip.

    Let q := kept_of outs.
    Let upd := with_defaults (lost_defaults p q).

    Lemma q_in_p f : In f q -> In f p.
    Proof. unfold q, kept_of, keep. intros H. now apply filter_In in H. Qed.

    Lemma is_output_p'_q o : is_output p' o = is_output q o.
    Proof. rewrite Hp'. apply is_output_upd. Qed.

    Lemma producer_q_p o f : producer q o = Some f -> producer p o = Some f.
    Proof. intros H. apply producer_Some in H as [H1 H2]. apply producer_unique; auto. now apply q_in_p. Qed.

    Lemma is_output_q_p o : is_output q o = true -> is_output p o = true.
    Proof. intros H. apply is_output_true in H as [f Hf]. apply is_output_true. exists f. now apply producer_q_p. Qed.

    Lemma S_outputs o : In o Sq -> is_output p o = true.
    Proof. intros Ho. apply is_output_q_p. rewrite <- is_output_p'_q. now apply Houtp'. Qed.

    (* EXACTNESS: the kept functions are exactly the needed ones *)
    Theorem kept_iff_needed f : In f p -> (In f q <-> exists o, In o Sq /\ In f (needed_top p kw o)).
    Proof.
      intros Hf. unfold q, kept_of, keep. rewrite filter_In, mem_str_In.
      rewrite (required_iff_needed p ls Hwf Ip kw Hkw outs Sq f (outs_char outs Hm S_outputs) Hf). tauto.
    Qed.

    (* an unbound parameter of a kept function that is not provided: its producer is kept too, or it is no
       output at all and has the same default in both pipelines *)
    Lemma kept_param g cur : In g q -> In cur (pnames g) -> aget (bound g) cur = None -> ~ In cur Ip ->
      (is_output q cur = true) \/
      (is_output q cur = false /\ is_output p cur = false /\ In cur (akeys (pdefaults p')) /\ In cur (akeys (pdefaults p))).
    Proof.
      intros Hg Hcur Hb Hni. destruct (is_output q cur) eqn:Eo; [now left|right]. split; [reflexivity|].
      assert (Hr : In cur (root_arg_names p')).
      { rewrite Hp', root_arg_names_upd. unfold root_arg_names. apply dedup_In, in_flat_map. exists g. split; [assumption|].
        apply filter_In. split; [assumption|]. apply ahas_false_iff in Hb. fold q. now rewrite Hb, Eo. }
      destruct (Hroots cur Hr) as [[H1 H2]|H]; [|contradiction]. split; [|auto].
      unfold pdefaults, akeys in H2. apply in_map_iff in H2 as [[k v] [Ek H2]]. cbn in Ek. subst k.
      apply in_flat_map in H2 as [g0 [_ H2]]. apply filter_In in H2 as [_ H2]. cbn in H2.
      apply andb_true_iff in H2 as [_ H2]. now apply negb_true_iff in H2.
    Qed.

    (* every default of the sub-pipeline for a name that is no output of the full pipeline is its default there *)
    Lemma pdefaults_p'_sound cur v : is_output p cur = false -> In (cur, v) (pdefaults p') -> default_of p cur = Some v.
    Proof.
      intros Ho Hin. rewrite Hp' in Hin. unfold pdefaults in Hin. apply in_flat_map in Hin as [g' [Hg' Hin]].
      apply in_map_upd in Hg' as [g [Hg ->]]. apply filter_In in Hin as [Hin Hf]. cbn in Hin, Hf.
      apply andb_true_iff in Hf as [Hnb _]. apply in_app_iff in Hin as [Hin|Hin].
      - apply (wf_defaults _ _ Hwf). unfold pdefaults. apply in_flat_map. exists g. split; [now apply q_in_p|].
        apply filter_In. split; [assumption|]. cbn. now rewrite Hnb, Ho.
      - apply filter_In in Hin as [Hin _]. unfold lost_defaults in Hin. apply in_flat_map in Hin as [r [_ Hin]].
        destruct (pdefault p r) as [d|] eqn:Ed; [|contradiction]. destruct (mem_str r (akeys (pdefaults (kept_of outs)))); [contradiction|].
        destruct Hin as [E|[]]. inversion E; subst. now rewrite <- (pdefault_eq p ls Hwf).
    Qed.

    Lemma default_p' cur : is_output p cur = false -> In cur (akeys (pdefaults p')) ->
      default_of p' cur = default_of p cur /\ default_of p cur <> None.
    Proof.
      intros Ho Hk. unfold default_of at 1. destruct (aget (pdefaults p') cur) as [v|] eqn:E.
      - apply aget_Some_In in E. rewrite (pdefaults_p'_sound cur v Ho E). split; [reflexivity|discriminate].
      - apply aget_None_iff in E. contradiction.
    Qed.

    (* VALUES: the sub-pipeline computes the values of the full pipeline *)
    Theorem sub_values body pick : forall n o, is_output p' o = true ->
      eval body pick n p' kw o = eval body pick n p kw o.
    Proof.
      induction n as [|n IH]; intros o Ho; [reflexivity|]. cbn [eval].
      rewrite is_output_p'_q in Ho. apply is_output_true in Ho as [g Eg].
      assert (Eg' : producer p' o = Some (upd g)) by (rewrite Hp', producer_upd; fold q; now rewrite Eg).
      rewrite Eg', (producer_q_p _ _ Eg). pose proof (producer_Some _ _ _ Eg) as [Hg _].
      change (fname (upd g)) with (fname g). change (route pick (upd g) o) with (route pick g o).
      assert (E : args_with (eval body pick n p' kw) p' kw (upd g) = args_with (eval body pick n p kw) p kw g).
      { unfold args_with. change (params (upd g)) with (params g). apply mapM_ext_in. intros [cur orig] Hin. cbn [fst snd].
        assert (Hcur : In cur (pnames g)) by (apply in_map_iff; now exists (cur, orig)).
        enough (arg_val (eval body pick n p' kw) p' kw (upd g) cur = arg_val (eval body pick n p kw) p kw g cur) as -> by reflexivity.
        unfold arg_val. change (bound (upd g)) with (bound g).
        destruct (aget (bound g) cur) eqn:Eb; [reflexivity|]. destruct (aget kw cur) eqn:Ek; [reflexivity|].
        apply (kw_none Ip kw Hkw) in Ek. destruct (kept_param g cur Hg Hcur Eb Ek) as [Ho'|[Ho1 [Ho2 [Hd1 Hd2]]]].
        - rewrite is_output_p'_q, Ho', (is_output_q_p _ Ho'). apply IH. now rewrite is_output_p'_q.
        - rewrite is_output_p'_q, Ho1, Ho2. destruct (default_p' cur Ho2 Hd1) as [-> _]. reflexivity. }
      now rewrite E.
    Qed.

    (* success implies that the request was computable *)
    Theorem sub_computable : forall o, In o Sq -> is_output p o = true /\ sufficient p kw o.
    Proof.
      intros o Ho. split; [now apply S_outputs|]. intros f cur Hf Hcur.
      assert (Hfp : In f p) by (apply (needed_in_p p kw (S (length p)) o f Hf)).
      assert (Hfq : In f q) by (apply kept_iff_needed; eauto). unfold source_of.
      destruct (aget (bound f) cur) eqn:Eb; [discriminate|]. destruct (aget kw cur) eqn:Ek; [discriminate|].
      destruct (producer p cur) eqn:Ep; [discriminate|]. apply (kw_none Ip kw Hkw) in Ek.
      destruct (kept_param f cur Hfq Hcur Eb Ek) as [Ho1|[Ho1 [Ho2 [Hd1 Hd2]]]].
      - apply is_output_q_p in Ho1. apply is_output_true in Ho1 as [g Hg]. congruence.
      - destruct (default_p' cur Ho2 Hd1) as [_ Hne]. destruct (default_of p cur); [discriminate|congruence].
    Qed.
  End WithOuts.
End Sub.

(* ---------- acceptance: every computable request is accepted ---------- *)
(* the needed functions agree on the defaults of every name that no needed function produces.  (For a name that
   is not an output of p this is part of wf_pipeline; it only constrains PROVIDED intermediate names whose
   producer is cut off: there Pipeline._validate refuses the sub-pipeline, finding c11-inconsistent-dead-defaults.) *)
Definition dead_defaults_agree (p : pipeline) (kw : alist) (Sq : list str) : Prop :=
  forall f g cur v w o1 o2, In o1 Sq -> In o2 Sq -> In f (needed_top p kw o1) -> In g (needed_top p kw o2) ->
    In (cur, v) (dflt f) -> In (cur, w) (dflt g) -> ahas (bound f) cur = false -> ahas (bound g) cur = false ->
    is_output p cur = true ->
    (forall h o, In o Sq -> In h (needed_top p kw o) -> ~ In cur (outs h)) -> v = w.

Lemma in_is_output q h k : In h q -> In k (outs h) -> is_output q k = true.
Proof.
  intros Hh Hk. unfold is_output, producer. destruct (find (fun f => mem_str k (outs f)) q) eqn:E; [reflexivity|].
  eapply find_none in E; eauto. cbn in E. apply mem_str_In in Hk. congruence.
Qed.

Section Accept.
  Variable p : pipeline.
  Variable ls : list (list str).
  Hypothesis Hwf : wf_P p ls.
  Variable Ip : list str.
  Variable Sq : list str.
  Variable kw : alist.
  Hypothesis Hkw : forall k, In k (akeys kw) <-> In k Ip.
  Hypothesis HI : forall k, In k Ip -> is_output p k = true \/ In k (root_arg_names p).
  Hypothesis HS : forall o, In o Sq -> is_output p o = true /\ sufficient p kw o.
  Hypothesis HD : dead_defaults_agree p kw Sq.

  Lemma node_of_total k : is_output p k = true \/ In k (root_arg_names p) -> exists n, node_of p k = Ok n.
  Proof.
    unfold node_of. intros [H|H].
    - apply is_output_true in H as [f ->]. eauto.
    - destruct (producer p k); [eauto|]. apply mem_str_In in H. rewrite H. eauto.
  Qed.

  Variable outs : list str.
  Hypothesis Hm : mapM (node_of p) Sq = Ok outs.
  Let q := kept_of p Ip outs.
  Let upd := with_defaults (lost_defaults p q).
  Let p' := map upd q.

  Lemma acc_q_in_p f : In f q -> In f p.
  Proof. unfold q, kept_of, keep. intros H. now apply filter_In in H. Qed.

  Lemma acc_kept_iff f : In f p -> (In f q <-> exists o, In o Sq /\ In f (needed_top p kw o)).
  Proof.
    intros Hf. unfold q, kept_of, keep. rewrite filter_In, mem_str_In.
    rewrite (required_iff_needed p ls Hwf Ip kw Hkw outs Sq f (outs_char p Sq outs Hm (fun o Ho => proj1 (HS o Ho))) Hf). tauto.
  Qed.

  Lemma acc_consistent : consistent_defaults q = true.
  Proof.
    unfold consistent_defaults. apply forallb_forall. intros [k v] Hin. cbn [fst snd].
    destruct (aget (pdefaults q) k) as [v'|] eqn:E.
    2:{ apply aget_None_iff in E. exfalso. apply E. unfold akeys. apply in_map_iff. now exists (k, v). }
    apply aget_Some_In in E. apply str_eqb_eq.
    assert (Hsrc : forall k v, In (k, v) (pdefaults q) ->
              exists g, In g q /\ In (k, v) (dflt g) /\ ahas (bound g) k = false /\ is_output q k = false).
    { intros k0 v0 H. unfold pdefaults in H. apply in_flat_map in H as [g [Hg H]]. apply filter_In in H as [H1 H2].
      cbn in H2. apply andb_true_iff in H2 as [H2 H3]. apply negb_true_iff in H2, H3. eauto. }
    destruct (Hsrc _ _ Hin) as [g [Hg [Hdg [Hbg Hoq]]]]. destruct (Hsrc _ _ E) as [g' [Hg' [Hdg' [Hbg' _]]]].
    pose proof (acc_q_in_p _ Hg) as Hgp. pose proof (acc_q_in_p _ Hg') as Hgp'.
    destruct (is_output p k) eqn:Eop.
    - apply (acc_kept_iff g Hgp) in Hg as [o1 [Ho1 Hn1]]. apply (acc_kept_iff g' Hgp') in Hg' as [o2 [Ho2 Hn2]].
      apply (HD g' g k v' v o2 o1); auto. intros h o Ho Hh Hk.
      assert (Hhq : In h q) by (apply acc_kept_iff; [apply (needed_in_p p kw (S (length p)) o h Hh)|eauto]).
      rewrite (in_is_output q h k Hhq Hk) in Hoq. discriminate.
    - assert (H1 : In (k, v) (pdefaults p)).
      { unfold pdefaults. apply in_flat_map. exists g. split; [assumption|]. apply filter_In. split; [assumption|]. cbn. now rewrite Hbg, Eop. }
      assert (H2 : In (k, v') (pdefaults p)).
      { unfold pdefaults. apply in_flat_map. exists g'. split; [assumption|]. apply filter_In. split; [assumption|]. cbn. now rewrite Hbg', Eop. }
      apply (wf_defaults _ _ Hwf) in H1, H2. congruence.
  Qed.

  Lemma acc_outputs o : In o Sq -> is_output p' o = true.
  Proof.
    intros Ho. unfold p', upd. rewrite is_output_upd. destruct (HS o Ho) as [Hop _]. apply is_output_true in Hop as [h Eh].
    pose proof (producer_Some _ _ _ Eh) as [Hh Hoh]. apply (in_is_output q h o); [|assumption].
    apply acc_kept_iff; [assumption|]. exists o. split; [assumption|]. unfold needed_top. rewrite (needed_S p kw), Eh. now left.
  Qed.

  Lemma acc_roots r : In r (root_arg_names p') -> (In r (akeys (pdefaults p')) /\ In r (akeys (pdefaults p))) \/ In r Ip.
  Proof.
    intros Hr. unfold p', upd in Hr. rewrite root_arg_names_upd in Hr. pose proof Hr as Hr'. unfold root_arg_names in Hr'.
    apply dedup_In, in_flat_map in Hr'. destruct Hr' as [g [Hg Hr']]. apply filter_In in Hr' as [Hcur Hc].
    apply andb_true_iff in Hc as [Hb Hoq]. apply negb_true_iff in Hb, Hoq.
    destruct (in_dec str_eq_dec r Ip) as [Hi|Hni]; [now right|left].
    pose proof (acc_q_in_p _ Hg) as Hgp. pose proof Hg as Hgq. apply (acc_kept_iff g Hgp) in Hg as [o [Ho Hn]].
    destruct (HS o Ho) as [_ Hsuf]. specialize (Hsuf g r Hn Hcur). unfold source_of in Hsuf.
    pose proof Hb as Hb'. apply ahas_false_iff in Hb'. rewrite Hb' in Hsuf.
    assert (Ek : aget kw r = None) by now apply (kw_none Ip kw Hkw). rewrite Ek in Hsuf.
    destruct (producer p r) as [h|] eqn:Eh.
    { exfalso. pose proof (producer_Some _ _ _ Eh) as [Hh Hrh].
      assert (Hhn : In h (needed_top p kw o)).
      { unfold needed_top in *. eapply (needed_closed p ls Hwf kw); eauto; [apply rk_lt_N; exact Hwf|].
        apply source_SUp_intro; auto. }
      assert (Hhq : In h q) by (apply acc_kept_iff; eauto). rewrite (in_is_output q h r Hhq Hrh) in Hoq. discriminate. }
    destruct (default_of p r) as [v|] eqn:Ed; [|congruence]. clear Hsuf.
    assert (Hkp : In r (akeys (pdefaults p))).
    { unfold default_of in Ed. apply aget_Some_In in Ed. unfold akeys. apply in_map_iff. now exists (r, v). }
    split; [|assumption].
    assert (Hop' : is_output p' r = false) by (unfold p', upd; now rewrite is_output_upd).
    destruct (in_dec str_eq_dec r (akeys (pdefaults q))) as [Hq|Hnq].
    - unfold akeys in Hq. apply in_map_iff in Hq as [[k w] [Ekk Hq]]. cbn in Ekk. subst k.
      unfold pdefaults in Hq. apply in_flat_map in Hq as [g0 [Hg0 Hq]]. apply filter_In in Hq as [Hq1 Hq2]. cbn in Hq2.
      apply andb_true_iff in Hq2 as [Hq2 _].
      unfold akeys. apply in_map_iff. exists (r, w). split; [reflexivity|]. unfold pdefaults. apply in_flat_map.
      exists (upd g0). split; [unfold p'; now apply in_map|]. apply filter_In. split.
      + unfold upd, with_defaults. cbn. apply in_app_iff. now left.
      + cbn [fst]. change (bound (upd g0)) with (bound g0). now rewrite Hq2, Hop'.
    - unfold akeys. apply in_map_iff. exists (r, v). split; [reflexivity|]. unfold pdefaults. apply in_flat_map.
      exists (upd g). split; [unfold p'; now apply in_map|]. apply filter_In. split.
      + unfold upd, with_defaults. cbn. apply in_app_iff. right. apply filter_In. split.
        * unfold lost_defaults. apply in_flat_map. exists r. split; [exact Hr|].
          rewrite (pdefault_eq p ls Hwf), Ed. destruct (mem_str r (akeys (pdefaults q))) eqn:Em; [|now left].
          apply mem_str_In in Em. contradiction.
        * cbn [fst]. apply mem_str_In in Hcur. now rewrite Hcur, Hb.
      + cbn [fst]. change (bound (upd g)) with (bound g). now rewrite Hb, Hop'.
  Qed.

  Theorem acc_accepted : subpipeline p Ip (Some Sq) = Ok p'.
  Proof.
    unfold subpipeline. destruct (mapM_total (node_of p) Ip) as [ins Hins]; [intros k Hk; apply node_of_total; auto|].
    rewrite Hins, Hm. cbn [bind]. fold (kept_of p Ip outs). fold q. rewrite acc_consistent. cbn [negb]. fold upd. fold p'.
    assert (E1 : forallb (is_output p') Sq = true) by (apply forallb_forall; exact acc_outputs). rewrite E1. cbn [negb].
    assert (E2 : forallb (fun r => mem_str r (inter_str (akeys (pdefaults p')) (akeys (pdefaults p))) || mem_str r Ip)
                         (root_arg_names p') = true).
    { apply forallb_forall. intros r Hr. apply orb_true_iff. destruct (acc_roots r Hr) as [[H1 H2]|H].
      - left. apply mem_str_In. unfold inter_str. apply filter_In. split; [assumption|]. now apply mem_str_In.
      - right. now apply mem_str_In. }
    now rewrite E2.
  Qed.
End Accept.

Theorem computable_accepted_P p ls Ip Sq kw : wf_P p ls -> (forall k, In k (akeys kw) <-> In k Ip) ->
  (forall k, In k Ip -> is_output p k = true \/ In k (root_arg_names p)) ->
  (forall o, In o Sq -> is_output p o = true /\ sufficient p kw o) ->
  dead_defaults_agree p kw Sq ->
  exists p', subpipeline p Ip (Some Sq) = Ok p'.
Proof.
  intros Hwf Hkw HI HS HD. destruct (mapM_total (node_of p) Sq) as [outs Hm].
  { intros o Ho. apply node_of_total. left. now apply HS. }
  eexists. eapply (acc_accepted p ls Hwf Ip Sq kw Hkw HI HS HD outs Hm).
Qed.

(* ====================================================================================================
   Pipeline.map on the sub-pipeline (scalar case): every kept function is called once and the results are
   the values of the full pipeline.
   ==================================================================================================== *)
Lemma mapM_Ok_transfer {A B} (F G : A -> result B) l ys :
  (forall x y, In x l -> F x = Ok y -> G x = Ok y) -> mapM F l = Ok ys -> mapM G l = Ok ys.
Proof.
  revert ys. induction l as [|a l IH]; intros ys H HF; cbn in *; [assumption|].
  destruct (F a) as [b|e] eqn:Ea; cbn in HF; [|discriminate]. rewrite (H a b (or_introl eq_refl) Ea). cbn.
  destruct (mapM F l) as [l'|e] eqn:El; cbn in HF; [|discriminate]. rewrite (IH l'); [assumption| |reflexivity].
  intros x y Hx. apply H. now right.
Qed.

Lemma aget_fold_aset (h : str -> str) : forall l st k,
  aget (fold_left (fun st0 o => aset st0 o (h o)) l st) k = if mem_str k l then Some (h k) else aget st k.
Proof.
  induction l as [|x l IH]; intros st k; cbn; [reflexivity|]. rewrite IH.
  destruct (str_eqb k x) eqn:E; cbn.
  - apply str_eqb_eq in E. subst x. destruct (mem_str k l); [reflexivity|apply aget_aset_same].
  - apply str_eqb_neq in E. destruct (mem_str k l); [reflexivity|]. apply aget_aset_other. congruence.
Qed.

Lemma NoDup_map_inj_in' {A B} (f : A -> B) l :
  (forall x y, In x l -> In y l -> f x = f y -> x = y) -> NoDup l -> NoDup (map f l).
Proof.
  induction l as [|a l IH]; intros Hinj Hnd; cbn; [constructor|]. inversion Hnd; subst. constructor.
  - intros Hin. apply in_map_iff in Hin as [b [E Hb]]. assert (b = a) by (apply Hinj; [now right|now left|assumption]).
    subst b. contradiction.
  - apply IH; auto. intros x y Hx Hy. apply Hinj; now right.
Qed.

Section MapRun.
  Variable body : str -> alist -> result str.
  Variable pick : str -> str -> str.
  Variable p : pipeline.
  Variable ls : list (list str).
  Hypothesis Hwf : wf_P p ls.
  Variable inputs : alist.
  Variable Sq : list str.
  Variable p' : pipeline.
  Hypothesis Hsub : subpipeline p (akeys inputs) (Some Sq) = Ok p'.
  Variable outs : list str.
  Hypothesis Hm : mapM (node_of p) Sq = Ok outs.
  Hypothesis Hp' : p' = map (with_defaults (lost_defaults p (kept_of p (akeys inputs) outs))) (kept_of p (akeys inputs) outs).
  Hypothesis Houtp' : forall o, In o Sq -> is_output p' o = true.
  Hypothesis Hroots : forall r, In r (root_arg_names p') ->
          (In r (akeys (pdefaults p')) /\ In r (akeys (pdefaults p))) \/ In r (akeys inputs).

  Let q := kept_of p (akeys inputs) outs.
  Let upd := with_defaults (lost_defaults p q).

  Lemma mr_p'_inv f' : In f' p' -> exists g, In g q /\ In g p /\ f' = upd g.
  Proof.
    intros H. rewrite Hp' in H. apply in_map_upd in H as [g [Hg ->]]. exists g. split; [assumption|].
    split; [now apply (q_in_p p (akeys inputs) outs)|reflexivity].
  Qed.
  Lemma mr_p'_intro g : In g q -> In (upd g) p'.
  Proof. intros H. rewrite Hp'. now apply in_map. Qed.

  Lemma pdefault_sub cur d : is_output p cur = false -> pdefault p' cur = Some d -> default_of p cur = Some d.
  Proof.
    intros Ho H. unfold pdefault in H. apply aget_Some_In in H. apply in_rev in H.
    eapply (pdefaults_p'_sound p ls Hwf (akeys inputs) Sq p' Hsub outs Hp' Houtp' Hroots); eauto.
  Qed.

  Definition StoreOK (store : alist) : Prop :=
    forall o v, aget store o = Some v -> eval_top body pick p inputs o = Ok v.

  Lemma map_args_spec g store args : In g q -> StoreOK store ->
    map_args p' inputs store (upd g) = Ok args -> eval_args body pick p inputs g = Ok args.
  Proof.
    intros Hg Hst. unfold map_args, eval_args, args_with. change (params (upd g)) with (params g).
    apply mapM_Ok_transfer. intros [cur orig] y Hin. cbn [fst snd].
    assert (Hcur : In cur (pnames g)) by (apply in_map_iff; now exists (cur, orig)).
    assert (Hgp : In g p) by now apply (q_in_p p (akeys inputs) outs).
    unfold arg_val. change (bound (upd g)) with (bound g).
    destruct (aget (bound g) cur) eqn:Eb; [auto|]. destruct (aget inputs cur) eqn:Ek; [auto|].
    assert (Hni : ~ In cur (akeys inputs)) by now apply aget_None_iff.
    rewrite (is_output_p'_q p (akeys inputs) p' outs Hp').
    destruct (kept_param p (akeys inputs) p' outs Hp' Hroots g cur Hg Hcur Eb Hni) as [Ho'|[Ho1 [Ho2 _]]].
    - rewrite Ho'. pose proof (is_output_q_p p ls Hwf _ _ cur Ho') as Hop. rewrite Hop.
      destruct (aget store cur) as [v|] eqn:Es; cbn; [|discriminate]. intros E. inversion E; subst y.
      apply Hst in Es. apply is_output_true in Hop as [h Eh].
      assert (Hev : eval body pick (length p) p inputs cur = eval_top body pick p inputs cur).
      { unfold eval_top. apply (eval_fuel body pick p inputs ls Hwf); [|apply rk_lt_N; exact Hwf].
        rewrite (rk_producer p ls _ _ Eh). rewrite <- ahas_false_iff in Eb.
        pose proof (wf_rank_edge _ _ Hwf g h cur Hgp Hcur Eb Eh). pose proof (wf_rank_lt _ _ Hwf g Hgp). lia. }
      now rewrite Hev, Es.
    - fold q. fold q in Ho1. rewrite Ho1, Ho2. destruct (pdefault p' cur) as [d|] eqn:Ed; cbn; [|discriminate].
      intros E. inversion E; subst y. now rewrite (pdefault_sub cur d Ho2 Ed).
  Qed.

  Definition funcs_of (l : list str) : list pfunc :=
    flat_map (fun n => match node_func p' n with Some f => [f] | None => [] end) l.

  Record MInv (acc : alist * list call) (done : list str) : Prop := {
    mi_store : StoreOK (fst acc);
    mi_outs : forall f o, In f (funcs_of done) -> In o (Pipe.outs f) -> ahas (fst acc) o = true;
    mi_log : map fst (snd acc) = map fname (funcs_of done);
  }.

  Lemma fold_err l e : fold_left (map_step body pick p' inputs) l (Err e) = Err e.
  Proof. induction l; cbn; auto. Qed.

  Lemma funcs_of_in_p' l f : In f (funcs_of l) -> In f p' /\ In (fid f) l.
  Proof.
    unfold funcs_of. intros H. apply in_flat_map in H as [n [Hn H]]. destruct (node_func p' n) as [g|] eqn:E; [|contradiction].
    destruct H as [<-|[]]. apply node_func_Some in E as [H1 H2]. split; [assumption|]. now rewrite H2.
  Qed.

  Lemma map_fold_spec : forall l done acc acc', MInv acc done ->
    fold_left (map_step body pick p' inputs) l (Ok acc) = Ok acc' -> MInv acc' (done ++ l).
  Proof.
    induction l as [|n l IH]; intros done acc acc' HI H; cbn in H.
    - inversion H; subst. now rewrite app_nil_r.
    - destruct acc as [store lg]. cbn [bind] in H.
      replace (done ++ n :: l) with ((done ++ [n]) ++ l) by now rewrite <- app_assoc.
      destruct (node_func p' n) as [f|] eqn:En.
      + destruct (map_args p' inputs store f) as [args|e] eqn:Ea; cbn [bind] in H; [|now rewrite fold_err in H].
        destruct (body (fname f) args) as [r|e] eqn:Eb; cbn [bind] in H; [|now rewrite fold_err in H].
        apply (IH (done ++ [n])) in H; [assumption|].
        pose proof (node_func_Some _ _ _ En) as [Hf Hfid].
        destruct (mr_p'_inv f Hf) as [g [Hgq [Hgp Efg]]].
        assert (Hfo : funcs_of (done ++ [n]) = funcs_of done ++ [f]).
        { unfold funcs_of. rewrite flat_map_app. cbn. now rewrite En, app_nil_r. }
        rewrite Efg in Ea. pose proof (map_args_spec g store args Hgq (mi_store _ _ HI) Ea) as Hargs.
        assert (Ef1 : fname f = fname g) by now rewrite Efg. assert (Ef2 : Pipe.outs f = Pipe.outs g) by now rewrite Efg.
        assert (Ef3 : forall o, route pick f o r = route pick g o r) by (intros o; now rewrite Efg).
        constructor; cbn [fst snd].
        * intros o v Hv. rewrite (aget_fold_aset (fun o => route pick f o r)) in Hv.
          destruct (mem_str o (Pipe.outs f)) eqn:Eo; [|now apply (mi_store _ _ HI)].
          inversion Hv; subst v. apply mem_str_In in Eo. rewrite Ef2 in Eo. unfold eval_top. cbn [eval].
          rewrite (producer_unique p (wf_outs_nd _ _ Hwf) g o Hgp Eo).
          unfold eval_args in Hargs. rewrite Hargs. cbn [bind]. rewrite <- Ef1, Eb. now rewrite Ef3.
        * intros h o Hh Ho. rewrite Hfo in Hh. apply ahas_true_iff. rewrite (aget_fold_aset (fun o => route pick f o r)).
          apply in_app_iff in Hh as [Hh|[<-|[]]].
          -- destruct (mem_str o (Pipe.outs f)); [eauto|]. apply ahas_true_iff. eapply (mi_outs _ _ HI); eauto.
          -- apply mem_str_In in Ho. rewrite Ho. eauto.
        * pose proof (mi_log _ _ HI) as Hl. cbn [snd] in Hl. rewrite Hfo, !map_app. cbn [map fst]. now rewrite <- Hl.
      + apply (IH (done ++ [n])) in H; [assumption|].
        assert (Hfo : funcs_of (done ++ [n]) = funcs_of done).
        { unfold funcs_of. rewrite flat_map_app. cbn. now rewrite En, app_nil_r. }
        constructor; cbn [fst snd]; try rewrite Hfo; [apply (mi_store _ _ HI)|apply (mi_outs _ _ HI)|apply (mi_log _ _ HI)].
  Qed.

  Lemma fid_inj_p' f1 f2 : In f1 p' -> In f2 p' -> fid f1 = fid f2 -> f1 = f2.
  Proof.
    intros H1 H2 E. destruct (mr_p'_inv _ H1) as [g1 [_ [Hg1 ->]]]. destruct (mr_p'_inv _ H2) as [g2 [_ [Hg2 ->]]].
    change (fid g1 = fid g2) in E. now rewrite (fid_inj p ls Hwf g1 g2 Hg1 Hg2 E).
  Qed.
  Lemma fname_inj_p' f1 f2 : In f1 p' -> In f2 p' -> fname f1 = fname f2 -> f1 = f2.
  Proof.
    intros H1 H2 E. destruct (mr_p'_inv _ H1) as [g1 [_ [Hg1 ->]]]. destruct (mr_p'_inv _ H2) as [g2 [_ [Hg2 ->]]].
    change (fname g1 = fname g2) in E. now rewrite (fname_inj p ls Hwf g1 g2 Hg1 Hg2 E).
  Qed.

  (* run_map on the validated sub-pipeline *)
  Theorem run_generations_spec store lg : run_generations body pick p' inputs = Ok (store, lg) ->
    (forall o, is_output p' o = true -> exists v, aget store o = Some v /\ eval_top body pick p inputs o = Ok v)
    /\ (forall g, In g p -> (In g q <-> In (fname g) (map fst lg))).
  Proof.
    unfold run_generations. destruct (topo_generations (fgraph p')) as [layers|] eqn:Et; [|discriminate].
    intros H. assert (HI0 : MInv ([], []) []).
    { constructor; cbn; [intros o v E; discriminate|intros f o []|reflexivity]. }
    pose proof (map_fold_spec _ [] _ _ HI0 H) as HI. cbn [app] in HI.
    assert (Hcov : forall f, In f p' -> In f (funcs_of (concat layers))).
    { intros f Hf. unfold topo_generations in Et. destruct (kahn_sound _ _ _ _ Et) as [_ [Hc _]].
      destruct (Hc (fid f)) as [l [Hl1 Hl2]]; [cbn; now apply in_map|].
      unfold funcs_of. apply in_flat_map. exists (fid f). split; [apply in_concat; eauto|].
      destruct (node_func p' (fid f)) as [g|] eqn:Eg.
      - apply node_func_Some in Eg as [Hg Hfid]. left. now apply fid_inj_p'.
      - unfold node_func in Eg. eapply find_none in Eg; eauto. cbn in Eg. now rewrite str_eqb_refl in Eg. }
    split.
    - intros o Ho. apply is_output_true in Ho as [f Ef]. apply producer_Some in Ef as [Hf Hof].
      pose proof (mi_outs _ _ HI f o (Hcov f Hf) Hof) as Hh. apply ahas_true_iff in Hh as [v Hv]. exists v.
      split; [assumption|]. now apply (mi_store _ _ HI).
    - intros g Hgp. pose proof (mi_log _ _ HI) as Hl. cbn [snd] in Hl. rewrite Hl. split.
      + intros Hg. change (fname g) with (fname (upd g)). apply in_map. apply Hcov. now apply mr_p'_intro.
      + intros Hin. apply in_map_iff in Hin as [f [Ef Hf]]. apply funcs_of_in_p' in Hf as [Hf _].
        destruct (mr_p'_inv f Hf) as [g0 [Hg0q [Hg0p ->]]]. change (fname g0 = fname g) in Ef.
        now rewrite <- (fname_inj p ls Hwf g0 g Hg0p Hgp Ef).
  Qed.

  Lemma funcs_of_NoDup : forall l, NoDup l -> NoDup (map fname (funcs_of l)).
  Proof.
    induction l as [|n l IH]; intros Hnd; [constructor|]. inversion Hnd; subst.
    change (funcs_of (n :: l)) with ((match node_func p' n with Some f => [f] | None => [] end) ++ funcs_of l).
    destruct (node_func p' n) as [f|] eqn:En; [|now apply IH]. cbn. constructor; [|now apply IH].
    intros Hin. apply in_map_iff in Hin as [g [Eg Hg]]. apply funcs_of_in_p' in Hg as [Hg1 Hg2].
    apply node_func_Some in En as [Hf Hfid].
    assert (g = f) by now apply fname_inj_p'. subst g. congruence.
  Qed.

  Theorem run_generations_once store lg : run_generations body pick p' inputs = Ok (store, lg) -> NoDup (map fst lg).
  Proof.
    unfold run_generations. destruct (topo_generations (fgraph p')) as [layers|] eqn:Et; [|discriminate].
    intros H. assert (HI0 : MInv ([], []) []).
    { constructor; cbn; [intros o v E; discriminate|intros f o []|reflexivity]. }
    pose proof (map_fold_spec _ [] _ _ HI0 H) as HI. cbn [app] in HI.
    pose proof (mi_log _ _ HI) as Hl. cbn [snd] in Hl. rewrite Hl. apply funcs_of_NoDup.
    unfold topo_generations in Et. apply (kahn_partition _ _ _ _) in Et as [Hnd _]; [assumption|]. cbn.
    apply NoDup_map_inj_in'; [intros x y; apply fid_inj_p'|].
    rewrite Hp'. apply NoDup_map_inj_in'.
    - intros x y Hx Hy E. assert (E' : fname x = fname y) by (change (fname (upd x) = fname (upd y)); unfold upd, q; now rewrite E).
      apply (fname_inj p ls Hwf); auto; now apply (q_in_p p (akeys inputs) outs).
    - unfold kept_of, keep. apply filter_NoDup. eapply NoDup_map_inv. apply (wf_names_nd _ _ Hwf).
  Qed.
End MapRun.

(* the producers of the requested outputs are always kept: the check "a requested output did not survive" of
   Pipeline.subpipeline can only fire for a requested name that is no output of the full pipeline at all *)
Theorem requested_outputs_survive p Ip Sq outs :
  mapM (node_of p) Sq = Ok outs ->
  forall o, In o Sq -> is_output p o = true -> is_output (keep p (required p Ip outs)) o = true.
Proof.
  intros Hm o Ho Hop. apply is_output_true in Hop as [h Eh]. pose proof (producer_Some _ _ _ Eh) as [Hh Hoh].
  destruct (mapM_Ok_inv _ _ _ Hm o Ho) as [y [Hy Hn]]. unfold node_of in Hn. rewrite Eh in Hn. inversion Hn; subst y.
  apply (in_is_output _ h o); [|assumption]. unfold keep. apply filter_In. split; [assumption|].
  apply mem_str_In. unfold required. apply in_app_iff. now right.
Qed.

(* ---------- the two former refutation witnesses, now accepted / exact (replayed on the repaired code) ---------- *)
Definition w_nullary : pipeline :=
  [ mkf (s "const") [s "k"] [] [] [] false;
    mkf (s "f") [s "y"] [(s "x", s "x"); (s "k", s "k")] [] [] false ].
Definition w_mixed : pipeline :=
  [ mkf (s "f0") [s "a"] [(s "x", s "x")] [] [] false;
    mkf (s "f3") [s "y"] [(s "x", s "x"); (s "a", s "a")] [] [] false ].
Lemma former_witnesses :
  (wf_pipelineb w_nullary = true /\ computableb w_nullary [s "x"] [s "y"] = true
   /\ subpipeline w_nullary [s "x"] (Some [s "y"]) = Ok w_nullary)
  /\ (wf_pipelineb w_mixed = true /\ computableb w_mixed [s "x"; s "a"] [s "y"] = true
      /\ needed_set w_mixed [s "x"; s "a"] [s "y"] = [s "y"]
      /\ subpipeline w_mixed [s "x"; s "a"] (Some [s "y"]) = Ok [mkf (s "f3") [s "y"] [(s "x", s "x"); (s "a", s "a")] [] [] false]).
Proof. vm_compute. auto 10. Qed.

(* the residual refusal: two needed functions disagree on the default of a provided intermediate name *)
Definition w_dead : pipeline :=
  [ mkf (s "h") [s "a"] [] [] [] false;
    mkf (s "f") [s "b"] [(s "x", s "x"); (s "a", s "a")] [(s "a", s "1")] [] false;
    mkf (s "g") [s "c"] [(s "b", s "b"); (s "a", s "a")] [(s "a", s "2")] [] false ].
Lemma dead_defaults_witness :
  wf_pipelineb w_dead = true /\ computableb w_dead [s "a"; s "x"] [s "c"] = true
  /\ all_readb w_dead [s "a"; s "x"] [s "c"] = true
  /\ subpipeline w_dead [s "a"; s "x"] (Some [s "c"]) = Err ValueError.
Proof. vm_compute. auto. Qed.

(* ---------- final forms ---------- *)
Lemma akeys_kw_of Ip k : In k (akeys (kw_of Ip)) <-> In k Ip.
Proof. unfold akeys, kw_of. rewrite map_map. cbn. now rewrite map_id. Qed.

Theorem subpipeline_values body pick p Ip Sq p' kw :
  wf_pipeline p -> subpipeline p Ip (Some Sq) = Ok p' -> (forall k, In k (akeys kw) <-> In k Ip) ->
  forall n o, In o Sq -> eval body pick n p' kw o = eval body pick n p kw o.
Proof.
  intros Hwf Hs Hk n o Ho. destruct (wf_pipeline_elim p Hwf) as [ls Hw].
  destruct (sub_facts p Ip Sq p' Hs) as [outs [Hm [_ [Hp' [Houts Hroots]]]]].
  apply (sub_values p ls Hw Ip Sq p' Hs kw Hk outs Hp' Houts Hroots). now apply Houts.
Qed.

(* the sub-pipeline consists of functions of p (with, possibly, restored defaults) *)
Theorem subpipeline_functions p Ip Sq p' :
  subpipeline p Ip (Some Sq) = Ok p' ->
  forall f', In f' p' -> exists f, In f p /\ fname f' = fname f /\ outs f' = outs f /\ params f' = params f
                                   /\ bound f' = bound f /\ cached f' = cached f.
Proof.
  intros Hs f' Hf'. destruct (sub_facts p Ip Sq p' Hs) as [outs [_ [_ [Hp' _]]]]. rewrite Hp' in Hf'.
  apply in_map_upd in Hf' as [f [Hf ->]]. exists f. split; [now apply (q_in_p p Ip outs)|]. cbn. auto.
Qed.

(* EXACTLY the needed functions are kept - for every cut I, without any guard *)
Theorem subpipeline_needed_exact p Ip Sq p' kw :
  wf_pipeline p -> subpipeline p Ip (Some Sq) = Ok p' -> (forall k, In k (akeys kw) <-> In k Ip) ->
  forall f, In f p -> (In (fid f) (map fid p') <-> exists o, In o Sq /\ In f (needed_top p kw o)).
Proof.
  intros Hwf Hs Hk f Hf. destruct (wf_pipeline_elim p Hwf) as [ls Hw].
  destruct (sub_facts p Ip Sq p' Hs) as [outs [Hm [_ [Hp' [Houts Hroots]]]]].
  rewrite <- (kept_iff_needed p ls Hw Ip Sq p' kw Hk outs Hm Hp' Houts f Hf). rewrite Hp'. split.
  - intros H. apply in_map_iff in H as [f' [E Hf']]. apply in_map_upd in Hf' as [g [Hg ->]]. change (fid g = fid f) in E.
    pose proof (q_in_p p Ip outs g Hg) as Hgp. now rewrite <- (fid_inj p ls Hw g f Hgp Hf E).
  - intros H. apply in_map_iff. exists (with_defaults (lost_defaults p (kept_of p Ip outs)) f). split; [reflexivity|now apply in_map].
Qed.

Theorem subpipeline_needed_exact_set p Ip Sq p' :
  wf_pipeline p -> subpipeline p Ip (Some Sq) = Ok p' -> seteq_str (map fid p') (needed_set p Ip Sq) = true.
Proof.
  intros Hwf Hs. destruct (wf_pipeline_elim p Hwf) as [ls Hw].
  pose proof (subpipeline_needed_exact p Ip Sq p' (kw_of Ip) Hwf Hs (akeys_kw_of Ip)) as Hex.
  unfold seteq_str. apply andb_true_iff. split; apply subset_str_incl; intros n Hn.
  - apply in_map_iff in Hn as [f' [<- Hf']]. destruct (subpipeline_functions p Ip Sq p' Hs f' Hf') as [f [Hf [_ [Eo _]]]].
    assert (E : fid f' = fid f) by (unfold fid; now rewrite Eo).
    assert (H : In (fid f) (map fid p')) by (rewrite <- E; now apply in_map).
    apply (Hex f Hf) in H as [o [Ho Hn]]. unfold needed_set. apply dedup_In. rewrite E. apply in_map. apply in_flat_map. eauto.
  - unfold needed_set in Hn. rewrite dedup_In in Hn. apply in_map_iff in Hn as [f [<- Hn]]. apply in_flat_map in Hn as [o [Ho Hn]].
    apply Hex; [|eauto]. apply (needed_in_p p (kw_of Ip) (S (length p)) o f Hn).
Qed.

(* success only for computable requests, i.e. an uncomputable request is rejected *)
Theorem uncomputable_rejected p Ip Sq kw :
  wf_pipeline p -> (forall k, In k (akeys kw) <-> In k Ip) ->
  (exists o, In o Sq /\ ~ (is_output p o = true /\ sufficient p kw o)) ->
  exists e, subpipeline p Ip (Some Sq) = Err e.
Proof.
  intros Hwf Hk [o [Ho Hn]]. destruct (subpipeline p Ip (Some Sq)) as [p'|e] eqn:Es; [|eauto].
  exfalso. apply Hn. destruct (wf_pipeline_elim p Hwf) as [ls Hw].
  destruct (sub_facts p Ip Sq p' Es) as [outs [Hm [_ [Hp' [Houts Hroots]]]]].
  apply (sub_computable p ls Hw Ip Sq p' Es kw Hk outs Hm Hp' Houts Hroots o Ho).
Qed.

(* every computable request is accepted (the provided names must be names of the pipeline; the needed functions
   must agree on the defaults of provided intermediate names) *)
Theorem computable_accepted p Ip Sq kw :
  wf_pipeline p -> (forall k, In k (akeys kw) <-> In k Ip) ->
  (forall k, In k Ip -> is_output p k = true \/ In k (root_arg_names p)) ->
  (forall o, In o Sq -> is_output p o = true /\ sufficient p kw o) ->
  dead_defaults_agree p kw Sq ->
  exists p', subpipeline p Ip (Some Sq) = Ok p'.
Proof. intros Hwf. destruct (wf_pipeline_elim p Hwf) as [ls Hw]. now apply (computable_accepted_P p ls). Qed.

(* map(inputs, output_names=S [, auto_subpipeline]) : values of the full pipeline; the calls are the kept functions *)
Theorem map_run_spec body pick p inputs Sq auto store lg :
  wf_pipeline p -> map_run body pick p inputs (Some Sq) auto = Ok (store, lg) ->
  exists p', subpipeline p (akeys inputs) (Some Sq) = Ok p'
    /\ (forall o, In o Sq -> exists v, aget store o = Some v /\ eval_top body pick p inputs o = Ok v)
    /\ (forall f, In f p -> (In (fid f) (map fid p') <-> In (fname f) (map fst lg)))
    /\ NoDup (map fst lg).
Proof.
  intros Hwf H. destruct (wf_pipeline_elim p Hwf) as [ls Hw]. unfold map_run in H.
  replace (auto || true) with true in H by now destruct auto.
  destruct (subpipeline p (akeys inputs) (Some Sq)) as [p'|e] eqn:Es; cbn [bind] in H; [|discriminate].
  cbv zeta in H. replace (auto || true) with true in H by now destruct auto.
  destruct (validate_complete_inputs p' inputs true); cbn [bind] in H; [|discriminate].
  exists p'. split; [reflexivity|].
  destruct (sub_facts p (akeys inputs) Sq p' Es) as [outs [Hm [_ [Hp' [Houts Hroots]]]]].
  destruct (run_generations_spec body pick p ls Hw inputs Sq p' Es outs Hp' Houts Hroots store lg H) as [H1 H2].
  split; [|split; [|eapply (run_generations_once body pick p ls Hw inputs); eauto]].
  - intros o Ho. apply H1. now apply Houts.
  - intros f Hf. rewrite <- (H2 f Hf).
    rewrite (subpipeline_needed_exact p (akeys inputs) Sq p' inputs Hwf Es (fun k => conj (fun x => x) (fun x => x)) f Hf).
    symmetry. apply (kept_iff_needed p ls Hw (akeys inputs) Sq p' inputs (fun k => conj (fun x => x) (fun x => x)) outs Hm Hp' Houts f Hf).
Qed.

(* the calls are exactly the needed functions, each once - for every set of provided names *)
Theorem map_calls_exactly_needed body pick p inputs Sq auto store lg :
  wf_pipeline p -> map_run body pick p inputs (Some Sq) auto = Ok (store, lg) ->
  NoDup (map fst lg)
  /\ forall f, In f p -> (In (fname f) (map fst lg) <-> exists o, In o Sq /\ In f (needed_top p inputs o)).
Proof.
  intros Hwf H. destruct (map_run_spec body pick p inputs Sq auto store lg Hwf H) as [p' [Es [_ [H2 H3]]]].
  split; [assumption|]. intros f Hf. rewrite <- (H2 f Hf).
  apply (subpipeline_needed_exact p (akeys inputs) Sq p' inputs Hwf Es (fun k => conj (fun x => x) (fun x => x)) f Hf).
Qed.

(* ====================================================================================================
   Acceptance at the level of Pipeline.map: the run of an accepted sub-pipeline succeeds
   ==================================================================================================== *)
Lemma wf_dflt_params p f k : wf_pipeline p -> In f p -> In k (akeys (dflt f)) -> In k (pnames f).
Proof.
  unfold wf_pipeline, wf_pipelineb. rewrite !andb_true_iff. intros [[[[H1 _] _] _] _] Hf Hk.
  rewrite forallb_forall in H1. specialize (H1 f Hf). unfold wf_func in H1. rewrite !andb_true_iff in H1.
  destruct H1 as [[[_ H1] _] _]. apply subset_str_incl in H1. now apply H1.
Qed.

Section MapAccept.
  Variable body : str -> alist -> result str.
  Variable pick : str -> str -> str.
  Hypothesis Hbody : forall f a, exists r, body f a = Ok r.
  Variable p : pipeline.
  Hypothesis Hwfb : wf_pipeline p.
  Variable ls : list (list str).
  Hypothesis Hwf : wf_P p ls.
  Variable inputs : alist.
  Variable Sq : list str.
  Variable p' : pipeline.
  Hypothesis Hsub : subpipeline p (akeys inputs) (Some Sq) = Ok p'.
  Variable outs : list str.
  Hypothesis Hm : mapM (node_of p) Sq = Ok outs.
  Hypothesis Hp' : p' = map (with_defaults (lost_defaults p (kept_of p (akeys inputs) outs))) (kept_of p (akeys inputs) outs).
  Hypothesis Houtp' : forall o, In o Sq -> is_output p' o = true.
  Hypothesis Hroots : forall r, In r (root_arg_names p') ->
          (In r (akeys (pdefaults p')) /\ In r (akeys (pdefaults p))) \/ In r (akeys inputs).

  Let q := kept_of p (akeys inputs) outs.
  Let upd := with_defaults (lost_defaults p q).

  Lemma ma_inv f' : In f' p' -> exists g, In g q /\ In g p /\ f' = upd g.
  Proof. apply (mr_p'_inv p inputs p' outs Hp'). Qed.

  (* a producer inside the sub-pipeline is the producer in the full pipeline *)
  Lemma ma_producer cur g' : producer p' cur = Some g' -> exists g, In g q /\ g' = upd g /\ producer p cur = Some g.
  Proof.
    intros H. rewrite Hp', producer_upd in H. fold q in H. destruct (producer q cur) as [g|] eqn:Eg; [|discriminate].
    inversion H; subst g'. exists g. pose proof (producer_Some _ _ _ Eg) as [Hg _]. repeat split; auto.
    apply (producer_q_p p ls Hwf (akeys inputs) outs cur g Eg).
  Qed.

  (* the edges of the function graph of the sub-pipeline *)
  Lemma ma_edge u v : In (u, v) (edges (fgraph p')) ->
    exists f g cur, In f q /\ In g q /\ v = fid f /\ u = fid g /\ In cur (pnames f) /\ ahas (bound f) cur = false
                    /\ producer p cur = Some g.
  Proof.
    unfold fgraph. cbn [edges]. intros H. apply in_flat_map in H as [f' [Hf' H]]. apply in_map_iff in H as [n [E Hn]].
    injection E as E1 E2; subst u v. rewrite dedup_In in Hn. apply filter_In in Hn as [Hn Ho].
    unfold fpreds in Hn. apply in_flat_map in Hn as [cur [Hcur Hn]]. unfold dep_node in Hn.
    destruct (ahas (bound f') cur) eqn:Eb; [contradiction|]. destruct (ma_inv f' Hf') as [f [Hfq [Hfp ->]]].
    destruct (producer p' cur) as [g'|] eqn:Eg.
    - destruct Hn as [<-|[]]. destruct (ma_producer cur g' Eg) as [g [Hgq [-> Egp]]]. exists f, g, cur. repeat split; auto.
    - destruct Hn as [<-|[]]. apply is_output_false in Eg. congruence.
  Qed.

  Lemma ma_edge_intro f g cur : In f q -> In cur (pnames f) -> ahas (bound f) cur = false -> producer q cur = Some g ->
    In (fid g, fid f) (edges (fgraph p')).
  Proof.
    intros Hf Hcur Hb Eg. unfold fgraph. cbn [edges]. apply in_flat_map. exists (upd f). split; [now apply (mr_p'_intro p inputs p' outs Hp')|].
    apply in_map_iff. exists (fid g). split; [reflexivity|]. rewrite dedup_In. apply filter_In.
    assert (Egp' : producer p' cur = Some (upd g)) by (rewrite Hp', producer_upd; fold q; now rewrite Eg).
    split.
    - unfold fpreds. apply in_flat_map. exists cur. split; [exact Hcur|]. unfold dep_node.
      change (bound (upd f)) with (bound f). rewrite Hb, Egp'. now left.
    - pose proof (producer_Some _ _ _ Egp') as [Hg' _]. apply (in_is_output p' (upd g)); [assumption|].
      change (In (fid g) (Pipe.outs g)). pose proof (producer_Some _ _ _ Eg) as [Hgq _].
      apply fid_in_outs. apply (wff_outs_ne _ (wf_funcs _ _ Hwf g (q_in_p p (akeys inputs) outs g Hgq))).
  Qed.

  Lemma ma_topo : exists layers, topo_generations (fgraph p') = Some layers.
  Proof.
    apply (topo_generations_complete (fgraph p') (rank_of ls)). intros u v _ _ He.
    destruct (ma_edge u v He) as [f [g [cur [Hf [Hg [-> [-> [Hcur [Hb Eg]]]]]]]]].
    apply (wf_rank_edge _ _ Hwf f g cur); auto. now apply (q_in_p p (akeys inputs) outs).
  Qed.

  Lemma node_func_fid_p' f' : In f' p' -> node_func p' (fid f') = Some f'.
  Proof.
    intros Hf. destruct (node_func p' (fid f')) as [g|] eqn:Eg.
    - apply node_func_Some in Eg as [Hg Hfid]. f_equal. now apply (fid_inj_p' p ls Hwf inputs p' outs Hp').
    - unfold node_func in Eg. eapply find_none in Eg; eauto. cbn in Eg. now rewrite str_eqb_refl in Eg.
  Qed.

  Lemma pdefault_Some_of_key (d : pipeline) k : In k (akeys (pdefaults d)) -> exists v, pdefault d k = Some v.
  Proof.
    intros H. unfold pdefault. destruct (aget (rev (pdefaults d)) k) eqn:E; [eauto|]. apply aget_None_iff in E.
    exfalso. apply E. unfold akeys in *. rewrite map_rev. now apply -> in_rev.
  Qed.

  (* one step of the run succeeds when the producers of the function's arguments have run *)
  Lemma ma_step done acc n : MInv body pick p inputs p' acc done ->
    (forall f, node_func p' n = Some f -> forall cur g, In cur (pnames f) -> aget (bound f) cur = None ->
               aget inputs cur = None -> producer p' cur = Some g -> In (fid g) done) ->
    exists acc', map_step body pick p' inputs (Ok acc) n = Ok acc'.
  Proof.
    intros HI Hdone. destruct acc as [store lg]. unfold map_step. cbn [bind].
    destruct (node_func p' n) as [f|] eqn:En; [|eauto]. pose proof (node_func_Some _ _ _ En) as [Hf Hfid].
    assert (Ha : exists args, map_args p' inputs store f = Ok args).
    { unfold map_args. apply mapM_total. intros [cur orig] Hin.
      assert (Hcur : In cur (pnames f)) by (apply in_map_iff; now exists (cur, orig)).
      destruct (aget (bound f) cur) eqn:Eb; [cbn; eauto|]. destruct (aget inputs cur) eqn:Ek; [cbn; eauto|].
      destruct (is_output p' cur) eqn:Eo.
      - apply is_output_true in Eo as [g Eg]. pose proof (Hdone f eq_refl cur g Hcur Eb Ek Eg) as Hd.
        pose proof (producer_Some _ _ _ Eg) as [Hg Hco].
        assert (Hgf : In g (funcs_of p' done)).
        { unfold funcs_of. apply in_flat_map. exists (fid g). split; [assumption|]. rewrite (node_func_fid_p' g Hg). now left. }
        pose proof (mi_outs _ _ _ _ _ _ _ HI g cur Hgf Hco) as Hh. cbn [fst] in Hh. apply ahas_true_iff in Hh as [v Hv].
        rewrite Hv. cbn. eauto.
      - assert (Hr : In cur (root_arg_names p')).
        { unfold root_arg_names. apply dedup_In, in_flat_map. exists f. split; [assumption|]. apply filter_In.
          split; [assumption|]. apply ahas_false_iff in Eb. now rewrite Eb, Eo. }
        destruct (Hroots cur Hr) as [[Hd _]|Hi].
        + destruct (pdefault_Some_of_key p' cur Hd) as [v Hv]. rewrite Hv. cbn. eauto.
        + apply aget_None_iff in Ek. contradiction. }
    destruct Ha as [args Ha]. rewrite Ha. cbn [bind]. destruct (Hbody (fname f) args) as [r Hr]. rewrite Hr. cbn [bind]. eauto.
  Qed.

  Lemma ma_fold : forall l done acc, MInv body pick p inputs p' acc done ->
    (forall l1 n l2 f, l = l1 ++ n :: l2 -> node_func p' n = Some f -> forall cur g, In cur (pnames f) ->
        aget (bound f) cur = None -> aget inputs cur = None -> producer p' cur = Some g -> In (fid g) (done ++ l1)) ->
    exists acc', fold_left (map_step body pick p' inputs) l (Ok acc) = Ok acc'.
  Proof.
    induction l as [|n l IH]; intros done acc HI Hpos; [cbn; eauto|]. cbn [fold_left].
    destruct (ma_step done acc n HI) as [acc1 H1].
    { intros f En cur g Hcur Eb Ek Eg. pose proof (Hpos [] n l f eq_refl En cur g Hcur Eb Ek Eg) as H. now rewrite app_nil_r in H. }
    rewrite H1. apply (IH (done ++ [n]) acc1).
    - apply (map_fold_spec body pick p ls Hwf inputs Sq p' Hsub outs Hp' Houtp' Hroots [n] done acc acc1 HI). cbn. exact H1.
    - intros l1 m l2 f E En cur g Hcur Eb Ek Eg. rewrite <- app_assoc. cbn [app].
      apply (Hpos (n :: l1) m l2 f (f_equal (cons n) E) En cur g Hcur Eb Ek Eg).
  Qed.

  Theorem ma_run_generations : exists store lg, run_generations body pick p' inputs = Ok (store, lg).
  Proof.
    unfold run_generations. destruct ma_topo as [layers Et]. rewrite Et.
    assert (HI0 : MInv body pick p inputs p' ([], []) []).
    { constructor; cbn; [intros o v E; discriminate|intros f o []|reflexivity]. }
    destruct (ma_fold (concat layers) [] ([], []) HI0) as [[store lg] H]; [|eauto].
    intros l1 n l2 f E En cur g' Hcur Eb Ek Eg. cbn [app].
    pose proof (node_func_Some _ _ _ En) as [Hf Hfid]. destruct (ma_inv f Hf) as [f0 [Hf0q [Hf0p ->]]].
    destruct (ma_producer cur g' Eg) as [g [Hgq [-> Egp]]].
    assert (Egq : producer q cur = Some g).
    { rewrite Hp', producer_upd in Eg. fold q in Eg. destruct (producer q cur) as [g1|] eqn:E1; [|discriminate].
      pose proof (producer_q_p p ls Hwf (akeys inputs) outs cur g1 E1). congruence. }
    apply ahas_false_iff in Eb.
    pose proof (ma_edge_intro f0 g cur Hf0q Hcur Eb Egq) as He.
    unfold topo_generations in Et. destruct (kahn_sound _ _ _ _ Et) as [_ [Hcov Hord]].
    assert (Hnf : In (fid f0) (nodes (fgraph p'))) by (cbn; change (fid f0) with (fid (upd f0)); now apply in_map).
    assert (Hng : In (fid g) (nodes (fgraph p'))).
    { cbn. change (fid g) with (fid (upd g)). apply in_map. now apply (mr_p'_intro p inputs p' outs Hp'). }
    assert (Hlt : rank_of layers (fid g) < rank_of layers (fid f0)).
    { apply Hord; auto. unfold preds. apply in_map_iff. exists (fid g, fid f0). split; [reflexivity|].
      apply filter_In. split; [assumption|]. cbn. apply str_eqb_refl. }
    apply (rank_lt_before layers (fid g) n l1 l2); auto.
    - destruct (Hcov (fid g) Hng) as [l [Hl1 Hl2]]. apply in_concat. eauto.
    - change (fid (upd f0)) with (fid f0) in Hfid. now rewrite <- Hfid.
  Qed.

  (* _validate_complete_inputs passes when every provided name is a root argument of the sub-pipeline or an output of
     one of its multi-output functions *)
  Lemma ma_validate : (forall k, In k (akeys inputs) -> In k (root_arg_names p') \/ In k (overridable p')) ->
    validate_complete_inputs p' inputs true = Ok tt.
  Proof.
    intros Hin. unfold validate_complete_inputs.
    assert (E1 : subset_str (root_arg_names p') (akeys inputs ++ akeys (pdefaults p')) = true).
    { apply subset_str_incl. intros r Hr. apply in_app_iff. destruct (Hroots r Hr) as [[H _]|H]; auto. }
    assert (E2 : subset_str (diff_str (akeys inputs ++ akeys (pdefaults p')) (overridable p')) (root_arg_names p') = true).
    { apply subset_str_incl. intros k Hk. apply diff_str_In in Hk as [Hk Hno]. apply in_app_iff in Hk as [Hk|Hk].
      { destruct (Hin k Hk) as [H|H]; [assumption|contradiction]. }
      unfold akeys in Hk. apply in_map_iff in Hk as [[k0 v] [E Hk]]. cbn in E. subst k0.
      unfold pdefaults in Hk. apply in_flat_map in Hk as [f' [Hf' Hk]]. apply filter_In in Hk as [Hk Hc]. cbn [fst] in Hc.
      destruct (ma_inv f' Hf') as [f [Hfq [Hfp ->]]].
      assert (Hpn : In k (pnames f)).
      { unfold upd, with_defaults in Hk. cbn in Hk. apply in_app_iff in Hk as [Hk|Hk].
        - apply (wf_dflt_params p f k Hwfb Hfp). unfold akeys. apply in_map_iff. now exists (k, v).
        - apply filter_In in Hk as [_ Hk]. cbn [fst] in Hk. apply andb_true_iff in Hk as [Hk _]. now apply mem_str_In. }
      unfold root_arg_names. apply dedup_In, in_flat_map. exists (upd f). split; [assumption|]. apply filter_In.
      split; [exact Hpn|exact Hc]. }
    now rewrite E1, E2.
  Qed.
End MapAccept.

(* a needed function is the producer of the requested output or of a name that is not supplied *)
Lemma needed_inv p kw : forall n x g, In g (needed n p kw x) ->
  producer p x = Some g \/ exists cur, aget kw cur = None /\ producer p cur = Some g.
Proof.
  induction n as [|n IH]; intros x g H; [contradiction|]. rewrite (needed_S p kw) in H.
  destruct (producer p x) as [f|] eqn:Ef; [|contradiction]. destruct H as [<-|H]; [now left|]. right.
  apply in_flat_map in H as [cur [Hcur H]]. destruct (source_of p kw f cur) as [| |g0| |] eqn:Es; try contradiction.
  apply (source_SUp p kw) in Es as [_ [Ek Eg]]. destruct (IH cur g H) as [E|E]; [|exact E]. exists cur. split; [assumption|congruence].
Qed.

(* map(inputs, output_names=S): every computable request outside the ONE known-finding region is accepted and runs to
   completion (with total user functions); no requested output is itself provided *)
Theorem map_computable_accepted body pick p inputs Sq auto :
  wf_pipeline p -> (forall f a, exists r, body f a = Ok r) ->
  (forall o, In o Sq -> is_output p o = true /\ sufficient p inputs o) ->
  dead_defaults_agree p inputs Sq ->
  (forall k, In k (akeys inputs) ->
     exists o f, In o Sq /\ In f (needed_top p inputs o) /\ In k (pnames f) /\ aget (bound f) k = None) ->
  (forall o, In o Sq -> ~ In o (akeys inputs)) ->
  exists store lg, map_run body pick p inputs (Some Sq) auto = Ok (store, lg).
Proof.
  intros Hwfb Hbody HS HD Hread Hnot. destruct (wf_pipeline_elim p Hwfb) as [ls Hw].
  set (Hk := fun k : str => conj (fun x : In k (akeys inputs) => x) (fun x : In k (akeys inputs) => x)).
  assert (HI : forall k, In k (akeys inputs) -> is_output p k = true \/ In k (root_arg_names p)).
  { intros k Hkin. destruct (Hread k Hkin) as [o [f [Ho [Hf [Hkp Hb]]]]].
    destruct (is_output p k) eqn:Eo; [now left|right]. unfold root_arg_names. apply dedup_In, in_flat_map. exists f.
    split; [apply (needed_in_p p inputs (S (length p)) o f Hf)|]. apply filter_In. split; [assumption|].
    apply ahas_false_iff in Hb. now rewrite Hb, Eo. }
  destruct (mapM_total (node_of p) Sq) as [outs Hm].
  { intros o Ho. apply (node_of_total p). left. now apply HS. }
  pose proof (acc_accepted p ls Hw (akeys inputs) Sq inputs Hk HI HS HD outs Hm) as Hsub.
  set (q := kept_of p (akeys inputs) outs) in *. set (p' := map (with_defaults (lost_defaults p q)) q) in *.
  assert (Hp' : p' = map (with_defaults (lost_defaults p (kept_of p (akeys inputs) outs))) (kept_of p (akeys inputs) outs)) by reflexivity.
  pose proof (acc_outputs p ls Hw (akeys inputs) Sq inputs Hk HS outs Hm) as Houtp'. fold q in Houtp'. fold p' in Houtp'.
  pose proof (acc_roots p ls Hw (akeys inputs) Sq inputs Hk HS outs Hm) as Hroots. fold q in Hroots. fold p' in Hroots.
  unfold map_run. cbv zeta. replace (auto || true) with true by now destruct auto. rewrite Hsub. cbn [bind].
  assert (Hin : forall k, In k (akeys inputs) -> In k (root_arg_names p') \/ In k (overridable p')).
  { intros k Hkin. destruct (Hread k Hkin) as [o [f [Ho [Hf [Hkp Hb]]]]].
    assert (Hfp : In f p) by apply (needed_in_p p inputs (S (length p)) o f Hf).
    assert (Hfq : In f q) by (apply (acc_kept_iff p ls Hw (akeys inputs) Sq inputs Hk HS outs Hm f Hfp); eauto).
    destruct (is_output q k) eqn:Eo.
    - right. apply is_output_true in Eo as [g Eg].
      pose proof (producer_Some _ _ _ Eg) as [Hgq Hkg]. pose proof (q_in_p p (akeys inputs) outs g Hgq) as Hgp.
      destruct (multi g) eqn:Em.
      + unfold overridable. apply in_flat_map. exists (with_defaults (lost_defaults p q) g).
        split; [unfold p'; now apply in_map|]. change (multi (with_defaults (lost_defaults p q) g)) with (multi g). now rewrite Em.
      + exfalso. rewrite (single_outs g (wf_funcs _ _ Hw g Hgp) Em) in Hkg. destruct Hkg as [Ek|[]].
        pose proof Hgq as Hgn. apply (acc_kept_iff p ls Hw (akeys inputs) Sq inputs Hk HS outs Hm g Hgp) in Hgn as [o' [Ho' Hg']].
        assert (Hout : forall c, In c (Pipe.outs g) -> c = k).
        { intros c Hc. rewrite (single_outs g (wf_funcs _ _ Hw g Hgp) Em) in Hc. destruct Hc as [<-|[]]. exact Ek. }
        destruct (needed_inv p inputs _ o' g Hg') as [E|[cur [Ecur E]]].
        * apply producer_Some in E as [_ E]. apply Hout in E. subst o'. exact (Hnot k Ho' Hkin).
        * apply producer_Some in E as [_ E]. apply Hout in E. subst cur. apply aget_None_iff in Ecur. contradiction.
    - left. unfold root_arg_names. apply dedup_In, in_flat_map. exists (with_defaults (lost_defaults p q) f).
      split; [unfold p'; now apply in_map|]. apply filter_In. split; [exact Hkp|].
      change (bound (with_defaults (lost_defaults p q) f)) with (bound f). apply ahas_false_iff in Hb. rewrite Hb. cbn [negb andb].
      apply negb_true_iff. rewrite (is_output_p'_q p (akeys inputs) p' outs Hp'). fold q. exact Eo. }
  rewrite (ma_validate p Hwfb inputs p' outs Hp' Hroots Hin). cbn [bind].
  exact (ma_run_generations body pick Hbody p ls Hw inputs Sq p' Hsub outs Hp' Houtp' Hroots).
Qed.

(* the former refusal f(x) -> (a, c); h(a, c) -> d; inputs {x, a}; S = {d}: accepted, f runs (c is needed) and h
   receives the PROVIDED a *)
Definition w_k2 : pipeline :=
  [ mkf (s "f") [s "a"; s "c"] [(s "x", s "x")] [] [] false;
    mkf (s "h") [s "d"] [(s "a", s "a"); (s "c", s "c")] [] [] false ].
Lemma k2_witness :
  wf_pipelineb w_k2 = true /\ computableb w_k2 [s "x"; s "a"] [s "d"] = true
  /\ subpipeline w_k2 [s "x"; s "a"] (Some [s "d"]) = Ok w_k2
  /\ option_map (fun r => (aget (fst r) (s "d"), map fst (snd r)))
       (match map_run Sym.body Sym.pick w_k2 [(s "x", s "1"); (s "a", s "A")] (Some [s "d"]) false with
        | Ok r => Some r | Err _ => None end)
     = Some (Some (s "h(a=A,c=out(c;f(x=1)))"), [s "f"; s "h"])
  /\ map_run Sym.body Sym.pick w_k2 [(s "x", s "1"); (s "a", s "A"); (s "d", s "D")] None false = Err ValueError.
Proof. vm_compute. auto 10. Qed.
