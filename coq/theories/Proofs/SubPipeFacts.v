(* Facts about Model/SubPipe.v: a successful subpipeline keeps every needed function, preserves the values of
   the requested outputs, and is only returned for computable requests. *)
From Verif Require Import Base.Prelude Base.StrOrd Base.Graph Model.Pipe Model.SubPipe
                          Proofs.GraphFacts Proofs.PipeFacts Proofs.ArgCombFacts.
From Coq Require Import Permutation.

Lemma mapM_Ok_inv {A B} (f : A -> result B) l ys : mapM f l = Ok ys -> forall x, In x l -> exists y, f x = Ok y.
Proof.
  revert ys. induction l as [|a l IH]; intros ys H x Hin; [contradiction|]. cbn in H.
  destruct (f a) as [y|e] eqn:Ea; cbn in H; [|discriminate]. destruct (mapM f l) as [l'|e] eqn:El; cbn in H; [|discriminate].
  destruct Hin as [<-|Hin]; eauto.
Qed.

Lemma mapM_Ok_In {A B} (f : A -> result B) l ys : mapM f l = Ok ys -> forall y, In y ys -> exists x, In x l /\ f x = Ok y.
Proof.
  revert ys. induction l as [|a l IH]; intros ys H y Hin; cbn in H; [inversion H; subst; contradiction|].
  destruct (f a) as [b|e] eqn:Ea; cbn in H; [|discriminate]. destruct (mapM f l) as [l'|e] eqn:El; cbn in H; [|discriminate].
  inversion H; subst ys. destruct Hin as [<-|Hin]; [exists a; split; [now left|assumption]|].
  destruct (IH l' eq_refl y Hin) as [x [H1 H2]]. exists x. split; [now right|assumption].
Qed.

Lemma drop_loop_filter : forall drop cur q, drop_loop cur drop = Ok q ->
  q = filter (fun g => negb (mem_str (fid g) (map fid drop))) cur.
Proof.
  induction drop as [|f t IH]; intros cur q H; cbn in H.
  - inversion H; subst. cbn. clear H. induction q as [|g q IHq]; cbn; [reflexivity|]. now rewrite <- IHq.
  - destruct (consistent_defaults _); [|discriminate]. apply IH in H. rewrite H. clear H.
    induction cur as [|g cur IHc]; [reflexivity|]. cbn [filter map mem_str].
    destruct (str_eqb (fid g) (fid f)) eqn:E; cbn [negb orb filter]; [apply IHc|].
    destruct (mem_str (fid g) (map fid t)); cbn [negb]; [apply IHc|now rewrite IHc].
Qed.

Lemma drop_loop_keep p b q : drop_loop p (filter (fun f => negb (mem_str (fid f) b)) p) = Ok q -> q = keep p b.
Proof.
  intros H. apply drop_loop_filter in H. subst q. unfold keep. apply filter_ext_in. intros g Hg.
  destruct (mem_str (fid g) b) eqn:Eb.
  - apply negb_true_iff. apply mem_str_not_In. intros Hin. apply in_map_iff in Hin as [f [Ef Hf]].
    apply filter_In in Hf as [_ Hf]. apply negb_true_iff in Hf. rewrite Ef in Hf. congruence.
  - apply negb_false_iff. apply mem_str_In. apply in_map_iff. exists g. split; [reflexivity|].
    apply filter_In. split; [assumption|]. now rewrite Eb.
Qed.

Section Sub.
  Variable p : pipeline.
  Variable ls : list (list str).
  Hypothesis Hwf : wf_P p ls.
  Variable Ip : list str.            (* provided names *)
  Variable Sq : list str.            (* requested outputs *)
  Variable p' : pipeline.
  Hypothesis Hsub : subpipeline p Ip (Some Sq) = Ok p'.

  Let Hnd := wf_outs_nd _ _ Hwf.

  (* what success means *)
  Lemma sub_facts : exists b,
    p' = keep p b
    /\ (forall o, In o Sq -> is_output p' o = true)
    /\ (forall r, In r (root_arg_names p') ->
          (In r (akeys (pdefaults p')) /\ In r (akeys (pdefaults p))) \/ In r Ip).
  Proof.
    unfold subpipeline in Hsub. destruct (mapM (node_of p) Ip) as [ins|e]; cbn in Hsub; [|discriminate].
    destruct (mapM (node_of p) Sq) as [outs|e]; cbn in Hsub; [|discriminate].
    set (b := between (graph_of p) ins outs) in *. exists b.
    destruct (drop_loop p (filter (fun f => negb (mem_str (fid f) b)) p)) as [q|e] eqn:Ed; cbn in Hsub; [|discriminate].
    apply drop_loop_keep in Ed. subst q.
    destruct (negb (forallb (is_output (keep p b)) Sq)) eqn:E1; [discriminate|].
    destruct (forallb _ (root_arg_names (keep p b))) eqn:E2; [|discriminate].
    inversion Hsub; subst p'. split; [reflexivity|]. split.
    - apply negb_false_iff in E1. rewrite forallb_forall in E1. exact E1.
    - intros r Hr. rewrite forallb_forall in E2. specialize (E2 r Hr). apply orb_true_iff in E2 as [E2|E2].
      + left. apply mem_str_In in E2. unfold inter_str in E2. apply filter_In in E2 as [H1 H2].
        apply mem_str_In in H2. auto.
      + right. now apply mem_str_In.
  Qed.

  Lemma kept_in_p f : In f p' -> In f p.
  Proof. destruct sub_facts as [b [-> _]]. unfold keep. intros H. now apply filter_In in H. Qed.

  Lemma producer_sub o f : producer p' o = Some f -> producer p o = Some f.
  Proof.
    intros H. apply producer_Some in H as [H1 H2]. apply producer_unique; auto. now apply kept_in_p.
  Qed.

  Lemma is_output_sub o : is_output p' o = true -> is_output p o = true.
  Proof. intros H. apply is_output_true in H as [f Hf]. apply is_output_true. exists f. now apply producer_sub. Qed.

  Lemma producer_sub_rev o f : producer p o = Some f -> In f p' -> producer p' o = Some f.
  Proof.
    intros H Hf. destruct (producer p' o) as [g|] eqn:E.
    - apply producer_sub in E. congruence.
    - exfalso. apply producer_Some in H as [_ Ho]. eapply producer_None; eauto.
  Qed.

  (* an unbound parameter of a kept function that is not provided: either its producer is kept too, or it is not
     an output at all and keeps its default *)
  Lemma kept_param f cur : In f p' -> In cur (pnames f) -> aget (bound f) cur = None -> ~ In cur Ip ->
    (is_output p' cur = true) \/
    (is_output p' cur = false /\ is_output p cur = false /\ In cur (akeys (pdefaults p')) /\ In cur (akeys (pdefaults p))).
  Proof.
    intros Hf Hcur Hb Hni. destruct (is_output p' cur) eqn:Eo; [now left|right]. split; [reflexivity|].
    destruct sub_facts as [b [_ [_ Hroots]]].
    assert (Hr : In cur (root_arg_names p')).
    { unfold root_arg_names. apply dedup_In, in_flat_map. exists f. split; [assumption|]. apply filter_In.
      split; [assumption|]. apply ahas_false_iff in Hb. now rewrite Hb, Eo. }
    destruct (Hroots cur Hr) as [[H1 H2]|H]; [|contradiction]. split; [|auto].
    unfold pdefaults, akeys in H2. apply in_map_iff in H2 as [[k v] [Ek H2]]. cbn in Ek. subst k.
    apply in_flat_map in H2 as [g [_ H2]]. apply filter_In in H2 as [_ H2]. cbn in H2.
    apply andb_true_iff in H2 as [_ H2]. now apply negb_true_iff in H2.
  Qed.

  Lemma default_sub cur : is_output p cur = false -> In cur (akeys (pdefaults p')) ->
    default_of p' cur = default_of p cur /\ default_of p cur <> None.
  Proof.
    intros Ho Hk. unfold default_of.
    assert (Hincl : forall k v, k = cur -> In (k, v) (pdefaults p') -> In (k, v) (pdefaults p)).
    { intros k v -> H. unfold pdefaults in *. apply in_flat_map in H as [g [Hg H]]. apply in_flat_map. exists g.
      split; [now apply kept_in_p|]. apply filter_In in H as [H1 H2]. apply filter_In. split; [assumption|]. cbn in *.
      apply andb_true_iff in H2 as [H2 _]. now rewrite H2, Ho. }
    destruct (aget (pdefaults p') cur) as [v|] eqn:E.
    - apply aget_Some_In in E. apply (Hincl cur v eq_refl) in E. apply (wf_defaults _ _ Hwf) in E. rewrite E.
      split; [reflexivity|discriminate].
    - apply aget_None_iff in E. contradiction.
  Qed.

  Variable kw : alist.
  Hypothesis Hkw : forall k, In k (akeys kw) <-> In k Ip.

  Lemma kw_none cur : aget kw cur = None <-> ~ In cur Ip.
  Proof. rewrite aget_None_iff. now rewrite Hkw. Qed.

  (* every function on a dependency path to a kept output that is not cut off by the provided names is kept *)
  Lemma needed_sub_kept : forall n o f, is_output p' o = true -> In f (needed n p kw o) -> In f p'.
  Proof.
    induction n as [|n IH]; intros o f Ho Hf; [contradiction|]. apply is_output_true in Ho as [g Eg].
    pose proof (producer_sub _ _ Eg) as Eg'. rewrite (needed_S p kw), Eg' in Hf.
    pose proof (producer_Some _ _ _ Eg) as [Hg _].
    destruct Hf as [<-|Hf]; [assumption|]. apply in_flat_map in Hf as [cur [Hcur Hf]].
    destruct (source_of p kw g cur) as [| |h| |] eqn:Es; try contradiction.
    apply (source_SUp p kw) in Es as [Eb [Ek Eh]]. apply kw_none in Ek.
    destruct (kept_param g cur Hg Hcur Eb Ek) as [Ho'|[_ [Ho' _]]].
    - eapply IH; eauto.
    - apply is_output_false in Ho'. congruence.
  Qed.

  (* the sub-pipeline computes, for its outputs, the values of the full pipeline *)
  Theorem sub_values body pick : forall n o, is_output p' o = true ->
    eval body pick n p' kw o = eval body pick n p kw o.
  Proof.
    induction n as [|n IH]; intros o Ho; [reflexivity|]. cbn [eval].
    apply is_output_true in Ho as [g Eg]. rewrite Eg, (producer_sub _ _ Eg).
    pose proof (producer_Some _ _ _ Eg) as [Hg _].
    assert (E : args_with (eval body pick n p' kw) p' kw g = args_with (eval body pick n p kw) p kw g).
    { unfold args_with. apply mapM_ext_in. intros [cur orig] Hin. cbn [fst snd].
      assert (Hcur : In cur (pnames g)) by (apply in_map_iff; now exists (cur, orig)).
      enough (arg_val (eval body pick n p' kw) p' kw g cur = arg_val (eval body pick n p kw) p kw g cur) as -> by reflexivity.
      unfold arg_val. destruct (aget (bound g) cur) eqn:Eb; [reflexivity|]. destruct (aget kw cur) eqn:Ek; [reflexivity|].
      apply kw_none in Ek. destruct (kept_param g cur Hg Hcur Eb Ek) as [Ho'|[Ho1 [Ho2 [Hd1 Hd2]]]].
      - rewrite Ho', (is_output_sub _ Ho'). now apply IH.
      - rewrite Ho1, Ho2. destruct (default_sub cur Ho2 Hd1) as [-> _]. reflexivity. }
    now rewrite E.
  Qed.

  (* success implies that the request was computable *)
  Theorem sub_computable : forall o, In o Sq -> is_output p o = true /\ sufficient p kw o.
  Proof.
    intros o Ho. destruct sub_facts as [b [_ [Houts _]]]. pose proof (Houts o Ho) as Ho'.
    split; [now apply is_output_sub|]. intros f cur Hf Hcur. unfold needed_top in Hf.
    pose proof (needed_sub_kept _ _ _ Ho' Hf) as Hfk. unfold source_of.
    destruct (aget (bound f) cur) eqn:Eb; [discriminate|]. destruct (aget kw cur) eqn:Ek; [discriminate|].
    destruct (producer p cur) eqn:Ep; [discriminate|]. apply kw_none in Ek.
    destruct (kept_param f cur Hfk Hcur Eb Ek) as [Ho1|[Ho1 [Ho2 [Hd1 Hd2]]]].
    - apply is_output_sub in Ho1. apply is_output_true in Ho1 as [g Hg]. congruence.
    - destruct (default_sub cur Ho2 Hd1) as [_ Hne]. destruct (default_of p cur); [discriminate|congruence].
  Qed.

  (* ---------- exactness when only root arguments are provided ---------- *)
  Lemma kept_reaches_output f : In f p' ->
    exists o h, In o Sq /\ producer p o = Some h /\ gpath (graph_of p) (fid f) (fid h).
  Proof.
    intros Hf. pose proof Hsub as Hs. unfold subpipeline in Hs.
    destruct (mapM (node_of p) Ip) as [ins|e]; cbn in Hs; [|discriminate].
    destruct (mapM (node_of p) Sq) as [outs|e] eqn:Eo; cbn in Hs; [|discriminate].
    set (b := between (graph_of p) ins outs) in *.
    destruct (drop_loop p (filter (fun f => negb (mem_str (fid f) b)) p)) as [q|e] eqn:Ed; cbn in Hs; [|discriminate].
    apply drop_loop_keep in Ed. subst q.
    destruct (negb (forallb (is_output (keep p b)) Sq)) eqn:E1; [discriminate|].
    destruct (forallb _ (root_arg_names (keep p b))) eqn:E2; [|discriminate].
    inversion Hs; subst p'. clear Hs. unfold keep in Hf. apply filter_In in Hf as [Hfp Hb]. apply mem_str_In in Hb.
    unfold b, between, inter_str in Hb. apply filter_In in Hb as [_ Hb]. apply mem_str_In in Hb.
    assert (Hout : forall t, In t outs -> exists o h, In o Sq /\ producer p o = Some h /\ t = fid h).
    { intros t Ht. destruct (mapM_Ok_In _ _ _ Eo t Ht) as [o [Ho Hn]]. exists o.
      apply negb_false_iff in E1. rewrite forallb_forall in E1. specialize (E1 o Ho).
      assert (Hop : is_output p o = true).
      { apply is_output_true in E1 as [h Hh]. apply producer_Some in Hh as [Hh1 Hh2]. unfold keep in Hh1.
        apply filter_In in Hh1 as [Hh1 _]. apply is_output_true. exists h. apply producer_unique; auto. }
      apply is_output_true in Hop as [h Hh]. exists h. unfold node_of in Hn. rewrite Hh in Hn. inversion Hn. auto. }
    apply in_app_iff in Hb as [Hb|Hb].
    - apply in_flat_map in Hb as [t [Ht Hanc]]. destruct (Hout t Ht) as [o [h [H1 [H2 ->]]]].
      exists o, h. repeat split; auto. now apply ancestors_sound.
    - destruct (Hout _ Hb) as [o [h [H1 [H2 E]]]]. exists o, h. repeat split; auto. rewrite E. constructor.
  Qed.

  Hypothesis Hroots_only : forall k, In k Ip -> is_output p k = false.

  Lemma path_needed o : forall x z, gpath (graph_of p) x z ->
    forall f h, In f p -> In h p -> x = fid f -> z = fid h -> In h (needed_top p kw o) -> In f (needed_top p kw o).
  Proof.
    induction 1 as [x|x y z He Hp IH]; intros f h Hf Hh Ex Ez Hn.
    - assert (f = h) by (eapply fid_inj; eauto; congruence). now subst.
    - cbn in He. apply in_flat_map in He as [f' [Hf' He]]. apply in_map_iff in He as [d [E Hd]].
      inversion E; subst d y. clear E. rewrite dedup_In in Hd.
      assert (Hn' : In f' (needed_top p kw o)) by (eapply IH; eauto).
      apply fpreds_In in Hd as [cur [Hcur [Eb [[g [Eg Ed]]|[Eg Ed]]]]].
      + pose proof (producer_Some _ _ _ Eg) as [Hg _].
        assert (g = f) by (eapply fid_inj; eauto; congruence). subst g.
        assert (Ek : aget kw cur = None).
        { apply kw_none. intros Hi. apply Hroots_only in Hi. apply is_output_false in Hi. congruence. }
        unfold needed_top in *. eapply (needed_closed p ls Hwf kw); eauto.
        * apply rk_lt_N. exact Hwf.
        * now apply source_SUp_intro.
      + exfalso. apply (producer_None p cur Eg f Hf). rewrite <- Ed, Ex. apply fid_in_outs.
        apply (wff_outs_ne _ (wf_funcs _ _ Hwf f Hf)).
  Qed.

  Theorem sub_exact_roots f : In f p ->
    (In f p' <-> exists o, In o Sq /\ In f (needed_top p kw o)).
  Proof.
    intros Hf. split.
    - intros Hk. destruct (kept_reaches_output f Hk) as [o [h [Ho [Eh Hp]]]]. exists o. split; [assumption|].
      pose proof (producer_Some _ _ _ Eh) as [Hh _].
      eapply (path_needed o _ _ Hp f h); eauto. unfold needed_top. rewrite (needed_S p kw), Eh. now left.
    - intros [o [Ho Hn]]. destruct sub_facts as [b [_ [Houts _]]]. eapply needed_sub_kept; eauto.
  Qed.
End Sub.

(* ---------- the two refutations (witnesses replayed on the real code, see known_findings.jsonl) ---------- *)
Definition w_nullary : pipeline :=
  [ mkf (s "const") [s "k"] [] [] [] false;
    mkf (s "f") [s "y"] [(s "x", s "x"); (s "k", s "k")] [] [] false ].
Lemma computable_refused_witness :
  wf_pipelineb w_nullary = true /\ computableb w_nullary [s "x"] [s "y"] = true
  /\ all_readb w_nullary [s "x"] [s "y"] = true
  /\ subpipeline w_nullary [s "x"] (Some [s "y"]) = Err ValueError.
Proof. vm_compute. auto. Qed.

Definition w_mixed : pipeline :=
  [ mkf (s "f0") [s "a"] [(s "x", s "x")] [] [] false;
    mkf (s "f3") [s "y"] [(s "x", s "x"); (s "a", s "a")] [] [] false ].
Lemma not_exact_witness :
  wf_pipelineb w_mixed = true /\ computableb w_mixed [s "x"; s "a"] [s "y"] = true
  /\ all_readb w_mixed [s "x"; s "a"] [s "y"] = true
  /\ needed_set w_mixed [s "x"; s "a"] [s "y"] = [s "y"]
  /\ option_map (map fid) (match subpipeline w_mixed [s "x"; s "a"] (Some [s "y"]) with Ok q => Some q | Err _ => None end)
     = Some [s "a"; s "y"].
Proof. vm_compute. auto. Qed.

(* ---------- final forms ---------- *)
Theorem subpipeline_values body pick p Ip Sq p' kw :
  wf_pipeline p -> subpipeline p Ip (Some Sq) = Ok p' -> (forall k, In k (akeys kw) <-> In k Ip) ->
  forall n o, In o Sq -> eval body pick n p' kw o = eval body pick n p kw o.
Proof.
  intros Hwf Hs Hk n o Ho. destruct (wf_pipeline_elim p Hwf) as [ls Hw].
  destruct (sub_facts p Ip Sq p' Hs) as [b [_ [Houts _]]].
  apply (sub_values p ls Hw Ip Sq p' Hs kw Hk). now apply Houts.
Qed.

Theorem subpipeline_keeps_needed p Ip Sq p' kw :
  wf_pipeline p -> subpipeline p Ip (Some Sq) = Ok p' -> (forall k, In k (akeys kw) <-> In k Ip) ->
  forall o f, In o Sq -> In f (needed_top p kw o) -> In f p'.
Proof.
  intros Hwf Hs Hk o f Ho Hf. destruct (wf_pipeline_elim p Hwf) as [ls Hw].
  destruct (sub_facts p Ip Sq p' Hs) as [b [_ [Houts _]]].
  eapply (needed_sub_kept p ls Hw Ip Sq p' Hs kw Hk); eauto.
Qed.

(* success only for computable requests, i.e. an uncomputable request is rejected *)
Theorem uncomputable_rejected p Ip Sq kw :
  wf_pipeline p -> (forall k, In k (akeys kw) <-> In k Ip) ->
  (exists o, In o Sq /\ ~ (is_output p o = true /\ sufficient p kw o)) ->
  exists e, subpipeline p Ip (Some Sq) = Err e.
Proof.
  intros Hwf Hk [o [Ho Hn]]. destruct (subpipeline p Ip (Some Sq)) as [p'|e] eqn:Es; [|eauto].
  exfalso. apply Hn. destruct (wf_pipeline_elim p Hwf) as [ls Hw].
  apply (sub_computable p ls Hw Ip Sq p' Es kw Hk o Ho).
Qed.

Theorem subpipeline_needed_exact_roots p Ip Sq p' kw :
  wf_pipeline p -> subpipeline p Ip (Some Sq) = Ok p' -> (forall k, In k (akeys kw) <-> In k Ip) ->
  (forall k, In k Ip -> is_output p k = false) ->
  forall f, In f p -> (In f p' <-> exists o, In o Sq /\ In f (needed_top p kw o)).
Proof.
  intros Hwf Hs Hk Hr f Hf. destruct (wf_pipeline_elim p Hwf) as [ls Hw].
  apply (sub_exact_roots p ls Hw Ip Sq p' Hs kw Hk Hr f Hf).
Qed.

Theorem subpipeline_needed_exact_refuted :
  exists p Ip Sq p', wf_pipeline p /\ computableb p Ip Sq = true /\ all_readb p Ip Sq = true
    /\ subpipeline p Ip (Some Sq) = Ok p' /\ seteq_str (map fid p') (needed_set p Ip Sq) = false.
Proof.
  exists w_mixed, [s "x"; s "a"], [s "y"].
  destruct (subpipeline w_mixed [s "x"; s "a"] (Some [s "y"])) as [q|e] eqn:E; [|vm_compute in E; discriminate].
  exists q. vm_compute in E. inversion E; subst q. vm_compute. auto.
Qed.

Theorem computable_accepted_refuted :
  exists p Ip Sq, wf_pipeline p /\ computableb p Ip Sq = true /\ all_readb p Ip Sq = true
    /\ subpipeline p Ip (Some Sq) = Err ValueError.
Proof. exists w_nullary, [s "x"], [s "y"]. vm_compute. auto. Qed.

(* ====================================================================================================
   Pipeline.map on the sub-pipeline (scalar case): every kept function is called once and the results are
   the values of the full pipeline.
   ==================================================================================================== *)
Lemma mapM_Ok_transfer {A B} (F G : A -> result B) l ys :
  (forall x y, In x l -> F x = Ok y -> G x = Ok y) -> mapM F l = Ok ys -> mapM G l = Ok ys.
Proof.
  revert ys. induction l as [|a l IH]; intros ys H HF; cbn in *; [assumption|].
  destruct (F a) as [b|e] eqn:Ea; cbn in HF; [|discriminate]. rewrite (H a b (or_introl eq_refl) Ea). cbn.
  destruct (mapM F l) as [l'|e] eqn:El; cbn in HF; [|discriminate]. rewrite (IH l'); [assumption| |reflexivity].
  intros x y Hx. apply H. now right.
Qed.

Lemma aget_fold_aset (h : str -> str) : forall l st k,
  aget (fold_left (fun st0 o => aset st0 o (h o)) l st) k = if mem_str k l then Some (h k) else aget st k.
Proof.
  induction l as [|x l IH]; intros st k; cbn; [reflexivity|]. rewrite IH.
  destruct (str_eqb k x) eqn:E; cbn.
  - apply str_eqb_eq in E. subst x. destruct (mem_str k l); [reflexivity|apply aget_aset_same].
  - apply str_eqb_neq in E. destruct (mem_str k l); [reflexivity|]. apply aget_aset_other. congruence.
Qed.

Section MapRun.
  Variable body : str -> alist -> result str.
  Variable pick : str -> str -> str.
  Variable p : pipeline.
  Variable ls : list (list str).
  Hypothesis Hwf : wf_P p ls.
  Variable inputs : alist.
  Variable Sq : list str.
  Variable p' : pipeline.
  Hypothesis Hsub : subpipeline p (akeys inputs) (Some Sq) = Ok p'.

  Let Hk : forall k, In k (akeys inputs) <-> In k (akeys inputs) := fun k => conj (fun x => x) (fun x => x).

  Lemma pdefault_sub cur d : is_output p cur = false -> pdefault p' cur = Some d -> default_of p cur = Some d.
  Proof.
    intros Ho H. unfold pdefault in H. apply aget_Some_In in H. apply in_rev in H. unfold default_of.
    apply (wf_defaults _ _ Hwf). unfold pdefaults in *. apply in_flat_map in H as [g [Hg H]]. apply in_flat_map. exists g.
    split; [eapply kept_in_p; eauto|]. apply filter_In in H as [H1 H2]. apply filter_In. split; [assumption|]. cbn in *.
    apply andb_true_iff in H2 as [H2 _]. now rewrite H2, Ho.
  Qed.

  Definition StoreOK (store : alist) : Prop :=
    forall o v, aget store o = Some v -> eval_top body pick p inputs o = Ok v.

  Lemma map_args_spec f store args : In f p' -> StoreOK store ->
    map_args p' inputs store f = Ok args -> eval_args body pick p inputs f = Ok args.
  Proof.
    intros Hf Hst. unfold map_args, eval_args, args_with. apply mapM_Ok_transfer. intros [cur orig] y Hin. cbn [fst snd].
    assert (Hcur : In cur (pnames f)) by (apply in_map_iff; now exists (cur, orig)).
    assert (Hfp : In f p) by (eapply kept_in_p; eauto).
    unfold arg_val. destruct (aget (bound f) cur) eqn:Eb; [auto|]. destruct (aget inputs cur) eqn:Ek; [auto|].
    assert (Hni : ~ In cur (akeys inputs)) by now apply aget_None_iff.
    destruct (kept_param p (akeys inputs) Sq p' Hsub f cur Hf Hcur Eb Hni) as [Ho'|[Ho1 [Ho2 _]]].
    - rewrite Ho', (is_output_sub p ls Hwf _ _ _ Hsub cur Ho').
      destruct (aget store cur) as [v|] eqn:Es; cbn; [|discriminate]. intros E. inversion E; subst y.
      apply Hst in Es. pose proof (is_output_sub p ls Hwf _ _ _ Hsub cur Ho') as Hop. clear Ho'. rename Hop into Ho'.
      apply is_output_true in Ho' as [g Eg].
      assert (Hev : eval body pick (length p) p inputs cur = eval_top body pick p inputs cur).
      { unfold eval_top. apply (eval_fuel body pick p inputs ls Hwf); [|apply rk_lt_N; exact Hwf].
        rewrite (rk_producer p ls _ _ Eg). rewrite <- ahas_false_iff in Eb.
        pose proof (wf_rank_edge _ _ Hwf f g cur Hfp Hcur Eb Eg). pose proof (wf_rank_lt _ _ Hwf f Hfp). lia. }
      now rewrite Hev, Es.
    - rewrite Ho1, Ho2. destruct (pdefault p' cur) as [d|] eqn:Ed; cbn; [|discriminate].
      intros E. inversion E; subst y. now rewrite (pdefault_sub cur d Ho2 Ed).
  Qed.

  Definition funcs_of (l : list str) : list pfunc :=
    flat_map (fun n => match node_func p' n with Some f => [f] | None => [] end) l.

  Record MInv (acc : alist * list call) (done : list str) : Prop := {
    mi_store : StoreOK (fst acc);
    mi_outs : forall f o, In f (funcs_of done) -> In o (outs f) -> ahas (fst acc) o = true;
    mi_log : map fst (snd acc) = map fname (funcs_of done);
  }.

  Lemma fold_err l e : fold_left (map_step body pick p' inputs) l (Err e) = Err e.
  Proof. induction l; cbn; auto. Qed.

  Lemma funcs_of_in_p' l f : In f (funcs_of l) -> In f p' /\ In (fid f) l.
  Proof.
    unfold funcs_of. intros H. apply in_flat_map in H as [n [Hn H]]. destruct (node_func p' n) as [g|] eqn:E; [|contradiction].
    destruct H as [<-|[]]. apply node_func_Some in E as [H1 H2]. split; [assumption|]. now rewrite H2.
  Qed.

  Lemma map_fold_spec : forall l done acc acc', MInv acc done ->
    fold_left (map_step body pick p' inputs) l (Ok acc) = Ok acc' -> MInv acc' (done ++ l).
  Proof.
    induction l as [|n l IH]; intros done acc acc' HI H; cbn in H.
    - inversion H; subst. now rewrite app_nil_r.
    - destruct acc as [store lg]. cbn [bind] in H.
      replace (done ++ n :: l) with ((done ++ [n]) ++ l) by now rewrite <- app_assoc.
      destruct (node_func p' n) as [f|] eqn:En.
      + destruct (map_args p' inputs store f) as [args|e] eqn:Ea; cbn [bind] in H; [|now rewrite fold_err in H].
        destruct (body (fname f) args) as [r|e] eqn:Eb; cbn [bind] in H; [|now rewrite fold_err in H].
        apply (IH (done ++ [n])) in H; [assumption|].
        pose proof (node_func_Some _ _ _ En) as [Hf Hfid].
        pose proof (map_args_spec f store args Hf (mi_store _ _ HI) Ea) as Hargs.
        assert (Hfp : In f p) by (eapply kept_in_p; eauto).
        assert (Hfo : funcs_of (done ++ [n]) = funcs_of done ++ [f]).
        { unfold funcs_of. rewrite flat_map_app. cbn. now rewrite En, app_nil_r. }
        constructor; cbn [fst snd].
        * intros o v Hv. rewrite (aget_fold_aset (fun o => route pick f o r)) in Hv.
          destruct (mem_str o (outs f)) eqn:Eo; [|now apply (mi_store _ _ HI)].
          inversion Hv; subst v. apply mem_str_In in Eo. unfold eval_top. cbn [eval].
          rewrite (producer_unique p (wf_outs_nd _ _ Hwf) f o Hfp Eo).
          unfold eval_args in Hargs. rewrite Hargs. cbn [bind]. now rewrite Eb.
        * intros g o Hg Ho. rewrite Hfo in Hg. apply ahas_true_iff. rewrite (aget_fold_aset (fun o => route pick f o r)).
          apply in_app_iff in Hg as [Hg|[<-|[]]].
          -- destruct (mem_str o (outs f)); [eauto|]. apply ahas_true_iff. eapply (mi_outs _ _ HI); eauto.
          -- apply mem_str_In in Ho. rewrite Ho. eauto.
        * pose proof (mi_log _ _ HI) as Hl. cbn [snd] in Hl. rewrite Hfo, !map_app. cbn [map fst]. now rewrite <- Hl.
      + apply (IH (done ++ [n])) in H; [assumption|].
        assert (Hfo : funcs_of (done ++ [n]) = funcs_of done).
        { unfold funcs_of. rewrite flat_map_app. cbn. now rewrite En, app_nil_r. }
        constructor; cbn [fst snd]; try rewrite Hfo; [apply (mi_store _ _ HI)|apply (mi_outs _ _ HI)|apply (mi_log _ _ HI)].
  Qed.

  (* run_map on the validated sub-pipeline *)
  Theorem run_generations_spec store lg : run_generations body pick p' inputs = Ok (store, lg) ->
    (forall o, is_output p' o = true -> exists v, aget store o = Some v /\ eval_top body pick p inputs o = Ok v)
    /\ (forall f, In f p -> (In f p' <-> In (fname f) (map fst lg))).
  Proof.
    unfold run_generations. destruct (topo_generations (fgraph p')) as [layers|] eqn:Et; [|discriminate].
    intros H. assert (HI0 : MInv ([], []) []).
    { constructor; cbn; [intros o v E; discriminate|intros f o []|reflexivity]. }
    pose proof (map_fold_spec _ [] _ _ HI0 H) as HI. cbn [app] in HI.
    assert (Hcov : forall f, In f p' -> In f (funcs_of (concat layers))).
    { intros f Hf. unfold topo_generations in Et. destruct (kahn_sound _ _ _ _ Et) as [_ [Hc _]].
      destruct (Hc (fid f)) as [l [Hl1 Hl2]]; [cbn; now apply in_map|].
      unfold funcs_of. apply in_flat_map. exists (fid f). split; [apply in_concat; eauto|].
      assert (Hfp : In f p) by (eapply kept_in_p; eauto).
      destruct (node_func p' (fid f)) as [g|] eqn:Eg.
      - apply node_func_Some in Eg as [Hg Hfid]. left. eapply (fid_inj p ls Hwf); eauto. eapply kept_in_p; eauto.
      - unfold node_func in Eg. eapply find_none in Eg; eauto. cbn in Eg. now rewrite str_eqb_refl in Eg. }
    split.
    - intros o Ho. apply is_output_true in Ho as [f Ef]. apply producer_Some in Ef as [Hf Hof].
      pose proof (mi_outs _ _ HI f o (Hcov f Hf) Hof) as Hh. apply ahas_true_iff in Hh as [v Hv]. exists v.
      split; [assumption|]. now apply (mi_store _ _ HI).
    - intros f Hfp. pose proof (mi_log _ _ HI) as Hl. cbn [snd] in Hl. rewrite Hl. split.
      + intros Hf. apply in_map. now apply Hcov.
      + intros Hin. apply in_map_iff in Hin as [g [Eg Hg]]. apply funcs_of_in_p' in Hg as [Hg _].
        assert (g = f) by (eapply (fname_inj p ls Hwf); eauto; eapply kept_in_p; eauto). now subst g.
  Qed.
  Lemma NoDup_map_inj_in' {A B} (f : A -> B) l :
    (forall x y, In x l -> In y l -> f x = f y -> x = y) -> NoDup l -> NoDup (map f l).
  Proof.
    induction l as [|a l IH]; intros Hinj Hnd; cbn; [constructor|]. inversion Hnd; subst. constructor.
    - intros Hin. apply in_map_iff in Hin as [b [E Hb]]. assert (b = a) by (apply Hinj; [now right|now left|assumption]).
      subst b. contradiction.
    - apply IH; auto. intros x y Hx Hy. apply Hinj; now right.
  Qed.

  Lemma funcs_of_NoDup : forall l, NoDup l -> NoDup (map fname (funcs_of l)).
  Proof.
    induction l as [|n l IH]; intros Hnd; [constructor|]. inversion Hnd; subst.
    change (funcs_of (n :: l)) with ((match node_func p' n with Some f => [f] | None => [] end) ++ funcs_of l).
    destruct (node_func p' n) as [f|] eqn:En; [|now apply IH]. cbn. constructor; [|now apply IH].
    intros Hin. apply in_map_iff in Hin as [g [Eg Hg]]. apply funcs_of_in_p' in Hg as [Hg1 Hg2].
    apply node_func_Some in En as [Hf Hfid].
    assert (g = f) by (eapply (fname_inj p ls Hwf); eauto; eapply kept_in_p; eauto). subst g. congruence.
  Qed.

  Theorem run_generations_once store lg : run_generations body pick p' inputs = Ok (store, lg) -> NoDup (map fst lg).
  Proof.
    unfold run_generations. destruct (topo_generations (fgraph p')) as [layers|] eqn:Et; [|discriminate].
    intros H. assert (HI0 : MInv ([], []) []).
    { constructor; cbn; [intros o v E; discriminate|intros f o []|reflexivity]. }
    pose proof (map_fold_spec _ [] _ _ HI0 H) as HI. cbn [app] in HI.
    pose proof (mi_log _ _ HI) as Hl. cbn [snd] in Hl. rewrite Hl. apply funcs_of_NoDup.
    unfold topo_generations in Et. apply (kahn_partition _ _ _ _) in Et as [Hnd _]; [assumption|]. cbn.
    apply NoDup_map_inj_in'.
    - intros x y Hx Hy. apply (fid_inj p ls Hwf); eapply kept_in_p; eauto.
    - destruct (sub_facts p (akeys inputs) Sq p' Hsub) as [b [-> _]]. unfold keep. apply filter_NoDup.
      eapply NoDup_map_inv. apply (wf_names_nd _ _ Hwf).
  Qed.
End MapRun.

(* map(inputs, output_names=S [, auto_subpipeline]) : values of the full pipeline; the calls are the kept functions *)
Theorem map_run_spec body pick p inputs Sq auto store lg :
  wf_pipeline p -> map_run body pick p inputs (Some Sq) auto = Ok (store, lg) ->
  exists p', subpipeline p (akeys inputs) (Some Sq) = Ok p'
    /\ (forall o, In o Sq -> exists v, aget store o = Some v /\ eval_top body pick p inputs o = Ok v)
    /\ (forall f, In f p -> (In f p' <-> In (fname f) (map fst lg)))
    /\ NoDup (map fst lg).
Proof.
  intros Hwf H. destruct (wf_pipeline_elim p Hwf) as [ls Hw]. unfold map_run in H.
  replace (auto || true) with true in H by now destruct auto.
  destruct (subpipeline p (akeys inputs) (Some Sq)) as [p'|e] eqn:Es; cbn [bind] in H; [|discriminate].
  destruct (validate_complete_inputs p' inputs); cbn [bind] in H; [|discriminate].
  exists p'. split; [reflexivity|].
  destruct (run_generations_spec body pick p ls Hw inputs Sq p' Es store lg H) as [H1 H2].
  split; [|split; [exact H2|exact (run_generations_once body pick p ls Hw inputs Sq p' Es store lg H)]].
  intros o Ho. apply H1. destruct (sub_facts p (akeys inputs) Sq p' Es) as [b [_ [Houts _]]]. now apply Houts.
Qed.

(* with root arguments as inputs the calls are exactly the needed functions, each once *)
Theorem map_calls_exactly_needed body pick p inputs Sq auto store lg :
  wf_pipeline p -> map_run body pick p inputs (Some Sq) auto = Ok (store, lg) ->
  (forall k, In k (akeys inputs) -> is_output p k = false) ->
  NoDup (map fst lg)
  /\ forall f, In f p -> (In (fname f) (map fst lg) <-> exists o, In o Sq /\ In f (needed_top p inputs o)).
Proof.
  intros Hwf H Hr. destruct (map_run_spec body pick p inputs Sq auto store lg Hwf H) as [p' [Es [_ [H2 H3]]]].
  split; [assumption|]. intros f Hf. rewrite <- (H2 f Hf).
  apply (subpipeline_needed_exact_roots p (akeys inputs) Sq p' inputs Hwf Es (fun k => conj (fun x => x) (fun x => x)) Hr f Hf).
Qed.
