(* C17: value equality is Leibniz equality; the counting loop of count_sweep. *)
From Verif Require Import Base.Prelude Base.Index Model.Sweep Model.SweepSpec Proofs.SweepFacts.

Fixpoint sx_ind' (P : sx -> Prop) (HI : forall z, P (SI z)) (HS : forall x, P (SS x))
  (HL : forall l, Forall P l -> P (SL l)) (x : sx) : P x :=
  match x with
  | SI z => HI z
  | SS t => HS t
  | SL l => HL l ((fix go (l : list sx) : Forall P l :=
                     match l with [] => Forall_nil P | y :: t => Forall_cons y (sx_ind' P HI HS HL y) (go t) end) l)
  end.

Lemma sx_eqb_SL l : forall l', sx_eqb (SL l) (SL l') = list_eqb sx_eqb l l'.
Proof.
  induction l as [|a l IH]; intros [|b l']; try reflexivity.
  cbn [list_eqb]. rewrite <- IH. reflexivity.
Qed.

Lemma list_eqb_eq {A} (eqb : A -> A -> bool) l :
  Forall (fun x => forall y, eqb x y = true <-> x = y) l -> forall l', list_eqb eqb l l' = true <-> l = l'.
Proof.
  induction 1 as [|x l Hx _ IH]; intros [|y l']; cbn; try (split; [discriminate|intros H; inversion H]); [tauto|].
  rewrite andb_true_iff, Hx, IH. split; [intros [-> ->]; reflexivity|intros H; inversion H; auto].
Qed.

Lemma sx_eqb_eq a : forall b, sx_eqb a b = true <-> a = b.
Proof.
  induction a as [z|x|l IH] using sx_ind'; intros b.
  - destruct b; cbn; try (split; [discriminate|intros H; inversion H]). rewrite Z.eqb_eq. split; [now intros ->|intros H; now inversion H].
  - destruct b; cbn; try (split; [discriminate|intros H; inversion H]). rewrite str_eqb_eq. split; [now intros ->|intros H; now inversion H].
  - destruct b as [| |l']; try (split; [discriminate|intros H; inversion H]).
    rewrite sx_eqb_SL, (list_eqb_eq sx_eqb l IH). split; [now intros ->|intros H; now inversion H].
Qed.

Lemma vals_eqb_eq a b : vals_eqb a b = true <-> a = b.
Proof. unfold vals_eqb. apply list_eqb_eq. apply Forall_forall. intros x _. apply sx_eqb_eq. Qed.

Lemma vals_eqb_refl a : vals_eqb a a = true.
Proof. now apply vals_eqb_eq. Qed.

Lemma mem_vals_In x l : mem_vals x l = true <-> In x l.
Proof.
  induction l as [|y l IH]; cbn; [split; [discriminate|tauto]|].
  rewrite orb_true_iff, IH, vals_eqb_eq. split; intros [H|H]; auto.
Qed.

(* ---------- count_sweep ---------- *)
Fixpoint cnt_get (cnt : list (list val * nat)) (key : list val) : nat :=
  match cnt with
  | [] => 0
  | (k, n) :: t => if vals_eqb key k then n else cnt_get t key
  end.

Lemma cnt_incr_get cnt key key' :
  cnt_get (cnt_incr cnt key) key' = cnt_get cnt key' + (if vals_eqb key' key then 1 else 0).
Proof.
  induction cnt as [|[k n] cnt IH]; cbn [cnt_incr cnt_get].
  - destruct (vals_eqb key' key); reflexivity.
  - destruct (vals_eqb key k) eqn:E; cbn [cnt_get].
    + apply vals_eqb_eq in E. subst k. destruct (vals_eqb key' key); lia.
    + destruct (vals_eqb key' k) eqn:E2.
      * apply vals_eqb_eq in E2. subst k. destruct (vals_eqb key' key) eqn:E3; [|lia].
        apply vals_eqb_eq in E3. subst. rewrite vals_eqb_refl in E. discriminate.
      * apply IH.
Qed.

Lemma cnt_incr_keys cnt key k : In k (map fst (cnt_incr cnt key)) <-> In k (map fst cnt) \/ k = key.
Proof.
  induction cnt as [|[k0 n] cnt IH]; cbn [cnt_incr map fst In].
  - split; [intros [H|[]]; auto|intros [[]|H]; auto].
  - destruct (vals_eqb key k0) eqn:E; cbn [map fst In].
    + apply vals_eqb_eq in E. subst. intuition (subst; auto).
    + rewrite IH. tauto.
Qed.

Lemma cnt_incr_NoDup cnt key : NoDup (map fst cnt) -> NoDup (map fst (cnt_incr cnt key)).
Proof.
  induction cnt as [|[k0 n] cnt IH]; cbn [cnt_incr map fst]; intros H.
  - constructor; [intros []|constructor].
  - destruct (vals_eqb key k0) eqn:E; cbn [map fst]; [exact H|].
    inversion H; subst. constructor; [|now apply IH].
    intros Hin. apply cnt_incr_keys in Hin as [Hin|Hin]; [contradiction|].
    subst. rewrite vals_eqb_refl in E. discriminate.
Qed.

Lemma cnt_incr_pos cnt key : Forall (fun kn => 0 < snd kn) cnt -> Forall (fun kn => 0 < snd kn) (cnt_incr cnt key).
Proof.
  induction cnt as [|[k0 n] cnt IH]; cbn [cnt_incr]; intros H.
  - repeat constructor.
  - inversion H; subst. destruct (vals_eqb key k0); constructor; cbn [snd] in *; auto; lia.
Qed.

Lemma mapM_dgetE_tuple c args key : mapM (dgetE c) args = Ok key -> key = tuple_of args c.
Proof.
  revert key; induction args as [|k args IH]; cbn [mapM tuple_of map]; intros key H.
  - now injection H as <-.
  - unfold dgetE at 1 in H. destruct (dget c k) as [v|]; cbn [bind] in H; [|discriminate].
    destruct (mapM (dgetE c) args) as [vs|]; cbn [bind] in H; [|discriminate]. injection H as <-.
    f_equal. now apply IH.
Qed.

Lemma count_loop_inv args cs : forall cnt cnt',
  count_loop args cs cnt = Ok cnt' -> NoDup (map fst cnt) -> Forall (fun kn => 0 < snd kn) cnt ->
  NoDup (map fst cnt') /\ Forall (fun kn => 0 < snd kn) cnt'
  /\ (forall key, cnt_get cnt' key = cnt_get cnt key + count_of args cs key)
  /\ (forall key, In key (map fst cnt') <-> In key (map fst cnt) \/ In key (map (tuple_of args) cs)).
Proof.
  induction cs as [|c cs IH]; intros cnt cnt' H Hnd Hpos; cbn [count_loop] in H.
  - injection H as <-. repeat split; try assumption.
    + intros key. unfold count_of. cbn. lia.
    + cbn. tauto.
    + cbn. tauto.
  - destruct (mapM (dgetE c) args) as [key0|] eqn:E; cbn [bind] in H; [|discriminate].
    apply mapM_dgetE_tuple in E. subst key0.
    destruct (IH _ _ H (cnt_incr_NoDup _ _ Hnd) (cnt_incr_pos _ _ Hpos)) as [H1 [H2 [H3 H4]]].
    repeat split; try assumption.
    + intros key. rewrite H3, cnt_incr_get. unfold count_of. cbn [filter].
      destruct (vals_eqb key (tuple_of args c)) eqn:E1; destruct (vals_eqb (tuple_of args c) key) eqn:E2;
        cbn [length]; try lia.
      * apply vals_eqb_eq in E1. subst. rewrite vals_eqb_refl in E2. discriminate.
      * apply vals_eqb_eq in E2. subst. rewrite vals_eqb_refl in E1. discriminate.
    + intros Hin. apply H4 in Hin as [Hin|Hin]; [|right; now right].
      apply cnt_incr_keys in Hin as [Hin|Hin]; [now left|]. right. left. now symmetry.
    + intros [Hin|Hin]; apply H4.
      * left. apply cnt_incr_keys. now left.
      * destruct Hin as [Hin|Hin]; [|now right]. left. apply cnt_incr_keys. right. now symmetry.
Qed.

Lemma cnt_get_In cnt key n : NoDup (map fst cnt) -> In (key, n) cnt -> cnt_get cnt key = n.
Proof.
  induction cnt as [|[k0 n0] cnt IH]; cbn [map fst cnt_get]; intros Hnd Hin; [contradiction|].
  inversion Hnd; subst. destruct Hin as [Hin|Hin].
  - injection Hin as -> ->. now rewrite vals_eqb_refl.
  - destruct (vals_eqb key k0) eqn:E.
    + apply vals_eqb_eq in E. subst. exfalso. apply H1. change k0 with (fst (k0, n)). now apply in_map.
    + now apply IH.
Qed.

(* count_sweep reports, for each dependency, every root-argument tuple that occurs exactly once, with the
   number of combinations that share it *)
Theorem count_sweep_counts deps cs r :
  count_sweep deps cs = Ok r ->
  map fst r = map fst deps
  /\ Forall2 (fun da dc =>
       let args := snd da in let cnt := snd dc in
       NoDup (map fst cnt)
       /\ (forall key n, In (key, n) cnt -> n = count_of args cs key /\ 0 < n)
       /\ (forall c, In c cs -> In (tuple_of args c) (map fst cnt))) deps r.
Proof.
  unfold count_sweep. revert r. induction deps as [|[d args] deps IH]; cbn [mapM]; intros r H.
  - injection H as <-. split; [reflexivity|constructor].
  - cbn [fst snd] in H. destruct (count_loop args cs []) as [cnt|] eqn:E; cbn [bind] in H; [|discriminate].
    destruct (mapM _ deps) as [rest|] eqn:Er; cbn [bind] in H; [|discriminate]. injection H as <-.
    destruct (IH _ eq_refl) as [IH1 IH2]. split; [cbn; now rewrite IH1|]. constructor; [|exact IH2].
    cbn [fst snd]. destruct (count_loop_inv _ _ _ _ E (NoDup_nil _) (Forall_nil _)) as [H1 [H2 [H3 H4]]].
    split; [exact H1|]. split.
    + intros key n Hin. split.
      * rewrite <- (cnt_get_In _ _ _ H1 Hin), H3. reflexivity.
      * rewrite Forall_forall in H2. apply (H2 _ Hin).
    + intros c Hc. apply H4. right. now apply in_map.
Qed.
