(* Proofs about Model/Sweep.v against Model/SweepSpec.v (C17): basics, len_eq_length,
   generate_is_rowmajor_product. *)
From Verif Require Import Base.Prelude Base.Index Model.Sweep Model.SweepSpec Proofs.IndexFacts.

(* ---------- strings, membership ---------- *)
Lemma str_eqb_refl x : str_eqb x x = true.
Proof. induction x as [|c x IH]; cbn; [reflexivity|]. now rewrite Ascii.eqb_refl, IH. Qed.

Lemma str_eqb_eq x y : str_eqb x y = true <-> x = y.
Proof.
  split; [|intros ->; apply str_eqb_refl].
  revert y; induction x as [|c x IH]; intros [|d y] H; cbn in H; try discriminate; [reflexivity|].
  apply andb_true_iff in H as [H1 H2]. apply Ascii.eqb_eq in H1. subst. f_equal. now apply IH.
Qed.

Lemma str_eqb_neq x y : str_eqb x y = false <-> x <> y.
Proof.
  split.
  - intros H E. subst. now rewrite str_eqb_refl in H.
  - intros H. destruct (str_eqb x y) eqn:E; [|reflexivity]. apply str_eqb_eq in E. contradiction.
Qed.

Lemma str_eqb_sym x y : str_eqb x y = str_eqb y x.
Proof.
  destruct (str_eqb x y) eqn:E.
  - apply str_eqb_eq in E. subst. now rewrite str_eqb_refl.
  - symmetry. apply str_eqb_neq. apply str_eqb_neq in E. congruence.
Qed.

Lemma mem_str_In x l : mem_str x l = true <-> In x l.
Proof.
  induction l as [|y l IH]; cbn; [split; [discriminate|tauto]|].
  rewrite orb_true_iff, IH, str_eqb_eq. split; intros [H|H]; auto.
Qed.

Lemma mem_str_nIn x l : mem_str x l = false <-> ~ In x l.
Proof.
  rewrite <- mem_str_In. destruct (mem_str x l); split; intros H; try reflexivity; try discriminate.
  exfalso; now apply H.
Qed.

Lemma nodup_str_NoDup l : nodup_str l = true <-> NoDup l.
Proof.
  induction l as [|x l IH]; cbn; [split; [constructor|reflexivity]|].
  rewrite andb_true_iff, negb_true_iff, mem_str_nIn, IH. split.
  - intros [H1 H2]. now constructor.
  - intros H. inversion H; subst. tauto.
Qed.

(* ---------- dicts ---------- *)
Lemma dget_In_keys {V} (d : dict V) k v : dget d k = Some v -> In k (dkeys d).
Proof.
  induction d as [|[k' v'] d IH]; cbn; [discriminate|].
  destruct (str_eqb k k') eqn:E; intros H.
  - left. symmetry. now apply str_eqb_eq.
  - right. now apply IH.
Qed.

Lemma dget_None {V} (d : dict V) k : dget d k = None <-> ~ In k (dkeys d).
Proof.
  induction d as [|[k' v'] d IH]; cbn; [tauto|].
  destruct (str_eqb k k') eqn:E.
  - apply str_eqb_eq in E. subst. split; [discriminate|]. intros H. exfalso. apply H. now left.
  - apply str_eqb_neq in E. rewrite IH. split; intros H; [intros [H1|H1]; [congruence|tauto]|tauto].
Qed.

Lemma dhas_In {V} (d : dict V) k : dhas d k = true <-> In k (dkeys d).
Proof.
  unfold dhas. destruct (dget d k) eqn:E.
  - split; [intros _; eapply dget_In_keys; eassumption|reflexivity].
  - split; [discriminate|]. intros H. apply dget_None in E. contradiction.
Qed.

Lemma dhas_mem {V} (d : dict V) k : dhas d k = mem_str k (dkeys d).
Proof.
  destruct (mem_str k (dkeys d)) eqn:E.
  - now apply dhas_In, mem_str_In.
  - destruct (dhas d k) eqn:E2; [|reflexivity]. apply dhas_In, mem_str_In in E2. congruence.
Qed.

Lemma dget_app {V} (a b : dict V) k :
  dget (a ++ b) k = match dget a k with Some v => Some v | None => dget b k end.
Proof.
  induction a as [|[k' v'] a IH]; cbn; [reflexivity|]. destruct (str_eqb k k'); [reflexivity|apply IH].
Qed.

Lemma dget_dset {V} (d : dict V) k v k' :
  dget (dset d k v) k' = if str_eqb k' k then Some v else dget d k'.
Proof.
  induction d as [|[k0 v0] d IH]; cbn.
  - reflexivity.
  - destruct (str_eqb k k0) eqn:E; cbn.
    + apply str_eqb_eq in E. subst k0. destruct (str_eqb k' k); reflexivity.
    + destruct (str_eqb k' k0) eqn:E2.
      * apply str_eqb_eq in E2. subst k0. rewrite str_eqb_sym in E. now rewrite E.
      * apply IH.
Qed.

Lemma dset_fresh {V} (d : dict V) k v : ~ In k (dkeys d) -> dset d k v = d ++ [(k, v)].
Proof.
  induction d as [|[k0 v0] d IH]; cbn; intros H; [reflexivity|].
  destruct (str_eqb k k0) eqn:E.
  - apply str_eqb_eq in E. subst. exfalso. apply H. now left.
  - f_equal. apply IH. tauto.
Qed.

Lemma dkeys_app {V} (a b : dict V) : dkeys (a ++ b) = dkeys a ++ dkeys b.
Proof. apply map_app. Qed.

Lemma dupdate_fresh {V} (e : dict V) : forall d,
  NoDup (dkeys d ++ dkeys e) -> dupdate d e = d ++ e.
Proof.
  unfold dupdate. induction e as [|[k v] e IH]; intros d H; cbn.
  - now rewrite app_nil_r.
  - rewrite dset_fresh.
    + rewrite IH.
      * now rewrite <- app_assoc.
      * rewrite dkeys_app. cbn. rewrite <- app_assoc. exact H.
    + cbn in H. apply NoDup_remove_2 in H. intros Hin. apply H. apply in_or_app. now left.
Qed.

Lemma dict_of_nodup {V} (l : dict V) : NoDup (dkeys l) -> dict_of l = l.
Proof. intros H. unfold dict_of. now rewrite dupdate_fresh. Qed.

Lemma In_dget {V} (d : dict V) k v : NoDup (dkeys d) -> In (k, v) d -> dget d k = Some v.
Proof.
  induction d as [|[k0 v0] d IH]; cbn; intros Hnd Hin; [contradiction|].
  inversion Hnd as [|? ? Hn Hnd']; subst. destruct Hin as [Hin|Hin].
  - inversion Hin; subst. now rewrite str_eqb_refl.
  - destruct (str_eqb k k0) eqn:E.
    + apply str_eqb_eq in E. subst. exfalso. apply Hn. change k0 with (fst (k0, v)). now apply in_map.
    + now apply IH.
Qed.

(* ---------- mapM ---------- *)
Lemma mapM_app {A B} (f : A -> result B) l1 l2 :
  mapM f (l1 ++ l2) = do a <- mapM f l1; do b <- mapM f l2; Ok (a ++ b).
Proof.
  induction l1 as [|x l1 IH]; cbn.
  - destruct (mapM f l2); reflexivity.
  - destruct (f x); cbn; [|reflexivity]. rewrite IH. destruct (mapM f l1); cbn; [|reflexivity].
    destruct (mapM f l2); reflexivity.
Qed.

Lemma mapM_Ok_length {A B} (f : A -> result B) l r : mapM f l = Ok r -> length r = length l.
Proof.
  revert r; induction l as [|x l IH]; cbn; intros r H.
  - now inversion H.
  - destruct (f x); cbn in H; [|discriminate]. destruct (mapM f l); cbn in H; [|discriminate].
    inversion H; subst. cbn. f_equal. now apply IH.
Qed.

Lemma mapM_Ok_map {A B} (f : A -> result B) (g : A -> B) l :
  (forall x, In x l -> f x = Ok (g x)) -> mapM f l = Ok (map g l).
Proof.
  induction l as [|x l IH]; intros H; cbn; [reflexivity|].
  rewrite H by (left; reflexivity). cbn. rewrite IH; [reflexivity|]. intros; apply H; right; assumption.
Qed.

Lemma mapM_ext_in {A B} (f g : A -> result B) l :
  (forall x, In x l -> f x = g x) -> mapM f l = mapM g l.
Proof.
  induction l as [|x l IH]; intros H; cbn; [reflexivity|].
  rewrite H by (left; reflexivity). rewrite IH; [reflexivity|]. intros; apply H; right; assumption.
Qed.

Lemma mapM_Ok_inv {A B} (f : A -> result B) l r :
  mapM f l = Ok r -> forall x, In x l -> exists y, f x = Ok y /\ In y r.
Proof.
  revert r; induction l as [|x l IH]; cbn; intros r H y Hin; [contradiction|].
  destruct (f x) eqn:E; cbn in H; [|discriminate]. destruct (mapM f l) eqn:E2; cbn in H; [|discriminate].
  inversion H; subst. destruct Hin as [->|Hin].
  - exists a. split; [assumption|now left].
  - destruct (IH _ eq_refl _ Hin) as [z [Hz1 Hz2]]. exists z. split; [assumption|now right].
Qed.

(* ---------- cart / zipn ---------- *)
Lemma flat_map_length_const {A B} (f : A -> list B) l n :
  (forall x, In x l -> length (f x) = n) -> length (flat_map f l) = length l * n.
Proof.
  induction l as [|x l IH]; intros H; cbn; [reflexivity|].
  rewrite app_length, H by (left; reflexivity). rewrite IH; [reflexivity|]. intros; apply H; now right.
Qed.

Lemma cart_length {A} (ls : list (list A)) : length (cart ls) = prod (map (@length A) ls).
Proof.
  induction ls as [|l t IH]; [reflexivity|]. cbn [cart map]. rewrite prod_cons.
  rewrite (flat_map_length_const _ _ (prod (map (@length A) t))); [reflexivity|].
  intros x _. now rewrite map_length.
Qed.

Lemma zipn_length {A} (ls : list (list A)) n :
  ls <> [] -> (forall q, In q ls -> length q = n) -> length (zipn ls) = n.
Proof.
  induction ls as [|l t IH]; intros Hne H; [congruence|].
  cbn [zipn]. destruct t as [|l2 t'].
  - rewrite map_length. apply H. now left.
  - rewrite map_length, combine_length, IH; [|discriminate|intros; apply H; now right].
    rewrite (H l) by now left. apply Nat.min_id.
Qed.

(* ---------- len_eq_length ---------- *)
Lemma finish_all_noexcl_length s : excl s = None ->
  forall b l, finish_all s b = Ok l -> length l = length b.
Proof.
  intros He. induction b as [|c b IH]; cbn; intros l H.
  - now inversion H.
  - unfold finish in H. rewrite He in H.
    destruct (apply_ders (apply_consts c (consts s)) (ders s)); cbn in H; [|discriminate].
    destruct (finish_all s b); cbn in H; [|discriminate]. inversion H; subst. cbn. f_equal. now apply IH.
Qed.

Lemma full_base_length it : length (full_base it) = prod (map (fun kv => length (snd kv)) it).
Proof. unfold full_base. now rewrite map_length, cart_length, map_map. Qed.

Lemma group_part_length it g p :
  group_part it g = Ok p ->
  match at_least_tuple g with
  | [] => Err IndexError
  | k :: _ => do l <- dgetE it k; Ok (length l)
  end = Ok (length p).
Proof.
  unfold group_part. destruct (at_least_tuple g) as [|k ks] eqn:Eg.
  - cbn [mapM bind check_dim_lengths]. discriminate.
  - cbn [mapM]. destruct (dgetE it k) as [l0|] eqn:E0; cbn [bind]; [|discriminate].
    destruct (mapM (dgetE it) ks) as [rest|] eqn:E1; cbn [bind]; [|discriminate].
    unfold check_dim_lengths.
    destruct (forallb (fun q => length q =? length l0) (l0 :: rest)) eqn:Ec; cbn [bind]; [|discriminate].
    intros H. injection H as <-. rewrite map_length. f_equal. symmetry.
    rewrite forallb_forall in Ec.
    apply (zipn_length (l0 :: rest) (length l0)); [discriminate|]. intros q Hq. now apply Nat.eqb_eq, Ec.
Qed.

Lemma grouped_length it d parts :
  mapM (group_part it) d = Ok parts ->
  mapM (fun g => match at_least_tuple g with
                 | [] => Err IndexError
                 | k :: _ => do l <- dgetE it k; Ok (length l)
                 end) d = Ok (map (@length combo) parts).
Proof.
  revert parts; induction d as [|g d IH]; cbn; intros parts H.
  - now inversion H.
  - destruct (group_part it g) as [p|] eqn:Ep; cbn in H; [|discriminate].
    destruct (mapM (group_part it) d) as [ps|] eqn:Eps; cbn in H; [|discriminate].
    inversion H; subst. rewrite (group_part_length _ _ _ Ep). cbn. now rewrite (IH _ eq_refl).
Qed.

Definition len_nonempty (s : sweep) : result nat :=
  match excl s with
  | Some _ => do l <- generate s; Ok (length l)
  | None =>
      let full := prod (map (fun kv => length (snd kv)) (items s)) in
      match dims s with
      | None => Ok full
      | Some d =>
          if dims_is_keyset d (dkeys (items s)) then Ok full
          else
            do ls <- mapM (fun g => match at_least_tuple g with
                                    | [] => Err IndexError
                                    | k :: _ => do l <- dgetE (items s) k; Ok (length l)
                                    end) d;
            Ok (prod ls)
      end
  end.

Lemma len_cons s : items s <> [] -> len s = len_nonempty s.
Proof. unfold len, len_nonempty. destruct (items s); [congruence|reflexivity]. Qed.
Lemma generate_cons s : items s <> [] -> generate s = do b <- base_combos s; finish_all s b.
Proof. unfold generate. destruct (items s); [congruence|reflexivity]. Qed.
Lemma generate_nil s : items s = [] -> generate s = Ok [].
Proof. unfold generate. now intros ->. Qed.
Lemma len_nil s : items s = [] -> len s = Ok 0.
Proof. unfold len. now intros ->. Qed.

Theorem len_eq_length s l : generate s = Ok l -> len s = Ok (length l).
Proof.
  destruct (items s) as [|kv it] eqn:Eit.
  - rewrite generate_nil, len_nil by assumption. intros H. now inversion H.
  - assert (Hne : items s <> []) by (rewrite Eit; discriminate). clear Eit.
    rewrite len_cons by assumption. unfold len_nonempty. destruct (excl s) as [e|] eqn:Ee.
    + intros H. now rewrite H.
    + rewrite generate_cons by assumption.
      destruct (base_combos s) as [b|] eqn:Eb; cbn [bind]; [|discriminate]. intros H.
      apply (finish_all_noexcl_length s Ee) in H. rewrite H. clear H.
      unfold base_combos in Eb. cbv zeta. destruct (dims s) as [d|].
      * destruct (dims_is_keyset d (dkeys (items s))).
        -- injection Eb as <-. now rewrite full_base_length.
        -- unfold grouped_base in Eb. destruct (mapM (group_part (items s)) d) as [parts|] eqn:Ep; cbn [bind] in Eb; [|discriminate].
           injection Eb as <-. rewrite (grouped_length _ _ _ Ep). cbn [bind]. now rewrite map_length, cart_length.
      * injection Eb as <-. now rewrite full_base_length.
Qed.

(* ---------- finishing: model = spec ---------- *)
Lemma apply_consts_spec (kd : combo) : NoDup (dkeys kd) -> forall c : combo,
  fold_left (fun acc kv => dsetdefault acc (fst kv) (snd kv)) kd c
  = c ++ filter (fun kv => negb (mem_str (fst kv) (dkeys c))) kd.
Proof.
  induction kd as [|[k v] kd IH]; intros Hnd c; cbn [fold_left filter fst snd].
  - now rewrite app_nil_r.
  - inversion Hnd as [|? ? Hn Hnd']; subst. unfold dsetdefault at 2. cbn [fst snd]. rewrite dhas_mem.
    destruct (mem_str k (dkeys c)) eqn:E; cbn [negb].
    + now apply IH.
    + rewrite IH by assumption. rewrite <- app_assoc. cbn [app]. do 2 f_equal.
      apply filter_ext_in. intros [k' v'] Hin. cbn [fst]. rewrite dkeys_app. unfold dkeys at 2. cbn [map fst].
      f_equal. destruct (mem_str k' (dkeys c)) eqn:E2.
      * apply mem_str_In. apply in_or_app. left. now apply mem_str_In.
      * apply mem_str_nIn. intros Hin'. apply in_app_or in Hin' as [Hin'|[Hin'|[]]].
        -- apply mem_str_nIn in E2. contradiction.
        -- subst k'. apply Hn. change k with (fst (k, v')). now apply in_map.
Qed.

Lemma apply_consts_eq c k : NoDup (opt_keys k) -> apply_consts c k = spec_consts c k.
Proof. destruct k as [kd|]; cbn; intros H; [now apply apply_consts_spec|reflexivity]. Qed.

Lemma apply_ders_l_eq ds : forall c, apply_ders_l c ds = spec_derive c ds.
Proof. induction ds as [|[k f] ds IH]; intros c; cbn; [reflexivity|]. destruct (f c); cbn; [apply IH|reflexivity]. Qed.

Lemma finish_eq s c : NoDup (opt_keys (consts s)) -> finish s c = spec_finish s c.
Proof.
  intros H. unfold finish, spec_finish. rewrite apply_consts_eq by assumption.
  unfold apply_ders. destruct (ders s) as [l|].
  - rewrite apply_ders_l_eq. destruct (spec_derive _ l); cbn [bind]; [|reflexivity].
    destruct (excl s); reflexivity.
  - cbn [bind]. destruct (excl s); reflexivity.
Qed.

Lemma finish_all_eq s : NoDup (opt_keys (consts s)) ->
  forall b, finish_all s b = do l <- mapM (spec_finish s) b; Ok (somes l).
Proof.
  intros H. induction b as [|c b IH]; cbn [finish_all mapM]; [reflexivity|].
  rewrite finish_eq by assumption. destruct (spec_finish s c) as [r|]; cbn [bind]; [|reflexivity].
  rewrite IH. destruct (mapM (spec_finish s) b); cbn [bind]; [|reflexivity]. destruct r; reflexivity.
Qed.

(* ---------- the base combinations: model = row-major enumeration of index vectors ---------- *)
Definition dflt : val := SL [].
Definition row (it : dict (list val)) (g : list str) (i : nat) : combo :=
  map (fun k => (k, nth i (col it k) dflt)) g.
Definition parts_of (it : dict (list val)) (gs : list (list str)) : list (list combo) :=
  map (fun g => map (row it g) (seq 0 (glen it g))) gs.

Lemma combo_at_cons it g gs i idx : combo_at it (g :: gs) (i :: idx) = row it g i ++ combo_at it gs idx.
Proof. reflexivity. Qed.

Lemma cart_parts_of it gs :
  map (@concat _) (cart (parts_of it gs)) = map (combo_at it gs) (all_indices (map (glen it) gs)).
Proof.
  induction gs as [|g gs IH]; [reflexivity|].
  cbn [parts_of map cart all_indices]. fold (parts_of it gs).
  rewrite !map_flat_map, flat_map_map. apply flat_map_ext_in. intros i _.
  rewrite !map_map.
  transitivity (map (fun r => row it g i ++ r) (map (@concat _) (cart (parts_of it gs)))).
  - now rewrite map_map.
  - rewrite IH, map_map. reflexivity.
Qed.

Lemma row_keys it g i : dkeys (row it g i) = g.
Proof. unfold row, dkeys. rewrite map_map. cbn. apply map_id. Qed.

Lemma cart_parts_keys it gs r : In r (cart (parts_of it gs)) -> dkeys (concat r) = concat gs.
Proof.
  revert r; induction gs as [|g gs IH]; intros r H.
  - cbn in H. destruct H as [<-|[]]. reflexivity.
  - cbn [parts_of map cart] in H. fold (parts_of it gs) in H. apply in_flat_map in H as [x [Hx H]].
    apply in_map_iff in H as [r' [<- Hr']]. apply in_map_iff in Hx as [i [<- _]].
    cbn [concat]. rewrite dkeys_app, row_keys, (IH _ Hr'). reflexivity.
Qed.

Lemma combine_map_seq {A B} (f : nat -> A) (g : nat -> B) n : forall a,
  combine (map f (seq a n)) (map g (seq a n)) = map (fun i => (f i, g i)) (seq a n).
Proof. induction n as [|n IH]; intros a; cbn; [reflexivity|]. now rewrite IH. Qed.

Lemma map_nth_seq {A} (l : list A) d : l = map (fun i => nth i l d) (seq 0 (length l)).
Proof.
  induction l as [|x l IH]; [reflexivity|]. cbn [length seq map nth]. f_equal.
  rewrite <- seq_shift, map_map. exact IH.
Qed.

Lemma zipn_nth {A} (d : A) (ls : list (list A)) n :
  ls <> [] -> (forall q, In q ls -> length q = n) ->
  zipn ls = map (fun i => map (fun q => nth i q d) ls) (seq 0 n).
Proof.
  induction ls as [|l t IH]; intros Hne H; [congruence|].
  assert (Hl : length l = n) by (apply H; now left).
  cbn [zipn]. destruct t as [|l2 t'].
  - rewrite (map_nth_seq l d) at 1. rewrite map_map, Hl. reflexivity.
  - rewrite IH; [|discriminate|intros; apply H; now right].
    rewrite (map_nth_seq l d) at 1. rewrite Hl, combine_map_seq, map_map. reflexivity.
Qed.

Lemma wf_group_dget it g : wf_group it g = true ->
  g <> [] /\ forall k, In k g -> dhas it k = true /\ length (col it k) = glen it g.
Proof.
  unfold wf_group. intros H. apply andb_true_iff in H as [H1 H2]. split.
  - destruct g; [discriminate|discriminate].
  - rewrite forallb_forall in H2. intros k Hk. specialize (H2 k Hk). apply andb_true_iff in H2 as [H2 H3].
    split; [assumption|now apply Nat.eqb_eq].
Qed.

Lemma dgetE_col it k : dhas it k = true -> dgetE it k = Ok (col it k).
Proof. unfold dhas, dgetE, col. destruct (dget it k); [reflexivity|discriminate]. Qed.

Lemma check_dim_lengths_ok seqs n :
  seqs <> [] -> (forall q, In q seqs -> length q = n) -> check_dim_lengths seqs = Ok tt.
Proof.
  intros Hne H. unfold check_dim_lengths. destruct seqs as [|s0 t] eqn:E; [congruence|].
  rewrite (proj2 (forallb_forall _ _)); [reflexivity|].
  intros q Hq. apply Nat.eqb_eq. rewrite (H q Hq). symmetry. apply H. now left.
Qed.

Lemma combine_map_r {A B} (f : A -> B) (l : list A) : combine l (map f l) = map (fun x => (x, f x)) l.
Proof. induction l as [|x l IH]; cbn; [reflexivity|]. now rewrite IH. Qed.

Lemma group_part_aux it ks n :
  ks <> [] -> (forall k, In k ks -> dhas it k = true /\ length (col it k) = n) -> NoDup ks ->
  (do seqs <- mapM (dgetE it) ks;
   do _ <- check_dim_lengths seqs;
   Ok (map (fun res => dict_of (combine ks res)) (zipn seqs))) = Ok (map (row it ks) (seq 0 n)).
Proof.
  intros Hne Hk Hnd.
  rewrite (mapM_Ok_map _ (col it)) by (intros k Hin; apply dgetE_col; now apply Hk).
  cbn [bind].
  assert (Hne' : map (col it) ks <> []) by (destruct ks; [congruence|discriminate]).
  assert (Hlen : forall q, In q (map (col it) ks) -> length q = n).
  { intros q Hq. apply in_map_iff in Hq as [k [<- Hin]]. now apply Hk. }
  rewrite (check_dim_lengths_ok _ n Hne' Hlen). cbn [bind]. f_equal.
  rewrite (zipn_nth dflt _ n Hne' Hlen). rewrite map_map. apply map_ext. intros i. unfold row.
  rewrite map_map, combine_map_r. apply dict_of_nodup.
  unfold dkeys. rewrite map_map. cbn [fst]. now rewrite map_id.
Qed.

Lemma group_part_wf it g : wf_group it (at_least_tuple g) = true -> NoDup (at_least_tuple g) ->
  group_part it g = Ok (map (row it (at_least_tuple g)) (seq 0 (glen it (at_least_tuple g)))).
Proof.
  intros Hwf Hnd. destruct (wf_group_dget _ _ Hwf) as [Hne Hk]. unfold group_part.
  now apply group_part_aux.
Qed.

Lemma NoDup_app_l {A} (a b : list A) : NoDup (a ++ b) -> NoDup a.
Proof. induction a as [|x a IH]; cbn; intros H; [constructor|]. inversion H; subst. constructor; [|auto]. intros Hin. apply H2. apply in_or_app. now left. Qed.
Lemma NoDup_app_r {A} (a b : list A) : NoDup (a ++ b) -> NoDup b.
Proof. induction a as [|x a IH]; cbn; intros H; [assumption|]. inversion H; subst. auto. Qed.

Lemma grouped_base_wf it d :
  forallb (wf_group it) (map at_least_tuple d) = true -> NoDup (concat (map at_least_tuple d)) ->
  grouped_base it d = Ok (map (combo_at it (map at_least_tuple d)) (all_indices (map (glen it) (map at_least_tuple d)))).
Proof.
  intros Hwf Hnd. unfold grouped_base.
  assert (Hp : mapM (group_part it) d = Ok (parts_of it (map at_least_tuple d))).
  { clear -Hwf Hnd. induction d as [|g d IH]; [reflexivity|].
    cbn [map forallb concat] in *. apply andb_true_iff in Hwf as [H1 H2].
    cbn [mapM]. rewrite group_part_wf; [|assumption|now apply NoDup_app_l in Hnd]. cbn [bind].
    rewrite IH; [|assumption|now apply NoDup_app_r in Hnd]. reflexivity. }
  rewrite Hp. cbn [bind]. f_equal. rewrite <- cart_parts_of, <- map_map with (g := @concat _) (f := fun x => x) at 1.
  rewrite map_id. apply map_ext_in. intros r Hr. unfold merge_combo. apply dict_of_nodup.
  now rewrite (cart_parts_keys _ _ _ Hr).
Qed.

Definition singles (ks : list str) : list (list str) := map (fun k => [k]) ks.

Lemma NoDup_fst_combine {A B} (a : list A) (b : list B) : NoDup a -> NoDup (map fst (combine a b)).
Proof.
  revert b; induction a as [|x a IH]; intros b H; [constructor|]. destruct b as [|y b]; [constructor|].
  cbn. inversion H; subst. constructor; [|now apply IH].
  intros Hin. apply in_map_iff in Hin as [[x' y'] [Hx Hin]]. cbn in Hx. subst. apply in_combine_l in Hin. contradiction.
Qed.

Lemma full_aux it (l : list (str * list val)) :
  (forall k v, In (k, v) l -> col it k = v) ->
  map (fun res => combine (map fst l) res) (cart (map snd l))
  = map (combo_at it (singles (map fst l))) (all_indices (map (glen it) (singles (map fst l)))).
Proof.
  induction l as [|[k v] l IH]; intros H; [reflexivity|].
  cbn [map fst snd cart singles all_indices]. fold (singles (map fst l)).
  assert (Hv : col it k = v) by (apply H; now left).
  cbn [glen]. rewrite Hv. rewrite !map_flat_map.
  rewrite (map_nth_seq v dflt) at 1. rewrite flat_map_map. apply flat_map_ext_in. intros i _.
  rewrite !map_map.
  transitivity (map (fun r => (k, nth i v dflt) :: r) (map (fun res => combine (map fst l) res) (cart (map snd l)))).
  - now rewrite map_map.
  - rewrite IH by (intros; apply H; now right). rewrite map_map. apply map_ext. intros idx.
    rewrite combo_at_cons. unfold row. cbn [map app]. now rewrite Hv.
Qed.

Lemma full_base_spec it : NoDup (dkeys it) ->
  full_base it = map (combo_at it (singles (dkeys it))) (all_indices (map (glen it) (singles (dkeys it)))).
Proof.
  intros Hnd. unfold full_base. unfold dkeys. rewrite <- (full_aux it it).
  - apply map_ext. intros res. apply dict_of_nodup. now apply NoDup_fst_combine.
  - intros k v Hin. unfold col. now rewrite (In_dget _ _ _ Hnd Hin).
Qed.

(* a duplicate-free sub-sequence of b that contains every element of b is b *)
Lemma subseq_length a : forall b, subseq_str a b = true -> length a <= length b.
Proof.
  induction a as [|x a IH]; intros b H; [cbn; lia|].
  induction b as [|y b IHb]; [discriminate|]. cbn in H. destruct (str_eqb x y).
  - cbn. apply IH in H. lia.
  - apply IHb in H. cbn in *. lia.
Qed.

Lemma subseq_full a : forall b, subseq_str a b = true -> length b <= length a -> a = b.
Proof.
  induction a as [|x a IH]; intros b H Hl.
  - destruct b; [reflexivity|cbn in Hl; lia].
  - destruct b as [|y b]; [discriminate|]. cbn in H. destruct (str_eqb x y) eqn:E.
    + apply str_eqb_eq in E. subst. f_equal. apply IH; [assumption|cbn in Hl; lia].
    + apply subseq_length in H. cbn in *. lia.
Qed.

Definition dstr_keys (d : list dimg) : list str :=
  flat_map (fun g => match g with DStr k => [k] | DTup _ => [] end) d.

Lemma keyset_all_str d ks : dims_is_keyset d ks = true ->
  map at_least_tuple d = singles (dstr_keys d) /\ incl ks (dstr_keys d).
Proof.
  unfold dims_is_keyset. intros H. apply andb_true_iff in H as [H1 H2]. split.
  - clear H2. induction d as [|g d IH]; [reflexivity|]. cbn [forallb] in H1. apply andb_true_iff in H1 as [Hg H1].
    destruct g as [k|t]; [|discriminate]. cbn. f_equal. now apply IH.
  - rewrite forallb_forall in H2. intros k Hk. specialize (H2 k Hk). apply existsb_exists in H2 as [g [Hg1 Hg2]].
    destruct g as [k'|t]; [|discriminate]. apply str_eqb_eq in Hg2. subst k'.
    unfold dstr_keys. apply in_flat_map. exists (DStr k). split; [assumption|now left].
Qed.

Lemma concat_singles ks : concat (singles ks) = ks.
Proof. induction ks as [|k ks IH]; [reflexivity|]. unfold singles in *. cbn. now rewrite IH. Qed.

(* the sweep avoids the one case in which the code enumerates in item order although dims says otherwise *)
Definition order_ok (s : sweep) : Prop :=
  match dims s with
  | None => True
  | Some d => dims_is_keyset d (dkeys (items s)) = false \/ in_item_order s = true
  end.

Lemma in_item_order_order_ok s : in_item_order s = true -> order_ok s.
Proof. unfold order_ok. destruct (dims s); [now right|exact (fun _ => I)]. Qed.

Lemma base_combos_spec s :
  wf_groups (items s) (groups s) = true -> order_ok s -> items s <> [] ->
  base_combos s = Ok (spec_base s).
Proof.
  unfold wf_groups, order_ok, base_combos, spec_base. intros Hwf Hord Hne.
  apply andb_true_iff in Hwf as [Hwf Hg]. apply andb_true_iff in Hwf as [Hnk Hng].
  apply nodup_str_NoDup in Hnk. apply nodup_str_NoDup in Hng.
  destruct (items s) as [|kv it'] eqn:Eit; [congruence|]. rewrite <- Eit in *. clear Eit kv it' Hne.
  unfold groups in *. destruct (dims s) as [d|] eqn:Ed.
  - destruct (dims_is_keyset d (dkeys (items s))) eqn:Eks.
    + destruct Hord as [Hord|Hord]; [discriminate|].
      destruct (keyset_all_str _ _ Eks) as [Hs Hincl]. unfold in_item_order, groups in Hord. rewrite Ed in Hord.
      rewrite Hs in *. rewrite concat_singles in *.
      assert (Heq : dstr_keys d = dkeys (items s)).
      { apply subseq_full; [assumption|]. now apply NoDup_incl_length. }
      rewrite Heq. f_equal. now apply full_base_spec.
    + now apply grouped_base_wf.
  - f_equal. now apply full_base_spec.
Qed.

Lemma wf_sweep_parts s : wf_sweep s = true ->
  wf_groups (items s) (groups s) = true /\ NoDup (opt_keys (consts s)) /\ NoDup (opt_keys (ders s)).
Proof.
  unfold wf_sweep. intros H. apply andb_true_iff in H as [H H3]. apply andb_true_iff in H as [H1 H2].
  now rewrite <- !nodup_str_NoDup.
Qed.

(* generate is the documented list: row-major over the zipped groups, constants, derivers, exclusion *)
Theorem generate_is_spec s : wf_sweep s = true -> order_ok s -> generate s = spec_list s.
Proof.
  intros Hwf Hord. destruct (wf_sweep_parts _ Hwf) as [Hg [Hk _]].
  assert (Hc : items s = [] \/ items s <> []) by (destruct (items s); [now left|right; discriminate]).
  unfold spec_list. destruct Hc as [Hnil|Hne].
  - rewrite generate_nil by assumption. unfold spec_base. now rewrite Hnil.
  - rewrite generate_cons by assumption. rewrite base_combos_spec by assumption.
    cbn [bind]. now apply finish_all_eq.
Qed.

Theorem generate_is_rowmajor_product s :
  wf_sweep s = true -> in_item_order s = true -> generate s = spec_list s.
Proof. intros H1 H2. apply generate_is_spec; [assumption|now apply in_item_order_order_ok]. Qed.

(* ---------- dims = a permutation of the item keys given as plain strings ---------- *)
Definition set_dims (s : sweep) (d : option (list dimg)) : sweep :=
  {| items := items s; dims := d; excl := excl s; consts := consts s; ders := ders s |}.

Lemma finish_all_set_dims s d b : finish_all (set_dims s d) b = finish_all s b.
Proof. induction b as [|c b IH]; [reflexivity|]. cbn [finish_all]. now rewrite IH. Qed.

Lemma wf_singles it : NoDup (dkeys it) -> wf_groups it (singles (dkeys it)) = true.
Proof.
  intros H. unfold wf_groups. rewrite concat_singles. rewrite (proj2 (nodup_str_NoDup _) H). cbn [andb].
  apply forallb_forall. intros g Hg. unfold singles in Hg. apply in_map_iff in Hg as [k [<- Hk]].
  unfold wf_group. cbn [negb andb forallb glen]. rewrite (proj2 (dhas_In it k) Hk), Nat.eqb_refl. reflexivity.
Qed.

(* the code then enumerates in item order: exactly the documented list of the same sweep with dims omitted *)
Theorem generate_permuted s d :
  wf_sweep s = true -> dims s = Some d -> dims_is_keyset d (dkeys (items s)) = true ->
  generate s = spec_list (set_dims s None) /\ wf_sweep (set_dims s None) = true
  /\ in_item_order (set_dims s None) = true.
Proof.
  intros Hwf Hd Hk. destruct (wf_sweep_parts _ Hwf) as [Hg [Hkc Hkd]].
  assert (Hnd : NoDup (dkeys (items s))).
  { unfold wf_groups in Hg. apply andb_true_iff in Hg as [Hg _]. apply andb_true_iff in Hg as [Hg _].
    now apply nodup_str_NoDup. }
  assert (Hwf' : wf_sweep (set_dims s None) = true).
  { change (wf_groups (items s) (singles (dkeys (items s))) && nodup_str (opt_keys (consts s))
            && nodup_str (opt_keys (ders s)) = true).
    rewrite (wf_singles _ Hnd). cbn [andb].
    now rewrite (proj2 (nodup_str_NoDup _) Hkc), (proj2 (nodup_str_NoDup _) Hkd). }
  assert (Hord : in_item_order (set_dims s None) = true).
  { change (subseq_str (concat (singles (dkeys (items s)))) (dkeys (items s)) = true).
    rewrite concat_singles. clear. induction (dkeys (items s)) as [|k l IH]; [reflexivity|].
    cbn. now rewrite str_eqb_refl. }
  split; [|split; assumption].
  rewrite <- (generate_is_rowmajor_product _ Hwf' Hord).
  assert (Hc : items s = [] \/ items s <> []) by (destruct (items s); [now left|right; discriminate]).
  destruct Hc as [Hnil|Hne].
  - now rewrite !generate_nil.
  - rewrite !generate_cons by assumption. unfold base_combos. cbn [set_dims dims items]. rewrite Hd, Hk.
    cbn [bind]. now rewrite finish_all_set_dims.
Qed.
