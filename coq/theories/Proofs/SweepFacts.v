(* Proofs about Model/Sweep.v against Model/SweepSpec.v (C17). *)
From Verif Require Import Base.Prelude Base.Index Model.Sweep Model.SweepSpec Proofs.IndexFacts.
