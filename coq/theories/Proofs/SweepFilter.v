(* C17: filtered_sweep yields the distinct projections (branch with derivers: explicit de-duplication). *)
From Verif Require Import Base.Prelude Base.Index Model.Sweep Model.SweepSpec Proofs.IndexFacts Proofs.SweepFacts
  Proofs.SweepCount.

(* ---------- the ordered set ---------- *)
Lemma dedupe_acc_spec l : forall seen,
  NoDup (dedupe_acc seen l)
  /\ (forall x, In x (dedupe_acc seen l) <-> In x l /\ ~ In x seen).
Proof.
  induction l as [|y l IH]; intros seen; cbn [dedupe_acc].
  - split; [constructor|]. intros x. cbn. tauto.
  - destruct (mem_vals y seen) eqn:E.
    + apply mem_vals_In in E. destruct (IH seen) as [H1 H2]. split; [exact H1|]. intros x. rewrite H2. cbn.
      split; [tauto|]. intros [[->|H] Hn]; [contradiction|tauto].
    + assert (Hn : ~ In y seen) by (intros H; apply mem_vals_In in H; congruence).
      destruct (IH (y :: seen)) as [H1 H2]. split.
      * constructor; [|exact H1]. rewrite H2. cbn. tauto.
      * intros x. cbn [In]. rewrite H2. cbn [In]. split.
        -- intros [<-|[H3 H4]]; tauto.
        -- intros [[<-|H3] H4]; [now left|].
           destruct (vals_eqb x y) eqn:Exy.
           ++ apply vals_eqb_eq in Exy. subst. now left.
           ++ right. split; [assumption|]. intros [Hy|Hs]; [|contradiction].
              subst. rewrite vals_eqb_refl in Exy. discriminate.
Qed.

Lemma dedupe_spec l : NoDup (dedupe l) /\ (forall x, In x (dedupe l) <-> In x l).
Proof.
  unfold dedupe. destruct (dedupe_acc_spec l []) as [H1 H2]. split; [exact H1|].
  intros x. rewrite H2. cbn. tauto.
Qed.

(* ---------- new_items: the columns of the ordered set ---------- *)
Definition val_of (keys : list str) (k : str) (t : list val) : val :=
  match dget (combine keys t) k with Some v => v | None => dflt end.

Lemma col_dset (d : dict (list val)) k v k' : col (dset d k v) k' = if str_eqb k' k then v else col d k'.
Proof. unfold col. rewrite dget_dset. now destruct (str_eqb k' k). Qed.

Lemma dappend_col d k v k' : col (dappend d k v) k' = col d k' ++ (if str_eqb k' k then [v] else []).
Proof.
  unfold dappend. destruct (dget d k) as [l|] eqn:E.
  - rewrite col_dset. destruct (str_eqb k' k) eqn:E2.
    + apply str_eqb_eq in E2. subst. unfold col. now rewrite E.
    + now rewrite app_nil_r.
  - unfold col. rewrite dget_app. cbn [dget]. destruct (str_eqb k' k) eqn:E2.
    + apply str_eqb_eq in E2. subst. now rewrite E.
    + destruct (dget d k'); [now rewrite app_nil_r|reflexivity].
Qed.

Lemma fold_dappend_col (ps : list (str * val)) : NoDup (map fst ps) -> forall d k,
  col (fold_left (fun d' kv => dappend d' (fst kv) (snd kv)) ps d) k
  = col d k ++ match dget ps k with Some v => [v] | None => [] end.
Proof.
  induction ps as [|[k0 v0] ps IH]; intros Hnd d k; cbn [fold_left fst snd dget].
  - now rewrite app_nil_r.
  - inversion Hnd as [|? ? Hn Hnd']; subst. rewrite IH by assumption. rewrite dappend_col.
    destruct (str_eqb k k0) eqn:E.
    + apply str_eqb_eq in E. subst. replace (dget ps k0) with (@None val); [now rewrite app_nil_r|].
      symmetry. apply dget_None. exact Hn.
    + now rewrite app_nil_r.
Qed.

Lemma new_items_col keys : NoDup keys -> forall rows d k,
  col (fold_left (fun d item => fold_left (fun d' kv => dappend d' (fst kv) (snd kv)) (combine keys item) d) rows d) k
  = col d k ++ flat_map (fun t => match dget (combine keys t) k with Some v => [v] | None => [] end) rows.
Proof.
  intros Hnd. induction rows as [|r rows IH]; intros d k; cbn [fold_left flat_map].
  - now rewrite app_nil_r.
  - rewrite IH, fold_dappend_col by (now apply NoDup_fst_combine). now rewrite app_assoc.
Qed.

Lemma dget_combine_In {B} (keys : list str) (t : list B) k :
  length t = length keys -> In k keys -> dget (combine keys t) k <> None.
Proof.
  revert t; induction keys as [|k0 keys IH]; intros [|v t] Hl Hin; cbn in *; try discriminate; [contradiction|].
  destruct (str_eqb k k0) eqn:E; [discriminate|]. destruct Hin as [->|Hin]; [now rewrite str_eqb_refl in E|].
  apply IH; [lia|assumption].
Qed.

Lemma new_items_col_keys keys rows k : NoDup keys -> In k keys ->
  Forall (fun t => length t = length keys) rows ->
  col (new_items keys rows) k = map (val_of keys k) rows.
Proof.
  intros Hnd Hin Hlen. unfold new_items. rewrite new_items_col by assumption. cbn [col dget app].
  induction Hlen as [|t rows Ht _ IH]; [reflexivity|]. cbn [flat_map map]. rewrite IH. unfold val_of.
  pose proof (dget_combine_In keys t k Ht Hin) as H. destruct (dget (combine keys t) k); [reflexivity|congruence].
Qed.

Lemma combine_val_of keys : NoDup keys -> forall t, length t = length keys ->
  map (fun k => (k, val_of keys k t)) keys = combine keys t.
Proof.
  induction keys as [|k0 keys IH]; intros Hnd [|v t] Hl; cbn in Hl; try discriminate; [reflexivity|].
  inversion Hnd as [|? ? Hn Hnd']; subst. cbn [map combine]. f_equal.
  - unfold val_of. cbn [combine dget]. now rewrite str_eqb_refl.
  - rewrite <- (IH Hnd' t) by lia. apply map_ext_in. intros k Hk. f_equal. unfold val_of. cbn [combine dget].
    destruct (str_eqb k k0) eqn:E; [|reflexivity]. apply str_eqb_eq in E. subst. contradiction.
Qed.

Lemma map_snd_combine {A B} (a : list A) (b : list B) : length a = length b -> map snd (combine a b) = b.
Proof. revert b; induction a as [|x a IH]; intros [|y b] H; cbn in *; try discriminate; [reflexivity|]. f_equal. apply IH. lia. Qed.

(* ---------- projections ---------- *)
Lemma combine_tuple_proj keys c : combine keys (tuple_of keys c) = proj keys c.
Proof. unfold tuple_of, proj. apply combine_map_r. Qed.

Lemma project_present keys c : NoDup keys -> (forall k, In k keys -> dget c k <> None) ->
  project keys c = Ok (tuple_of keys c).
Proof.
  intros Hnd Hp. unfold project.
  rewrite (mapM_Ok_map _ (fun k => match dget c k with Some v => v | None => SL [] end)).
  - cbn [bind]. f_equal. fold (tuple_of keys c). rewrite dict_of_nodup by (now apply NoDup_fst_combine).
    apply map_snd_combine. unfold tuple_of. now rewrite map_length.
  - intros k Hk. unfold dgetE. specialize (Hp k Hk). destruct (dget c k); [reflexivity|congruence].
Qed.

Lemma project_all_generate s keys : NoDup keys -> forall b l,
  finish_all s b = Ok l -> (forall c, In c l -> forall k, In k keys -> dget c k <> None) ->
  project_all s keys b = Ok (map (tuple_of keys) l).
Proof.
  intros Hnd. induction b as [|c b IH]; intros l H Hp; cbn [finish_all project_all] in *.
  - now injection H as <-.
  - destruct (finish s c) as [r|]; cbn [bind] in *; [|discriminate].
    destruct (finish_all s b) as [rest|] eqn:Er; cbn [bind] in H; [|discriminate]. injection H as <-.
    destruct r as [c'|].
    + rewrite project_present; [|assumption|intros k Hk; apply Hp; [now left|assumption]]. cbn [bind].
      rewrite (IH rest eq_refl) by (intros c0 H0; apply Hp; now right). reflexivity.
    + now apply IH.
Qed.

(* ---------- the filtered sweep generates the rows of the ordered set ---------- *)
Lemma generate_zip_sweep_ne keys rows : keys <> [] -> NoDup keys -> rows <> [] ->
  Forall (fun t => length t = length keys) rows ->
  generate {| items := new_items keys rows; dims := Some [DTup keys]; excl := None; consts := None; ders := None |}
  = Ok (map (fun t => combine keys t) rows).
Proof.
  intros Hne Hnd Hrne Hlen.
  set (f := {| items := new_items keys rows; dims := Some [DTup keys]; excl := None; consts := None; ders := None |}).
  assert (Hcol : forall k, In k keys -> col (items f) k = map (val_of keys k) rows).
  { intros k Hk. now apply new_items_col_keys. }
  assert (Hhas : forall k, In k keys -> dhas (items f) k = true /\ length (col (items f) k) = length rows).
  { intros k Hk. rewrite (Hcol k Hk), map_length. split; [|reflexivity]. specialize (Hcol k Hk).
    unfold dhas, col in *. destruct (dget (items f) k); [reflexivity|].
    destruct rows; [congruence|discriminate]. }
  assert (Hitne : items f <> []).
  { destruct keys as [|k0 ks]; [congruence|]. destruct (Hhas k0 (or_introl eq_refl)) as [H _].
    intros E. rewrite E in H. discriminate. }
  rewrite generate_cons by assumption. unfold base_combos. cbn [dims f]. cbn [dims].
  replace (dims_is_keyset [DTup keys] (dkeys (items f))) with false by reflexivity.
  unfold grouped_base. cbn [mapM]. unfold group_part. cbn [at_least_tuple].
  rewrite (group_part_aux (items f) keys (length rows) Hne Hhas Hnd). cbn [bind cart map flat_map].
  assert (Hflat : forall l : list combo, map merge_combo (flat_map (fun x => [[x]]) l) = map (fun x => merge_combo [x]) l).
  { induction l as [|x l' IHl]; [reflexivity|]. cbn [flat_map map app]. now rewrite IHl. }
  rewrite Hflat, map_map.
  assert (Hfin : forall b, finish_all f b = Ok b).
  { induction b as [|c b IHb]; [reflexivity|]. cbn [finish_all]. unfold finish. cbn [f consts ders excl apply_consts apply_ders bind].
    now rewrite IHb. }
  rewrite Hfin. f_equal.
  rewrite (map_nth_seq rows []) at 2. rewrite map_map. apply map_ext_in. intros i Hi. apply in_seq in Hi.
  unfold merge_combo. cbn [concat]. rewrite app_nil_r. rewrite dict_of_nodup by (now rewrite row_keys).
  unfold row. rewrite <- (combine_val_of keys Hnd (nth i rows [])).
  - apply map_ext_in. intros k Hk. f_equal. rewrite (Hcol k Hk).
    rewrite <- (map_nth (val_of keys k) rows [] i). f_equal. unfold val_of. now destruct keys.
  - rewrite Forall_forall in Hlen. apply Hlen. apply nth_In. lia.
Qed.

Lemma generate_zip_sweep keys rows : keys <> [] -> NoDup keys ->
  Forall (fun t => length t = length keys) rows ->
  generate {| items := new_items keys rows; dims := Some [DTup keys]; excl := None; consts := None; ders := None |}
  = Ok (map (fun t => combine keys t) rows).
Proof.
  intros Hne Hnd Hlen. destruct rows as [|r0 rows']; [reflexivity|].
  apply generate_zip_sweep_ne; [assumption|assumption|discriminate|assumption].
Qed.

Theorem filtered_with_derivers s keys l d0 :
  ders s = Some d0 -> keys <> [] -> NoDup keys ->
  generate s = Ok l -> (forall c, In c l -> forall k, In k keys -> dget c k <> None) ->
  exists f l', filtered s keys = Ok f /\ generate f = Ok l' /\ len f = Ok (length l')
    /\ NoDup l' /\ (forall x, In x l' <-> In x (map (proj keys) l)).
Proof.
  intros Hd Hne Hnd Hg Hp.
  set (oset := dedupe (map (tuple_of keys) l)).
  assert (Htup : (match items s with
                  | [] => Ok []
                  | _ :: _ => do b <- base_combos s; project_all s keys b
                  end) = Ok (map (tuple_of keys) l)).
  { unfold generate in Hg. destruct (items s) as [|kv it'].
    - now injection Hg as <-.
    - destruct (base_combos s) as [b|]; cbn [bind] in *; [|discriminate]. now apply project_all_generate. }
  destruct (dedupe_spec (map (tuple_of keys) l)) as [Ho1 Ho2]. fold oset in Ho1, Ho2.
  assert (Hlen : Forall (fun t => length t = length keys) oset).
  { apply Forall_forall. intros t Ht. apply Ho2 in Ht. apply in_map_iff in Ht as [c [<- _]].
    unfold tuple_of. now rewrite map_length. }
  eexists. exists (map (fun t => combine keys t) oset).
  split; [unfold filtered; rewrite Hd, Htup; cbn [bind]; reflexivity|].
  fold oset. assert (Hgen := generate_zip_sweep keys oset Hne Hnd Hlen).
  split; [exact Hgen|]. split; [now apply len_eq_length|]. split.
  - apply NoDup_map_inj_in; [|exact Ho1]. intros t t' Ht Ht' E. rewrite Forall_forall in Hlen.
    rewrite <- (map_snd_combine keys t), <- (map_snd_combine keys t'), E; auto; symmetry; auto.
  - intros x. rewrite !in_map_iff. split.
    + intros [t [<- Ht]]. apply Ho2 in Ht. apply in_map_iff in Ht as [c [<- Hc]]. exists c.
      split; [symmetry; apply combine_tuple_proj|assumption].
    + intros [c [<- Hc]]. exists (tuple_of keys c). split; [apply combine_tuple_proj|].
      apply Ho2. now apply in_map.
Qed.
