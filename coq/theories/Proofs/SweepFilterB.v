(* C17: filtered_sweep of a sweep without derivers / constants / exclude yields the distinct projections. *)
From Verif Require Import Base.Prelude Base.Index Model.Sweep Model.SweepSpec Proofs.IndexFacts Proofs.SweepFacts
  Proofs.SweepProduct Proofs.SweepCount.

(* ---------- looking a key up in the combination of an index vector ---------- *)
Fixpoint look (it : dict (list val)) (gs : list (list str)) (idx : list nat) (k : str) : option val :=
  match gs, idx with
  | g :: gs', i :: idx' => if mem_str k g then Some (nth i (col it k) dflt) else look it gs' idx' k
  | _, _ => None
  end.

Lemma dget_row it g i k : dget (row it g i) k = if mem_str k g then Some (nth i (col it k) dflt) else None.
Proof.
  induction g as [|k' g IH]; [reflexivity|]. cbn [row map dget mem_str]. fold (row it g i).
  destruct (str_eqb k k') eqn:E; cbn [orb].
  - apply str_eqb_eq in E. now subst.
  - exact IH.
Qed.

Lemma dget_combo_at it gs : forall idx k, dget (combo_at it gs idx) k = look it gs idx k.
Proof.
  induction gs as [|g gs IH]; intros [|i idx] k; try reflexivity.
  rewrite combo_at_cons, dget_app, dget_row. cbn [look]. destruct (mem_str k g); [reflexivity|apply IH].
Qed.

Lemma look_None it gs : forall idx k, ~ In k (concat gs) -> look it gs idx k = None.
Proof.
  induction gs as [|g gs IH]; intros [|i idx] k H; try reflexivity. cbn [look concat] in *.
  rewrite in_app_iff in H. rewrite (proj2 (mem_str_nIn k g)) by tauto. apply IH. tauto.
Qed.

Lemma look_Some it gs : forall idx k, In k (concat gs) -> length idx = length gs -> look it gs idx k <> None.
Proof.
  induction gs as [|g gs IH]; intros [|i idx] k H Hl; cbn in Hl; try discriminate; [contradiction|].
  cbn [look concat] in *. destruct (mem_str k g) eqn:E; [discriminate|].
  apply in_app_or in H as [H|H]; [apply mem_str_In in H; congruence|]. apply IH; [assumption|lia].
Qed.

Lemma in_all_indices sh : forall idx, In idx (all_indices sh) <-> in_bounds sh idx = true.
Proof.
  induction sh as [|d sh IH]; intros idx.
  - cbn. destruct idx; split; intros H; try discriminate; auto. destruct H as [H|[]]. discriminate.
  - cbn [all_indices]. rewrite in_flat_map. split.
    + intros [i [Hi H]]. apply in_map_iff in H as [t [<- Ht]]. apply in_seq in Hi. rewrite in_bounds_cons.
      apply andb_true_iff. split; [apply Nat.ltb_lt; lia|now apply IH].
    + destruct idx as [|i t]; [discriminate|]. rewrite in_bounds_cons. intros H. apply andb_true_iff in H as [H1 H2].
      apply Nat.ltb_lt in H1. exists i. split; [apply in_seq; lia|]. apply in_map. now apply IH.
Qed.

Lemma in_bounds_length sh : forall idx, in_bounds sh idx = true -> length idx = length sh.
Proof.
  induction sh as [|d sh IH]; intros [|i idx] H; try discriminate; [reflexivity|].
  rewrite in_bounds_cons in H. apply andb_true_iff in H as [_ H]. cbn. f_equal. now apply IH.
Qed.

(* ---------- the groups of the filtered sweep ---------- *)
Definition keep (keys g : list str) : bool := existsb (fun k => mem_str k keys) g.
Definition fgroup (keys g : list str) : list str := filter (fun k => mem_str k keys) g.
Definition fgroups (keys : list str) (gs : list (list str)) : list (list str) :=
  map (fgroup keys) (filter (keep keys) gs).

Fixpoint rho (keys : list str) (gs : list (list str)) (idx : list nat) : list nat :=
  match gs, idx with
  | g :: gs', i :: idx' => if keep keys g then i :: rho keys gs' idx' else rho keys gs' idx'
  | _, _ => []
  end.
Fixpoint ext (keys : list str) (gs : list (list str)) (j : list nat) : list nat :=
  match gs with
  | [] => []
  | g :: gs' =>
      if keep keys g then match j with i :: j' => i :: ext keys gs' j' | [] => 0 :: ext keys gs' [] end
      else 0 :: ext keys gs' j
  end.

Lemma keep_fgroup keys g : keep keys g = false <-> fgroup keys g = [].
Proof.
  unfold keep, fgroup. induction g as [|k g IH]; cbn; [tauto|]. destruct (mem_str k keys); cbn.
  - split; discriminate.
  - exact IH.
Qed.

Lemma look_rho it keys k : mem_str k keys = true -> forall gs idx,
  look it gs idx k = look it (fgroups keys gs) (rho keys gs idx) k.
Proof.
  intros Hk. induction gs as [|g gs IH]; intros [|i idx]; try reflexivity.
  - cbn [rho]. now destruct (fgroups keys (g :: gs)).
  - cbn [look rho]. unfold fgroups. cbn [filter]. destruct (mem_str k g) eqn:E.
    + assert (Hkeep : keep keys g = true).
      { unfold keep. apply existsb_exists. exists k. split; [now apply mem_str_In|assumption]. }
      rewrite Hkeep. cbn [map look].
      assert (Hm : mem_str k (fgroup keys g) = true).
      { apply mem_str_In. unfold fgroup. apply filter_In. split; [now apply mem_str_In|assumption]. }
      now rewrite Hm.
    + destruct (keep keys g) eqn:Ek.
      * cbn [map look]. assert (Hm : mem_str k (fgroup keys g) = false).
        { apply mem_str_nIn. unfold fgroup. intros H. apply filter_In in H as [H _]. apply mem_str_In in H. congruence. }
        rewrite Hm. apply IH.
      * apply IH.
Qed.

Lemma concat_fgroups keys gs : concat (fgroups keys gs) = filter (fun k => mem_str k keys) (concat gs).
Proof.
  unfold fgroups. induction gs as [|g gs IH]; [reflexivity|]. cbn [filter concat].
  assert (Hf : forall a b : list str, filter (fun k => mem_str k keys) (a ++ b)
                                     = filter (fun k => mem_str k keys) a ++ filter (fun k => mem_str k keys) b).
  { intros a b. induction a as [|x a IHa]; [reflexivity|]. cbn. destruct (mem_str x keys); cbn; now rewrite IHa. }
  rewrite Hf. destruct (keep keys g) eqn:Ek.
  - cbn [map concat]. now rewrite IH.
  - apply keep_fgroup in Ek. unfold fgroup in Ek. rewrite Ek. exact IH.
Qed.

Lemma dget_proj keys c k :
  dget (proj keys c) k = if mem_str k keys then Some (match dget c k with Some v => v | None => SL [] end) else None.
Proof.
  unfold proj. induction keys as [|k' keys IH]; [reflexivity|]. cbn [map dget mem_str].
  destruct (str_eqb k k') eqn:E; cbn [orb].
  - apply str_eqb_eq in E. now subst.
  - exact IH.
Qed.

Lemma proj_combo_at it keys gs idx :
  incl keys (concat gs) -> length idx = length gs ->
  ceq (proj keys (combo_at it gs idx)) (combo_at it (fgroups keys gs) (rho keys gs idx)).
Proof.
  intros Hincl Hl k. rewrite dget_proj, !dget_combo_at. destruct (mem_str k keys) eqn:E.
  - rewrite <- look_rho by assumption.
    assert (Hs : look it gs idx k <> None) by (apply look_Some; [apply Hincl; now apply mem_str_In|assumption]).
    destruct (look it gs idx k); [reflexivity|congruence].
  - symmetry. apply look_None. rewrite concat_fgroups. intros H. apply filter_In in H as [_ H]. congruence.
Qed.

(* ---------- index vectors: restriction and extension ---------- *)
Lemma rho_ext keys gs : forall j, length j = length (filter (keep keys) gs) -> rho keys gs (ext keys gs j) = j.
Proof.
  induction gs as [|g gs IH]; intros j Hl; cbn [filter ext rho] in *.
  - destruct j; [reflexivity|discriminate].
  - destruct (keep keys g) eqn:Ek.
    + destruct j as [|i j]; [discriminate|]. cbn [rho]. rewrite ?Ek. f_equal. apply IH. cbn in Hl. lia.
    + cbn [rho]. rewrite ?Ek. now apply IH.
Qed.

Lemma ext_in_bounds it keys gs : Forall (fun g => 0 < glen it g) gs ->
  forall j, in_bounds (map (glen it) (filter (keep keys) gs)) j = true ->
  in_bounds (map (glen it) gs) (ext keys gs j) = true.
Proof.
  induction 1 as [|g gs Hg _ IH]; intros j Hj; cbn [filter ext map] in *.
  - reflexivity.
  - destruct (keep keys g) eqn:Ek.
    + destruct j as [|i j]; [discriminate|]. cbn [map] in Hj. rewrite in_bounds_cons in *.
      apply andb_true_iff in Hj as [H1 H2]. rewrite H1. cbn [andb]. now apply IH.
    + rewrite in_bounds_cons. rewrite (proj2 (Nat.ltb_lt _ _) Hg). cbn [andb]. now apply IH.
Qed.

Lemma rho_in_bounds it keys gs : forall idx, in_bounds (map (glen it) gs) idx = true ->
  in_bounds (map (glen it) (filter (keep keys) gs)) (rho keys gs idx) = true.
Proof.
  induction gs as [|g gs IH]; intros [|i idx] H; try discriminate; [reflexivity|].
  cbn [map filter rho] in *. rewrite in_bounds_cons in H. apply andb_true_iff in H as [H1 H2].
  destruct (keep keys g); [cbn [map]; rewrite in_bounds_cons, H1; cbn [andb]|]; now apply IH.
Qed.

(* ---------- distinct index vectors give distinct combinations ---------- *)
Fixpoint nodup_ceq (l : list combo) : Prop :=
  match l with [] => True | x :: t => (forall y, In y t -> ~ ceq x y) /\ nodup_ceq t end.

Lemma nodup_ceq_map {A} (F : A -> combo) l :
  NoDup l -> (forall a b, In a l -> In b l -> ceq (F a) (F b) -> a = b) -> nodup_ceq (map F l).
Proof.
  induction 1 as [|x l Hx _ IH]; intros Hinj; cbn; [exact I|]. split.
  - intros y Hy Hc. apply in_map_iff in Hy as [b [<- Hb]]. apply Hx.
    rewrite (Hinj x b); auto; [now left|now right].
  - apply IH. intros a b Ha Hb. apply Hinj; now right.
Qed.

Lemma NoDup_nth_inj {A} (l : list A) d i j : NoDup l -> i < length l -> j < length l -> nth i l d = nth j l d -> i = j.
Proof. intros H. rewrite NoDup_nth in H. apply H. Qed.

Lemma combo_at_inj it gs :
  NoDup (concat gs) -> Forall (fun g => g <> [] /\ forall k, In k g -> NoDup (col it k) /\ length (col it k) = glen it g) gs ->
  forall j j', in_bounds (map (glen it) gs) j = true -> in_bounds (map (glen it) gs) j' = true ->
  ceq (combo_at it gs j) (combo_at it gs j') -> j = j'.
Proof.
  intros Hnd Hg. induction Hg as [|g gs [Hne Hk] _ IH]; intros [|i j] [|i' j'] Hj Hj' Hc; try discriminate; [reflexivity|].
  cbn [map] in Hj, Hj'. rewrite in_bounds_cons in Hj, Hj'. apply andb_true_iff in Hj as [Hi Hj]. apply andb_true_iff in Hj' as [Hi' Hj'].
  apply Nat.ltb_lt in Hi. apply Nat.ltb_lt in Hi'. cbn [concat] in Hnd.
  f_equal.
  - destruct g as [|k0 g']; [congruence|]. destruct (Hk k0 (or_introl eq_refl)) as [Hn Hlen].
    specialize (Hc k0). rewrite !dget_combo_at in Hc. cbn [look mem_str] in Hc. rewrite str_eqb_refl in Hc. cbn [orb] in Hc.
    injection Hc as Hc. apply (NoDup_nth_inj (col it k0) dflt i i' Hn); [lia|lia|exact Hc].
  - apply IH; [now apply NoDup_app_r in Hnd|assumption|assumption|].
    intros k. destruct (in_dec (list_eq_dec Ascii.ascii_dec) k (concat gs)) as [Hin|Hnin].
    + specialize (Hc k). rewrite !dget_combo_at in *. cbn [look] in Hc.
      assert (Hng : mem_str k g = false).
      { apply mem_str_nIn. intros H. apply (NoDup_app_disj _ _ Hnd k H Hin). }
      now rewrite Hng in Hc.
    + rewrite !dget_combo_at, !look_None by assumption. reflexivity.
Qed.

(* ---------- the filtered sweep is well formed and has the filtered groups ---------- *)
Lemma keyset_order_keys (it : dict (list val)) d :
  NoDup (dkeys it) -> NoDup (concat (map at_least_tuple d)) -> dims_is_keyset d (dkeys it) = true ->
  subseq_str (concat (map at_least_tuple d)) (dkeys it) = true ->
  map at_least_tuple d = singles (dkeys it).
Proof.
  intros Hnk Hng Hks Hord. destruct (keyset_all_str _ _ Hks) as [Hs Hincl]. rewrite Hs in *.
  rewrite concat_singles in *. f_equal. apply subseq_full; [assumption|]. now apply NoDup_incl_length.
Qed.

Lemma fgroups_singles keys ks : fgroups keys (singles ks) = singles (filter (fun k => mem_str k keys) ks).
Proof.
  unfold fgroups, singles. induction ks as [|k ks IH]; [reflexivity|]. cbn [map filter].
  unfold keep at 1. cbn [existsb]. rewrite orb_false_r. destruct (mem_str k keys) eqn:E; [|exact IH].
  cbn [map]. rewrite IH. f_equal. unfold fgroup. cbn [filter]. now rewrite E.
Qed.

Lemma fgroups_grouped keys d :
  map at_least_tuple
    (flat_map (fun g => match g with
                        | DStr k => if mem_str k keys then [DStr k] else []
                        | DTup ks => match filter (fun k => mem_str k keys) ks with
                                     | [] => []
                                     | [k] => [DStr k]
                                     | l => [DTup l]
                                     end
                        end) d)
  = fgroups keys (map at_least_tuple d).
Proof.
  unfold fgroups. induction d as [|g d IH]; [reflexivity|]. cbn [flat_map map filter]. rewrite map_app, IH.
  destruct g as [k|ks]; cbn [at_least_tuple].
  - unfold keep at 2. cbn [existsb]. rewrite orb_false_r. destruct (mem_str k keys) eqn:E; [|reflexivity].
    cbn [map app at_least_tuple]. f_equal. unfold fgroup. cbn [filter]. now rewrite E.
  - destruct (keep keys ks) eqn:Ek.
    + cbn [map]. fold (fgroup keys ks). destruct (fgroup keys ks) as [|k1 [|k2 l]] eqn:Ef.
      * apply keep_fgroup in Ef. congruence.
      * reflexivity.
      * reflexivity.
    + apply keep_fgroup in Ek. fold (fgroup keys ks). now rewrite Ek.
Qed.

Lemma filtered_groups s keys :
  wf_groups (items s) (groups s) = true -> in_item_order s = true ->
  map at_least_tuple (filtered_dims s keys) = fgroups keys (groups s).
Proof.
  intros Hwf Hord. destruct (wf_groups_parts _ _ Hwf) as [Hnk [Hng _]].
  unfold filtered_dims, groups, in_item_order, groups in *. destruct (dims s) as [d|].
  - destruct (dims_is_keyset d (dkeys (items s))) eqn:Eks.
    + rewrite (keyset_order_keys _ _ Hnk Hng Eks Hord). rewrite at_least_tuple_DStr. now rewrite fgroups_singles.
    + apply fgroups_grouped.
  - rewrite at_least_tuple_DStr. fold (singles (dkeys (items s))). now rewrite fgroups_singles.
Qed.

Lemma glen_fgroup it keys g : wf_group it g = true -> keep keys g = true -> glen it (fgroup keys g) = glen it g.
Proof.
  intros Hwf Hk. destruct (wf_group_dget _ _ Hwf) as [_ Hd].
  destruct (fgroup keys g) as [|k0 l] eqn:E; [apply keep_fgroup in E; congruence|].
  cbn [glen]. apply Hd. assert (H : In k0 (fgroup keys g)) by (rewrite E; now left).
  unfold fgroup in H. now apply filter_In in H.
Qed.

Lemma wf_fgroups it keys gs : wf_groups it gs = true -> wf_groups it (fgroups keys gs) = true.
Proof.
  intros Hwf. destruct (wf_groups_parts _ _ Hwf) as [Hnk [Hng Hg]]. unfold wf_groups.
  rewrite (proj2 (nodup_str_NoDup _) Hnk). rewrite concat_fgroups.
  rewrite (proj2 (nodup_str_NoDup _) (NoDup_filter _ Hng)). cbn [andb].
  apply forallb_forall. intros g' Hg'. unfold fgroups in Hg'. apply in_map_iff in Hg' as [g [<- Hin]].
  apply filter_In in Hin as [Hin Hk]. rewrite forallb_forall in Hg. specialize (Hg g Hin).
  destruct (wf_group_dget _ _ Hg) as [_ Hd]. unfold wf_group. apply andb_true_iff. split.
  - destruct (fgroup keys g) eqn:E; [apply keep_fgroup in E; congruence|reflexivity].
  - apply forallb_forall. intros k Hkin. rewrite (glen_fgroup _ _ _ Hg Hk).
    unfold fgroup in Hkin. apply filter_In in Hkin as [Hkin _]. destruct (Hd k Hkin) as [H1 H2].
    rewrite H1, H2, Nat.eqb_refl. reflexivity.
Qed.

Lemma Subseq_filter_l (P : str -> bool) a b : Subseq a b -> Subseq (filter P a) b.
Proof.
  induction 1 as [b|x a b _ IH|y a b _ IH]; cbn [filter].
  - constructor.
  - destruct (P x); now constructor.
  - now constructor.
Qed.

(* without constants, derivers and exclude the list is the base enumeration itself *)
Lemma somes_map_Some {A} (l : list A) : somes (map Some l) = l.
Proof. induction l as [|x l IH]; [reflexivity|]. cbn. now rewrite IH. Qed.

Lemma plain_generate s :
  wf_sweep s = true -> in_item_order s = true ->
  opt_keys (consts s) = [] -> ders s = None -> excl s = None -> generate s = Ok (spec_base s).
Proof.
  intros Hwf Hord Hk Hd He. rewrite (generate_is_rowmajor_product _ Hwf Hord). unfold spec_list.
  rewrite (mapM_Ok_map _ Some).
  - cbn [bind]. now rewrite somes_map_Some.
  - intros c _. unfold spec_finish. rewrite Hd, He. cbn [bind]. do 2 f_equal.
    destruct (consts s) as [[|kv k]|]; [cbn; apply app_nil_r|discriminate|reflexivity].
Qed.

Lemma dget_In_pair {V} (d : dict V) k v : dget d k = Some v -> In (k, v) d.
Proof.
  induction d as [|[k0 v0] d IH]; cbn; [discriminate|]. destruct (str_eqb k k0) eqn:E; intros H.
  - apply str_eqb_eq in E. injection H as ->. subst. now left.
  - right. now apply IH.
Qed.

Lemma col_NoDup it k : Forall (fun kv => NoDup (snd kv)) it -> NoDup (col it k).
Proof.
  intros H. unfold col. destruct (dget it k) as [v|] eqn:E; [|constructor].
  apply dget_In_pair in E. rewrite Forall_forall in H. apply (H _ E).
Qed.

Lemma prod_pos sh : Forall (fun d => 0 < d) sh <-> prod sh <> 0.
Proof.
  induction sh as [|d sh IH]; [cbn; split; [discriminate|constructor]|]. rewrite prod_cons. split.
  - intros H. inversion H; subst. apply IH in H3. nia.
  - intros H. constructor; [nia|]. apply IH. nia.
Qed.

Lemma spec_base_length s : items s <> [] -> length (spec_base s) = prod (map (glen (items s)) (groups s)).
Proof. intros H. unfold spec_base. destruct (items s); [congruence|]. now rewrite map_length, all_indices_length. Qed.

Lemma filtered_no_derivers_pos s keys l :
  wf_sweep s = true -> in_item_order s = true ->
  opt_keys (consts s) = [] -> excl s = None -> ders s = None ->
  Forall (fun kv => NoDup (snd kv)) (items s) ->
  keys <> [] -> NoDup keys -> incl keys (concat (groups s)) ->
  Forall (fun g => 0 < glen (items s) g) (groups s) ->
  generate s = Ok l ->
  exists f l', filtered s keys = Ok f /\ generate f = Ok l' /\ len f = Ok (length l')
    /\ nodup_ceq l'
    /\ (forall x, In x l' -> exists c, In c l /\ ceq (proj keys c) x)
    /\ (forall c, In c l -> exists x, In x l' /\ ceq (proj keys c) x).
Proof.
  intros Hwf Hord Hk He Hd Hvals Hkne Hknd Hincl Hpos Hgen.
  destruct (wf_sweep_parts _ Hwf) as [Hg [Hkc _]].
  assert (Hgk : forall k, In k (concat (groups s)) -> In k (dkeys (items s))) by (now apply wf_groups_keys).
  assert (Hitne : items s <> []).
  { destruct keys as [|k0 ks]; [congruence|]. intros E. specialize (Hgk k0 (Hincl k0 (or_introl eq_refl))).
    rewrite E in Hgk. contradiction. }
  assert (Hex : existsb (dhas (items s)) keys = true).
  { destruct keys as [|k0 ks]; [congruence|]. cbn [existsb]. apply orb_true_iff. left.
    apply dhas_In, Hgk, Hincl. now left. }
  set (f := {| items := items s; dims := Some (filtered_dims s keys); excl := excl s; consts := consts s; ders := None |}).
  assert (Hf : filtered s keys = Ok f).
  { unfold filtered. rewrite Hd, Hex, He. cbn [negb]. rewrite (len_eq_length s l Hgen). cbn [bind].
    rewrite (plain_generate s Hwf Hord Hk Hd He) in Hgen. injection Hgen as <-.
    rewrite (spec_base_length s Hitne).
    assert (Hp : prod (map (glen (items s)) (groups s)) <> 0).
    { apply prod_pos. apply Forall_map. exact Hpos. }
    destruct (prod (map (glen (items s)) (groups s))); [congruence|]. cbn [Nat.eqb]. unfold f. now rewrite He. }
  assert (Hgf : groups f = fgroups keys (groups s)).
  { unfold groups at 1. cbn [f dims]. now apply filtered_groups. }
  assert (Hwff : wf_sweep f = true).
  { unfold wf_sweep. rewrite Hgf. cbn [f items consts ders opt_keys]. rewrite (wf_fgroups _ keys _ Hg).
    rewrite (proj2 (nodup_str_NoDup _) Hkc). reflexivity. }
  assert (Hordf : in_item_order f = true).
  { unfold in_item_order. rewrite Hgf, concat_fgroups. cbn [f items]. apply subseq_str_Subseq.
    apply Subseq_filter_l. now apply subseq_str_Subseq. }
  rewrite (plain_generate s Hwf Hord Hk Hd He) in Hgen. injection Hgen as <-.
  exists f, (spec_base f). split; [exact Hf|].
  assert (Hgenf : generate f = Ok (spec_base f)) by (apply plain_generate; auto).
  split; [exact Hgenf|]. split; [now apply len_eq_length|].
  (* both bases as images of index vectors *)
  set (it := items s) in *. set (gs := groups s) in *.
  assert (Hbs : spec_base s = map (combo_at it gs) (all_indices (map (glen it) gs))).
  { unfold spec_base. fold it gs. destruct it; [congruence|reflexivity]. }
  assert (Hsh : map (glen it) (fgroups keys gs) = map (glen it) (filter (keep keys) gs)).
  { unfold fgroups. rewrite map_map. apply map_ext_in. intros g Hin. apply filter_In in Hin as [Hin Hkp].
    destruct (wf_groups_parts _ _ Hg) as [_ [_ Hfg]]. rewrite forallb_forall in Hfg. now apply glen_fgroup; [apply Hfg|]. }
  assert (Hbf : spec_base f = map (combo_at it (fgroups keys gs)) (all_indices (map (glen it) (filter (keep keys) gs)))).
  { unfold spec_base. rewrite Hgf. cbn [f items]. fold it gs. rewrite Hsh. destruct it; [congruence|reflexivity]. }
  rewrite Hbs, Hbf. split; [|split].
  - apply nodup_ceq_map; [apply all_indices_NoDup|]. intros j j' Hj Hj' Hc.
    apply in_all_indices in Hj. apply in_all_indices in Hj'. rewrite <- Hsh in Hj, Hj'.
    refine (combo_at_inj it (fgroups keys gs) _ _ j j' Hj Hj' Hc).
    + rewrite concat_fgroups. apply NoDup_filter. now destruct (wf_groups_parts _ _ Hg) as [_ [H _]].
    + pose proof (wf_fgroups _ keys _ Hg) as Hwfg. destruct (wf_groups_parts _ _ Hwfg) as [_ [_ Hfg]].
      apply Forall_forall. intros g' Hg'. rewrite forallb_forall in Hfg.
      destruct (wf_group_dget _ _ (Hfg g' Hg')) as [Hne Hdd]. split; [exact Hne|].
      intros k Hkin. split; [now apply col_NoDup|now apply Hdd].
  - intros x Hx. apply in_map_iff in Hx as [j [<- Hj]]. apply in_all_indices in Hj.
    exists (combo_at it gs (ext keys gs j)). split.
    + apply in_map. apply in_all_indices. now apply ext_in_bounds.
    + pose proof (in_bounds_length _ _ Hj) as Hlj. rewrite map_length in Hlj.
      pose proof (in_bounds_length _ _ (ext_in_bounds it keys gs Hpos j Hj)) as Hle. rewrite map_length in Hle.
      rewrite <- (rho_ext keys gs j Hlj) at 2. now apply proj_combo_at.
  - intros c Hc. apply in_map_iff in Hc as [idx [<- Hidx]]. apply in_all_indices in Hidx.
    exists (combo_at it (fgroups keys gs) (rho keys gs idx)). split.
    + apply in_map. apply in_all_indices. now apply rho_in_bounds.
    + pose proof (in_bounds_length _ _ Hidx) as Hli. rewrite map_length in Hli. now apply proj_combo_at.
Qed.

(* the repaired filtered_sweep looks at the length of the sweep: no guard on empty dimensions is needed *)
Theorem filtered_no_derivers s keys l :
  wf_sweep s = true -> in_item_order s = true ->
  opt_keys (consts s) = [] -> excl s = None -> ders s = None ->
  Forall (fun kv => NoDup (snd kv)) (items s) ->
  keys <> [] -> NoDup keys -> incl keys (concat (groups s)) ->
  generate s = Ok l ->
  exists f l', filtered s keys = Ok f /\ generate f = Ok l' /\ len f = Ok (length l')
    /\ nodup_ceq l'
    /\ (forall x, In x l' -> exists c, In c l /\ ceq (proj keys c) x)
    /\ (forall c, In c l -> exists x, In x l' /\ ceq (proj keys c) x).
Proof.
  intros Hwf Hord Hk He Hd Hvals Hkne Hknd Hincl Hgen.
  destruct (wf_sweep_parts _ Hwf) as [Hg _].
  assert (Hgk : forall k, In k (concat (groups s)) -> In k (dkeys (items s))) by (now apply wf_groups_keys).
  assert (Hitne : items s <> []).
  { destruct keys as [|k0 ks]; [congruence|]. intros E. specialize (Hgk k0 (Hincl k0 (or_introl eq_refl))).
    rewrite E in Hgk. contradiction. }
  assert (Hex : existsb (dhas (items s)) keys = true).
  { destruct keys as [|k0 ks]; [congruence|]. cbn [existsb]. apply orb_true_iff. left.
    apply dhas_In, Hgk, Hincl. now left. }
  destruct l as [|c0 l0] eqn:El.
  - exists empty_sweep, []. split.
    + unfold filtered. rewrite Hd, Hex, He. cbn [negb]. rewrite (len_eq_length s [] Hgen). reflexivity.
    + split; [reflexivity|]. split; [reflexivity|]. split; [exact I|]. split; [intros x []|intros c []].
  - rewrite <- El in *. apply (filtered_no_derivers_pos s keys l); try assumption.
    pose proof Hgen as Hgen'. rewrite (plain_generate s Hwf Hord Hk Hd He) in Hgen'. injection Hgen' as Hl.
    assert (Hp : prod (map (glen (items s)) (groups s)) <> 0).
    { rewrite <- (spec_base_length s Hitne), Hl, El. discriminate. }
    apply prod_pos in Hp. rewrite Forall_map in Hp. exact Hp.
Qed.

(* ---------- "exactly once": with duplicate-free value lists the base combinations are pairwise different ---------- *)
Lemma wf_groups_inj_hyp it gs : wf_groups it gs = true -> Forall (fun kv => NoDup (snd kv)) it ->
  Forall (fun g => g <> [] /\ forall k, In k g -> NoDup (col it k) /\ length (col it k) = glen it g) gs.
Proof.
  intros Hwf Hv. destruct (wf_groups_parts _ _ Hwf) as [_ [_ Hfg]]. apply Forall_forall. intros g Hg.
  rewrite forallb_forall in Hfg. destruct (wf_group_dget _ _ (Hfg g Hg)) as [Hne Hdd]. split; [exact Hne|].
  intros k Hk. split; [now apply col_NoDup|now apply Hdd].
Qed.

Theorem spec_base_distinct s :
  wf_sweep s = true -> Forall (fun kv => NoDup (snd kv)) (items s) -> nodup_ceq (spec_base s).
Proof.
  intros Hwf Hv. destruct (wf_sweep_parts _ Hwf) as [Hg _]. unfold spec_base. destruct (items s) as [|kv it'] eqn:E; [exact I|].
  rewrite <- E in *. apply nodup_ceq_map; [apply all_indices_NoDup|]. intros j j' Hj Hj' Hc.
  apply in_all_indices in Hj. apply in_all_indices in Hj'.
  refine (combo_at_inj (items s) (groups s) _ (wf_groups_inj_hyp _ _ Hg Hv) j j' Hj Hj' Hc).
  now destruct (wf_groups_parts _ _ Hg) as [_ [H _]].
Qed.

(* ---------- dims = permuted plain item keys: the same combinations (as finite maps) ---------- *)
Definition chosen (it : dict (list val)) (ks : list str) (c : combo) : Prop :=
  (forall k, In k ks -> exists i, i < length (col it k) /\ dget c k = Some (nth i (col it k) dflt))
  /\ (forall k, ~ In k ks -> dget c k = None).

Lemma concat_singles_In ks k : In k (concat (singles ks)) <-> In k ks.
Proof. now rewrite concat_singles. Qed.

Lemma chosen_combo_at it ks : NoDup ks -> forall idx,
  in_bounds (map (glen it) (singles ks)) idx = true -> chosen it ks (combo_at it (singles ks) idx).
Proof.
  intros Hnd idx Hb. split.
  - revert idx Hb. induction ks as [|k0 ks IH]; intros idx Hb k Hk; [contradiction|].
    destruct idx as [|i idx]; [discriminate|]. cbn [singles map] in Hb. fold (singles ks) in Hb.
    rewrite in_bounds_cons in Hb. apply andb_true_iff in Hb as [Hi Hb]. apply Nat.ltb_lt in Hi. cbn [glen] in Hi.
    inversion Hnd as [|? ? Hn Hnd']; subst. rewrite dget_combo_at. cbn [singles map look mem_str]. fold (singles ks).
    destruct (str_eqb k k0) eqn:E; cbn [orb].
    + apply str_eqb_eq in E. subst. exists i. split; [assumption|reflexivity].
    + destruct Hk as [->|Hk]; [now rewrite str_eqb_refl in E|]. rewrite <- dget_combo_at. now apply IH.
  - intros k Hk. rewrite dget_combo_at. apply look_None. now rewrite concat_singles.
Qed.

Lemma chosen_exists it ks c : NoDup ks -> chosen it ks c ->
  exists idx, in_bounds (map (glen it) (singles ks)) idx = true /\ ceq (combo_at it (singles ks) idx) c.
Proof.
  intros Hnd [H1 H2].
  assert (Hex : exists idx, in_bounds (map (glen it) (singles ks)) idx = true
                            /\ forall k, In k ks -> look it (singles ks) idx k = dget c k).
  { clear H2. induction ks as [|k0 ks IH].
    - exists []. split; [reflexivity|]. intros k [].
    - inversion Hnd as [|? ? Hn Hnd']; subst. destruct (H1 k0 (or_introl eq_refl)) as [i0 [Hi0 Hd0]].
      destruct (IH Hnd' (fun k Hk => H1 k (or_intror Hk))) as [idx [Hb Hl]].
      exists (i0 :: idx). split.
      + cbn [singles map]. fold (singles ks). rewrite in_bounds_cons. cbn [glen].
        rewrite (proj2 (Nat.ltb_lt _ _) Hi0). exact Hb.
      + intros k Hk. cbn [singles map look mem_str]. fold (singles ks). destruct (str_eqb k k0) eqn:E; cbn [orb].
        * apply str_eqb_eq in E. subst. now rewrite Hd0.
        * destruct Hk as [->|Hk]; [now rewrite str_eqb_refl in E|]. now apply Hl. }
  destruct Hex as [idx [Hb Hl]]. exists idx. split; [exact Hb|]. intros k. rewrite dget_combo_at.
  destruct (in_dec (list_eq_dec Ascii.ascii_dec) k ks) as [Hin|Hnin].
  - now apply Hl.
  - rewrite H2 by assumption. apply look_None. now rewrite concat_singles.
Qed.

Lemma chosen_perm it ks ks' c : (forall k, In k ks <-> In k ks') -> chosen it ks c -> chosen it ks' c.
Proof.
  intros H [H1 H2]. split.
  - intros k Hk. apply H1. now apply H.
  - intros k Hk. apply H2. intros Hin. apply Hk. now apply H.
Qed.

Lemma ceq_chosen it ks c c' : ceq c c' -> chosen it ks c -> chosen it ks c'.
Proof.
  intros Hc [H1 H2]. split.
  - intros k Hk. destruct (H1 k Hk) as [i [Hi Hd]]. exists i. split; [assumption|]. now rewrite <- Hc.
  - intros k Hk. rewrite <- Hc. now apply H2.
Qed.

Lemma base_singles_incl it ks ks' : NoDup ks -> NoDup ks' -> (forall k, In k ks <-> In k ks') ->
  forall x, In x (map (combo_at it (singles ks)) (all_indices (map (glen it) (singles ks)))) ->
  exists y, In y (map (combo_at it (singles ks')) (all_indices (map (glen it) (singles ks')))) /\ ceq x y.
Proof.
  intros Hnd Hnd' Hp x Hx. apply in_map_iff in Hx as [idx [<- Hidx]]. apply in_all_indices in Hidx.
  pose proof (chosen_combo_at it ks Hnd idx Hidx) as Hch. apply (chosen_perm it ks ks' _ Hp) in Hch.
  destruct (chosen_exists it ks' _ Hnd' Hch) as [idx' [Hb Hc]].
  exists (combo_at it (singles ks') idx'). split; [apply in_map; now apply in_all_indices|now apply ceq_sym].
Qed.

(* the documented combinations of s (dims order) and those of the same sweep with dims omitted (item order,
   what the code enumerates) are the same finite maps *)
Theorem base_permuted s d :
  wf_sweep s = true -> dims s = Some d -> dims_is_keyset d (dkeys (items s)) = true ->
  (forall x, In x (spec_base s) -> exists y, In y (spec_base (set_dims s None)) /\ ceq x y)
  /\ (forall y, In y (spec_base (set_dims s None)) -> exists x, In x (spec_base s) /\ ceq y x).
Proof.
  intros Hwf Hd Hk. destruct (wf_sweep_parts _ Hwf) as [Hg _]. destruct (wf_groups_parts _ _ Hg) as [Hnk [Hng _]].
  destruct (keyset_all_str _ _ Hk) as [Hs Hincl].
  assert (Hgs : groups s = singles (dstr_keys d)) by (unfold groups; now rewrite Hd).
  assert (Hgs' : groups (set_dims s None) = singles (dkeys (items s))) by reflexivity.
  rewrite Hgs, concat_singles in Hng.
  assert (Hp : forall k, In k (dstr_keys d) <-> In k (dkeys (items s))).
  { intros k. split; [|apply Hincl]. intros Hin. apply (wf_groups_keys _ _ Hg). rewrite Hgs, concat_singles. exact Hin. }
  unfold spec_base. rewrite Hgs, Hgs'. cbn [set_dims items]. destruct (items s) as [|kv it'] eqn:E.
  - split; intros ? [].
  - rewrite <- E in *. split.
    + now apply base_singles_incl.
    + apply base_singles_incl; [assumption|assumption|]. intros k. symmetry. apply Hp.
Qed.

(* ---------- ... and so are the finished lists, for callables that depend on the finite map only ---------- *)
Definition ext_sweep (s : sweep) : Prop :=
  Forall (fun kf : str * deriver => forall c c', ceq c c' -> snd kf c = snd kf c') (dl s)
  /\ (forall c c', ceq c c' -> exf s c = exf s c').

Definition res_rel (r r' : result (option combo)) : Prop :=
  match r, r' with Ok x, Ok y => opt_ceq x y | Err e, Err e' => e = e' | _, _ => False end.

Lemma spec_derive_ceq ds : Forall (fun kf : str * deriver => forall c c', ceq c c' -> snd kf c = snd kf c') ds ->
  forall c c', ceq c c' ->
  match spec_derive c ds, spec_derive c' ds with Ok x, Ok y => ceq x y | Err e, Err e' => e = e' | _, _ => False end.
Proof.
  induction 1 as [|[k f] ds Hf _ IH]; intros c c' Hc; cbn [spec_derive].
  - exact Hc.
  - cbn [snd] in Hf. rewrite (Hf c c' Hc). destruct (f c') as [v|]; cbn [bind]; [|reflexivity].
    apply IH. intros x. rewrite !dget_dset. destruct (str_eqb x k); [reflexivity|apply Hc].
Qed.

Lemma spec_finish_norm' s c : spec_finish s c = nfinish (norm s) c.
Proof. apply spec_finish_norm. Qed.

Lemma finish_ceq s c c' : ext_sweep s -> ceq c c' -> res_rel (spec_finish s c) (spec_finish s c').
Proof.
  intros [Hd He] Hc. rewrite !spec_finish_norm. unfold nfinish. cbn [norm n_k n_d n_e].
  assert (Hk : ceq (nconsts (kl s) c) (nconsts (kl s) c')).
  { intros x. rewrite !dget_nconsts. now rewrite Hc. }
  pose proof (spec_derive_ceq (dl s) Hd _ _ Hk) as H.
  destruct (spec_derive (nconsts (kl s) c) (dl s)) as [x|]; destruct (spec_derive (nconsts (kl s) c') (dl s)) as [y|];
    cbn [bind]; try contradiction; [|exact H].
  rewrite (He x y H). destruct (exf s y) as [[|]|]; cbn [bind res_rel opt_ceq]; auto.
Qed.

Lemma in_somes_mapM {A} (f : A -> result (option combo)) l R v :
  mapM f l = Ok R -> (In v (somes R) <-> exists y, In y l /\ f y = Ok (Some v)).
Proof.
  revert R; induction l as [|x l IH]; cbn [mapM]; intros R H.
  - injection H as <-. cbn. split; [intros []|intros [y [[] _]]].
  - destruct (f x) as [r|] eqn:E; cbn [bind] in H; [|discriminate].
    destruct (mapM f l) as [R'|]; cbn [bind] in H; [|discriminate]. injection H as <-.
    specialize (IH R' eq_refl). destruct r as [w|]; cbn [somes In].
    + rewrite IH. split.
      * intros [<-|[y [Hy1 Hy2]]]; [exists x; split; [now left|assumption]|exists y; split; [now right|assumption]].
      * intros [y [[<-|Hy1] Hy2]]; [left; congruence|right; exists y; now split].
    + rewrite IH. split.
      * intros [y [Hy1 Hy2]]. exists y. split; [now right|assumption].
      * intros [y [[<-|Hy1] Hy2]]; [congruence|exists y; now split].
Qed.

Lemma mapM_all_ok {A B} (f : A -> result B) l : (forall y, In y l -> exists r, f y = Ok r) -> exists R, mapM f l = Ok R.
Proof.
  induction l as [|x l IH]; intros H; [now exists []|]. destruct (H x (or_introl eq_refl)) as [r Hr].
  destruct (IH (fun y Hy => H y (or_intror Hy))) as [R HR]. exists (r :: R). cbn [mapM]. now rewrite Hr, HR.
Qed.

Lemma spec_list_incl s B B' L :
  ext_sweep s -> (forall y, In y B' -> exists x, In x B /\ ceq y x) ->
  (do l <- mapM (spec_finish s) B; Ok (somes l)) = Ok L ->
  exists L', (do l <- mapM (spec_finish s) B'; Ok (somes l)) = Ok L'
             /\ forall v', In v' L' -> exists v, In v L /\ ceq v' v.
Proof.
  intros Hext Hincl HL. destruct (mapM (spec_finish s) B) as [R|] eqn:ER; cbn [bind] in HL; [|discriminate].
  injection HL as <-.
  assert (Hok : forall x, In x B -> exists r, spec_finish s x = Ok r).
  { intros x Hx. destruct (mapM_Ok_inv _ _ _ ER x Hx) as [r [Hr _]]. now exists r. }
  assert (Hok' : forall y, In y B' -> exists r, spec_finish s y = Ok r).
  { intros y Hy. destruct (Hincl y Hy) as [x [Hx Hc]]. destruct (Hok x Hx) as [r Hr].
    pose proof (finish_ceq s y x Hext Hc) as H. rewrite Hr in H. destruct (spec_finish s y) as [r'|]; [now exists r'|contradiction]. }
  destruct (mapM_all_ok _ _ Hok') as [R' HR']. rewrite HR'. cbn [bind]. exists (somes R'). split; [reflexivity|].
  intros v' Hv'. apply (in_somes_mapM _ _ _ _ HR') in Hv' as [y [Hy Hfy]].
  destruct (Hincl y Hy) as [x [Hx Hc]]. pose proof (finish_ceq s y x Hext Hc) as H. rewrite Hfy in H.
  destruct (spec_finish s x) as [[v|]|] eqn:Ex; cbn [res_rel opt_ceq] in H; try contradiction.
  exists v. split; [|exact H]. apply (in_somes_mapM _ _ _ _ ER). exists x. now split.
Qed.

(* in the one case where the code does not follow the order of dims, list() still consists of exactly the
   documented combinations (as finite maps) *)
Theorem generate_permuted_same_set s d L :
  wf_sweep s = true -> dims s = Some d -> dims_is_keyset d (dkeys (items s)) = true ->
  ext_sweep s -> spec_list s = Ok L ->
  exists L', generate s = Ok L'
    /\ (forall v', In v' L' -> exists v, In v L /\ ceq v' v)
    /\ (forall v, In v L -> exists v', In v' L' /\ ceq v v').
Proof.
  intros Hwf Hd Hk Hext HL. destruct (generate_permuted s d Hwf Hd Hk) as [Hg _].
  destruct (base_permuted s d Hwf Hd Hk) as [H1 H2]. rewrite Hg.
  assert (Hsf : forall c, spec_finish (set_dims s None) c = spec_finish s c) by reflexivity.
  unfold spec_list in *. rewrite (mapM_ext_in _ (spec_finish s)) by (intros; apply Hsf).
  destruct (spec_list_incl s _ _ L Hext H2 HL) as [L' [HL' Hin]].
  exists L'. split; [exact HL'|]. split; [exact Hin|].
  destruct (spec_list_incl s _ _ L' Hext H1 HL') as [L2 [HL2 Hin2]].
  rewrite HL in HL2. injection HL2 as <-. exact Hin2.
Qed.
