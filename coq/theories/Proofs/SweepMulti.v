(* C17: MultiSweep / + yield the concatenation; len of a MultiSweep. *)
From Verif Require Import Base.Prelude Base.Index Model.Sweep Model.SweepSpec Proofs.SweepFacts.

Fixpoint msweep_ind' (P : msweep -> Prop) (Hl : forall s, P (MLeaf s))
  (Hm : forall l, Forall P l -> P (MMulti l)) (m : msweep) : P m :=
  match m with
  | MLeaf s => Hl s
  | MMulti l =>
      Hm l ((fix go (l : list msweep) : Forall P l :=
               match l with
               | [] => Forall_nil P
               | x :: t => Forall_cons x (msweep_ind' P Hl Hm x) (go t)
               end) l)
  end.

Lemma mgenerate_multi l : mgenerate (MMulti l) = do ls <- mapM mgenerate l; Ok (concat ls).
Proof.
  induction l as [|x l IH]; [reflexivity|].
  cbn [mapM]. change (mgenerate (MMulti (x :: l))) with (do a <- mgenerate x; do b <- mgenerate (MMulti l); Ok (a ++ b)).
  rewrite IH. destruct (mgenerate x); cbn [bind]; [|reflexivity]. destruct (mapM mgenerate l); reflexivity.
Qed.

Lemma mlen_multi l : mlen (MMulti l) = do ns <- mapM mlen l; Ok (fold_right Nat.add 0 ns).
Proof.
  induction l as [|x l IH]; [reflexivity|].
  cbn [mapM]. change (mlen (MMulti (x :: l))) with (do a <- mlen x; do b <- mlen (MMulti l); Ok (a + b)).
  rewrite IH. destruct (mlen x); cbn [bind]; [|reflexivity]. destruct (mapM mlen l); reflexivity.
Qed.

Lemma fold_add_app a b : fold_right Nat.add 0 (a ++ b) = fold_right Nat.add 0 a + fold_right Nat.add 0 b.
Proof. induction a as [|x a IH]; cbn; [reflexivity|]. rewrite IH. lia. Qed.

(* a + b (and MultiSweep(a, b)) yields the combinations of a followed by those of b *)
Theorem add_is_concat a b :
  mgenerate (madd a b) = do x <- mgenerate a; do y <- mgenerate b; Ok (x ++ y).
Proof.
  destruct a as [s|l].
  - unfold madd. rewrite mgenerate_multi. cbn [mapM].
    destruct (mgenerate (MLeaf s)); cbn [bind]; [|reflexivity].
    destruct (mgenerate b); cbn [bind concat]; [|reflexivity]. now rewrite app_nil_r.
  - destruct b as [s|l'].
    + unfold madd. rewrite !mgenerate_multi, mapM_app. cbn [mapM].
      destruct (mapM mgenerate l); cbn [bind]; [|reflexivity].
      destruct (mgenerate (MLeaf s)); cbn [bind]; [|reflexivity].
      rewrite concat_app. cbn [concat]. now rewrite app_nil_r.
    + unfold madd. rewrite !mgenerate_multi, mapM_app.
      destruct (mapM mgenerate l); cbn [bind]; [|reflexivity].
      destruct (mapM mgenerate l'); cbn [bind]; [|reflexivity]. now rewrite concat_app.
Qed.

Theorem add_len_sum a b : mlen (madd a b) = do x <- mlen a; do y <- mlen b; Ok (x + y).
Proof.
  destruct a as [s|l].
  - unfold madd. rewrite mlen_multi. cbn [mapM].
    destruct (mlen (MLeaf s)); cbn [bind]; [|reflexivity].
    destruct (mlen b); cbn [bind fold_right]; [|reflexivity]. f_equal. lia.
  - destruct b as [s|l'].
    + unfold madd. rewrite !mlen_multi, mapM_app. cbn [mapM].
      destruct (mapM mlen l); cbn [bind]; [|reflexivity].
      destruct (mlen (MLeaf s)); cbn [bind]; [|reflexivity].
      rewrite fold_add_app. cbn [fold_right]. f_equal. lia.
    + unfold madd. rewrite !mlen_multi, mapM_app.
      destruct (mapM mlen l); cbn [bind]; [|reflexivity].
      destruct (mapM mlen l'); cbn [bind]; [|reflexivity]. now rewrite fold_add_app.
Qed.

Theorem mlen_eq_length m : forall l, mgenerate m = Ok l -> mlen m = Ok (length l).
Proof.
  induction m as [s|ms IH] using msweep_ind'; intros l H.
  - now apply len_eq_length.
  - rewrite mgenerate_multi in H. rewrite mlen_multi.
    destruct (mapM mgenerate ms) as [ls|] eqn:E; cbn [bind] in H; [|discriminate]. injection H as <-.
    revert ls E. induction IH as [|x ms Hx _ IHms]; intros ls E.
    + cbn in E. injection E as <-. reflexivity.
    + cbn [mapM] in *. destruct (mgenerate x) as [a|] eqn:Ea; cbn [bind] in E; [|discriminate].
      destruct (mapM mgenerate ms) as [rest|] eqn:Er; cbn [bind] in E; [|discriminate]. injection E as <-.
      rewrite (Hx _ eq_refl). cbn [bind]. specialize (IHms _ eq_refl).
      destruct (mapM mlen ms) as [ns|]; cbn [bind] in *; [|discriminate]. injection IHms as IHms.
      cbn [concat fold_right]. now rewrite app_length, IHms.
Qed.
