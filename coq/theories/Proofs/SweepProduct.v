(* C17: product of sweeps with disjoint keys = Cartesian product of the combination lists. *)
From Verif Require Import Base.Prelude Base.Index Model.Sweep Model.SweepSpec Proofs.IndexFacts Proofs.SweepFacts.

(* combinations as finite maps *)
Definition ceq (a b : combo) : Prop := forall k, dget a k = dget b k.
Definition agree_on (K : list str) (a b : combo) : Prop := forall k, In k K -> dget a k = dget b k.
(* a user callable that only looks at the keys K *)
Definition local_d (K : list str) (f : deriver) : Prop := forall c c', agree_on K c c' -> f c = f c'.
Definition local_p (K : list str) (e : predicate) : Prop := forall c c', agree_on K c c' -> e c = e c'.

Lemma ceq_refl a : ceq a a. Proof. intros k; reflexivity. Qed.
Lemma ceq_sym a b : ceq a b -> ceq b a. Proof. intros H k; symmetry; apply H. Qed.
Lemma ceq_trans a b c : ceq a b -> ceq b c -> ceq a c. Proof. intros H1 H2 k. now rewrite H1. Qed.

(* ---------- normal form of a sweep: what the documented list depends on ---------- *)
Record nsw := { n_it : dict (list val); n_gs : list (list str); n_k : combo; n_d : dict deriver; n_e : predicate }.

Definition kl (s : sweep) : combo := match consts s with None => [] | Some k => k end.
Definition dl (s : sweep) : dict deriver := match ders s with None => [] | Some d => d end.
Definition exf (s : sweep) : predicate := match excl s with None => fun _ => Ok false | Some e => e end.
Definition norm (s : sweep) : nsw :=
  {| n_it := items s; n_gs := groups s; n_k := kl s; n_d := dl s; n_e := exf s |}.

Definition or_pred (e1 e2 : predicate) : predicate := fun c => do b <- e1 c; if b then Ok true else e2 c.
Definition njoin (a b : nsw) : nsw :=
  {| n_it := n_it a ++ n_it b; n_gs := n_gs a ++ n_gs b; n_k := n_k a ++ n_k b; n_d := n_d a ++ n_d b;
     n_e := or_pred (n_e a) (n_e b) |}.

Definition nkeys (a : nsw) : list str := concat (n_gs a) ++ dkeys (n_k a) ++ dkeys (n_d a).
Definition nall (a : nsw) : list str := dkeys (n_it a) ++ dkeys (n_k a) ++ dkeys (n_d a).

Definition nconsts (k c : combo) : combo := c ++ filter (fun kv => negb (mem_str (fst kv) (dkeys c))) k.
Definition nfinish (a : nsw) (c : combo) : result (option combo) :=
  do c2 <- spec_derive (nconsts (n_k a) c) (n_d a);
  do b <- n_e a c2;
  Ok (if b then None else Some c2).
Definition nbase (a : nsw) : list combo :=
  match n_it a with
  | [] => []
  | _ :: _ => map (combo_at (n_it a) (n_gs a)) (all_indices (map (glen (n_it a)) (n_gs a)))
  end.
Definition nspec (a : nsw) : result (list combo) := do l <- mapM (nfinish a) (nbase a); Ok (somes l).

Lemma spec_finish_norm s c : spec_finish s c = nfinish (norm s) c.
Proof.
  unfold spec_finish, nfinish, norm, kl, dl, exf, nconsts, spec_consts. cbn [n_k n_d n_e].
  destruct (consts s) as [k|]; destruct (ders s) as [d|]; cbn [filter spec_derive bind]; rewrite ?app_nil_r;
    try reflexivity.
  - destruct (spec_derive _ d); cbn [bind]; [|reflexivity]. destruct (excl s); reflexivity.
  - destruct (excl s); reflexivity.
  - destruct (spec_derive c d); cbn [bind]; [|reflexivity]. destruct (excl s); reflexivity.
  - destruct (excl s); reflexivity.
Qed.

Lemma spec_list_norm s : spec_list s = nspec (norm s).
Proof.
  unfold spec_list, nspec. replace (nbase (norm s)) with (spec_base s) by reflexivity.
  rewrite (mapM_ext_in _ (nfinish (norm s))); [reflexivity|]. intros c _. apply spec_finish_norm.
Qed.

Lemma nspec_ext a b :
  n_it a = n_it b -> n_gs a = n_gs b -> n_k a = n_k b -> n_d a = n_d b -> (forall c, n_e a c = n_e b c) ->
  nspec a = nspec b.
Proof.
  intros H1 H2 H3 H4 H5. unfold nspec, nbase. rewrite H1, H2.
  rewrite (mapM_ext_in _ (nfinish b)); [reflexivity|]. intros c _. unfold nfinish. rewrite H3, H4.
  destruct (spec_derive _ (n_d b)); cbn [bind]; [|reflexivity]. now rewrite H5.
Qed.

(* ---------- dget facts ---------- *)
Lemma dget_filter_notin (l : combo) (K : list str) k :
  dget (filter (fun kv => negb (mem_str (fst kv) K)) l) k = if mem_str k K then None else dget l k.
Proof.
  induction l as [|[k0 v0] l IH]; cbn [filter fst]; [now destruct (mem_str k K)|].
  destruct (mem_str k0 K) eqn:E0; cbn [negb dget].
  - rewrite IH. destruct (str_eqb k k0) eqn:E; [|reflexivity].
    apply str_eqb_eq in E. subst. now rewrite E0.
  - destruct (str_eqb k k0) eqn:E.
    + apply str_eqb_eq in E. subst. now rewrite E0.
    + apply IH.
Qed.

Lemma dget_nconsts k c x :
  dget (nconsts k c) x = match dget c x with Some v => Some v | None => dget k x end.
Proof.
  unfold nconsts. rewrite dget_app, dget_filter_notin. destruct (dget c x) eqn:E; [reflexivity|].
  apply dget_None, mem_str_nIn in E. now rewrite E.
Qed.

Lemma dget_Some_In {V} (d : dict V) k : dget d k <> None <-> In k (dkeys d).
Proof.
  destruct (dget d k) eqn:E.
  - split; [intros _; eapply dget_In_keys; eassumption|intros _; discriminate].
  - apply dget_None in E. split; [congruence|contradiction].
Qed.

Lemma spec_derive_app d1 : forall d2 c,
  spec_derive c (d1 ++ d2) = do c' <- spec_derive c d1; spec_derive c' d2.
Proof.
  induction d1 as [|[k f] d1 IH]; intros d2 c; cbn [app spec_derive bind]; [reflexivity|].
  destruct (f c); cbn [bind]; [apply IH|reflexivity].
Qed.

(* keys after the derivers: old keys and deriver keys *)
Lemma spec_derive_keys d : forall c c', spec_derive c d = Ok c' ->
  forall k, dget c' k <> None -> dget c k <> None \/ In k (dkeys d).
Proof.
  induction d as [|[k0 f] d IH]; intros c c' H k Hk; cbn [spec_derive] in H.
  - injection H as <-. now left.
  - destruct (f c) as [v|]; cbn [bind] in H; [|discriminate].
    destruct (IH _ _ H k Hk) as [H1|H1].
    + rewrite dget_dset in H1. destruct (str_eqb k k0) eqn:E.
      * apply str_eqb_eq in E. subst. right. now left.
      * now left.
    + right. now right.
Qed.

(* frame lemmas: the derivers of one operand act on its part of a joined combination only *)
Lemma frame_l K d : Forall (fun kf => local_d K (snd kf)) d ->
  forall c x y x', ceq c (x ++ y) -> (forall k, In k K -> dget y k = None) ->
  spec_derive x d = Ok x' -> exists c', spec_derive c d = Ok c' /\ ceq c' (x' ++ y).
Proof.
  induction 1 as [|[k0 f] d Hf _ IH]; intros c x y x' Hc Hy Hx; cbn [spec_derive] in *.
  - injection Hx as <-. exists c. split; [reflexivity|assumption].
  - cbn [snd] in Hf. assert (Hfc : f c = f x).
    { apply Hf. intros k Hk. rewrite Hc, dget_app. destruct (dget x k); [reflexivity|now apply Hy]. }
    rewrite Hfc. destruct (f x) as [v|]; cbn [bind] in *; [|discriminate].
    apply (IH _ (dset x k0 v) y); [|assumption|assumption].
    intros k. rewrite dget_app, !dget_dset. destruct (str_eqb k k0); [reflexivity|]. now rewrite Hc, dget_app.
Qed.

Lemma frame_r K d : Forall (fun kf => local_d K (snd kf)) d -> (forall k, In k (dkeys d) -> In k K) ->
  forall c x y y', ceq c (x ++ y) -> (forall k, In k K -> dget x k = None) ->
  spec_derive y d = Ok y' -> exists c', spec_derive c d = Ok c' /\ ceq c' (x ++ y').
Proof.
  induction 1 as [|[k0 f] d Hf _ IH]; intros Hw c x y y' Hc Hx Hy; cbn [spec_derive] in *.
  - injection Hy as <-. exists c. split; [reflexivity|assumption].
  - cbn [snd] in Hf. assert (Hfc : f c = f y).
    { apply Hf. intros k Hk. rewrite Hc, dget_app. now rewrite (Hx k Hk). }
    rewrite Hfc. destruct (f y) as [v|]; cbn [bind] in *; [|discriminate].
    apply (IH (fun k Hk => Hw k (or_intror Hk)) _ x (dset y k0 v)); [|assumption|assumption].
    intros k. rewrite dget_app, !dget_dset. destruct (str_eqb k k0) eqn:E.
    + apply str_eqb_eq in E. subst. rewrite Hx; [reflexivity|]. apply Hw. now left.
    + now rewrite Hc, dget_app.
Qed.

(* ---------- well-formed operands ---------- *)
Record nwf (a : nsw) : Prop := {
  nwf_groups : wf_groups (n_it a) (n_gs a) = true;
  nwf_keys : NoDup (nall a);
  nwf_ne : n_it a <> [];
  nwf_ld : Forall (fun kf => local_d (nkeys a) (snd kf)) (n_d a);
  nwf_le : local_p (nkeys a) (n_e a) }.

Lemma wf_groups_parts it gs : wf_groups it gs = true ->
  NoDup (dkeys it) /\ NoDup (concat gs) /\ forallb (wf_group it) gs = true.
Proof.
  unfold wf_groups. intros H. apply andb_true_iff in H as [H H3]. apply andb_true_iff in H as [H1 H2].
  now rewrite <- !nodup_str_NoDup.
Qed.

Lemma wf_groups_keys it gs : wf_groups it gs = true -> forall k, In k (concat gs) -> In k (dkeys it).
Proof.
  intros H k Hk. destruct (wf_groups_parts _ _ H) as [_ [_ Hg]]. rewrite forallb_forall in Hg.
  apply in_concat in Hk as [g [Hg1 Hg2]]. destruct (wf_group_dget _ _ (Hg g Hg1)) as [_ Hd].
  now apply dhas_In, Hd.
Qed.

Lemma nkeys_nall a : nwf a -> forall k, In k (nkeys a) -> In k (nall a).
Proof.
  intros Hw k Hk. unfold nkeys, nall in *. apply in_app_or in Hk as [Hk|Hk].
  - apply in_or_app. left. eapply wf_groups_keys; [apply Hw|assumption].
  - apply in_or_app. now right.
Qed.

Definition join_opt (ra rb : option combo) : option combo :=
  match ra, rb with Some x, Some y => Some (x ++ y) | _, _ => None end.
Definition opt_ceq (r r' : option combo) : Prop :=
  match r, r' with Some x, Some y => ceq x y | None, None => True | _, _ => False end.

Lemma nconsts_join ka kb ca cb :
  (forall k, dget cb k <> None -> dget ka k = None) ->
  ceq (nconsts (ka ++ kb) (ca ++ cb)) (nconsts ka ca ++ nconsts kb cb).
Proof.
  intros H k. rewrite dget_app, !dget_nconsts, !dget_app.
  destruct (dget ca k); [reflexivity|]. destruct (dget cb k) eqn:E; [|reflexivity].
  rewrite H; [reflexivity|]. now rewrite E.
Qed.

Lemma nfin_keys a ca x2 : nwf a -> dkeys ca = concat (n_gs a) ->
  spec_derive (nconsts (n_k a) ca) (n_d a) = Ok x2 -> forall k, dget x2 k <> None -> In k (nall a).
Proof.
  intros Hw Hca Hx k Hk. apply (nkeys_nall a Hw). unfold nkeys.
  destruct (spec_derive_keys _ _ _ Hx k Hk) as [H|H].
  - rewrite dget_nconsts in H. destruct (dget ca k) eqn:E.
    + apply in_or_app. left. rewrite <- Hca. eapply dget_In_keys; eassumption.
    + apply in_or_app. right. apply in_or_app. left. now apply dget_Some_In.
  - apply in_or_app. right. apply in_or_app. now right.
Qed.

Lemma not_not_none {A} (o : option A) : ~ o <> None -> o = None.
Proof. destruct o; [intros H; exfalso; apply H; discriminate|reflexivity]. Qed.

Lemma nfinish_join a b ca cb ra rb :
  nwf a -> nwf b -> (forall k, In k (nall a) -> In k (nall b) -> False) ->
  dkeys ca = concat (n_gs a) -> dkeys cb = concat (n_gs b) ->
  nfinish a ca = Ok ra -> nfinish b cb = Ok rb ->
  exists r, nfinish (njoin a b) (ca ++ cb) = Ok r /\ opt_ceq r (join_opt ra rb).
Proof.
  intros Hwa Hwb Hdis Hca Hcb Ha Hb. unfold nfinish in *. cbn [njoin n_k n_d n_e].
  destruct (spec_derive (nconsts (n_k a) ca) (n_d a)) as [x2|] eqn:Ex; cbn [bind] in Ha; [|discriminate].
  destruct (spec_derive (nconsts (n_k b) cb) (n_d b)) as [y2|] eqn:Ey; cbn [bind] in Hb; [|discriminate].
  destruct (n_e a x2) as [ba|] eqn:Eba; cbn [bind] in Ha; [|discriminate]. injection Ha as <-.
  destruct (n_e b y2) as [bb|] eqn:Ebb; cbn [bind] in Hb; [|discriminate]. injection Hb as <-.
  assert (Hx2 : forall k, dget x2 k <> None -> In k (nall a)) by (eapply nfin_keys; eassumption).
  assert (Hy2 : forall k, dget y2 k <> None -> In k (nall b)) by (eapply nfin_keys; eassumption).
  assert (Hcb_b : forall k, dget cb k <> None -> In k (nall b)).
  { intros k Hk. apply (nkeys_nall b Hwb). unfold nkeys. apply in_or_app. left. rewrite <- Hcb.
    now apply dget_Some_In. }
  assert (Hy1 : forall k, In k (nkeys a) -> dget (nconsts (n_k b) cb) k = None).
  { intros k Hk. apply (nkeys_nall a Hwa) in Hk. apply not_not_none. intros Hn. apply (Hdis k Hk).
    rewrite dget_nconsts in Hn. destruct (dget cb k) eqn:E.
    - apply Hcb_b. now rewrite E.
    - unfold nall. apply in_or_app. right. apply in_or_app. left. now apply dget_Some_In. }
  assert (Hc1 : ceq (nconsts (n_k a ++ n_k b) (ca ++ cb)) (nconsts (n_k a) ca ++ nconsts (n_k b) cb)).
  { apply nconsts_join. intros k Hk. apply not_not_none. intros Hn. apply (Hdis k).
    - unfold nall. apply in_or_app. right. apply in_or_app. left. now apply dget_Some_In.
    - now apply Hcb_b. }
  destruct (frame_l _ _ (nwf_ld a Hwa) _ _ _ _ Hc1 Hy1 Ex) as [c2' [Hd1 Hc2']].
  assert (Hx2b : forall k, In k (nkeys b) -> dget x2 k = None).
  { intros k Hk. apply (nkeys_nall b Hwb) in Hk. apply not_not_none. intros Hn. apply (Hdis k); auto. }
  assert (Hwr : forall k, In k (dkeys (n_d b)) -> In k (nkeys b)).
  { intros k Hk. unfold nkeys. apply in_or_app. right. apply in_or_app. now right. }
  destruct (frame_r _ _ (nwf_ld b Hwb) Hwr _ _ _ _ Hc2' Hx2b Ey) as [c2 [Hd2 Hc2]].
  rewrite spec_derive_app, Hd1. cbn [bind]. rewrite Hd2. cbn [bind].
  assert (Hea : n_e a c2 = n_e a x2).
  { apply (nwf_le a Hwa). intros k Hk. rewrite Hc2, dget_app. destruct (dget x2 k) eqn:E; [reflexivity|].
    apply (nkeys_nall a Hwa) in Hk. apply not_not_none. intros Hn. apply (Hdis k); auto. }
  assert (Heb : n_e b c2 = n_e b y2).
  { apply (nwf_le b Hwb). intros k Hk. rewrite Hc2, dget_app. now rewrite (Hx2b k Hk). }
  unfold or_pred. rewrite Hea, Eba. cbn [bind]. destruct ba.
  - cbn [bind]. exists None. split; [reflexivity|exact I].
  - rewrite Heb, Ebb. cbn [bind]. destruct bb.
    + exists None. split; [reflexivity|exact I].
    + exists (Some c2). split; [reflexivity|exact Hc2].
Qed.

(* ---------- lists of combinations ---------- *)
Definition prodl (la lb : list combo) : list combo := flat_map (fun a => map (fun b => a ++ b) lb) la.
Definition prodl_opt (Ra Rb : list (option combo)) : list (option combo) :=
  flat_map (fun ra => map (fun rb => join_opt ra rb) Rb) Ra.

Lemma somes_app {A} (l1 l2 : list (option A)) : somes (l1 ++ l2) = somes l1 ++ somes l2.
Proof. induction l1 as [|[x|] l1 IH]; cbn; [reflexivity| |]; now rewrite IH. Qed.

Lemma somes_join_some x Rb : somes (map (fun rb => join_opt (Some x) rb) Rb) = map (fun y => x ++ y) (somes Rb).
Proof.
  induction Rb as [|[y|] Rb IH]; [reflexivity| |].
  - cbn [map]. change (join_opt (Some x) (Some y)) with (Some (x ++ y)). cbn [somes map]. now rewrite IH.
  - cbn [map]. change (join_opt (Some x) None) with (@None combo). cbn [somes]. exact IH.
Qed.
Lemma somes_join_none Rb : somes (map (fun rb => join_opt None rb) Rb) = [].
Proof.
  induction Rb as [|rb Rb IH]; [reflexivity|]. cbn [map]. change (join_opt None rb) with (@None combo).
  cbn [somes]. exact IH.
Qed.

Lemma somes_prodl_opt Ra Rb : somes (prodl_opt Ra Rb) = prodl (somes Ra) (somes Rb).
Proof.
  induction Ra as [|ra Ra IH]; [reflexivity|]. cbn [prodl_opt flat_map]. rewrite somes_app. fold (prodl_opt Ra Rb).
  rewrite IH. destruct ra as [x|]; cbn [somes prodl flat_map].
  - now rewrite somes_join_some.
  - now rewrite somes_join_none.
Qed.

Lemma mapM_Forall2 {A B} (f : A -> result B) l r :
  mapM f l = Ok r <-> Forall2 (fun x y => f x = Ok y) l r.
Proof.
  split.
  - revert r; induction l as [|x l IH]; cbn; intros r H.
    + injection H as <-. constructor.
    + destruct (f x) eqn:E; cbn [bind] in H; [|discriminate]. destruct (mapM f l); cbn [bind] in H; [|discriminate].
      injection H as <-. constructor; [assumption|now apply IH].
  - induction 1 as [|x y l r Hxy _ IH]; cbn; [reflexivity|]. now rewrite Hxy, IH.
Qed.

Lemma Forall2_somes R R' : Forall2 opt_ceq R R' -> Forall2 ceq (somes R) (somes R').
Proof.
  induction 1 as [|r r' R R' Hr _ IH]; [constructor|].
  destruct r, r'; cbn in *; try contradiction; [constructor|]; assumption.
Qed.

Section Join.
  Variables a b : nsw.
  Hypothesis Hwa : nwf a.
  Hypothesis Hwb : nwf b.
  Hypothesis Hdis : forall k, In k (nall a) -> In k (nall b) -> False.

  Lemma mapM_join_row ca ra Bb Rb :
    dkeys ca = concat (n_gs a) -> nfinish a ca = Ok ra ->
    Forall (fun c => dkeys c = concat (n_gs b)) Bb ->
    Forall2 (fun c r => nfinish b c = Ok r) Bb Rb ->
    exists R, mapM (nfinish (njoin a b)) (map (fun cb => ca ++ cb) Bb) = Ok R
              /\ Forall2 opt_ceq R (map (fun rb => join_opt ra rb) Rb).
  Proof.
    intros Hca Hra Hk H. induction H as [|cb rb Bb Rb Hrb _ IH].
    - exists []. split; [reflexivity|constructor].
    - inversion Hk as [|? ? Hcb Hk']; subst. destruct (IH Hk') as [R [HR1 HR2]].
      destruct (nfinish_join a b ca cb ra rb Hwa Hwb Hdis Hca Hcb Hra Hrb) as [r [Hr1 Hr2]].
      exists (r :: R). split.
      + cbn [map mapM]. rewrite Hr1, HR1. reflexivity.
      + constructor; assumption.
  Qed.

  Lemma mapM_join Ba Ra Bb Rb :
    Forall (fun c => dkeys c = concat (n_gs a)) Ba -> Forall (fun c => dkeys c = concat (n_gs b)) Bb ->
    Forall2 (fun c r => nfinish a c = Ok r) Ba Ra -> Forall2 (fun c r => nfinish b c = Ok r) Bb Rb ->
    exists R, mapM (nfinish (njoin a b)) (prodl Ba Bb) = Ok R /\ Forall2 opt_ceq R (prodl_opt Ra Rb).
  Proof.
    intros Hka Hkb Ha Hb. induction Ha as [|ca ra Ba Ra Hra _ IH].
    - exists []. split; [reflexivity|constructor].
    - inversion Hka as [|? ? Hca Hka']; subst. destruct (IH Hka') as [R [HR1 HR2]].
      destruct (mapM_join_row ca ra Bb Rb Hca Hra Hkb Hb) as [R0 [H01 H02]].
      exists (R0 ++ R). split.
      + cbn [prodl flat_map]. rewrite mapM_app, H01. cbn [bind]. fold (prodl Ba Bb). rewrite HR1. reflexivity.
      + cbn [prodl_opt flat_map]. apply Forall2_app; assumption.
  Qed.
End Join.

(* ---------- the base combinations of a join ---------- *)
Lemma flat_map_flat_map {A B C} (f : B -> list C) (g : A -> list B) l :
  flat_map f (flat_map g l) = flat_map (fun x => flat_map f (g x)) l.
Proof. induction l as [|x l IH]; cbn; [reflexivity|]. now rewrite flat_map_app, IH. Qed.

Lemma all_indices_app sh1 sh2 :
  all_indices (sh1 ++ sh2) = flat_map (fun i => map (fun j => i ++ j) (all_indices sh2)) (all_indices sh1).
Proof.
  induction sh1 as [|d sh1 IH].
  - cbn. rewrite app_nil_r. symmetry. apply map_id.
  - cbn [app all_indices]. rewrite flat_map_flat_map. apply flat_map_ext_in. intros i _.
    rewrite IH, map_flat_map, flat_map_map. apply flat_map_ext_in. intros x _. now rewrite map_map.
Qed.

Lemma all_indices_elem_length sh : forall idx, In idx (all_indices sh) -> length idx = length sh.
Proof.
  induction sh as [|d sh IH]; intros idx H.
  - destruct H as [<-|[]]. reflexivity.
  - cbn [all_indices] in H. apply in_flat_map in H as [i [_ H]]. apply in_map_iff in H as [j [<- Hj]].
    cbn. f_equal. now apply IH.
Qed.

Lemma combine_app_eq {A B} (l1 l2 : list A) (m1 m2 : list B) :
  length l1 = length m1 -> combine (l1 ++ l2) (m1 ++ m2) = combine l1 m1 ++ combine l2 m2.
Proof.
  revert m1; induction l1 as [|x l1 IH]; intros [|y m1] H; cbn in *; try discriminate; [reflexivity|].
  f_equal. apply IH. lia.
Qed.

Lemma combo_at_app it g1 g2 i1 i2 : length g1 = length i1 ->
  combo_at it (g1 ++ g2) (i1 ++ i2) = combo_at it g1 i1 ++ combo_at it g2 i2.
Proof. intros H. unfold combo_at. now rewrite combine_app_eq, map_app, concat_app. Qed.

Lemma combo_at_ext it it' gs : (forall k, In k (concat gs) -> col it k = col it' k) ->
  forall idx, combo_at it gs idx = combo_at it' gs idx.
Proof.
  induction gs as [|g gs IH]; intros H idx; [reflexivity|]. destruct idx as [|i idx]; [reflexivity|].
  rewrite !combo_at_cons. f_equal.
  - unfold row. apply map_ext_in. intros k Hk. rewrite H; [reflexivity|]. cbn. apply in_or_app. now left.
  - apply IH. intros k Hk. apply H. cbn. apply in_or_app. now right.
Qed.

Lemma glen_ext it it' gs : (forall k, In k (concat gs) -> col it k = col it' k) ->
  map (glen it) gs = map (glen it') gs.
Proof.
  induction gs as [|g gs IH]; intros H; [reflexivity|]. cbn [map]. f_equal.
  - destruct g as [|k g]; [reflexivity|]. cbn. rewrite H; [reflexivity|]. cbn. now left.
  - apply IH. intros k Hk. apply H. cbn. apply in_or_app. now right.
Qed.

Lemma col_app_l ita itb k : In k (dkeys ita) -> col (ita ++ itb) k = col ita k.
Proof.
  intros H. unfold col. rewrite dget_app. apply dget_Some_In in H. destruct (dget ita k); [reflexivity|congruence].
Qed.
Lemma col_app_r ita itb k : ~ In k (dkeys ita) -> col (ita ++ itb) k = col itb k.
Proof. intros H. unfold col. rewrite dget_app. apply dget_None in H. now rewrite H. Qed.

Lemma combo_at_keys it gs : forall idx, length idx = length gs -> dkeys (combo_at it gs idx) = concat gs.
Proof.
  induction gs as [|g gs IH]; intros [|i idx] H; cbn in H; try discriminate; [reflexivity|].
  rewrite combo_at_cons, dkeys_app, row_keys. cbn [concat]. f_equal. apply IH. lia.
Qed.

Lemma nbase_ne a : n_it a <> [] ->
  nbase a = map (combo_at (n_it a) (n_gs a)) (all_indices (map (glen (n_it a)) (n_gs a))).
Proof. unfold nbase. destruct (n_it a); [congruence|reflexivity]. Qed.

Lemma nbase_keys a : Forall (fun c => dkeys c = concat (n_gs a)) (nbase a).
Proof.
  apply Forall_forall. intros c Hc. unfold nbase in Hc. destruct (n_it a); [contradiction|].
  apply in_map_iff in Hc as [idx [<- Hidx]]. apply combo_at_keys.
  apply all_indices_elem_length in Hidx. now rewrite map_length in Hidx.
Qed.

Lemma nbase_join a b : nwf a -> nwf b -> (forall k, In k (nall a) -> In k (nall b) -> False) ->
  nbase (njoin a b) = prodl (nbase a) (nbase b).
Proof.
  intros Hwa Hwb Hdis.
  assert (Hga : forall k, In k (concat (n_gs a)) -> In k (dkeys (n_it a))) by (apply wf_groups_keys, Hwa).
  assert (Hgb : forall k, In k (concat (n_gs b)) -> In k (dkeys (n_it b))) by (apply wf_groups_keys, Hwb).
  assert (Hca : forall k, In k (concat (n_gs a)) -> col (n_it a ++ n_it b) k = col (n_it a) k).
  { intros k Hk. apply col_app_l. now apply Hga. }
  assert (Hcb : forall k, In k (concat (n_gs b)) -> col (n_it a ++ n_it b) k = col (n_it b) k).
  { intros k Hk. apply col_app_r. intros Hin. apply (Hdis k); unfold nall; apply in_or_app; left; auto. }
  rewrite nbase_ne.
  2:{ cbn [njoin n_it]. intros H. apply app_eq_nil in H as [H _]. now apply (nwf_ne a Hwa). }
  rewrite (nbase_ne a (nwf_ne a Hwa)), (nbase_ne b (nwf_ne b Hwb)). cbn [njoin n_it n_gs].
  rewrite map_app, (glen_ext _ _ _ Hca), (glen_ext _ _ _ Hcb), all_indices_app.
  unfold prodl. rewrite map_flat_map, flat_map_map. apply flat_map_ext_in. intros i Hi.
  rewrite !map_map. apply map_ext. intros j.
  apply all_indices_elem_length in Hi. rewrite map_length in Hi.
  rewrite combo_at_app by (symmetry; exact Hi). f_equal; now apply combo_at_ext.
Qed.

Theorem nspec_join a b la lb :
  nwf a -> nwf b -> (forall k, In k (nall a) -> In k (nall b) -> False) ->
  nspec a = Ok la -> nspec b = Ok lb ->
  exists l, nspec (njoin a b) = Ok l /\ Forall2 ceq l (prodl la lb).
Proof.
  intros Hwa Hwb Hdis Ha Hb. unfold nspec in *.
  destruct (mapM (nfinish a) (nbase a)) as [Ra|] eqn:Ea; cbn [bind] in Ha; [|discriminate]. injection Ha as <-.
  destruct (mapM (nfinish b) (nbase b)) as [Rb|] eqn:Eb; cbn [bind] in Hb; [|discriminate]. injection Hb as <-.
  apply mapM_Forall2 in Ea. apply mapM_Forall2 in Eb.
  destruct (mapM_join a b Hwa Hwb Hdis _ _ _ _ (nbase_keys a) (nbase_keys b) Ea Eb) as [R [HR1 HR2]].
  rewrite nbase_join by assumption. rewrite HR1. cbn [bind]. exists (somes R). split; [reflexivity|].
  rewrite <- somes_prodl_opt. now apply Forall2_somes.
Qed.

(* ---------- sub-sequences ---------- *)
Inductive Subseq : list str -> list str -> Prop :=
| Subseq_nil : forall b, Subseq [] b
| Subseq_cons : forall x a b, Subseq a b -> Subseq (x :: a) (x :: b)
| Subseq_skip : forall y a b, Subseq a b -> Subseq a (y :: b).

Lemma Subseq_tail x a b : Subseq (x :: a) b -> Subseq a b.
Proof.
  induction b as [|y b IH]; intros H; [inversion H|].
  inversion H; subst; [now apply Subseq_skip|]. apply Subseq_skip. now apply IH.
Qed.

Lemma subseq_str_Subseq a : forall b, subseq_str a b = true <-> Subseq a b.
Proof.
  induction a as [|x a IHa]; intros b.
  - split; [intros _; apply Subseq_nil|intros _; now destruct b].
  - induction b as [|y b IHb].
    + split; [discriminate|intros H; inversion H].
    + cbn [subseq_str]. destruct (str_eqb x y) eqn:E.
      * apply str_eqb_eq in E. subst y. rewrite IHa. split.
        -- now constructor.
        -- intros H. inversion H; subst; [assumption|]. now apply Subseq_tail in H2.
      * apply str_eqb_neq in E. rewrite IHb. split.
        -- now constructor.
        -- intros H. inversion H; subst; [congruence|assumption].
Qed.

Lemma Subseq_app a b a' b' : Subseq a b -> Subseq a' b' -> Subseq (a ++ a') (b ++ b').
Proof.
  intros H H'. induction H as [b|x a b _ IH|y a b _ IH]; cbn.
  - induction b as [|y b IH]; [assumption|]. cbn. now constructor.
  - now constructor.
  - now constructor.
Qed.

(* ---------- a join of well-formed operands is well-formed ---------- *)
Lemma NoDup_app_intro {A} (l1 l2 : list A) :
  NoDup l1 -> NoDup l2 -> (forall x, In x l1 -> In x l2 -> False) -> NoDup (l1 ++ l2).
Proof.
  induction l1 as [|x l1 IH]; cbn; intros H1 H2 H; [assumption|]. inversion H1; subst. constructor.
  - intros Hin. apply in_app_or in Hin as [Hin|Hin]; [contradiction|]. apply (H x); [now left|assumption].
  - apply IH; [assumption|assumption|]. intros y Hy. apply H. now right.
Qed.

Lemma NoDup_app_disj {A} (l1 l2 : list A) : NoDup (l1 ++ l2) -> forall x, In x l1 -> In x l2 -> False.
Proof.
  induction l1 as [|y l1 IH]; cbn; intros H x H1 H2; [contradiction|]. inversion H; subst.
  destruct H1 as [->|H1]; [apply H4; apply in_or_app; now right|now apply (IH H5 x)].
Qed.

Lemma forallb_ext_in' {A} (f g : A -> bool) l : (forall x, In x l -> f x = g x) -> forallb f l = forallb g l.
Proof. induction l as [|x l IH]; intros H; cbn; [reflexivity|]. rewrite H by now left. f_equal. apply IH. intros; apply H; now right. Qed.

Lemma wf_group_ext it it' g :
  (forall k, In k g -> dhas it k = dhas it' k /\ col it k = col it' k) -> wf_group it g = wf_group it' g.
Proof.
  intros H. unfold wf_group. f_equal.
  assert (Hg : glen it g = glen it' g).
  { destruct g as [|k g]; [reflexivity|]. cbn. f_equal. apply H. now left. }
  apply forallb_ext_in'. intros k Hk. destruct (H k Hk) as [H1 H2]. now rewrite H1, H2, Hg.
Qed.

Lemma nall_join_in a b k : In k (nall (njoin a b)) <-> In k (nall a) \/ In k (nall b).
Proof. unfold nall. cbn [njoin n_it n_k n_d]. rewrite !dkeys_app, !in_app_iff. tauto. Qed.

Lemma nkeys_join_in a b k : In k (nkeys (njoin a b)) <-> In k (nkeys a) \/ In k (nkeys b).
Proof. unfold nkeys. cbn [njoin n_gs n_k n_d]. rewrite concat_app, !dkeys_app, !in_app_iff. tauto. Qed.

Lemma local_d_mono K K' f : (forall k, In k K -> In k K') -> local_d K f -> local_d K' f.
Proof. intros H Hf c c' Hc. apply Hf. intros k Hk. apply Hc. now apply H. Qed.
Lemma local_p_mono K K' e : (forall k, In k K -> In k K') -> local_p K e -> local_p K' e.
Proof. intros H He c c' Hc. apply He. intros k Hk. apply Hc. now apply H. Qed.

Lemma nwf_join a b : nwf a -> nwf b -> (forall k, In k (nall a) -> In k (nall b) -> False) -> nwf (njoin a b).
Proof.
  intros Hwa Hwb Hdis.
  destruct (wf_groups_parts _ _ (nwf_groups a Hwa)) as [Hia [Hga Hfa]].
  destruct (wf_groups_parts _ _ (nwf_groups b Hwb)) as [Hib [Hgb Hfb]].
  assert (Hga' : forall k, In k (concat (n_gs a)) -> In k (dkeys (n_it a))) by (apply wf_groups_keys, Hwa).
  assert (Hgb' : forall k, In k (concat (n_gs b)) -> In k (dkeys (n_it b))) by (apply wf_groups_keys, Hwb).
  assert (Hita : forall k, In k (dkeys (n_it a)) -> In k (nall a)) by (intros; unfold nall; apply in_or_app; now left).
  assert (Hitb : forall k, In k (dkeys (n_it b)) -> In k (nall b)) by (intros; unfold nall; apply in_or_app; now left).
  constructor.
  - unfold wf_groups. cbn [njoin n_it n_gs]. rewrite !andb_true_iff. repeat split.
    + apply nodup_str_NoDup. rewrite dkeys_app. apply NoDup_app_intro; [assumption|assumption|].
      intros k H1 H2. apply (Hdis k); auto.
    + apply nodup_str_NoDup. rewrite concat_app. apply NoDup_app_intro; [assumption|assumption|].
      intros k H1 H2. apply (Hdis k); auto.
    + rewrite forallb_app. apply andb_true_iff. split.
      * rewrite <- Hfa. apply forallb_ext_in'. intros g Hg. apply wf_group_ext. intros k Hk.
        assert (Hin : In k (dkeys (n_it a))) by (apply Hga'; apply in_concat; exists g; now split).
        split; [|now apply col_app_l].
        transitivity true; [apply dhas_In; rewrite dkeys_app; apply in_or_app; now left|symmetry; now apply dhas_In].
      * rewrite <- Hfb. apply forallb_ext_in'. intros g Hg. apply wf_group_ext. intros k Hk.
        assert (Hin : In k (dkeys (n_it b))) by (apply Hgb'; apply in_concat; exists g; now split).
        assert (Hnin : ~ In k (dkeys (n_it a))) by (intros Hc; apply (Hdis k); auto).
        split; [|now apply col_app_r].
        transitivity true; [apply dhas_In; rewrite dkeys_app; apply in_or_app; now right|symmetry; now apply dhas_In].
  - pose proof (nwf_keys a Hwa) as Hna. pose proof (nwf_keys b Hwb) as Hnb. unfold nall in *.
    cbn [njoin n_it n_k n_d]. rewrite !dkeys_app.
    assert (Hd : forall k, In k (dkeys (n_it a) ++ dkeys (n_k a) ++ dkeys (n_d a)) ->
                           In k (dkeys (n_it b) ++ dkeys (n_k b) ++ dkeys (n_d b)) -> False) by exact Hdis.
    clear -Hna Hnb Hd.
    set (a1 := dkeys (n_it a)) in *. set (a2 := dkeys (n_k a)) in *. set (a3 := dkeys (n_d a)) in *.
    set (b1 := dkeys (n_it b)) in *. set (b2 := dkeys (n_k b)) in *. set (b3 := dkeys (n_d b)) in *.
    assert (H12 := NoDup_app_disj _ _ Hna). apply NoDup_app_r in Hna as Hna23. assert (H23 := NoDup_app_disj _ _ Hna23).
    assert (G12 := NoDup_app_disj _ _ Hnb). apply NoDup_app_r in Hnb as Hnb23. assert (G23 := NoDup_app_disj _ _ Hnb23).
    assert (Ha1 := NoDup_app_l _ _ Hna). assert (Ha2 := NoDup_app_l _ _ Hna23). assert (Ha3 := NoDup_app_r _ _ Hna23).
    assert (Hb1 := NoDup_app_l _ _ Hnb). assert (Hb2 := NoDup_app_l _ _ Hnb23). assert (Hb3 := NoDup_app_r _ _ Hnb23).
    repeat (apply NoDup_app_intro; try assumption); intros x; rewrite ?in_app_iff; intros Hx Hy;
      repeat match goal with H : _ \/ _ |- _ => destruct H end;
      solve [ eapply H12; [eassumption|apply in_or_app; eauto]
            | eapply H23; eassumption
            | eapply G12; [eassumption|apply in_or_app; eauto]
            | eapply G23; eassumption
            | eapply (Hd x); rewrite !in_app_iff; eauto ].
  - cbn [njoin n_it]. intros H. apply app_eq_nil in H as [H _]. now apply (nwf_ne a Hwa).
  - cbn [njoin n_d]. apply Forall_app. split.
    + eapply Forall_impl; [|apply (nwf_ld a Hwa)]. intros kf. apply local_d_mono. intros k Hk.
      apply nkeys_join_in. now left.
    + eapply Forall_impl; [|apply (nwf_ld b Hwb)]. intros kf. apply local_d_mono. intros k Hk.
      apply nkeys_join_in. now right.
  - cbn [njoin n_e]. intros c c' Hc. unfold or_pred.
    rewrite (nwf_le a Hwa c c') by (intros k Hk; apply Hc, nkeys_join_in; now left).
    rewrite (nwf_le b Hwb c c') by (intros k Hk; apply Hc, nkeys_join_in; now right). reflexivity.
Qed.

(* ---------- n-ary join ---------- *)
Lemma Forall2_ceq_refl l : Forall2 ceq l l.
Proof. induction l; constructor; [apply ceq_refl|assumption]. Qed.
Lemma Forall2_ceq_trans l1 l2 l3 : Forall2 ceq l1 l2 -> Forall2 ceq l2 l3 -> Forall2 ceq l1 l3.
Proof.
  intros H. revert l3. induction H as [|x y l1 l2 Hxy _ IH]; intros l3 H3; inversion H3; subst; constructor.
  - eapply ceq_trans; eassumption.
  - now apply IH.
Qed.

Lemma ceq_app a a' b b' : ceq a a' -> ceq b b' -> ceq (a ++ b) (a' ++ b').
Proof. intros Ha Hb k. now rewrite !dget_app, Ha, Hb. Qed.

Lemma prodl_ceq la la' lb : Forall2 ceq la la' -> Forall2 ceq (prodl la lb) (prodl la' lb).
Proof.
  induction 1 as [|x y la la' Hxy _ IH]; [constructor|]. cbn [prodl flat_map]. apply Forall2_app; [|exact IH].
  clear -Hxy. induction lb as [|b lb IH]; constructor; [|exact IH]. apply ceq_app; [assumption|apply ceq_refl].
Qed.

Lemma fold_prodl_ceq ls : forall x y, Forall2 ceq x y -> Forall2 ceq (fold_left prodl ls x) (fold_left prodl ls y).
Proof. induction ls as [|l ls IH]; intros x y H; [exact H|]. cbn. apply IH. now apply prodl_ceq. Qed.

Lemma cart_union_prodl la lb t : cart_union (la :: lb :: t) = cart_union (prodl la lb :: t).
Proof.
  cbn [cart_union]. unfold prodl. rewrite flat_map_flat_map. apply flat_map_ext_in. intros a _.
  rewrite map_flat_map, flat_map_map. apply flat_map_ext_in. intros b _. rewrite map_map.
  apply map_ext. intros r. apply app_assoc.
Qed.

Lemma fold_prodl_cart ls : forall la, fold_left prodl ls la = cart_union (la :: ls).
Proof.
  induction ls as [|lb ls IH]; intros la.
  - cbn [fold_left cart_union]. induction la as [|a la IH]; [reflexivity|].
    cbn [flat_map map app]. rewrite app_nil_r. f_equal. exact IH.
  - cbn [fold_left]. now rewrite IH, cart_union_prodl.
Qed.

Lemma nall_fold_in bs : forall a k,
  In k (nall (fold_left njoin bs a)) <-> In k (nall a) \/ In k (concat (map nall bs)).
Proof.
  induction bs as [|b bs IH]; intros a k; cbn [fold_left map concat].
  - cbn [In]. tauto.
  - rewrite IH, nall_join_in, in_app_iff. tauto.
Qed.

Lemma nspec_fold bs : forall a la ls,
  nwf a -> Forall nwf bs -> NoDup (nall a ++ concat (map nall bs)) ->
  nspec a = Ok la -> mapM nspec bs = Ok ls ->
  nwf (fold_left njoin bs a)
  /\ exists l, nspec (fold_left njoin bs a) = Ok l /\ Forall2 ceq l (fold_left prodl ls la).
Proof.
  induction bs as [|b bs IH]; intros a la ls Hwa Hwb Hnd Ha Hb.
  - cbn in Hb. injection Hb as <-. cbn. split; [assumption|]. exists la. split; [assumption|apply Forall2_ceq_refl].
  - cbn [mapM] in Hb. destruct (nspec b) as [lb|] eqn:Eb; cbn [bind] in Hb; [|discriminate].
    destruct (mapM nspec bs) as [ls'|] eqn:Els; cbn [bind] in Hb; [|discriminate]. injection Hb as <-.
    inversion Hwb as [|? ? Hwb1 Hwb']; subst. cbn [map concat] in Hnd.
    assert (Hdis : forall k, In k (nall a) -> In k (nall b) -> False).
    { intros k H1 H2. apply (NoDup_app_disj _ _ Hnd k H1). apply in_or_app. now left. }
    destruct (nspec_join a b la lb Hwa Hwb1 Hdis Ha Eb) as [l0 [Hl0 Hc0]].
    assert (Hnd' : NoDup (nall (njoin a b) ++ concat (map nall bs))).
    { apply NoDup_app_intro.
      - apply (nwf_keys _ (nwf_join a b Hwa Hwb1 Hdis)).
      - apply NoDup_app_r in Hnd. now apply NoDup_app_r in Hnd.
      - intros k H1 H2. apply nall_join_in in H1 as [H1|H1].
        + apply (NoDup_app_disj _ _ Hnd k H1). apply in_or_app. now right.
        + apply NoDup_app_r in Hnd. apply (NoDup_app_disj _ _ Hnd k H1 H2). }
    destruct (IH (njoin a b) l0 ls' (nwf_join a b Hwa Hwb1 Hdis) Hwb' Hnd' Hl0 eq_refl) as [Hw [l [Hl Hc]]].
    cbn [fold_left]. split; [assumption|]. exists l. split; [assumption|].
    eapply Forall2_ceq_trans; [exact Hc|]. now apply fold_prodl_ceq.
Qed.

Lemma fold_njoin_it bs : forall a, n_it (fold_left njoin bs a) = n_it a ++ concat (map n_it bs).
Proof. induction bs as [|b bs IH]; intros a; cbn; [now rewrite app_nil_r|]. now rewrite IH, app_assoc. Qed.
Lemma fold_njoin_gs bs : forall a, n_gs (fold_left njoin bs a) = n_gs a ++ concat (map n_gs bs).
Proof. induction bs as [|b bs IH]; intros a; cbn; [now rewrite app_nil_r|]. now rewrite IH, app_assoc. Qed.
Lemma fold_njoin_k bs : forall a, n_k (fold_left njoin bs a) = n_k a ++ concat (map n_k bs).
Proof. induction bs as [|b bs IH]; intros a; cbn; [now rewrite app_nil_r|]. now rewrite IH, app_assoc. Qed.
Lemma fold_njoin_d bs : forall a, n_d (fold_left njoin bs a) = n_d a ++ concat (map n_d bs).
Proof. induction bs as [|b bs IH]; intros a; cbn; [now rewrite app_nil_r|]. now rewrite IH, app_assoc. Qed.
Lemma fold_njoin_e bs : forall a c, n_e (fold_left njoin bs a) c = or_pred (n_e a) (any_pred (map n_e bs)) c.
Proof.
  induction bs as [|b bs IH]; intros a c; cbn [fold_left map any_pred].
  - unfold or_pred. destruct (n_e a c) as [[|]|]; reflexivity.
  - rewrite IH. unfold or_pred. cbn [njoin n_e any_pred]. unfold or_pred.
    destruct (n_e a c) as [[|]|]; cbn [bind]; try reflexivity.
Qed.

(* ---------- the model's product computes the join of the normal forms ---------- *)
Definition optl {V} (o : option (dict V)) : dict V := match o with None => [] | Some d => d end.
Definition exfo (o : option predicate) : predicate := match o with None => fun _ => Ok false | Some e => e end.

Lemma somes_concat {V} (ds : list (option (dict V))) : concat (somes ds) = concat (map optl ds).
Proof. induction ds as [|[d|] ds IH]; cbn; [reflexivity| |]; now rewrite IH. Qed.

Lemma dkeys_concat {V} (L : list (dict V)) : dkeys (concat L) = concat (map dkeys L).
Proof. induction L as [|d L IH]; [reflexivity|]. cbn [concat map]. now rewrite dkeys_app, IH. Qed.

Lemma combine_dicts_norm {V} (ds : list (option (dict V))) :
  NoDup (dkeys (concat (map optl ds))) ->
  exists r, combine_dicts ds = Ok r /\ optl r = concat (map optl ds).
Proof.
  rewrite <- somes_concat. unfold combine_dicts. intros H.
  destruct (somes ds) as [|d [|d2 l]] eqn:E.
  - exists None. split; reflexivity.
  - exists (Some d). split; [reflexivity|]. cbn. now rewrite app_nil_r.
  - rewrite <- dkeys_concat. rewrite (proj2 (nodup_str_NoDup _) H).
    exists (Some (dict_of (concat (d :: d2 :: l)))). split; [reflexivity|]. cbn [optl]. now apply dict_of_nodup.
Qed.

Lemma any_pred_somes fs c : any_pred (map exfo fs) c = any_pred (somes fs) c.
Proof. induction fs as [|[f|] fs IH]; cbn; [reflexivity| |]; [|exact IH]. destruct (f c) as [[|]|]; cbn; auto. Qed.

Lemma combined_exclude_any fs c : exfo (combined_exclude fs) c = any_pred (map exfo fs) c.
Proof.
  rewrite any_pred_somes. unfold combined_exclude. destruct (somes fs) as [|f [|f2 l]]; cbn [exfo any_pred]; try reflexivity.
  destruct (f c) as [[|]|]; reflexivity.
Qed.

Definition gof (it : dict (list val)) (dm : option (list dimg)) : list (list str) :=
  match dm with None => singles (dkeys it) | Some d => map at_least_tuple d end.

Lemma groups_gof s : groups s = gof (items s) (dims s).
Proof. reflexivity. Qed.

Lemma singles_app a b : singles (a ++ b) = singles a ++ singles b.
Proof. apply map_app. Qed.

Lemma at_least_tuple_DStr ks : map at_least_tuple (map DStr ks) = singles ks.
Proof. unfold singles. rewrite map_map. reflexivity. Qed.

Lemma product_fold others : forall it dm,
  NoDup (dkeys it ++ concat (map (fun o => dkeys (items o)) others)) ->
  (dm = None -> Forall (fun o => dims o = None) others) ->
  exists dm', fold_left product_step others (it, dm) = (it ++ concat (map items others), dm')
              /\ gof (it ++ concat (map items others)) dm' = gof it dm ++ concat (map groups others).
Proof.
  induction others as [|o others IH]; intros it dm Hnd Hdm.
  - exists dm. cbn. rewrite !app_nil_r. split; reflexivity.
  - cbn [fold_left map concat] in *.
    assert (Hfresh : NoDup (dkeys it ++ dkeys (items o))).
    { rewrite app_assoc in Hnd. now apply NoDup_app_l in Hnd. }
    unfold product_step at 2. rewrite (dupdate_fresh _ _ Hfresh).
    set (dm2 := match dm with None => None | Some d => Some (d ++ match dims o with Some od => od | None => map DStr (dkeys (items o)) end) end).
    assert (Hnd' : NoDup (dkeys (it ++ items o) ++ concat (map (fun o => dkeys (items o)) others))).
    { rewrite dkeys_app, <- app_assoc. exact Hnd. }
    assert (Hdm' : dm2 = None -> Forall (fun o => dims o = None) others).
    { intros H. destruct dm; [discriminate|]. specialize (Hdm eq_refl). now inversion Hdm. }
    destruct (IH (it ++ items o) dm2 Hnd' Hdm') as [dm' [H1 H2]].
    exists dm'. rewrite <- !app_assoc in *. split; [exact H1|]. rewrite H2. rewrite app_assoc. f_equal.
    unfold dm2. destruct dm as [d|].
    + cbn [gof]. rewrite map_app. f_equal. unfold groups. destruct (dims o); [reflexivity|apply at_least_tuple_DStr].
    + specialize (Hdm eq_refl). inversion Hdm as [|? ? Ho _]; subst. cbn [gof].
      rewrite dkeys_app, singles_app. f_equal. unfold groups. now rewrite Ho.
Qed.

(* ---------- assembling the theorem ---------- *)
Definition local_sweep (o : sweep) : Prop :=
  Forall (fun kf => local_d (combo_keys o) (snd kf)) (dl o) /\ local_p (combo_keys o) (exf o).

Lemma opt_keys_optl {V} (o : option (dict V)) : opt_keys o = dkeys (optl o).
Proof. destruct o; reflexivity. Qed.

Lemma nall_norm o : nall (norm o) = all_keys o.
Proof. unfold nall, all_keys, norm, kl, dl. cbn [n_it n_k n_d]. now rewrite !opt_keys_optl. Qed.
Lemma nkeys_norm o : nkeys (norm o) = combo_keys o.
Proof. unfold nkeys, combo_keys, norm, kl, dl. cbn [n_gs n_k n_d]. now rewrite !opt_keys_optl. Qed.

Lemma nwf_norm o : wf_sweep o = true -> NoDup (all_keys o) -> items o <> [] -> local_sweep o -> nwf (norm o).
Proof.
  intros Hwf Hnd Hne [Hl1 Hl2]. destruct (wf_sweep_parts _ Hwf) as [Hg _]. constructor.
  - exact Hg.
  - now rewrite nall_norm.
  - exact Hne.
  - rewrite nkeys_norm. exact Hl1.
  - rewrite nkeys_norm. exact Hl2.
Qed.

Lemma NoDup_concat_in {A} (L : list (list A)) l : NoDup (concat L) -> In l L -> NoDup l.
Proof.
  induction L as [|x L IH]; cbn; intros H Hin; [contradiction|]. destruct Hin as [->|Hin].
  - now apply NoDup_app_l in H.
  - apply IH; [now apply NoDup_app_r in H|assumption].
Qed.

Lemma mapM_map {A B C} (f : B -> result C) (g : A -> B) l : mapM f (map g l) = mapM (fun x => f (g x)) l.
Proof. induction l as [|x l IH]; cbn; [reflexivity|]. now rewrite IH. Qed.

Lemma fold_subseq bs : forall a,
  Subseq (concat (n_gs a)) (dkeys (n_it a)) ->
  Forall (fun b => Subseq (concat (n_gs b)) (dkeys (n_it b))) bs ->
  Subseq (concat (n_gs (fold_left njoin bs a))) (dkeys (n_it (fold_left njoin bs a))).
Proof.
  induction bs as [|b bs IH]; intros a Ha Hb; [exact Ha|]. inversion Hb; subst. cbn [fold_left]. apply IH; [|assumption].
  cbn [njoin n_gs n_it]. rewrite concat_app, dkeys_app. now apply Subseq_app.
Qed.

Lemma product_body_cartesian s others ls :
  Forall (fun o => wf_sweep o = true) (s :: others) ->
  NoDup (concat (map all_keys (s :: others))) ->
  Forall local_sweep (s :: others) ->
  Forall (fun o => in_item_order o = true) (s :: others) ->
  Forall (fun o => items o <> []) (s :: others) ->
  (dims s = None -> Forall (fun o => dims o = None) others) ->
  mapM generate (s :: others) = Ok ls ->
  exists p l, product_body s others = Ok p /\ generate p = Ok l /\ Forall2 ceq l (cart_union ls)
              /\ len p = Ok (length l).
Proof.
  intros Hwf Hnd Hloc Hord Hne Hdims Hgen.
  set (ops := s :: others) in *.
  assert (Hnwf : Forall (fun o => nwf (norm o)) ops).
  { apply Forall_forall. intros o Ho. rewrite Forall_forall in Hwf, Hloc, Hne. apply nwf_norm; auto.
    apply (NoDup_concat_in _ _ Hnd). now apply in_map. }
  assert (Hspec : forall o, In o ops -> generate o = nspec (norm o)).
  { intros o Ho. rewrite Forall_forall in Hwf, Hord. rewrite <- spec_list_norm. apply generate_is_rowmajor_product; auto. }
  assert (Hgen' : mapM nspec (map norm ops) = Ok ls).
  { rewrite mapM_map, <- Hgen. symmetry. now apply mapM_ext_in. }
  unfold ops in Hgen'. cbn [map mapM] in Hgen'.
  destruct (nspec (norm s)) as [ls0|] eqn:Es; cbn [bind] in Hgen'; [|discriminate].
  destruct (mapM nspec (map norm others)) as [ls'|] eqn:Eo; cbn [bind] in Hgen'; [|discriminate]. injection Hgen' as <-.
  inversion Hnwf as [|? ? Hws Hwo]; subst.
  assert (Hnd2 : NoDup (nall (norm s) ++ concat (map nall (map norm others)))).
  { rewrite map_map, nall_norm. rewrite (map_ext _ all_keys) by (intros; apply nall_norm). exact Hnd. }
  assert (Hwo' : Forall nwf (map norm others)) by (apply Forall_map; exact Hwo).
  destruct (nspec_fold _ _ _ _ Hws Hwo' Hnd2 Es Eo) as [HwN [l [HlN HcN]]].
  set (N := fold_left njoin (map norm others) (norm s)) in *.
  (* the model's product *)
  assert (Hitk : NoDup (dkeys (items s) ++ concat (map (fun o => dkeys (items o)) others))).
  { pose proof (nwf_keys _ HwN) as H. unfold nall in H. apply NoDup_app_l in H. unfold N in H.
    rewrite fold_njoin_it, dkeys_app, dkeys_concat, !map_map in H. exact H. }
  destruct (product_fold others (items s) (dims s) Hitk Hdims) as [dmp [Hfold Hgof]].
  assert (HkN : NoDup (dkeys (n_k N))).
  { pose proof (nwf_keys _ HwN) as H. unfold nall in H. apply NoDup_app_r in H. now apply NoDup_app_l in H. }
  assert (HdN : NoDup (dkeys (n_d N))).
  { pose proof (nwf_keys _ HwN) as H. unfold nall in H. apply NoDup_app_r in H. now apply NoDup_app_r in H. }
  assert (EkN : n_k N = concat (map optl (map consts ops))).
  { unfold N. rewrite fold_njoin_k. unfold ops. cbn [map concat]. now rewrite !map_map. }
  assert (EdN : n_d N = concat (map optl (map ders ops))).
  { unfold N. rewrite fold_njoin_d. unfold ops. cbn [map concat]. now rewrite !map_map. }
  rewrite EkN in HkN. rewrite EdN in HdN.
  destruct (combine_dicts_norm _ HkN) as [k [Hk1 Hk2]]. destruct (combine_dicts_norm _ HdN) as [d [Hd1 Hd2]].
  set (p := {| items := items s ++ concat (map items others); dims := dmp;
               excl := combined_exclude (map excl ops); consts := k; ders := d |}).
  assert (Hp : product_body s others = Ok p).
  { unfold product_body. rewrite Hfold. fold ops. rewrite Hk1, Hd1. reflexivity. }
  assert (Enorm : nspec (norm p) = nspec N).
  { apply nspec_ext.
    - unfold N. rewrite fold_njoin_it. cbn [norm n_it p items]. now rewrite map_map.
    - unfold N. rewrite fold_njoin_gs. cbn [norm n_gs]. rewrite groups_gof. cbn [p items dims].
      rewrite Hgof, map_map. reflexivity.
    - change (optl k = n_k N). now rewrite Hk2, EkN.
    - change (optl d = n_d N). now rewrite Hd2, EdN.
    - intros c. unfold N. rewrite fold_njoin_e.
      change (n_e (norm p) c) with (exfo (combined_exclude (map excl ops)) c).
      rewrite combined_exclude_any. unfold ops.
      cbn [map any_pred]. rewrite !map_map. reflexivity. }
  assert (Hwfp : wf_sweep p = true).
  { unfold wf_sweep. rewrite !andb_true_iff. repeat split.
    - rewrite groups_gof. cbn [p items dims]. rewrite Hgof.
      pose proof (nwf_groups _ HwN) as H. unfold N in H. rewrite fold_njoin_it, fold_njoin_gs, !map_map in H. exact H.
    - apply nodup_str_NoDup. cbn [p consts]. rewrite opt_keys_optl, Hk2. exact HkN.
    - apply nodup_str_NoDup. cbn [p ders]. rewrite opt_keys_optl, Hd2. exact HdN. }
  assert (Hordp : in_item_order p = true).
  { unfold in_item_order. apply subseq_str_Subseq. rewrite groups_gof. cbn [p items dims]. rewrite Hgof.
    assert (H : Subseq (concat (n_gs N)) (dkeys (n_it N))).
    { apply fold_subseq.
      - apply subseq_str_Subseq. inversion Hord; subst. assumption.
      - apply Forall_map. inversion Hord as [|? ? _ Ho]; subst. eapply Forall_impl; [|exact Ho].
        intros o H. now apply subseq_str_Subseq. }
    unfold N in H. rewrite fold_njoin_it, fold_njoin_gs, !map_map in H. exact H. }
  exists p, l. split; [exact Hp|].
  assert (Hgp : generate p = Ok l).
  { rewrite (generate_is_rowmajor_product p Hwfp Hordp), spec_list_norm, Enorm. exact HlN. }
  split; [exact Hgp|]. split.
  - rewrite <- fold_prodl_cart. exact HcN.
  - now apply len_eq_length.
Qed.

(* ---------- operands without items: no combinations, and none in the product ---------- *)
Lemma cart_union_nil_in ls : In [] ls -> cart_union ls = [].
Proof.
  induction ls as [|l t IH]; intros H; [contradiction|]. cbn [cart_union]. destruct H as [->|H]; [reflexivity|].
  rewrite (IH H). clear. induction l as [|a l IHl]; [reflexivity|]. cbn. exact IHl.
Qed.

Theorem product_is_cartesian_guarded s others ls :
  Forall (fun o => wf_sweep o = true) (s :: others) ->
  NoDup (concat (map all_keys (s :: others))) ->
  Forall local_sweep (s :: others) ->
  Forall (fun o => in_item_order o = true) (s :: others) ->
  (dims s = None -> Forall (fun o => dims o = None) others) ->
  mapM generate (s :: others) = Ok ls ->
  exists p l, product s others = Ok p /\ generate p = Ok l /\ Forall2 ceq l (cart_union ls)
              /\ len p = Ok (length l).
Proof.
  intros Hwf Hnd Hloc Hord Hdims Hgen. unfold product. destruct (existsb no_items (s :: others)) eqn:E.
  - apply existsb_exists in E as [o [Ho Hno]].
    assert (Hit : items o = []) by (unfold no_items in Hno; destruct (items o); [reflexivity|discriminate]).
    destruct (mapM_Ok_inv _ _ _ Hgen o Ho) as [y [Hy Hin]]. rewrite (generate_nil o Hit) in Hy. injection Hy as <-.
    exists empty_sweep, []. split; [reflexivity|]. split; [reflexivity|]. rewrite (cart_union_nil_in _ Hin).
    split; [constructor|reflexivity].
  - apply product_body_cartesian; try assumption. apply Forall_forall. intros o Ho Hit.
    assert (Hn : existsb no_items (s :: others) = true).
    { apply existsb_exists. exists o. split; [assumption|]. unfold no_items. now rewrite Hit. }
    congruence.
Qed.
