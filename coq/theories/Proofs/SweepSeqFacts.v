(* C17, operation sequences on shared objects: in the model no operation modifies an existing object. *)
From Verif Require Import Base.Prelude Base.Index Model.Sweep Model.SweepSeq Proofs.SweepMulti.

Lemma alloc_extends m : forall h, exists t, fst (alloc m h) = h ++ t.
Proof.
  induction m as [s|l IH] using msweep_ind'; intros h.
  - exists [HSweep s]. reflexivity.
  - cbn [alloc].
    set (go := fix go (l : list msweep) (h : heap) : heap * list nat :=
                 match l with
                 | [] => (h, [])
                 | x :: t => let (h1, i) := alloc x h in let (h2, r) := go t h1 in (h2, i :: r)
                 end).
    assert (Hgo : forall h0, exists t, fst (go l h0) = h0 ++ t).
    { induction IH as [|x l Hx _ IHl]; intros h0.
      - exists []. cbn. now rewrite app_nil_r.
      - cbn [go]. destruct (Hx h0) as [t1 H1]. destruct (alloc x h0) as [h1 i] eqn:E1. cbn [fst] in H1.
        destruct (IHl h1) as [t2 H2]. destruct (go l h1) as [h2 r] eqn:E2. cbn [fst] in *.
        exists (t1 ++ t2). now rewrite H2, H1, app_assoc. }
    destruct (Hgo h) as [t Ht]. cbn [fst]. exists (t ++ [HMulti (snd (go l h))]). now rewrite Ht, app_assoc.
Qed.

Lemma nth_error_app_l {A} (l t : list A) k o : nth_error l k = Some o -> nth_error (l ++ t) k = Some o.
Proof. intros H. rewrite nth_error_app1; [exact H|]. apply nth_error_Some. congruence. Qed.

(* every object that exists before an operation is the same object afterwards *)
Theorem step_preserves_objects h slots op h' id :
  step h slots op = SNew h' id -> forall k o, nth_error h k = Some o -> nth_error h' k = Some o.
Proof.
  intros Hs k o Hk. destruct op as [i js|i j|i keys|i d]; cbn [step] in Hs.
  - destruct (slot_sweep h slots i); [|discriminate]. destruct (optM' (slot_sweep h slots) js); [|discriminate].
    destruct (product s l); [|discriminate]. injection Hs as <- _. now apply nth_error_app_l.
  - destruct (slot_obj h slots i) as [[a [sa|ms]]|]; [| |discriminate];
      (destruct (slot_obj h slots j) as [[b [sb|ms']]|]; [| |discriminate]); injection Hs as <- _; now apply nth_error_app_l.
  - destruct (slot_obj h slots i) as [[a oa]|]; [|discriminate]. destruct (value h a); [|discriminate].
    destruct (mfiltered m keys) as [f|]; [|discriminate]. destruct (alloc_extends f h) as [t Ht].
    destruct (alloc f h) as [h2 id2]. cbn [fst] in Ht. injection Hs as <- _. rewrite Ht. now apply nth_error_app_l.
  - destruct (slot_sweep h slots i); [|discriminate]. injection Hs as <- _. now apply nth_error_app_l.
Qed.
