(* C17: witnesses - refutations of the unguarded statements (known findings) and non-vacuity examples. *)
From Verif Require Import Base.Prelude Base.Index Model.Sweep Model.SweepSpec Proofs.IndexFacts Proofs.SweepFacts
  Proofs.SweepProduct.

Definition plain (it : dict (list val)) (dm : option (list dimg)) : sweep :=
  {| items := it; dims := dm; excl := None; consts := None; ders := None |}.

Lemma local_plain it dm : local_sweep (plain it dm).
Proof. split; [constructor|]. intros c c' _. reflexivity. Qed.

Definition w_a : sweep := plain [(s "a", [SI 1; SI 2])] None.
Definition w_bc : sweep := plain [(s "b", [SI 1; SI 2]); (s "c", [SI 3; SI 4])] (Some [DTup [s "b"; s "c"]]).

(* finding product-loses-zip: every hypothesis of product_is_cartesian_guarded except the guard on dims holds,
   the product has 8 combinations, the operands 2 and 2 *)
Lemma product_loses_zip_witness :
  exists s others ls p l,
    Forall (fun o => wf_sweep o = true) (s :: others)
    /\ NoDup (concat (map all_keys (s :: others)))
    /\ Forall local_sweep (s :: others)
    /\ Forall (fun o => in_item_order o = true) (s :: others)
    /\ Forall (fun o => items o <> []) (s :: others)
    /\ mapM generate (s :: others) = Ok ls
    /\ product s others = Ok p /\ generate p = Ok l /\ len p = Ok (length l)
    /\ length l = 8 /\ length (cart_union ls) = 4.
Proof.
  exists w_a, [w_bc]. eexists. eexists. eexists.
  split; [repeat constructor|]. split; [apply nodup_str_NoDup; reflexivity|].
  split; [repeat constructor; apply local_plain|]. split; [repeat constructor|].
  split; [repeat constructor; discriminate|].
  split; [vm_compute; reflexivity|]. split; [vm_compute; reflexivity|]. split; [vm_compute; reflexivity|].
  split; [vm_compute; reflexivity|]. split; reflexivity.
Qed.

(* ---------- non-vacuity: a product of three sweeps with a zip, constants, derivers and excludes ---------- *)
Definition get1 (k : str) : deriver := fun c => do v <- dgetE c k; Ok (SL [SS k; v]).
Definition is1 (k : str) : predicate := fun c => do v <- dgetE c k; Ok (sx_eqb v (SI 1)).

Lemma local_get1 K k : In k K -> local_d K (get1 k).
Proof. intros H c c' Hc. unfold get1, dgetE. now rewrite (Hc k H). Qed.
Lemma local_is1 K k : In k K -> local_p K (is1 k).
Proof. intros H c c' Hc. unfold is1, dgetE. now rewrite (Hc k H). Qed.

Definition e_1 : sweep :=
  {| items := [(s "a", [SI 1; SI 2]); (s "b", [SI 3; SI 4])]; dims := Some [DTup [s "a"; s "b"]];
     excl := None; consts := Some [(s "k", SI 9)]; ders := None |}.
Definition e_2 : sweep :=
  {| items := [(s "c", [SI 1; SI 2; SI 3])]; dims := None;
     excl := Some (is1 (s "c")); consts := None; ders := Some [(s "d", get1 (s "c"))] |}.
Definition e_3 : sweep :=
  {| items := [(s "e", [SI 5]); (s "f", [SI 6; SI 7])]; dims := Some [DStr (s "e"); DStr (s "f")];
     excl := None; consts := None; ders := Some [(s "g", get1 (s "f"))] |}.

Lemma product_example_hyps :
  Forall (fun o => wf_sweep o = true) [e_1; e_2; e_3]
  /\ NoDup (concat (map all_keys [e_1; e_2; e_3]))
  /\ Forall local_sweep [e_1; e_2; e_3]
  /\ Forall (fun o => in_item_order o = true) [e_1; e_2; e_3]
  /\ (dims e_1 = None -> Forall (fun o => dims o = None) [e_2; e_3])
  /\ exists ls, mapM generate [e_1; e_2; e_3] = Ok ls /\ length (cart_union ls) = 8.
Proof.
  split; [repeat constructor|]. split; [apply nodup_str_NoDup; reflexivity|].
  split.
  { apply Forall_cons; [|apply Forall_cons; [|apply Forall_cons; [|apply Forall_nil]]].
    - split; [apply Forall_nil|]. intros c c' _. reflexivity.
    - split.
      + apply Forall_cons; [|apply Forall_nil]. apply local_get1. vm_compute. tauto.
      + apply local_is1. vm_compute. tauto.
    - split.
      + apply Forall_cons; [|apply Forall_nil]. apply local_get1. vm_compute. tauto.
      + intros c c' _. reflexivity. }
  split; [repeat constructor|].
  split; [discriminate|]. eexists. split; vm_compute; reflexivity.
Qed.

(* non-vacuity of the hypotheses of filtered_no_derivers *)
Definition e_f : sweep :=
  plain [(s "a", [SI 1; SI 2]); (s "b", [SI 3; SI 4]); (s "c", [SI 5; SI 6; SI 7])]
        (Some [DTup [s "a"; s "b"]; DStr (s "c")]).

Lemma filtered_example_hyps :
  wf_sweep e_f = true /\ in_item_order e_f = true
  /\ opt_keys (consts e_f) = [] /\ excl e_f = None /\ ders e_f = None
  /\ Forall (fun kv => NoDup (snd kv)) (items e_f)
  /\ [s "c"; s "a"] <> [] /\ NoDup [s "c"; s "a"] /\ incl [s "c"; s "a"] (concat (groups e_f))
  /\ exists l, generate e_f = Ok l /\ length l = 6.
Proof.
  split; [reflexivity|]. split; [reflexivity|]. split; [reflexivity|]. split; [reflexivity|]. split; [reflexivity|].
  split.
  { repeat constructor; cbn; intros H; repeat (destruct H as [H|H]; try discriminate); auto. }
  split; [discriminate|]. split; [apply nodup_str_NoDup; reflexivity|].
  split; [intros k [<-|[<-|[]]]; vm_compute; tauto|].
  eexists. split; vm_compute; reflexivity.
Qed.
