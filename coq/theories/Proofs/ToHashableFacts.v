(* Facts about the model of to_hashable (C15). *)
From Coq Require Import Permutation Sorted.
From Verif Require Import Base.Prelude Base.PySort Model.PyVal Model.ToHashable Model.ToHashableSpec.
From Verif Require Import Proofs.PySortFacts Proofs.PyValFacts Proofs.CKeyFacts.

(* ---------- unfolding equations ---------- *)
Lemma th_atom_eq : forall fp a, to_hashable fp (PA a) = th_atom fp a.
Proof. intros. simpl. unfold th_atom. destruct (atom_hashable a); reflexivity. Qed.

Lemma th_hashable : forall fp v, py_hashable v = true -> to_hashable fp v = Ok v.
Proof.
  intros fp v H. destruct v; try (simpl in H; discriminate).
  - rewrite th_atom_eq. unfold th_atom. simpl in H. rewrite H. reflexivity.
  - change (to_hashable fp (PSeq k l)) with
      (if py_hashable (PSeq k l) then Ok (PSeq k l) else
       let conv_elems := hashable_iterable false (map (fun x => (x, to_hashable fp x)) l) in
       match k with
       | KTuple | KList => do d <- conv_elems; Ok (conv (tp_seq k) d)
       | KDeque ml => do d <- conv_elems; Ok (conv (tp_seq k) (PTuple [maxlen_val ml; d]))
       | KBytearray => Ok (conv (tp_seq k) (PTuple l))
       | KArray c => Ok (conv (tp_seq k) (PTuple [PStr c; PTuple l]))
       | KNd msk d sh =>
           do items <- (if str_eqb d dt_obj then conv_elems else Ok (PTuple (if msk then map mfill l else l)));
           Ok (conv (tp_seq k) (PTuple ([PTuple (map (fun z => PInt z) sh); PStr d; items]
                                        ++ (if msk then [PTuple (map mbit l)] else []))))
       end).
    rewrite H. reflexivity.
  - change (to_hashable fp (PSetv k l)) with
      (if py_hashable (PSetv k l) then Ok (PSetv k l) else
       do d <- hashable_iterable true (map (fun x => (x, to_hashable fp x)) l); Ok (conv (tp_set k) d)).
    rewrite H. reflexivity.
Qed.

Definition seq_body (fp : bool) (k : seqkind) (l : list pyval) : result pyval :=
  let conv_elems := hashable_iterable false (map (fun x => (x, to_hashable fp x)) l) in
  match k with
  | KTuple | KList => do d <- conv_elems; Ok (conv (tp_seq k) d)
  | KDeque ml => do d <- conv_elems; Ok (conv (tp_seq k) (PTuple [maxlen_val ml; d]))
  | KBytearray => Ok (conv (tp_seq k) (PTuple l))
  | KArray c => Ok (conv (tp_seq k) (PTuple [PStr c; PTuple l]))
  | KNd msk d sh =>
      do items <- (if str_eqb d dt_obj then conv_elems else Ok (PTuple (if msk then map mfill l else l)));
      Ok (conv (tp_seq k) (PTuple ([PTuple (map (fun z => PInt z) sh); PStr d; items]
                                   ++ (if msk then [PTuple (map mbit l)] else []))))
  end.
Lemma th_seq : forall fp k l, py_hashable (PSeq k l) = false -> to_hashable fp (PSeq k l) = seq_body fp k l.
Proof.
  intros fp k l H.
  change (to_hashable fp (PSeq k l)) with (if py_hashable (PSeq k l) then Ok (PSeq k l) else seq_body fp k l).
  rewrite H. reflexivity.
Qed.

Definition set_body (fp : bool) (k : setkind) (l : list pyval) : result pyval :=
  do d <- hashable_iterable true (map (fun x => (x, to_hashable fp x)) l); Ok (conv (tp_set k) d).
Lemma th_set : forall fp k l, py_hashable (PSetv k l) = false -> to_hashable fp (PSetv k l) = set_body fp k l.
Proof.
  intros fp k l H.
  change (to_hashable fp (PSetv k l)) with (if py_hashable (PSetv k l) then Ok (PSetv k l) else set_body fp k l).
  rewrite H. reflexivity.
Qed.

Definition mk_items (fp : bool) (kvs : list (pyval * pyval)) : list item :=
  map (fun kv => (fst kv, snd kv, to_hashable fp (snd kv))) kvs.
Definition map_body (fp : bool) (k : mapkind) (kvs : list (pyval * pyval)) : result pyval :=
  let items := mk_items fp kvs in
  match k with
  | KODict => do d <- hashable_mapping false items; Ok (conv (tp_map k) d)
  | KDefault f => do d <- hashable_mapping true items; Ok (conv (tp_map k) (PTuple [factory_val f; d]))
  | KCounter =>
      do its <- py_sort item_lt (mk_items fp (strip kvs));
      Ok (conv (tp_map k) (PTuple (map (fun it : item => pair_t (fst (fst it)) (snd (fst it))) its)))
  | KDict => do d <- hashable_mapping true items; Ok (conv (tp_map k) d)
  end.
Lemma filter_items : forall fp kvs,
  filter (fun it : item => negb (is_zero (snd (fst it)))) (mk_items fp kvs) = mk_items fp (strip kvs).
Proof.
  intros fp kvs. unfold mk_items, strip. induction kvs as [|kv kvs IH]; simpl; auto.
  unfold nzc at 1. destruct (negb (is_zero (snd kv))); simpl; rewrite IH; reflexivity.
Qed.
Lemma th_map : forall fp k kvs, to_hashable fp (PMap k kvs) = map_body fp k kvs.
Proof.
  intros fp k kvs. destruct k; try reflexivity.
  change (to_hashable fp (PMap KCounter kvs)) with
    (do its <- py_sort item_lt (filter (fun it : item => negb (is_zero (snd (fst it)))) (mk_items fp kvs));
     Ok (conv (tp_map KCounter) (PTuple (map (fun it : item => pair_t (fst (fst it)) (snd (fst it))) its)))).
  rewrite filter_items. reflexivity.
Qed.

Lemma strip_incl : forall kvs kv, In kv (strip kvs) -> In kv kvs.
Proof. intros kvs kv H. unfold strip in H. apply filter_In in H. tauto. Qed.
Lemma strip_nonzero : forall kvs kv, In kv (strip kvs) -> is_zero (snd kv) = false.
Proof. intros kvs kv H. unfold strip in H. apply filter_In in H. destruct H as [_ H]. unfold nzc in H. apply negb_true_iff in H. exact H. Qed.
Lemma strip_nodup : forall kvs, nodup_by (rel false) (map fst kvs) = true -> nodup_by (rel false) (map fst (strip kvs)) = true.
Proof.
  induction kvs as [|kv kvs IH]; simpl; intros H; auto.
  apply andb_true_iff in H. destruct H as [Hx Ht]. unfold nzc at 1. destruct (negb (is_zero (snd kv))); simpl; auto.
  rewrite IH by auto. rewrite andb_true_r. apply negb_true_iff in Hx. apply negb_true_iff.
  destruct (existsb (rel false (fst kv)) (map fst (strip kvs))) eqn:E; auto.
  apply existsb_exists in E. destruct E as (y & Hy & Hr). apply in_map_iff in Hy. destruct Hy as (kv2 & <- & Hin).
  assert (existsb (rel false (fst kv)) (map fst kvs) = true); [|congruence].
  apply existsb_exists. exists (fst kv2). split; auto. apply in_map. apply strip_incl. exact Hin.
Qed.
Lemma mk_items_strip_incl : forall fp kvs it, In it (mk_items fp (strip kvs)) -> In it (mk_items fp kvs).
Proof.
  intros fp kvs it H. unfold mk_items in *. apply in_map_iff in H. destruct H as (kv & <- & Hin).
  apply in_map_iff. exists kv. split; auto. apply strip_incl. exact Hin.
Qed.

(* ---------- mapM ---------- *)
Lemma mapM_Forall2 {A B} (f : A -> result B) : forall l out,
  mapM f l = Ok out <-> Forall2 (fun x y => f x = Ok y) l out.
Proof.
  induction l as [|x t IH]; intros out; simpl; split; intros H.
  - inversion H. constructor.
  - inversion H. reflexivity.
  - destruct (f x) as [y|e] eqn:Hx; [|discriminate]. cbn [bind] in H.
    destruct (mapM f t) as [ys|e] eqn:Ht; [|discriminate]. cbn [bind] in H. inversion H; subst.
    constructor; auto. apply IH. reflexivity.
  - inversion H as [|? y ? ys Hx Ht]; subst. rewrite Hx. cbn [bind].
    apply IH in Ht. rewrite Ht. reflexivity.
Qed.

Lemma mapM_snd_map {A B} (f : A -> result B) : forall l,
  mapM (fun e : A * result B => snd e) (map (fun x => (x, f x)) l) = mapM f l.
Proof. induction l as [|x t IH]; simpl; auto. rewrite IH. reflexivity. Qed.

Lemma iterable_unsorted : forall fp l d,
  hashable_iterable false (map (fun x => (x, to_hashable fp x)) l) = Ok d ->
  exists out, d = PTuple out /\ Forall2 (fun x y => to_hashable fp x = Ok y) l out.
Proof.
  intros fp l d H. unfold hashable_iterable, elem in H. cbn [bind] in H. rewrite (mapM_snd_map (to_hashable fp) l) in H.
  destruct (mapM (to_hashable fp) l) as [out|e] eqn:Hm; [|discriminate]. cbn [bind] in H. inversion H; subst.
  exists out. split; auto. apply mapM_Forall2. exact Hm.
Qed.

Lemma forall2_hashable : forall fp l out,
  Forall2 (fun x y => to_hashable fp x = Ok y) l out ->
  Forall (fun x => forall y, to_hashable fp x = Ok y -> py_hashable y = true) l ->
  forallb py_hashable out = true.
Proof.
  induction 1 as [|x y l out Hxy H IH]; intros HF; simpl; auto.
  inversion HF as [|? ? Hx Ht]; subst. rewrite (Hx _ Hxy). simpl. auto.
Qed.

(* ---------- shapes of the helper results ---------- *)
Lemma iterable_sorted : forall elems d,
  hashable_iterable true elems = Ok d ->
  exists es out, py_sort elem_lt elems = Ok es /\ d = PTuple out /\ Forall2 (fun e y => snd e = Ok y) es out.
Proof.
  intros elems d H. unfold hashable_iterable in H.
  destruct (py_sort elem_lt elems) as [es|e] eqn:Hs; [|discriminate]. cbn [bind] in H.
  destruct (mapM (fun e : elem => snd e) es) as [out|e] eqn:Hm; [|discriminate]. cbn [bind] in H. inversion H; subst.
  exists es, out. split; auto. split; auto. apply (mapM_Forall2 (fun e : elem => snd e)). exact Hm.
Qed.

Definition item_out (it : item) (y : pyval) : Prop := exists hv, snd it = Ok hv /\ y = pair_t (fst (fst it)) hv.
Lemma mapping_out : forall (srt : bool) items d,
  hashable_mapping srt items = Ok d ->
  exists its out, (if srt then py_sort item_lt items else Ok items) = Ok its /\ d = PTuple out
                  /\ Forall2 item_out its out.
Proof.
  intros srt items d H. unfold hashable_mapping in H.
  destruct (if srt then py_sort item_lt items else Ok items) as [its|e] eqn:Hs; [|discriminate]. cbn [bind] in H.
  match type of H with context [mapM ?f its] => destruct (mapM f its) as [out|e] eqn:Hm; [|discriminate] end.
  cbn [bind] in H. inversion H; subst. exists its, out. split; auto. split; auto.
  apply mapM_Forall2 in Hm. clear -Hm. induction Hm as [|it y its out Hy H IH]; constructor; auto.
  unfold item_out. destruct (snd it) as [hv|e]; [|discriminate]. cbn [bind] in Hy. inversion Hy; subst. eauto.
Qed.

Lemma in_mk_items : forall fp kvs it, In it (mk_items fp kvs) ->
  exists kv, In kv kvs /\ it = (fst kv, snd kv, to_hashable fp (snd kv)).
Proof. intros fp kvs it H. unfold mk_items in H. apply in_map_iff in H. destruct H as (kv & E & Hin). eauto. Qed.

Lemma sorted_items_in : forall (srt : bool) (items its : list item),
  (if srt then py_sort item_lt items else Ok items) = Ok its -> Permutation items its.
Proof.
  intros srt items its H. destruct srt; [eapply py_sort_perm; eauto|]. inversion H; subst. apply Permutation_refl.
Qed.

(* ---------- key_hashable ---------- *)
Lemma conv_hashable : forall t d, py_hashable d = true -> py_hashable (conv t d) = true.
Proof. intros t d H. simpl. rewrite H. reflexivity. Qed.

Lemma scalar_hashable : forall x,
  (is_int x || is_float x || is_boolv x || is_strv x || is_byte x) = true -> py_hashable x = true.
Proof. intros x H. destruct x as [a| | | | |]; simpl in H; try discriminate. destruct a; simpl in *; try discriminate; auto. Qed.

Lemma ints_hashable : forall sh, forallb py_hashable (map (fun z => PInt z) sh) = true.
Proof. induction sh; simpl; auto. Qed.

Lemma wf_seq_children : forall sk l, wf (PSeq sk l) = true -> (forall d sh, sk <> KNd true d sh) ->
  forallb wf l = true.
Proof.
  intros sk l Hwf Hsk. simpl in Hwf. apply andb_true_iff in Hwf. destruct Hwf as [Hwf _].
  destruct sk; auto. destruct masked; auto. exfalso. eapply Hsk; eauto.
Qed.

Lemma elem_ok_scalar : forall d x, str_eqb d dt_obj = false -> elem_ok d x = true ->
  (is_int x || is_float x || is_boolv x || is_strv x) = true.
Proof.
  intros d x Hd H. unfold elem_ok, dtype_class in H. rewrite Hd in H.
  destruct d as [|c0 [|c d']]; try discriminate.
  destruct (Ascii.eqb c "i" || Ascii.eqb c "u"); [rewrite H; auto|].
  destruct (Ascii.eqb c "f"); [rewrite H; rewrite ?orb_true_r; auto|].
  destruct (Ascii.eqb c "b"); [rewrite H; rewrite ?orb_true_r; auto|].
  destruct (Ascii.eqb c "U"); [rewrite H; rewrite ?orb_true_r; auto|].
  discriminate.
Qed.

Lemma nd_fill_hashable : forall m d l,
  str_eqb d dt_obj = false ->
  forallb (fun x => (m && is_maskedc x) || elem_ok d x) l = true ->
  forallb py_hashable (if m then map mfill l else l) = true.
Proof.
  intros m d l Hd H. rewrite forallb_forall in H.
  assert (Hx : forall x, In x l -> py_hashable (if m then mfill x else x) = true).
  { intros x Hx. specialize (H x Hx). unfold mfill. destruct m; cbn [andb] in H.
    - destruct (is_maskedc x) eqn:E; [reflexivity|]. cbn [orb] in H. apply scalar_hashable.
      rewrite (elem_ok_scalar d x Hd H). reflexivity.
    - cbn [orb] in H. apply scalar_hashable. rewrite (elem_ok_scalar d x Hd H). reflexivity. }
  destruct m; apply forallb_forall.
  - intros y Hy. apply in_map_iff in Hy. destruct Hy as (x & <- & Hin). apply (Hx x Hin).
  - intros x Hin. apply (Hx x Hin).
Qed.
Lemma mbits_hashable : forall l, forallb py_hashable (map mbit l) = true.
Proof. induction l; simpl; auto. Qed.

Section KeyHashable.
  (* the two pandas leaves are proved further down (series_key, frame_key) and plugged in by key_hashable *)
  Variable fp : bool.
  Hypothesis series_ok : forall n d i x k, wf (PSeries n d i x) = true ->
    to_hashable fp (PSeries n d i x) = Ok k -> py_hashable k = true.
  Hypothesis frame_ok : forall c i k, wf (PFrame c i) = true ->
    to_hashable fp (PFrame c i) = Ok k -> py_hashable k = true.

Theorem key_hashable_gen : forall v k,
  wf v = true -> to_hashable fp v = Ok k -> py_hashable k = true.
Proof.
  intros v. induction v as [a|sk l IH|sk l IH|mk kvs IH|n d i x|c i] using pyval_ind2;
    intros k Hwf Hth.
  - rewrite th_atom_eq in Hth. unfold th_atom in Hth. destruct (atom_hashable a) eqn:Ha.
    + inversion Hth; subst. exact Ha.
    + destruct a; try discriminate. destruct fp, picklable; try discriminate. inversion Hth; subst. reflexivity.
  - destruct (py_hashable (PSeq sk l)) eqn:Hh.
    { rewrite th_hashable in Hth by exact Hh. inversion Hth; subst. exact Hh. }
    rewrite th_seq in Hth by exact Hh.
    assert (Hconv : (forall d sh, sk <> KNd true d sh) -> forall d,
              hashable_iterable false (map (fun x => (x, to_hashable fp x)) l) = Ok d -> py_hashable d = true).
    { intros Hsk d Hd. apply iterable_unsorted in Hd. destruct Hd as (out & -> & HF). simpl.
      assert (Hch := wf_seq_children _ _ Hwf Hsk). rewrite forallb_forall in Hch.
      eapply forall2_hashable; eauto. rewrite Forall_forall in *. intros x Hx y Hy. eapply IH; eauto. }
    unfold seq_body in Hth. simpl in Hwf. apply andb_true_iff in Hwf. destruct Hwf as [_ Hwf].
    destruct sk.
    + destruct (hashable_iterable false _) as [d|e] eqn:Hd; [|discriminate]. cbn [bind] in Hth.
      inversion Hth; subst. apply conv_hashable. apply Hconv; auto. discriminate.
    + destruct (hashable_iterable false _) as [d|e] eqn:Hd; [|discriminate]. cbn [bind] in Hth.
      inversion Hth; subst. apply conv_hashable. apply Hconv; auto. discriminate.
    + destruct (hashable_iterable false _) as [d|e] eqn:Hd; [|discriminate]. cbn [bind] in Hth.
      inversion Hth; subst. apply conv_hashable. simpl. rewrite (Hconv ltac:(discriminate) d) by auto.
      destruct maxlen; reflexivity.
    + inversion Hth; subst. apply conv_hashable. simpl.
      apply forallb_forall. intros x Hx. rewrite forallb_forall in Hwf. apply scalar_hashable.
      rewrite (Hwf x Hx). rewrite ?orb_true_r. reflexivity.
    + inversion Hth; subst. apply conv_hashable. simpl. rewrite andb_true_r.
      apply forallb_forall. intros x Hx. rewrite forallb_forall in Hwf. specialize (Hwf x Hx).
      apply scalar_hashable. unfold array_code_ok in Hwf.
      destruct (mem_str code _); [rewrite Hwf; reflexivity|].
      destruct (mem_str code _); [rewrite Hwf; rewrite ?orb_true_r; reflexivity|discriminate].
    + apply andb_true_iff in Hwf. destruct Hwf as [Hwf Hel]. apply andb_true_iff in Hwf. destruct Hwf as [Hwf _].
      apply andb_true_iff in Hwf. destruct Hwf as [Hmo _].
      destruct (str_eqb dtype dt_obj) eqn:Hd.
      * rewrite andb_true_r in Hmo. apply negb_true_iff in Hmo. subst masked.
        destruct (hashable_iterable false _) as [d|e] eqn:Hd'; [|discriminate]. cbn [bind] in Hth.
        inversion Hth; subst. apply conv_hashable. simpl. rewrite ints_hashable.
        rewrite (Hconv ltac:(discriminate) d) by auto. reflexivity.
      * cbn [bind] in Hth. inversion Hth; subst. apply conv_hashable.
        assert (Hf := nd_fill_hashable masked dtype l Hd Hel). assert (Hb := mbits_hashable l).
        destruct masked; cbn [app py_hashable forallb]; rewrite ints_hashable, Hf, ?Hb; reflexivity.
  - destruct (py_hashable (PSetv sk l)) eqn:Hh.
    { rewrite th_hashable in Hth by exact Hh. inversion Hth; subst. exact Hh. }
    rewrite th_set in Hth by exact Hh. unfold set_body in Hth.
    destruct (hashable_iterable true _) as [d|e] eqn:Hd; [|discriminate]. cbn [bind] in Hth. inversion Hth; subst.
    apply conv_hashable. apply iterable_sorted in Hd. destruct Hd as (es & out & Hs & -> & HF). simpl.
    apply py_sort_perm in Hs.
    simpl in Hwf. apply andb_true_iff in Hwf. destruct Hwf as [Hwf _]. apply andb_true_iff in Hwf.
    destruct Hwf as [_ Hhl]. rewrite forallb_forall in Hhl.
    assert (Hes : forall e y, In e es -> snd e = Ok y -> py_hashable y = true).
    { intros e y He Hy. apply (Permutation_in _ (Permutation_sym Hs)) in He. apply in_map_iff in He.
      destruct He as (x & <- & Hx). simpl in Hy. rewrite th_hashable in Hy by auto. inversion Hy; subst. auto. }
    clear -HF Hes. induction HF as [|e y es out Hy H IH]; simpl; auto.
    rewrite (Hes e y); simpl; auto. apply IH. intros; eapply Hes; simpl; eauto.
  - rewrite th_map in Hth.
    simpl in Hwf. apply andb_true_iff in Hwf. destruct Hwf as [Hwf Hkind].
    apply andb_true_iff in Hwf. destruct Hwf as [Hwf _]. apply andb_true_iff in Hwf. destruct Hwf as [Hwfkv Hhk].
    rewrite forallb_forall in Hwfkv, Hhk.
    rewrite Forall_forall in IH.
    assert (Hitems : forall it, In it (mk_items fp kvs) ->
              py_hashable (fst (fst it)) = true /\ (forall hv, snd it = Ok hv -> py_hashable hv = true)).
    { intros it Hit. apply in_mk_items in Hit. destruct Hit as (kv & Hkv & ->). simpl. split; [apply Hhk; auto|].
      intros hv Hhv. specialize (Hwfkv kv Hkv). apply andb_true_iff in Hwfkv. destruct Hwfkv as [_ Hwv].
      destruct (IH kv Hkv) as [_ IHv]. eapply IHv; eauto. }
    assert (Hmapping : forall srt d, hashable_mapping srt (mk_items fp kvs) = Ok d -> py_hashable d = true).
    { intros srt d Hd. apply mapping_out in Hd. destruct Hd as (its & out & Hs & -> & HF). simpl.
      apply sorted_items_in in Hs.
      assert (Hits : forall it, In it its -> In it (mk_items fp kvs))
        by (intros it Hit; apply (Permutation_in _ (Permutation_sym Hs)); auto).
      clear -HF Hits Hitems. induction HF as [|it y its out Hy H IH]; simpl; auto.
      destruct Hy as (hv & Hhv & ->). destruct (Hitems it) as [Hk Hv]; [apply Hits; simpl; auto|].
      simpl. rewrite Hk, (Hv hv Hhv). simpl. apply IH. intros; apply Hits; simpl; auto. }
    unfold map_body in Hth. destruct mk.
    + destruct (hashable_mapping true _) as [d|e] eqn:Hd; [|discriminate]. cbn [bind] in Hth. inversion Hth; subst.
      apply conv_hashable. eauto.
    + destruct (hashable_mapping false _) as [d|e] eqn:Hd; [|discriminate]. cbn [bind] in Hth. inversion Hth; subst.
      apply conv_hashable. eauto.
    + destruct (hashable_mapping true _) as [d|e] eqn:Hd; [|discriminate]. cbn [bind] in Hth. inversion Hth; subst.
      apply conv_hashable. simpl. rewrite (Hmapping true d) by auto. destruct factory; reflexivity.
    + destruct (py_sort item_lt _) as [its|e] eqn:Hs; [|discriminate]. cbn [bind] in Hth. inversion Hth; subst.
      apply conv_hashable. simpl. apply py_sort_perm in Hs.
      apply forallb_forall. intros y Hy. apply in_map_iff in Hy. destruct Hy as (it & <- & Hit).
      apply (Permutation_in _ (Permutation_sym Hs)) in Hit. apply mk_items_strip_incl in Hit.
      destruct (Hitems it Hit) as [Hk _]. apply in_mk_items in Hit. destruct Hit as (kv & Hkv & ->). simpl in *.
      rewrite Hk. rewrite forallb_forall in Hkind. specialize (Hkind kv Hkv).
      rewrite (scalar_hashable (snd kv)); [reflexivity|]. rewrite Hkind. reflexivity.
  - eapply series_ok; eauto.
  - eapply frame_ok; eauto.
Qed.
End KeyHashable.

(* ================= sorting of set elements / mapping items under the guard ================= *)
Ltac bsplit :=
  repeat match goal with
         | H : _ && _ = true |- _ => apply andb_true_iff in H; destruct H
         end.

(* hashable and well-formed: what a set element / a mapping key is *)
Definition hw (x : pyval) : Prop := wf x = true /\ py_hashable x = true.

Lemma nodup_ckeys : forall l, (forall x, In x l -> hw x) -> nodup_by (rel false) l = true -> NoDup (map ckey l).
Proof.
  intros l Hl Hnd. apply (nodup_by_NoDup_map (rel false)); auto.
  intros x y Hx Hy E. destruct (Hl x Hx), (Hl y Hy). apply ckey_rel_iff; auto.
Qed.

Lemma ck_decide : forall a b, a <> b -> (ck_ltb a b = true /\ cklt a b) \/ (ck_ltb a b = false /\ cklt b a).
Proof.
  intros a b Hne. destruct (ck_ltb a b) eqn:E; [left; auto|]. right. split; auto.
  destruct (ck_total a b) as [H|[H|H]]; auto; [unfold cklt in H; congruence|contradiction].
Qed.

(* elements *)
Definition ekey (e : elem) : ck := ckey (fst e).
Lemma elem_lt_spec : forall (x y : elem), ekey x <> ekey y ->
  (elem_lt x y = Ok true /\ cklt (ekey x) (ekey y)) \/ (elem_lt x y = Ok false /\ cklt (ekey y) (ekey x)).
Proof.
  intros x y Hne. unfold elem_lt, key_lt, ekey in *.
  destruct (ck_decide _ _ Hne) as [[E H]|[E H]]; rewrite E; auto.
Qed.

(* items *)
Definition ikey (it : item) : ck := ckey (fst (fst it)).
Lemma item_lt_spec : forall (x y : item), ikey x <> ikey y ->
  (item_lt x y = Ok true /\ cklt (ikey x) (ikey y)) \/ (item_lt x y = Ok false /\ cklt (ikey y) (ikey x)).
Proof.
  intros x y Hne. unfold item_lt, key_lt, ikey in *.
  destruct (ck_decide _ _ Hne) as [[E H]|[E H]]; rewrite E; auto.
Qed.

Definition esorted := StronglySorted (fun x y : elem => cklt (ekey x) (ekey y)).
Definition isorted := StronglySorted (fun x y : item => cklt (ikey x) (ikey y)).

Lemma sort_elems : forall (elems : list elem), NoDup (map ekey elems) ->
  exists es, py_sort elem_lt elems = Ok es /\ Permutation elems es /\ esorted es.
Proof.
  intros elems Hnd.
  apply (py_sort_spec elem_lt cklt ekey (fun _ => True)); auto.
  - exact ck_trans.
  - intros; apply elem_lt_spec; auto.
  - apply Forall_forall. auto.
Qed.
Lemma sort_items : forall (items : list item), NoDup (map ikey items) ->
  exists its, py_sort item_lt items = Ok its /\ Permutation items its /\ isorted its.
Proof.
  intros items Hnd.
  apply (py_sort_spec item_lt cklt ikey (fun _ => True)); auto.
  - exact ck_trans.
  - intros; apply item_lt_spec; auto.
  - apply Forall_forall. auto.
Qed.

(* ================= canonicity: equal values of the same type get equal keys ================= *)
Definition keq (fp : bool) (x y : pyval) : Prop :=
  forall k k', to_hashable fp x = Ok k -> to_hashable fp y = Ok k' -> rel false k k' = true.

Lemma conv_rel : forall t d t' d', rel false (conv t d) (conv t' d') = str_eqb t t' && rel false d d'.
Proof.
  intros. unfold conv. rewrite rel_seq_unfold. cbn [seqkind_loose seqkind_eqb rel_list andb].
  rewrite !rel_atom_l. unfold atom_eq. cbn [numval]. rewrite str_eqb_refl. cbn [andb]. rewrite andb_true_r. reflexivity.
Qed.

Lemma rel_tuple : forall l l', rel false (PTuple l) (PTuple l') = rel_list false l l'.
Proof. intros. rewrite rel_seq_unfold. reflexivity. Qed.

Lemma NoDup_map_inj {A B} (f : A -> B) : forall l x y,
  NoDup (map f l) -> In x l -> In y l -> f x = f y -> x = y.
Proof.
  induction l as [|a l IH]; intros x y Hnd Hx Hy E; [destruct Hx|].
  simpl in Hnd. inversion Hnd as [|? ? Hnin Hnd']; subst.
  destruct Hx as [Hx|Hx], Hy as [Hy|Hy]; subst; auto.
  - exfalso. apply Hnin. rewrite E. apply in_map. auto.
  - exfalso. apply Hnin. rewrite <- E. apply in_map. auto.
Qed.

Lemma Forall2_map_fst {A C} (R : A -> A -> Prop) (f : C -> A) : forall (l l' : list C),
  Forall2 (fun x y => R (f x) (f y)) l l' -> Forall2 R (map f l) (map f l').
Proof. induction 1; simpl; constructor; auto. Qed.

Lemma elems_out : forall fp l es out,
  Permutation (map (fun x => (x, to_hashable fp x)) l) es ->
  (forall x, In x l -> py_hashable x = true) ->
  Forall2 (fun (e : elem) y => snd e = Ok y) es out -> out = map fst es.
Proof.
  intros fp l es out Hp Hh HF.
  assert (Hes : forall e, In e es -> snd e = Ok (fst e)).
  { intros e He. apply (Permutation_in _ (Permutation_sym Hp)) in He. apply in_map_iff in He.
    destruct He as (x & <- & Hx). simpl. apply th_hashable. auto. }
  clear Hp. induction HF as [|e y es out Hy H IH]; simpl; auto.
  rewrite (Hes e) in Hy by (simpl; auto). inversion Hy; subst. f_equal. apply IH. intros; apply Hes; simpl; auto.
Qed.

Lemma set_canon : forall fp l l' d d',
  forallb wf l = true -> forallb py_hashable l = true -> nodup_by (rel false) l = true ->
  forallb wf l' = true -> forallb py_hashable l' = true ->
  length l = length l' ->
  (forall a, In a l -> exists b, In b l' /\ rel true a b = true) ->
  hashable_iterable true (map (fun x => (x, to_hashable fp x)) l) = Ok d ->
  hashable_iterable true (map (fun x => (x, to_hashable fp x)) l') = Ok d' ->
  rel false d d' = true.
Proof.
  intros fp l l' d d' Hw Hh Hnd Hw' Hh' Hlen H1 Hd Hd'.
  rewrite forallb_forall in Hw, Hh, Hw', Hh'.
  assert (Hhw : forall x, In x l -> hw x) by (intros x Hx; split; auto).
  assert (Hhw' : forall x, In x l' -> hw x) by (intros x Hx; split; auto).
  (* rel true = rel false between elements; the keys of l' are a permutation of those of l, hence duplicate free *)
  assert (H1f : forall a, In a l -> exists b, In b l' /\ rel false a b = true).
  { intros a Ha. destruct (H1 a Ha) as (b & Hb & Hab). exists b. split; auto.
    rewrite (hashable_rel_same a (Hw a Ha) (Hh a Ha) b (Hw' b Hb) (Hh' b Hb)). exact Hab. }
  assert (Hndk : NoDup (map ckey l)) by (apply nodup_ckeys; auto).
  assert (Hperm : Permutation (map ckey l) (map ckey l')).
  { apply NoDup_Permutation_bis; auto; [rewrite !map_length; lia|].
    intros k Hk. apply in_map_iff in Hk. destruct Hk as (x & <- & Hx). destruct (H1f x Hx) as (y & Hy & Hxy).
    apply in_map_iff. exists y. split; auto. symmetry. apply ckey_rel_iff; auto. }
  assert (Hndk' : NoDup (map ckey l')) by (eapply Permutation_NoDup; eauto).
  set (elems := map (fun x => (x, to_hashable fp x)) l) in *.
  set (elems' := map (fun x => (x, to_hashable fp x)) l') in *.
  assert (Hk : map ekey elems = map ckey l) by (unfold elems; rewrite map_map; reflexivity).
  assert (Hk' : map ekey elems' = map ckey l') by (unfold elems'; rewrite map_map; reflexivity).
  destruct (sort_elems elems) as (es0 & Hs0 & Hp & Hso); [rewrite Hk; auto|].
  destruct (sort_elems elems') as (es0' & Hs0' & Hp' & Hso'); [rewrite Hk'; auto|].
  apply iterable_sorted in Hd. destruct Hd as (es & out & Hs & -> & HF).
  apply iterable_sorted in Hd'. destruct Hd' as (es' & out' & Hs' & -> & HF').
  rewrite Hs0 in Hs. inversion Hs; subst es0. rewrite Hs0' in Hs'. inversion Hs'; subst es0'.
  rewrite (elems_out fp l es out Hp Hh HF), (elems_out fp l' es' out' Hp' Hh' HF').
  rewrite rel_tuple. apply rel_list_forall2. apply Forall2_map_fst.
  set (R := fun e e' : elem => hw (fst e) /\ hw (fst e') /\ rel false (fst e) (fst e') = true).
  assert (HR : Forall2 R es es').
  { apply (sorted_unique cklt ekey ekey R ck_irrefl ck_trans); auto.
    - intros a b ((Wa & Ha) & (Wb & Hb) & Hab). unfold ekey. apply ckey_rel_iff; auto.
    - intros a Ha. apply (Permutation_in _ (Permutation_sym Hp)) in Ha. apply in_map_iff in Ha.
      destruct Ha as (x & <- & Hx). destruct (H1f x Hx) as (y & Hy & Hxy).
      exists (y, to_hashable fp y). split.
      + apply (Permutation_in _ Hp'). apply in_map_iff. eauto.
      + unfold R. simpl. auto.
    - intros b Hb. apply (Permutation_in _ (Permutation_sym Hp')) in Hb. apply in_map_iff in Hb.
      destruct Hb as (y & <- & Hy).
      assert (Hin : In (ckey y) (map ckey l)).
      { apply (Permutation_in _ (Permutation_sym Hperm)). apply in_map. auto. }
      apply in_map_iff in Hin. destruct Hin as (x & Hxy & Hx).
      exists (x, to_hashable fp x). split.
      + apply (Permutation_in _ Hp). apply in_map_iff. eauto.
      + unfold R. simpl. split; auto. split; auto. apply ckey_rel_iff; auto. }
  clear -HR. induction HR as [|e e' es es' (_ & _ & H) _ IH]; constructor; auto.
Qed.

Definition itemR (Rv : pyval -> pyval -> Prop) (it it' : item) : Prop :=
  hw (fst (fst it)) /\ hw (fst (fst it'))
  /\ rel false (fst (fst it)) (fst (fst it')) = true /\ Rv (snd (fst it)) (snd (fst it')).

Definition keys_hw (kvs : list (pyval * pyval)) : Prop := forall kv, In kv kvs -> hw (fst kv).

Lemma keys_perm : forall (kvs kvs' : list (pyval * pyval)) (Rv : pyval -> pyval -> Prop),
  keys_hw kvs -> keys_hw kvs' -> nodup_by (rel false) (map fst kvs) = true -> length kvs = length kvs' ->
  (forall kv, In kv kvs -> exists kv', In kv' kvs' /\ rel true (fst kv) (fst kv') = true /\ Rv (snd kv) (snd kv')) ->
  NoDup (map ckey (map fst kvs)) /\ Permutation (map ckey (map fst kvs)) (map ckey (map fst kvs')).
Proof.
  intros kvs kvs' Rv Hk Hk' Hnd Hlen H1.
  assert (Hndk : NoDup (map ckey (map fst kvs))).
  { apply nodup_ckeys; auto. intros x Hx. apply in_map_iff in Hx. destruct Hx as (kv & <- & Hin). auto. }
  split; auto.
  apply NoDup_Permutation_bis; auto; [rewrite !map_length; lia|].
  intros k Hin. rewrite map_map in Hin. apply in_map_iff in Hin. destruct Hin as (kv & <- & Hkv).
  destruct (H1 kv Hkv) as (kv' & Hkv' & Hkk & _). rewrite map_map. apply in_map_iff. exists kv'. split; auto.
  destruct (Hk kv Hkv) as [W H], (Hk' kv' Hkv') as [W' H'].
  symmetry. apply ckey_rel_iff; auto. rewrite (hashable_rel_same _ W H _ W' H'). exact Hkk.
Qed.

Lemma dict_h2 : forall (Rv : pyval -> pyval -> Prop) (kvs kvs' : list (pyval * pyval)),
  keys_hw kvs -> keys_hw kvs' -> nodup_by (rel false) (map fst kvs) = true -> length kvs = length kvs' ->
  (forall kv, In kv kvs -> exists kv', In kv' kvs' /\ rel true (fst kv) (fst kv') = true /\ Rv (snd kv) (snd kv')) ->
  (forall kv', In kv' kvs' -> exists kv, In kv kvs /\ rel true (fst kv) (fst kv') = true /\ Rv (snd kv) (snd kv')).
Proof.
  intros Rv kvs kvs' Hk Hk' Hnd Hlen H1 kv' Hkv'.
  destruct (keys_perm kvs kvs' Rv Hk Hk' Hnd Hlen H1) as [Hndk Hperm].
  assert (Hndk' : NoDup (map ckey (map fst kvs'))) by (eapply Permutation_NoDup; eauto).
  set (f := fun kv : pyval * pyval => ckey (fst kv)).
  assert (Hm : forall l, map ckey (map fst l) = map f l) by (intros; rewrite map_map; reflexivity).
  rewrite !Hm in *.
  assert (Hin : In (f kv') (map f kvs)).
  { apply (Permutation_in _ (Permutation_sym Hperm)). apply in_map. auto. }
  apply in_map_iff in Hin. destruct Hin as (kv & Hf & Hkv).
  destruct (H1 kv Hkv) as (kv2 & Hkv2 & Hkk & Hvv).
  assert (E : kv2 = kv').
  { apply (NoDup_map_inj f kvs'); auto. rewrite <- Hf. unfold f.
    destruct (Hk kv Hkv) as [W H], (Hk' kv2 Hkv2) as [W2 H2].
    symmetry. apply ckey_rel_iff; auto. rewrite (hashable_rel_same _ W H _ W2 H2). exact Hkk. }
  subst kv2. eauto.
Qed.

Lemma items_canon : forall fp (Rv : pyval -> pyval -> Prop) kvs kvs' its its',
  keys_hw kvs -> keys_hw kvs' -> nodup_by (rel false) (map fst kvs) = true -> length kvs = length kvs' ->
  (forall kv, In kv kvs -> exists kv', In kv' kvs' /\ rel true (fst kv) (fst kv') = true /\ Rv (snd kv) (snd kv')) ->
  py_sort item_lt (mk_items fp kvs) = Ok its -> py_sort item_lt (mk_items fp kvs') = Ok its' ->
  Forall2 (itemR Rv) its its'.
Proof.
  intros fp Rv kvs kvs' its its' Hk Hk' Hnd Hlen H1 Hs Hs'.
  assert (H2 := dict_h2 Rv kvs kvs' Hk Hk' Hnd Hlen H1).
  destruct (keys_perm kvs kvs' Rv Hk Hk' Hnd Hlen H1) as [Hndk Hperm].
  assert (Hndk' : NoDup (map ckey (map fst kvs'))) by (eapply Permutation_NoDup; eauto).
  assert (Hkk : forall l, map ikey (mk_items fp l) = map ckey (map fst l))
    by (intros; unfold mk_items; rewrite !map_map; reflexivity).
  destruct (sort_items (mk_items fp kvs)) as (its0 & Hs0 & Hp & Hso); [rewrite Hkk; auto|].
  destruct (sort_items (mk_items fp kvs')) as (its0' & Hs0' & Hp' & Hso'); [rewrite Hkk; auto|].
  rewrite Hs0 in Hs. inversion Hs; subst its0. rewrite Hs0' in Hs'. inversion Hs'; subst its0'.
  assert (Hrf : forall kv kv', In kv kvs -> In kv' kvs' -> rel true (fst kv) (fst kv') = true ->
                               rel false (fst kv) (fst kv') = true).
  { intros kv kv' Hkv Hkv' Hr. destruct (Hk kv Hkv) as [W H], (Hk' kv' Hkv') as [W' H'].
    rewrite (hashable_rel_same _ W H _ W' H'). exact Hr. }
  apply (sorted_unique cklt ikey ikey (itemR Rv) ck_irrefl ck_trans); auto.
  - intros a b ((Wa & Ha) & (Wb & Hb) & Hab & _). unfold ikey. apply ckey_rel_iff; auto.
  - intros a Ha. apply (Permutation_in _ (Permutation_sym Hp)) in Ha. apply in_mk_items in Ha.
    destruct Ha as (kv & Hkv & ->). destruct (H1 kv Hkv) as (kv' & Hkv' & Hr & Hvv).
    exists (fst kv', snd kv', to_hashable fp (snd kv')). split.
    + apply (Permutation_in _ Hp'). unfold mk_items. apply in_map_iff. exists kv'. auto.
    + unfold itemR. simpl. repeat split; auto; try apply (Hk kv Hkv); try apply (Hk' kv' Hkv').
  - intros b Hb. apply (Permutation_in _ (Permutation_sym Hp')) in Hb. apply in_mk_items in Hb.
    destruct Hb as (kv' & Hkv' & ->). destruct (H2 kv' Hkv') as (kv & Hkv & Hr & Hvv).
    exists (fst kv, snd kv, to_hashable fp (snd kv)). split.
    + apply (Permutation_in _ Hp). unfold mk_items. apply in_map_iff. exists kv. auto.
    + unfold itemR. simpl. repeat split; auto; try apply (Hk kv Hkv); try apply (Hk' kv' Hkv').
Qed.

(* ---------- the guard of the partial theorems and its inheritance by sub-values ---------- *)
Definition g (v : pyval) : bool := wf v.

Lemma fn_seq : forall q sk l, forall_nodes q (PSeq sk l) = q (PSeq sk l) && forallb (forall_nodes q) l.
Proof. reflexivity. Qed.
Lemma fn_set : forall q sk l, forall_nodes q (PSetv sk l) = q (PSetv sk l) && forallb (forall_nodes q) l.
Proof. reflexivity. Qed.
Lemma fn_map : forall q mk kvs, forall_nodes q (PMap mk kvs) =
  q (PMap mk kvs) && forallb (fun kv => forall_nodes q (fst kv) && forall_nodes q (snd kv)) kvs.
Proof. reflexivity. Qed.

Lemma g_seq_children : forall sk l, g (PSeq sk l) = true -> (forall d sh, sk <> KNd true d sh) ->
  Forall (fun x => g x = true) l.
Proof.
  intros sk l H Hsk. apply Forall_forall. intros x Hx. assert (Hw := wf_seq_children sk l H Hsk).
  rewrite forallb_forall in Hw. apply Hw. exact Hx.
Qed.

Lemma g_map_values : forall mk kvs, g (PMap mk kvs) = true -> Forall (fun kv => g (snd kv) = true) kvs.
Proof.
  intros mk kvs H. unfold g in H. simpl in H. apply andb_true_iff in H. destruct H as [H _].
  apply andb_true_iff in H. destruct H as [H _]. apply andb_true_iff in H. destruct H as [H _].
  apply Forall_forall. intros kv Hkv. rewrite forallb_forall in H. specialize (H kv Hkv).
  apply andb_true_iff in H. destruct H. assumption.
Qed.

Definition atomic (x : pyval) : bool := match x with PA _ => true | _ => false end.
Lemma atomic_rel : forall x y, atomic x = true -> rel false x y = rel true x y.
Proof. intros x y H. destruct x; try discriminate. rewrite !rel_atom_l. reflexivity. Qed.
Lemma rel_list_atomic : forall l l', forallb atomic l = true -> rel_list true l l' = true -> rel_list false l l' = true.
Proof.
  induction l as [|x t IH]; intros l' Ha H; destruct l' as [|y t']; simpl in *; auto. bsplit.
  rewrite atomic_rel by auto. match goal with H : rel true x y = true |- _ => rewrite H end. simpl. apply IH; auto.
Qed.
Lemma scalar_atomic : forall x,
  (is_int x || is_float x || is_boolv x || is_strv x || is_byte x || is_maskedc x) = true -> atomic x = true.
Proof. intros x H. destruct x as [a| | | | |]; simpl in H; try discriminate. reflexivity. Qed.

Lemma nd_elems_atomic : forall m d l,
  str_eqb d dt_obj = false ->
  forallb (fun x => (m && is_maskedc x) || elem_ok d x) l = true -> forallb atomic l = true.
Proof.
  intros m d l Hd H. apply forallb_forall. intros x Hx. rewrite forallb_forall in H. specialize (H x Hx).
  apply scalar_atomic. apply orb_true_iff in H. destruct H as [H|H].
  - bsplit. match goal with H : is_maskedc x = true |- _ => rewrite H end. rewrite ?orb_true_r. reflexivity.
  - unfold elem_ok, dtype_class in H. rewrite Hd in H.
    destruct d as [|c0 [|c d']]; try discriminate.
    destruct (Ascii.eqb c "i" || Ascii.eqb c "u"); [rewrite H; auto|].
    destruct (Ascii.eqb c "f"); [rewrite H; rewrite ?orb_true_r; auto|].
    destruct (Ascii.eqb c "b"); [rewrite H; rewrite ?orb_true_r; auto|].
    destruct (Ascii.eqb c "U"); [rewrite H; rewrite ?orb_true_r; auto|].
    discriminate.
Qed.

Lemma ints_rel_refl : forall sh, rel_list false (map (fun z => PInt z) sh) (map (fun z => PInt z) sh) = true.
Proof. induction sh as [|z sh IH]; simpl; auto. unfold atom_eq. simpl. rewrite Z.eqb_refl. exact IH. Qed.

Lemma masked_rel : forall st x y, rel st x y = true -> is_maskedc x = is_maskedc y.
Proof.
  intros st x y H. destruct x as [a| | | | |]; destruct y as [b| | | | |]; try discriminate; try reflexivity.
  rewrite rel_atom_l in H. destruct a, b; unfold atom_eq in H; cbn [numval] in H; try discriminate; reflexivity.
Qed.

Lemma fill_rel : forall l l', forallb atomic l = true -> rel_list true l l' = true ->
  rel_list false (map mfill l) (map mfill l') = true /\ rel_list false (map mbit l) (map mbit l') = true.
Proof.
  induction l as [|x t IH]; intros l' Ha H; destruct l' as [|y t']; cbn [map rel_list] in *; try discriminate; auto.
  cbn [forallb] in Ha. apply andb_true_iff in Ha. destruct Ha as [Hax Hat].
  apply andb_true_iff in H. destruct H as [Hxy Ht]. destruct (IH t' Hat Ht) as [I1 I2]. rewrite I1, I2.
  assert (E := masked_rel _ _ _ Hxy). unfold mfill, mbit. rewrite <- E. destruct (is_maskedc x).
  - split; reflexivity.
  - rewrite (atomic_rel x y Hax), Hxy. split; reflexivity.
Qed.

Lemma fill_rel_rev : forall l l', forallb atomic l = true ->
  rel_list false (map mfill l) (map mfill l') = true -> rel_list false (map mbit l) (map mbit l') = true ->
  rel_list true l l' = true.
Proof.
  induction l as [|x t IH]; intros l' Ha H Hb; destruct l' as [|y t']; cbn [map rel_list] in *; try discriminate; auto.
  cbn [forallb] in Ha. apply andb_true_iff in Ha. destruct Ha as [Hax Hat].
  apply andb_true_iff in H. destruct H as [Hxy Ht]. apply andb_true_iff in Hb. destruct Hb as [Hbxy Hbt].
  rewrite (IH t' Hat Ht Hbt), andb_true_r.
  unfold mbit in Hbxy. rewrite rel_atom_l in Hbxy. unfold atom_eq in Hbxy. cbn [numval] in Hbxy.
  unfold mfill in Hxy.
  destruct (is_maskedc x) eqn:Mx; destruct (is_maskedc y) eqn:My; try discriminate.
  - destruct x as [a| | | | |]; try discriminate. destruct a; try discriminate.
    destruct y as [b| | | | |]; try discriminate. destruct b; try discriminate. reflexivity.
  - rewrite <- (atomic_rel x y Hax). exact Hxy.
Qed.

Lemma conv_elems_rel : forall fp l l' d d',
  Forall2 (fun x y => rel true x y = true) l l' ->
  Forall (fun x => forall y, g x = true -> g y = true -> rel true x y = true -> keq fp x y) l ->
  Forall (fun x => g x = true) l -> Forall (fun x => g x = true) l' ->
  hashable_iterable false (map (fun x => (x, to_hashable fp x)) l) = Ok d ->
  hashable_iterable false (map (fun x => (x, to_hashable fp x)) l') = Ok d' ->
  rel false d d' = true.
Proof.
  intros fp l l' d d' HR HIH Hg Hg' Hd Hd'.
  apply iterable_unsorted in Hd. destruct Hd as (out & -> & HF).
  apply iterable_unsorted in Hd'. destruct Hd' as (out' & -> & HF').
  rewrite rel_tuple. revert out out' HF HF' HIH Hg Hg'.
  induction HR as [|x y l l' Hxy HR IH]; intros out out' HF HF' HIH Hg Hg'.
  - inversion HF; inversion HF'; subst. reflexivity.
  - inversion HF as [|? kx ? outx Hkx HFx]; subst. inversion HF' as [|? ky ? outy Hky HFy]; subst.
    inversion HIH as [|? ? Hx HIHt]; subst. inversion Hg; subst. inversion Hg'; subst.
    simpl. rewrite (Hx y) by auto. simpl. apply IH; auto.
Qed.

Lemma mapping_rel : forall fp (its its' : list item) out out',
  Forall2 (itemR (keq fp)) its its' ->
  (forall it, In it its -> snd it = to_hashable fp (snd (fst it))) ->
  (forall it, In it its' -> snd it = to_hashable fp (snd (fst it))) ->
  Forall2 item_out its out -> Forall2 item_out its' out' ->
  rel_list false out out' = true.
Proof.
  intros fp its its' out out' HR. revert out out'.
  induction HR as [|it it' its its' (Hc & Hc' & Hk & Hv) HR IH]; intros out out' Hs Hs' HF HF'.
  - inversion HF; inversion HF'; subst. reflexivity.
  - inversion HF as [|? y ? outx (hv & Hhv & ->) HFx]; subst.
    inversion HF' as [|? y' ? outy (hv' & Hhv' & ->) HFy]; subst.
    cbn [rel_list]. unfold pair_t. rewrite rel_tuple. cbn [rel_list]. rewrite Hk. cbn [andb].
    rewrite (Hv hv hv').
    + cbn [andb]. apply IH; auto; intros; [apply Hs|apply Hs']; simpl; auto.
    + rewrite <- Hhv. symmetry. apply Hs. simpl. auto.
    + rewrite <- Hhv'. symmetry. apply Hs'. simpl. auto.
Qed.

Lemma items_snd : forall fp kvs (its : list item),
  Permutation (mk_items fp kvs) its -> forall it, In it its -> snd it = to_hashable fp (snd (fst it)).
Proof.
  intros fp kvs its Hp it Hit. apply (Permutation_in _ (Permutation_sym Hp)) in Hit.
  apply in_mk_items in Hit. destruct Hit as (kv & _ & ->). reflexivity.
Qed.

Lemma factory_rel_refl : forall f, rel false (factory_val f) (factory_val f) = true.
Proof. destruct f; simpl; unfold atom_eq; simpl; auto. apply str_eqb_refl. Qed.
Lemma maxlen_rel_refl : forall m, rel false (maxlen_val m) (maxlen_val m) = true.
Proof. destruct m; simpl; unfold atom_eq; simpl; auto. apply Z.eqb_refl. Qed.

Lemma wf_keys_hw : forall mk kvs, wf (PMap mk kvs) = true ->
  keys_hw kvs /\ nodup_by (rel false) (map fst kvs) = true.
Proof.
  intros mk kvs H. simpl in H. apply andb_true_iff in H. destruct H as [H _].
  apply andb_true_iff in H. destruct H as [H Hnd]. apply andb_true_iff in H. destruct H as [Hw Hh].
  split; auto. intros kv Hkv. rewrite forallb_forall in Hw, Hh. specialize (Hw kv Hkv). specialize (Hh kv Hkv).
  apply andb_true_iff in Hw. destruct Hw. split; auto.
Qed.
Lemma strip_keys_hw : forall kvs, keys_hw kvs -> keys_hw (strip kvs).
Proof. intros kvs H kv Hkv. apply H. apply strip_incl. exact Hkv. Qed.

(* sorted mappings (dict, defaultdict): the converted item tuples agree *)
Lemma map_canon : forall fp kvs kvs' d d',
  wf (PDict kvs) = true -> wf (PDict kvs') = true ->
  rel_dict true kvs kvs' = true ->
  (forall kv kv', In kv kvs -> In kv' kvs' -> rel true (snd kv) (snd kv') = true -> keq fp (snd kv) (snd kv')) ->
  hashable_mapping true (mk_items fp kvs) = Ok d -> hashable_mapping true (mk_items fp kvs') = Ok d' ->
  rel false d d' = true.
Proof.
  intros fp kvs kvs' d d' Hwf Hwf' Hrel HIH Hd Hd'.
  unfold rel_dict in Hrel. apply andb_true_iff in Hrel. destruct Hrel as [Hlen Hall]. apply Nat.eqb_eq in Hlen.
  destruct (wf_keys_hw _ _ Hwf) as [Hk Hnd]. destruct (wf_keys_hw _ _ Hwf') as [Hk' Hnd'].
  assert (Hone : forall kv, In kv kvs -> exists kv', In kv' kvs' /\ rel true (fst kv) (fst kv') = true
                                                  /\ keq fp (snd kv) (snd kv')).
  { intros kv Hkv. rewrite forallb_forall in Hall. specialize (Hall kv Hkv). apply existsb_exists in Hall.
    destruct Hall as (kv' & Hkv' & Hr). apply andb_true_iff in Hr. destruct Hr as [Hrk Hrv].
    exists kv'. split; auto. }
  apply mapping_out in Hd. destruct Hd as (its & out & Hs & -> & HF).
  apply mapping_out in Hd'. destruct Hd' as (its' & out' & Hs' & -> & HF').
  change (py_sort item_lt (mk_items fp kvs) = Ok its) in Hs.
  change (py_sort item_lt (mk_items fp kvs') = Ok its') in Hs'.
  assert (HR : Forall2 (itemR (keq fp)) its its')
    by (exact (items_canon fp (keq fp) kvs kvs' its its' Hk Hk' Hnd Hlen Hone Hs Hs')).
  rewrite rel_tuple. eapply mapping_rel; eauto.
  - apply items_snd with (kvs := kvs). eapply py_sort_perm; eauto.
  - apply items_snd with (kvs := kvs'). eapply py_sort_perm; eauto.
Qed.

Lemma odict_rel : forall fp kvs kvs' out out',
  Forall2 (fun kv kv' => rel true (fst kv) (fst kv') = true /\ rel true (snd kv) (snd kv') = true) kvs kvs' ->
  (forall kv, In kv kvs -> wf (fst kv) = true /\ py_hashable (fst kv) = true) ->
  (forall kv, In kv kvs' -> wf (fst kv) = true /\ py_hashable (fst kv) = true) ->
  (forall kv kv', In kv kvs -> In kv' kvs' -> rel true (snd kv) (snd kv') = true -> keq fp (snd kv) (snd kv')) ->
  Forall2 item_out (mk_items fp kvs) out -> Forall2 item_out (mk_items fp kvs') out' ->
  rel_list false out out' = true.
Proof.
  intros fp kvs kvs' out out' HR. revert out out'.
  induction HR as [|kv kv' kvs kvs' [Hk Hv] HR IH]; intros out out' Hw Hw' HIH HF HF'; simpl in HF, HF'.
  - inversion HF; inversion HF'; subst. reflexivity.
  - inversion HF as [|? y ? outx (hv & Hhv & ->) HFx]; subst.
    inversion HF' as [|? y' ? outy (hv' & Hhv' & ->) HFy]; subst.
    simpl in Hhv, Hhv'.
    cbn [rel_list fst snd]. unfold pair_t. rewrite rel_tuple. cbn [rel_list].
    destruct (Hw kv) as [Hwk Hhk]; [simpl; auto|]. destruct (Hw' kv') as [Hwk' Hhk']; [simpl; auto|].
    rewrite (hashable_rel_same (fst kv) Hwk Hhk (fst kv') Hwk' Hhk'), Hk. cbn [andb].
    rewrite (HIH kv kv') by (simpl; auto). cbn [andb].
    apply IH; auto; intros; [apply Hw|apply Hw'|eapply HIH]; simpl; eauto.
Qed.

Lemma counter_rel : forall (its its' : list item),
  Forall2 (itemR (fun v v' => rel true v v' = true)) its its' ->
  (forall it, In it its -> atomic (snd (fst it)) = true) ->
  rel_list false (map (fun it : item => pair_t (fst (fst it)) (snd (fst it))) its)
                 (map (fun it : item => pair_t (fst (fst it)) (snd (fst it))) its') = true.
Proof.
  intros its its' HR. induction HR as [|it it' its its' (Hc & Hc' & Hk & Hv) HR IH]; intros Ha; simpl; auto.
  rewrite Hk. simpl. rewrite (atomic_rel (snd (fst it))) by (apply Ha; simpl; auto). rewrite Hv. simpl.
  apply IH. intros; apply Ha; simpl; auto.
Qed.

Ltac case_iter H d Hd :=
  match type of H with
  | context [hashable_iterable ?b ?e] => destruct (hashable_iterable b e) as [d|?] eqn:Hd; [|discriminate]
  end.

Section EqImplies.
  (* the two pandas leaves are proved further down (series_eq, frame_eq) and plugged in by eq_implies_key_eq *)
  Variable fp : bool.
  Hypothesis series_eq : forall n d i x w, wf (PSeries n d i x) = true -> wf w = true ->
    rel true (PSeries n d i x) w = true -> keq fp (PSeries n d i x) w.
  Hypothesis frame_eq : forall c i w, wf (PFrame c i) = true -> wf w = true ->
    rel true (PFrame c i) w = true -> keq fp (PFrame c i) w.

Theorem eq_implies_key_eq_g : forall v w,
  g v = true -> g w = true -> rel true v w = true -> keq fp v w.
Proof.
  intros v. induction v as [a|sk l IH|sk l IH|mk kvs IH|n d i x|c i] using pyval_ind2;
    intros w Hg Hg' Hrel k k' Hk Hk'.
  - (* scalars *)
    destruct w as [b| | | | |]; try discriminate. rewrite rel_atom_l in Hrel.
    rewrite th_atom_eq in Hk, Hk'. unfold th_atom in Hk, Hk'.
    rewrite <- (atom_eq_hashable a b Hrel) in Hk'.
    destruct (atom_hashable a) eqn:Ha.
    + inversion Hk; inversion Hk'; subst. rewrite rel_atom_l. exact Hrel.
    + destruct a; try discriminate; destruct b; try (unfold atom_eq in Hrel; simpl in Hrel; discriminate).
      destruct fp; try discriminate. destruct picklable; try discriminate. destruct picklable0; try discriminate.
      inversion Hk; inversion Hk'; subst. rewrite conv_rel. rewrite rel_atom_l.
      unfold atom_eq in *. simpl in *. apply andb_true_iff in Hrel. destruct Hrel as [E1 E2].
      rewrite E1, E2. reflexivity.
  - (* ordered containers *)
    destruct w as [|sk' l'| | | |]; try discriminate.
    assert (Hhh := rel_true_hashable _ _ Hrel).
    rewrite rel_seq_unfold in Hrel. apply andb_true_iff in Hrel. destruct Hrel as [Hsk Hl].
    apply seqkind_eqb_eq in Hsk. subst sk'.
    assert (Hwf : wf (PSeq sk l) = true) by exact Hg.
    assert (Hwf' : wf (PSeq sk l') = true) by exact Hg'.
    destruct (py_hashable (PSeq sk l)) eqn:Hh.
    { rewrite th_hashable in Hk by exact Hh. rewrite th_hashable in Hk' by (rewrite <- Hhh; reflexivity).
      inversion Hk; inversion Hk'; subst.
      rewrite (hashable_rel_same _ Hwf Hh _ Hwf') by (rewrite <- Hhh; reflexivity).
      rewrite rel_seq_unfold. rewrite Hl. destruct sk; try discriminate. reflexivity. }
    rewrite th_seq in Hk by exact Hh. rewrite th_seq in Hk' by (rewrite <- Hhh; reflexivity).
    assert (Hconv : (forall d sh, sk <> KNd true d sh) -> forall d d',
              hashable_iterable false (map (fun x => (x, to_hashable fp x)) l) = Ok d ->
              hashable_iterable false (map (fun x => (x, to_hashable fp x)) l') = Ok d' -> rel false d d' = true).
    { intros Hsk d d' Hd Hd'.
      exact (conv_elems_rel fp l l' d d' (proj1 (rel_list_forall2 true l l') Hl) IH
               (g_seq_children _ _ Hg Hsk) (g_seq_children _ _ Hg' Hsk) Hd Hd'). }
    unfold seq_body in Hk, Hk'. simpl in Hwf, Hwf'.
    apply andb_true_iff in Hwf. destruct Hwf as [_ Hwf]. apply andb_true_iff in Hwf'. destruct Hwf' as [_ Hwf'].
    destruct sk.
    + case_iter Hk d Hd.
      case_iter Hk' d' Hd'.
      cbn [bind] in Hk, Hk'. inversion Hk; inversion Hk'; subst. rewrite conv_rel, str_eqb_refl.
      apply Hconv; auto. discriminate.
    + case_iter Hk d Hd.
      case_iter Hk' d' Hd'.
      cbn [bind] in Hk, Hk'. inversion Hk; inversion Hk'; subst. rewrite conv_rel, str_eqb_refl.
      apply Hconv; auto. discriminate.
    + case_iter Hk d Hd.
      case_iter Hk' d' Hd'.
      cbn [bind] in Hk, Hk'. inversion Hk; inversion Hk'; subst. rewrite conv_rel, str_eqb_refl.
      rewrite rel_tuple. cbn [rel_list]. rewrite maxlen_rel_refl, (Hconv ltac:(discriminate) d d'); auto.
    + inversion Hk; inversion Hk'; subst. rewrite conv_rel, str_eqb_refl. rewrite rel_tuple.
      apply rel_list_atomic; auto. apply forallb_forall. intros x Hx. rewrite forallb_forall in Hwf.
      apply scalar_atomic. rewrite (Hwf x Hx). rewrite ?orb_true_r. reflexivity.
    + inversion Hk; inversion Hk'; subst. rewrite conv_rel, str_eqb_refl. rewrite rel_tuple. cbn [rel_list].
      rewrite rel_atom_l. unfold atom_eq. cbn [numval]. rewrite str_eqb_refl. rewrite rel_tuple.
      rewrite rel_list_atomic; auto. apply forallb_forall. intros x Hx. rewrite forallb_forall in Hwf.
      specialize (Hwf x Hx). apply scalar_atomic. unfold array_code_ok in Hwf.
      destruct (mem_str code _); [rewrite Hwf; reflexivity|].
      destruct (mem_str code _); [rewrite Hwf; rewrite ?orb_true_r; reflexivity|discriminate].
    + apply andb_true_iff in Hwf. destruct Hwf as [Hwf Hel]. apply andb_true_iff in Hwf. destruct Hwf as [Hwf _].
      apply andb_true_iff in Hwf. destruct Hwf as [Hwf _].
      destruct (str_eqb dtype dt_obj) eqn:Hdt.
      * rewrite andb_true_r in Hwf. apply negb_true_iff in Hwf. subst masked.
        case_iter Hk d Hd.
        case_iter Hk' d' Hd'.
        cbn [bind app] in Hk, Hk'. inversion Hk; inversion Hk'; subst. rewrite conv_rel, str_eqb_refl.
        rewrite rel_tuple. cbn [rel_list]. rewrite rel_tuple, ints_rel_refl.
        rewrite rel_atom_l. unfold atom_eq. cbn [numval]. rewrite str_eqb_refl.
        rewrite (Hconv ltac:(discriminate) d d'); auto.
      * cbn [bind] in Hk, Hk'. inversion Hk; inversion Hk'; subst. rewrite conv_rel, str_eqb_refl.
        assert (Hat : forallb atomic l = true) by (eapply nd_elems_atomic; eauto).
        destruct (fill_rel l l' Hat Hl) as [Hf Hb].
        destruct masked; cbn [app]; rewrite rel_tuple; cbn [rel_list]; rewrite rel_tuple, ints_rel_refl;
          rewrite rel_atom_l; unfold atom_eq; cbn [numval]; rewrite str_eqb_refl; rewrite !rel_tuple.
        -- rewrite Hf, Hb. reflexivity.
        -- rewrite rel_list_atomic; auto.
  - (* sets *)
    destruct w as [| |sk' l'| | |]; try discriminate.
    assert (Hhh := rel_true_hashable _ _ Hrel).
    assert (Hwf : wf (PSetv sk l) = true) by exact Hg.
    assert (Hwf' : wf (PSetv sk' l') = true) by exact Hg'.
    destruct (py_hashable (PSetv sk l)) eqn:Hh.
    { rewrite th_hashable in Hk by exact Hh. rewrite th_hashable in Hk' by (rewrite <- Hhh; reflexivity).
      inversion Hk; inversion Hk'; subst.
      rewrite (hashable_rel_same _ Hwf Hh _ Hwf') by (rewrite <- Hhh; reflexivity). exact Hrel. }
    rewrite th_set in Hk by exact Hh. rewrite th_set in Hk' by (rewrite <- Hhh; reflexivity).
    rewrite rel_set_unfold in Hrel. apply andb_true_iff in Hrel. destruct Hrel as [Hrel Hall].
    apply andb_true_iff in Hrel. destruct Hrel as [Hsk Hlen]. simpl in Hsk. apply setkind_eqb_eq in Hsk. subst sk'.
    apply Nat.eqb_eq in Hlen.
    destruct sk; [|simpl in Hh; discriminate].
    unfold set_body in Hk, Hk'.
    case_iter Hk d Hd.
    case_iter Hk' d' Hd'.
    cbn [bind] in Hk, Hk'. inversion Hk; inversion Hk'; subst. rewrite conv_rel, str_eqb_refl. cbn [andb].
    simpl in Hwf, Hwf'.
    apply andb_true_iff in Hwf. destruct Hwf as [Hwf Hnd]. apply andb_true_iff in Hwf. destruct Hwf as [Hwl Hhl].
    apply andb_true_iff in Hwf'. destruct Hwf' as [Hwf' Hnd']. apply andb_true_iff in Hwf'. destruct Hwf' as [Hwl' Hhl'].
    eapply (set_canon fp l l'); eauto.
    intros a Ha. rewrite forallb_forall in Hall. specialize (Hall a Ha). apply existsb_exists in Hall. exact Hall.
  - (* mappings *)
    destruct w as [| | |mk' kvs'| |]; try discriminate.
    rewrite rel_map_unfold in Hrel. apply andb_true_iff in Hrel. destruct Hrel as [Hmk Hrel]. simpl in Hmk.
    apply mapkind_eqb_eq in Hmk. subst mk'.
    rewrite th_map in Hk, Hk'.
    assert (Hgv := g_map_values _ _ Hg). assert (Hgv' := g_map_values _ _ Hg').
    rewrite Forall_forall in IH, Hgv, Hgv'.
    assert (HIH : forall kv kv', In kv kvs -> In kv' kvs' -> rel true (snd kv) (snd kv') = true ->
                                 keq fp (snd kv) (snd kv')).
    { intros kv kv' Hkv Hkv' Hr. destruct (IH kv Hkv) as [_ IHv]. apply IHv; auto. }
    assert (Hwf : wf (PMap mk kvs) = true) by exact Hg.
    assert (Hwf' : wf (PMap mk kvs') = true) by exact Hg'.
    assert (HwD : wf (PDict kvs) = true).
    { simpl in Hwf |- *. apply andb_true_iff in Hwf. destruct Hwf as [Hwf _]. rewrite Hwf. reflexivity. }
    assert (HwD' : wf (PDict kvs') = true).
    { simpl in Hwf' |- *. apply andb_true_iff in Hwf'. destruct Hwf' as [Hwf' _]. rewrite Hwf'. reflexivity. }
    unfold map_body in Hk, Hk'. destruct mk.
    + destruct (hashable_mapping true (mk_items fp kvs)) as [d|e] eqn:Hd; [|discriminate].
      destruct (hashable_mapping true (mk_items fp kvs')) as [d'|e] eqn:Hd'; [|discriminate].
      cbn [bind] in Hk, Hk'. inversion Hk; inversion Hk'; subst. rewrite conv_rel, str_eqb_refl. cbn [andb].
      eapply (map_canon fp kvs kvs'); eauto.
    + destruct (hashable_mapping false (mk_items fp kvs)) as [d|e] eqn:Hd; [|discriminate].
      destruct (hashable_mapping false (mk_items fp kvs')) as [d'|e] eqn:Hd'; [|discriminate].
      cbn [bind] in Hk, Hk'. inversion Hk; inversion Hk'; subst. rewrite conv_rel, str_eqb_refl. cbn [andb].
      apply mapping_out in Hd. destruct Hd as (its & out & Hs & -> & HF).
      apply mapping_out in Hd'. destruct Hd' as (its' & out' & Hs' & -> & HF').
      inversion Hs; inversion Hs'; subst its its'. rewrite rel_tuple.
      simpl in HwD, HwD'. bsplit.
      eapply (odict_rel fp kvs kvs'); eauto.
      * apply rel_items_forall2. exact Hrel.
      * intros kv Hkv.
        repeat match goal with H : forallb _ kvs = true |- _ => rewrite forallb_forall in H; specialize (H kv Hkv) end.
        bsplit. auto.
      * intros kv Hkv.
        repeat match goal with H : forallb _ kvs' = true |- _ => rewrite forallb_forall in H; specialize (H kv Hkv) end.
        bsplit. auto.
    + destruct (hashable_mapping true (mk_items fp kvs)) as [d|e] eqn:Hd; [|discriminate].
      destruct (hashable_mapping true (mk_items fp kvs')) as [d'|e] eqn:Hd'; [|discriminate].
      cbn [bind] in Hk, Hk'. inversion Hk; inversion Hk'; subst. rewrite conv_rel, str_eqb_refl. cbn [andb].
      rewrite rel_tuple. cbn [rel_list]. rewrite factory_rel_refl. cbn [andb]. rewrite andb_true_r.
      eapply (map_canon fp kvs kvs'); eauto.
    + destruct (py_sort item_lt (mk_items fp (strip kvs))) as [its|e] eqn:Hs; [|discriminate].
      destruct (py_sort item_lt (mk_items fp (strip kvs'))) as [its'|e] eqn:Hs'; [|discriminate].
      cbn [bind] in Hk, Hk'. inversion Hk; inversion Hk'; subst. rewrite conv_rel, str_eqb_refl. cbn [andb].
      rewrite rel_tuple.
      rewrite rel_counter_strip in Hrel. unfold rel_dict in Hrel.
      apply andb_true_iff in Hrel. destruct Hrel as [Hlen Hall]. apply Nat.eqb_eq in Hlen.
      rewrite forallb_forall in Hall.
      assert (Hone : forall kv, In kv (strip kvs) -> exists kv', In kv' (strip kvs') /\ rel true (fst kv) (fst kv') = true
                                                      /\ rel true (snd kv) (snd kv') = true).
      { intros kv Hkv. specialize (Hall kv Hkv).
        apply existsb_exists in Hall. destruct Hall as (kv' & Hkv' & Hr). apply andb_true_iff in Hr. destruct Hr.
        eauto. }
      destruct (wf_keys_hw _ _ Hwf) as [Hkh Hnd]. destruct (wf_keys_hw _ _ Hwf') as [Hkh' Hnd'].
      simpl in Hwf. apply andb_true_iff in Hwf. destruct Hwf as [_ Hci].
      assert (HR := items_canon fp (fun v v' => rel true v v' = true) (strip kvs) (strip kvs') its its'
                      (strip_keys_hw _ Hkh) (strip_keys_hw _ Hkh') (strip_nodup _ Hnd) Hlen Hone Hs Hs').
      eapply counter_rel; eauto.
      intros it Hit. apply py_sort_perm in Hs. apply (Permutation_in _ (Permutation_sym Hs)) in Hit.
      apply mk_items_strip_incl in Hit.
      apply in_mk_items in Hit. destruct Hit as (kv & Hkv & ->). simpl.
      rewrite forallb_forall in Hci. apply scalar_atomic. rewrite (Hci kv Hkv). reflexivity.
  - exact (series_eq n d i x w Hg Hg' Hrel k k' Hk Hk').
  - exact (frame_eq c i w Hg Hg' Hrel k k' Hk Hk').
Qed.
End EqImplies.

(* ================= totality ================= *)
Lemma mapM_exists {A B} (f : A -> result B) : forall l,
  (forall x, In x l -> exists y, f x = Ok y) -> exists out, mapM f l = Ok out.
Proof.
  induction l as [|x t IH]; intros H; simpl; eauto.
  destruct (H x) as [y Hy]; [simpl; auto|]. rewrite Hy. cbn [bind].
  destruct IH as [ys Hys]; [intros; apply H; simpl; auto|]. rewrite Hys. cbn [bind]. eauto.
Qed.

Lemma conv_fa_seq : forall p sk l, forall_atoms p (PSeq sk l) = forallb (forall_atoms p) l.
Proof. reflexivity. Qed.

Definition g0 (v : pyval) : bool := wf v.

Lemma g0_seq_children : forall sk l, g0 (PSeq sk l) = true -> (forall d sh, sk <> KNd true d sh) ->
  Forall (fun x => g0 x = true) l.
Proof.
  intros sk l H Hsk. apply Forall_forall. intros x Hx. assert (Hw := wf_seq_children sk l H Hsk).
  rewrite forallb_forall in Hw. apply Hw. exact Hx.
Qed.

Lemma g0_map_values : forall mk kvs, g0 (PMap mk kvs) = true -> Forall (fun kv => g0 (snd kv) = true) kvs.
Proof.
  intros mk kvs H. unfold g0 in H. simpl in H. apply andb_true_iff in H. destruct H as [H _].
  apply andb_true_iff in H. destruct H as [H _]. apply andb_true_iff in H. destruct H as [H _].
  apply Forall_forall. intros kv Hkv. rewrite forallb_forall in H. specialize (H kv Hkv).
  apply andb_true_iff in H. destruct H. assumption.
Qed.

Section Total.
  Variable fp : bool.
  Hypothesis series_tot : forall n d i x, wf (PSeries n d i x) = true -> exists k, to_hashable fp (PSeries n d i x) = Ok k.
  Hypothesis frame_tot : forall c i, wf (PFrame c i) = true -> exists k, to_hashable fp (PFrame c i) = Ok k.

Theorem total_g : forall v, g0 v = true -> convertible fp v = true -> exists k, to_hashable fp v = Ok k.
Proof.
  intros v. induction v as [a|sk l IH|sk l IH|mk kvs IH|n d i x|c i] using pyval_ind2; intros Hg Hc.
  - rewrite th_atom_eq. unfold th_atom. destruct (atom_hashable a) eqn:Ha; eauto.
    destruct a; try discriminate.
    unfold convertible in Hc. simpl in Hc. apply andb_true_iff in Hc. destruct Hc as [-> ->]. eauto.
  - destruct (py_hashable (PSeq sk l)) eqn:Hh; [rewrite th_hashable by exact Hh; eauto|].
    rewrite th_seq by exact Hh.
    assert (Hconv : (forall d sh, sk <> KNd true d sh) ->
              exists d, hashable_iterable false (map (fun x => (x, to_hashable fp x)) l) = Ok d).
    { intros Hsk. unfold hashable_iterable, elem. cbn [bind]. rewrite (mapM_snd_map (to_hashable fp) l).
      destruct (mapM_exists (to_hashable fp) l) as [out Hout].
      - intros x Hx. assert (Hgl := g0_seq_children _ _ Hg Hsk). rewrite Forall_forall in IH, Hgl.
        apply IH; auto. unfold convertible in Hc |- *. rewrite conv_fa_seq in Hc. rewrite forallb_forall in Hc. auto.
      - rewrite Hout. cbn [bind]. eauto. }
    unfold seq_body. destruct sk; eauto.
    + destruct Hconv as [d Hd]; [discriminate|]. rewrite Hd. cbn [bind]. eauto.
    + destruct Hconv as [d Hd]; [discriminate|]. rewrite Hd. cbn [bind]. eauto.
    + destruct Hconv as [d Hd]; [discriminate|]. rewrite Hd. cbn [bind]. eauto.
    + destruct (str_eqb dtype dt_obj) eqn:Hdt; [|cbn [bind]; eauto].
      destruct Hconv as [d Hd].
      { intros d0 sh0 E. inversion E; subst. unfold g0 in Hg. simpl in Hg. rewrite Hdt in Hg. simpl in Hg.
        rewrite ?andb_false_r in Hg. simpl in Hg. discriminate. }
      rewrite Hd. cbn [bind]. eauto.
  - destruct (py_hashable (PSetv sk l)) eqn:Hh; [rewrite th_hashable by exact Hh; eauto|].
    rewrite th_set by exact Hh. destruct sk; [|simpl in Hh; discriminate].
    unfold set_body, hashable_iterable.
    assert (Hwf : wf (PSet l) = true) by exact Hg.
    simpl in Hwf. apply andb_true_iff in Hwf. destruct Hwf as [Hwf Hnd]. apply andb_true_iff in Hwf. destruct Hwf as [Hwl Hhl].
    set (elems := map (fun x => (x, to_hashable fp x)) l).
    destruct (sort_elems elems) as (es & Hs & Hp & _).
    { unfold elems. rewrite map_map. simpl. apply nodup_ckeys; auto.
      intros x Hx. rewrite forallb_forall in Hwl, Hhl. split; auto. }
    rewrite Hs. cbn [bind].
    destruct (mapM_exists (fun e : elem => snd e) es) as [out Hout].
    { intros e He. apply (Permutation_in _ (Permutation_sym Hp)) in He. apply in_map_iff in He.
      destruct He as (x & <- & Hx). simpl. rewrite forallb_forall in Hhl. rewrite th_hashable by auto. eauto. }
    rewrite Hout. cbn [bind]. eauto.
  - rewrite th_map.
    assert (Hgv := g0_map_values _ _ Hg). rewrite Forall_forall in IH, Hgv.
    assert (Hvals : forall kv, In kv kvs -> exists hv, to_hashable fp (snd kv) = Ok hv).
    { intros kv Hkv. destruct (IH kv Hkv) as [_ IHv]. apply IHv; auto.
      unfold convertible in Hc |- *. simpl in Hc. rewrite forallb_forall in Hc. specialize (Hc kv Hkv).
      apply andb_true_iff in Hc. destruct Hc. assumption. }
    assert (Hwf : wf (PMap mk kvs) = true) by exact Hg.
    assert (Hnd : nodup_by (rel false) (map fst kvs) = true).
    { simpl in Hwf. apply andb_true_iff in Hwf. destruct Hwf as [Hwf _]. apply andb_true_iff in Hwf.
      destruct Hwf as [_ Hnd]. exact Hnd. }
    destruct (wf_keys_hw _ _ Hwf) as [Hkh _].
    assert (Hsort : forall kz, (forall kv, In kv kz -> In kv kvs) ->
              nodup_by (rel false) (map fst kz) = true ->
              exists its, py_sort item_lt (mk_items fp kz) = Ok its /\ Permutation (mk_items fp kz) its).
    { intros kz Hkz Hndz.
      destruct (sort_items (mk_items fp kz)) as (its & Hs & Hp & _).
      { unfold mk_items. rewrite map_map. simpl.
        replace (map (fun x : pyval * pyval => ikey (fst x, snd x, to_hashable fp (snd x))) kz)
          with (map ckey (map fst kz)) by (rewrite map_map; reflexivity).
        apply nodup_ckeys; auto. intros x Hx. apply in_map_iff in Hx. destruct Hx as (kv & <- & Hin). auto. }
      eauto. }
    assert (Hout : forall its, Permutation (mk_items fp kvs) its ->
              exists out, mapM (fun it : item => do hv <- snd it; Ok (pair_t (fst (fst it)) hv)) its = Ok out).
    { intros its Hp. apply mapM_exists. intros it Hit. apply (Permutation_in _ (Permutation_sym Hp)) in Hit.
      apply in_mk_items in Hit. destruct Hit as (kv & Hkv & ->). simpl.
      destruct (Hvals kv Hkv) as [hv Hhv]. rewrite Hhv. cbn [bind]. eauto. }
    unfold map_body, hashable_mapping. destruct mk.
    + destruct (Hsort kvs (fun _ H => H) Hnd) as (its & Hs & Hp). rewrite Hs. cbn [bind].
      destruct (Hout its Hp) as [out Ho]. rewrite Ho. cbn [bind]. eauto.
    + cbn [bind]. destruct (Hout _ (Permutation_refl _)) as [out Ho]. rewrite Ho. cbn [bind]. eauto.
    + destruct (Hsort kvs (fun _ H => H) Hnd) as (its & Hs & Hp). rewrite Hs. cbn [bind].
      destruct (Hout its Hp) as [out Ho]. rewrite Ho. cbn [bind]. eauto.
    + destruct (Hsort (strip kvs) (strip_incl kvs) (strip_nodup _ Hnd)) as (its & Hs & Hp).
      rewrite Hs. cbn [bind]. eauto.
  - apply series_tot. exact Hg.
  - apply frame_tot. exact Hg.
Qed.
End Total.


(* ================= refutations of the unguarded statements (witnesses replayed on the real code) ================= *)
(* pd.Series([1, 2], index=['a', 'b']) vs pd.Series([2, 1], index=['b', 'a']): different values, EQUAL keys *)
Definition w_series1 : pyval := PSeries ANone (s "<i8") [AStr (s "a"); AStr (s "b")] [AInt 1; AInt 2].
Definition w_series2 : pyval := PSeries ANone (s "<i8") [AStr (s "b"); AStr (s "a")] [AInt 2; AInt 1].
Lemma key_eq_implies_eq_refuted_series :
  exists v w k k', supported v = true /\ supported w = true /\ py_same v w = false
                   /\ to_hashable true v = Ok k /\ to_hashable true w = Ok k' /\ py_eq k k' = true.
Proof. exists w_series1, w_series2. do 2 eexists. repeat split; vm_compute; reflexivity. Qed.

(* pd.DataFrame({'A': [1, 2]}, index=[0, 1]) vs index=[5, 6] *)
Definition w_frame1 : pyval := PFrame [(AStr (s "A"), (s "<i8", [AInt 1; AInt 2]))] [AInt 0; AInt 1].
Definition w_frame2 : pyval := PFrame [(AStr (s "A"), (s "<i8", [AInt 1; AInt 2]))] [AInt 5; AInt 6].
Lemma key_eq_implies_eq_refuted_frame :
  exists v w k k', supported v = true /\ supported w = true /\ py_same v w = false
                   /\ to_hashable true v = Ok k /\ to_hashable true w = Ok k' /\ py_eq k k' = true.
Proof. exists w_frame1, w_frame2. do 2 eexists. repeat split; vm_compute; reflexivity. Qed.

(* ================= injectivity: equal keys only for equal values of the same type ================= *)
Definition tname (v : pyval) : str :=
  match v with
  | PA (AOpaque c _ _) => c
  | PA _ => []
  | PSeq sk _ => tp_seq sk
  | PSetv sk _ => tp_set sk
  | PMap mk _ => tp_map mk
  | PSeries _ _ _ _ => s "Series"
  | PFrame _ _ => s "DataFrame"
  end.

(* what the third component of the key of an unhashable value is *)
Definition payload_of (fp : bool) (v p : pyval) : Prop :=
  match v with
  | PA (AOpaque c i _) => p = PA (ADigest c i)
  | PA _ => False
  | PSeq sk l =>
      let ce := hashable_iterable false (map (fun x => (x, to_hashable fp x)) l) in
      match sk with
      | KTuple | KList => ce = Ok p
      | KDeque ml => exists d, ce = Ok d /\ p = PTuple [maxlen_val ml; d]
      | KBytearray => p = PTuple l
      | KArray c => p = PTuple [PStr c; PTuple l]
      | KNd msk d sh =>
          exists items, (if str_eqb d dt_obj then ce else Ok (PTuple (if msk then map mfill l else l))) = Ok items
                        /\ p = PTuple ([PTuple (map (fun z => PInt z) sh); PStr d; items]
                                       ++ (if msk then [PTuple (map mbit l)] else []))
      end
  | PSetv sk l => hashable_iterable true (map (fun x => (x, to_hashable fp x)) l) = Ok p
  | PMap mk kvs =>
      match mk with
      | KDict => hashable_mapping true (mk_items fp kvs) = Ok p
      | KODict => hashable_mapping false (mk_items fp kvs) = Ok p
      | KDefault f => exists d, hashable_mapping true (mk_items fp kvs) = Ok d /\ p = PTuple [factory_val f; d]
      | KCounter => exists its, py_sort item_lt (mk_items fp (strip kvs)) = Ok its
                                /\ p = PTuple (map (fun it : item => pair_t (fst (fst it)) (snd (fst it))) its)
      end
  | _ => True
  end.

Lemma th_unhashable : forall fp v k, no_pandas v = true -> py_hashable v = false -> to_hashable fp v = Ok k ->
  exists p, k = conv (tname v) p /\ payload_of fp v p.
Proof.
  intros fp v k Hnp Hh Hk. destruct v as [a|sk l|sk l|mk kvs| |].
  - rewrite th_atom_eq in Hk. unfold th_atom in Hk. simpl in Hh. rewrite Hh in Hk.
    destruct a; try discriminate. destruct fp, picklable; try discriminate. inversion Hk; subst. simpl. eauto.
  - rewrite th_seq in Hk by exact Hh. unfold seq_body in Hk. simpl. destruct sk.
    + case_iter Hk d Hd. cbn [bind] in Hk. inversion Hk; subst. eauto.
    + case_iter Hk d Hd. cbn [bind] in Hk. inversion Hk; subst. eauto.
    + case_iter Hk d Hd. cbn [bind] in Hk. inversion Hk; subst. eauto.
    + inversion Hk; subst. eauto.
    + inversion Hk; subst. eauto.
    + match type of Hk with context [bind ?e _] => destruct e as [items|?] eqn:Hi; [|discriminate] end.
      cbn [bind] in Hk. inversion Hk; subst. eauto.
  - rewrite th_set in Hk by exact Hh. unfold set_body in Hk. case_iter Hk d Hd. cbn [bind] in Hk.
    inversion Hk; subst. simpl. eauto.
  - rewrite th_map in Hk. unfold map_body in Hk. simpl. destruct mk.
    + destruct (hashable_mapping true _) as [d|?] eqn:Hd; [|discriminate]. cbn [bind] in Hk. inversion Hk; subst. eauto.
    + destruct (hashable_mapping false _) as [d|?] eqn:Hd; [|discriminate]. cbn [bind] in Hk. inversion Hk; subst. eauto.
    + destruct (hashable_mapping true _) as [d|?] eqn:Hd; [|discriminate]. cbn [bind] in Hk. inversion Hk; subst. eauto.
    + destruct (py_sort item_lt _) as [its|?] eqn:Hd; [|discriminate]. cbn [bind] in Hk. inversion Hk; subst. eauto.
  - unfold no_pandas in Hnp. simpl in Hnp. discriminate.
  - unfold no_pandas in Hnp. simpl in Hnp. discriminate.
Qed.

(* a supported hashable value never equals a converted key, in either direction *)
Lemma marker_not_plain : plain_atom (AStr marker) = false.
Proof. reflexivity. Qed.

Lemma hashable_vs_conv : forall v t p, no_forge v = true -> rel false v (conv t p) = false.
Proof.
  intros v t p Hnf. destruct (rel false v (conv t p)) eqn:E; auto. exfalso.
  destruct v as [a|sk l| | | |]; try discriminate. unfold conv in E. rewrite rel_seq_unfold in E.
  apply andb_true_iff in E. destruct E as [_ E]. destruct l as [|x l]; [discriminate|]. cbn [rel_list] in E.
  apply andb_true_iff in E. destruct E as [E _].
  unfold no_forge in Hnf. rewrite conv_fa_seq in Hnf. simpl in Hnf. apply andb_true_iff in Hnf. destruct Hnf as [Hx _].
  destruct x as [a| | | | |]; try discriminate. rewrite rel_atom_l in E. cbn [forall_atoms] in Hx.
  destruct a; unfold atom_eq in E; cbn [numval] in E; try discriminate.
  apply str_eqb_eq in E. subst. rewrite marker_not_plain in Hx. discriminate.
Qed.

Lemma conv_vs_hashable : forall w t p, no_forge w = true -> rel false (conv t p) w = false.
Proof.
  intros w t p Hnf. destruct (rel false (conv t p) w) eqn:E; auto. exfalso.
  destruct w as [a|sk l| | | |]; try discriminate. unfold conv in E. rewrite rel_seq_unfold in E.
  apply andb_true_iff in E. destruct E as [_ E]. destruct l as [|x l]; [discriminate|]. cbn [rel_list] in E.
  apply andb_true_iff in E. destruct E as [E _].
  unfold no_forge in Hnf. rewrite conv_fa_seq in Hnf. simpl in Hnf. apply andb_true_iff in Hnf. destruct Hnf as [Hx _].
  rewrite rel_atom_l in E. destruct x as [a| | | | |]; try discriminate. cbn [forall_atoms] in Hx.
  destruct a; unfold atom_eq in E; cbn [numval] in E; try discriminate.
  apply str_eqb_eq in E. subst. rewrite marker_not_plain in Hx. discriminate.
Qed.

Definition sg (v : pyval) : bool := wf v && no_forge v && no_pandas v.
Definition kinj (fp : bool) (x y : pyval) : Prop :=
  forall k k', to_hashable fp x = Ok k -> to_hashable fp y = Ok k' -> rel false k k' = true -> rel true x y = true.

Lemma sg_parts : forall v, sg v = true -> wf v = true /\ no_forge v = true /\ no_pandas v = true.
Proof. intros v H. unfold sg in H. bsplit. auto. Qed.
Lemma sg_intro : forall v, wf v = true -> no_forge v = true -> no_pandas v = true -> sg v = true.
Proof. intros v H1 H2 H3. unfold sg. rewrite H1, H2, H3. reflexivity. Qed.

Lemma sg_seq_children : forall sk l, sg (PSeq sk l) = true -> (forall d sh, sk <> KNd true d sh) ->
  Forall (fun x => sg x = true) l.
Proof.
  intros sk l H Hsk. destruct (sg_parts _ H) as (Hwf & Hnf & Hnp).
  unfold no_forge in Hnf. rewrite conv_fa_seq in Hnf. unfold no_pandas in Hnp. rewrite fn_seq in Hnp.
  apply andb_true_iff in Hnp. destruct Hnp as [_ Hnp].
  assert (Hw : forallb wf l = true).
  { simpl in Hwf. apply andb_true_iff in Hwf. destruct Hwf as [Hwf _].
    destruct sk; auto. destruct masked; auto. exfalso. eapply Hsk; eauto. }
  apply Forall_forall. intros x Hx. rewrite forallb_forall in Hnf, Hnp, Hw. apply sg_intro; auto.
Qed.

Lemma sg_map_parts : forall mk kvs, sg (PMap mk kvs) = true ->
  forall kv, In kv kvs -> sg (snd kv) = true /\ wf (fst kv) = true /\ py_hashable (fst kv) = true.
Proof.
  intros mk kvs H kv Hkv. destruct (sg_parts _ H) as (Hwf & Hnf & Hnp).
  unfold no_forge in Hnf. simpl in Hnf. unfold no_pandas in Hnp. rewrite fn_map in Hnp.
  apply andb_true_iff in Hnp. destruct Hnp as [_ Hnp].
  simpl in Hwf. apply andb_true_iff in Hwf. destruct Hwf as [Hwf _]. apply andb_true_iff in Hwf. destruct Hwf as [Hwf _].
  apply andb_true_iff in Hwf. destruct Hwf as [Hw Hh].
  rewrite forallb_forall in Hnf, Hnp, Hw, Hh.
  specialize (Hnf kv Hkv). specialize (Hnp kv Hkv). specialize (Hw kv Hkv). specialize (Hh kv Hkv). bsplit.
  split; [apply sg_intro; auto|]. auto.
Qed.

Lemma Forall2_in_l {A B} (R : A -> B -> Prop) : forall l l', Forall2 R l l' ->
  forall a, In a l -> exists b, In b l' /\ R a b.
Proof.
  induction 1 as [|x y l l' Hxy H IH]; intros a Ha; [destruct Ha|].
  destruct Ha as [Ha|Ha]; [subst; exists y; simpl; auto|]. destruct (IH a Ha) as (b & Hb & Hab). exists b. simpl. auto.
Qed.
Lemma Forall2_in_r {A B} (R : A -> B -> Prop) : forall l l', Forall2 R l l' ->
  forall b, In b l' -> exists a, In a l /\ R a b.
Proof.
  induction 1 as [|x y l l' Hxy H IH]; intros b Hb; [destruct Hb|].
  destruct Hb as [Hb|Hb]; [subst; exists x; simpl; auto|]. destruct (IH b Hb) as (a & Ha & Hab). exists a. simpl. auto.
Qed.

Lemma seqkind_eqb_refl : forall k, seqkind_eqb k k = true.
Proof.
  destruct k; simpl; auto.
  - destruct maxlen; simpl; auto. apply Z.eqb_refl.
  - apply str_eqb_refl.
  - rewrite eqb_reflx, str_eqb_refl. simpl. induction shape; simpl; auto. rewrite Z.eqb_refl. auto.
Qed.

Lemma payload_tuple : forall fp v p, (match v with PA _ => False | _ => True end) -> no_pandas v = true ->
  payload_of fp v p -> exists out, p = PTuple out.
Proof.
  intros fp v p Hv Hnp Hp. destruct v as [a|sk l|sk l|mk kvs| |]; try contradiction; simpl in Hp.
  - destruct sk.
    + apply iterable_unsorted in Hp. destruct Hp as (out & -> & _). eauto.
    + apply iterable_unsorted in Hp. destruct Hp as (out & -> & _). eauto.
    + destruct Hp as (d & _ & ->). eauto.
    + eauto.
    + eauto.
    + destruct Hp as (d & _ & ->). eauto.
  - apply iterable_sorted in Hp. destruct Hp as (es & out & _ & -> & _). eauto.
  - destruct mk.
    + apply mapping_out in Hp. destruct Hp as (its & out & _ & -> & _). eauto.
    + apply mapping_out in Hp. destruct Hp as (its & out & _ & -> & _). eauto.
    + destruct Hp as (d & _ & ->). eauto.
    + destruct Hp as (its & _ & ->). eauto.
  - unfold no_pandas in Hnp. simpl in Hnp. discriminate.
  - unfold no_pandas in Hnp. simpl in Hnp. discriminate.
Qed.

Lemma tname_seq_set : forall sk sk', str_eqb (tp_seq sk) (tp_set sk') = false.
Proof. destruct sk as [| | | | |[]], sk'; reflexivity. Qed.
Lemma tname_seq_map : forall sk mk, str_eqb (tp_seq sk) (tp_map mk) = false.
Proof. destruct sk as [| | | | |[]], mk; reflexivity. Qed.
Lemma tname_set_map : forall sk mk, str_eqb (tp_set sk) (tp_map mk) = false.
Proof. destruct sk, mk; reflexivity. Qed.

Lemma inj_hashable_l : forall fp v w, py_hashable v = true -> sg v = true -> sg w = true -> kinj fp v w.
Proof.
  intros fp v w Hh Hs Hs' k k' Hk Hk' Hrel.
  destruct (sg_parts _ Hs) as (Hwf & Hnf & Hnp). destruct (sg_parts _ Hs') as (Hwf' & Hnf' & Hnp').
  rewrite th_hashable in Hk by exact Hh. inversion Hk; subst k.
  destruct (py_hashable w) eqn:Hh'.
  - rewrite th_hashable in Hk' by exact Hh'. inversion Hk'; subst k'.
    rewrite <- (hashable_rel_same v Hwf Hh w Hwf' Hh'). exact Hrel.
  - destruct (th_unhashable fp w k' Hnp' Hh' Hk') as (p' & -> & _).
    rewrite hashable_vs_conv in Hrel by exact Hnf. discriminate.
Qed.

Lemma inj_unhashable_form : forall fp v w k k',
  py_hashable v = false -> sg v = true -> sg w = true ->
  to_hashable fp v = Ok k -> to_hashable fp w = Ok k' -> rel false k k' = true ->
  py_hashable w = false /\ exists p p', payload_of fp v p /\ payload_of fp w p'
                                        /\ str_eqb (tname v) (tname w) = true /\ rel false p p' = true.
Proof.
  intros fp v w k k' Hh Hs Hs' Hk Hk' Hrel.
  destruct (sg_parts _ Hs) as (Hwf & Hnf & Hnp). destruct (sg_parts _ Hs') as (Hwf' & Hnf' & Hnp').
  destruct (th_unhashable fp v k Hnp Hh Hk) as (p & -> & Hp).
  destruct (py_hashable w) eqn:Hh'.
  - rewrite th_hashable in Hk' by exact Hh'. inversion Hk'; subst k'.
    rewrite conv_vs_hashable in Hrel by exact Hnf'. discriminate.
  - destruct (th_unhashable fp w k' Hnp' Hh' Hk') as (p' & -> & Hp').
    rewrite conv_rel in Hrel. apply andb_true_iff in Hrel. destruct Hrel. split; auto. exists p, p'. auto.
Qed.

Lemma inj_list : forall fp l l' out out',
  Forall2 (fun x y => to_hashable fp x = Ok y) l out ->
  Forall2 (fun x y => to_hashable fp x = Ok y) l' out' ->
  rel_list false out out' = true ->
  Forall (fun x => sg x = true -> forall w, sg w = true -> kinj fp x w) l ->
  Forall (fun x => sg x = true) l -> Forall (fun x => sg x = true) l' ->
  rel_list true l l' = true.
Proof.
  intros fp l l' out out' HF. revert l' out'.
  induction HF as [|x kx l out Hx HF IH]; intros l' out' HF' Hrel HIH Hs Hs'.
  - destruct out'; [|discriminate]. inversion HF'; subst. reflexivity.
  - destruct out' as [|ky out']; [discriminate|]. inversion HF' as [|y ? l2 ? Hy HF2]; subst.
    cbn [rel_list] in Hrel. apply andb_true_iff in Hrel. destruct Hrel as [Hr1 Hr2].
    inversion HIH as [|? ? HIx HIt]; subst. inversion Hs; subst. inversion Hs'; subst.
    cbn [rel_list]. rewrite (HIx ltac:(assumption) y ltac:(assumption) kx ky Hx Hy Hr1). cbn [andb].
    eapply IH; eauto.
Qed.

Lemma rel_list_atomic_rev : forall l l', forallb atomic l = true -> rel_list false l l' = true -> rel_list true l l' = true.
Proof.
  induction l as [|x t IH]; intros l' Ha H; destruct l' as [|y t']; simpl in *; auto. bsplit.
  rewrite <- atomic_rel by auto. match goal with H : rel false x y = true |- _ => rewrite H end. simpl. apply IH; auto.
Qed.

Lemma Forall2_len {A B} (R : A -> B -> Prop) : forall l l', Forall2 R l l' -> length l = length l'.
Proof. induction 1; simpl; auto. Qed.

Definition itemT (it it' : item) : Prop :=
  rel true (fst (fst it)) (fst (fst it')) = true /\ rel true (snd (fst it)) (snd (fst it')) = true.

Lemma in_items_kv : forall fp kvs (its : list item) it,
  Permutation (mk_items fp kvs) its -> In it its -> In (fst it) kvs /\ snd it = to_hashable fp (snd (fst it)).
Proof.
  intros fp kvs its it Hp Hit. apply (Permutation_in _ (Permutation_sym Hp)) in Hit.
  apply in_mk_items in Hit. destruct Hit as (kv & Hkv & ->). simpl. destruct kv; auto.
Qed.
Lemma kv_in_items : forall fp kvs (its : list item) kv,
  Permutation (mk_items fp kvs) its -> In kv kvs -> In (fst kv, snd kv, to_hashable fp (snd kv)) its.
Proof.
  intros fp kvs its kv Hp Hkv. apply (Permutation_in _ Hp). unfold mk_items. apply in_map_iff. exists kv. auto.
Qed.

Lemma rel_dict_from_forall2 : forall fp kvs kvs' (its its' : list item),
  Permutation (mk_items fp kvs) its -> Permutation (mk_items fp kvs') its' ->
  Forall2 itemT its its' -> rel_dict true kvs kvs' = true.
Proof.
  intros fp kvs kvs' its its' Hp Hp' HR. unfold rel_dict. apply andb_true_iff. split.
  - apply Nat.eqb_eq. apply Permutation_length in Hp, Hp'. apply Forall2_len in HR.
    unfold mk_items in Hp, Hp'. rewrite map_length in Hp, Hp'. lia.
  - apply forallb_forall. intros kv Hkv. apply existsb_exists.
    destruct (Forall2_in_l _ _ _ HR _ (kv_in_items fp kvs its kv Hp Hkv)) as (it' & Hit' & [Hk Hv]).
    destruct (in_items_kv fp kvs' its' it' Hp' Hit') as [Hin _]. exists (fst it'). split; auto.
    simpl in Hk, Hv. rewrite Hk, Hv. reflexivity.
Qed.

Lemma rel_items_from_forall2 : forall fp kvs kvs',
  Forall2 itemT (mk_items fp kvs) (mk_items fp kvs') -> rel_items true kvs kvs' = true.
Proof.
  intros fp kvs. induction kvs as [|kv kvs IH]; intros kvs' H; destruct kvs' as [|kv' kvs']; simpl in H;
    try (inversion H; fail); auto.
  inversion H as [|? ? ? ? [Hk Hv] Ht]; subst. simpl in Hk, Hv. simpl. rewrite Hk, Hv. simpl. apply IH. exact Ht.
Qed.

(* converted items with equal keys come from items with equal keys and (by induction) equal values *)
Lemma inj_items : forall fp (its its' : list item) out out',
  Forall2 item_out its out -> Forall2 item_out its' out' -> rel_list false out out' = true ->
  (forall it, In it its -> wf (fst (fst it)) = true /\ py_hashable (fst (fst it)) = true
                           /\ snd it = to_hashable fp (snd (fst it))
                           /\ (forall w, sg w = true -> kinj fp (snd (fst it)) w)) ->
  (forall it, In it its' -> wf (fst (fst it)) = true /\ py_hashable (fst (fst it)) = true
                            /\ snd it = to_hashable fp (snd (fst it)) /\ sg (snd (fst it)) = true) ->
  Forall2 itemT its its'.
Proof.
  intros fp its its' out out' HF. revert its' out'.
  induction HF as [|it y its out (hv & Hhv & ->) HF IH]; intros its' out' HF' Hrel H H'.
  - destruct out'; [|discriminate]. inversion HF'; subst. constructor.
  - destruct out' as [|y' out']; [discriminate|]. inversion HF' as [|it' ? its2 ? (hv' & Hhv' & ->) HF2]; subst.
    cbn [rel_list] in Hrel. apply andb_true_iff in Hrel. destruct Hrel as [Hr Hrel].
    unfold pair_t in Hr. rewrite rel_tuple in Hr. cbn [rel_list] in Hr.
    apply andb_true_iff in Hr. destruct Hr as [Hrk Hrv]. rewrite andb_true_r in Hrv.
    destruct (H it) as (Hw & Hh & Hs & HI); [simpl; auto|].
    destruct (H' it') as (Hw' & Hh' & Hs' & Hsg'); [simpl; auto|].
    constructor.
    + split.
      * rewrite <- (hashable_rel_same _ Hw Hh _ Hw' Hh'). exact Hrk.
      * apply (HI _ Hsg' hv hv'); auto; congruence.
    + eapply IH; eauto; intros; [apply H|apply H']; simpl; auto.
Qed.

Lemma counter_items_inj : forall (its its' : list item),
  rel_list false (map (fun it : item => pair_t (fst (fst it)) (snd (fst it))) its)
                 (map (fun it : item => pair_t (fst (fst it)) (snd (fst it))) its') = true ->
  (forall it, In it its -> wf (fst (fst it)) = true /\ py_hashable (fst (fst it)) = true
                           /\ atomic (snd (fst it)) = true) ->
  (forall it, In it its' -> wf (fst (fst it)) = true /\ py_hashable (fst (fst it)) = true) ->
  Forall2 itemT its its'.
Proof.
  induction its as [|it its IH]; intros its' Hrel H H'; destruct its' as [|it' its']; cbn [map rel_list] in Hrel;
    try discriminate; [constructor|].
  apply andb_true_iff in Hrel. destruct Hrel as [Hr Hrel].
  unfold pair_t in Hr. rewrite rel_tuple in Hr. cbn [rel_list] in Hr.
  apply andb_true_iff in Hr. destruct Hr as [Hrk Hr]. apply andb_true_iff in Hr. destruct Hr as [Hrv _].
  destruct (H it) as (Hw & Hh & Ha); [simpl; auto|]. destruct (H' it') as (Hw' & Hh'); [simpl; auto|].
  constructor.
  - split.
    + rewrite <- (hashable_rel_same _ Hw Hh _ Hw' Hh'). exact Hrk.
    + rewrite <- (atomic_rel _ _ Ha). exact Hrv.
  - apply IH; auto; intros; [apply H|apply H']; simpl; auto.
Qed.

Lemma ints_rel_inj : forall sh sh',
  rel_list false (map (fun z => PInt z) sh) (map (fun z => PInt z) sh') = true -> list_eqb Z.eqb sh sh' = true.
Proof.
  induction sh as [|z sh IH]; intros sh' H; destruct sh' as [|z' sh']; simpl in H; try discriminate; auto.
  apply andb_true_iff in H. destruct H as [Hz H]. simpl.
  unfold atom_eq in Hz. cbn [numval] in Hz. apply Z.eqb_eq in Hz. assert (z = z') by lia. subst. rewrite Z.eqb_refl.
  simpl. auto.
Qed.
Lemma maxlen_inj : forall m m', rel false (maxlen_val m) (maxlen_val m') = true -> zopt_eqb m m' = true.
Proof.
  intros m m' H. destruct m, m'; simpl in H; unfold atom_eq in H; cbn [numval] in H; try discriminate; auto.
  simpl. apply Z.eqb_eq in H. apply Z.eqb_eq. lia.
Qed.
Lemma factory_inj : forall f f', rel false (factory_val f) (factory_val f') = true -> opt_eqb str_eqb f f' = true.
Proof. intros f f' H. destruct f, f'; simpl in H; unfold atom_eq in H; cbn [numval] in H; try discriminate; auto. Qed.

Lemma set_elems_facts : forall fp l d,
  forallb py_hashable l = true ->
  hashable_iterable true (map (fun x => (x, to_hashable fp x)) l) = Ok d ->
  exists es : list elem, Permutation (map (fun x => (x, to_hashable fp x)) l) es /\ d = PTuple (map fst es).
Proof.
  intros fp l d Hh Hd. apply iterable_sorted in Hd. destruct Hd as (es & out & Hs & -> & HF).
  apply py_sort_perm in Hs. exists es. split; auto. f_equal.
  rewrite forallb_forall in Hh. eapply elems_out; eauto.
Qed.

Theorem inj_g : forall fp v, sg v = true -> forall w, sg w = true -> kinj fp v w.
Proof.
  intros fp v. induction v as [a|sk l IH|sk l IH|mk kvs IH|n d i x|c i] using pyval_ind2;
    intros Hs w Hs' k k' Hk Hk' Hrel.
  - (* scalars *)
    destruct (py_hashable (PA a)) eqn:Hh; [eapply inj_hashable_l; eauto|].
    destruct (inj_unhashable_form fp _ w k k' Hh Hs Hs' Hk Hk' Hrel) as (Hh' & p & p' & Hp & Hp' & Hn & Hpp).
    destruct (sg_parts _ Hs') as (Hwf' & Hnf' & Hnp').
    destruct a; simpl in Hp; try contradiction. subst p.
    destruct w as [b| | | | |].
    + destruct b; simpl in Hp'; try contradiction. subst p'. rewrite rel_atom_l in *.
      unfold atom_eq in *. cbn [numval] in *. exact Hpp.
    + match type of Hp' with payload_of _ ?w0 _ => destruct (payload_tuple fp w0 p' I Hnp' Hp') as [out ->] end. discriminate.
    + match type of Hp' with payload_of _ ?w0 _ => destruct (payload_tuple fp w0 p' I Hnp' Hp') as [out ->] end. discriminate.
    + match type of Hp' with payload_of _ ?w0 _ => destruct (payload_tuple fp w0 p' I Hnp' Hp') as [out ->] end. discriminate.
    + unfold no_pandas in Hnp'. simpl in Hnp'. discriminate.
    + unfold no_pandas in Hnp'. simpl in Hnp'. discriminate.
  - (* ordered containers *)
    destruct (py_hashable (PSeq sk l)) eqn:Hh; [eapply inj_hashable_l; eauto|].
    destruct (inj_unhashable_form fp _ w k k' Hh Hs Hs' Hk Hk' Hrel) as (Hh' & p & p' & Hp & Hp' & Hn & Hpp).
    destruct (sg_parts _ Hs) as (Hwf & Hnf & Hnp). destruct (sg_parts _ Hs') as (Hwf' & Hnf' & Hnp').
    destruct w as [b|sk' l'|sk' l'|mk' kvs'| |].
    + match type of Hp with payload_of _ ?w0 _ => destruct (payload_tuple fp w0 p I Hnp Hp) as [out ->] end.
      destruct b; simpl in Hp'; try contradiction. subst p'. discriminate.
    + (* sequence vs sequence *)
      cbn [tname] in Hn.
      assert (Hlist : (forall d sh, sk <> KNd true d sh) -> (forall d sh, sk' <> KNd true d sh) -> forall d d',
                hashable_iterable false (map (fun x => (x, to_hashable fp x)) l) = Ok d ->
                hashable_iterable false (map (fun x => (x, to_hashable fp x)) l') = Ok d' ->
                rel false d d' = true -> rel_list true l l' = true).
      { intros Hsk Hsk' d d' Hd Hd' Hdd.
        apply iterable_unsorted in Hd. destruct Hd as (out & -> & HF).
        apply iterable_unsorted in Hd'. destruct Hd' as (out' & -> & HF').
        rewrite rel_tuple in Hdd.
        eapply inj_list; eauto using sg_seq_children. }
      cbn [payload_of] in Hp, Hp'. simpl in Hwf, Hwf'.
      apply andb_true_iff in Hwf. destruct Hwf as [_ Hwf]. apply andb_true_iff in Hwf'. destruct Hwf' as [_ Hwf'].
      destruct sk as [| |ml| |cd|m dt sh], sk' as [| |ml'| |cd'|m' dt' sh'];
        try (simpl in Hn; discriminate); try (destruct m; simpl in Hn; discriminate);
        try (destruct m'; simpl in Hn; discriminate).
      * rewrite rel_seq_unfold. simpl. eapply Hlist; eauto; discriminate.
      * rewrite rel_seq_unfold. simpl. eapply Hlist; eauto; discriminate.
      * destruct Hp as (d & Hd & ->). destruct Hp' as (d' & Hd' & ->).
        rewrite rel_tuple in Hpp. cbn [rel_list] in Hpp.
        apply andb_true_iff in Hpp. destruct Hpp as [Hm Hpp]. rewrite andb_true_r in Hpp.
        rewrite rel_seq_unfold. cbn [seqkind_eqb]. rewrite (maxlen_inj _ _ Hm). cbn [andb].
        eapply Hlist; eauto; discriminate.
      * subst p p'. rewrite rel_tuple in Hpp. rewrite rel_seq_unfold. simpl.
        apply rel_list_atomic_rev; auto. apply forallb_forall. intros x Hx. rewrite forallb_forall in Hwf.
        apply scalar_atomic. rewrite (Hwf x Hx). rewrite ?orb_true_r. reflexivity.
      * subst p p'. rewrite rel_tuple in Hpp. cbn [rel_list] in Hpp.
        apply andb_true_iff in Hpp. destruct Hpp as [Hc Hpp]. rewrite andb_true_r in Hpp.
        rewrite rel_atom_l in Hc. unfold atom_eq in Hc. cbn [numval] in Hc.
        rewrite rel_tuple in Hpp. rewrite rel_seq_unfold. cbn [seqkind_eqb]. rewrite Hc. cbn [andb].
        apply rel_list_atomic_rev; auto. apply forallb_forall. intros x Hx. rewrite forallb_forall in Hwf.
        specialize (Hwf x Hx). apply scalar_atomic. unfold array_code_ok in Hwf.
        destruct (mem_str cd _); [rewrite Hwf; reflexivity|].
        destruct (mem_str cd _); [rewrite Hwf; rewrite ?orb_true_r; reflexivity|discriminate].
      * destruct Hp as (items & Hi & ->). destruct Hp' as (items' & Hi' & ->).
        assert (Em : m = m') by (destruct m, m'; simpl in Hn; try discriminate; reflexivity). subst m'.
        rewrite rel_tuple in Hpp.
        apply andb_true_iff in Hwf. destruct Hwf as [Hwf Hel]. apply andb_true_iff in Hwf. destruct Hwf as [Hwf _].
        apply andb_true_iff in Hwf. destruct Hwf as [Hmo _].
        apply andb_true_iff in Hwf'. destruct Hwf' as [Hwf' Hel']. apply andb_true_iff in Hwf'. destruct Hwf' as [Hwf' _].
        apply andb_true_iff in Hwf'. destruct Hwf' as [Hmo' _].
        destruct m; cbn [app rel_list] in Hpp;
          apply andb_true_iff in Hpp; destruct Hpp as [Hsh Hpp]; apply andb_true_iff in Hpp; destruct Hpp as [Hdt Hpp];
          apply andb_true_iff in Hpp; destruct Hpp as [Hit Hpp];
          rewrite rel_tuple in Hsh; apply ints_rel_inj in Hsh;
          rewrite rel_atom_l in Hdt; unfold atom_eq in Hdt; cbn [numval] in Hdt;
          rewrite rel_seq_unfold; cbn [seqkind_eqb Bool.eqb]; rewrite Hdt, Hsh; cbn [andb];
          apply str_eqb_eq in Hdt; subst dt'.
        -- cbn [andb] in Hmo, Hmo'. apply negb_true_iff in Hmo. rewrite Hmo in Hi, Hi'.
           inversion Hi; inversion Hi'; subst items items'. rewrite rel_tuple in Hit.
           rewrite andb_true_r in Hpp. rewrite rel_tuple in Hpp.
           apply fill_rel_rev; auto. eapply nd_elems_atomic; eauto.
        -- destruct (str_eqb dt dt_obj) eqn:Hobj.
           ++ eapply Hlist; eauto; discriminate.
           ++ inversion Hi; inversion Hi'; subst items items'. rewrite rel_tuple in Hit.
              apply rel_list_atomic_rev; auto. eapply nd_elems_atomic; eauto.
    + cbn [tname] in Hn. rewrite tname_seq_set in Hn. discriminate.
    + cbn [tname] in Hn. rewrite tname_seq_map in Hn. discriminate.
    + unfold no_pandas in Hnp'. simpl in Hnp'. discriminate.
    + unfold no_pandas in Hnp'. simpl in Hnp'. discriminate.
  - (* sets *)
    destruct (py_hashable (PSetv sk l)) eqn:Hh; [eapply inj_hashable_l; eauto|].
    destruct (inj_unhashable_form fp _ w k k' Hh Hs Hs' Hk Hk' Hrel) as (Hh' & p & p' & Hp & Hp' & Hn & Hpp).
    destruct (sg_parts _ Hs) as (Hwf & Hnf & Hnp). destruct (sg_parts _ Hs') as (Hwf' & Hnf' & Hnp').
    destruct w as [b|sk' l'|sk' l'|mk' kvs'| |].
    + match type of Hp with payload_of _ ?w0 _ => destruct (payload_tuple fp w0 p I Hnp Hp) as [out ->] end.
      destruct b; simpl in Hp'; try contradiction. subst p'. discriminate.
    + cbn [tname] in Hn. rewrite str_eqb_sym, tname_seq_set in Hn. discriminate.
    + destruct sk; [|simpl in Hh; discriminate]. destruct sk'; [|simpl in Hh'; discriminate].
      cbn [payload_of] in Hp, Hp'. simpl in Hwf, Hwf'.
      apply andb_true_iff in Hwf. destruct Hwf as [Hwf _]. apply andb_true_iff in Hwf. destruct Hwf as [Hwl Hhl].
      apply andb_true_iff in Hwf'. destruct Hwf' as [Hwf' _]. apply andb_true_iff in Hwf'. destruct Hwf' as [Hwl' Hhl'].
      destruct (set_elems_facts fp l p Hhl Hp) as (es & Hpe & ->).
      destruct (set_elems_facts fp l' p' Hhl' Hp') as (es' & Hpe' & ->).
      rewrite rel_tuple in Hpp. apply rel_list_forall2 in Hpp.
      rewrite rel_set_unfold. simpl. apply andb_true_iff. split.
      * apply Nat.eqb_eq. apply Forall2_len in Hpp. rewrite !map_length in Hpp.
        apply Permutation_length in Hpe, Hpe'. rewrite map_length in Hpe, Hpe'. lia.
      * apply forallb_forall. intros a Ha. apply existsb_exists.
        assert (Hina : In a (map fst es)).
        { apply in_map_iff. exists (a, to_hashable fp a). split; auto. apply (Permutation_in _ Hpe).
          apply in_map_iff. eauto. }
        destruct (Forall2_in_l _ _ _ Hpp a Hina) as (b & Hb & Hab).
        apply in_map_iff in Hb. destruct Hb as (e' & <- & He'). apply (Permutation_in _ (Permutation_sym Hpe')) in He'.
        apply in_map_iff in He'. destruct He' as (y & <- & Hy). simpl in Hab. exists y. split; auto.
        rewrite forallb_forall in Hwl, Hhl, Hwl', Hhl'.
        rewrite <- (hashable_rel_same a (Hwl a Ha) (Hhl a Ha) y (Hwl' y Hy) (Hhl' y Hy)). exact Hab.
    + cbn [tname] in Hn. rewrite tname_set_map in Hn. discriminate.
    + unfold no_pandas in Hnp'. simpl in Hnp'. discriminate.
    + unfold no_pandas in Hnp'. simpl in Hnp'. discriminate.
  - (* mappings *)
    assert (Hh : py_hashable (PMap mk kvs) = false) by reflexivity.
    destruct (inj_unhashable_form fp _ w k k' Hh Hs Hs' Hk Hk' Hrel) as (Hh' & p & p' & Hp & Hp' & Hn & Hpp).
    destruct (sg_parts _ Hs) as (Hwf & Hnf & Hnp). destruct (sg_parts _ Hs') as (Hwf' & Hnf' & Hnp').
    destruct w as [b|sk' l'|sk' l'|mk' kvs'| |].
    + match type of Hp with payload_of _ ?w0 _ => destruct (payload_tuple fp w0 p I Hnp Hp) as [out ->] end.
      destruct b; simpl in Hp'; try contradiction. subst p'. discriminate.
    + cbn [tname] in Hn. rewrite str_eqb_sym, tname_seq_map in Hn. discriminate.
    + cbn [tname] in Hn. rewrite str_eqb_sym, tname_set_map in Hn. discriminate.
    + assert (Hparts := sg_map_parts _ _ Hs). assert (Hparts' := sg_map_parts _ _ Hs').
      rewrite Forall_forall in IH.
      assert (Hits : forall its : list item, Permutation (mk_items fp kvs) its -> forall it, In it its ->
                wf (fst (fst it)) = true /\ py_hashable (fst (fst it)) = true
                /\ snd it = to_hashable fp (snd (fst it))
                /\ (forall w, sg w = true -> kinj fp (snd (fst it)) w)).
      { intros its Hpi it Hit. destruct (in_items_kv fp kvs its it Hpi Hit) as [Hin Hsnd].
        destruct (Hparts _ Hin) as (Hsv & Hwk & Hhk). destruct (IH _ Hin) as [_ IHv]. auto. }
      assert (Hits' : forall its : list item, Permutation (mk_items fp kvs') its -> forall it, In it its ->
                wf (fst (fst it)) = true /\ py_hashable (fst (fst it)) = true
                /\ snd it = to_hashable fp (snd (fst it)) /\ sg (snd (fst it)) = true).
      { intros its Hpi it Hit. destruct (in_items_kv fp kvs' its it Hpi Hit) as [Hin Hsnd].
        destruct (Hparts' _ Hin) as (Hsv & Hwk & Hhk). auto. }
      assert (Hmapping : forall (srt : bool) d d',
                hashable_mapping srt (mk_items fp kvs) = Ok d -> hashable_mapping srt (mk_items fp kvs') = Ok d' ->
                rel false d d' = true ->
                exists its its' : list item, Permutation (mk_items fp kvs) its /\ Permutation (mk_items fp kvs') its'
                                 /\ (srt = false -> its = mk_items fp kvs /\ its' = mk_items fp kvs')
                                 /\ Forall2 itemT its its').
      { intros srt d d' Hd Hd' Hdd.
        apply mapping_out in Hd. destruct Hd as (its & out & Hso & -> & HF).
        apply mapping_out in Hd'. destruct Hd' as (its' & out' & Hso' & -> & HF').
        assert (Hpi := sorted_items_in _ _ _ Hso). assert (Hpi' := sorted_items_in _ _ _ Hso').
        rewrite rel_tuple in Hdd. exists its, its'. split; auto. split; auto. split.
        - intros ->. inversion Hso; inversion Hso'; auto.
        - eapply inj_items; eauto. }
      cbn [tname] in Hn. cbn [payload_of] in Hp, Hp'.
      destruct mk as [| |f|], mk' as [| |f'|]; try (simpl in Hn; discriminate).
      * destruct (Hmapping true p p' Hp Hp' Hpp) as (its & its' & Hpi & Hpi' & _ & HR).
        rewrite rel_map_unfold. simpl. eapply rel_dict_from_forall2; eauto.
      * destruct (Hmapping false p p' Hp Hp' Hpp) as (its & its' & Hpi & Hpi' & He & HR).
        destruct (He eq_refl) as [-> ->].
        rewrite rel_map_unfold. simpl. eapply rel_items_from_forall2; eauto.
      * destruct Hp as (d & Hd & ->). destruct Hp' as (d' & Hd' & ->).
        rewrite rel_tuple in Hpp. cbn [rel_list] in Hpp.
        apply andb_true_iff in Hpp. destruct Hpp as [Hf Hpp]. rewrite andb_true_r in Hpp.
        destruct (Hmapping true d d' Hd Hd' Hpp) as (its & its' & Hpi & Hpi' & _ & HR).
        rewrite rel_map_unfold. cbn [mapkind_eqb negb orb]. rewrite (factory_inj _ _ Hf). cbn [andb].
        eapply rel_dict_from_forall2; eauto.
      * destruct Hp as (its & Hso & ->). destruct Hp' as (its' & Hso' & ->).
        rewrite rel_tuple in Hpp.
        assert (Hpi := py_sort_perm _ _ _ Hso). assert (Hpi' := py_sort_perm _ _ _ Hso').
        simpl in Hwf. apply andb_true_iff in Hwf. destruct Hwf as [_ Hci]. rewrite forallb_forall in Hci.
        rewrite rel_map_unfold. simpl. rewrite rel_counter_strip.
        eapply (rel_dict_from_forall2 fp (strip kvs) (strip kvs')); eauto.
        apply counter_items_inj; auto.
        -- intros it Hit. destruct (in_items_kv fp (strip kvs) its it Hpi Hit) as [Hin _].
           apply strip_incl in Hin. destruct (Hparts _ Hin) as (_ & Hwk & Hhk).
           split; auto. split; auto. apply scalar_atomic. rewrite (Hci _ Hin). reflexivity.
        -- intros it Hit. destruct (in_items_kv fp (strip kvs') its' it Hpi' Hit) as [Hin _].
           apply strip_incl in Hin. destruct (Hparts' _ Hin) as (_ & Hwk & Hhk). auto.
    + unfold no_pandas in Hnp'. simpl in Hnp'. discriminate.
    + unfold no_pandas in Hnp'. simpl in Hnp'. discriminate.
  - destruct (sg_parts _ Hs) as (_ & _ & Hnp). unfold no_pandas in Hnp. simpl in Hnp. discriminate.
  - destruct (sg_parts _ Hs) as (_ & _ & Hnp). unfold no_pandas in Hnp. simpl in Hnp. discriminate.
Qed.

Theorem key_eq_implies_eq : forall fp v w k k',
  supported v = true -> supported w = true -> no_pandas v = true -> no_pandas w = true ->
  to_hashable fp v = Ok k -> to_hashable fp w = Ok k' -> py_eq k k' = true -> py_same v w = true.
Proof.
  intros fp v w k k' Hv Hw Hnp Hnp' Hk Hk' Heq.
  unfold supported in Hv, Hw. apply andb_true_iff in Hv. destruct Hv. apply andb_true_iff in Hw. destruct Hw.
  eapply (inj_g fp v); eauto; apply sg_intro; auto.
Qed.

(* ================= reflexivity of both equalities ================= *)
Lemma atom_eq_refl : forall a, atom_eq a a = true.
Proof.
  destruct a; unfold atom_eq; cbn [numval]; try apply Z.eqb_refl; try apply str_eqb_refl; try reflexivity;
    rewrite str_eqb_refl, Z.eqb_refl; reflexivity.
Qed.
Lemma atoms_eq_refl : forall l, list_eqb atom_eq l l = true.
Proof. induction l; simpl; auto. rewrite atom_eq_refl. auto. Qed.

Lemma rel_refl : forall st v, rel st v v = true.
Proof.
  intros st v. induction v as [a|sk l IH|sk l IH|mk kvs IH|n d i x|c i] using pyval_ind2.
  - rewrite rel_atom_l. apply atom_eq_refl.
  - rewrite rel_seq_unfold. apply andb_true_iff. split.
    + destruct st; [apply seqkind_eqb_refl|apply seqkind_eqb_loose; apply seqkind_eqb_refl].
    + induction IH; simpl; auto. rewrite H. auto.
  - rewrite rel_set_unfold. rewrite Nat.eqb_refl.
    replace (negb st || setkind_eqb sk sk) with true by (destruct st, sk; reflexivity). cbn [andb].
    apply forallb_forall. intros a Ha. apply existsb_exists. exists a. split; auto.
    rewrite Forall_forall in IH. auto.
  - rewrite rel_map_unfold.
    replace (negb st || mapkind_eqb mk mk) with true.
    2:{ destruct st; auto. destruct mk; simpl; auto. destruct factory; simpl; auto. symmetry. apply str_eqb_refl. }
    cbn [andb]. rewrite Forall_forall in IH.
    assert (Hd : forall kz, (forall kv, In kv kz -> In kv kvs) -> rel_dict st kz kz = true).
    { intros kz Hkz. unfold rel_dict. rewrite Nat.eqb_refl. cbn [andb]. apply forallb_forall. intros kv Hkv.
      apply existsb_exists. exists kv. split; auto. destruct (IH kv (Hkz kv Hkv)) as [H1 H2]. rewrite H1, H2. reflexivity. }
    destruct mk.
    + apply Hd. auto.
    + clear Hd. induction kvs as [|kv kvs IHl]; simpl; auto.
      destruct (IH kv) as [H1 H2]; [simpl; auto|]. rewrite H1, H2. simpl. apply IHl. intros; apply IH; simpl; auto.
    + apply Hd. auto.
    + rewrite rel_counter_strip. apply Hd. apply strip_incl.
  - simpl. rewrite atom_eq_refl, str_eqb_refl, !atoms_eq_refl. reflexivity.
  - simpl. rewrite atoms_eq_refl, andb_true_r. induction c as [|col c IHc]; simpl; auto.
    rewrite atom_eq_refl, str_eqb_refl, atoms_eq_refl. simpl. exact IHc.
Qed.

(* ================= pandas values: a hashable key is always returned ================= *)
Lemma dict_set_in : forall d k v kv, In kv (dict_set d k v) ->
  (In (fst kv) (map fst d) \/ fst kv = k) /\ (In (snd kv) (map snd d) \/ snd kv = v).
Proof.
  induction d as [|[k' v'] t IH]; intros k v kv H; simpl in H.
  - destruct H as [H|[]]. subst. simpl. auto.
  - destruct (atom_eq k' k).
    + destruct H as [H|H]; [subst; simpl; auto|]. simpl. split; left; right; apply in_map; auto.
    + destruct H as [H|H]; [subst; simpl; auto|]. destruct (IH k v kv H) as [[H1|H1] [H2|H2]]; simpl; auto.
Qed.

Lemma dict_set_nodup : forall d k v, nodup_by atom_eq (map fst d) = true ->
  nodup_by atom_eq (map fst (dict_set d k v)) = true.
Proof.
  induction d as [|[k' v'] t IH]; intros k v H; simpl; auto.
  simpl in H. apply andb_true_iff in H. destruct H as [Hx Ht].
  destruct (atom_eq k' k) eqn:E; simpl.
  - rewrite Hx, Ht. reflexivity.
  - rewrite IH by auto. rewrite andb_true_r. apply negb_true_iff in Hx. apply negb_true_iff.
    destruct (existsb (atom_eq k') (map fst (dict_set t k v))) eqn:Ex; auto.
    apply existsb_exists in Ex. destruct Ex as (y & Hy & Hr). apply in_map_iff in Hy. destruct Hy as (kv & <- & Hin).
    destruct (dict_set_in t k v kv Hin) as [[H1|H1] _].
    + assert (existsb (atom_eq k') (map fst t) = true); [|congruence]. apply existsb_exists. eauto.
    + rewrite H1 in Hr. congruence.
Qed.

Definition dict_inv (P Q : atom -> Prop) (d : list (atom * atom)) : Prop :=
  nodup_by atom_eq (map fst d) = true /\ forall kv, In kv d -> P (fst kv) /\ Q (snd kv).

Lemma dict_set_inv : forall (P Q : atom -> Prop) d k v, dict_inv P Q d -> P k -> Q v -> dict_inv P Q (dict_set d k v).
Proof.
  intros P Q d k v [Hn Hd] Hk Hv. split; [apply dict_set_nodup; auto|].
  intros kv Hin. destruct (dict_set_in d k v kv Hin) as [H1 H2]. split.
  - destruct H1 as [H1|H1]; [|subst; auto]. apply in_map_iff in H1. destruct H1 as (kv' & <- & Hin'). apply Hd; auto.
  - destruct H2 as [H2|H2]; [|subst; auto]. apply in_map_iff in H2. destruct H2 as (kv' & <- & Hin'). apply Hd; auto.
Qed.

Lemma to_dict_inv : forall (P Q : atom -> Prop) idx vals,
  (forall a, In a idx -> P a) -> (forall a, In a vals -> Q a) -> dict_inv P Q (to_dict idx vals).
Proof.
  intros P Q idx vals HP HQ. unfold to_dict.
  assert (Hc : forall kv, In kv (combine idx vals) -> P (fst kv) /\ Q (snd kv)).
  { intros [k v] H. split; [apply HP; eapply in_combine_l; eauto|apply HQ; eapply in_combine_r; eauto]. }
  assert (H0 : dict_inv P Q []) by (split; [reflexivity|intros kv []]).
  revert H0. generalize (@nil (atom * atom)). induction (combine idx vals) as [|kv t IH]; intros d Hd; simpl; auto.
  apply IH; [intros; apply Hc; simpl; auto|]. destruct (Hc kv) as [H1 H2]; [simpl; auto|].
  apply dict_set_inv; auto.
Qed.

Definition cellP (a : atom) : Prop := cell_ok a = true.
Lemma cell_hashable : forall a, cell_ok a = true -> atom_hashable a = true /\ wf (PA a) = true.
Proof. destruct a; simpl; intros; try discriminate; auto. Qed.
Lemma th_atom_cell : forall fp a, cell_ok a = true -> th_atom fp a = Ok (PA a).
Proof. intros fp a H. unfold th_atom. destruct (cell_hashable a H) as [-> _]. reflexivity. Qed.

Lemma existsb_map_PA : forall x t, existsb (rel false (PA x)) (map PA t) = existsb (atom_eq x) t.
Proof. induction t as [|y t IH]; cbn [map existsb]; auto. rewrite IH, rel_atom_l. reflexivity. Qed.
Lemma atoms_nodup_rel : forall l, nodup_by atom_eq l = true -> nodup_by (rel false) (map PA l) = true.
Proof.
  induction l as [|x t IH]; cbn [map nodup_by]; intros H; auto. apply andb_true_iff in H. destruct H as [Hx Ht].
  rewrite IH by auto. rewrite andb_true_r. rewrite existsb_map_PA. exact Hx.
Qed.

Lemma mapping_total_hashable : forall (items : list item),
  NoDup (map ikey items) ->
  (forall it, In it items -> py_hashable (fst (fst it)) = true
                             /\ exists hv, snd it = Ok hv /\ py_hashable hv = true) ->
  exists d, hashable_mapping true items = Ok d /\ py_hashable d = true.
Proof.
  intros items Hnd Hit. destruct (sort_items items Hnd) as (its & Hs & Hp & _).
  unfold hashable_mapping. rewrite Hs. cbn [bind].
  assert (Hits : forall it, In it its -> py_hashable (fst (fst it)) = true
                                         /\ exists hv, snd it = Ok hv /\ py_hashable hv = true).
  { intros it Hin. apply Hit. apply (Permutation_in _ (Permutation_sym Hp)). exact Hin. }
  clear Hs Hp Hnd Hit.
  assert (Hout : exists out, mapM (fun it : item => do hv <- snd it; Ok (pair_t (fst (fst it)) hv)) its = Ok out
                             /\ forallb py_hashable out = true).
  { induction its as [|it its IH]; [exists []; split; reflexivity|].
    destruct (Hits it) as [Hk (hv & Hhv & Hh)]; [simpl; auto|].
    destruct IH as (out & Ho & Hhout); [intros; apply Hits; simpl; auto|].
    exists (pair_t (fst (fst it)) hv :: out). split.
    - cbn [mapM]. rewrite Hhv. cbn [bind]. rewrite Ho. reflexivity.
    - cbn [forallb]. rewrite Hhout, andb_true_r. simpl. rewrite Hk, Hh. reflexivity. }
  destruct Hout as (out & Ho & Hh). rewrite Ho. cbn [bind]. eexists. split; [reflexivity|]. simpl. exact Hh.
Qed.

Lemma atoms_ikeys : forall (d : list (atom * atom)) (f : atom * atom -> item),
  (forall kv, fst (fst (f kv)) = PA (fst kv)) ->
  map ikey (map f d) = map ckey (map PA (map fst d)).
Proof. intros d f Hf. rewrite !map_map. apply map_ext. intros kv. unfold ikey. rewrite Hf. reflexivity. Qed.

Lemma cells_nodup_keys : forall (d : list (atom * atom)),
  nodup_by atom_eq (map fst d) = true -> (forall kv, In kv d -> cell_ok (fst kv) = true) ->
  NoDup (map ckey (map PA (map fst d))).
Proof.
  intros d Hn Hc. apply nodup_ckeys; [|apply atoms_nodup_rel; auto].
  intros x Hx. apply in_map_iff in Hx. destruct Hx as (a & <- & Ha). apply in_map_iff in Ha.
  destruct Ha as (kv & <- & Hkv). destruct (cell_hashable _ (Hc kv Hkv)). split; auto.
Qed.

Theorem series_key : forall fp n d idx vals, wf (PSeries n d idx vals) = true ->
  exists k, to_hashable fp (PSeries n d idx vals) = Ok k /\ py_hashable k = true.
Proof.
  intros fp n d idx vals Hwf. simpl in Hwf.
  repeat (apply andb_true_iff in Hwf; destruct Hwf as [Hwf ?]).
  rewrite forallb_forall in *.
  match goal with H : forall x, In x idx -> cell_ok x = true |- _ => rename H into Hidx end.
  match goal with H : forall x, In x vals -> cell_ok x = true |- _ => rename H into Hvals end.
  destruct (to_dict_inv cellP cellP idx vals Hidx Hvals) as [Hn Hd].
  set (f := fun kv : atom * atom => (PA (fst kv), PA (snd kv), th_atom fp (snd kv)) : item).
  destruct (mapping_total_hashable (map f (to_dict idx vals))) as (dk & Hdk & Hh).
  - rewrite (atoms_ikeys _ f) by reflexivity. apply cells_nodup_keys; auto. intros kv Hkv. apply Hd; auto.
  - intros it Hit. apply in_map_iff in Hit. destruct Hit as (kv & <- & Hkv). destruct (Hd kv Hkv) as [Hk Hv].
    simpl. split; [apply cell_hashable; auto|]. exists (PA (snd kv)). split; [apply th_atom_cell; auto|].
    apply cell_hashable; auto.
  - change (to_hashable fp (PSeries n d idx vals)) with
      (do dk <- hashable_mapping true (map f (to_dict idx vals));
       Ok (conv (s "Series") (PTuple [PA n; conv (s "dict") dk]))).
    rewrite Hdk. cbn [bind]. eexists. split; [reflexivity|]. simpl. rewrite Hh.
    destruct n; simpl in Hwf; try discriminate; reflexivity.
Qed.

Definition frame_dict (cols : list (atom * (str * list atom))) : list (atom * atom) :=
  fold_left (fun d c => dict_set d (fst c) (AInt 0)) cols [].
Definition frame_colval (cols : list (atom * (str * list atom))) (c : atom) : list atom :=
  (fix last (l : list (atom * (str * list atom))) (acc : list atom) : list atom :=
     match l with
     | [] => acc
     | c' :: t => last t (if atom_eq (fst c') c then snd (snd c') else acc)
     end) cols [].

Lemma frame_dict_inv : forall cols, (forall c, In c cols -> cell_ok (fst c) = true) ->
  dict_inv cellP (fun _ => True) (frame_dict cols).
Proof.
  intros cols Hc. unfold frame_dict.
  assert (H0 : dict_inv cellP (fun _ : atom => True) []) by (split; [reflexivity|intros kv []]).
  revert H0. generalize (@nil (atom * atom)). induction cols as [|c t IH]; intros d Hd; simpl; auto.
  apply IH; [intros; apply Hc; simpl; auto|]. apply dict_set_inv; auto. apply Hc. simpl. auto.
Qed.

Lemma frame_colval_cells : forall cols c a,
  (forall col, In col cols -> forall x, In x (snd (snd col)) -> cell_ok x = true) ->
  In a (frame_colval cols c) -> cell_ok a = true.
Proof.
  intros cols c a Hcols. unfold frame_colval.
  assert (Hacc : forall x, In x (@nil atom) -> cell_ok x = true) by (intros x []).
  revert Hacc. generalize (@nil atom). induction cols as [|c' t IH]; intros acc Hacc Hin; simpl in Hin; auto.
  apply IH in Hin; auto; [intros; eapply Hcols; simpl; eauto|].
  destruct (atom_eq (fst c') c); auto. intros x Hx. eapply (Hcols c'); simpl; eauto.
Qed.

Lemma iter_cells : forall fp vs, (forall a, In a vs -> cell_ok a = true) ->
  hashable_iterable false (map (fun a => (PA a, th_atom fp a)) vs) = Ok (PTuple (map PA vs)).
Proof.
  intros fp vs Hc. unfold hashable_iterable. cbn [bind].
  assert (Hm : mapM (fun e : elem => snd e) (map (fun a => (PA a, th_atom fp a)) vs) = Ok (map PA vs)).
  { induction vs as [|a t IH]; simpl; auto. rewrite th_atom_cell by (apply Hc; simpl; auto). cbn [bind].
    rewrite IH by (intros; apply Hc; simpl; auto). reflexivity. }
  rewrite Hm. reflexivity.
Qed.

Lemma cells_hashable : forall vs, (forall a, In a vs -> cell_ok a = true) -> forallb py_hashable (map PA vs) = true.
Proof.
  intros vs Hc. apply forallb_forall. intros x Hx. apply in_map_iff in Hx. destruct Hx as (a & <- & Ha).
  simpl. apply cell_hashable. auto.
Qed.

Theorem frame_key : forall fp cols idx, wf (PFrame cols idx) = true ->
  exists k, to_hashable fp (PFrame cols idx) = Ok k /\ py_hashable k = true.
Proof.
  intros fp cols idx Hwf. simpl in Hwf.
  apply andb_true_iff in Hwf. destruct Hwf as [Hwf _]. apply andb_true_iff in Hwf. destruct Hwf as [Hcols _].
  rewrite forallb_forall in Hcols.
  assert (Hname : forall c, In c cols -> cell_ok (fst c) = true).
  { intros c Hc. specialize (Hcols c Hc). repeat (apply andb_true_iff in Hcols; destruct Hcols as [Hcols ?]). auto. }
  assert (Hcells : forall col, In col cols -> forall x, In x (snd (snd col)) -> cell_ok x = true).
  { intros c Hc x Hx. specialize (Hcols c Hc). repeat (apply andb_true_iff in Hcols; destruct Hcols as [Hcols ?]).
    match goal with H : forallb cell_ok (snd (snd c)) = true |- _ => rewrite forallb_forall in H; auto end. }
  destruct (frame_dict_inv cols Hname) as [Hn Hd].
  set (f := fun kv : atom * atom =>
              let vs := frame_colval cols (fst kv) in
              (PA (fst kv), PList (map PA vs),
               do d <- hashable_iterable false (map (fun a => (PA a, th_atom fp a)) vs);
               Ok (conv (s "list") d)) : item).
  destruct (mapping_total_hashable (map f (frame_dict cols))) as (dk & Hdk & Hh).
  - rewrite (atoms_ikeys _ f) by reflexivity. apply cells_nodup_keys; auto. intros kv Hkv. apply Hd; auto.
  - intros it Hit. apply in_map_iff in Hit. destruct Hit as (kv & <- & Hkv). destruct (Hd kv Hkv) as [Hk _].
    unfold f. cbn [fst snd]. split; [apply cell_hashable; auto|].
    assert (Hvs : forall a, In a (frame_colval cols (fst kv)) -> cell_ok a = true)
      by (intros a Ha; eapply frame_colval_cells; eauto).
    rewrite (iter_cells fp _ Hvs). cbn [bind]. eexists. split; [reflexivity|].
    apply conv_hashable. simpl. apply cells_hashable. auto.
  - change (to_hashable fp (PFrame cols idx)) with
      (do dk <- hashable_mapping true (map f (frame_dict cols));
       Ok (conv (s "DataFrame") (conv (s "dict") dk))).
    rewrite Hdk. cbn [bind]. eexists. split; [reflexivity|]. apply conv_hashable. apply conv_hashable. exact Hh.
Qed.

(* every well-formed value - pandas included - gets a hashable key *)
Theorem key_hashable : forall fp v k, wf v = true -> to_hashable fp v = Ok k -> py_hashable k = true.
Proof.
  intros fp. apply key_hashable_gen.
  - intros n d i x k Hwf Hk. destruct (series_key fp n d i x Hwf) as (k' & Hk' & Hh). congruence.
  - intros c i k Hwf Hk. destruct (frame_key fp c i Hwf) as (k' & Hk' & Hh). congruence.
Qed.

(* every well-formed value whose opaque objects can use the pickle fallback - pandas included - gets a key *)
Theorem total_on_supported : forall fp v, wf v = true -> convertible fp v = true -> exists k, to_hashable fp v = Ok k.
Proof.
  intros fp v Hwf Hc. apply total_g; auto.
  - intros n d i x H. destruct (series_key fp n d i x H) as (k & Hk & _). eauto.
  - intros c i H. destruct (frame_key fp c i H) as (k & Hk & _). eauto.
Qed.

(* ================= pandas values: equal values of the same type get equal keys ================= *)
Lemma cell_eq_cong : forall a a' b b',
  cell_ok a = true -> cell_ok a' = true -> cell_ok b = true -> cell_ok b' = true ->
  atom_eq a a' = true -> atom_eq b b' = true -> atom_eq a b = atom_eq a' b'.
Proof.
  intros a a' b b' Ca Ca' Cb Cb' Ha Hb.
  destruct (cell_hashable a Ca) as [Ha1 Ha2], (cell_hashable a' Ca') as [Ha1' Ha2'],
           (cell_hashable b Cb) as [Hb1 Hb2], (cell_hashable b' Cb') as [Hb1' Hb2'].
  apply (ckey_atoms a a') in Ha; auto. apply (ckey_atoms b b') in Hb; auto.
  destruct (atom_eq a b) eqn:E; destruct (atom_eq a' b') eqn:E'; auto.
  - apply (ckey_atoms a b) in E; auto. assert (H : ckey (PA a') = ckey (PA b')) by congruence.
    apply (ckey_atoms a' b') in H; auto. congruence.
  - apply (ckey_atoms a' b') in E'; auto. assert (H : ckey (PA a) = ckey (PA b)) by congruence.
    apply (ckey_atoms a b) in H; auto. congruence.
Qed.

Definition kvR (kv kv' : atom * atom) : Prop := atom_eq (fst kv) (fst kv') = true /\ atom_eq (snd kv) (snd kv') = true.
Definition keys_cells (d : list (atom * atom)) : Prop := forall kv, In kv d -> cell_ok (fst kv) = true.

Lemma dict_set_keys_cells : forall d k v, keys_cells d -> cell_ok k = true -> keys_cells (dict_set d k v).
Proof.
  intros d k v Hd Hk kv Hin. destruct (dict_set_in d k v kv Hin) as [[H|H] _]; [|subst; auto].
  apply in_map_iff in H. destruct H as (kv' & <- & Hin'). auto.
Qed.

Lemma dict_set_cong : forall d d' k k' v v',
  Forall2 kvR d d' -> keys_cells d -> keys_cells d' -> cell_ok k = true -> cell_ok k' = true ->
  atom_eq k k' = true -> atom_eq v v' = true -> Forall2 kvR (dict_set d k v) (dict_set d' k' v').
Proof.
  intros d d' k k' v v' HF. revert k k' v v'.
  induction HF as [|[k1 v1] [k1' v1'] d d' [Hk1 Hv1] HF IH]; intros k k' v v' Hd Hd' Ck Ck' Hk Hv; simpl.
  - repeat constructor; auto.
  - simpl in Hk1, Hv1.
    assert (C1 : cell_ok k1 = true) by (apply (Hd (k1, v1)); simpl; auto).
    assert (C1' : cell_ok k1' = true) by (apply (Hd' (k1', v1')); simpl; auto).
    rewrite <- (cell_eq_cong k1 k1' k k' C1 C1' Ck Ck' Hk1 Hk).
    destruct (atom_eq k1 k).
    + constructor; auto. split; auto.
    + constructor; [split; auto|]. apply IH; auto; intros kv Hin; [apply Hd|apply Hd']; simpl; auto.
Qed.

Lemma list_eqb_Forall2 {A} (eqb : A -> A -> bool) : forall l l', list_eqb eqb l l' = true ->
  Forall2 (fun x y => eqb x y = true) l l'.
Proof.
  induction l as [|x t IH]; destruct l' as [|y t']; simpl; intros H; try discriminate; constructor.
  - apply andb_true_iff in H. tauto.
  - apply IH. apply andb_true_iff in H. tauto.
Qed.

Lemma fold_dict_cong : forall l l', Forall2 kvR l l' ->
  (forall kv, In kv l -> cell_ok (fst kv) = true) -> (forall kv, In kv l' -> cell_ok (fst kv) = true) ->
  forall d d', Forall2 kvR d d' -> keys_cells d -> keys_cells d' ->
  Forall2 kvR (fold_left (fun d kv => dict_set d (fst kv) (snd kv)) l d)
              (fold_left (fun d kv => dict_set d (fst kv) (snd kv)) l' d').
Proof.
  induction 1 as [|kv kv' l l' [Hkk Hvv] HC IH]; intros Hk Hk' d d' HF Kd Kd'; simpl; auto.
  apply IH.
  - intros; apply Hk; simpl; auto.
  - intros; apply Hk'; simpl; auto.
  - apply dict_set_cong; auto; [apply Hk|apply Hk']; simpl; auto.
  - apply dict_set_keys_cells; auto. apply Hk. simpl. auto.
  - apply dict_set_keys_cells; auto. apply Hk'. simpl. auto.
Qed.

Lemma to_dict_cong : forall idx idx' vals vals',
  (forall a, In a idx -> cell_ok a = true) -> (forall a, In a idx' -> cell_ok a = true) ->
  list_eqb atom_eq idx idx' = true -> list_eqb atom_eq vals vals' = true ->
  Forall2 kvR (to_dict idx vals) (to_dict idx' vals').
Proof.
  intros idx idx' vals vals' Hc Hc' Hi Hv. unfold to_dict.
  apply list_eqb_Forall2 in Hi. apply list_eqb_Forall2 in Hv.
  assert (HC : Forall2 kvR (combine idx vals) (combine idx' vals')).
  { clear Hc Hc'. revert vals vals' Hv. induction Hi as [|a a' idx idx' Ha Hi IH]; intros vals vals' Hv; simpl; [constructor|].
    destruct Hv as [|b b' vals vals' Hb Hv]; [constructor|]. constructor; [split; auto|]. apply IH; auto. }
  apply fold_dict_cong; auto.
  - intros [k v] H. apply Hc. eapply in_combine_l; eauto.
  - intros [k v] H. apply Hc'. eapply in_combine_l; eauto.
  - intros kv [].
  - intros kv [].
Qed.

Definition lift (kv : atom * atom) : pyval * pyval := (PA (fst kv), PA (snd kv)).

Lemma series_items : forall fp (D : list (atom * atom)),
  map (fun kv : atom * atom => (PA (fst kv), PA (snd kv), th_atom fp (snd kv)) : item) D = mk_items fp (map lift D).
Proof.
  intros fp D. unfold mk_items. rewrite map_map. apply map_ext. intros kv. unfold lift. cbn [fst snd].
  rewrite th_atom_eq. reflexivity.
Qed.

Lemma lift_wf : forall D, dict_inv cellP cellP D -> wf (PDict (map lift D)) = true.
Proof.
  intros D [Hn Hd]. cbn [wf]. rewrite andb_true_r. apply andb_true_iff. split; [apply andb_true_iff; split|].
  - apply forallb_forall. intros kv Hkv. apply in_map_iff in Hkv. destruct Hkv as (a & <- & Ha).
    destruct (Hd a Ha) as [H1 H2]. unfold lift. cbn [fst snd].
    destruct (cell_hashable _ H1) as [_ W1], (cell_hashable _ H2) as [_ W2]. rewrite W1, W2. reflexivity.
  - apply forallb_forall. intros kv Hkv. apply in_map_iff in Hkv. destruct Hkv as (a & <- & Ha).
    destruct (Hd a Ha) as [H1 _]. unfold lift. cbn [fst]. simpl. apply cell_hashable. auto.
  - rewrite map_map. cbn [lift fst]. rewrite <- (map_map fst PA). apply atoms_nodup_rel. exact Hn.
Qed.

Lemma lift_rel_dict : forall D D', Forall2 kvR D D' -> rel_dict true (map lift D) (map lift D') = true.
Proof.
  intros D D' HF. unfold rel_dict. apply andb_true_iff. split.
  - apply Nat.eqb_eq. rewrite !map_length. eapply Forall2_len; eauto.
  - apply forallb_forall. intros kv Hkv. apply in_map_iff in Hkv. destruct Hkv as (a & <- & Ha).
    destruct (Forall2_in_l _ _ _ HF a Ha) as (b & Hb & [H1 H2]). apply existsb_exists. exists (lift b). split.
    + apply in_map. auto.
    + unfold lift. cbn [fst snd]. rewrite !rel_atom_l, H1, H2. reflexivity.
Qed.

Lemma cells_keq : forall fp a b, cell_ok a = true -> cell_ok b = true -> rel true (PA a) (PA b) = true ->
  keq fp (PA a) (PA b).
Proof.
  intros fp a b Ca Cb Hr k k' Hk Hk'. rewrite th_atom_eq in Hk, Hk'. rewrite th_atom_cell in Hk, Hk' by auto.
  inversion Hk; inversion Hk'; subst. rewrite rel_atom_l in *. exact Hr.
Qed.

Theorem series_eq : forall fp n d i x w, wf (PSeries n d i x) = true -> wf w = true ->
  rel true (PSeries n d i x) w = true -> keq fp (PSeries n d i x) w.
Proof.
  intros fp n d i x w Hwf Hwf' Hrel k k' Hk Hk'.
  destruct w as [| | | |n' d' i' x'|]; try discriminate.
  simpl in Hrel. apply andb_true_iff in Hrel. destruct Hrel as [Hrel Hx]. apply andb_true_iff in Hrel.
  destruct Hrel as [Hrel Hi]. apply andb_true_iff in Hrel. destruct Hrel as [Hn Hd].
  assert (Hcells : forall n d i x, wf (PSeries n d i x) = true ->
            (forall a, In a i -> cell_ok a = true) /\ (forall a, In a x -> cell_ok a = true)).
  { clear. intros n d i x H. simpl in H. repeat (apply andb_true_iff in H; destruct H as [H ?]).
    rewrite forallb_forall in *. split; auto. }
  destruct (Hcells _ _ _ _ Hwf) as [Ci Cx]. destruct (Hcells _ _ _ _ Hwf') as [Ci' Cx'].
  assert (Inv := to_dict_inv cellP cellP i x Ci Cx). assert (Inv' := to_dict_inv cellP cellP i' x' Ci' Cx').
  assert (HF := to_dict_cong i i' x x' Ci Ci' Hi Hx).
  change (to_hashable fp (PSeries n d i x)) with
    (do dk <- hashable_mapping true (map (fun kv : atom * atom => (PA (fst kv), PA (snd kv), th_atom fp (snd kv)) : item)
                                         (to_dict i x));
     Ok (conv (s "Series") (PTuple [PA n; conv (s "dict") dk]))) in Hk.
  change (to_hashable fp (PSeries n' d' i' x')) with
    (do dk <- hashable_mapping true (map (fun kv : atom * atom => (PA (fst kv), PA (snd kv), th_atom fp (snd kv)) : item)
                                         (to_dict i' x'));
     Ok (conv (s "Series") (PTuple [PA n'; conv (s "dict") dk]))) in Hk'.
  rewrite series_items in Hk, Hk'.
  destruct (hashable_mapping true (mk_items fp (map lift (to_dict i x)))) as [dk|e] eqn:Hdk; [|discriminate].
  destruct (hashable_mapping true (mk_items fp (map lift (to_dict i' x')))) as [dk'|e] eqn:Hdk'; [|discriminate].
  cbn [bind] in Hk, Hk'. inversion Hk; inversion Hk'; subst.
  rewrite conv_rel, str_eqb_refl. cbn [andb]. rewrite rel_tuple. cbn [rel_list].
  rewrite rel_atom_l, Hn. cbn [andb]. rewrite conv_rel, str_eqb_refl. cbn [andb]. rewrite andb_true_r.
  eapply (map_canon fp (map lift (to_dict i x)) (map lift (to_dict i' x'))); eauto using lift_wf, lift_rel_dict.
  intros kv kv' Hkv Hkv' Hr. apply in_map_iff in Hkv. destruct Hkv as (a & <- & Ha).
  apply in_map_iff in Hkv'. destruct Hkv' as (b & <- & Hb). unfold lift in *. cbn [snd] in *.
  destruct Inv as [_ Hd1], Inv' as [_ Hd2]. apply cells_keq; auto; [apply Hd1|apply Hd2]; auto.
Qed.

Definition colT := (atom * (str * list atom))%type.
Definition colR (a b : colT) : Prop :=
  atom_eq (fst a) (fst b) = true /\ list_eqb atom_eq (snd (snd a)) (snd (snd b)) = true.

Lemma frame_dict_fold : forall cols d,
  fold_left (fun d (c : colT) => dict_set d (fst c) (AInt 0)) cols d =
  fold_left (fun d kv => dict_set d (fst kv) (snd kv)) (map (fun c : colT => (fst c, AInt 0)) cols) d.
Proof. induction cols as [|c t IH]; intros d; simpl; auto. Qed.

Lemma frame_dict_cong : forall cols cols', Forall2 colR cols cols' ->
  (forall c, In c cols -> cell_ok (fst c) = true) -> (forall c, In c cols' -> cell_ok (fst c) = true) ->
  Forall2 kvR (frame_dict cols) (frame_dict cols').
Proof.
  intros cols cols' HF Hc Hc'. unfold frame_dict. rewrite !frame_dict_fold. apply fold_dict_cong.
  - clear Hc Hc'. induction HF as [|a b l l' [H1 _] HF IH]; simpl; constructor; auto. split; auto.
  - intros kv H. apply in_map_iff in H. destruct H as (c & <- & Hin). simpl. auto.
  - intros kv H. apply in_map_iff in H. destruct H as (c & <- & Hin). simpl. auto.
  - constructor.
  - intros kv [].
  - intros kv [].
Qed.

Lemma frame_colval_cong : forall cols cols' c c', Forall2 colR cols cols' ->
  (forall col, In col cols -> cell_ok (fst col) = true) -> (forall col, In col cols' -> cell_ok (fst col) = true) ->
  cell_ok c = true -> cell_ok c' = true -> atom_eq c c' = true ->
  list_eqb atom_eq (frame_colval cols c) (frame_colval cols' c') = true.
Proof.
  intros cols cols' c c' HF Hc Hc' Cc Cc' Hcc. unfold frame_colval.
  assert (H0 : list_eqb atom_eq (@nil atom) (@nil atom) = true) by reflexivity.
  revert H0. generalize (@nil atom) at 1 3. generalize (@nil atom).
  induction HF as [|a b l l' [H1 H2] HF IH]; intros acc' acc Hacc; simpl; auto.
  apply IH; [intros; apply Hc; simpl; auto|intros; apply Hc'; simpl; auto|].
  rewrite <- (cell_eq_cong (fst a) (fst b) c c'); auto; [|apply Hc; simpl; auto|apply Hc'; simpl; auto].
  destruct (atom_eq (fst a) c); auto.
Qed.

Definition liftF (cols : list colT) (kv : atom * atom) : pyval * pyval :=
  (PA (fst kv), PList (map PA (frame_colval cols (fst kv)))).

Lemma th_list_cells : forall fp vs,
  to_hashable fp (PList (map PA vs)) =
  (do d <- hashable_iterable false (map (fun a => (PA a, th_atom fp a)) vs); Ok (conv (s "list") d)).
Proof.
  intros fp vs. rewrite th_seq by reflexivity. unfold seq_body. rewrite map_map.
  replace (map (fun x : atom => (PA x, to_hashable fp (PA x))) vs) with (map (fun a => (PA a, th_atom fp a)) vs).
  - reflexivity.
  - apply map_ext. intros a. rewrite th_atom_eq. reflexivity.
Qed.

Lemma frame_items : forall fp cols (D : list (atom * atom)),
  map (fun kv : atom * atom =>
         let vs := frame_colval cols (fst kv) in
         (PA (fst kv), PList (map PA vs),
          do d <- hashable_iterable false (map (fun a => (PA a, th_atom fp a)) vs); Ok (conv (s "list") d)) : item) D
  = mk_items fp (map (liftF cols) D).
Proof.
  intros fp cols D. unfold mk_items. rewrite map_map. apply map_ext. intros kv. unfold liftF. cbn [fst snd].
  rewrite th_list_cells. reflexivity.
Qed.

Lemma cells_wf : forall vs, (forall a, In a vs -> cell_ok a = true) -> forallb wf (map PA vs) = true.
Proof.
  intros vs Hc. apply forallb_forall. intros x Hx. apply in_map_iff in Hx. destruct Hx as (a & <- & Ha).
  apply cell_hashable. auto.
Qed.

Lemma liftF_wf : forall cols D,
  (forall col, In col cols -> forall x, In x (snd (snd col)) -> cell_ok x = true) ->
  dict_inv cellP (fun _ => True) D -> wf (PDict (map (liftF cols) D)) = true.
Proof.
  intros cols D Hcells [Hn Hd]. cbn [wf]. rewrite andb_true_r. apply andb_true_iff. split; [apply andb_true_iff; split|].
  - apply forallb_forall. intros kv Hkv. apply in_map_iff in Hkv. destruct Hkv as (a & <- & Ha).
    destruct (Hd a Ha) as [H1 _]. unfold liftF. cbn [fst snd].
    destruct (cell_hashable _ H1) as [_ W1]. rewrite W1. cbn [andb wf]. rewrite andb_true_r.
    apply cells_wf. intros x Hx. eapply frame_colval_cells; eauto.
  - apply forallb_forall. intros kv Hkv. apply in_map_iff in Hkv. destruct Hkv as (a & <- & Ha).
    destruct (Hd a Ha) as [H1 _]. unfold liftF. cbn [fst]. simpl. apply cell_hashable. auto.
  - rewrite map_map. cbn [liftF fst]. rewrite <- (map_map fst PA). apply atoms_nodup_rel. exact Hn.
Qed.

Lemma atoms_rel_list : forall st vs vs', list_eqb atom_eq vs vs' = true -> rel_list st (map PA vs) (map PA vs') = true.
Proof.
  induction vs as [|a t IH]; destruct vs' as [|b t']; simpl; intros H; try discriminate; auto.
  apply andb_true_iff in H. destruct H as [H1 H2]. rewrite H1. simpl. apply IH. exact H2.
Qed.

Theorem frame_eq : forall fp c i w, wf (PFrame c i) = true -> wf w = true ->
  rel true (PFrame c i) w = true -> keq fp (PFrame c i) w.
Proof.
  intros fp cols i w Hwf Hwf' Hrel k k' Hk Hk'.
  destruct w as [| | | | |cols' i']; try discriminate.
  simpl in Hrel. apply andb_true_iff in Hrel. destruct Hrel as [Hcols _].
  assert (Hparts : forall cols i, wf (PFrame cols i) = true ->
            (forall c, In c cols -> cell_ok (fst c) = true)
            /\ (forall col, In col cols -> forall x, In x (snd (snd col)) -> cell_ok x = true)).
  { clear. intros cols i H. simpl in H. apply andb_true_iff in H. destruct H as [H _].
    apply andb_true_iff in H. destruct H as [H _]. rewrite forallb_forall in H. split.
    - intros c Hc. specialize (H c Hc). repeat (apply andb_true_iff in H; destruct H as [H ?]). auto.
    - intros c Hc x Hx. specialize (H c Hc). repeat (apply andb_true_iff in H; destruct H as [H ?]).
      match goal with H : forallb cell_ok (snd (snd c)) = true |- _ => rewrite forallb_forall in H; auto end. }
  destruct (Hparts _ _ Hwf) as [Hname Hcells]. destruct (Hparts _ _ Hwf') as [Hname' Hcells'].
  assert (HFc : Forall2 colR cols cols').
  { apply list_eqb_Forall2 in Hcols. clear -Hcols. induction Hcols as [|a b l l' H HF IH]; constructor; auto.
    apply andb_true_iff in H. destruct H as [H H3]. apply andb_true_iff in H. destruct H as [H1 H2]. split; auto. }
  assert (Inv := frame_dict_inv cols Hname). assert (Inv' := frame_dict_inv cols' Hname').
  assert (HF := frame_dict_cong cols cols' HFc Hname Hname').
  change (to_hashable fp (PFrame cols i)) with
    (do dk <- hashable_mapping true
                (map (fun kv : atom * atom =>
                        let vs := frame_colval cols (fst kv) in
                        (PA (fst kv), PList (map PA vs),
                         do d <- hashable_iterable false (map (fun a => (PA a, th_atom fp a)) vs);
                         Ok (conv (s "list") d)) : item) (frame_dict cols));
     Ok (conv (s "DataFrame") (conv (s "dict") dk))) in Hk.
  change (to_hashable fp (PFrame cols' i')) with
    (do dk <- hashable_mapping true
                (map (fun kv : atom * atom =>
                        let vs := frame_colval cols' (fst kv) in
                        (PA (fst kv), PList (map PA vs),
                         do d <- hashable_iterable false (map (fun a => (PA a, th_atom fp a)) vs);
                         Ok (conv (s "list") d)) : item) (frame_dict cols'));
     Ok (conv (s "DataFrame") (conv (s "dict") dk))) in Hk'.
  rewrite frame_items in Hk, Hk'.
  destruct (hashable_mapping true (mk_items fp (map (liftF cols) (frame_dict cols)))) as [dk|e] eqn:Hdk; [|discriminate].
  destruct (hashable_mapping true (mk_items fp (map (liftF cols') (frame_dict cols')))) as [dk'|e] eqn:Hdk'; [|discriminate].
  cbn [bind] in Hk, Hk'. inversion Hk; inversion Hk'; subst.
  rewrite !conv_rel, !str_eqb_refl. cbn [andb].
  destruct Inv as [Hn Hd1]. destruct Inv' as [Hn' Hd2].
  eapply (map_canon fp (map (liftF cols) (frame_dict cols)) (map (liftF cols') (frame_dict cols'))); eauto.
  - apply liftF_wf; auto. split; auto.
  - apply liftF_wf; auto. split; auto.
  - unfold rel_dict. apply andb_true_iff. split.
    + apply Nat.eqb_eq. rewrite !map_length. eapply Forall2_len; eauto.
    + apply forallb_forall. intros kv Hkv. apply in_map_iff in Hkv. destruct Hkv as (a & <- & Ha).
      destruct (Forall2_in_l _ _ _ HF a Ha) as (b & Hb & [H1 _]). apply existsb_exists. exists (liftF cols' b). split.
      * apply in_map. auto.
      * unfold liftF. cbn [fst snd]. rewrite rel_atom_l, H1. cbn [andb]. rewrite rel_seq_unfold. cbn [seqkind_eqb andb].
        apply atoms_rel_list. apply frame_colval_cong; auto; [apply (Hd1 a Ha)|apply (Hd2 b Hb)].
  - intros kv kv' Hkv Hkv' Hr. apply in_map_iff in Hkv. destruct Hkv as (a & <- & Ha).
    apply in_map_iff in Hkv'. destruct Hkv' as (b & <- & Hb). unfold liftF in *. cbn [snd] in *.
    intros k0 k0' Hk0 Hk0'. rewrite th_list_cells in Hk0, Hk0'.
    rewrite iter_cells in Hk0 by (intros x Hx; exact (frame_colval_cells cols (fst a) x Hcells Hx)).
    rewrite iter_cells in Hk0' by (intros x Hx; exact (frame_colval_cells cols' (fst b) x Hcells' Hx)).
    cbn [bind] in Hk0, Hk0'. inversion Hk0; inversion Hk0'; subst.
    rewrite conv_rel, str_eqb_refl. cbn [andb]. rewrite rel_tuple.
    rewrite rel_seq_unfold in Hr. cbn [seqkind_eqb andb] in Hr.
    apply rel_list_atomic; auto. apply forallb_forall. intros y Hy. apply in_map_iff in Hy. destruct Hy as (z & <- & _).
    reflexivity.
Qed.

(* equal values of the same type get equal keys - FULL: every pair of well-formed values, pandas included *)
Theorem eq_implies_key_eq : forall fp v w k k',
  wf v = true -> wf w = true ->
  py_same v w = true -> to_hashable fp v = Ok k -> to_hashable fp w = Ok k' -> py_eq k k' = true.
Proof.
  intros fp v w k k' H1 H2 Hs Hk Hk'.
  exact (eq_implies_key_eq_g fp (series_eq fp) (frame_eq fp) v w H1 H2 Hs k k' Hk Hk').
Qed.
