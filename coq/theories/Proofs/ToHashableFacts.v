(* Facts about the model of to_hashable (C15). *)
From Coq Require Import Permutation Sorted.
From Verif Require Import Base.Prelude Base.PySort Model.PyVal Model.ToHashable Model.ToHashableSpec.
From Verif Require Import Proofs.PySortFacts Proofs.PyValFacts.

(* ---------- unfolding equations ---------- *)
Lemma th_atom_eq : forall fp a, to_hashable fp (PA a) = th_atom fp a.
Proof. intros. simpl. unfold th_atom. destruct (atom_hashable a); reflexivity. Qed.

Lemma th_hashable : forall fp v, py_hashable v = true -> to_hashable fp v = Ok v.
Proof.
  intros fp v H. destruct v; try (simpl in H; discriminate).
  - rewrite th_atom_eq. unfold th_atom. simpl in H. rewrite H. reflexivity.
  - change (to_hashable fp (PSeq k l)) with
      (if py_hashable (PSeq k l) then Ok (PSeq k l) else
       let conv_elems := hashable_iterable false (map (fun x => (x, to_hashable fp x)) l) in
       match k with
       | KTuple | KList => do d <- conv_elems; Ok (conv (tp_seq k) d)
       | KDeque ml => do d <- conv_elems; Ok (conv (tp_seq k) (PTuple [maxlen_val ml; d]))
       | KBytearray => Ok (conv (tp_seq k) (PTuple l))
       | KArray c => Ok (conv (tp_seq k) (PTuple [PStr c; PTuple l]))
       | KNd _ d sh =>
           do items <- (if str_eqb d dt_obj then conv_elems else Ok (PTuple l));
           Ok (conv (tp_seq k) (PTuple [PTuple (map (fun z => PInt z) sh); PStr d; items]))
       end).
    rewrite H. reflexivity.
  - change (to_hashable fp (PSetv k l)) with
      (if py_hashable (PSetv k l) then Ok (PSetv k l) else
       do d <- hashable_iterable true (map (fun x => (x, to_hashable fp x)) l); Ok (conv (tp_set k) d)).
    rewrite H. reflexivity.
Qed.

Definition seq_body (fp : bool) (k : seqkind) (l : list pyval) : result pyval :=
  let conv_elems := hashable_iterable false (map (fun x => (x, to_hashable fp x)) l) in
  match k with
  | KTuple | KList => do d <- conv_elems; Ok (conv (tp_seq k) d)
  | KDeque ml => do d <- conv_elems; Ok (conv (tp_seq k) (PTuple [maxlen_val ml; d]))
  | KBytearray => Ok (conv (tp_seq k) (PTuple l))
  | KArray c => Ok (conv (tp_seq k) (PTuple [PStr c; PTuple l]))
  | KNd _ d sh =>
      do items <- (if str_eqb d dt_obj then conv_elems else Ok (PTuple l));
      Ok (conv (tp_seq k) (PTuple [PTuple (map (fun z => PInt z) sh); PStr d; items]))
  end.
Lemma th_seq : forall fp k l, py_hashable (PSeq k l) = false -> to_hashable fp (PSeq k l) = seq_body fp k l.
Proof.
  intros fp k l H.
  change (to_hashable fp (PSeq k l)) with (if py_hashable (PSeq k l) then Ok (PSeq k l) else seq_body fp k l).
  rewrite H. reflexivity.
Qed.

Definition set_body (fp : bool) (k : setkind) (l : list pyval) : result pyval :=
  do d <- hashable_iterable true (map (fun x => (x, to_hashable fp x)) l); Ok (conv (tp_set k) d).
Lemma th_set : forall fp k l, py_hashable (PSetv k l) = false -> to_hashable fp (PSetv k l) = set_body fp k l.
Proof.
  intros fp k l H.
  change (to_hashable fp (PSetv k l)) with (if py_hashable (PSetv k l) then Ok (PSetv k l) else set_body fp k l).
  rewrite H. reflexivity.
Qed.

Definition mk_items (fp : bool) (kvs : list (pyval * pyval)) : list item :=
  map (fun kv => (fst kv, snd kv, to_hashable fp (snd kv))) kvs.
Definition map_body (fp : bool) (k : mapkind) (kvs : list (pyval * pyval)) : result pyval :=
  let items := mk_items fp kvs in
  match k with
  | KODict => do d <- hashable_mapping false items; Ok (conv (tp_map k) d)
  | KDefault f => do d <- hashable_mapping true items; Ok (conv (tp_map k) (PTuple [factory_val f; d]))
  | KCounter =>
      do its <- py_sort item_lt items;
      Ok (conv (tp_map k) (PTuple (map (fun it : item => pair_t (fst (fst it)) (snd (fst it))) its)))
  | KDict => do d <- hashable_mapping true items; Ok (conv (tp_map k) d)
  end.
Lemma th_map : forall fp k kvs, to_hashable fp (PMap k kvs) = map_body fp k kvs.
Proof. reflexivity. Qed.

(* ---------- mapM ---------- *)
Lemma mapM_Forall2 {A B} (f : A -> result B) : forall l out,
  mapM f l = Ok out <-> Forall2 (fun x y => f x = Ok y) l out.
Proof.
  induction l as [|x t IH]; intros out; simpl; split; intros H.
  - inversion H. constructor.
  - inversion H. reflexivity.
  - destruct (f x) as [y|e] eqn:Hx; [|discriminate]. cbn [bind] in H.
    destruct (mapM f t) as [ys|e] eqn:Ht; [|discriminate]. cbn [bind] in H. inversion H; subst.
    constructor; auto. apply IH. reflexivity.
  - inversion H as [|? y ? ys Hx Ht]; subst. rewrite Hx. cbn [bind].
    apply IH in Ht. rewrite Ht. reflexivity.
Qed.

Lemma mapM_snd_map {A B} (f : A -> result B) : forall l,
  mapM (fun e : A * result B => snd e) (map (fun x => (x, f x)) l) = mapM f l.
Proof. induction l as [|x t IH]; simpl; auto. rewrite IH. reflexivity. Qed.

Lemma iterable_unsorted : forall fp l d,
  hashable_iterable false (map (fun x => (x, to_hashable fp x)) l) = Ok d ->
  exists out, d = PTuple out /\ Forall2 (fun x y => to_hashable fp x = Ok y) l out.
Proof.
  intros fp l d H. unfold hashable_iterable, elem in H. cbn [bind] in H. rewrite (mapM_snd_map (to_hashable fp) l) in H.
  destruct (mapM (to_hashable fp) l) as [out|e] eqn:Hm; [|discriminate]. cbn [bind] in H. inversion H; subst.
  exists out. split; auto. apply mapM_Forall2. exact Hm.
Qed.

Lemma forall2_hashable : forall fp l out,
  Forall2 (fun x y => to_hashable fp x = Ok y) l out ->
  Forall (fun x => forall y, to_hashable fp x = Ok y -> py_hashable y = true) l ->
  forallb py_hashable out = true.
Proof.
  induction 1 as [|x y l out Hxy H IH]; intros HF; simpl; auto.
  inversion HF as [|? ? Hx Ht]; subst. rewrite (Hx _ Hxy). simpl. auto.
Qed.

(* ---------- shapes of the helper results ---------- *)
Lemma iterable_sorted : forall elems d,
  hashable_iterable true elems = Ok d ->
  exists es out, py_sort elem_lt elems = Ok es /\ d = PTuple out /\ Forall2 (fun e y => snd e = Ok y) es out.
Proof.
  intros elems d H. unfold hashable_iterable in H.
  destruct (py_sort elem_lt elems) as [es|e] eqn:Hs; [|discriminate]. cbn [bind] in H.
  destruct (mapM (fun e : elem => snd e) es) as [out|e] eqn:Hm; [|discriminate]. cbn [bind] in H. inversion H; subst.
  exists es, out. split; auto. split; auto. apply (mapM_Forall2 (fun e : elem => snd e)). exact Hm.
Qed.

Definition item_out (it : item) (y : pyval) : Prop := exists hv, snd it = Ok hv /\ y = pair_t (fst (fst it)) hv.
Lemma mapping_out : forall (srt : bool) items d,
  hashable_mapping srt items = Ok d ->
  exists its out, (if srt then py_sort item_lt items else Ok items) = Ok its /\ d = PTuple out
                  /\ Forall2 item_out its out.
Proof.
  intros srt items d H. unfold hashable_mapping in H.
  destruct (if srt then py_sort item_lt items else Ok items) as [its|e] eqn:Hs; [|discriminate]. cbn [bind] in H.
  match type of H with context [mapM ?f its] => destruct (mapM f its) as [out|e] eqn:Hm; [|discriminate] end.
  cbn [bind] in H. inversion H; subst. exists its, out. split; auto. split; auto.
  apply mapM_Forall2 in Hm. clear -Hm. induction Hm as [|it y its out Hy H IH]; constructor; auto.
  unfold item_out. destruct (snd it) as [hv|e]; [|discriminate]. cbn [bind] in Hy. inversion Hy; subst. eauto.
Qed.

Lemma in_mk_items : forall fp kvs it, In it (mk_items fp kvs) ->
  exists kv, In kv kvs /\ it = (fst kv, snd kv, to_hashable fp (snd kv)).
Proof. intros fp kvs it H. unfold mk_items in H. apply in_map_iff in H. destruct H as (kv & E & Hin). eauto. Qed.

Lemma sorted_items_in : forall (srt : bool) (items its : list item),
  (if srt then py_sort item_lt items else Ok items) = Ok its -> Permutation items its.
Proof.
  intros srt items its H. destruct srt; [eapply py_sort_perm; eauto|]. inversion H; subst. apply Permutation_refl.
Qed.

(* ---------- key_hashable ---------- *)
Lemma conv_hashable : forall t d, py_hashable d = true -> py_hashable (conv t d) = true.
Proof. intros t d H. simpl. rewrite H. reflexivity. Qed.

Lemma scalar_hashable : forall x,
  (is_int x || is_float x || is_boolv x || is_strv x || is_byte x) = true -> py_hashable x = true.
Proof. intros x H. destruct x as [a| | | | |]; simpl in H; try discriminate. destruct a; simpl in *; try discriminate; auto. Qed.

Lemma ints_hashable : forall sh, forallb py_hashable (map (fun z => PInt z) sh) = true.
Proof. induction sh; simpl; auto. Qed.

Lemma unmasked_not_maskedc : forall x, unmasked x = true -> is_maskedc x = false.
Proof. intros x H. destruct x as [a| | | | |]; simpl; auto. destruct a; simpl in *; auto. Qed.

Lemma seq_children : forall k l, wf (PSeq k l) = true -> unmasked (PSeq k l) = true ->
  Forall (fun x => wf x = true /\ unmasked x = true) l.
Proof.
  intros k l Hwf Hum. simpl in Hwf. apply andb_true_iff in Hwf. destruct Hwf as [Hwf _].
  unfold unmasked in Hum. simpl in Hum. rewrite forallb_forall in Hum.
  apply Forall_forall. intros x Hx. specialize (Hum x Hx). split; auto.
  assert (Hnm := unmasked_not_maskedc x Hum).
  destruct k; try (rewrite forallb_forall in Hwf; auto; fail).
  destruct masked; rewrite forallb_forall in Hwf; auto.
  specialize (Hwf x Hx). rewrite Hnm in Hwf. exact Hwf.
Qed.

Lemma nd_elems_hashable : forall m d l,
  str_eqb d dt_obj = false ->
  forallb (fun x => (m && is_maskedc x) || elem_ok d x) l = true ->
  forallb (fun x => negb (is_maskedc x)) l = true ->
  forallb py_hashable l = true.
Proof.
  intros m d l Hd H Hnm. apply forallb_forall. intros x Hx.
  rewrite forallb_forall in H, Hnm. specialize (H x Hx). specialize (Hnm x Hx).
  apply negb_true_iff in Hnm. rewrite Hnm, andb_false_r in H. simpl in H.
  unfold elem_ok, dtype_class in H. rewrite Hd in H.
  apply scalar_hashable.
  destruct d as [|c0 [|c d']]; try discriminate.
  destruct (Ascii.eqb c "i" || Ascii.eqb c "u"); [rewrite H; auto|].
  destruct (Ascii.eqb c "f"); [rewrite H; rewrite ?orb_true_r; auto|].
  destruct (Ascii.eqb c "b"); [rewrite H; rewrite ?orb_true_r; auto|].
  destruct (Ascii.eqb c "U"); [rewrite H; rewrite ?orb_true_r; auto|].
  discriminate.
Qed.

Theorem key_hashable : forall fp v k,
  wf v = true -> unmasked v = true -> no_pandas v = true ->
  to_hashable fp v = Ok k -> py_hashable k = true.
Proof.
  intros fp v. induction v as [a|sk l IH|sk l IH|mk kvs IH|n d i x|c i] using pyval_ind2;
    intros k Hwf Hum Hnp Hth.
  - rewrite th_atom_eq in Hth. unfold th_atom in Hth. destruct (atom_hashable a) eqn:Ha.
    + inversion Hth; subst. exact Ha.
    + destruct a; try discriminate. destruct fp, picklable; try discriminate. inversion Hth; subst. reflexivity.
  - destruct (py_hashable (PSeq sk l)) eqn:Hh.
    { rewrite th_hashable in Hth by exact Hh. inversion Hth; subst. exact Hh. }
    rewrite th_seq in Hth by exact Hh.
    assert (Hch := seq_children _ _ Hwf Hum).
    assert (Hnpl : forall x, In x l -> no_pandas x = true).
    { unfold no_pandas in Hnp. simpl in Hnp. rewrite forallb_forall in Hnp. exact Hnp. }
    assert (HIH : Forall (fun x => forall y, to_hashable fp x = Ok y -> py_hashable y = true) l).
    { rewrite Forall_forall in *. intros x Hx y Hy. destruct (Hch x Hx). eapply IH; eauto. }
    assert (Hconv : forall d, hashable_iterable false (map (fun x => (x, to_hashable fp x)) l) = Ok d ->
                              py_hashable d = true).
    { intros d Hd. apply iterable_unsorted in Hd. destruct Hd as (out & -> & HF). simpl.
      eapply forall2_hashable; eauto. }
    unfold seq_body in Hth. simpl in Hwf. apply andb_true_iff in Hwf. destruct Hwf as [_ Hwf].
    destruct sk.
    + destruct (hashable_iterable false _) as [d|e] eqn:Hd; [|discriminate]. cbn [bind] in Hth.
      inversion Hth; subst. apply conv_hashable. auto.
    + destruct (hashable_iterable false _) as [d|e] eqn:Hd; [|discriminate]. cbn [bind] in Hth.
      inversion Hth; subst. apply conv_hashable. auto.
    + destruct (hashable_iterable false _) as [d|e] eqn:Hd; [|discriminate]. cbn [bind] in Hth.
      inversion Hth; subst. apply conv_hashable. simpl. rewrite (Hconv d) by auto. destruct maxlen; reflexivity.
    + inversion Hth; subst. apply conv_hashable. simpl.
      apply forallb_forall. intros x Hx. rewrite forallb_forall in Hwf. apply scalar_hashable.
      rewrite (Hwf x Hx). rewrite ?orb_true_r. reflexivity.
    + inversion Hth; subst. apply conv_hashable. simpl. rewrite andb_true_r.
      apply forallb_forall. intros x Hx. rewrite forallb_forall in Hwf. specialize (Hwf x Hx).
      apply scalar_hashable. unfold array_code_ok in Hwf.
      destruct (mem_str code _); [rewrite Hwf; reflexivity|].
      destruct (mem_str code _); [rewrite Hwf; rewrite ?orb_true_r; reflexivity|discriminate].
    + assert (Hnm : forallb (fun x => negb (is_maskedc x)) l = true).
      { apply forallb_forall. intros x Hx. rewrite Forall_forall in Hch. destruct (Hch x Hx) as [_ Hu].
        rewrite (unmasked_not_maskedc x Hu). reflexivity. }
      apply andb_true_iff in Hwf. destruct Hwf as [Hwf Hel].
      destruct (str_eqb dtype dt_obj) eqn:Hd.
      * destruct (hashable_iterable false _) as [d|e] eqn:Hd'; [|discriminate]. cbn [bind] in Hth.
        inversion Hth; subst. apply conv_hashable. simpl. rewrite ints_hashable. rewrite (Hconv d) by auto. reflexivity.
      * cbn [bind] in Hth. inversion Hth; subst. apply conv_hashable. simpl. rewrite ints_hashable.
        rewrite (nd_elems_hashable masked dtype l); auto.
  - destruct (py_hashable (PSetv sk l)) eqn:Hh.
    { rewrite th_hashable in Hth by exact Hh. inversion Hth; subst. exact Hh. }
    rewrite th_set in Hth by exact Hh. unfold set_body in Hth.
    destruct (hashable_iterable true _) as [d|e] eqn:Hd; [|discriminate]. cbn [bind] in Hth. inversion Hth; subst.
    apply conv_hashable. apply iterable_sorted in Hd. destruct Hd as (es & out & Hs & -> & HF). simpl.
    apply py_sort_perm in Hs.
    simpl in Hwf. apply andb_true_iff in Hwf. destruct Hwf as [Hwf _]. apply andb_true_iff in Hwf.
    destruct Hwf as [_ Hhl]. rewrite forallb_forall in Hhl.
    assert (Hes : forall e y, In e es -> snd e = Ok y -> py_hashable y = true).
    { intros e y He Hy. apply (Permutation_in _ (Permutation_sym Hs)) in He. apply in_map_iff in He.
      destruct He as (x & <- & Hx). simpl in Hy. rewrite th_hashable in Hy by auto. inversion Hy; subst. auto. }
    clear -HF Hes. induction HF as [|e y es out Hy H IH]; simpl; auto.
    rewrite (Hes e y); simpl; auto. apply IH. intros; eapply Hes; simpl; eauto.
  - rewrite th_map in Hth.
    simpl in Hwf. apply andb_true_iff in Hwf. destruct Hwf as [Hwf Hkind].
    apply andb_true_iff in Hwf. destruct Hwf as [Hwf _]. apply andb_true_iff in Hwf. destruct Hwf as [Hwfkv Hhk].
    rewrite forallb_forall in Hwfkv, Hhk.
    unfold unmasked in Hum. simpl in Hum. rewrite forallb_forall in Hum.
    unfold no_pandas in Hnp. simpl in Hnp. rewrite forallb_forall in Hnp.
    rewrite Forall_forall in IH.
    assert (Hitems : forall it, In it (mk_items fp kvs) ->
              py_hashable (fst (fst it)) = true /\ (forall hv, snd it = Ok hv -> py_hashable hv = true)).
    { intros it Hit. apply in_mk_items in Hit. destruct Hit as (kv & Hkv & ->). simpl. split; [apply Hhk; auto|].
      intros hv Hhv. specialize (Hwfkv kv Hkv). apply andb_true_iff in Hwfkv. destruct Hwfkv as [_ Hwv].
      specialize (Hum kv Hkv). apply andb_true_iff in Hum. destruct Hum as [_ Humv].
      specialize (Hnp kv Hkv). apply andb_true_iff in Hnp. destruct Hnp as [_ Hnpv].
      destruct (IH kv Hkv) as [_ IHv]. eapply IHv; eauto. }
    assert (Hmapping : forall srt d, hashable_mapping srt (mk_items fp kvs) = Ok d -> py_hashable d = true).
    { intros srt d Hd. apply mapping_out in Hd. destruct Hd as (its & out & Hs & -> & HF). simpl.
      apply sorted_items_in in Hs.
      assert (Hits : forall it, In it its -> In it (mk_items fp kvs))
        by (intros it Hit; apply (Permutation_in _ (Permutation_sym Hs)); auto).
      clear -HF Hits Hitems. induction HF as [|it y its out Hy H IH]; simpl; auto.
      destruct Hy as (hv & Hhv & ->). destruct (Hitems it) as [Hk Hv]; [apply Hits; simpl; auto|].
      simpl. rewrite Hk, (Hv hv Hhv). simpl. apply IH. intros; apply Hits; simpl; auto. }
    unfold map_body in Hth. destruct mk.
    + destruct (hashable_mapping true _) as [d|e] eqn:Hd; [|discriminate]. cbn [bind] in Hth. inversion Hth; subst.
      apply conv_hashable. eauto.
    + destruct (hashable_mapping false _) as [d|e] eqn:Hd; [|discriminate]. cbn [bind] in Hth. inversion Hth; subst.
      apply conv_hashable. eauto.
    + destruct (hashable_mapping true _) as [d|e] eqn:Hd; [|discriminate]. cbn [bind] in Hth. inversion Hth; subst.
      apply conv_hashable. simpl. rewrite (Hmapping true d) by auto. destruct factory; reflexivity.
    + destruct (py_sort item_lt _) as [its|e] eqn:Hs; [|discriminate]. cbn [bind] in Hth. inversion Hth; subst.
      apply conv_hashable. simpl. apply py_sort_perm in Hs.
      apply forallb_forall. intros y Hy. apply in_map_iff in Hy. destruct Hy as (it & <- & Hit).
      apply (Permutation_in _ (Permutation_sym Hs)) in Hit.
      destruct (Hitems it Hit) as [Hk _]. apply in_mk_items in Hit. destruct Hit as (kv & Hkv & ->). simpl in *.
      rewrite Hk. rewrite forallb_forall in Hkind. specialize (Hkind kv Hkv).
      rewrite (scalar_hashable (snd kv)); [reflexivity|]. rewrite Hkind. reflexivity.
  - unfold no_pandas in Hnp. simpl in Hnp. discriminate.
  - unfold no_pandas in Hnp. simpl in Hnp. discriminate.
Qed.

(* the full statement (every supported value gets a hashable key) fails on masked arrays *)
Definition w_masked : pyval :=
  PSeq (KNd true (s "<i8") [3%Z]) [PInt 1; PA AMasked; PInt 3].
Lemma key_hashable_refuted :
  exists v k, supported v = true /\ to_hashable true v = Ok k /\ py_hashable k = false.
Proof. exists w_masked. eexists. split; [vm_compute; reflexivity|]. split; vm_compute; reflexivity. Qed.
